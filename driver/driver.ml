(* driver.ml — runs the extracted Coq model (Model) on a case file and prints the same canonical
   observation lines as the Rust harness.  Everything that decides behaviour is extracted code;
   this file only parses, converts numbers and prints. *)
module M = Model

(* ---- number conversions ---- *)
let rec pos_of_int i =
  if i = 1 then M.XH else if i land 1 = 0 then M.XO (pos_of_int (i lsr 1)) else M.XI (pos_of_int (i lsr 1))
let n_of_int i = if i = 0 then M.N0 else M.Npos (pos_of_int i)
let rec int_of_pos = function M.XH -> 1 | M.XO p -> 2 * int_of_pos p | M.XI p -> 2 * int_of_pos p + 1
let int_of_n = function M.N0 -> 0 | M.Npos p -> int_of_pos p
let nat_of_int i = let r = ref M.O in for _ = 1 to i do r := M.S !r done; !r
let int_of_nat n = let rec go acc = function M.O -> acc | M.S k -> go (acc + 1) k in go 0 n
let rec pos_of_z (x : Z.t) =
  if Z.equal x Z.one then M.XH
  else if Z.is_even x then M.XO (pos_of_z (Z.shift_right x 1)) else M.XI (pos_of_z (Z.shift_right x 1))
let mz_of_z (x : Z.t) : M.z =
  if Z.sign x = 0 then M.Z0 else if Z.sign x > 0 then M.Zpos (pos_of_z x) else M.Zneg (pos_of_z (Z.neg x))
let rec z_of_pos = function
  | M.XH -> Z.one | M.XO p -> Z.shift_left (z_of_pos p) 1 | M.XI p -> Z.succ (Z.shift_left (z_of_pos p) 1)
let z_of_mz = function M.Z0 -> Z.zero | M.Zpos p -> z_of_pos p | M.Zneg p -> Z.neg (z_of_pos p)

(* ---- cases ---- *)
type case = {
  mutable id : string; mutable var : string; mutable kind : int; mutable nfb : int;
  mutable vt : string; mutable entry : string; mutable ops : string;
  mutable pats : (int list * string) list; mutable hays : int list list; mutable trail : int list;
  mutable flags : string; mutable pf : int list option; mutable pp : int list option; mutable stdin : int list;
  mutable files : (int list * int list) list; mutable imghex : string }
let new_case () = { id = ""; var = "bw"; kind = 0; nfb = 16; vt = "u32"; entry = "build"; ops = "";
                    pats = []; hays = []; trail = [];
                    flags = ""; pf = None; pp = None; stdin = []; files = []; imghex = "" }
let unhex s =
  if s = "-" then [] else
  List.init (String.length s / 2) (fun i -> int_of_string ("0x" ^ String.sub s (2 * i) 2))
let split_ws s = List.filter (fun x -> x <> "") (String.split_on_char ' ' s)
let parse_cases ic =
  let out = ref [] and cur = ref (new_case ()) in
  (try while true do
     let line = input_line ic in
     match split_ws line with
     | "CASE" :: id :: _ -> cur := new_case (); !cur.id <- id
     | "VAR" :: v :: _ -> !cur.var <- v
     | "KIND" :: v :: _ -> !cur.kind <- int_of_string v
     | "NFB" :: v :: _ -> !cur.nfb <- int_of_string v
     | "VT" :: v :: _ -> !cur.vt <- v
     | "ENTRY" :: v :: _ -> !cur.entry <- v
     | "OPS" :: v :: _ -> !cur.ops <- v
     | "OPS" :: [] -> !cur.ops <- ""
     | "P" :: p :: v :: _ -> !cur.pats <- (unhex p, v) :: !cur.pats
     | "P" :: p :: [] -> !cur.pats <- (unhex p, "0") :: !cur.pats
     | "H" :: h :: _ -> !cur.hays <- unhex h :: !cur.hays
     | "T" :: t :: _ -> !cur.trail <- unhex t
     | "IMGHEX" :: x :: _ -> !cur.imghex <- x
     | "FLAGS" :: f :: _ -> !cur.flags <- f
     | "PF" :: x :: _ -> !cur.pf <- Some (unhex x)
     | "PP" :: x :: _ -> !cur.pp <- Some (unhex x)
     | "STDIN" :: x :: _ -> !cur.stdin <- unhex x
     | "FILE" :: n :: x :: _ -> !cur.files <- !cur.files @ [(unhex n, unhex x)]
     | "END" :: _ ->
       let c = !cur in
       c.pats <- List.rev c.pats; c.hays <- List.rev c.hays; out := c :: !out
     | _ -> ()
   done with End_of_file -> ());
  List.rev !out

let vtype_of = function
  | "u8" -> M.VUnsigned (nat_of_int 1) | "u16" -> M.VUnsigned (nat_of_int 2)
  | "u32" | "from1" -> M.VUnsigned (nat_of_int 4) | "u64" | "usize" -> M.VUnsigned (nat_of_int 8)
  | "u128" -> M.VUnsigned (nat_of_int 16) | "user3" -> M.VUnsigned (nat_of_int 3)
  | "i8" -> M.VSigned (nat_of_int 1) | "i16" -> M.VSigned (nat_of_int 2)
  | "i32" -> M.VSigned (nat_of_int 4) | "i64" | "isize" -> M.VSigned (nat_of_int 8)
  | "i128" -> M.VSigned (nat_of_int 16) | "empty" -> M.VEmpty
  | t -> failwith ("unknown value type " ^ t)
(* size_of::<Output<V>>() on the 64-bit target (printed by the harness too, so a wrong entry
   shows up as a STATS disagreement) *)
let out_size = function
  | "u8" | "u16" | "u32" | "i8" | "i16" | "i32" | "user3" | "from1" -> 12
  | "u64" | "i64" | "usize" | "isize" -> 16
  | "u128" | "i128" -> 32
  | "empty" -> 8
  | t -> failwith ("unknown value type " ^ t)
let kind_of = function 1 -> M.LeftmostLongest | 2 -> M.LeftmostFirst | _ -> M.Standard
let err_name = function
  | M.InvalidArgument -> "InvalidArgument" | M.DuplicatePattern -> "DuplicatePattern"
  | M.AutomatonScale -> "AutomatonScale" | M.InvalidConversion -> "InvalidConversion"

let fnv0 = 0xcbf29ce484222325L
let fnv_byte h b = Int64.mul (Int64.logxor h (Int64.of_int b)) 0x100000001b3L
let fnv_u32 h x =
  let h = fnv_byte h (x land 255) in let h = fnv_byte h ((x lsr 8) land 255) in
  let h = fnv_byte h ((x lsr 16) land 255) in fnv_byte h ((x lsr 24) land 255)
let hash_nlist (l : M.n list) = List.fold_left (fun h b -> fnv_byte h (int_of_n b)) fnv0 l

let nlist l = List.map n_of_int l
let buf = Buffer.create 65536
let pr fmt = Printf.bprintf buf fmt

let show_triple (t : ((M.nat * M.nat) * M.z)) =
  let ((s, e), v) = t in
  Printf.sprintf "%d,%d,%s" (int_of_nat s) (int_of_nat e) (Z.to_string (z_of_mz v))

(* run an iterator to exhaustion; returns (lines of matches with optional pulls, final state) *)
let run_iter (next : 'it -> (M.z M.mtch option * 'it) M.res) (it0 : 'it)
    (pulled : 'it -> int) (with_pulls : bool) : string * 'it option =
  let b = Buffer.create 64 in
  let rec go it =
    match next it with
    | M.Ok (None, it') ->
      if with_pulls then Buffer.add_string b (Printf.sprintf " @%d" (pulled it')); Some it'
    | M.Ok (Some m, it') ->
      (match M.triple m with
       | M.Ok t ->
         Buffer.add_string b (" " ^ show_triple t);
         if with_pulls then Buffer.add_string b (Printf.sprintf "@%d" (pulled it'));
         go it'
       | _ -> Buffer.add_string b " !panic"; None)
    | M.Panic _ -> Buffer.clear b; Buffer.add_string b " !panic"; None
    | M.UB _ -> Buffer.clear b; Buffer.add_string b " !ub"; None
    | M.OutOfFuel -> Buffer.clear b; Buffer.add_string b " !fuel"; None
    | M.Err _ -> Buffer.clear b; Buffer.add_string b " !err"; None
  in
  let fin = go it0 in
  (Buffer.contents b, fin)

let show_api (r : ((M.nat * M.nat) * M.z) list M.res) =
  match r with
  | M.Ok l -> String.concat "" (List.map (fun t -> " " ^ show_triple t) l)
  | M.Panic _ -> " !panic" | M.UB _ -> " !ub" | M.OutOfFuel -> " !fuel" | M.Err _ -> " !err"

(* ---- the property text as an oracle: extracted Spec on (patterns, haystack) ---- *)
let show_triples l = String.concat "" (List.map (fun t -> " " ^ show_triple t) l)
(* V::try_from(usize) of the case's value type; "from1" is the harness's user type that rejects
   position 0 (u32 otherwise) *)
let conv_of (c : case) =
  let vt = vtype_of c.vt in
  if c.vt = "from1" then (fun i -> if i = M.O then None else M.vt_conv vt i) else M.vt_conv vt
let spec_pvs (c : case) : (M.n list * M.z) list option =
  let vt = vtype_of c.vt in
  match c.entry with
  | "build" | "new" ->
    let rec go i = function
      | [] -> Some []
      | (p, _) :: r ->
        (match conv_of c (nat_of_int i), go (i + 1) r with
         | Some v, Some l -> Some ((nlist p, v) :: l)
         | _ -> None) in
    go 0 c.pats
  | _ -> Some (List.map (fun (p, v) -> (nlist p, mz_of_z (Z.of_string v))) c.pats)
let spec_build (c : case) =
  let ps = List.map (fun (p, _) -> nlist p) c.pats in
  let r = match c.entry with
    | "build" | "new" -> M.spec_build_error_conv (conv_of c) ps
    | _ -> M.spec_build_error ps in
  match r with
  | None -> pr "SPECBUILD ok\n"
  | Some k -> pr "SPECBUILD err:%s\n" (err_name k)
let spec_searches (c : case) =
  match spec_pvs c with
  | None -> ()
  | Some pvs ->
    let kind = if c.entry = "new" || c.entry = "with_values" then 0 else c.kind in
    List.iteri (fun j h ->
        let hn = nlist h in
        if kind = 0 then begin
          pr "SPECOVL %d%s\n" j (show_triples (M.spec_overlapping pvs hn));
          pr "SPECFIND %d%s\n" j (show_triples (M.spec_find pvs hn));
          pr "SPECNOS %d%s\n" j (show_triples (M.spec_nosuffix pvs hn))
        end else if kind = 1 then
          pr "SPECLEFT %d%s\n" j (show_triples (M.spec_lml pvs hn))
        else
          pr "SPECLEFT %d%s\n" j (show_triples (M.spec_lmf pvs hn))) c.hays;
    (* 'N' (huge pattern sets: implementation + specification only): the quadratic prefix count is skipped *)
    if not (String.contains c.ops 'N') then begin
      let eff = if kind = 2 then M.effective pvs else pvs in
      (* states are counted in the automaton's own label alphabet: bytes, or characters for cw *)
      let eff = if c.var = "cw" then
          List.map (fun (p, v) -> ((match M.chars_of p with Some cs -> cs | None -> p), v)) eff
        else eff in
      pr "SPECSTATES %d\n" (1 + List.length (M.distinct_nonempty_prefixes eff))
    end

(* ---- byte-wise ---- *)
let bw_searches (a : M.z M.bw_automaton) (c : case) pre =
  let sget = M.bw_sget a and oget = M.bw_oget a and ns = M.bw_nslots a in
  (* a haystack passed by value (moved with the iterator) is searched like the borrowed slice: the
     model has one search function for both *)
  List.iteri (fun j h -> if List.length h <= 24 then pr "%sBYVAL %d 1\n" pre j) c.hays;
  List.iteri (fun j h ->
      let hn = nlist h in
      let small = List.length h <= 48 in
      if c.kind = 0 then begin
        let fpull (it : M.find_it) = int_of_nat it.M.f_src.M.s_pulled in
        let vpull (it : M.ovl_it) = int_of_nat it.M.v_src.M.s_pulled in
        let xpull (it : M.nos_it) = int_of_nat it.M.x_src.M.s_pulled in
        let (s1, f1) = run_iter (M.ovl_next sget oget ns) (M.ovl_init hn) vpull false in
        let (s2, f2) = run_iter (M.find_next sget oget ns) (M.find_init hn) fpull false in
        let (s3, f3) = run_iter (M.nos_next sget oget ns) (M.nos_init hn) xpull false in
        let s1 = if small && show_api (M.bw_find_overlapping_iter a hn) <> s1 then " !apimismatch" else s1 in
        let s2 = if small && show_api (M.bw_find_iter a hn) <> s2 then " !apimismatch" else s2 in
        let s3 = if small && show_api (M.bw_find_overlapping_no_suffix_iter a hn) <> s3 then " !apimismatch" else s3 in
        pr "%sOVL %d%s\n" pre j s1; pr "%sFIND %d%s\n" pre j s2; pr "%sNOS %d%s\n" pre j s3;
        let t o f = match o with Some it -> string_of_int (int_of_n (f it)) | None -> "?" in
        pr "%sTICKS %d %s %s %s\n" pre j (t f1 (fun it -> it.M.v_ticks)) (t f2 (fun it -> it.M.f_ticks))
          (t f3 (fun it -> it.M.x_ticks));
        let (p1, _) = run_iter (M.ovl_next sget oget ns) (M.ovl_init hn) vpull true in
        let (p2, _) = run_iter (M.find_next sget oget ns) (M.find_init hn) fpull true in
        let (p3, _) = run_iter (M.nos_next sget oget ns) (M.nos_init hn) xpull true in
        pr "%sOVLI %d%s\n" pre j p1; pr "%sFINDI %d%s\n" pre j p2; pr "%sNOSI %d%s\n" pre j p3
      end else begin
        let (s1, f1) = run_iter (M.lm_next sget oget ns) (M.lm_init hn) (fun _ -> 0) false in
        let s1 = if small && show_api (M.bw_leftmost_find_iter a hn) <> s1 then " !apimismatch" else s1 in
        pr "%sLEFT %d%s\n" pre j s1;
        pr "%sTICKS %d %s\n" pre j (match f1 with Some it -> string_of_int (int_of_n it.M.l_ticks) | None -> "?")
      end) c.hays

(* the Coq-proved certificate checker (Model/Cert.v) on an automaton: for all haystacks *)
let zeqb (a : M.z) (b : M.z) = (a = b)
let bw_cert tag (a : M.z M.bw_automaton) (c : case) =
  if c.kind = 0 || c.entry = "new" || c.entry = "with_values" then
    match spec_pvs c with
    | None -> ()
    | Some pvs ->
      let ok = M.bw_cert_ok zeqb a pvs in
      pr "%sCERT %d %d\n" tag (if ok then 1 else 0) (int_of_n (M.bw_cert_count a pvs))
  else
    match spec_pvs c with
    | None -> ()
    | Some pvs ->
      (* leftmost: the automaton holds the effective (non-shadowed) patterns under leftmost-first *)
      let pvs = if c.kind = 2 then M.effective pvs else pvs in
      pr "%sLCERT %d\n" tag (if M.bw_lm_cert_ok zeqb a pvs then 1 else 0)

let res_n = function M.Ok (t, _) -> int_of_n t | _ -> 0xEEEEEEEE
let bw_table (a : M.z M.bw_automaton) kind =
  let sget = M.bw_sget a and ns = M.bw_nslots a in
  let n = int_of_n ns in
  let fuel = M.fuel0 ns in
  let labels = Array.init 256 n_of_int in
  let child s l = match M.bw_child sget s l with M.Ok (Some t) -> int_of_n t | M.Ok None -> -1 | _ -> -2 in
  let seen = Array.make (max n 1) false in
  let order = ref [0] and queue = Queue.create () in
  Queue.add 0 queue; seen.(0) <- true;
  while not (Queue.is_empty queue) do
    let s = Queue.pop queue in
    let sn = n_of_int s in
    Array.iter (fun l ->
        let t = child sn l in
        if t >= 0 && t < n && not seen.(t) then begin seen.(t) <- true; order := t :: !order; Queue.add t queue end)
      labels
  done;
  let order = List.sort compare !order in
  let hc = ref fnv0 and hn = ref fnv0 in
  List.iter (fun s ->
      let sn = n_of_int s in
      Array.iter (fun l ->
          let ch = child sn l in
          hc := fnv_u32 !hc (if ch = -1 then 0xFFFFFFFF else if ch = -2 then 0xEEEEEEEE else ch);
          let nx = if kind = 0 then res_n (M.bw_next_state sget fuel sn l M.N0)
            else res_n (M.bw_next_state_lm sget fuel sn l M.N0) in
          hn := fnv_u32 !hn nx) labels) order;
  pr "TABLE %d %016Lx %016Lx\n" (List.length order) !hc !hn

let kindchk_hays = ref true
let kindchk kind =
  if kind = 0 then pr "KINDCHK ok ok ok panic\n" else pr "KINDCHK panic panic panic ok\n";
  (* the byte-iterator entry points assert the kind too *)
  if !kindchk_hays then (if kind = 0 then pr "KINDCHKI ok ok ok\n" else pr "KINDCHKI panic panic panic\n")

let run_bw (c : case) =
  let vt = vtype_of c.vt in
  let kind = kind_of c.kind and nfb = n_of_int c.nfb in
  let r =
    match c.entry with
    | "build" -> M.bw_build (conv_of c) kind nfb (List.map (fun (p, _) -> nlist p) c.pats)
    | "new" -> M.bw_build (conv_of c) M.Standard (n_of_int 16) (List.map (fun (p, _) -> nlist p) c.pats)
    | "values" -> M.bw_build_with_values kind nfb (List.map (fun (p, v) -> (nlist p, mz_of_z (Z.of_string v))) c.pats)
    | "with_values" -> M.bw_build_with_values M.Standard (n_of_int 16) (List.map (fun (p, v) -> (nlist p, mz_of_z (Z.of_string v))) c.pats)
    | e -> failwith ("unknown entry " ^ e) in
  (* the static constructors ARE the builder with default options (model: one definition) *)
  if c.entry = "new" || c.entry = "with_values" then pr "DEFAULTB 1\n";
  match r with
  | M.Err k -> pr "BUILD err:%s\n" (err_name k)
  | M.Panic _ -> pr "BUILD panic\n"
  | M.UB _ -> pr "BUILD !ub\n"
  | M.OutOfFuel -> pr "BUILD !fuel\n"
  | M.Ok a ->
    pr "BUILD ok\n";
    let sv = M.vt_serializable vt in
    let img = M.bw_serialize sv a in
    pr "IMG %d %016Lx\n" (List.length img) (hash_nlist img);
    let osz = out_size c.vt in
    pr "STATS %d %d %d %d\n" (int_of_n a.M.bw_num_states) (List.length a.M.bw_states)
      (int_of_n (M.bw_heap_bytes (n_of_int osz) a)) osz;
    if String.contains c.ops 'T' then bw_table a c.kind;
    bw_cert "M" a c;
    pr "MSAFE %d\n" (if M.bw_safe_b a then 1 else 0);
    if String.contains c.ops 'S' then begin
      bw_searches a c "";
      (* Clone, partially consumed and interleaved iterators: the model's searches are functions of immutable values *)
      if c.hays <> [] && not (String.contains c.ops 'N') then pr "APIX 1 1 1 1\n"
    end;
    if String.contains c.ops 'K' then (kindchk_hays := (c.hays <> []); kindchk c.kind);
    if String.contains c.ops 'R' then begin
      let src = img @ nlist c.trail in
      match M.bw_deserialize sv src with
      | M.Ok (other, rest) ->
        let consumed = List.length src - List.length rest in
        let rest_ok = (rest = nlist c.trail) in
        let re = M.bw_serialize sv other in
        pr "RT %d %d %016Lx %d\n" consumed (if rest_ok then 1 else 0) (hash_nlist re) (if other = a then 1 else 0);
        pr "RSTATS %d %d %d %d\n" (int_of_n other.M.bw_num_states) (List.length other.M.bw_states)
          (int_of_n (M.bw_heap_bytes (n_of_int osz) other)) osz;
        if String.contains c.ops 'S' then bw_searches other c "R"
      | M.Panic _ -> pr "RT panic\n"
      | _ -> pr "RT !bad\n"
    end;
    if String.contains c.ops 'D' then pr "DET 1\n";
    if String.contains c.ops 'M' then pr "THREADS 1 1\n"

(* ---- char-wise ---- *)
let is_scalar c = c < 0xD800 || (c > 0xDFFF && c <= 0x10FFFF)
let cw_labels (pats : int list list) =
  let s = List.sort_uniq compare (List.concat pats) in
  let u1 = ref 0 in
  while List.mem !u1 s do incr u1 done;
  let labels = ref (s @ [!u1]) in
  (match List.rev s with
   | mx :: _ -> let c = mx + 1 in if is_scalar c && not (List.mem c !labels) then labels := !labels @ [c]
   | [] -> ());
  if not (List.mem 0x10FFFF !labels) then labels := !labels @ [0x10FFFF];
  !labels

let cw_searches (a : M.z M.cw_automaton) (c : case) pre =
  let sget = M.cw_sget a and oget = M.cw_oget a and tget = M.cw_tget a and ns = M.cw_nslots a in
  List.iteri (fun j h ->
      let hn = nlist h in
      let small = List.length h <= 48 in
      if c.kind = 0 then begin
        let fpull (it : M.find_it) = int_of_nat it.M.f_src.M.s_pulled in
        let vpull (it : M.ovl_it) = int_of_nat it.M.v_src.M.s_pulled in
        let xpull (it : M.nos_it) = int_of_nat it.M.x_src.M.s_pulled in
        let (s1, f1) = run_iter (M.covl_next sget oget tget ns) (M.ovl_init hn) vpull false in
        let (s2, f2) = run_iter (M.cfind_next sget oget tget ns) (M.find_init hn) fpull false in
        let (s3, f3) = run_iter (M.cnos_next sget oget tget ns) (M.nos_init hn) xpull false in
        let s1 = if small && show_api (M.cw_find_overlapping_iter a hn) <> s1 then " !apimismatch" else s1 in
        let s2 = if small && show_api (M.cw_find_iter a hn) <> s2 then " !apimismatch" else s2 in
        let s3 = if small && show_api (M.cw_find_overlapping_no_suffix_iter a hn) <> s3 then " !apimismatch" else s3 in
        pr "%sOVL %d%s\n" pre j s1; pr "%sFIND %d%s\n" pre j s2; pr "%sNOS %d%s\n" pre j s3;
        let t o f = match o with Some it -> string_of_int (int_of_n (f it)) | None -> "?" in
        pr "%sTICKS %d %s %s %s\n" pre j (t f1 (fun it -> it.M.v_ticks)) (t f2 (fun it -> it.M.f_ticks))
          (t f3 (fun it -> it.M.x_ticks));
        let (p1, _) = run_iter (M.covl_next sget oget tget ns) (M.ovl_init hn) vpull true in
        let (p2, _) = run_iter (M.cfind_next sget oget tget ns) (M.find_init hn) fpull true in
        let (p3, _) = run_iter (M.cnos_next sget oget tget ns) (M.nos_init hn) xpull true in
        pr "%sOVLI %d%s\n" pre j p1; pr "%sFINDI %d%s\n" pre j p2; pr "%sNOSI %d%s\n" pre j p3
      end else begin
        let (s1, f1) = run_iter (M.clm_next sget oget tget ns) (M.lm_init hn) (fun _ -> 0) false in
        let s1 = if small && show_api (M.cw_leftmost_find_iter a hn) <> s1 then " !apimismatch" else s1 in
        pr "%sLEFT %d%s\n" pre j s1;
        pr "%sTICKS %d %s\n" pre j (match f1 with Some it -> string_of_int (int_of_n it.M.l_ticks) | None -> "?")
      end) c.hays

let cw_table (a : M.z M.cw_automaton) kind (pats : int list list) =
  let sget = M.cw_sget a and tget = M.cw_tget a and ns = M.cw_nslots a in
  let n = int_of_n ns in
  let labels = Array.of_list (List.map n_of_int (cw_labels pats)) in
  let child s l =
    match M.mapper_get tget l with
    | None -> -1
    | Some mc -> (match M.cw_child sget s mc with M.Ok (Some t) -> int_of_n t | M.Ok None -> -1 | _ -> -2) in
  let seen = Array.make (max n 1) false in
  let order = ref [0] and queue = Queue.create () in
  Queue.add 0 queue; seen.(0) <- true;
  while not (Queue.is_empty queue) do
    let s = Queue.pop queue in
    let sn = n_of_int s in
    Array.iter (fun l ->
        let t = child sn l in
        if t >= 0 && t < n && not seen.(t) then begin seen.(t) <- true; order := t :: !order; Queue.add t queue end)
      labels
  done;
  let order = List.sort compare !order in
  let hc = ref fnv0 and hn = ref fnv0 in
  List.iter (fun s ->
      let sn = n_of_int s in
      Array.iter (fun l ->
          let ch = child sn l in
          hc := fnv_u32 !hc (if ch = -1 then 0xFFFFFFFF else if ch = -2 then 0xEEEEEEEE else ch);
          let nx = if kind = 0 then res_n (M.cw_next_state sget tget ns sn l M.N0)
            else res_n (M.cw_next_state_lm sget tget ns sn l M.N0) in
          hn := fnv_u32 !hn nx) labels) order;
  pr "TABLE %d %016Lx %016Lx\n" (List.length order) !hc !hn

let run_cw (c : case) =
  if List.exists (fun (p, _) -> M.chars_of (nlist p) = None) c.pats
  || List.exists (fun h -> M.chars_of (nlist h) = None) c.hays then pr "SKIP notutf8\n" else
  let vt = vtype_of c.vt in
  let kind = kind_of c.kind and nfb = n_of_int c.nfb in
  let chars p = match M.chars_of (nlist p) with Some cs -> cs | None -> failwith "pattern not UTF-8" in
  let cps = List.map (fun (p, _) -> chars p) c.pats in
  let r =
    match c.entry with
    | "build" -> M.cw_build (conv_of c) kind nfb cps
    | "new" -> M.cw_build (conv_of c) M.Standard (n_of_int 16) cps
    | "values" -> M.cw_build_with_values kind nfb (List.map2 (fun p (_, v) -> (p, mz_of_z (Z.of_string v))) cps c.pats)
    | "with_values" -> M.cw_build_with_values M.Standard (n_of_int 16) (List.map2 (fun p (_, v) -> (p, mz_of_z (Z.of_string v))) cps c.pats)
    | e -> failwith ("unknown entry " ^ e) in
  (* the static constructors ARE the builder with default options (model: one definition) *)
  if c.entry = "new" || c.entry = "with_values" then pr "DEFAULTB 1\n";
  match r with
  | M.Err k -> pr "BUILD err:%s\n" (err_name k)
  | M.Panic _ -> pr "BUILD panic\n"
  | M.UB _ -> pr "BUILD !ub\n"
  | M.OutOfFuel -> pr "BUILD !fuel\n"
  | M.Ok a ->
    pr "BUILD ok\n";
    let sv = M.vt_serializable vt in
    let img = M.cw_serialize sv a in
    pr "IMG %d %016Lx\n" (List.length img) (hash_nlist img);
    let osz = out_size c.vt in
    pr "STATS %d %d %d %d\n" (int_of_n a.M.cw_num_states) (List.length a.M.cw_states)
      (int_of_n (M.cw_heap_bytes (n_of_int osz) a)) osz;
    if String.contains c.ops 'T' then cw_table a c.kind (List.map (List.map int_of_n) cps);
    (if c.kind = 0 || c.entry = "new" || c.entry = "with_values" then
       match spec_pvs c with
       | None -> ()
       | Some pvs ->
         let cpvs = List.map (fun (p, v) -> ((match M.chars_of p with Some cs -> cs | None -> p), v)) pvs in
         pr "MCCERT %d\n" (if M.cw_cert_ok zeqb a cpvs then 1 else 0)
     else
       match spec_pvs c with
       | None -> ()
       | Some pvs ->
         let pvs = if c.kind = 2 then M.effective pvs else pvs in
         let cpvs = List.map (fun (p, v) -> ((match M.chars_of p with Some cs -> cs | None -> p), v)) pvs in
         pr "MLCERT %d\n" (if M.cw_lm_cert_ok zeqb a cpvs then 1 else 0));
    pr "MSAFE %d\n" (if M.cw_safe_b a then 1 else 0);
    if String.contains c.ops 'S' then begin
      cw_searches a c "";
      if c.hays <> [] && not (String.contains c.ops 'N') then pr "APIX 1 1 1 1\n"
    end;
    if String.contains c.ops 'K' then (kindchk_hays := (c.hays <> []); kindchk c.kind);
    if String.contains c.ops 'R' then begin
      let src = img @ nlist c.trail in
      match M.cw_deserialize sv src with
      | M.Ok (other, rest) ->
        let consumed = List.length src - List.length rest in
        let rest_ok = (rest = nlist c.trail) in
        let re = M.cw_serialize sv other in
        pr "RT %d %d %016Lx %d\n" consumed (if rest_ok then 1 else 0) (hash_nlist re) (if other = a then 1 else 0);
        pr "RSTATS %d %d %d %d\n" (int_of_n other.M.cw_num_states) (List.length other.M.cw_states)
          (int_of_n (M.cw_heap_bytes (n_of_int osz) other)) osz;
        if String.contains c.ops 'S' then cw_searches other c "R"
      | M.Panic _ -> pr "RT panic\n"
      | _ -> pr "RT !bad\n"
    end;
    if String.contains c.ops 'D' then pr "DET 1\n";
    if String.contains c.ops 'M' then pr "THREADS 1 1\n"

(* ---- daacfind ---- *)
let hex_of (l : M.n list) = if l = [] then "-" else String.concat "" (List.map (fun b -> Printf.sprintf "%02x" (int_of_n b)) l)
let run_cli (c : case) =
  let fl = { M.cf_color = String.contains c.flags 'c'; M.cf_lineno = String.contains c.flags 'n';
             M.cf_nofilename = String.contains c.flags 'h' } in
  let o f = match f with Some x -> Some (nlist x) | None -> None in
  let files = List.map (fun (n, x) -> (nlist n, nlist x)) c.files in
  (match M.cli_main fl (o c.pf) (o c.pp) (nlist c.stdin) files with
   | M.Ok (out, st) -> pr "OUT %s\n" (hex_of out); pr "EXIT %d\n" (int_of_n st)
   | M.Panic _ -> pr "OUT !panic\nEXIT 101\n"
   | M.UB _ -> pr "OUT !ub\n"
   | M.OutOfFuel -> pr "OUT !fuel\n"
   | M.Err _ -> pr "OUT !err\n");
  (* the program on arbitrary bytes (Model/CliRaw.v): lines() errors on a line that is not UTF-8 *)
  (match M.cli_main_raw fl (o c.pf) (o c.pp) (nlist c.stdin) files with
   | M.Ok (out, st) -> pr "ROUT %s\n" (hex_of out); pr "REXIT %d\n" (int_of_n st)
   | M.Panic _ -> pr "ROUT !panic\nREXIT 101\n"
   | M.UB _ -> pr "ROUT !ub\n"
   | M.OutOfFuel -> pr "ROUT !fuel\n"
   | M.Err _ -> pr "ROUT !err\n");
  (* the property text: per input line, all occurrences of the patterns (extracted Spec) *)
  let pats = M.cli_patterns (o c.pf) (o c.pp) in
  (match M.spec_build_error pats with
   | None -> pr "SPECBUILD ok\n"
   | Some k -> pr "SPECBUILD err:%s\n" (err_name k));
  let pvs = List.map (fun p -> (p, M.Z0)) pats in
  let srcs = if files = [] then [("-", nlist c.stdin)] else List.map (fun (n, x) -> (hex_of n, x)) files in
  List.iter (fun (name, content) ->
      List.iteri (fun k line ->
          let occs = M.spec_overlapping pvs line in
          pr "SPECLINE %s %d %s%s\n" name k (hex_of line)
            (String.concat "" (List.map (fun ((s, e), _) -> Printf.sprintf " %d,%d" (int_of_nat s) (int_of_nat e)) occs)))
        (M.buf_lines content)) srcs

(* --cert-image: the case carries the bytes the IMPLEMENTATION serialised; they are parsed with the
   model's deserialiser and given to the Coq-proved certificate checker *)
let unhex_str s = List.init (String.length s / 2) (fun i -> int_of_string ("0x" ^ String.sub s (2 * i) 2))
let cert_image (c : case) =
  if c.var = "bw" && c.imghex <> "" then begin
    let sv = M.vt_serializable (vtype_of c.vt) in
    match M.bw_deserialize sv (nlist (unhex_str c.imghex)) with
    | M.Ok (a, rest) ->
      pr "ISAFE %d\n" (if M.bw_safe_b a then 1 else 0);
      if rest <> [] then pr "ICERT 0 0 trailing\n"
      else if a.M.bw_kind <> M.Standard then begin
        (match spec_pvs c with
         | None -> pr "ILCERT - nopvs\n"
         | Some pvs ->
           (* the automaton of a leftmost-first build holds the effective (non-shadowed) patterns *)
           let pvs = if a.M.bw_kind = M.LeftmostFirst then M.effective pvs else pvs in
           pr "ILCERT %d\n" (if M.bw_lm_cert_ok zeqb a pvs then 1 else 0));
        pr "ICERT - 0 notstandard\n"
      end
      else (match spec_pvs c with
          | None -> pr "ICERT - 0 nopvs\n"
          | Some pvs ->
            let ok = M.bw_cert_ok zeqb a pvs in
            pr "ISTATS %d\n" (if M.bw_stats_ok a pvs then 1 else 0);
            pr "ICERT %d %d\n" (if ok then 1 else 0) (int_of_n (M.bw_cert_count a pvs)))
    | _ -> pr "ISAFE 0\nICERT 0 0 undecodable\n"
  end
  else if c.var = "cw" && c.imghex <> "" then begin
    let sv = M.vt_serializable (vtype_of c.vt) in
    match M.cw_deserialize sv (nlist (unhex_str c.imghex)) with
    | M.Ok (a, rest) ->
      pr "ISAFE %d\n" (if M.cw_safe_b a then 1 else 0);
      if rest <> [] then pr "ICERT 0 0 trailing\n"
      else if a.M.cw_kind <> M.Standard then begin
        (match spec_pvs c with
         | None -> pr "ILCERT - nopvs\n"
         | Some pvs ->
           let pvs = if a.M.cw_kind = M.LeftmostFirst then M.effective pvs else pvs in
           let cpvs = List.map (fun (p, v) -> ((match M.chars_of p with Some cs -> cs | None -> p), v)) pvs in
           pr "ILCERT %d\n" (if M.cw_lm_cert_ok zeqb a cpvs then 1 else 0));
        pr "ICERT - 0 notstandard\n"
      end
      else (match spec_pvs c with
          | None -> pr "ICERT - 0 nopvs\n"
          | Some pvs ->
            let cpvs = List.map (fun (p, v) -> ((match M.chars_of p with Some cs -> cs | None -> p), v)) pvs in
            pr "ICERT %d 0 cw\n" (if M.cw_cert_ok zeqb a cpvs then 1 else 0))
    | _ -> pr "ISAFE 0\nICERT 0 0 undecodable\n"
  end

let () =
  if Array.length Sys.argv > 2 && Sys.argv.(1) = "--cert-image" then begin
    let ic = open_in Sys.argv.(2) in
    let cases = parse_cases ic in
    close_in ic;
    List.iter (fun c ->
        Buffer.clear buf;
        pr "CASE %s\n" c.id;
        (try cert_image c with Stack_overflow -> pr "ICERT 0 0 stackoverflow\n");
        pr "END %s\n" c.id;
        print_string (Buffer.contents buf); flush stdout) cases;
    exit 0
  end;
  let spec_only = Array.length Sys.argv > 2 && Sys.argv.(1) = "--spec-only" in
  let ic = open_in (if spec_only then Sys.argv.(2) else Sys.argv.(1)) in
  let cases = parse_cases ic in
  close_in ic;
  List.iter (fun c ->
      Buffer.clear buf;
      pr "CASE %s\n" c.id;
      if c.var = "cli" then
        (try run_cli c with Stack_overflow -> pr "!stackoverflow\n")
      else begin
        (* ops letter 'N': the case is too large for the model's list-based queues and tables
           (quadratic); only the specification is evaluated, the oracles compare it with the
           implementation, and the correspondence skips the case *)
        let huge = String.contains c.ops 'N' in
        if not spec_only && not huge then
          (try if c.var = "bw" then run_bw c else run_cw c
           with Stack_overflow -> pr "!stackoverflow\n");
        (try (if not huge || List.length c.pats <= 2000 then spec_build c); if String.contains c.ops 'S' then spec_searches c
         with Stack_overflow -> pr "SPEC!stackoverflow\n")
      end;
      pr "END %s\n" c.id;
      print_string (Buffer.contents buf); flush stdout) cases
