#!/bin/sh
# usage: seedtest.sh <patch.diff> <prop> [<prop> ...]   applies the patch to /repo, runs the quick
# checks, reverts /repo.  Prints the VIOLATION lines / summary per property.
PATCH=$1; shift
cd /repo && git apply "$PATCH" || { echo "patch does not apply to /repo"; exit 2; }
cd /verif
rm -rf /verif/build/evidence_backup; cp -r /verif/evidence /verif/build/evidence_backup
for p in "$@"; do ./check $p --tier quick 2>&1 | grep -E "VIOLATION|KNOWN|-> exit" ; done
git -C /repo checkout -- .
rm -rf /verif/evidence; cp -r /verif/build/evidence_backup /verif/evidence   # evidence must describe the unchanged tree
git -C /repo status --short | head -3
