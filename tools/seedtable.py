#!/usr/bin/env python3
"""seedtable.py: prints the markdown table of seeded changes (one row per /verif/seeded/<id>/meta.json)."""
import json, glob, os
rows = []
for d in sorted(glob.glob("/verif/seeded/*/")):
    m = json.load(open(d + "meta.json"))
    def cut(t, n):
        t = " ".join(str(t).split())
        return t if len(t) <= n else t[:n - 1] + "…"
    rows.append(f"| `{m['id']}` | {m.get('breaks_property','')} | {cut(m.get('needs_to_manifest',''), 150)} | {cut(m.get('detected_by',''), 170)} |")
print("| id | property | needs | caught by |\n|---|---|---|---|")
print("\n".join(rows))
print(f"\n({len(rows)} changes)")
