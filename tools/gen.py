#!/usr/bin/env python3
"""Case generators for the correspondence check (DESIGN.md 3.4).  All randomness derives from one
splitmix64 state; every stream starts with deterministic families that reach its target path for
any seed, random cases follow."""
import itertools

MASK = (1 << 64) - 1


class Rng:
    def __init__(self, seed):
        self.s = seed & MASK

    def next(self):
        self.s = (self.s + 0x9E3779B97F4A7C15) & MASK
        z = self.s
        z = ((z ^ (z >> 30)) * 0xBF58476D1CE4E5B9) & MASK
        z = ((z ^ (z >> 27)) * 0x94D049BB133111EB) & MASK
        return z ^ (z >> 31)

    def below(self, n):
        return self.next() % n

    def range(self, a, b):  # inclusive
        return a + self.below(b - a + 1)

    def choice(self, xs):
        return xs[self.below(len(xs))]

    def chance(self, num, den):
        return self.below(den) < num

    def shuffle(self, xs):
        xs = list(xs)
        for i in range(len(xs) - 1, 0, -1):
            j = self.below(i + 1)
            xs[i], xs[j] = xs[j], xs[i]
        return xs


KINDS = (0, 1, 2)     # set by suites_for(): the match kinds the current property needs


def pick_kind(rng, allowed=(0, 1, 2)):
    ks = [k for k in allowed if k in KINDS] or list(allowed)
    return rng.choice(ks)


VTYPES = {
    "u8": (0, 2**8 - 1), "u16": (0, 2**16 - 1), "u32": (0, 2**32 - 1), "u64": (0, 2**64 - 1),
    "u128": (0, 2**128 - 1), "usize": (0, 2**64 - 1), "i8": (-2**7, 2**7 - 1),
    "i16": (-2**15, 2**15 - 1), "i32": (-2**31, 2**31 - 1), "i64": (-2**63, 2**63 - 1),
    "i128": (-2**127, 2**127 - 1), "isize": (-2**63, 2**63 - 1), "empty": (0, 0),
    "user3": (0, 2**24 - 1), "from1": (0, 2**32 - 1),
}
VT_NAMES = [t for t in VTYPES if t != "from1"]   # from1 only appears in the C10 family g6
# index -> V conversion limit for the bare-pattern entry point (TryFrom<usize>)
CONV_MAX = {"u8": 255, "i8": 127}


class Case:
    def __init__(self, cid, var="bw", kind=0, nfb=16, vt="u32", entry="build", ops="S",
                 pats=(), hays=(), trail=b"", group=None, suite=""):
        self.id, self.var, self.kind, self.nfb, self.vt = cid, var, kind, nfb, vt
        self.entry, self.ops = entry, ops
        self.pats = list(pats)      # [(bytes, value:int)]
        self.hays = list(hays)      # [bytes]
        self.trail = trail
        self.group = group          # cases in one group are compared with each other
        self.suite = suite

    def text(self):
        hx = lambda b: b.hex() if b else "-"
        out = [f"CASE {self.id}", f"VAR {self.var}", f"KIND {self.kind}", f"NFB {self.nfb}",
               f"VT {self.vt}", f"ENTRY {self.entry}", f"OPS {self.ops}"]
        if self.group:
            out.append(f"GROUP {self.group}")
        out += [f"P {hx(p)} {v}" for p, v in self.pats]
        out += [f"H {hx(h)}" for h in self.hays]
        out += [f"T {hx(self.trail)}", "END"]
        return "\n".join(out) + "\n"

    def clone(self, cid, **kw):
        c = Case(cid, self.var, self.kind, self.nfb, self.vt, self.entry, self.ops, self.pats,
                 self.hays, self.trail, self.group, self.suite)
        for k, v in kw.items():
            setattr(c, k, v)
        return c


def rand_value(rng, vt):
    lo, hi = VTYPES[vt]
    r = rng.below(6)
    if r == 0:
        return lo
    if r == 1:
        return hi
    if r == 2:
        return 0
    if r == 3:
        return max(lo, min(hi, rng.range(-3, 3)))
    return lo + rng.below(hi - lo + 1)


def with_values(rng, pats, vt, repeat=False):
    vals = [rand_value(rng, vt) for _ in pats]
    if repeat and len(vals) > 1:
        vals[rng.below(len(vals))] = vals[0]
    return list(zip(pats, vals))


def rand_word(rng, alphabet, lo, hi):
    return bytes(rng.choice(alphabet) for _ in range(rng.range(lo, hi)))


def uniq(words):
    seen, out = set(), []
    for w in words:
        if w and w not in seen:
            seen.add(w)
            out.append(w)
    return out


def hay_from(rng, alphabet, pats, n):
    """haystack mixing random symbols with embedded patterns and pattern prefixes; one time in
    three it ends inside a pattern (a proper prefix of one), which is where the leftmost iterators
    and the end-of-input handling differ"""
    out = b""
    tail = b""
    if pats and rng.chance(1, 3):
        p = rng.choice(pats)
        tail = p[:rng.range(0, max(0, len(p) - 1))]
    while len(out) + len(tail) < n:
        r = rng.below(4)
        if r == 0 and pats:
            out += rng.choice(pats)
        elif r == 1 and pats:
            p = rng.choice(pats)
            out += p[:rng.range(0, len(p))]
        else:
            out += bytes([rng.choice(alphabet)])
    return (out[:max(0, n - len(tail))] + tail)[:max(n, len(tail))]


def hay_utf8(rng, pats, fill, n):
    """like hay_from for UTF-8 patterns: whole patterns, character prefixes of patterns and filler
    characters, so the result is valid UTF-8"""
    sp = [p.decode("utf-8") for p in pats]
    out = ""
    while len(out.encode("utf-8")) < n:
        r = rng.below(4)
        if r == 0:
            out += rng.choice(sp)
        elif r == 1:
            q = rng.choice(sp)
            out += q[:rng.range(0, len(q))]
        else:
            out += rng.choice(fill)
    if rng.chance(1, 3):
        q = rng.choice(sp)
        out += q[:max(0, len(q) - 1)]
    return out.encode("utf-8")


def pick_entry_vt(rng, npats):
    vt = rng.choice(VT_NAMES)
    entry = rng.choice(["build", "values", "values"])
    if entry == "build" and vt in CONV_MAX and npats - 1 > CONV_MAX[vt]:
        entry = "values"
    return entry, vt


# ------------------------------------------------------------------------------------------ G1
def g1_small(rng, n, prefix="g1"):
    """alphabets of 2-3 symbols, 1-6 patterns of length 1-5, haystacks <= 14; all kinds; bw and cw"""
    cases = []
    alphabets = [b"ab", b"abc", bytes([0, 1, 255]), bytes([0, 255]), b"a\x00"]
    # deterministic seeds of the stream: classic nesting / shadowing / restart shapes
    fixed = [
        ([b"bcd", b"ab", b"a"], [b"abcd", b"aabcabcd"]),
        ([b"ab", b"a", b"abcd"], [b"abcd", b"abcabcd", b"aabcd"]),
        ([b"abcd", b"bc", b"c"], [b"abcd", b"abce", b"xabcx"]),
        ([b"a", b"aa", b"aaa"], [b"aaaaa", b"baaab"]),
        ([b"abab", b"ba", b"b"], [b"ababab", b"abaabab"]),
        ([b"aab", b"ab", b"b", b"aaab"], [b"aaab", b"aaaab", b"abaab"]),
        ([b"abcde", b"bcd", b"cd", b"d"], [b"abcdf", b"abcde", b"xbcde"]),
        ([bytes([0]), bytes([0, 0]), bytes([0, 1]), bytes([255, 0])], [bytes([0, 0, 1, 255, 0, 0]), bytes([255, 255, 0, 1])]),
    ]
    i = 0
    for pats, hays in fixed:
        for kind in (0, 1, 2):
            for var in ("bw", "cw"):
                if var == "cw" and any(max(p) >= 128 for p in pats):
                    continue
                c = Case(f"{prefix}f{i}", var, kind, 16, "u32", "build", "STRK", [(p, j) for j, p in enumerate(pats)], hays, b"\x07", suite="core")
                cases.append(c)
                i += 1
    while len(cases) < n:
        alpha = rng.choice(alphabets)
        pats = uniq(rand_word(rng, alpha, 1, 5) for _ in range(rng.range(1, 6)))
        hays = [hay_from(rng, alpha, pats, rng.range(0, 14)) for _ in range(rng.range(1, 4))]
        var = "cw" if max(alpha) < 128 and rng.chance(1, 3) else "bw"
        kind = pick_kind(rng)
        entry, vt = pick_entry_vt(rng, len(pats))
        if kind == 0 and rng.chance(1, 8):
            entry = "new" if entry == "build" else "with_values"
            nfb = 16
        else:
            nfb = rng.choice([1, 2, 3, 16, 64])
        pv = with_values(rng, pats, vt, repeat=rng.chance(1, 3))
        ops = "STRK" if rng.chance(1, 2) else "ST"
        trail = bytes(rng.below(256) for _ in range(rng.below(6)))
        cases.append(Case(f"{prefix}r{len(cases)}", var, kind, nfb, vt, entry, ops, pv, hays, trail, suite="core"))
    return cases


def g1_exhaustive(prefix="g1x", max_pats=2, max_len=3, hay_len=5, alpha=b"ab"):
    """exhaustive box: all sets of <= max_pats patterns of length <= max_len over a 2-letter
    alphabet, in every registration order, all kinds, all haystacks of length hay_len"""
    words = [bytes(w) for l in range(1, max_len + 1) for w in itertools.product(alpha, repeat=l)]
    hays = [bytes(w) for w in itertools.product(alpha, repeat=hay_len)]
    cases = []
    k = 0
    for npat in range(1, max_pats + 1):
        for pats in itertools.permutations(words, npat):
            for kind in (0, 1, 2):
                if kind != 2 and list(pats) != sorted(pats):
                    continue  # order only matters for leftmost-first
                cases.append(Case(f"{prefix}{k}", "bw", kind, 16, "u16", "build", "S",
                                  [(p, j) for j, p in enumerate(pats)], hays, b"", suite="core"))
                k += 1
    return cases


# ------------------------------------------------------------------------------------------ G2
def g2_bytes(rng, n, prefix="g2"):
    """random bytes biased to 0x00, 0x01, 0xFF and shared prefixes"""
    cases = []
    special = [0, 1, 255, 254, 128, 127]
    for i in range(n):
        alpha = special + [rng.below(256) for _ in range(rng.range(1, 12))]
        stems = [rand_word(rng, alpha, 1, 4) for _ in range(rng.range(1, 4))]
        pats = []
        for _ in range(rng.range(2, 24)):
            p = (rng.choice(stems) if rng.chance(2, 3) else b"") + rand_word(rng, alpha, 1, 4)
            pats.append(p)
        pats = uniq(pats)
        hays = [hay_from(rng, alpha, pats, rng.range(4, 40)) for _ in range(3)]
        hays.append(bytes(rng.below(256) for _ in range(64)))
        kind = pick_kind(rng)
        entry, vt = pick_entry_vt(rng, len(pats))
        pv = with_values(rng, pats, vt)
        cases.append(Case(f"{prefix}_{i}", "bw", kind, rng.choice([1, 2, 16]), vt, entry,
                          "ST" + ("R" if rng.chance(1, 4) else ""), pv, hays, b"\xff", suite="bytes"))
    return cases


# ------------------------------------------------------------------------------------------ G3/G4
def g3_blocks(rng, n, prefix="g3", nfbs=(1, 2, 3, 16, 64), scale=1):
    """many blocks, block eviction, remove_invalid_checks at eviction, ring-buffer wrap.
    Each pattern set is built under every nfb of [nfbs] (one group): the searches must agree."""
    cases = []
    g = 0

    def emit(pats, kind, hays, tag):
        nonlocal g
        for nfb in nfbs:
            cases.append(Case(f"{prefix}{tag}{g}n{nfb}", "bw", kind, nfb, "u32", "build", "ST",
                              [(p, j) for j, p in enumerate(pats)], hays, b"", group=f"{prefix}{tag}{g}", suite="blocks"))
        g += 1

    # deterministic: 300 single-byte-ish + 600 two-byte patterns always evicts with nfb = 1
    det = uniq([bytes([a, b]) for a in range(0, 256, 7) for b in range(0, 256, 11)] +
               [bytes([a]) for a in range(1, 256, 5)])
    hays = [bytes([0, 0, 7, 11, 14, 22, 1, 255, 0, 1]), bytes(range(0, 60, 7)) + bytes([7, 11, 7, 22])]
    emit(det, 0, hays, "d")
    emit(det, 1, hays, "d")
    # G4: block-filling families (fan-outs of 254-256, exact fits)
    for fan in (254, 255, 256):
        pats = [bytes([1, c % 256]) for c in range(fan)] + [bytes([2, c % 256, 3]) for c in range(0, fan, 3)]
        emit(uniq(pats), 0, [bytes([1, 0, 1, 255, 2, 0, 3, 2, 3, 3]), bytes([2, 254, 3, 1, 1])], "f")
    while g < n:
        npat = rng.choice([200, 400, 800, 1500]) * scale
        alpha_n = rng.choice([256, 256, 64, 16])
        pats = uniq(bytes(rng.below(alpha_n) for _ in range(rng.range(1, rng.choice([2, 3, 4, 6])))) for _ in range(npat))
        kind = pick_kind(rng)
        hays = [hay_from(rng, list(range(alpha_n)), pats, rng.range(10, 40)) for _ in range(4)]
        emit(pats, kind, hays, "r")
    return cases


# ------------------------------------------------------------------------------------------ G4
def g4_fill(rng, n, prefix="g4"):
    """block-filling families: a root fan-out of 250..256 consecutive bytes (so block 0 is full
    or nearly full and later states are placed through the `base = len` fall-back or in fresh
    blocks), plus a few second-level edges on the bytes that matter for vacant CHECK values and
    XOR corners (0x00, 0x01, 0xFE, 0xFF, the parent's own label)"""
    cases = []
    k = 0
    corner = [0, 1, 2, 254, 255]
    while k < n:
        fan = 250 + (k % 7)                 # 250..256
        off = [0, 1, 2, 0, 3][(k // 7) % 5]
        roots = [(off + i) % 256 for i in range(fan)]
        pats = [bytes([a]) for a in roots]
        nsec = 1 + (k // 35) % 4
        for j in range(nsec):
            a = roots[(5 + 7 * j + k) % len(roots)] if (k + j) % 3 else rng.choice(roots)
            b = corner[(k + j) % len(corner)] if (k // 3 + j) % 2 == 0 else rng.choice(roots)
            pats.append(bytes([a, b]))
            if rng.chance(1, 3):
                pats.append(bytes([a, b, rng.choice(corner)]))
        pats = uniq(pats)
        kind = pick_kind(rng)
        nfb = [16, 1, 2, 16, 3][k % 5]
        hays = []
        for p in pats[fan:fan + 6]:
            hays.append(p + bytes([0, 1, 255]) + p)
        hays.append(bytes([roots[0], 0, roots[-1], 255, 1, 0]))
        hays.append(hay_from(rng, roots[:8] + corner, pats[fan:], 24))
        hays.append(bytes(roots[-48:]) + bytes(roots[100:140]))      # long runs of root children
        cases.append(Case(f"{prefix}_{k}", "bw", kind, nfb, "u32", "build", "ST",
                          [(p, j) for j, p in enumerate(pats)], hays, b"", suite="fill"))
        k += 1
    return cases


def g3_sparse(rng, n, prefix="g3s", nfbs=(1, 2, 3, 16, 64)):
    """sparse high fan-out tries: about half of all 2-symbol strings over an alphabet of 40..95
    symbols, plus records that start with a 0x00 separator; such sets cannot be packed densely,
    so evicted blocks still have vacant slots (the case the CHECK sanitising exists for)"""
    cases = []
    for g in range(n):
        size = [64, 95, 40, 80][g % 4]
        alpha = list(range(0x20, 0x20 + size))
        pats = [bytes([a, b]) for a in alpha for b in alpha if rng.chance(1, 2)]
        pats += [bytes([0, a]) for a in alpha if rng.chance(1, 2)]
        if g % 2:
            pats += [bytes([a, 0]) for a in alpha if rng.chance(1, 4)]
        pats = rng.shuffle(uniq(pats))
        kind = pick_kind(rng)
        hays = []
        for _ in range(3):
            h = b""
            while len(h) < 48:
                r = rng.below(5)
                h += rng.choice(pats) if r < 2 else bytes([0]) if r == 2 else bytes([rng.choice(alpha)])
            hays.append(h)
        for nfb in nfbs:
            cases.append(Case(f"{prefix}{g}n{nfb}", "bw", kind, nfb, "u32", "build", "ST",
                              [(p, j) for j, p in enumerate(pats)], hays, b"", group=f"{prefix}{g}", suite="sparse"))
    return cases


# ------------------------------------------------------------------------------------------ G5
WIDTH_CLASSES = [
    [0x00, 0x01, 0x41, 0x61, 0x62, 0x7F],
    [0x80, 0xE9, 0x3B1, 0x7FF],
    [0x800, 0x3042, 0x4E16, 0x5168, 0x754C, 0xD7FF, 0xE000, 0xFFFF],
    [0x10000, 0x1F600, 0x2A6DF],
]


def enc(cps):
    return "".join(chr(c) for c in cps).encode("utf-8")


def g5_utf8(rng, n, prefix="g5", big=False):
    """UTF-8 patterns over all four width classes; every case exists as a cw and a bw twin
    (group = pair) so the two implementations are compared directly (C08)."""
    cases = []
    k = 0

    def emit(pats_cp, hays_cp, kind, nfb, ops):
        nonlocal k
        pats = uniq(enc(p) for p in pats_cp)
        hays = [enc(h) for h in hays_cp]
        vt = rng.choice(["u32", "u64", "i16", "usize", "empty", "u128"])
        pv = [(p, j % 30000) for j, p in enumerate(pats)] if vt != "empty" else [(p, 0) for p in pats]
        for var in ("cw", "bw"):
            cases.append(Case(f"{prefix}_{k}{var}", var, kind, nfb, vt, "values", ops, pv, hays, b"\x80\xff",
                              group=f"{prefix}_{k}", suite="utf8"))
        k += 1

    # deterministic: one character per width class in every pattern set and haystack
    base = [[0x61, 0xE9], [0xE9, 0x3042], [0x3042, 0x1F600], [0x1F600, 0x61], [0x61], [0x3042, 0x3042, 0x61]]
    for kind in (0, 1, 2):
        emit(base, [[0x61, 0xE9, 0x3042, 0x1F600, 0x61, 0x62], [0x7A, 0x3042, 0x3042, 0x61, 0x10FFFF, 0xE9, 0x3042]], kind, 16, "STR")
    if big:
        emit([[0x10FFFF, 0x61], [0x61]], [[0x10FFFF, 0x61, 0x10FFFF]], 0, 16, "STR")
    # leftmost-first: shadowed patterns whose characters occur in no registered pattern (the code
    # mapper still knows them; enough of them to cross the next power of two of the live alphabet)
    for extra in (4, 9, 20, 70):
        if k >= n:
            break
        pats = [[0x61]] + [[0x61, 0x100 + i] for i in range(extra)] + [[0x62, 0x61]]
        hs = [[0x100 + extra - 1], [0x61, 0x100 + extra - 1, 0x100, 0x62, 0x61, 0x100 + extra // 2], [0x62, 0x100 + extra - 1, 0x61]]
        emit(pats, hs, 2, 16, "STR")
    # deterministic large alphabets (character-wise block length 512 / 1024 / 2048): every character c
    # as a pattern and every pair (c, most frequent character), so that the states outnumber one
    # block and the last states get their base in a block of which only the low part is used;
    # short haystacks read the rarest (highest-code) characters in those states
    for A, kind, nfb in ((257, 0, 16), (300, 1, 1), (520, 2, 2)) + (((1030, 0, 16),) if big else ()):
        if k >= n:
            break
        cs = [0x4E00 + i for i in range(A)]
        pats = [[c] for c in cs] + [[c, cs[0]] for c in cs] + [[cs[0], cs[0], cs[A - 1 - i]] for i in range(3)] + [[cs[5], cs[A - 1]]]
        spread = [1, 2, 3, A // 3, A // 2, 255, 256, A - 4, A - 3, A - 2]
        hs = [[x for i in spread[:5] for x in (cs[i], cs[A - 1])], [x for i in spread[5:] for x in (cs[i], cs[A - 1])],
              [cs[A - 2], cs[0], cs[A - 1], cs[0], cs[0], cs[A - 3], 0x61, cs[5], cs[A - 1], cs[256]]]
        emit(pats, hs, kind, nfb, "STR")
    while k < n:
        pool = []
        for cls in WIDTH_CLASSES:
            pool += [rng.choice(cls) for _ in range(rng.range(1, 3))]
        if rng.chance(1, 6):
            pool += [0x100 + rng.below(0x600) for _ in range(rng.range(20, 300))]   # large alphabets
        npat = rng.range(2, 10) if len(pool) < 20 else rng.range(20, 200)
        pats = [[rng.choice(pool) for _ in range(rng.range(1, 4))] for _ in range(npat)]
        absent = [0x62, 0x3B2, 0x3043, 0x1F601, 0x10FFFF if big else 0x2FFFF, 0x00]
        hpool = pool + absent
        hays = []
        for _ in range(3):
            h = []
            while len(h) < rng.range(3, 16):
                h += rng.choice(pats) if rng.chance(1, 2) else [rng.choice(hpool)]
            hays.append(h)
        emit(pats, hays, pick_kind(rng), rng.choice([1, 2, 16]), "ST" + ("R" if rng.chance(1, 3) else ""))
    return cases


# ------------------------------------------------------------------------------------------ G6
def g6_invalid(rng, n, prefix="g6"):
    """invalid collections: empty, empty pattern at every position, repeat at every position
    (incl. repeats shadowed under leftmost-first), index not convertible to V"""
    cases = []
    k = 0

    def emit(pats, kind, var, entry, vt, nfb=16):
        nonlocal k
        pv = [(p, j) for j, p in enumerate(pats)]
        if vt in ("u8", "i8") and entry in ("values", "with_values"):
            pv = [(p, j % 100) for j, p in enumerate(pats)]
        cases.append(Case(f"{prefix}_{k}", var, kind, nfb, vt, entry, "", pv, [], b"", suite="err"))
        k += 1

    good = [b"a", b"ab", b"abc", b"b", b"ba"]
    for var in ("bw", "cw"):
        for kind in (0, 1, 2):
            for entry in ("build", "values"):
                emit([], kind, var, entry, "u32")
                for pos in range(len(good) + 1):
                    emit(good[:pos] + [b""] + good[pos:], kind, var, entry, "u32")
                for dup in good:
                    for pos in range(len(good) + 1):
                        emit(good[:pos] + [dup] + good[pos:], kind, var, entry, "u32")
                emit(good, kind, var, entry, "u32")
            # shadowed repeats under leftmost-first (finding F2, repaired)
            for pats in ([b"a", b"ab", b"ab"], [b"ab", b"a", b"ab"], [b"a", b"ab", b"abc", b"ab"], [b"a", b"abc", b"ab", b"abc"]):
                emit(pats, kind, var, "build", "u16")
            # empty pattern and duplicate together: the first offending entry decides
            emit([b"a", b"", b"a"], kind, var, "build", "u32")
            emit([b"a", b"a", b""], kind, var, "values", "u32")
            # index not convertible
            many = [bytes([97 + (j // 26) % 26, 97 + j % 26, 48 + j // 676]) for j in range(300)]
            emit(many[:256], kind, var, "build", "u8")
            emit(many[:257], kind, var, "build", "u8")
            emit(many[:128], kind, var, "build", "i8")
            emit(many[:129], kind, var, "build", "i8")
            emit(many[:129] + [b""], kind, var, "build", "i8")      # conversion error wins over empty pattern
            emit([b""] + many[:300], kind, var, "build", "u8")
            emit(many, kind, var, "values", "u8")
            emit(many, kind, var, "build", "empty")
            # a value type whose TryFrom<usize> rejects position 0 (like NonZeroU32): every collection
            # given to the bare-pattern entry point is an InvalidConversion, whatever else is wrong
            emit([b"a"], kind, var, "build", "from1")
            emit(good, kind, var, "build", "from1")
            emit([b"a", b"a"], kind, var, "build", "from1")
            emit([b"", b"a"], kind, var, "build", "from1")
            emit(good, kind, var, "values", "from1")
    # static entry points and huge num_free_blocks (BuildHelper capacity overflow)
    for var in ("bw", "cw"):
        emit([b"pattern"], 0, var, "build", "usize", nfb=4294967295)
        emit([b"pattern"], 1, var, "values", "usize", nfb=16777216 if var == "bw" else 536870912)
        emit([b"", b"x"], 0, var, "build", "usize", nfb=4294967295)
        emit([b"a", b"a"], 0, var, "new", "u32")
        emit([b""], 0, var, "with_values", "u32")
        emit(good, 0, var, "new", "u32")
        emit(good, 0, var, "with_values", "u64")
        emit([b"ab", b"b", b"abc"], 0, var, "new", "usize")
    while k < n:
        alpha = rng.choice([b"ab", b"abc"])
        pats = [rand_word(rng, alpha, 0 if rng.chance(1, 4) else 1, 3) for _ in range(rng.range(0, 7))]
        if pats and rng.chance(1, 2):
            pats.insert(rng.below(len(pats) + 1), rng.choice(pats))
        emit(pats, rng.below(3), rng.choice(["bw", "cw"]), rng.choice(["build", "values"]), rng.choice(["u8", "u32", "i64", "empty"]),
             nfb=rng.choice([1, 16]))
    return cases


# ------------------------------------------------------------------------------------------ G7
def g7_values(rng, n, prefix="g7"):
    """value assignments: repeated values, 0, MIN, MAX of each value type; round trip"""
    cases = []
    k = 0
    for vt in VT_NAMES:
        lo, hi = VTYPES[vt]
        for var in ("bw", "cw"):
            for kind in (0, 1, 2):
                pats = [b"ab", b"b", b"abc", b"ca", b"c"]
                vals = [lo, hi, 0, hi, max(lo, min(hi, 1))]
                cases.append(Case(f"{prefix}_{k}", var, kind, 16, vt, "values", "SR", list(zip(pats, vals)),
                                  [b"abcab", b"cabcc", b""], bytes([1, 2, 3, 0xAA]), suite="values"))
                k += 1
    while k < n:
        vt = rng.choice(VT_NAMES)
        alpha = b"abc"
        pats = uniq(rand_word(rng, alpha, 1, 4) for _ in range(rng.range(1, 8)))
        entry = rng.choice(["build", "values", "values"])
        pv = with_values(rng, pats, vt, repeat=True)
        hays = [hay_from(rng, alpha, pats, rng.range(0, 16)) for _ in range(2)]
        cases.append(Case(f"{prefix}_{k}", rng.choice(["bw", "cw"]), pick_kind(rng), rng.choice([1, 16]), vt, entry, "SR",
                          pv, hays, bytes(rng.below(256) for _ in range(rng.below(9))), suite="values"))
        k += 1
    return cases


# ------------------------------------------------------------------------------------------ G8
def g8_perm(rng, n, prefix="g8"):
    """permutations of one pattern/value set (group): images must be equal for kinds 0 and 1"""
    cases = []
    g = 0

    def emit(pv, var, kind, nfb, hays, perms):
        nonlocal g
        for j, perm in enumerate(perms):
            cases.append(Case(f"{prefix}_{g}p{j}", var, kind, nfb, "u32", "values", "SDM", [pv[i] for i in perm], hays, b"",
                              group=f"{prefix}_{g}", suite="perm"))
        g += 1

    # all permutations of small sets
    for var in ("bw", "cw"):
        for kind in (0, 1):
            pats = [b"ab", b"b", b"abc", b"ca"]
            pv = [(p, 10 + j) for j, p in enumerate(pats)]
            emit(pv, var, kind, 16, [b"abcab", b"cabca"], list(itertools.permutations(range(4))))
    # mapper tie-breaks: equal frequencies, characters in reverse code order (cw)
    pats = [enc([0x3042, 0x3044]), enc([0x3044, 0x3042]), enc([0x3046]), enc([0x3041])]
    emit([(p, j) for j, p in enumerate(pats)], "cw", 0, 16, [enc([0x3042, 0x3044, 0x3042, 0x3046, 0x3041])], list(itertools.permutations(range(4))))
    while g < n:
        var = rng.choice(["bw", "cw"])
        kind = pick_kind(rng, (0, 1))
        if var == "bw":
            alpha = [rng.below(256) for _ in range(rng.range(2, 40))]
            pats = uniq(rand_word(rng, alpha, 1, 4) for _ in range(rng.range(3, 120)))
            hays = [hay_from(rng, alpha, pats, 20) for _ in range(2)]
        else:
            pool = [rng.choice(rng.choice(WIDTH_CLASSES)) for _ in range(rng.range(2, 12))]
            pats = uniq(enc([rng.choice(pool) for _ in range(rng.range(1, 4))]) for _ in range(rng.range(3, 40)))
            hays = [b"".join(rng.choice(pats) for _ in range(5)) for _ in range(2)]
        pv = with_values(rng, pats, "u32")
        idx = list(range(len(pats)))
        perms = [idx] + [rng.shuffle(idx) for _ in range(5)] + [idx[::-1]]
        emit(pv, var, kind, rng.choice([1, 2, 16]), hays, perms)
    return cases


# ---------------------------------------------------------------------------- per property
# (generator, quick count, thorough count, kwargs); counts are the generator's own unit
PLAN = {
    # property: (kinds, [(gen, quick_n, thorough_n)], forced ops or None)
    "C01": ((0,), [("g16", 10, 60), ("g11", 20, 200), ("g1", 220, 3000), ("g2", 40, 800), ("g3", 4, 24), ("g5", 30, 600), ("g4", 40, 350), ("g3s", 1, 8)]),
    "C02": ((0,), [("g11", 20, 200), ("g1", 220, 3000), ("g2", 40, 800), ("g3", 4, 24), ("g5", 30, 600), ("g4", 12, 100), ("g3s", 1, 6), ("g10", 6, 40)]),
    "C03": ((1,), [("g1", 220, 3000), ("g2", 40, 800), ("g3", 4, 24), ("g5", 30, 600), ("g11", 12, 120), ("g4", 12, 100), ("g3s", 1, 6), ("g10", 6, 40)]),
    "C04": ((2,), [("g1", 220, 3000), ("g2", 40, 800), ("g3", 4, 24), ("g5", 30, 600), ("g9", 40, 400), ("g11", 12, 120), ("g4", 12, 100), ("g3s", 1, 6), ("g10", 6, 40)]),
    "C05": ((0,), [("g11", 20, 200), ("g1", 220, 3000), ("g2", 40, 800), ("g3", 4, 24), ("g5", 30, 600), ("g4", 12, 100), ("g3s", 1, 6), ("g10", 6, 40)]),
    "C06": ((0, 1, 2), [("g15", 3, 5), ("g13", 2, 6), ("g7", 160, 2500), ("g1", 120, 1500), ("g5", 20, 300), ("g3", 2, 10), ("g11", 8, 60)]),
    "C07": ((0, 1, 2), [("g17", 4, 7), ("g11", 20, 200), ("g1", 150, 2000), ("g2", 40, 800), ("g3", 5, 30), ("g5", 40, 800), ("g7", 60, 400), ("g4", 70, 700), ("g3s", 1, 8)]),
    "C08": ((0, 1, 2), [("g15", 9, 9), ("g5", 90, 2500)]),
    "C09": ((0, 1, 2), [("g17", 7, 7), ("g13", 3, 12), ("g7", 200, 3000), ("g1", 100, 1500), ("g5", 30, 400), ("g3", 2, 10), ("g11", 8, 60)]),
    "C10": ((0, 1, 2), [("g15", 9, 9), ("g6", 620, 4000), ("g3", 5, 30), ("g3s", 2, 10), ("g4", 14, 140), ("g11", 10, 80), ("g5", 10, 120)]),
    "C11": ((0, 1, 2), [("g3", 7, 40), ("g3s", 3, 16), ("g4", 35, 350)]),
    "C12": ((0,), [("g18", 4, 12), ("g3", 2, 8), ("g1", 200, 3000), ("g2", 40, 800), ("g5", 40, 800), ("g11", 10, 100), ("g10", 6, 40)]),
    "C13": ((0, 1, 2), [("g16", 24, 60), ("g1", 200, 3000), ("g2", 40, 800), ("g3", 4, 24), ("g5", 30, 600), ("g10", 12, 60), ("g4", 35, 350), ("g11", 30, 300)]),
    "C14": ((0, 1, 2), [("g12", 6, 24), ("g8", 12, 150), ("g1", 60, 600)]),
    "C15": ((0, 1, 2), [("g14", 24, 48), ("g1", 200, 3000), ("g2", 40, 800), ("g3", 5, 30), ("g5", 30, 600), ("g4", 35, 350), ("g11", 10, 100), ("g3s", 1, 6)]),
}


def g9_orders(rng, n, prefix="g9"):
    """leftmost-first: every registration order of small sets with prefix-related patterns"""
    cases = []
    k = 0
    base_sets = [[b"a", b"ab", b"abc"], [b"ab", b"abc", b"b", b"bc"], [b"aa", b"a", b"aab", b"ab"],
                 [b"abcd", b"bc", b"b", b"abc"]]
    # long shadowing prefixes: a registered pattern of 63 / 64 / 65 / 130 / 260 symbols and a later pattern
    # that extends it (depth bookkeeping at word boundaries), both variants
    for L in (63, 64, 65, 130, 260):
        for var in ("bw", "cw"):
            unit = b"a" if var == "bw" else "\u00e9".encode()
            P = unit * L
            pats = [P, P + b"b", b"b", P[: len(unit) * (L // 2)] + b"c"]
            hays = [P + b"b", unit * 3 + P + b"bb"]
            cases.append(Case(f"{prefix}_long{L}{var}", var, 2, 16, "u32", "build", "S", [(p, j) for j, p in enumerate(pats)], hays, b"", suite="orders"))
    for pats in base_sets:
        for perm in itertools.permutations(pats):
            hays = [b"abcd", b"aabcab", b"xbcabcd"]
            cases.append(Case(f"{prefix}_{k}", "bw" if k % 3 else "cw", 2, 16, "u32", "build", "ST",
                              [(p, j) for j, p in enumerate(perm)], hays, b"", suite="orders"))
            k += 1
            if k >= n and len(cases) >= 24:
                return cases
    while k < n:
        alpha = rng.choice([b"ab", b"abc"])
        pats = uniq(rand_word(rng, alpha, 1, 4) for _ in range(rng.range(2, 6)))
        hays = [hay_from(rng, alpha, pats, rng.range(2, 12)) for _ in range(3)]
        cases.append(Case(f"{prefix}_{k}", rng.choice(["bw", "cw"]), 2, 16, "u32", "build", "ST",
                          [(p, j) for j, p in enumerate(rng.shuffle(pats))], hays, b"", suite="orders"))
        k += 1
    return cases


def g10_failchains(rng, n, prefix="g10"):
    """long fail chains: a^k patterns and haystacks that fall all the way back (worst case for
    the number of transitions per byte)"""
    cases = []
    for k in range(n):
        depth = 4 + (k % 12) * 5
        a = 97
        pats = [bytes([a]) * depth, bytes([a]) * (depth // 2) + b"b"]
        if k % 3 == 0:
            pats.append(bytes([a]) * (depth - 1) + b"c" + bytes([a]))
        hay1 = (bytes([a]) * (depth - 1) + b"x") * 3
        hay2 = bytes([a]) * (2 * depth) + b"b" + bytes([a]) * depth
        var = "cw" if k % 2 else "bw"
        kind = pick_kind(rng)
        cases.append(Case(f"{prefix}_{k}", var, kind, 16, "u32", "build", "ST",
                          [(p, j) for j, p in enumerate(uniq(pats))], [hay1, hay2], b"", suite="chains"))
    return cases


def g11_wide(rng, n, prefix="g11"):
    """non-root nodes with 8..20 children (both variants): a stem, many different continuations,
    some third-level edges; haystacks sit in one child and then read a symbol that is in the
    alphabet but is no edge of that child"""
    cases = []
    for k in range(n):
        var = "cw" if k % 2 == 0 else "bw"
        stem = [b"x", b"xa", b"ab", "あ".encode(), "é".encode()][k % 5]
        if var == "bw" and k % 5 >= 3:
            stem = b"q"
        width = 8 + (k * 3) % 13
        conts = [bytes([0x62 + j]) for j in range(width)]
        pats = [stem + c for c in conts]
        if k % 3 == 0:
            pats += [stem + conts[0] + conts[1], conts[2] + conts[3]]
        if k % 4 == 1:
            pats += [conts[1]] + ([stem[:1]] if stem[0] < 128 else [])
        pats = uniq(pats)
        kind = pick_kind(rng)
        s1 = stem[:1] if stem[0] < 128 else stem
        hays = [stem + conts[0] + s1, stem + conts[1] + conts[2] + stem + conts[3],
                b"the " + stem + conts[4] + b" " + stem + conts[0] + conts[1] + stem,
                hay_utf8(rng, pats, "xabq" + "".join(chr(c[0]) for c in conts), 30)]
        cases.append(Case(f"{prefix}_{k}", var, kind, 16, "u32", "build", "ST",
                          [(p, j) for j, p in enumerate(pats)], hays, b"", suite="wide"))
    return cases



def g12_threads(rng, n, prefix="g12"):
    """thread stress: patterns 'uvw' / 'vz' per letter group, so that the haystack unit 'uvz'
    leaves the state of 'uv' through its fail link at every third byte; eight periodic haystacks
    with different groups, searched by eight threads at once for a time budget (op X)"""
    cases = []
    ascii_pool = [bytes([c]) for c in range(0x61, 0x7b)]
    wide_pool = [ch.encode() for ch in "äöüßéèêçñαβγδεζηθικλμあいうえおかきくけこ"]
    for k in range(n):
        var = "cw" if k % 2 else "bw"
        pool = list(ascii_pool if k % 4 < 2 else ascii_pool[:10] + wide_pool)
        # shuffle deterministically
        for i in range(len(pool) - 1, 0, -1):
            j = rng.below(i + 1)
            pool[i], pool[j] = pool[j], pool[i]
        ngroups = 4
        pats, units = [], []
        for gi in range(ngroups):
            u, v, w, z = pool[4 * gi:4 * gi + 4]
            pats += [u + v + w, v + z]
            units.append(u + v + z)
        if k % 3 == 0:
            pats.append(units[0][:len(pool[0])] if False else pool[16])
        pats = uniq(pats)
        reps = 16 + rng.below(24)
        hays = [units[i] * reps for i in range(ngroups)]
        hays += [(units[i] + units[(i + 1) % ngroups]) * (reps // 2) for i in range(ngroups)]
        kind = [0, 1][k % 2] if 1 in KINDS else 0
        cases.append(Case(f"{prefix}_{k}", var, kind, 16, "u32", "values", "SMX",
                          [(p, 100 + j) for j, p in enumerate(pats)], hays, b"", suite="threads"))
    return cases


# ------------------------------------------------------------------------------------------ G13
def g13_huge(rng, n, prefix="g13"):
    """pattern sets with more than 2^16 patterns (output positions, pattern ids and vector lengths
    beyond 16 bits).  Too large for the model's list-based queues (quadratic): ops letter 'N' =
    implementation + extracted specification only; the round trip is decided by the C09 oracle on
    the implementation's own observations."""
    cases = []
    two = [bytes([a, b]) for a in range(256) for b in range(256)]
    three = [bytes([1, 2, c]) for c in range(0, 256, 3)] + [bytes([255, 254, c]) for c in range(0, 256, 5)]
    hays = [bytes([1, 2, 3, 255, 255, 0, 1, 2, 9]), bytes([200, 100, 255, 254, 5, 255, 254]), bytes([255, 255, 255])]
    k = 0
    plan = [("bw", 0, "u32", "values", 16), ("bw", 1, "u64", "values", 16), ("bw", 2, "usize", "values", 1),
            ("bw", 0, "u32", "build", 3), ("cw", 0, "u32", "values", 16), ("cw", 1, "i64", "values", 2)]
    while k < n:
        var, kind, vt, entry, nfb = plan[k % len(plan)]
        if var == "bw":
            pats = two + three
            if k >= len(plan):
                pats = rng.shuffle(pats)
            hs = hays
        else:
            base = [0x61 + i for i in range(26)] + [0x3b1 + i for i in range(24)] + [0x4e00 + i for i in range(200)] + [0x1f600 + i for i in range(20)]
            pats = [enc([a, b]) for a in base for b in base][:66500] + [enc([0x61, 0x62, c]) for c in base[:40]]
            hs = [enc([0x61, 0x62, 0x63, 0x4e00, 0x4e01, 0x1f600, 0x3b1]), enc([0x4e05, 0x4e06, 0x1f601, 0x1f602, 0x7a])]
        lo, hi = VTYPES[vt]
        pv = [(p, (lo + (j * 2654435761) % (hi - lo + 1)) if entry == "values" else j) for j, p in enumerate(pats)]
        cases.append(Case(f"{prefix}_{k}", var, kind, nfb, vt, entry, "SRN", pv, hs, bytes([7, 0, 255]), suite="huge"))
        k += 1
    return cases


# ------------------------------------------------------------------------------------------ G14
def g14_dense(rng, n, prefix="g14"):
    """densely filled state arrays with few outputs (one long chain pattern, or two), under every
    size class of value type incl. the zero-sized one: num_states close to num_elements, so the
    reported element count and heap size have no slack (C15)"""
    cases = []
    k = 0
    for L in (171, 250, 254):
        for vt in ("empty", "u8", "u64", "u128"):
            for var, kind in (("bw", 0), ("cw", 0), ("bw", 1), ("cw", 2)):
                if k >= n:
                    return cases
                pats = [b"a" * L] + ([b"a" * (L // 2) + b"b"] if k % 3 == 0 else [])
                lo, hi = VTYPES[vt]
                pv = [(p, min(hi, j)) for j, p in enumerate(pats)]
                cases.append(Case(f"{prefix}_{k}", var, kind, 16, vt, "values", "ST", pv, [b"a" * 12 + b"b", b"baab"], b"", suite="dense"))
                k += 1
    return cases


# ------------------------------------------------------------------------------------------ G15
def g15_long(rng, n, prefix="g15"):
    """a few very long patterns (one symbol repeated 2^16 times and more): counters of symbol
    frequencies, pattern lengths and chain depths beyond 16 bits.  Implementation + specification
    only (ops letter 'N'), like g13."""
    cases = []
    plan = [("bw", 0, [b"ab" * 150, b"c" * 257, b"ab" * 130 + b"x"]), ("cw", 0, ["\u00e9".encode() * 150, b"c" * 300]),
            ("cw", 0, [b"a" * 65536]), ("bw", 0, [b"a" * 65536]), ("cw", 1, [b"a" * 40000, b"ba" * 20000, b"a" * 25536 + b"c"]),
            ("cw", 2, ["\u00e9".encode() * 65537, b"x"]), ("bw", 2, [b"ab" * 33000, b"b"])]
    for k, (var, kind, pats) in enumerate(plan[:n]):
        pv = [(p, j + 1) for j, p in enumerate(pats)]
        hs = [b"aaab", pats[0][:20] + b"x" + pats[-1][:6]]
        if len(pats[0]) <= 600:      # patterns of a few hundred bytes: they occur in the haystack as a whole
            hs = [b"zz" + pats[0] + b"q" + pats[1] + pats[-1][:100], pats[-1] + pats[0][:50]]
        cases.append(Case(f"{prefix}_{k}", var, kind, 16, "u32", "values" if k % 2 == 0 else "build", "SN", pv, hs, b"", suite="long"))
    if n > len(plan):
        # an alphabet above 2^16 distinct characters (character-wise block length 2^17): 66 patterns of
        # 1000 pairwise distinct characters each; the byte-wise twin of the same patterns
        cps = [c for c in range(0x4E00, 0x4E00 + 70000) if not 0xD800 <= c <= 0xDFFF][:66000]
        pats = [enc(cps[i * 1000:(i + 1) * 1000]) for i in range(66)]
        hs = [enc(cps[995:1003]), enc([cps[0], cps[1], 0x61, cps[65999]])]
        for var in ("cw", "bw"):
            cases.append(Case(f"{prefix}_alpha_{var}", var, 0, 16, "u32", "values", "SN", [(p, j) for j, p in enumerate(pats)], hs, b"",
                              group=f"{prefix}_alpha", suite="long"))
    return cases


# ------------------------------------------------------------------------------------------ G16
def g16_chain_alias(rng, n, prefix="g16"):
    """a chain pattern that just overflows the first block (253..258 states) and a short pattern
    whose second byte is a small value: the node laid out after the block was appended can be
    handed the base at which the new block starts if that base was never reserved, and then
    shares children with a chain node hundreds of levels deep (transition count, matches)"""
    cases = []
    k = 0
    for L in (256, 254, 253, 255, 257, 258):
        for c in (3, 0, 1, 2, 4):
            for nfb in (16, 1):
                if k >= n:
                    return cases
                pats = [b"z" * L, bytes([0x62, c])]
                if k % 4 == 3:
                    pats.append(bytes([0x63, c, 0x7A]))
                hs = [b"bzq", b"bzzzzzzq" + bytes([0x62, c]), b"zzbz" + bytes([c]), b"z" * 20 + b"b"]
                cases.append(Case(f"{prefix}_{k}", "bw", k % 3 if k % 5 == 4 else 0, nfb, "u32", "values", "ST",
                                  [(p, j) for j, p in enumerate(pats)], hs, b"", suite="chainalias"))
                k += 1
    return cases


# ------------------------------------------------------------------------------------------ G17
def g17_alphabet_edges(rng, n, prefix="g17"):
    """character-wise alphabets of exactly 2^8 - 1, 2^8, 2^8 + 1 and 2^16 - 1, 2^16, 2^16 + 1 distinct
    characters (code widths, block lengths and the INVALID_CODE sentinel at their boundaries), with the
    round trip; two-character patterns keep construction fast.  The 2^16 sets are implementation +
    specification only (ops letter N)."""
    cases = []
    pool = [c for c in range(0x20, 0x20 + 70000) if not 0xD800 <= c <= 0xDFFF]
    plan = [(255, 0), (256, 0), (257, 1), (256, 2), (65535, 0), (65536, 0), (65537, 1)]
    for k, (A, kind) in enumerate(plan[:n]):
        cs = pool[:A]
        pats = [enc([cs[i], cs[(i + 1) % A]]) for i in range(0, A, 2)] + [enc([cs[A - 1]])]
        hs = [enc([cs[A - 1], cs[0], cs[1], cs[A - 2], cs[A - 1]]), enc([cs[A - 1]]), enc([cs[2], cs[3], 0x10FFFF, cs[A - 1]])]
        big = A > 1000
        vt = "u32"
        cases.append(Case(f"{prefix}_{A}_{kind}", "cw", kind, 16, vt, "values", "SRN" if big else "STR",
                          [(p, j) for j, p in enumerate(pats)], hs, bytes([9, 9]), suite="alphabetedge"))
    return cases


# ------------------------------------------------------------------------------------------ G18
def g18_big_pull(rng, n, prefix="g18"):
    """automata of several thousand states (a dozen and more blocks) searched through the
    byte-iterator entry points with matches in the middle of the haystack: whatever an
    implementation does differently for large automata (prefetching, pipelining, chunked reads)
    shows in the pull counts"""
    cases = []
    for k in range(n):
        npat = (560, 900, 1500, 2400)[k % 4]
        L = (8, 6, 5, 4)[k % 4]
        var = "cw" if k % 3 == 2 else "bw"
        if var == "bw":
            pats = uniq(bytes(rng.below(256) for _ in range(L)) for _ in range(npat))
        else:
            pats = uniq(enc([0x3042 + rng.below(80) for _ in range(L)]) for _ in range(npat))
        hs = []
        for j in range(3):
            a, b = pats[rng.below(len(pats))], pats[rng.below(len(pats))]
            junk = bytes([0x78, 0x79]) if var == "bw" else b"xy"
            hs.append(junk + a + junk + b[: len(b) - (1 if var == "bw" else 3)] + junk + b + junk[:1])
        cases.append(Case(f"{prefix}_{k}", var, 0, 16, "u32", "build", "S", [(p, j) for j, p in enumerate(pats)], hs, b"", suite="bigpull"))
    return cases


GENS = {"g18": g18_big_pull, "g17": g17_alphabet_edges, "g16": g16_chain_alias, "g15": g15_long, "g14": g14_dense, "g13": g13_huge, "g11": g11_wide, "g4": g4_fill, "g3s": g3_sparse, "g1": g1_small, "g2": g2_bytes, "g3": g3_blocks, "g5": g5_utf8, "g6": g6_invalid,
        "g7": g7_values, "g8": g8_perm, "g9": g9_orders, "g10": g10_failchains, "g12": g12_threads}


def suites_for(prop, seed, tier):
    global KINDS
    kinds, plan = PLAN[prop]
    KINDS = kinds
    rng = Rng(seed * 1000003 + int(prop[1:]))
    cs = []
    for name, qn, tn in plan:
        n = qn if tier == "quick" else tn
        sub = Rng(rng.next())
        if name == "g3":
            got = g3_blocks(sub, n, nfbs=(1, 2, 3, 16, 64) if tier == "quick" else (1, 2, 3, 4, 5, 7, 8, 16, 33, 64))
        elif name == "g3s":
            got = g3_sparse(sub, n, nfbs=(1, 2, 3, 16, 64) if tier == "quick" else (1, 2, 3, 4, 5, 8, 16, 64))
        elif name == "g5":
            got = g5_utf8(sub, n, big=(tier != "quick"))
        else:
            got = GENS[name](sub, n)
        cs += [c for c in got if c.kind in kinds or c.entry in ("new", "with_values")]
    if tier != "quick" and prop in ("C01", "C02", "C03", "C04", "C05"):
        cs += [c for c in g1_exhaustive() if c.kind in kinds]
    if prop == "C15":
        # the statistics of the automaton restored from its own bytes are observed too
        for c in cs:
            if "R" not in c.ops and "N" not in c.ops:
                c.ops += "R"
    if prop in ("C07", "C13"):
        # every search entry point (slice and byte-iterator) is also called on automata of the other
        # kind: it must panic (documented kind assertion), never loop or read out of range
        for c in cs:
            if "K" not in c.ops and "N" not in c.ops:
                c.ops += "K"
    KINDS = (0, 1, 2)
    # unique ids
    seen = set()
    out = []
    for c in cs:
        if c.id in seen:
            continue
        seen.add(c.id)
        out.append(c)
    return out


SEARCH_EXTRA = [("g2", 60), ("g4", 40), ("g3s", 2), ("g11", 20), ("g10", 10), ("g16", 30), ("g9", 40), ("g5", 20), ("g3", 3)]


def search_suites(prop, seed, tier):
    """cases for the failing-input search that follows a broken obligation / correspondence: the
    property's own plan with another seed plus the directed families of ALL plans (block filling,
    sparse high fan-out, wide nodes, long fail chains, block-overflowing chains, registration
    orders, UTF-8 twins), restricted to the match kinds the property speaks of.  Evaluated by the
    implementation and the extracted specification only, so it is cheap."""
    global KINDS
    cs = suites_for(prop, seed, tier)
    kinds, plan = PLAN[prop]
    have = {name for name, _, _ in plan}
    KINDS = kinds
    rng = Rng(seed * 2000003 + int(prop[1:]))
    for name, n in SEARCH_EXTRA:
        sub = Rng(rng.next())
        if name in have and name not in ("g2", "g4", "g11"):
            continue
        got = GENS[name](sub, n, prefix="y" + name)
        cs += [c for c in got if c.kind in kinds]
    KINDS = (0, 1, 2)
    seen, out = set(), []
    for c in cs:
        if c.id not in seen:
            seen.add(c.id)
            out.append(c)
    return out


def parse_case_file(path):
    """reads a case file (also a replay file: '#' lines are comments)"""
    cases = []
    cur = None
    unhex = lambda x: b"" if x == "-" else bytes.fromhex(x)
    for line in open(path):
        parts = line.split()
        if not parts or parts[0].startswith("#"):
            continue
        t = parts[0]
        if t == "CASE":
            cur = Case(parts[1], ops="")
        elif cur is None:
            continue
        elif t == "VAR":
            cur.var = parts[1]
        elif t == "KIND":
            cur.kind = int(parts[1])
        elif t == "NFB":
            cur.nfb = int(parts[1])
        elif t == "VT":
            cur.vt = parts[1]
        elif t == "ENTRY":
            cur.entry = parts[1]
        elif t == "OPS":
            cur.ops = parts[1] if len(parts) > 1 else ""
        elif t == "GROUP":
            cur.group = parts[1]
        elif t == "P":
            cur.pats.append((unhex(parts[1]), int(parts[2]) if len(parts) > 2 else 0))
        elif t == "H":
            cur.hays.append(unhex(parts[1]))
        elif t == "T":
            cur.trail = unhex(parts[1])
        elif t == "END":
            cases.append(cur)
            cur = None
    return cases


def corpus_cases(prop):
    """minimised failures kept from earlier runs (appended by hand only); they run first"""
    import os
    d = os.path.join(os.path.dirname(os.path.dirname(os.path.abspath(__file__))), "corpus")
    out = []
    if os.path.isdir(d):
        for f in sorted(os.listdir(d)):
            if f.startswith(prop + "-") and f.endswith(".case"):
                for c in parse_case_file(os.path.join(d, f)):
                    c.id = "corpus_" + f[:-5] + "_" + c.id
                    c.suite = "corpus"
                    out.append(c)
    return out


if __name__ == "__main__":
    import sys
    prop = sys.argv[1]
    seed = int(sys.argv[2]) if len(sys.argv) > 2 else 1
    tier = sys.argv[3] if len(sys.argv) > 3 else "quick"
    sys.stdout.write("".join(c.text() for c in suites_for(prop, seed, tier)))
