#!/bin/sh
# usage: confirm_mutant.sh <prop> <X>   (scratch worktree /tmp/mut/<prop>, outputs /tmp/mut/out/<prop>/<X>)
# Confirms in the scratch worktree: (1) with the patch the existing suite passes, (2) the demo
# fails with the patch, (3) the demo passes without it.  Prints a one-line verdict.
P=$1; X=$2; WP=${3:-$1}; R=${MUTROOT:-/tmp/mut}; W=$R/$WP; O=$R/out/$P/$X
export CARGO_NET_OFFLINE=true CARGO_TARGET_DIR=$W/target
cd $W || exit 2
git checkout -q -- . 2>/dev/null
# demo test files live in tests/demo_*.rs (untracked); move them aside for the suite run
mkdir -p $W/.demos; mv $W/tests/demo_* $W/.demos/ 2>/dev/null
mv $W/daacfind/tests $W/.demos/daacfind_tests 2>/dev/null
git apply $O/patch.diff || { echo "$P/$X: PATCH DOES NOT APPLY"; exit 1; }
cargo test --workspace --no-fail-fast --offline > $O/confirm_suite.txt 2>&1; S=$?
# bring demos back (only this mutant's)
for f in $O/demo_*.rs $O/*.rs; do [ -f "$f" ] && cp "$f" $W/tests/ ; done 2>/dev/null
DEMOS=$(cd $W/tests && ls demo_* 2>/dev/null | sed 's/\.rs$//' | grep -i "mut$X\|_$X\|$X" | tr '\n' ' ')
[ -z "$DEMOS" ] && DEMOS=$(cd $W/tests && ls demo_* 2>/dev/null | sed 's/\.rs$//' | tr '\n' ' ')
DW=0; for d in $DEMOS; do cargo test --offline --test $d > $O/confirm_demo_with_$d.txt 2>&1 || DW=1; done
git checkout -q -- src daacfind
DN=0; for d in $DEMOS; do cargo test --offline --test $d > $O/confirm_demo_without_$d.txt 2>&1 || DN=1; done
rm -f $W/tests/demo_*; 
echo "$P/$X: suite_with_patch_exit=$S demo_fails_with_patch=$DW demo_fails_without_patch=$DN demos=[$DEMOS]"
