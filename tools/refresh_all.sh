#!/bin/sh
# runs every quick check on the current tree (rewrites evidence/*.json); prints one line per check
cd "$(dirname "$0")/.."
for p in C01 C02 C03 C04 C05 C06 C07 C08 C09 C10 C11 C12 C13 C14 C15 C16; do
  timeout 1500 ./check $p --tier quick 2>&1 | grep -E "VIOLATION|KNOWN|-> exit" 
done
