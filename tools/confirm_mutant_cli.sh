#!/bin/sh
# usage: confirm_mutant_cli.sh <prop> <X>   like confirm_mutant.sh, for daacfind changes whose
# demonstration is demo_mut<X>.sh (takes the path of the built binary, exits non-zero on failure);
# both profiles are built with and without the patch.
P=$1; X=$2; R=${MUTROOT:-/tmp/mut}; W=$R/$P; O=$R/out/$P/$X
export CARGO_NET_OFFLINE=true CARGO_TARGET_DIR=$W/target
cd $W || exit 2
git checkout -q -- . 2>/dev/null
git apply $O/patch.diff || { echo "$P/$X: PATCH DOES NOT APPLY"; exit 1; }
cargo test --workspace --no-fail-fast --offline > $O/confirm_suite.txt 2>&1; S=$?
cargo build -p daacfind --offline > /dev/null 2>&1; cargo build -p daacfind --release --offline > /dev/null 2>&1
DW=0; for prof in debug release; do sh $O/demo_mut$X.sh $W/target/$prof/daacfind > $O/confirm_demo_with_$prof.txt 2>&1 || DW=$((DW+1)); done
git checkout -q -- .
cargo build -p daacfind --offline > /dev/null 2>&1; cargo build -p daacfind --release --offline > /dev/null 2>&1
DN=0; for prof in debug release; do sh $O/demo_mut$X.sh $W/target/$prof/daacfind > $O/confirm_demo_without_$prof.txt 2>&1 || DN=$((DN+1)); done
echo "$P/$X: suite_with_patch_exit=$S demo_fails_with_patch(profiles)=$DW demo_fails_without_patch(profiles)=$DN"
