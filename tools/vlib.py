"""Shared machinery of ./check: builds, sharded runs of the implementation harness and of the
extracted Coq model, comparison of observations, property oracles, evidence."""
import hashlib
import json
import os
import re
import subprocess
import sys
import time
from concurrent.futures import ThreadPoolExecutor

ROOT = os.path.dirname(os.path.dirname(os.path.abspath(__file__)))
REPO = os.environ.get("VERIF_REPO", "/repo")
BUILD = os.path.join(ROOT, "build")
COQ = os.path.join(ROOT, "coq")
NCPU = 16
GUARD_RUSTFLAGS = "--cfg daachorse_verif --check-cfg cfg(daachorse_verif) -Awarnings"

FORBIDDEN = r"\bAdmitted\b|\badmit\b|\bAxiom\b|\bAxioms\b|\bParameter\b|\bParameters\b|\bConjecture\b|Unset Guard|bypass_check|type-in-type|impredicative-set|Admit Obligations|Unset Universe|Unset Positivity"
# axioms of the standard library that may appear under Print Assumptions (named in the evidence)
AXIOM_ALLOW = {"functional_extensionality_dep", "FunctionalExtensionality.functional_extensionality_dep",
               "proof_irrelevance", "Eqdep.Eq_rect_eq.eq_rect_eq", "eq_rect_eq", "classic", "JMeq_eq"}


def sh(cmd, timeout=None, cwd=None, env=None, capture=True):
    e = dict(os.environ)
    e["CARGO_NET_OFFLINE"] = "true"
    if env:
        e.update(env)
    try:
        p = subprocess.run(cmd, shell=isinstance(cmd, str), cwd=cwd, env=e, timeout=timeout,
                           stdout=subprocess.PIPE if capture else None,
                           stderr=subprocess.STDOUT if capture else None)
        return p.returncode, (p.stdout.decode("utf-8", "replace") if capture else "")
    except subprocess.TimeoutExpired as ex:
        out = ex.stdout.decode("utf-8", "replace") if ex.stdout else ""
        return 124, out + "\n[timeout]"


def sha(text):
    return hashlib.sha256(text if isinstance(text, bytes) else text.encode()).hexdigest()


def file_sha(path):
    h = hashlib.sha256()
    with open(path, "rb") as f:
        for chunk in iter(lambda: f.read(1 << 20), b""):
            h.update(chunk)
    return h.hexdigest()


# ------------------------------------------------------------------------------------- builds
import contextlib
import fcntl


@contextlib.contextmanager
def build_lock(name):
    """checks of different properties may run side by side: the shared builds (coq make, driver)
    are serialised by an advisory file lock"""
    os.makedirs(BUILD, exist_ok=True)
    f = open(os.path.join(BUILD, f".{name}.lock"), "w")
    try:
        fcntl.flock(f, fcntl.LOCK_EX)
        yield
    finally:
        fcntl.flock(f, fcntl.LOCK_UN)
        f.close()


def build_coq(log):
    with build_lock("coq"):
        return build_coq_locked(log)


def build_coq_locked(log):
    """regenerate the source constants, then an incremental full .vo build (no -vos)"""
    sys.path.insert(0, os.path.join(ROOT, "tools"))
    import consts
    consts.main(os.path.join(COQ, "Gen", "SrcConsts.v"))
    os.makedirs(os.path.join(COQ, "extracted"), exist_ok=True)
    mk, cp = os.path.join(COQ, "Makefile"), os.path.join(COQ, "_CoqProject")
    if not os.path.exists(mk) or os.path.getmtime(mk) < os.path.getmtime(cp):
        rc, out = sh("coq_makefile -f _CoqProject -o Makefile", cwd=COQ, timeout=120)
        if rc != 0:
            return False, out
    rc, out = sh(f"timeout 3000 make -j{NCPU}", cwd=COQ, timeout=3100)
    log.append(("make -C coq", rc, out[-3000:]))
    return rc == 0, out


def forbidden_scan():
    hits = []
    for d, _, fs in os.walk(COQ):
        for f in fs:
            if f.endswith(".v"):
                p = os.path.join(d, f)
                for i, line in enumerate(open(p, encoding="utf-8", errors="replace"), 1):
                    code = re.sub(r"\(\*.*?\*\)", "", line)
                    if re.search(FORBIDDEN, code):
                        hits.append(f"{os.path.relpath(p, ROOT)}:{i}: {line.strip()}")
    return hits


def check_pins(prop, log):
    """compile coq/Pins/<prop>.v: every pinned theorem is re-stated by `Check (name : stmt)` and
    followed by `Print Assumptions name`.  Returns (ok, theorems[{name, assumptions}], output)"""
    pin = os.path.join(COQ, "Pins", prop + ".v")
    if not os.path.exists(pin):
        return False, [], "missing " + pin
    rc, out = sh(f"timeout 600 coqc -noglob -Q . DV Pins/{prop}.v", cwd=COQ, timeout=650)
    for ext in (".vo", ".vok", ".vos"):
        try:
            os.remove(os.path.join(COQ, "Pins", prop + ext))
        except OSError:
            pass
    log.append((f"coqc Pins/{prop}.v", rc, out[-3000:]))
    names = re.findall(r"^\s*Print Assumptions\s+([\w.']+)\s*\.", open(pin).read(), re.M)
    thms = []
    if rc != 0:
        return False, [{"name": n, "assumptions": "NOT CHECKED"} for n in names], out
    # split the output into one block per Print Assumptions
    blocks = re.split(r"(?=Closed under the global context|Axioms:)", out)
    blocks = [b for b in blocks if b.startswith("Closed under") or b.startswith("Axioms:")]
    ok = len(blocks) == len(names)
    for n, b in zip(names, blocks):
        if b.startswith("Closed under"):
            thms.append({"name": n, "assumptions": "Closed under the global context"})
        else:
            axs = re.findall(r"^([\w.']+)\s*:", b, re.M)
            bad = [a for a in axs if a.split(".")[-1] not in {x.split(".")[-1] for x in AXIOM_ALLOW}]
            thms.append({"name": n, "assumptions": "Axioms: " + ", ".join(axs)})
            if bad:
                ok = False
    return ok, thms, out


def build_driver(log):
    with build_lock("driver"):
        return build_driver_locked(log)


def build_driver_locked(log):
    d = os.path.join(BUILD, "driver")
    os.makedirs(d, exist_ok=True)
    srcs = [os.path.join(COQ, "extracted", "model.mli"), os.path.join(COQ, "extracted", "model.ml"),
            os.path.join(ROOT, "driver", "driver.ml")]
    key = sha("".join(file_sha(s) for s in srcs))
    stamp = os.path.join(d, "stamp")
    exe = os.path.join(d, "driver")
    if os.path.exists(exe) and os.path.exists(stamp) and open(stamp).read() == key:
        return True, key
    for s in srcs:
        sh(["cp", s, d])
    rc, out = sh("ocamlfind ocamlopt -package zarith -linkpkg -w -a model.mli model.ml driver.ml -o driver.new",
                 cwd=d, timeout=600)
    log.append(("ocamlopt driver", rc, out[-2000:]))
    if rc == 0:
        os.replace(os.path.join(d, "driver.new"), exe)     # atomic: a running driver keeps its old image
        open(stamp, "w").write(key)
    return rc == 0, key


def build_harness(profile, log):
    """cargo build of /verif/harness against /repo's current working tree, hooks on"""
    lock_src = os.path.join(REPO, "Cargo.lock")
    flag = "--release" if profile == "release" else ""
    env = {"CARGO_TARGET_DIR": os.path.join(BUILD, "target"), "RUSTFLAGS": GUARD_RUSTFLAGS}
    rc, out = sh(f"cargo build --offline {flag}", cwd=os.path.join(ROOT, "harness"), env=env, timeout=1200)
    log.append((f"cargo build harness {profile}", rc, out[-3000:]))
    exe = os.path.join(BUILD, "target", "release" if profile == "release" else "debug", "dvharness")
    return rc == 0 and os.path.exists(exe), exe, out


# ---------------------------------------------------------------------------------- case runs
def weight(c):
    return 50 + sum(len(p) for p, _ in c.pats) * 4 + sum(len(h) for h in c.hays) * 2


def shard(cases, n):
    """greedy balance by estimated cost; groups stay together is not required"""
    bins = [[0, []] for _ in range(n)]
    for c in sorted(cases, key=weight, reverse=True):
        b = min(bins, key=lambda x: x[0])
        b[0] += weight(c)
        b[1].append(c)
    return [b[1] for b in bins if b[1]]


def parse_obs(text):
    """-> {case id: [lines]}; a case without END is marked incomplete"""
    out = {}
    cur = None
    for line in text.splitlines():
        if line.startswith("CASE "):
            cur = line[5:].strip()
            out[cur] = []
        elif line.startswith("END "):
            if cur is not None:
                out[cur].append("#END")
            cur = None
        elif cur is not None:
            out[cur].append(line)
    return out


def run_watch(cmd, case_limit, total_limit):
    """run the harness with a per-case watchdog: it prints `CASE id` before and `END id` after
    every case (flushed); when no line arrives for [case_limit] seconds the process is killed.
    -> (rc, text); rc 124 = killed by the watchdog"""
    import threading
    p = subprocess.Popen(cmd, stdout=subprocess.PIPE, stderr=subprocess.DEVNULL)
    buf = []
    last = [time.time()]

    def reader():
        for line in p.stdout:
            buf.append(line)
            last[0] = time.time()
    t = threading.Thread(target=reader, daemon=True)
    t.start()
    t0 = time.time()
    killed = False
    while p.poll() is None:
        time.sleep(0.05)
        now = time.time()
        if now - last[0] > case_limit or now - t0 > total_limit:
            p.kill()
            killed = True
            break
    p.wait()
    t.join(timeout=5)
    text = b"".join(buf).decode("utf-8", "replace")
    return (124 if killed else p.returncode), text


CASE_LIMIT = {"release": 40, "debug": 120}


def run_impl_shard(exe, path, ncases, timeout):
    """run the harness; if the process dies (abort / signal) or a case hangs (watchdog) note it on
    the case that was running and resume after it"""
    obs = {}
    skip = 0
    guard = 0
    limit = CASE_LIMIT["debug" if "/debug/" in exe else "release"]
    while skip < ncases and guard < 50:
        guard += 1
        rc, out = run_watch([exe, path, str(skip)], limit, timeout)
        part = parse_obs(out)
        done = 0
        for cid, lines in part.items():
            if lines and lines[-1] == "#END":
                obs[cid] = lines[:-1]
                done += 1
            else:
                tag = "#TIMEOUT" if rc == 124 else f"#DIED rc={rc}"
                obs[cid] = lines + [tag]
                done += 1
                break
        if rc == 0:
            break
        if done == 0:
            break
        skip += done
    return obs


def run_model_shard(exe, key, path, timeout):
    text = open(path).read()
    cdir = os.path.join(BUILD, "cache")
    os.makedirs(cdir, exist_ok=True)
    cpath = os.path.join(cdir, sha(key + text) + ".model")
    if os.path.exists(cpath):
        return parse_obs(open(cpath).read()), True
    rc, out = sh(f"ulimit -s unlimited 2>/dev/null || ulimit -s 4000000 2>/dev/null; exec {exe} {path}", timeout=timeout)
    obs = parse_obs(out)
    complete = rc == 0 and all(l and l[-1] == "#END" for l in obs.values())
    if complete:
        open(cpath, "w").write(out)
    else:
        for cid, lines in obs.items():
            if not lines or lines[-1] != "#END":
                lines.append("#TIMEOUT" if rc == 124 else f"#DIED rc={rc}")
    return obs, False


def strip_end(obs):
    return {k: [l for l in v if l != "#END"] for k, v in obs.items()}


def run_all(cases, tag, impl_exes, drv, drv_key, timeout=600):
    """-> (impl_obs by profile, model_obs, stats)"""
    wd = os.path.join(BUILD, "runs", tag)
    os.makedirs(wd, exist_ok=True)
    shards = shard(cases, NCPU)
    paths = []
    for i, s in enumerate(shards):
        p = os.path.join(wd, f"s{i}.case")
        open(p, "w").write("".join(c.text() for c in s))
        paths.append((p, len(s)))
    impl = {prof: {} for prof in impl_exes}
    model = {}
    cached = 0
    with ThreadPoolExecutor(max_workers=NCPU) as ex:
        fm = [ex.submit(run_model_shard, drv, drv_key, p, timeout) for p, _ in paths] if drv else []
        fi = {prof: [ex.submit(run_impl_shard, exe, p, n, timeout) for p, n in paths] for prof, exe in impl_exes.items()}
        for f in fm:
            o, c = f.result()
            model.update(o)
            cached += int(c)
        for prof, fs in fi.items():
            for f in fs:
                impl[prof].update(f.result())
    return impl, strip_end(model), {"shards": len(shards), "model_shards_cached": cached}


# ----------------------------------------------------------------------------------- compare
def tag_of(line):
    return line.split(" ", 1)[0]


def relevant(lines, tags):
    return [l for l in lines if tag_of(l) in tags or l.startswith("#") or l.startswith("!") or l.startswith("SKIP")]


def correspondence(cases, impl, model, tags):
    """compare the observation lines with a tag in [tags]; returns list of (case id, impl, model)"""
    dis = []
    for c in cases:
        if "N" in c.ops:      # huge case: implementation + specification only (oracles), no model run
            continue
        a = relevant(impl.get(c.id, ["#MISSING"]), tags)
        b = relevant([l for l in model.get(c.id, ["#MISSING"]) if not l.startswith("SPEC")], tags)
        if a != b:
            k = 0
            while k < min(len(a), len(b)) and a[k] == b[k]:
                k += 1
            dis.append((c.id, a[k] if k < len(a) else "<nothing>", b[k] if k < len(b) else "<nothing>"))
    return dis


def lines_by_tag(lines):
    d = {}
    for l in lines:
        parts = l.split(" ")
        d.setdefault(parts[0], []).append(parts[1:])
    return d


def strip_pulls(items):
    return [x.split("@")[0] for x in items if not x.startswith("@")]


# ------------------------------------------------------------------ certificate on impl images
CERT_PROPS = {"C01", "C02", "C03", "C04", "C05", "C06", "C07", "C08", "C11", "C13", "C15"}


def run_cert_images(cases, impl, drv, drv_key, tag, timeout=1800):
    """give the bytes the implementation serialised (IMGHEX lines) to the Coq-proved checker.
    -> {case id: (ok '1'/'0'/'-', count, note)}"""
    todo = []
    for c in cases:
        lines = impl.get(c.id, [])
        hx = [l.split(" ", 1)[1] for l in lines if l.startswith("IMGHEX ")]
        if "BUILD ok" not in lines or not hx:
            continue
        todo.append((c, hx[0]))
    if not todo or not drv:
        return {}
    wd = os.path.join(BUILD, "runs", tag)
    os.makedirs(wd, exist_ok=True)
    shards = [todo[i::NCPU] for i in range(NCPU)]
    shards = [s for s in shards if s]
    res = {}

    def one(i, sh):
        path = os.path.join(wd, f"cert{i}.case")
        with open(path, "w") as f:
            for c, hx in sh:
                f.write(f"CASE {c.id}\nVAR {c.var}\nKIND {c.kind}\nVT {c.vt}\nENTRY {c.entry}\n")
                for pat, v in c.pats:
                    f.write(f"P {pat.hex() if pat else '-'} {v}\n")
                f.write(f"IMGHEX {hx}\nEND\n")
        text = open(path).read()
        cdir = os.path.join(BUILD, "cache")
        os.makedirs(cdir, exist_ok=True)
        cpath = os.path.join(cdir, sha(drv_key + "cert" + text) + ".cert")
        if os.path.exists(cpath):
            return open(cpath).read()
        rc, out = sh_run(f"ulimit -s unlimited 2>/dev/null; exec {drv} --cert-image {path}", timeout)
        if rc == 0:
            open(cpath, "w").write(out)
        return out
    with ThreadPoolExecutor(max_workers=NCPU) as ex:
        futs = [ex.submit(one, i, s) for i, s in enumerate(shards)]
        for f in futs:
            for cid, lines in parse_obs(f.result()).items():
                safe = None
                stats = None
                lcert = None
                for l in lines:
                    if l.startswith("ISAFE"):
                        safe = l.split()[1]
                    if l.startswith("ISTATS"):
                        stats = l.split()[1]
                    if l.startswith("ILCERT"):
                        lcert = l.split()[1]
                    if l.startswith("ICERT"):
                        p = l.split()
                        res[cid] = (p[1], int(p[2]), " ".join(p[3:]), safe, stats, lcert)
    for c, _ in todo:
        res.setdefault(c.id, ("0", 0, "checker did not answer (timeout or crash)", "0", "0", "0"))
    return res


def sh_run(cmd, timeout):
    return sh(cmd, timeout=timeout)


# ------------------------------------------------------------------ in-Coq cross-check (extraction)
XCHECK_VT = {"u8": "VUnsigned 1", "u16": "VUnsigned 2", "u32": "VUnsigned 4", "u64": "VUnsigned 8", "usize": "VUnsigned 8",
             "u128": "VUnsigned 16", "user3": "VUnsigned 3", "i8": "VSigned 1", "i16": "VSigned 2", "i32": "VSigned 4",
             "i64": "VSigned 8", "isize": "VSigned 8", "i128": "VSigned 16", "empty": "VEmpty"}


def xcheck_select(cases, limit=6):
    """small cases to be re-evaluated inside Coq (vm_compute on the Gallina model itself); they are
    asked for their serialised image (ops letter X).  Both variants and all kinds first, then any."""
    def eligible(c):
        if c.entry not in ("values", "build") or c.vt not in XCHECK_VT or "S" not in c.ops or "N" in c.ops or c.var not in ("bw", "cw"):
            return False
        if c.entry == "build" and (c.vt in ("u8", "i8", "empty") or [v for _, v in c.pats] != list(range(len(c.pats)))):
            return False
        if not (1 <= len(c.pats) <= 8) or any(len(p) > 9 for p, _ in c.pats) or any(len(h) > 16 for h in c.hays) or c.nfb > 64:
            return False
        if c.var == "cw":
            try:
                top = max(ord(ch) for p, _ in c.pats for ch in p.decode("utf-8"))
                for h in c.hays:
                    h.decode("utf-8")
            except (UnicodeDecodeError, ValueError):
                return False
            if top >= 0x400:        # the serialised code mapper has one u32 per code point below the largest one
                return False
        return True
    el = [c for c in cases if eligible(c)]
    picked, seen = [], set()
    for c in el:
        if (c.var, c.kind) not in seen and len(picked) < limit:
            seen.add((c.var, c.kind))
            picked.append(c)
    for c in el:
        if len(picked) >= limit:
            break
        if c not in picked:
            picked.append(c)
    for c in picked:
        if "X" not in c.ops:
            c.ops += "X"
    return picked


def _coq_nlist(bs):
    return "[" + "; ".join(str(b) for b in bs) + "]"


def _coq_trips(items):
    """items: ['s,e,v', ...] as printed by the driver -> Coq term of type list (nat * nat * Z)"""
    out = []
    for it in items:
        s, e, v = it.split(",")
        out.append(f"({s}%nat, {e}%nat, ({v})%Z)")
    return "[" + "; ".join(out) + "]"


def xcheck_run(picked, impl, model, tag, log):
    """-> (ok, detail).  Writes build/runs/<tag>/xcheck.v and evaluates it with coqc: for every picked
    case the Gallina model, run by vm_compute, must give the bytes the IMPLEMENTATION serialised and
    the match lists the extracted driver printed."""
    terms, ids = [], []
    for c in picked:
        il = impl.get(c.id, [])
        ml = model.get(c.id, [])
        hexl = [l for l in il if l.startswith("IMGHEX ")]
        if not hexl or not any(l == "BUILD ok" for l in ml):
            continue
        img = bytes.fromhex(hexl[0].split()[1])
        if len(img) > 40000:
            continue
        md = lines_by_tag(ml)
        hs = []
        for j, h in enumerate(c.hays):
            def get(tagname):
                for parts in md.get(tagname, []):
                    if parts and parts[0] == str(j):
                        if any(x.startswith("!") for x in parts[1:]):
                            return None
                        return "Some " + _coq_trips(parts[1:])
                return "None"
            fields = [get("OVL"), get("FIND"), get("NOS"), get("LEFT")]
            if any(f is None for f in fields):
                continue
            hs.append("{| he_hay := %s; he_ovl := %s; he_find := %s; he_nos := %s; he_left := %s |}"
                      % (_coq_nlist(h), *fields))
        if c.var == "bw":
            pv = "[" + "; ".join(f"({_coq_nlist(p)}, ({v})%Z)" for p, v in c.pats) + "]"
        else:
            pv = "[" + "; ".join(f"({_coq_nlist([ord(ch) for ch in p.decode('utf-8')])}, ({v})%Z)" for p, v in c.pats) + "]"
        fn = "xc_bw" if c.var == "bw" else "xc_cw"
        terms.append(f"({fn} {c.kind} {c.nfb} ({XCHECK_VT[c.vt]}) {pv} {_coq_nlist(img)} [{'; '.join(hs)}])")
        ids.append(c.id)
    if not terms:
        return True, "no case sampled"
    wd = os.path.join(BUILD, "runs", tag)
    os.makedirs(wd, exist_ok=True)
    path = os.path.join(wd, "xcheck.v")
    with open(path, "w") as f:
        f.write("(* written by tools/vlib.py: sampled cases re-evaluated inside Coq *)\n"
                "From DV Require Import Model.Base Model.Ser Gen.CrossCheck.\nLocal Open Scope N_scope.\n")
        f.write("Definition xcheck_results : list bool :=\n  [" + ";\n   ".join(terms) + "].\n")
        f.write("Eval vm_compute in xcheck_results.\n")
    rc, out = sh(f"ulimit -s unlimited 2>/dev/null || ulimit -s 4000000 2>/dev/null; timeout 600 coqc -noglob -Q {COQ} DV {path}", cwd=wd, timeout=650)
    for ext in (".vo", ".vos", ".vok", ".glob"):
        try:
            os.remove(path[:-2] + ext)
        except OSError:
            pass
    flat = " ".join(out.split())
    m = re.search(r"= \[([a-z; ]*)\]", flat)
    log.append(("coqc xcheck.v", rc, out[-1500:]))
    if rc != 0 or not m:
        return False, f"coqc failed on {path}: {out[-400:]}"
    vals = [x.strip() for x in m.group(1).split(";") if x.strip()]
    bad = [i for i, v in zip(ids, vals) if v != "true"]
    if len(vals) != len(ids) or bad:
        return False, f"the model evaluated inside Coq disagrees with the implementation's image / the extracted driver on {bad or ids}"
    return True, f"{len(ids)} cases re-evaluated inside Coq (vm_compute): " + " ".join(ids)


# ------------------------------------------------------------------ coqchk (thorough tier)
def coqchk(prop, log):
    """independent re-check of Properties/<prop>.vo and everything it depends on with coqchk -o; the
    lists of axioms, of constants relying on type-in-type / unsafe fixpoints and of inductives with
    assumed positivity must all be empty.  -> (ok, detail)"""
    rc, out = sh(f"timeout 3000 coqchk -o -silent -Q . DV DV.Properties.{prop}", cwd=COQ, timeout=3100)
    log.append((f"coqchk Properties.{prop}", rc, out[-2500:]))
    flat = " ".join(out.split())
    want = ["* Axioms: <none>", "* Constants/Inductives relying on type-in-type: <none>",
            "* Constants/Inductives relying on unsafe (co)fixpoints: <none>", "* Inductives whose positivity is assumed: <none>"]
    missing = [w for w in want if w not in flat]
    if rc != 0 or missing:
        return False, f"coqchk rc={rc}; not reported empty: {missing}; tail: {flat[-600:]}"
    return True, "coqchk -o: Axioms: <none>; no type-in-type, no unsafe fixpoints, no assumed positivity"


# ------------------------------------------------------------------ Miri (C07 runtime support)
def miri_select(cases, limit):
    out, seen = [], set()
    for c in cases:
        if len(out) >= limit:
            break
        if c.var not in ("bw", "cw") or "S" not in c.ops or "N" in c.ops or c.entry not in ("values", "build"):
            continue
        if not (1 <= len(c.pats) <= 5) or any(len(p) > 6 for p, _ in c.pats) or any(len(h) > 12 for h in c.hays) or not c.hays:
            continue
        try:
            if c.var == "cw" and max(ord(ch) for p, _ in c.pats for ch in p.decode("utf-8")) >= 0x400:
                continue
            if c.var == "cw":
                for h in c.hays:
                    h.decode("utf-8")
        except (UnicodeDecodeError, ValueError):
            continue
        key = (c.var, c.kind)
        if key in seen and len(seen) < 6:
            continue
        seen.add(key)
        out.append(c.clone("miri_" + c.id, ops="SR", group=None))
    # fixed cases: every UTF-8 width class in the haystack of a character-wise leftmost automaton (decoder
    # and slicing paths), bytes 0x00 / 0xFF around a byte-wise leftmost-first automaton, round trips
    import gen as _gen
    out.append(_gen.Case("miri_fix_cw", "cw", 1, 1, "u16", "values", "SR",
                         [("a\u00e9".encode(), 1), ("\u00e9".encode(), 2), ("\u20ac".encode(), 3)],
                         ["xa\u00e9\U0001F600\u00e9\u20aca".encode(), "\U0010FFFF\u00e9".encode()], b"\x07\x08", suite="miri"))
    out.append(_gen.Case("miri_fix_bw", "bw", 2, 16, "u64", "values", "SR",
                         [(b"ab", 1), (b"a", 2), (b"abc", 3), (b"\x00\xff", 4)], [b"\x00abca\xff\x00\xff", b""], b"\x01", suite="miri"))
    return out


def miri_check(picked, release_exe, tag, log):
    """runs the harness under Miri (cargo +nightly miri run) on a few minimal cases: Miri reports any
    undefined behaviour (out-of-bounds or uninitialised reads, invalid chars, aliasing violations) that
    the searches, the builders or deserialize_unchecked perform on them, and its observations must be
    those of the release build.  -> (status, detail, failing case id or None); status in
    {"ok", "ub", "differs", "unavailable"}.  "unavailable" (no Miri in this environment) is not an alarm."""
    if not picked:
        return "ok", "no case sampled", None
    wd = os.path.join(BUILD, "runs", tag)
    os.makedirs(wd, exist_ok=True)
    path = os.path.join(wd, "miri.case")
    open(path, "w").write("".join(c.text() for c in picked))
    env = {"MIRIFLAGS": "-Zmiri-disable-isolation", "CARGO_TARGET_DIR": os.path.join(BUILD, "miri"), "RUSTFLAGS": GUARD_RUSTFLAGS}
    rc, out = sh(f"timeout 1500 cargo +nightly miri run --offline -- {path} 0", cwd=os.path.join(ROOT, "harness"), env=env, timeout=1600)
    log.append(("cargo miri run", rc, out[-2500:]))
    if "Undefined Behavior" in out:
        cur = None
        for line in out.splitlines():
            if line.startswith("CASE "):
                cur = line.split()[1]
        m = re.search(r"error: Undefined Behavior:[^\n]*", out)
        return "ub", (m.group(0) if m else "Undefined Behavior") + f" (while running case {cur})", cur
    obs = parse_obs(out)
    if rc != 0 or not obs or not all(l and l[-1] == "#END" for l in obs.values()):
        return "unavailable", f"cargo +nightly miri run did not complete (rc={rc}): {out[-300:]}", None
    rc2, out2 = run_watch([release_exe, path, "0"], 60, 300)
    ref = parse_obs(out2)
    for c in picked:
        a = [l for l in obs.get(c.id, []) if not l.startswith("TICKS") and not l.startswith("RTICKS")]
        b = [l for l in ref.get(c.id, []) if not l.startswith("TICKS") and not l.startswith("RTICKS")]
        if a != b:
            return "differs", f"observations under Miri differ from the release build on {c.id}", c.id
    return "ok", f"{len(picked)} minimal cases run under Miri without undefined behaviour, observations equal to the release build: " + " ".join(c.id for c in picked), None
