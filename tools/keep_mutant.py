#!/usr/bin/env python3
"""keep_mutant.py <prop> <X> <id> <needs> <detected-by>: copies a confirmed seeded change into
/verif/seeded/<id>/ (patch.diff, demonstration, meta.json)."""
import json, os, shutil, sys, glob
prop, X, mid, needs, detected = sys.argv[1:6]
src = os.environ.get("MUTROOT", "/tmp/mut") + f"/out/{prop}/{X}"
dst = f"/verif/seeded/{mid}"
os.makedirs(dst, exist_ok=True)
shutil.copy(f"{src}/patch.diff", dst)
for f in glob.glob(f"{src}/*.rs") + glob.glob(f"{src}/demo.md") + glob.glob(f"{src}/notes.md") + glob.glob(f"{src}/*.sh"):
    shutil.copy(f, dst)
confirm = {}
for f in glob.glob(f"{src}/confirm_*.txt"):
    t = open(f, errors="replace").read()
    confirm[os.path.basename(f)] = [l for l in t.splitlines() if l.startswith("test result") or "FAILED" in l or "error" in l.lower()][:12]
meta = {"id": mid, "breaks_property": prop, "needs_to_manifest": needs,
        "what_i_ran": [f"tools/confirm_mutant.sh {prop} {X}  (scratch worktree /tmp/mut/{prop}: patch applied -> cargo test --workspace passes; demo fails with the patch, passes without)",
                       f"tools/seedtest.sh seeded/{mid}/patch.diff {prop}  (git -C /repo apply; ./check; git -C /repo checkout -- .)"],
        "detected_by": detected, "confirmation_summaries": confirm}
json.dump(meta, open(f"{dst}/meta.json", "w"), indent=1)
print("kept", dst)
