"""Property oracles: decide, from the implementation's own observation and the extracted Spec
(SPEC* lines printed by the driver), whether a case contradicts the property text.  These are
used (a) on every run next to the model/implementation comparison and (b) to search for a
failing input when a proof obligation or the correspondence no longer checks."""
from vlib import lines_by_tag, strip_pulls


def indexed(d, tag):
    """{j: [items]} for lines `TAG j item item ...`"""
    out = {}
    for parts in d.get(tag, []):
        if parts:
            out[parts[0]] = parts[1:]
    return out


def single(d, tag):
    v = d.get(tag)
    return v[0] if v else None


class Ctx:
    def __init__(self, case, impl_lines, model_lines):
        self.c = case
        self.impl_lines = impl_lines
        self.i = lines_by_tag(impl_lines)
        self.s = lines_by_tag([l for l in model_lines if l.startswith("SPEC")])
        self.died = [l for l in impl_lines if l.startswith("#DIED") or l.startswith("#TIMEOUT") or l.startswith("#MISSING")]

    def built(self):
        return single(self.i, "BUILD") == ["ok"]


def v(case, what, detail):
    return {"case": case.id, "what": what, "detail": detail}


def search_vs_spec(ctx, pairs, prefixes=("",)):
    """pairs: [(impl tag, spec tag, has_pulls)]"""
    out = []
    if not ctx.built():
        return out
    for pre in prefixes:
        for it, st, pulls in pairs:
            got = indexed(ctx.i, pre + it)
            want = indexed(ctx.s, st)
            for j, w in want.items():
                if j not in got:
                    if got:
                        out.append(v(ctx.c, f"{pre}{it} missing for haystack {j}", ""))
                    continue
                g = strip_pulls(got[j]) if pulls else got[j]
                if g != w:
                    out.append(v(ctx.c, f"{pre}{it} differs from the specification on haystack {j}",
                                 f"haystack={ctx.c.hays[int(j)].hex()} impl={' '.join(g)} spec={' '.join(w)}"))
    return out


STD = {"C01": [("OVL", "SPECOVL", False), ("OVLI", "SPECOVL", True)],
       "C02": [("FIND", "SPECFIND", False), ("FINDI", "SPECFIND", True)],
       "C05": [("NOS", "SPECNOS", False), ("NOSI", "SPECNOS", True)]}
ALL_STD = STD["C01"] + STD["C02"] + STD["C05"]
LEFT = [("LEFT", "SPECLEFT", False)]


def byval_violations(ctx):
    out = []
    for pre in ("", "R"):
        for parts in ctx.i.get(pre + "BYVAL", []):
            if len(parts) >= 2 and parts[1] != "1":
                out.append(v(ctx.c, "a haystack passed by value (an array moved together with the iterator) is searched differently from the "
                                    "borrowed slice: the search read memory that is not the haystack", f"haystack {parts[0]}: {parts[1]}"))
    return out


def o_std(prop):
    def f(ctx):
        if ctx.c.kind != 0:
            return []
        return search_vs_spec(ctx, STD[prop], ("", "R")) + byval_violations(ctx)
    return f


def o_left(kind):
    def f(ctx):
        if ctx.c.kind != kind:
            return []
        return search_vs_spec(ctx, LEFT, ("", "R"))
    return f


def o_c06(ctx):
    pairs = ALL_STD if ctx.c.kind == 0 else LEFT
    out = search_vs_spec(ctx, pairs, ("", "R"))
    b = single(ctx.i, "BUILD")
    if single(ctx.s, "SPECBUILD") == ["ok"] and b is not None and b != ["ok"] and not b[0].startswith("err:AutomatonScale"):
        out.append(v(ctx.c, "construction fails on a valid collection: no match can carry its value", " ".join(b)))
    return out


def o_c07(ctx):
    out = []
    for l in ctx.died:
        if l.startswith("#DIED"):
            out.append(v(ctx.c, "process died while building/searching (abort or signal: std's unsafe-precondition "
                                "check, overflow, or a memory fault)", l))
    for l in ctx.impl_lines:
        if "!panic" in l and not l.startswith("KINDCHK"):
            out.append(v(ctx.c, "a search panicked", l))
    return out + byval_violations(ctx) + apix_violations(ctx)


def o_c09(ctx):
    out = []
    if not ctx.built() or "RT" not in ctx.i:
        return out
    rt = single(ctx.i, "RT")
    img = single(ctx.i, "IMG")
    if rt == ["panic"]:
        return [v(ctx.c, "deserialize_unchecked panicked on the automaton's own image", "")]
    consumed, rest_ok, rehash, eq = rt
    if consumed != img[0]:
        out.append(v(ctx.c, "deserialisation consumed a different number of bytes than serialize produced", f"{consumed} vs {img[0]}"))
    if rest_ok != "1":
        out.append(v(ctx.c, "trailing bytes were not handed back untouched", ""))
    if rehash != img[1]:
        out.append(v(ctx.c, "re-serialising the restored automaton gives different bytes", ""))
    if eq != "1":
        out.append(v(ctx.c, "restored automaton is not equal to the original", ""))
    for t in ("OVL", "FIND", "NOS", "LEFT", "OVLI", "FINDI", "NOSI"):
        a, b = indexed(ctx.i, t), indexed(ctx.i, "R" + t)
        if b and a != b:
            out.append(v(ctx.c, f"restored automaton answers {t} differently", ""))
    return out


def o_c10(ctx):
    out = []
    b = single(ctx.i, "BUILD")
    s = single(ctx.s, "SPECBUILD")
    if ctx.died:
        return [v(ctx.c, "construction killed the process", ctx.died[0])]
    d = single(ctx.i, "DEFAULTB")
    if d is not None and d[0] != "1":
        out.append(v(ctx.c, "a builder obtained from Default::default() does not behave like Builder::new() / the static constructor",
                     " ".join(d[1:])))
    if b is None or s is None:
        return out
    if b[0] == "panic":
        return out + [v(ctx.c, "construction panicked", "")]
    huge = ctx.c.nfb > 65536
    if s == ["ok"]:
        if b != ["ok"] and not (huge and b == ["err:AutomatonScale"]):
            out.append(v(ctx.c, "a valid collection was rejected", " ".join(b)))
    else:
        if b != s:
            out.append(v(ctx.c, "an invalid collection was not answered with the documented error kind",
                         f"impl={' '.join(b)} expected={' '.join(s)}"))
    return out


def o_c12(ctx):
    out = []
    if not ctx.built() or ctx.c.kind != 0:
        return out
    for t in ("OVL", "FIND", "NOS"):
        a, b = indexed(ctx.i, t), indexed(ctx.i, t + "I")
        for j, items in b.items():
            if items == ["!panic"]:
                out.append(v(ctx.c, f"{t}I panicked", ""))
                continue
            bad = [x for x in items if x.startswith("!")]
            if bad:
                out.append(v(ctx.c, f"byte-iterator {t}: the result depends on the source's size_hint (or a run panicked) on haystack {j}", " ".join(items)))
                continue
            if j in a and strip_pulls(items) != a[j]:
                out.append(v(ctx.c, f"byte-iterator {t} differs from the slice search on haystack {j}", f"{items} vs {a[j]}"))
            n = len(ctx.c.hays[int(j)])
            for it in items:
                if it.startswith("@"):
                    if int(it[1:]) != n:
                        out.append(v(ctx.c, f"{t}I: source not fully drained when the search ended ({it[1:]} of {n})", ""))
                else:
                    m, k = it.split("@")
                    e = m.split(",")[1]
                    if int(k) != int(e):
                        out.append(v(ctx.c, f"{t}I: {k} bytes pulled when the match ending at {e} was returned", f"haystack {j}"))
    return out


def o_c13(ctx):
    out = []
    for l in ctx.died:
        if l.startswith("#TIMEOUT"):
            out.append(v(ctx.c, "search or construction did not return (watchdog)", l))
    if not ctx.built():
        return out
    if ctx.c.kind == 0:
        for pre in ("", "R"):
            for j, t in indexed(ctx.i, pre + "TICKS").items():
                n = len(ctx.c.hays[int(j)])
                for name, x in zip(("overlapping", "find", "no-suffix"), t):
                    if int(x) > 2 * n:
                        out.append(v(ctx.c, f"{name} scan took {x} transitions on {n} bytes (> 2n)", f"haystack {j}"))
    return out


def apix_violations(ctx):
    a = single(ctx.i, "APIX")
    if a is not None and a != ["1", "1", "1", "1"]:
        names = ["a clone differs from the original", "a search after partially consumed (dropped) iterators answers differently",
                 "two interleaved iterators on one automaton answer differently from the same searches run one after the other",
                 "searching changed the automaton's bytes"]
        what = "; ".join(n for n, x in zip(names, a) if x != "1") or "the API-surface run panicked"
        return [v(ctx.c, what, " ".join(a))]
    return []


def o_c14(ctx):
    out = []
    if not ctx.built():
        return out
    out += apix_violations(ctx)
    d = single(ctx.i, "DET")
    if d is not None and d != ["1"]:
        out.append(v(ctx.c, "building twice from the same input gave different bytes", ""))
    t = single(ctx.i, "THREADS")
    if t is not None and t != ["1", "1"]:
        out.append(v(ctx.c, "concurrent/interleaved searches on a shared automaton disagreed with a single search", " ".join(t)))
    return out


def o_c15(ctx):
    out = []
    if not ctx.built():
        return out
    st = single(ctx.i, "STATS")
    sp = single(ctx.s, "SPECSTATES")
    tb = single(ctx.i, "TABLE")
    if st is None:
        return out
    ns, nel, heap = int(st[0]), int(st[1]), int(st[2])
    if sp is not None and ns != int(sp[0]):
        out.append(v(ctx.c, "num_states differs from 1 + number of distinct non-empty prefixes of the reportable patterns",
                     f"impl={ns} spec={sp[0]}"))
    if tb is not None and int(tb[0]) != ns:
        out.append(v(ctx.c, "number of slots reachable from the root differs from num_states", f"reachable={tb[0]} num_states={ns}"))
    if nel < ns:
        out.append(v(ctx.c, "num_elements smaller than num_states", f"{nel} < {ns}"))
    if heap < 12 * ns:
        out.append(v(ctx.c, "heap_bytes smaller than 12 bytes per state", f"{heap} < 12*{ns}"))
    rs = single(ctx.i, "RSTATS")
    if rs is not None and rs[:3] != st[:3]:
        out.append(v(ctx.c, "the automaton restored from its own serialised bytes reports other statistics than the original",
                     f"restored={' '.join(rs[:3])} original={' '.join(st[:3])}"))
    return out


def group_equal(ctxs, tags, what, only_kinds=None, numstates=False):
    """all built cases of one group must show identical lines for [tags]"""
    out = []
    ref = None
    for ctx in ctxs:
        if only_kinds is not None and ctx.c.kind not in only_kinds:
            continue
        if not ctx.built():
            continue
        sig = []
        for t in tags:
            sig.append((t, sorted(indexed(ctx.i, t).items()) if t not in ("IMG",) else single(ctx.i, t)))
        if numstates:
            st = single(ctx.i, "STATS")
            sig.append(("NS", st[0] if st else None))
        if ref is None:
            ref = (ctx, sig)
        elif sig != ref[1]:
            diff = [a[0] for a, b in zip(sig, ref[1]) if a != b]
            out.append(v(ctx.c, what, f"differs from case {ref[0].c.id} in {diff}"))
    return out


SEARCH_TAGS = ["OVL", "FIND", "NOS", "LEFT"]


def g_c08(ctxs):
    return group_equal(ctxs, SEARCH_TAGS, "char-wise and byte-wise automata return different matches")


def g_c11(ctxs):
    return group_equal(ctxs, SEARCH_TAGS, "num_free_blocks changed search results or the state count", numstates=True)


def g_c14(ctxs):
    return group_equal(ctxs, ["IMG"], "a permutation of the same pattern/value pairs serialises differently", only_kinds=(0, 1))


def o_c08(ctx):
    pairs = ALL_STD[0::2] if ctx.c.kind == 0 else LEFT
    out = search_vs_spec(ctx, pairs)
    b = single(ctx.i, "BUILD")
    if single(ctx.s, "SPECBUILD") == ["ok"] and b is not None and b != ["ok"] and not (b[0].startswith("err:AutomatonScale")):
        out.append(v(ctx.c, "construction fails on a valid UTF-8 collection: this variant answers nothing where its twin answers",
                     " ".join(b)))
    return out


def o_c11(ctx):
    pairs = ALL_STD[0::2] if ctx.c.kind == 0 else LEFT
    return search_vs_spec(ctx, pairs)


# per property: tags compared impl-vs-model, per-case oracle, per-group oracle, profiles
PROPS = {
    "C01": dict(tags={"BUILD", "TABLE", "OVL", "OVLI", "ROVL", "ROVLI", "RT", "BYVAL"}, oracle=o_std("C01")),
    "C02": dict(tags={"BUILD", "TABLE", "FIND", "FINDI", "RFIND", "RFINDI", "RT", "BYVAL"}, oracle=o_std("C02")),
    "C03": dict(tags={"BUILD", "TABLE", "LEFT", "RLEFT", "RT"}, oracle=o_left(1)),
    "C04": dict(tags={"BUILD", "TABLE", "LEFT", "RLEFT", "RT", "STATS"}, oracle=o_left(2)),
    "C05": dict(tags={"BUILD", "TABLE", "NOS", "NOSI", "RNOS", "RNOSI", "RT", "BYVAL"}, oracle=o_std("C05")),
    "C06": dict(tags={"BUILD", "OVL", "FIND", "NOS", "LEFT", "OVLI", "FINDI", "NOSI", "ROVL", "RFIND", "RNOS", "RLEFT",
                      "ROVLI", "RFINDI", "RNOSI", "RT"}, oracle=o_c06),
    "C07": dict(tags={"BUILD", "IMG", "TABLE", "OVL", "FIND", "NOS", "LEFT", "OVLI", "FINDI", "NOSI", "ROVL", "RFIND",
                      "RNOS", "RLEFT", "RT", "KINDCHK", "KINDCHKI", "BYVAL", "RBYVAL", "APIX"}, oracle=o_c07, profiles=("debug", "release")),
    "C08": dict(tags={"BUILD", "TABLE", "OVL", "FIND", "NOS", "LEFT"}, oracle=o_c08, group=g_c08),
    "C09": dict(tags={"BUILD", "IMG", "RT", "ROVL", "RFIND", "RNOS", "RLEFT", "ROVLI", "RFINDI", "RNOSI", "OVL", "FIND",
                      "NOS", "LEFT"}, oracle=o_c09),
    "C10": dict(tags={"BUILD", "DEFAULTB"}, oracle=o_c10, profiles=("debug", "release")),
    "C11": dict(tags={"BUILD", "IMG", "STATS", "TABLE", "OVL", "FIND", "NOS", "LEFT"}, oracle=o_c11, group=g_c11),
    "C12": dict(tags={"BUILD", "OVL", "FIND", "NOS", "OVLI", "FINDI", "NOSI"}, oracle=o_c12),
    "C13": dict(tags={"BUILD", "TABLE", "TICKS", "RTICKS", "KINDCHK", "KINDCHKI"}, oracle=o_c13),
    "C14": dict(tags={"BUILD", "IMG", "DET", "THREADS", "APIX"}, oracle=o_c14, group=g_c14),
    "C15": dict(tags={"BUILD", "STATS", "TABLE", "RSTATS"}, oracle=o_c15),
}
