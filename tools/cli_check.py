"""C16: daacfind.  Runs the real dev and release binaries (built from /repo's working tree) on
generated pattern lists / inputs / flag combinations, compares stdout bytes and exit status with
the Coq model (Model/Cli.v, extracted), and evaluates the property text (extracted Spec:
occurrences per line) on the real output."""
import json
import os
import re
import shutil
import subprocess
import sys
import time
from concurrent.futures import ThreadPoolExecutor

import vlib
import gen
import levels

T0 = time.time()
CLI_TARGET = os.path.join(vlib.BUILD, "target-cli")
RESET = b"\x1b[0m"
RED = b"\x1b[0m\x1b[31m"


class CliCase:
    def __init__(self, cid, flags, pf, pp, stdin, files, via_stdin):
        self.id, self.flags, self.pf, self.pp = cid, flags, pf, pp
        self.stdin, self.files, self.via_stdin = stdin, files, via_stdin

    def text(self):
        hx = lambda b: b.hex() if b else "-"
        out = [f"CASE {self.id}", "VAR cli", f"FLAGS {self.flags or '-'}"]
        if self.pf is not None:
            out.append(f"PF {hx(self.pf)}")
        if self.pp is not None:
            out.append(f"PP {hx(self.pp)}")
        if self.via_stdin:
            out.append(f"STDIN {hx(self.stdin)}")
        else:
            for n, c in self.files:
                out.append(f"FILE {os.fsencode(n).hex()} {hx(c)}")
        out.append("END")
        return "\n".join(out) + "\n"


WORDS = ["ab", "b", "abc", "bc", "a", "ca", "é", "あい", "い", "😀", "aé", "xyz", "é😀", "cab", "bca"]
FILLER = ["a", "b", "c", "x", " ", "é", "あ", "い", "😀", "z", "ab", "-"]


def rand_text(rng, pats, nlines, crlf=False, unterminated=False):
    lines = []
    for _ in range(nlines):
        r = rng.below(6)
        if r == 0:
            lines.append("")
            continue
        s = ""
        for _ in range(rng.range(1, 8)):
            s += rng.choice(pats) if (pats and rng.chance(1, 3)) else rng.choice(FILLER)
        lines.append(s)
    sep = "\r\n" if crlf else "\n"
    body = sep.join(lines)
    if not unterminated:
        body += sep
    return body.encode("utf-8")


def parse_cli_cases(path):
    cases = []
    cur = None
    unhex = lambda x: b"" if x == "-" else bytes.fromhex(x)
    for line in open(path):
        p = line.split()
        if not p or p[0].startswith("#"):
            continue
        if p[0] == "CASE":
            cur = CliCase(p[1], "", None, None, b"", [], False)
        elif cur is None:
            continue
        elif p[0] == "FLAGS":
            cur.flags = "" if p[1] == "-" else p[1]
        elif p[0] == "PF":
            cur.pf = unhex(p[1])
        elif p[0] == "PP":
            cur.pp = unhex(p[1])
        elif p[0] == "STDIN":
            cur.stdin = unhex(p[1])
            cur.via_stdin = True
        elif p[0] == "FILE":
            cur.files.append((os.fsdecode(bytes.fromhex(p[1])), unhex(p[2])))
        elif p[0] == "END":
            cases.append(cur)
            cur = None
    return cases


def gen_cases(seed, tier):
    rng = gen.Rng(seed * 7 + 16)
    n = 150 if tier == "quick" else 1500
    cases = []
    k = 0
    all_flags = ["", "c", "n", "h", "cn", "ch", "nh", "cnh"]
    # deterministic families: nested / adjacent / overlapping matches, multi-byte text, CRLF,
    # unterminated last line, empty lines, -f and -p together, pattern-list errors
    fixed = [
        (["ab", "bc"], "xabcx\nnone\nabab\n\nbcbc"),
        (["abc", "b"], "abc\nabcabc\nxbx\n"),
        (["あい", "い"], "あいう\nうえお\nいい\n"),
        (["é", "aé😀"], "aé😀b\r\né\r\nplain\r\n"),
        (["a", "aa", "aaa"], "aaaa\nbaab\n"),
        (["ab", "abcd", "cd"], "abcd\nabxcd\n"),
    ]
    for pats, text in fixed:
        for fl in all_flags:
            for via_stdin in (True, False):
                if via_stdin and "h" in fl:
                    continue
                body = text.encode()
                pp = "\n".join(pats).encode()
                files = [] if via_stdin else [("in0.txt", body), ("in1.txt", body[: len(body) // 2])]
                cases.append(CliCase(f"clif{k}", fl, None, pp, body, files, via_stdin))
                k += 1
    # occurrence shapes for the highlighter: one long occurrence covering several shorter ones that
    # are separated by gaps, chains of occurrences that each start inside the previous one, an
    # occurrence ending exactly where the line ends / starting at byte 0, multi-byte variants
    shapes = [
        (["a", "c", "abcd"], "abcd\nxabcdx\nac\n"),
        (["a", "abab"], "abab\nxababab\n"),
        (["ab", "cd", "abxcd", "x"], "abxcd\nabcd\n"),
        (["aa", "a", "aaaa", "b"], "aaaab\nbaaaa\n"),
        (["あ", "う", "あいう"], "あいう\nxあいうx\n"),
        (["ab", "bc", "cd", "abcde", "e"], "abcde\nabcd\n"),
    ]
    for pats, text in shapes:
        for fl in ("c", "cn", ""):
            cases.append(CliCase(f"clis{k}", fl, None, "\n".join(pats).encode(), text.encode(), [], True))
            k += 1
    # pattern list assembly and errors
    cases.append(CliCase(f"clif{k}", "", b"ab\n\nbc\n", b"x\n\ny", b"ab\nx\nq\n", [], True)); k += 1
    cases.append(CliCase(f"clif{k}", "c", b"ab\r\nbc", None, b"abc\n", [], True)); k += 1
    cases.append(CliCase(f"clif{k}", "", None, b"ab\nab", b"ab\n", [], True)); k += 1        # duplicate
    cases.append(CliCase(f"clif{k}", "", None, b"\n\n", b"ab\n", [], True)); k += 1          # empty list
    cases.append(CliCase(f"clif{k}", "n", b"ab\n", b"ab", b"ab\n", [], True)); k += 1        # duplicate across -f/-p
    # OUTSIDE the property (it speaks of UTF-8 input): lines that are not UTF-8.  BufRead::lines() hands
    # out an error for such a line; main stops reading that source (stdin / the -f file: status 1).
    # Compared with the extracted cli_main_raw (Model/CliRaw.v); a difference here is recorded in the
    # evidence and raises no alarm.
    bad = [b"\xff", b"a\xc3", b"\xe3\x81", b"\xc0\xaf", b"\xed\xa0\x80", b"x\xf4\x90\x80\x80", b"ab\x80\r"]
    for j, b in enumerate(bad):
        fl = all_flags[j % len(all_flags)]
        body = b"ab\nxbcx\n" + b + b"\nabc\nzz\n"
        cases.append(CliCase(f"clir{k}", fl.replace("h", ""), None, b"ab\nbc", body, [], True)); k += 1
        cases.append(CliCase(f"clir{k}", fl, None, b"ab\nbc", b"", [("in0.txt", body), ("in1.txt", b"bcd\n" + b)], False)); k += 1
    # std's UTF-8 validation against the model's decoder (Model/Utf8.v) at every boundary of the encoding:
    # first / last sequence of each width, overlong forms, surrogates, above U+10FFFF, stray and missing
    # continuation bytes.  One run per sequence (the program stops at the first invalid line).
    edges = ["7f", "80", "bf", "c080", "c1bf", "c280", "c2c0", "c27f", "dfbf", "df", "e08080", "e09fbf", "e0a080", "e0a07f", "e0a0",
             "ed9fbf", "eda080", "edbfbf", "ee8080", "efbfbf", "efbf", "f0808080", "f08fbfbf", "f0908080", "f09080",
             "f48fbfbf", "f4908080", "f5808080", "f8888080", "ff", "fe", "c2", "e3", "f0", "61c3a962", "c3a9c3", "e38182e3", "f09f9880f09f98"]
    for h in edges:
        try:
            bytes.fromhex(h).decode("utf-8")
            fam = "clie"        # a UTF-8 line: inside the property, an ordinary case
        except UnicodeDecodeError:
            fam = "clir"
        cases.append(CliCase(f"{fam}{k}", "n", None, b"ab", b"ab\n" + bytes.fromhex(h) + b"\nab\n", [], True)); k += 1
    # a FILE name that is not UTF-8: opened all the same, its name is not printed
    for fl in ("", "n", "cn", "h"):
        cases.append(CliCase(f"clir{k}", fl, None, b"ab\nbc", b"", [("in\udcff.txt", b"ab\nzz\nxbc\n"), ("ok.txt", b"bc\n"), ("\udce3\udc81", b"ab\n\xff\nab\n")], False)); k += 1
    cases.append(CliCase(f"clir{k}", "", b"ab\n\xff\nbc\n", None, b"ab\n", [], True)); k += 1
    cases.append(CliCase(f"clir{k}", "n", b"ab\nbc\n", b"zz", b"\xc3\nab\n", [], True)); k += 1
    n_raw = sum(1 for c in cases if c.id.startswith("clir"))      # outside the property: not counted
    while len(cases) - n_raw < n:
        pats = list(dict.fromkeys(rng.choice(WORDS) for _ in range(rng.range(1, 5))))
        fl = rng.choice(all_flags)
        via_stdin = rng.chance(1, 2)
        if via_stdin:
            fl = fl.replace("h", "")
        crlf = rng.chance(1, 6)
        text = rand_text(rng, pats, rng.range(1, 7), crlf, rng.chance(1, 4))
        use_f = rng.chance(1, 3)
        if use_f:
            cut = rng.range(0, len(pats))
            pf = ("\n".join(pats[:cut]) + "\n").encode() if cut else b""
            pp = "\n".join(pats[cut:]).encode() if cut < len(pats) else None
        else:
            pf, pp = None, "\n".join(pats).encode()
        if via_stdin:
            files = []
        else:
            files = [(f"in{j}.txt", rand_text(rng, pats, rng.range(0, 5), crlf, rng.chance(1, 4))) for j in range(rng.range(1, 3))]
        cases.append(CliCase(f"cli{k}", fl, pf, pp, text, files, via_stdin))
        k += 1
    return cases


def build_daacfind(profile, log):
    flag = "--release" if profile == "release" else ""
    rc, out = vlib.sh(f"cargo build --offline -p daacfind {flag}", cwd=vlib.REPO,
                      env={"CARGO_TARGET_DIR": CLI_TARGET, "RUSTFLAGS": "-Awarnings"}, timeout=1800)
    log.append((f"cargo build daacfind {profile}", rc, out[-3000:]))
    exe = os.path.join(CLI_TARGET, "release" if profile == "release" else "debug", "daacfind")
    return rc == 0 and os.path.exists(exe), exe, out


def run_real(exe, c, wd):
    d = os.path.join(wd, c.id)
    shutil.rmtree(d, ignore_errors=True)
    os.makedirs(d)
    args = [exe]
    if c.pf is not None:
        open(os.path.join(d, "pats.txt"), "wb").write(c.pf)
        args += ["-f", "pats.txt"]
    if c.pp is not None:
        args += ["-p", c.pp.decode("utf-8")]
    if "n" in c.flags:
        args.append("-n")
    if "h" in c.flags:
        args.append("-h")
    args.append("--color=always" if "c" in c.flags else "--color=never")
    for name, content in c.files:
        open(os.path.join(d, name), "wb").write(content)
        args.append(name)
    try:
        p = subprocess.run(args, cwd=d, input=c.stdin if c.via_stdin else b"", stdout=subprocess.PIPE,
                           stderr=subprocess.PIPE, timeout=60)
        rc, out, err = p.returncode, p.stdout, p.stderr
    except subprocess.TimeoutExpired:
        rc, out, err = 124, b"", b"timeout"
    shutil.rmtree(d, ignore_errors=True)
    return rc, out, err


def parse_colour(line_bytes):
    """-> (plain bytes, set of red byte positions) or None when the escape structure is unexpected"""
    plain = bytearray()
    red = set()
    is_red = False
    i = 0
    while i < len(line_bytes):
        if line_bytes.startswith(RED, i):
            is_red = True
            i += len(RED)
        elif line_bytes.startswith(RESET, i):
            is_red = False
            i += len(RESET)
        elif line_bytes[i] == 0x1b:
            return None
        else:
            if is_red:
                red.add(len(plain))
            plain.append(line_bytes[i])
            i += 1
    return bytes(plain), red


def oracle(c, rc, out, spec):
    """the property text on the real output.  spec: SPECBUILD + SPECLINE records from the driver"""
    viol = []
    if rc not in (0, 1):
        return [f"abnormal exit status {rc} (panic or signal)"]
    if spec["build"] != "ok":
        if rc != 1 or out:
            viol.append(f"invalid pattern list ({spec['build']}): expected exit status 1 and empty stdout, got {rc} and {len(out)} bytes")
        return viol
    if rc != 0:
        return [f"exit status {rc} on a valid pattern list"]
    expected = []   # (prefix, line, covered set)
    for name, k, line, occs in spec["lines"]:
        if not occs:
            continue
        prefix = b""
        if name != "-" and "h" not in c.flags:
            prefix += bytes.fromhex(name) + b":"
        if "n" in c.flags:
            prefix += str(k).encode() + b":"
        cov = set()
        for s, e in occs:
            cov.update(range(s, e))
        expected.append((prefix, line, cov))
    got = out.split(b"\n")
    if got and got[-1] == b"":
        got.pop()
    else:
        if out:
            viol.append("stdout does not end with a newline")
    if len(got) != len(expected):
        viol.append(f"{len(got)} lines printed, {len(expected)} input lines contain a pattern")
        return viol
    for g, (prefix, line, cov) in zip(got, expected):
        if "c" in c.flags:
            if not g.startswith(prefix):
                viol.append(f"prefix differs: {g!r} vs {prefix!r}")
                continue
            pc = parse_colour(g[len(prefix):])
            if pc is None:
                viol.append(f"unexpected escape sequence in {g!r}")
                continue
            plain, red = pc
            if plain != line:
                viol.append(f"line text changed: {plain!r} vs {line!r}")
            elif red != cov:
                viol.append(f"highlighted bytes {sorted(red)} differ from the bytes covered by occurrences {sorted(cov)} in {line!r}")
        else:
            if g != prefix + line:
                viol.append(f"printed {g!r}, expected {prefix + line!r}")
    return viol


def xcheck_cli(cases, real, wd, log, limit=6):
    """sampled small cases: the Gallina program itself (no extraction, no OCaml) against the real
    release binary"""
    nl = vlib._coq_nlist
    opt = lambda b: "None" if b is None else f"(Some {nl(b)})"
    picked = []
    for c in cases:
        size = len(c.pf or b"") + len(c.pp or b"") + len(c.stdin) + sum(len(x) + len(n) for n, x in c.files)
        rc, out, _ = real.get(("release", c.id), (None, b"", b""))
        if c.id.startswith("clir") or size > 120 or rc not in (0, 1) or len(out) > 400:
            continue
        if len([p for p in picked if p.flags == c.flags]) >= 1 and len({x.flags for x in cases}) > len({p.flags for p in picked}):
            continue
        picked.append(c)
        if len(picked) >= limit:
            break
    if not picked:
        return True, "no case sampled"
    terms = []
    for c in picked:
        rc, out, _ = real[("release", c.id)]
        b = lambda x: "true" if x else "false"
        files = "[" + "; ".join(f"({nl(os.fsencode(n))}, {nl(x)})" for n, x in c.files) + "]"
        terms.append(f"(xc_cli {b('c' in c.flags)} {b('n' in c.flags)} {b('h' in c.flags)} {opt(c.pf)} {opt(c.pp)} "
                     f"{nl(c.stdin if c.via_stdin else b'')} {files} {nl(out)} {rc})")
    path = os.path.join(wd, "xcheck_cli.v")
    with open(path, "w") as f:
        f.write("(* written by tools/cli_check.py: sampled daacfind runs re-evaluated inside Coq *)\n"
                "From DV Require Import Model.Base Gen.CrossCheck.\nLocal Open Scope N_scope.\n")
        f.write("Definition xcheck_results : list bool :=\n  [" + ";\n   ".join(terms) + "].\n")
        f.write("Eval vm_compute in xcheck_results.\n")
    rc, out = vlib.sh(f"ulimit -s unlimited 2>/dev/null; timeout 600 coqc -noglob -Q {vlib.COQ} DV {path}", cwd=wd, timeout=650)
    for ext in (".vo", ".vos", ".vok", ".glob"):
        try:
            os.remove(path[:-2] + ext)
        except OSError:
            pass
    log.append(("coqc xcheck_cli.v", rc, out[-1500:]))
    m = re.search(r"= \[([a-z; ]*)\]", " ".join(out.split()))
    if rc != 0 or not m:
        return False, f"coqc failed on {path}: {out[-400:]}"
    vals = [x.strip() for x in m.group(1).split(";") if x.strip()]
    bad = [c.id for c, v in zip(picked, vals) if v != "true"]
    if len(vals) != len(picked) or bad:
        return False, f"the program evaluated inside Coq differs from the real release binary on {bad or [c.id for c in picked]}"
    return True, f"{len(picked)} runs re-evaluated inside Coq (vm_compute): " + " ".join(c.id for c in picked)


def parse_model(text):
    res = {}
    for cid, lines in vlib.parse_obs(text).items():
        r = {"out": None, "exit": None, "rout": None, "rexit": None, "build": None, "lines": []}
        for l in lines:
            p = l.split(" ")
            if p[0] == "OUT":
                r["out"] = p[1]
            elif p[0] == "EXIT":
                r["exit"] = int(p[1])
            elif p[0] == "ROUT":
                r["rout"] = p[1]
            elif p[0] == "REXIT":
                r["rexit"] = int(p[1])
            elif p[0] == "SPECBUILD":
                r["build"] = p[1]
            elif p[0] == "SPECLINE":
                occs = [tuple(int(x) for x in o.split(",")) for o in p[4:] if o]
                r["lines"].append((p[1], int(p[2]), b"" if p[3] == "-" else bytes.fromhex(p[3]), occs))
        res[cid] = r
    return res


def main(prop, tier, seed, replay):
    log = []
    obligations = []
    ok_coq, out = vlib.build_coq(log)
    obligations.append(("coq: full build of the development incl. Gen/ConstsAgree.v", ok_coq, "" if ok_coq else out[-1500:]))
    hits = vlib.forbidden_scan()
    obligations.append(("scan: no Admitted/admit/Axiom/Parameter/Conjecture/guard switches in coq/", not hits, "; ".join(hits[:5])))
    thms = []
    if ok_coq:
        ok_pin, thms, pout = vlib.check_pins(prop, log)
        obligations.append((f"coq: pinned statements of {prop} re-checked", ok_pin, "" if ok_pin else pout[-1500:]))
        for t in thms:
            obligations.append((f"theorem {t['name']}", ok_pin, t["assumptions"]))
    if ok_coq and tier == "thorough" and not replay:
        ok_chk, chk_detail = vlib.coqchk(prop, log)
        obligations.append((f"coqchk: independent re-check of Properties/{prop}.vo and its dependencies, no axioms", ok_chk, chk_detail))
    ok_drv, drv_key = vlib.build_driver(log)
    obligations.append(("extraction: extracted model compiles", ok_drv, ""))
    exes = {}
    for prof in ("debug", "release"):
        ok, exe, bout = build_daacfind(prof, log)
        obligations.append((f"build: daacfind from /repo's working tree ({prof})", ok, "" if ok else bout[-1500:]))
        if ok:
            exes[prof] = exe
    cases = parse_cli_cases(replay) if replay else gen_cases(seed, tier)
    wd = os.path.join(vlib.BUILD, "runs", f"{prop}-{tier}")
    os.makedirs(wd, exist_ok=True)
    cf = os.path.join(wd, "cli.case")
    open(cf, "w").write("".join(c.text() for c in cases))
    model = {}
    if ok_drv:
        rc, mout = vlib.sh(f"ulimit -s unlimited 2>/dev/null; exec {os.path.join(vlib.BUILD, 'driver', 'driver')} {cf}", timeout=1800)
        model = parse_model(mout)
    dis, viol = [], []
    raw_dis, raw_total = [], 0
    real = {}
    with ThreadPoolExecutor(max_workers=vlib.NCPU) as ex:
        futs = {(prof, c.id): ex.submit(run_real, exe, c, os.path.join(wd, prof)) for prof, exe in exes.items() for c in cases}
        for key, f in futs.items():
            real[key] = f.result()
    for prof in exes:
        for c in cases:
            rc, out, err = real[(prof, c.id)]
            m = model.get(c.id)
            if m is None:
                dis.append({"case": c.id, "profile": prof, "impl": "?", "model": "#MISSING"})
                continue
            unhex = lambda h: b"" if h == "-" else (bytes.fromhex(h) if re.fullmatch(r"[0-9a-f]*", h) else None)
            ro = m["rout"] or ""
            rout = unhex(ro)
            if c.id.startswith("clir"):
                # not UTF-8: outside the property; the tie to cli_main_raw is recorded only
                raw_total += 1
                if rout is None or rout != out or m["rexit"] != rc:
                    raw_dis.append({"case": c.id, "profile": prof, "impl": f"exit {rc} out {out[:80]!r}", "model": f"exit {m['rexit']} out {ro[:160]}"})
                continue
            mo = m["out"] or ""
            mout = unhex(mo)
            if mout is None or mout != out or m["exit"] != rc:
                dis.append({"case": c.id, "profile": prof, "impl": f"exit {rc} out {out[:80]!r}", "model": f"exit {m['exit']} out {mo[:160]}"})
            elif rout != mout or m["rexit"] != m["exit"]:
                # cli_main_raw_on_utf8_lines: on UTF-8 input the two models are one program
                dis.append({"case": c.id, "profile": prof, "impl": f"exit {rc} out {out[:80]!r}", "model": f"cli_main_raw differs from cli_main: exit {m['rexit']} out {ro[:160]}"})
            for w in oracle(c, rc, out, m):
                viol.append({"case": c.id, "profile": prof, "what": w, "detail": err[:300].decode("utf-8", "replace")})
    by_id = {c.id: c for c in cases}
    if ok_coq and "release" in exes and not replay:
        okx, dx = xcheck_cli(cases, real, wd, log)
        obligations.append(("in-Coq re-evaluation: cli_main_raw, run by vm_compute inside Coq, prints the bytes and ends with the status of the REAL release binary on sampled cases", okx, dx))
    if replay:
        for d in dis:
            print("DISAGREEMENT", json.dumps(d))
        for x in viol:
            print("ORACLE", json.dumps(x))
        if viol or dis:
            print(f"VIOLATION property={prop} replay={replay}" + ("" if viol else " no-failing-input-found"))
            return 1
        print("replay: no violation")
        return 0
    failed_obl = [o for o in obligations if not o[1]]
    exit_code = 0
    rdir = os.path.join(vlib.ROOT, "replays")
    os.makedirs(rdir, exist_ok=True)
    if viol:
        x = viol[0]
        path = os.path.join(rdir, f"{prop}-{vlib.sha(by_id[x['case']].text())[:12]}.case")
        with open(path, "w") as f:
            f.write(f"# property {prop}: {x['what']}\n# profile={x['profile']} stderr={x['detail']!r}\n# re-run: ./check {prop} --replay <this file>\n")
            f.write(by_id[x["case"]].text())
        print(f"VIOLATION property={prop} replay={path}")
        exit_code = 1
    elif dis or failed_obl:
        path = os.path.join(rdir, f"{prop}-obligation.case")
        with open(path, "w") as f:
            f.write(f"# property {prop}: no longer shown to hold; the specification oracle found no failing input on {len(cases)} cases x {len(exes)} profiles\n")
            for o in failed_obl:
                f.write(f"# broken obligation: {o[0]} :: {o[2][:400]!r}\n")
            for d in dis[:5]:
                f.write(f"# correspondence (S-cli, profile {d['profile']}) differs on case {d['case']}: impl {d['impl']} model {d['model']}\n")
                f.write(by_id[d["case"]].text())
        print(f"VIOLATION property={prop} replay={path} no-failing-input-found")
        exit_code = 1
    printed = sum(1 for c in cases if model.get(c.id) and any(l[3] for l in model[c.id]["lines"]))
    lv = levels.LEVELS[prop]
    n_obl = len(obligations) + 1
    n_dis = sum(1 for o in obligations if o[1]) + (0 if dis else 1)
    samples = [{"case": c.id, "flags": c.flags, "patterns_p": (c.pp or b"").decode("utf-8", "replace"),
                "patterns_f": (c.pf or b"").decode("utf-8", "replace"), "stdin": c.stdin.decode("utf-8", "replace") if c.via_stdin else None,
                "files": [(n, x.decode("utf-8", "replace")) for n, x in c.files],
                "release_stdout": real.get(("release", c.id), (None, b"", b""))[1].decode("utf-8", "replace")} for c in cases[:60:25]]
    ev = {
        "property_id": prop, "tier": tier, "seed": seed, "level": lv["category"],
        "coverage": {
            "obligations": n_obl, "discharged": n_dis,
            "checker_cmd": f"make -C coq && coqc -Q coq DV coq/Pins/{prop}.v && ./check {prop} --tier {tier}",
            "trusted_base": levels.TRUSTED_BASE + ["clap, termcolor (escape bytes copied from observation), std::io, BufRead::lines: outside the model, observed on the real dev and release binaries"]
                            + [f"{t['name']}: {t['assumptions']}" for t in thms],
            "theorems": thms, "missing_theorems": lv.get("missing", []),
            "obligation_list": [{"name": o[0], "ok": o[1], "detail": o[2][:300]} for o in obligations]
                               + [{"name": "correspondence S-cli: stdout bytes and exit status of the real binaries vs Model/Cli.v", "ok": not dis, "detail": json.dumps(dis[:3])}],
            "programs": len(cases), "disagreements_checked": len(dis),
            "evaluations": len(cases) * len(exes), "distinct_nontrivial": printed,
            "rule": "cases: pattern lists via -p and/or -f, stdin or files, all combinations of -n, -h, --color; LF/CRLF, empty lines, unterminated last line, multi-byte text; non-trivial = at least one input line contains a pattern (so something is printed)",
            "samples": samples, "profiles": list(exes.keys()),
            "flag_distribution": {f or "(none)": sum(1 for c in cases if c.flags == f) for f in sorted({c.flags for c in cases})},
            "oracle_violations": len(viol), "explanation": lv["text"],
            "outside_property_non_utf8_input": {"what": "inputs with a line that is not UTF-8 (the property speaks of UTF-8 input only): real binaries vs the extracted cli_main_raw (Model/CliRaw.v; theorems cli_main_raw_on_utf8_lines, cli_main_raw_lemma in Proofs/CliRawMain.v); recorded, never an alarm",
                                                "evaluations": raw_total, "differences": raw_dis[:5]},
        },
        "assumptions": levels.ASSUMPTIONS.get(prop, []) + levels.COMMON_ASSUMPTIONS,
        "wall_s": round(time.time() - T0, 2), "violations": 1 if exit_code else 0,
    }
    os.makedirs(os.path.join(vlib.ROOT, "evidence"), exist_ok=True)
    json.dump(ev, open(os.path.join(vlib.ROOT, "evidence", prop + ".json"), "w"), indent=1)
    os.makedirs(os.path.join(vlib.BUILD, "logs"), exist_ok=True)
    with open(os.path.join(vlib.BUILD, "logs", f"{prop}-{tier}.log"), "w") as f:
        for name, rc, out in log:
            f.write(f"==== {name} rc={rc}\n{out}\n")
    print(f"{prop} {tier}: {len(cases)} cases x {len(exes)} profiles, {printed} print something, {len(dis)} disagreements, "
          f"{len(viol)} oracle violations, {n_dis}/{n_obl} obligations, {ev['wall_s']} s -> exit {exit_code}")
    return exit_code
