#!/usr/bin/env python3
"""Writes /verif/MANIFEST.json from tools/levels.py (kept in one place so claims stay in sync)."""
import json
import os
import sys
sys.path.insert(0, os.path.dirname(os.path.abspath(__file__)))
import levels

ROOT = os.path.dirname(os.path.dirname(os.path.abspath(__file__)))
props = ["C%02d" % i for i in range(1, 17)]
checks = []
for p in props:
    if p in levels.NOT_APPLICABLE:
        continue
    lv = levels.LEVELS[p]
    checks.append({
        "property_id": p,
        "quick_cmd": f"./check {p} --tier quick",
        "thorough_cmd": f"./check {p} --tier thorough",
        "evidence_file": f"evidence/{p}.json",
        "replay_cmd_template": f"./check {p} --replay {{path}}",
        "engine": "rocq-model+correspondence",
        "level_claimed": {"category": lv["category"], "text": lv["text"], "design_ref": lv.get("design_ref", "DESIGN.md section 5 / 12")},
        "level_note": lv.get("note", "; ".join(levels.COMMON_ASSUMPTIONS)),
        "technique": lv.get("technique", "Rocq (Coq 8.16) theorems about a hand-written Gallina model + model/implementation correspondence check"),
    })
m = {
    "version": 1,
    "setup_cmd": "./setup.sh",
    "hooks": {
        "guard": "daachorse_verif",
        "enable": "RUSTFLAGS=\"--cfg daachorse_verif --check-cfg cfg(daachorse_verif)\" (set by ./check when it builds /verif/harness against /repo)",
        "baseline_off_cmd": "cd /repo && cargo test --workspace --no-fail-fast --offline",
        "source_commits": ["c1f3b56"],
        "add_only": True,
    },
    "engines": [{"name": "rocq-model+correspondence", "path": "coq/ , harness/ , driver/ , check",
                 "serves_properties": [c["property_id"] for c in checks],
                 "kind_free_text": "machine-checked proof in Rocq (Coq 8.16.1) about an executable Gallina model; model tied to /repo by a correspondence check (extracted OCaml model vs cfg-hooked Rust harness) and a regenerated constants file"}],
    "checks": checks,
    "not_applicable": [{"property_id": p, "reason": r} for p, r in levels.NOT_APPLICABLE.items()],
    "notes": "See DESIGN.md. Fix commits in /repo: ca20745 (C10 finding F2), 96418aa (C16 finding F1); known_findings.json lists both as fixed.",
}
json.dump(m, open(os.path.join(ROOT, "MANIFEST.json"), "w"), indent=1)
print("MANIFEST.json written:", len(checks), "checks")
