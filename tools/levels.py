"""Per-property claim texts shared by ./check (evidence) and tools/mkmanifest.py (MANIFEST.json).
Edited by hand whenever a theorem lands or a claim changes; never computed."""

TRUSTED_BASE = [
    "Coq 8.16.1 kernel (coqc); vm_compute inside proofs for finite sweeps and Examples; no native_compute",
    "no Axiom/Parameter/Conjecture/Admitted in coq/ (scanned on every run); per-theorem Print Assumptions output listed below",
    "extraction: Extraction Language OCaml + ExtrOcamlBasic only (its Extract Inductive directives for bool, option, list, prod, unit, sumbool, sumor; no Extract Constant; N, Z, positive, nat stay inductives); ocamlfind ocamlopt 4.13.1 + zarith for printing",
    "driver/driver.ml (parsing, number conversion, printing, FNV hashing of tables) and harness/src/main.rs (calls the public API and the cfg(daachorse_verif) hooks, prints observations)",
    "tools/consts.py (translator for the source constants), tools/gen.py (generators), tools/oracles.py (comparison of observations with the extracted Spec)",
    "modelled, not verified: BTreeMap order, Vec/resize, sort_unstable_by yields a sorted permutation, str::chars/len_utf8/valid UTF-8 of &str, to_le_bytes/from_le_bytes, NonZeroU32, rustc's semantics of in-range get_unchecked, 64-bit usize, the allocator",
]

COMMON_ASSUMPTIONS = [
    "the universal theorems are about the hand-written Gallina model (coq/Model); that the model is the code is established on the cases this run executed (observations compared line by line), not for all inputs",
    "arrays at the 2^24 / 2^32 scale limits are not built in the sandbox; the AutomatonScale arms are exercised only through num_free_blocks overflow",
]

ASSUMPTIONS = {}

# category: the level the MANIFEST claims; text: what the check gives; missing: theorems of DESIGN section 5 not (yet) proved
LEVELS = {}
for _p in ["C%02d" % i for i in range(1, 17)]:
    LEVELS[_p] = {"category": "translation_validation",
                  "text": "correspondence of implementation and Coq model plus the extracted specification as oracle; theorems listed in the evidence",
                  "missing": []}
NOT_APPLICABLE = {}
