// Correspondence harness: runs the real daachorse (built from /repo's working tree with
// --cfg daachorse_verif) on a case file and prints canonical observation lines.  The OCaml driver
// around the extracted Coq model prints the same lines for the same file; the check diffs them.
use std::cell::Cell;
use std::fmt::Write as _;
use std::io::{Read, Write};
use std::panic::{catch_unwind, AssertUnwindSafe};
use std::rc::Rc;

use daachorse::errors::DaachorseError;
use daachorse::{
    CharwiseDoubleArrayAhoCorasick, CharwiseDoubleArrayAhoCorasickBuilder, DoubleArrayAhoCorasick,
    DoubleArrayAhoCorasickBuilder, Empty, MatchKind, Serializable,
};

// ---------------------------------------------------------------- value types
trait Val: Copy + Serializable + TryFrom<usize> + Send + Sync + 'static {
    fn parse(s: &str) -> Self;
    fn show(&self) -> String;
    const OUT_SIZE: usize;
    fn bw_eq(a: &DoubleArrayAhoCorasick<Self>, b: &DoubleArrayAhoCorasick<Self>) -> bool;
    fn cw_eq(a: &CharwiseDoubleArrayAhoCorasick<Self>, b: &CharwiseDoubleArrayAhoCorasick<Self>) -> bool;
}
// layout of Output<V> { value: V, length: u32, parent: Option<NonZeroU32> }
#[allow(dead_code)]
struct OutLayout<V> {
    value: V,
    length: u32,
    parent: Option<core::num::NonZeroU32>,
}
macro_rules! int_val {
    ($($t:ty),*) => {$(
        impl Val for $t {
            fn parse(s: &str) -> Self { s.parse::<$t>().expect("value out of range for type") }
            fn show(&self) -> String { format!("{}", self) }
            const OUT_SIZE: usize = std::mem::size_of::<OutLayout<$t>>();
            fn bw_eq(a: &DoubleArrayAhoCorasick<Self>, b: &DoubleArrayAhoCorasick<Self>) -> bool { a == b }
            fn cw_eq(a: &CharwiseDoubleArrayAhoCorasick<Self>, b: &CharwiseDoubleArrayAhoCorasick<Self>) -> bool { a == b }
        }
    )*};
}
int_val!(u8, u16, u32, u64, u128, usize, i8, i16, i32, i64, i128, isize);
impl Val for Empty {
    fn parse(_s: &str) -> Self { Empty }
    fn show(&self) -> String { "0".to_string() }
    const OUT_SIZE: usize = std::mem::size_of::<OutLayout<Empty>>();
    fn bw_eq(a: &DoubleArrayAhoCorasick<Self>, b: &DoubleArrayAhoCorasick<Self>) -> bool { a.serialize() == b.serialize() }
    fn cw_eq(a: &CharwiseDoubleArrayAhoCorasick<Self>, b: &CharwiseDoubleArrayAhoCorasick<Self>) -> bool { a.serialize() == b.serialize() }
}
// A user-defined fixed-width Serializable: 3 little-endian bytes.
#[derive(Clone, Copy, PartialEq, Eq, Debug)]
struct User3(u32);
impl Serializable for User3 {
    fn serialize_to_vec(&self, dst: &mut Vec<u8>) { dst.extend_from_slice(&self.0.to_le_bytes()[..3]); }
    fn deserialize_from_slice(src: &[u8]) -> (Self, &[u8]) {
        (User3(u32::from(src[0]) | (u32::from(src[1]) << 8) | (u32::from(src[2]) << 16)), &src[3..])
    }
    fn serialized_bytes() -> usize { 3 }
}
impl TryFrom<usize> for User3 {
    type Error = ();
    fn try_from(x: usize) -> Result<Self, ()> { if x < (1 << 24) { Ok(User3(x as u32)) } else { Err(()) } }
}
impl Val for User3 {
    fn parse(s: &str) -> Self { User3(s.parse::<u32>().unwrap()) }
    fn show(&self) -> String { format!("{}", self.0) }
    const OUT_SIZE: usize = std::mem::size_of::<OutLayout<User3>>();
    fn bw_eq(a: &DoubleArrayAhoCorasick<Self>, b: &DoubleArrayAhoCorasick<Self>) -> bool { a == b }
    fn cw_eq(a: &CharwiseDoubleArrayAhoCorasick<Self>, b: &CharwiseDoubleArrayAhoCorasick<Self>) -> bool { a == b }
}

// A user-defined value type whose TryFrom<usize> rejects position 0 (like NonZeroU32): u32 on the wire.
#[derive(Clone, Copy, PartialEq, Eq, Debug)]
struct From1(u32);
impl Serializable for From1 {
    fn serialize_to_vec(&self, dst: &mut Vec<u8>) { dst.extend_from_slice(&self.0.to_le_bytes()); }
    fn deserialize_from_slice(src: &[u8]) -> (Self, &[u8]) {
        (From1(u32::from_le_bytes([src[0], src[1], src[2], src[3]])), &src[4..])
    }
    fn serialized_bytes() -> usize { 4 }
}
impl TryFrom<usize> for From1 {
    type Error = ();
    fn try_from(x: usize) -> Result<Self, ()> { if x >= 1 && x <= u32::MAX as usize { Ok(From1(x as u32)) } else { Err(()) } }
}
impl Val for From1 {
    fn parse(s: &str) -> Self { From1(s.parse::<u32>().unwrap()) }
    fn show(&self) -> String { format!("{}", self.0) }
    const OUT_SIZE: usize = std::mem::size_of::<OutLayout<From1>>();
    fn bw_eq(a: &DoubleArrayAhoCorasick<Self>, b: &DoubleArrayAhoCorasick<Self>) -> bool { a == b }
    fn cw_eq(a: &CharwiseDoubleArrayAhoCorasick<Self>, b: &CharwiseDoubleArrayAhoCorasick<Self>) -> bool { a == b }
}

// ---------------------------------------------------------------- cases
#[derive(Default, Clone)]
struct Case {
    id: String,
    var: String,
    kind: u8,
    nfb: u32,
    vt: String,
    entry: String,
    ops: String,
    pats: Vec<(Vec<u8>, String)>,
    hays: Vec<Vec<u8>>,
    trail: Vec<u8>,
}
fn unhex(s: &str) -> Vec<u8> {
    if s == "-" { return vec![]; }
    (0..s.len() / 2).map(|i| u8::from_str_radix(&s[2 * i..2 * i + 2], 16).unwrap()).collect()
}
fn hex(b: &[u8]) -> String {
    let mut s = String::with_capacity(b.len() * 2);
    for x in b { write!(s, "{:02x}", x).unwrap(); }
    s
}
fn parse_cases(text: &str) -> Vec<Case> {
    let mut out = vec![];
    let mut cur = Case::default();
    for line in text.lines() {
        let mut it = line.split_whitespace();
        let Some(tag) = it.next() else { continue };
        match tag {
            "CASE" => { cur = Case::default(); cur.id = it.next().unwrap().to_string(); }
            "VAR" => cur.var = it.next().unwrap().to_string(),
            "KIND" => cur.kind = it.next().unwrap().parse().unwrap(),
            "NFB" => cur.nfb = it.next().unwrap().parse().unwrap(),
            "VT" => cur.vt = it.next().unwrap().to_string(),
            "ENTRY" => cur.entry = it.next().unwrap().to_string(),
            "OPS" => cur.ops = it.next().unwrap_or("").to_string(),
            "P" => { let p = unhex(it.next().unwrap()); let v = it.next().unwrap_or("0").to_string(); cur.pats.push((p, v)); }
            "H" => cur.hays.push(unhex(it.next().unwrap())),
            "T" => cur.trail = unhex(it.next().unwrap()),
            "END" => out.push(cur.clone()),
            _ => {}
        }
    }
    out
}
fn fnv(h: &mut u64, bytes: &[u8]) {
    for &b in bytes { *h ^= u64::from(b); *h = h.wrapping_mul(0x100000001b3); }
}
const FNV0: u64 = 0xcbf29ce484222325;
fn kind_of(k: u8) -> MatchKind {
    match k { 1 => MatchKind::LeftmostLongest, 2 => MatchKind::LeftmostFirst, _ => MatchKind::Standard }
}
fn err_name(e: &DaachorseError) -> &'static str {
    match e {
        DaachorseError::InvalidArgument(_) => "InvalidArgument",
        DaachorseError::DuplicatePattern(_) => "DuplicatePattern",
        DaachorseError::AutomatonScale(_) => "AutomatonScale",
        DaachorseError::InvalidConversion(_) => "InvalidConversion",
    }
}

// A counting byte source.  With hint = true it reports the exact remaining length through
// size_hint (like slice::Iter / str::Bytes), with hint = false the default (0, None).
struct CountIter<'a> { data: &'a [u8], pos: usize, cnt: Rc<Cell<usize>>, hint: bool }
impl Iterator for CountIter<'_> {
    type Item = u8;
    fn next(&mut self) -> Option<u8> {
        let b = *self.data.get(self.pos)?;
        self.pos += 1;
        self.cnt.set(self.cnt.get() + 1);
        Some(b)
    }
    fn size_hint(&self) -> (usize, Option<usize>) {
        if self.hint { let r = self.data.len() - self.pos; (r, Some(r)) } else { (0, None) }
    }
}
fn ticks() -> u64 { daachorse::verif_ticks::verif_ticks() }

macro_rules! fmt_matches {
    ($out:expr, $tag:expr, $j:expr, $it:expr) => {{
        let t0 = ticks();
        let r = catch_unwind(AssertUnwindSafe(|| {
            let mut s = String::new();
            for m in $it { write!(s, " {},{},{}", m.start(), m.end(), m.value().show()).unwrap(); }
            s
        }));
        let dt = ticks() - t0;
        match r {
            Ok(s) => { writeln!($out, "{} {}{}", $tag, $j, s).unwrap(); }
            Err(_) => { writeln!($out, "{} {} !panic", $tag, $j).unwrap(); }
        }
        dt
    }};
}
macro_rules! pulls_str {
    ($cnt:expr, $it:expr) => {{
        let r = catch_unwind(AssertUnwindSafe(|| {
            let mut s = String::new();
            let mut it = $it;
            loop {
                match it.next() {
                    Some(m) => write!(s, " {},{},{}@{}", m.start(), m.end(), m.value().show(), $cnt.get()).unwrap(),
                    None => { write!(s, " @{}", $cnt.get()).unwrap(); break; }
                }
            }
            s
        }));
        match r { Ok(s) => s, Err(_) => String::from(" !panic") }
    }};
}
// the byte-iterator entry point is run on two sources (without and with an exact size_hint);
// the line carries the first result, and the second one too when they differ
macro_rules! fmt_pulls {
    ($out:expr, $tag:expr, $j:expr, $data:expr, $src:ident, $call:expr) => {{
        let cnt = Rc::new(Cell::new(0usize));
        let s1 = { let $src = CountIter { data: $data, pos: 0, cnt: cnt.clone(), hint: false }; pulls_str!(cnt, $call) };
        let cnt = Rc::new(Cell::new(0usize));
        let s2 = { let $src = CountIter { data: $data, pos: 0, cnt: cnt.clone(), hint: true }; pulls_str!(cnt, $call) };
        if s1 == s2 { writeln!($out, "{} {}{}", $tag, $j, s1).unwrap(); }
        else { writeln!($out, "{} {}{} !with-size-hint:{}", $tag, $j, s1, s2).unwrap(); }
    }};
}

// ---------------------------------------------------------------- byte-wise
// moves an iterator (together with the haystack it owns) to another place in memory
fn moved<I>(it: I) -> Box<I> { Box::new(it) }
// the search entry points take the haystack BY VALUE (P: AsRef<[u8]>): an inline haystack ([u8; N]) is moved
// with the iterator; the result must be the one of the borrowed slice
macro_rules! byval {
    ($pma:expr, $h:expr, $method:ident, [$($n:literal),*]) => {{
        let h: &[u8] = $h;
        let want: Vec<(usize, usize, String)> = $pma.$method(h).map(|m| (m.end().wrapping_sub(m.end() - m.start()), m.end(), m.value().show())).collect();
        match h.len() {
            $($n => { let mut a = [0u8; $n]; a.copy_from_slice(h);
                      let it = moved($pma.$method(a));
                      let got: Vec<(usize, usize, String)> = it.map(|m| (m.end().wrapping_sub(m.end() - m.start()), m.end(), m.value().show())).collect();
                      Some(got == want) })*
            _ => None,
        }
    }};
}
fn bw_byval<V: Val>(pma: &DoubleArrayAhoCorasick<V>, c: &Case, pre: &str, out: &mut String) {
    for (j, h) in c.hays.iter().enumerate() {
        let r = catch_unwind(AssertUnwindSafe(|| {
            if c.kind == 0 {
                let a = byval!(pma, h, find_iter, [0,1,2,3,4,5,6,7,8,9,10,11,12,13,14,15,16,17,18,19,20,21,22,23,24]);
                let b = byval!(pma, h, find_overlapping_iter, [0,1,2,3,4,5,6,7,8,9,10,11,12,13,14,15,16,17,18,19,20,21,22,23,24]);
                let d = byval!(pma, h, find_overlapping_no_suffix_iter, [0,1,2,3,4,5,6,7,8,9,10,11,12,13,14,15,16,17,18,19,20,21,22,23,24]);
                match (a, b, d) { (Some(x), Some(y), Some(z)) => Some(x && y && z), _ => None }
            } else {
                byval!(pma, h, leftmost_find_iter, [0,1,2,3,4,5,6,7,8,9,10,11,12,13,14,15,16,17,18,19,20,21,22,23,24])
            }
        }));
        match r {
            Ok(Some(ok)) => writeln!(out, "{pre}BYVAL {j} {}", u8::from(ok)).unwrap(),
            Ok(None) => {}
            Err(_) => writeln!(out, "{pre}BYVAL {j} panic").unwrap(),
        }
    }
}
fn bw_searches<V: Val>(pma: &DoubleArrayAhoCorasick<V>, c: &Case, pre: &str, out: &mut String) {
    bw_byval(pma, c, pre, out);
    for (j, h) in c.hays.iter().enumerate() {
        if c.kind == 0 {
            let t1 = fmt_matches!(out, format!("{pre}OVL"), j, pma.find_overlapping_iter(h));
            let t2 = fmt_matches!(out, format!("{pre}FIND"), j, pma.find_iter(h));
            let t3 = fmt_matches!(out, format!("{pre}NOS"), j, pma.find_overlapping_no_suffix_iter(h));
            writeln!(out, "{pre}TICKS {j} {t1} {t2} {t3}").unwrap();
            fmt_pulls!(out, format!("{pre}OVLI"), j, h, src, pma.find_overlapping_iter_from_iter(src));
            fmt_pulls!(out, format!("{pre}FINDI"), j, h, src, pma.find_iter_from_iter(src));
            fmt_pulls!(out, format!("{pre}NOSI"), j, h, src, pma.find_overlapping_no_suffix_iter_from_iter(src));
        } else {
            let t1 = fmt_matches!(out, format!("{pre}LEFT"), j, pma.leftmost_find_iter(h));
            writeln!(out, "{pre}TICKS {j} {t1}").unwrap();
        }
    }
}
fn bw_table<V: Val>(pma: &DoubleArrayAhoCorasick<V>, kind: u8, out: &mut String) {
    let n = pma.verif_num_slots();
    let mut seen = vec![false; n];
    let mut order = vec![0u32];
    seen[0] = true;
    let mut qi = 0;
    while qi < order.len() {
        let s = order[qi];
        qi += 1;
        for l in 0..=255u8 {
            if let Some(t) = pma.verif_child(s, l) {
                if (t as usize) < n && !seen[t as usize] { seen[t as usize] = true; order.push(t); }
            }
        }
    }
    order.sort_unstable();
    let (mut hc, mut hn) = (FNV0, FNV0);
    for &s in &order {
        for l in 0..=255u8 {
            let ch = pma.verif_child(s, l).unwrap_or(u32::MAX);
            fnv(&mut hc, &ch.to_le_bytes());
            let nx = if kind == 0 { pma.verif_next_state(s, l) } else { pma.verif_next_state_leftmost(s, l) };
            fnv(&mut hn, &nx.to_le_bytes());
        }
    }
    writeln!(out, "TABLE {} {:016x} {:016x}", order.len(), hc, hn).unwrap();
}
fn run_bw<V: Val>(c: &Case, out: &mut String) {
    let builder = || DoubleArrayAhoCorasickBuilder::new().match_kind(kind_of(c.kind)).num_free_blocks(c.nfb);
    let build = || -> Result<DoubleArrayAhoCorasick<V>, DaachorseError> {
        match c.entry.as_str() {
            "build" => builder().build(c.pats.iter().map(|(p, _)| p.as_slice())),
            "values" => builder().build_with_values(c.pats.iter().map(|(p, v)| (p.as_slice(), V::parse(v)))),
            "new" => DoubleArrayAhoCorasick::new(c.pats.iter().map(|(p, _)| p.as_slice())),
            "with_values" => DoubleArrayAhoCorasick::with_values(c.pats.iter().map(|(p, v)| (p.as_slice(), V::parse(v)))),
            e => panic!("unknown entry {e}"),
        }
    };
    let first = catch_unwind(AssertUnwindSafe(build));
    // the static constructors are documented as the builder with default options: a builder obtained
    // from Default::default() must give the same outcome (same bytes / same error kind)
    if c.entry == "new" || c.entry == "with_values" {
        let alt = catch_unwind(AssertUnwindSafe(|| -> Result<DoubleArrayAhoCorasick<V>, DaachorseError> {
            if c.entry == "new" { DoubleArrayAhoCorasickBuilder::default().build(c.pats.iter().map(|(p, _)| p.as_slice())) }
            else { DoubleArrayAhoCorasickBuilder::default().build_with_values(c.pats.iter().map(|(p, v)| (p.as_slice(), V::parse(v)))) }
        }));
        let d = |r: &std::thread::Result<Result<DoubleArrayAhoCorasick<V>, DaachorseError>>| match r {
            Err(_) => "panic".to_string(),
            Ok(Err(e)) => format!("err:{}", err_name(e)),
            Ok(Ok(p)) => { let mut h = FNV0; fnv(&mut h, &p.serialize()); format!("ok:{:016x}", h) }
        };
        let (a, b) = (d(&first), d(&alt));
        if a == b { writeln!(out, "DEFAULTB 1").unwrap(); } else { writeln!(out, "DEFAULTB 0 {b}").unwrap(); }
    }
    let pma = match first {
        Err(_) => { writeln!(out, "BUILD panic").unwrap(); return; }
        Ok(Err(e)) => { writeln!(out, "BUILD err:{}", err_name(&e)).unwrap(); return; }
        Ok(Ok(p)) => p,
    };
    writeln!(out, "BUILD ok").unwrap();
    let img = pma.serialize();
    let mut h = FNV0;
    fnv(&mut h, &img);
    writeln!(out, "IMG {} {:016x}", img.len(), h).unwrap();
    if c.ops.contains('X') { writeln!(out, "IMGHEX {}", hex(&img)).unwrap(); }
    writeln!(out, "STATS {} {} {} {}", pma.num_states(), pma.verif_num_slots(), pma.heap_bytes(), V::OUT_SIZE).unwrap();
    if c.ops.contains('T') { bw_table(&pma, c.kind, out); }
    if c.ops.contains('S') { bw_searches(&pma, c, "", out); if !c.hays.is_empty() && !c.ops.contains('N') { bw_api(&pma, c, out); } }
    if c.ops.contains('K') {
        let h: &[u8] = b"a";
        let p = |r: std::thread::Result<()>| if r.is_err() { "panic" } else { "ok" };
        let a = p(catch_unwind(AssertUnwindSafe(|| { let _ = pma.find_iter(h).count(); })));
        let b = p(catch_unwind(AssertUnwindSafe(|| { let _ = pma.find_overlapping_iter(h).count(); })));
        let d = p(catch_unwind(AssertUnwindSafe(|| { let _ = pma.find_overlapping_no_suffix_iter(h).count(); })));
        let e = p(catch_unwind(AssertUnwindSafe(|| { let _ = pma.leftmost_find_iter(h).count(); })));
        writeln!(out, "KINDCHK {a} {b} {d} {e}").unwrap();
        // the byte-iterator entry points on every haystack of the case: each call must panic (kind
        // assertion) or return; a hang is caught by the watchdog
        let (mut a, mut b, mut d) = ("panic", "panic", "panic");
        for h in &c.hays {
            if catch_unwind(AssertUnwindSafe(|| { let _ = pma.find_iter_from_iter(h.iter().copied()).count(); })).is_ok() { a = "ok"; }
            if catch_unwind(AssertUnwindSafe(|| { let _ = pma.find_overlapping_iter_from_iter(h.iter().copied()).count(); })).is_ok() { b = "ok"; }
            if catch_unwind(AssertUnwindSafe(|| { let _ = pma.find_overlapping_no_suffix_iter_from_iter(h.iter().copied()).count(); })).is_ok() { d = "ok"; }
        }
        if !c.hays.is_empty() { writeln!(out, "KINDCHKI {a} {b} {d}").unwrap(); }
    }
    if c.ops.contains('R') {
        let mut src = img.clone();
        src.extend_from_slice(&c.trail);
        let r = catch_unwind(AssertUnwindSafe(|| {
            let (other, rest) = unsafe { DoubleArrayAhoCorasick::<V>::deserialize_unchecked(&src) };
            let consumed = src.len() - rest.len();
            let rest_ok = rest == &c.trail[..];
            let re = other.serialize();
            (other, consumed, rest_ok, re)
        }));
        match r {
            Err(_) => writeln!(out, "RT panic").unwrap(),
            Ok((other, consumed, rest_ok, re)) => {
                let mut h2 = FNV0;
                fnv(&mut h2, &re);
                writeln!(out, "RT {} {} {:016x} {}", consumed, u8::from(rest_ok), h2, u8::from(V::bw_eq(&pma, &other))).unwrap();
                writeln!(out, "RSTATS {} {} {} {}", other.num_states(), other.verif_num_slots(), other.heap_bytes(), V::OUT_SIZE).unwrap();
                if c.ops.contains('S') { bw_searches(&other, c, "R", out); }
            }
        }
    }
    if c.ops.contains('D') {
        // determinism: a second build gives the same bytes
        let again = build().map(|p| p.serialize());
        writeln!(out, "DET {}", u8::from(again.map_or(false, |b| b == img))).unwrap();
    }
    if c.ops.contains('M') {
        // shared automaton searched from 8 threads, interleaved with the main thread
        let expect: Vec<String> = c.hays.iter().map(|h| obs_all_bw(&pma, c.kind, h)).collect();
        let stress = c.ops.contains('X');
        let budget = std::time::Duration::from_millis(if stress { 400 } else { 12 });
        let reps = if stress { 25usize } else { 1usize };
        let barrier = std::sync::Barrier::new(8);
        let ok = std::thread::scope(|s| {
            let hs: Vec<_> = (0..8).map(|t| {
                let pma = &pma; let expect = &expect; let hays = &c.hays; let kind = c.kind; let barrier = &barrier;
                s.spawn(move || {
                    // every thread keeps searching until its time budget is used up, so that the
                    // searches of different threads really overlap (a racy cache needs that)
                    let mut ok = true;
                    let start = std::time::Instant::now();
                    let mut r = 0usize;
                    barrier.wait();
                    loop {
                        for (j, h) in hays.iter().enumerate() {
                            let jj = (j + t + r) % hays.len();
                            let _ = h;
                            for _ in 0..reps { ok &= obs_all_bw(pma, kind, &hays[jj]) == expect[jj]; }
                        }
                        r += 1;
                        if !ok || (r >= 4 && start.elapsed() >= budget) { break; }
                    }
                    ok
                })
            }).collect();
            hs.into_iter().all(|h| h.join().unwrap_or(false))
        });
        let after: Vec<String> = c.hays.iter().map(|h| obs_all_bw(&pma, c.kind, h)).collect();
        writeln!(out, "THREADS {} {}", u8::from(ok), u8::from(after == expect && pma.serialize() == img)).unwrap();
    }
}
fn obs_all_bw<V: Val>(pma: &DoubleArrayAhoCorasick<V>, kind: u8, h: &[u8]) -> String {
    let mut s = String::new();
    if kind == 0 {
        for m in pma.find_overlapping_iter(h) { write!(s, "o{},{},{};", m.start(), m.end(), m.value().show()).unwrap(); }
        for m in pma.find_iter(h) { write!(s, "f{},{},{};", m.start(), m.end(), m.value().show()).unwrap(); }
        for m in pma.find_overlapping_no_suffix_iter(h) { write!(s, "n{},{},{};", m.start(), m.end(), m.value().show()).unwrap(); }
    } else {
        for m in pma.leftmost_find_iter(h) { write!(s, "l{},{},{};", m.start(), m.end(), m.value().show()).unwrap(); }
    }
    s
}

// API surface beyond single searches: Clone, partially consumed iterators, interleaved iterators; the
// automaton must come out unchanged (same bytes) and every search must answer as it did before
fn bw_api<V: Val>(pma: &DoubleArrayAhoCorasick<V>, c: &Case, out: &mut String) {
    let r = catch_unwind(AssertUnwindSafe(|| {
        let img = pma.serialize();
        let cl = pma.clone();
        let clone_ok = V::bw_eq(pma, &cl) && cl.serialize() == img;
        let (mut reuse_ok, mut inter_ok) = (true, true);
        let firsts: Vec<String> = c.hays.iter().map(|h| obs_all_bw(pma, c.kind, h)).collect();
        for (j, h) in c.hays.iter().enumerate() {
            if c.kind == 0 {
                let mut a = pma.find_overlapping_iter(h); let _ = a.next(); let _ = a.next(); drop(a);
                let mut b = pma.find_iter(h); let _ = b.next(); drop(b);
                let mut d = pma.find_overlapping_no_suffix_iter(h); let _ = d.next(); drop(d);
            } else { let mut a = pma.leftmost_find_iter(h); let _ = a.next(); drop(a); }
            reuse_ok &= obs_all_bw(pma, c.kind, h) == firsts[j] && obs_all_bw(&cl, c.kind, h) == firsts[j];
            let h2 = &c.hays[(j + 1) % c.hays.len()];
            let show = |m: daachorse::Match<V>| (m.end().wrapping_sub(m.end() - m.start()), m.end(), m.value().show());
            if c.kind == 0 {
                let sep1: Vec<_> = pma.find_overlapping_iter(h).map(show).collect();
                let sep2: Vec<_> = pma.find_iter(h2).map(show).collect();
                let (mut i1, mut i2) = (pma.find_overlapping_iter(h), pma.find_iter(h2));
                let (mut g1, mut g2) = (vec![], vec![]);
                loop { let x = i1.next(); let y = i2.next(); if x.is_none() && y.is_none() { break; } if let Some(m) = x { g1.push(show(m)); } if let Some(m) = y { g2.push(show(m)); } }
                inter_ok &= g1 == sep1 && g2 == sep2;
            } else {
                let sep1: Vec<_> = pma.leftmost_find_iter(h).map(show).collect();
                let sep2: Vec<_> = pma.leftmost_find_iter(h2).map(show).collect();
                let (mut i1, mut i2) = (pma.leftmost_find_iter(h), pma.leftmost_find_iter(h2));
                let (mut g1, mut g2) = (vec![], vec![]);
                loop { let x = i1.next(); let y = i2.next(); if x.is_none() && y.is_none() { break; } if let Some(m) = x { g1.push(show(m)); } if let Some(m) = y { g2.push(show(m)); } }
                inter_ok &= g1 == sep1 && g2 == sep2;
            }
        }
        let unchanged = pma.serialize() == img;
        (clone_ok, reuse_ok, inter_ok, unchanged)
    }));
    match r {
        Ok((a, b, d, e)) => writeln!(out, "APIX {} {} {} {}", u8::from(a), u8::from(b), u8::from(d), u8::from(e)).unwrap(),
        Err(_) => writeln!(out, "APIX panic").unwrap(),
    }
}

// ---------------------------------------------------------------- char-wise
fn cw_labels(pats: &[String]) -> Vec<char> {
    let mut s: Vec<char> = pats.iter().flat_map(|p| p.chars()).collect();
    s.sort_unstable();
    s.dedup();
    let mut labels = s.clone();
    // unmapped representatives: least scalar not in the set, one above the largest, U+10FFFF
    let mut u1 = 0u32;
    while s.binary_search(&char::from_u32(u1).unwrap()).is_ok() { u1 += 1; }
    labels.push(char::from_u32(u1).unwrap());
    if let Some(&mx) = s.last() {
        if let Some(c) = char::from_u32(mx as u32 + 1) { if !labels.contains(&c) { labels.push(c); } }
    }
    let top = '\u{10FFFF}';
    if !labels.contains(&top) { labels.push(top); }
    labels
}
fn cw_searches<V: Val>(pma: &CharwiseDoubleArrayAhoCorasick<V>, c: &Case, pre: &str, out: &mut String) {
    for (j, hb) in c.hays.iter().enumerate() {
        let h = std::str::from_utf8(hb).expect("haystack must be UTF-8 for cw");
        if c.kind == 0 {
            let t1 = fmt_matches!(out, format!("{pre}OVL"), j, pma.find_overlapping_iter(h));
            let t2 = fmt_matches!(out, format!("{pre}FIND"), j, pma.find_iter(h));
            let t3 = fmt_matches!(out, format!("{pre}NOS"), j, pma.find_overlapping_no_suffix_iter(h));
            writeln!(out, "{pre}TICKS {j} {t1} {t2} {t3}").unwrap();
            fmt_pulls!(out, format!("{pre}OVLI"), j, hb, src, unsafe { pma.find_overlapping_iter_from_iter(src) });
            fmt_pulls!(out, format!("{pre}FINDI"), j, hb, src, unsafe { pma.find_iter_from_iter(src) });
            fmt_pulls!(out, format!("{pre}NOSI"), j, hb, src, unsafe { pma.find_overlapping_no_suffix_iter_from_iter(src) });
        } else {
            let t1 = fmt_matches!(out, format!("{pre}LEFT"), j, pma.leftmost_find_iter(h));
            writeln!(out, "{pre}TICKS {j} {t1}").unwrap();
        }
    }
}
fn cw_table<V: Val>(pma: &CharwiseDoubleArrayAhoCorasick<V>, kind: u8, pats: &[String], out: &mut String) {
    let labels = cw_labels(pats);
    let n = pma.verif_num_slots();
    let mut seen = vec![false; n];
    let mut order = vec![0u32];
    seen[0] = true;
    let mut qi = 0;
    while qi < order.len() {
        let s = order[qi];
        qi += 1;
        for &l in &labels {
            if let Some(t) = pma.verif_child(s, l) {
                if (t as usize) < n && !seen[t as usize] { seen[t as usize] = true; order.push(t); }
            }
        }
    }
    order.sort_unstable();
    let (mut hc, mut hn) = (FNV0, FNV0);
    for &s in &order {
        for &l in &labels {
            let ch = pma.verif_child(s, l).unwrap_or(u32::MAX);
            fnv(&mut hc, &ch.to_le_bytes());
            let nx = if kind == 0 { pma.verif_next_state(s, l) } else { pma.verif_next_state_leftmost(s, l) };
            fnv(&mut hn, &nx.to_le_bytes());
        }
    }
    writeln!(out, "TABLE {} {:016x} {:016x}", order.len(), hc, hn).unwrap();
}
fn obs_all_cw<V: Val>(pma: &CharwiseDoubleArrayAhoCorasick<V>, kind: u8, h: &str) -> String {
    let mut s = String::new();
    if kind == 0 {
        for m in pma.find_overlapping_iter(h) { write!(s, "o{},{},{};", m.start(), m.end(), m.value().show()).unwrap(); }
        for m in pma.find_iter(h) { write!(s, "f{},{},{};", m.start(), m.end(), m.value().show()).unwrap(); }
        for m in pma.find_overlapping_no_suffix_iter(h) { write!(s, "n{},{},{};", m.start(), m.end(), m.value().show()).unwrap(); }
    } else {
        for m in pma.leftmost_find_iter(h) { write!(s, "l{},{},{};", m.start(), m.end(), m.value().show()).unwrap(); }
    }
    s
}
fn run_cw<V: Val>(c: &Case, out: &mut String) {
    // the character-wise API takes &str: a case whose patterns or haystacks are not UTF-8 is not
    // an input of that API (generator slip), so it is skipped on both sides, never a panic
    if c.pats.iter().any(|(p, _)| std::str::from_utf8(p).is_err()) || c.hays.iter().any(|h| std::str::from_utf8(h).is_err()) {
        writeln!(out, "SKIP notutf8").unwrap();
        return;
    }
    let pats: Vec<String> = c.pats.iter().map(|(p, _)| String::from_utf8(p.clone()).expect("pattern must be UTF-8 for cw")).collect();
    let builder = || CharwiseDoubleArrayAhoCorasickBuilder::new().match_kind(kind_of(c.kind)).num_free_blocks(c.nfb);
    let build = || -> Result<CharwiseDoubleArrayAhoCorasick<V>, DaachorseError> {
        match c.entry.as_str() {
            "build" => builder().build(pats.iter()),
            "values" => builder().build_with_values(pats.iter().zip(c.pats.iter()).map(|(p, (_, v))| (p, V::parse(v)))),
            "new" => CharwiseDoubleArrayAhoCorasick::new(pats.iter()),
            "with_values" => CharwiseDoubleArrayAhoCorasick::with_values(pats.iter().zip(c.pats.iter()).map(|(p, (_, v))| (p, V::parse(v)))),
            e => panic!("unknown entry {e}"),
        }
    };
    let first = catch_unwind(AssertUnwindSafe(build));
    if c.entry == "new" || c.entry == "with_values" {
        let alt = catch_unwind(AssertUnwindSafe(|| -> Result<CharwiseDoubleArrayAhoCorasick<V>, DaachorseError> {
            if c.entry == "new" { CharwiseDoubleArrayAhoCorasickBuilder::default().build(pats.iter()) }
            else { CharwiseDoubleArrayAhoCorasickBuilder::default().build_with_values(pats.iter().zip(c.pats.iter()).map(|(p, (_, v))| (p, V::parse(v)))) }
        }));
        let d = |r: &std::thread::Result<Result<CharwiseDoubleArrayAhoCorasick<V>, DaachorseError>>| match r {
            Err(_) => "panic".to_string(),
            Ok(Err(e)) => format!("err:{}", err_name(e)),
            Ok(Ok(p)) => { let mut h = FNV0; fnv(&mut h, &p.serialize()); format!("ok:{:016x}", h) }
        };
        let (a, b) = (d(&first), d(&alt));
        if a == b { writeln!(out, "DEFAULTB 1").unwrap(); } else { writeln!(out, "DEFAULTB 0 {b}").unwrap(); }
    }
    let pma = match first {
        Err(_) => { writeln!(out, "BUILD panic").unwrap(); return; }
        Ok(Err(e)) => { writeln!(out, "BUILD err:{}", err_name(&e)).unwrap(); return; }
        Ok(Ok(p)) => p,
    };
    writeln!(out, "BUILD ok").unwrap();
    let img = pma.serialize();
    let mut h = FNV0;
    fnv(&mut h, &img);
    writeln!(out, "IMG {} {:016x}", img.len(), h).unwrap();
    if c.ops.contains('X') { writeln!(out, "IMGHEX {}", hex(&img)).unwrap(); }
    writeln!(out, "STATS {} {} {} {}", pma.num_states(), pma.num_elements(), pma.heap_bytes(), V::OUT_SIZE).unwrap();
    if c.ops.contains('T') { cw_table(&pma, c.kind, &pats, out); }
    if c.ops.contains('S') { cw_searches(&pma, c, "", out); if !c.hays.is_empty() && !c.ops.contains('N') { cw_api(&pma, c, out); } }
    if c.ops.contains('K') {
        let h = "a";
        let p = |r: std::thread::Result<()>| if r.is_err() { "panic" } else { "ok" };
        let a = p(catch_unwind(AssertUnwindSafe(|| { let _ = pma.find_iter(h).count(); })));
        let b = p(catch_unwind(AssertUnwindSafe(|| { let _ = pma.find_overlapping_iter(h).count(); })));
        let d = p(catch_unwind(AssertUnwindSafe(|| { let _ = pma.find_overlapping_no_suffix_iter(h).count(); })));
        let e = p(catch_unwind(AssertUnwindSafe(|| { let _ = pma.leftmost_find_iter(h).count(); })));
        writeln!(out, "KINDCHK {a} {b} {d} {e}").unwrap();
        let (mut a, mut b, mut d) = ("panic", "panic", "panic");
        for h in &c.hays {
            if std::str::from_utf8(h).is_err() { continue; }
            if catch_unwind(AssertUnwindSafe(|| { let _ = unsafe { pma.find_iter_from_iter(h.iter().copied()) }.count(); })).is_ok() { a = "ok"; }
            if catch_unwind(AssertUnwindSafe(|| { let _ = unsafe { pma.find_overlapping_iter_from_iter(h.iter().copied()) }.count(); })).is_ok() { b = "ok"; }
            if catch_unwind(AssertUnwindSafe(|| { let _ = unsafe { pma.find_overlapping_no_suffix_iter_from_iter(h.iter().copied()) }.count(); })).is_ok() { d = "ok"; }
        }
        if !c.hays.is_empty() { writeln!(out, "KINDCHKI {a} {b} {d}").unwrap(); }
    }
    if c.ops.contains('R') {
        let mut src = img.clone();
        src.extend_from_slice(&c.trail);
        let r = catch_unwind(AssertUnwindSafe(|| {
            let (other, rest) = unsafe { CharwiseDoubleArrayAhoCorasick::<V>::deserialize_unchecked(&src) };
            let consumed = src.len() - rest.len();
            let rest_ok = rest == &c.trail[..];
            let re = other.serialize();
            (other, consumed, rest_ok, re)
        }));
        match r {
            Err(_) => writeln!(out, "RT panic").unwrap(),
            Ok((other, consumed, rest_ok, re)) => {
                let mut h2 = FNV0;
                fnv(&mut h2, &re);
                writeln!(out, "RT {} {} {:016x} {}", consumed, u8::from(rest_ok), h2, u8::from(V::cw_eq(&pma, &other))).unwrap();
                writeln!(out, "RSTATS {} {} {} {}", other.num_states(), other.num_elements(), other.heap_bytes(), V::OUT_SIZE).unwrap();
                if c.ops.contains('S') { cw_searches(&other, c, "R", out); }
            }
        }
    }
    if c.ops.contains('D') {
        let again = build().map(|p| p.serialize());
        writeln!(out, "DET {}", u8::from(again.map_or(false, |b| b == img))).unwrap();
    }
    if c.ops.contains('M') {
        let hays: Vec<&str> = c.hays.iter().map(|h| std::str::from_utf8(h).unwrap()).collect();
        let expect: Vec<String> = hays.iter().map(|h| obs_all_cw(&pma, c.kind, h)).collect();
        let stress = c.ops.contains('X');
        let budget = std::time::Duration::from_millis(if stress { 400 } else { 12 });
        let reps = if stress { 25usize } else { 1usize };
        let barrier = std::sync::Barrier::new(8);
        let ok = std::thread::scope(|s| {
            let hs: Vec<_> = (0..8).map(|t| {
                let pma = &pma; let expect = &expect; let hays = &hays; let kind = c.kind; let barrier = &barrier;
                s.spawn(move || {
                    let mut ok = true;
                    let start = std::time::Instant::now();
                    let mut r = 0usize;
                    barrier.wait();
                    loop {
                        for j in 0..hays.len() {
                            let jj = (j + t + r) % hays.len();
                            for _ in 0..reps { ok &= obs_all_cw(pma, kind, hays[jj]) == expect[jj]; }
                        }
                        r += 1;
                        if !ok || (r >= 4 && start.elapsed() >= budget) { break; }
                    }
                    ok
                })
            }).collect();
            hs.into_iter().all(|h| h.join().unwrap_or(false))
        });
        let after: Vec<String> = hays.iter().map(|h| obs_all_cw(&pma, c.kind, h)).collect();
        writeln!(out, "THREADS {} {}", u8::from(ok), u8::from(after == expect && pma.serialize() == img)).unwrap();
    }
}

// API surface beyond single searches: Clone, partially consumed iterators, interleaved iterators; the
// automaton must come out unchanged (same bytes) and every search must answer as it did before
fn cw_api<V: Val>(pma: &CharwiseDoubleArrayAhoCorasick<V>, c: &Case, out: &mut String) {
    let r = catch_unwind(AssertUnwindSafe(|| {
        let img = pma.serialize();
        let cl = pma.clone();
        let clone_ok = V::cw_eq(pma, &cl) && cl.serialize() == img;
        let (mut reuse_ok, mut inter_ok) = (true, true);
        let hays: Vec<&str> = c.hays.iter().map(|h| std::str::from_utf8(h).unwrap()).collect();
        let firsts: Vec<String> = hays.iter().map(|h| obs_all_cw(pma, c.kind, h)).collect();
        for (j, h) in hays.iter().copied().enumerate() {
            if c.kind == 0 {
                let mut a = pma.find_overlapping_iter(h); let _ = a.next(); let _ = a.next(); drop(a);
                let mut b = pma.find_iter(h); let _ = b.next(); drop(b);
                let mut d = pma.find_overlapping_no_suffix_iter(h); let _ = d.next(); drop(d);
            } else { let mut a = pma.leftmost_find_iter(h); let _ = a.next(); drop(a); }
            reuse_ok &= obs_all_cw(pma, c.kind, h) == firsts[j] && obs_all_cw(&cl, c.kind, h) == firsts[j];
            let h2 = hays[(j + 1) % hays.len()];
            let show = |m: daachorse::Match<V>| (m.end().wrapping_sub(m.end() - m.start()), m.end(), m.value().show());
            if c.kind == 0 {
                let sep1: Vec<_> = pma.find_overlapping_iter(h).map(show).collect();
                let sep2: Vec<_> = pma.find_iter(h2).map(show).collect();
                let (mut i1, mut i2) = (pma.find_overlapping_iter(h), pma.find_iter(h2));
                let (mut g1, mut g2) = (vec![], vec![]);
                loop { let x = i1.next(); let y = i2.next(); if x.is_none() && y.is_none() { break; } if let Some(m) = x { g1.push(show(m)); } if let Some(m) = y { g2.push(show(m)); } }
                inter_ok &= g1 == sep1 && g2 == sep2;
            } else {
                let sep1: Vec<_> = pma.leftmost_find_iter(h).map(show).collect();
                let sep2: Vec<_> = pma.leftmost_find_iter(h2).map(show).collect();
                let (mut i1, mut i2) = (pma.leftmost_find_iter(h), pma.leftmost_find_iter(h2));
                let (mut g1, mut g2) = (vec![], vec![]);
                loop { let x = i1.next(); let y = i2.next(); if x.is_none() && y.is_none() { break; } if let Some(m) = x { g1.push(show(m)); } if let Some(m) = y { g2.push(show(m)); } }
                inter_ok &= g1 == sep1 && g2 == sep2;
            }
        }
        let unchanged = pma.serialize() == img;
        (clone_ok, reuse_ok, inter_ok, unchanged)
    }));
    match r {
        Ok((a, b, d, e)) => writeln!(out, "APIX {} {} {} {}", u8::from(a), u8::from(b), u8::from(d), u8::from(e)).unwrap(),
        Err(_) => writeln!(out, "APIX panic").unwrap(),
    }
}

fn run_case(c: &Case, out: &mut String) {
    macro_rules! go {
        ($t:ty) => { if c.var == "bw" { run_bw::<$t>(c, out) } else { run_cw::<$t>(c, out) } };
    }
    match c.vt.as_str() {
        "u8" => go!(u8), "u16" => go!(u16), "u32" => go!(u32), "u64" => go!(u64), "u128" => go!(u128),
        "usize" => go!(usize), "i8" => go!(i8), "i16" => go!(i16), "i32" => go!(i32), "i64" => go!(i64),
        "i128" => go!(i128), "isize" => go!(isize), "empty" => go!(Empty), "user3" => go!(User3), "from1" => go!(From1),
        t => panic!("unknown value type {t}"),
    }
}

fn main() {
    // usage: dvharness <casefile> [skip]   — output on stdout, one block per case
    let args: Vec<String> = std::env::args().collect();
    let mut text = String::new();
    std::fs::File::open(&args[1]).unwrap().read_to_string(&mut text).unwrap();
    let skip: usize = args.get(2).map_or(0, |s| s.parse().unwrap());
    std::panic::set_hook(Box::new(|_| {}));
    let cases = parse_cases(&text);
    let stdout = std::io::stdout();
    for c in cases.iter().skip(skip) {
        {
            let mut o = stdout.lock();
            writeln!(o, "CASE {}", c.id).unwrap();
            o.flush().unwrap();
        }
        let mut out = String::new();
        run_case(c, &mut out);
        let mut o = stdout.lock();
        o.write_all(out.as_bytes()).unwrap();
        writeln!(o, "END {}", c.id).unwrap();
        o.flush().unwrap();
    }
}
