(* Pinned statements: re-stated here and re-checked by ./check on every run, so a theorem cannot
   be weakened quietly.  Every `Check` is followed by `Print Assumptions`. *)
From DV Require Import Model.Base Gen.SrcConsts Gen.ConstsAgree.
Check (block_len_agrees : SrcConsts.BLOCK_LEN = Base.BLOCK_LEN).
Print Assumptions block_len_agrees.
