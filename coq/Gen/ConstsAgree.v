(* ConstsAgree.v — the constants hard-coded in the model equal the ones tools/consts.py reads out
   of /repo's current sources on every run.  A changed source constant breaks one of these. *)
From DV Require Import Model.Base Model.Ser Gen.SrcConsts.

Lemma block_len_agrees : SrcConsts.BLOCK_LEN = Base.BLOCK_LEN. Proof. reflexivity. Qed.
Lemma root_agrees : SrcConsts.BW_ROOT_IDX = Base.ROOT /\ SrcConsts.CW_ROOT_IDX = Base.ROOT
                    /\ SrcConsts.ROOT_ID = Base.ROOT. Proof. repeat split; reflexivity. Qed.
Lemma dead_agrees : SrcConsts.BW_DEAD_IDX = Base.DEAD /\ SrcConsts.CW_DEAD_IDX = Base.DEAD
                    /\ SrcConsts.DEAD_ID = Base.DEAD. Proof. repeat split; reflexivity. Qed.
Lemma u24_max_agrees : SrcConsts.U24_MAX = Base.U24_MAX. Proof. reflexivity. Qed.
Lemma invalid_code_agrees : SrcConsts.INVALID_CODE = Base.INVALID_CODE. Proof. reflexivity. Qed.
Lemma nfb_default_agrees : SrcConsts.BW_NFB_DEFAULT = Base.NFB_DEFAULT
                           /\ SrcConsts.CW_NFB_DEFAULT = Base.NFB_DEFAULT.
Proof. split; reflexivity. Qed.

(* MatchKind <-> u8 *)
Lemma kind_to_u8_agrees :
  kind_to_u8 Standard = SrcConsts.KTO_Standard /\ kind_to_u8 LeftmostLongest = SrcConsts.KTO_LeftmostLongest
  /\ kind_to_u8 LeftmostFirst = SrcConsts.KTO_LeftmostFirst
  /\ kind_to_u8 Standard = SrcConsts.K_Standard /\ kind_to_u8 LeftmostLongest = SrcConsts.K_LeftmostLongest
  /\ kind_to_u8 LeftmostFirst = SrcConsts.K_LeftmostFirst.
Proof. repeat split; reflexivity. Qed.
Lemma kind_of_u8_agrees :
  kind_of_u8 SrcConsts.KFROM_LeftmostLongest = LeftmostLongest
  /\ kind_of_u8 SrcConsts.KFROM_LeftmostFirst = LeftmostFirst
  /\ SrcConsts.KFROM_default_is_Standard = 1.
Proof. repeat split; reflexivity. Qed.

(* widths of the built-in Serializable integers (64-bit target) as the driver instantiates them *)
Lemma widths_agree :
  (SrcConsts.W_u8, SrcConsts.W_u16, SrcConsts.W_u32, SrcConsts.W_u64, SrcConsts.W_u128, SrcConsts.W_usize)
  = (1, 2, 4, 8, 16, 8) /\
  (SrcConsts.W_i8, SrcConsts.W_i16, SrcConsts.W_i32, SrcConsts.W_i64, SrcConsts.W_i128, SrcConsts.W_isize)
  = (1, 2, 4, 8, 16, 8).
Proof. split; reflexivity. Qed.
