(* CrossCheck.v — helpers for the in-Coq evaluation of sampled cases (build/runs/<tag>/xcheck.v, written
   by tools/vlib.py on every check run): the Gallina model itself, evaluated by vm_compute inside
   Coq, must produce (a) the bytes the IMPLEMENTATION serialised and (b) the match lists the
   extracted OCaml driver printed.  This cross-checks extraction, the OCaml compiler and the driver's
   parsing / printing on the sampled cases, and ties the Coq-side definitions the theorems speak of to
   the implementation's own image without going through OCaml at all. *)
From DV Require Import Model.Base Model.Nfa Model.BwBuild Model.CwBuild Model.BwSearch Model.CwSearch
     Model.Api Model.Ser Model.Spec Model.Utf8 Model.Cli Model.CliRaw.
Local Open Scope N_scope.

Definition trip_eqb (a b : nat * nat * Z) : bool :=
  Nat.eqb (fst (fst a)) (fst (fst b)) && Nat.eqb (snd (fst a)) (snd (fst b)) && Z.eqb (snd a) (snd b).
Fixpoint trips_eqb (l1 l2 : list (nat * nat * Z)) : bool :=
  match l1, l2 with
  | [], [] => true
  | x :: r1, y :: r2 => trip_eqb x y && trips_eqb r1 r2
  | _, _ => false
  end.
Definition res_is (r : res (list (nat * nat * Z))) (expect : option (list (nat * nat * Z))) : bool :=
  match expect with
  | None => true                      (* not observed for this case *)
  | Some l => match r with Ok x => trips_eqb x l | _ => false end
  end.
Definition kind_of_n (k : N) : mkind :=
  if k =? 1 then LeftmostLongest else if k =? 2 then LeftmostFirst else Standard.

(* one haystack: the expected lists of the four search methods (None = not printed by the driver) *)
Record hay_expect := { he_hay : list N; he_ovl : option (list (nat * nat * Z)); he_find : option (list (nat * nat * Z));
                       he_nos : option (list (nat * nat * Z)); he_left : option (list (nat * nat * Z)) }.

Definition xc_bw (k nfb : N) (vt : vtype) (pvs : list (list N * Z)) (img : list N) (hs : list hay_expect) : bool :=
  match bw_build_with_values Z (kind_of_n k) nfb pvs with
  | Ok A =>
    list_eqb (bw_serialize Z (vt_serializable vt) A) img
    && forallb (fun h => res_is (bw_find_overlapping_iter Z A (he_hay h)) (he_ovl h)
                         && res_is (bw_find_iter Z A (he_hay h)) (he_find h)
                         && res_is (bw_find_overlapping_no_suffix_iter Z A (he_hay h)) (he_nos h)
                         && res_is (bw_leftmost_find_iter Z A (he_hay h)) (he_left h)) hs
  | _ => false
  end.

(* character-wise: patterns as code point lists, haystacks as UTF-8 bytes *)
Definition xc_cw (k nfb : N) (vt : vtype) (pvs : list (list N * Z)) (img : list N) (hs : list hay_expect) : bool :=
  match cw_build_with_values Z (kind_of_n k) nfb pvs with
  | Ok A =>
    list_eqb (cw_serialize Z (vt_serializable vt) A) img
    && forallb (fun h => res_is (cw_find_overlapping_iter Z A (he_hay h)) (he_ovl h)
                         && res_is (cw_find_iter Z A (he_hay h)) (he_find h)
                         && res_is (cw_find_overlapping_no_suffix_iter Z A (he_hay h)) (he_nos h)
                         && res_is (cw_leftmost_find_iter Z A (he_hay h)) (he_left h)) hs
  | _ => false
  end.

(* daacfind: the program of Model/CliRaw.v (= Model/Cli.v on UTF-8 input), evaluated inside Coq, must
   print the bytes the REAL binary printed and end with its exit status *)
Definition xc_cli (color lineno nofn : bool) (pf pp : option (list N)) (stdin : list N)
           (files : list (list N * list N)) (out : list N) (st : N) : bool :=
  match cli_main_raw {| cf_color := color; cf_lineno := lineno; cf_nofilename := nofn |} pf pp stdin files with
  | Ok (o, s) => list_eqb o out && (s =? st)
  | _ => false
  end.
