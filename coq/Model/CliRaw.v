(* CliRaw.v — daacfind on ARBITRARY bytes: BufRead::lines() hands out Err(InvalidData) for a line
   that is not UTF-8.  main.rs then (a) for the -f pattern file and for standard input propagates the
   error with `?` (main returns Err: status 1; what was printed before stays printed), (b) for a FILE
   argument reports on stderr and `break`s: the rest of that file is skipped, the next file is read; (c) a FILE name that is not UTF-8 is not printed.
   [cli_main] (Model/Cli.v) is the program on inputs all of whose lines are UTF-8. *)
From DV Require Import Model.Base Model.Nfa Model.BwBuild Model.BwSearch Model.Api Model.Utf8 Model.Cli.

(* the items of lines() up to the first error, and whether the iteration ended without one *)
Fixpoint valid_prefix (ls : list (list N)) : list (list N) * bool :=
  match ls with
  | [] => ([], true)
  | l :: r => if valid_utf8 l then let '(a, ok) := valid_prefix r in (l :: a, ok) else ([], false)
  end.
Definition lines_raw (bs : list N) : list (list N) * bool := valid_prefix (buf_lines bs).

(* filename.to_str(): a FILE argument that is not UTF-8 is opened all the same, but its name is not
   printed (no prefix, as with -h) *)
Definition shown_name (name : list N) : option (list N) := if valid_utf8 name then Some name else None.

Fixpoint run_files_raw (A : bw_automaton unit) (fl : cli_flags) (files : list (list N * list N)) : res (list N) :=
  match files with
  | [] => Ok []
  | (name, content) :: r =>
    a <- run_lines A fl (shown_name name) 0 (fst (lines_raw content)) ;;
    b <- run_files_raw A fl r ;;
    Ok (a ++ b)
  end.

Definition cli_main_raw (fl : cli_flags) (pfile pstr : option (list N)) (stdin : list N)
           (files : list (list N * list N)) : res (list N * N) :=
  if match pfile with Some f => negb (snd (lines_raw f)) | None => false end then Ok ([], 1)
  else
  match bw_build unit (fun _ => Some tt) Standard NFB_DEFAULT (cli_patterns pfile pstr) with
  | Err _ => Ok ([], 1)
  | Panic t => Panic t
  | UB t => UB t
  | OutOfFuel => OutOfFuel
  | Ok A =>
    match files with
    | [] =>
      let '(ls, ok) := lines_raw stdin in
      out <- run_lines A fl None 0 ls ;;
      Ok (out, if ok then 0 else 1)
    | _ => out <- run_files_raw A fl files ;; Ok (out, 0)
    end
  end.
