(* Base.v — shared vocabulary of the model: outcome type, constants, a small N-indexed map.
   No proofs about the modelled code live here (only the two map lemmas every user needs). *)
From Coq Require Export List NArith ZArith Bool Arith Lia.
Export ListNotations.
Open Scope N_scope.

Arguments N.add : simpl never.
Arguments N.sub : simpl never.
Arguments N.mul : simpl never.
Arguments N.eqb : simpl never.
Arguments N.ltb : simpl never.
Arguments N.leb : simpl never.
Arguments N.lxor : simpl never.
Arguments N.modulo : simpl never.
Arguments N.div : simpl never.

(* ---------------------------------------------------------------------------------------- *)
(* Outcomes.  Every modelled entry point returns one of these; nothing the real code rejects  *)
(* is hidden behind a default value.                                                         *)

Inductive errkind := InvalidArgument | DuplicatePattern | AutomatonScale | InvalidConversion.

(* Rust sites that panic (safe, defined behaviour). *)
Inductive ptag :=
| PIndex          (* slice / Vec index out of range *)
| PUnwrap         (* Option::unwrap / Result::unwrap on None / Err *)
| PBorrow         (* RefCell already borrowed *)
| PAssert         (* assert! / assert_ne! *)
| PDebugAssert    (* debug_assert! (dev profile only; modelled conservatively as a panic) *)
| POverflow       (* arithmetic overflow (dev profile) *)
| PKind.          (* "match_kind must be ..." assertion of the search entry points *)

(* Rust sites that are undefined behaviour when their precondition fails. *)
Inductive utag :=
| UStateIndex     (* states.get_unchecked(i), i >= len *)
| UOutputIndex    (* outputs.get_unchecked(i), i >= len *)
| UUnwrapNone     (* Option::unwrap_unchecked on None (UTF-8 decoder) *)
| UBadChar        (* char::from_u32_unchecked on a non scalar value *)
| UStrSlice.      (* str::get_unchecked(pos..) out of range / not on a boundary *)

Inductive res (A : Type) :=
| Ok (a : A) | Err (k : errkind) | Panic (t : ptag) | UB (t : utag) | OutOfFuel.
Arguments Ok {A} a.
Arguments Err {A} k.
Arguments Panic {A} t.
Arguments UB {A} t.
Arguments OutOfFuel {A}.

Definition bind {A B} (r : res A) (f : A -> res B) : res B :=
  match r with
  | Ok a => f a
  | Err k => Err k
  | Panic t => Panic t
  | UB t => UB t
  | OutOfFuel => OutOfFuel
  end.

Notation "x <- e ;; f" := (bind e (fun x => f)) (at level 61, e at next level, right associativity).
Notation "' p <- e ;; f" := (bind e (fun p => f)) (at level 61, p pattern, e at next level, right associativity).

Definition is_ok {A} (r : res A) : bool := match r with Ok _ => true | _ => false end.

(* ---------------------------------------------------------------------------------------- *)
(* Constants of the Rust source (re-checked against the source on every run by               *)
(* tools/consts.py -> Gen/SrcConsts.v -> Gen/ConstsAgree.v).                                 *)

Definition BLOCK_LEN : N := 256.            (* bytewise/builder.rs:14 *)
Definition ROOT : N := 0.                   (* ROOT_STATE_IDX = ROOT_STATE_ID = 0 *)
Definition DEAD : N := 1.                   (* DEAD_STATE_IDX = DEAD_STATE_ID = 1 *)
Definition U24_MAX : N := 16777215.         (* intpack.rs U24::MAX = 0x00ff_ffff *)
Definition U32_MAX : N := 4294967295.
Definition INVALID_CODE : N := 4294967295.  (* charwise/mapper.rs:7 *)
Definition NFB_DEFAULT : N := 16.           (* both builders' new() *)

Inductive mkind := Standard | LeftmostLongest | LeftmostFirst.
Definition mkind_eqb (a b : mkind) : bool :=
  match a, b with
  | Standard, Standard | LeftmostLongest, LeftmostLongest | LeftmostFirst, LeftmostFirst => true
  | _, _ => false
  end.
Definition is_standard (k : mkind) := mkind_eqb k Standard.
Definition is_leftmost (k : mkind) := negb (mkind_eqb k Standard).
Definition is_leftmost_first (k : mkind) := mkind_eqb k LeftmostFirst.

(* ---------------------------------------------------------------------------------------- *)
(* A small map from N (binary trie over positive, as in CompCert's PTree).                   *)

Inductive ptree (A : Type) := PLeaf | PNode (l : ptree A) (o : option A) (r : ptree A).
Arguments PLeaf {A}.
Arguments PNode {A} l o r.

Fixpoint pget {A} (p : positive) (t : ptree A) : option A :=
  match t with
  | PLeaf => None
  | PNode l o r =>
    match p with
    | xH => o
    | xO q => pget q l
    | xI q => pget q r
    end
  end.

Fixpoint pset {A} (p : positive) (v : A) (t : ptree A) : ptree A :=
  match t with
  | PLeaf =>
    match p with
    | xH => PNode PLeaf (Some v) PLeaf
    | xO q => PNode (pset q v PLeaf) None PLeaf
    | xI q => PNode PLeaf None (pset q v PLeaf)
    end
  | PNode l o r =>
    match p with
    | xH => PNode l (Some v) r
    | xO q => PNode (pset q v l) o r
    | xI q => PNode l o (pset q v r)
    end
  end.

Record nmap (A : Type) := { nm0 : option A; nmt : ptree A }.
Arguments nm0 {A} n.
Arguments nmt {A} n.

Definition nempty {A} : nmap A := {| nm0 := None; nmt := PLeaf |}.
Definition nget {A} (i : N) (m : nmap A) : option A :=
  match i with N0 => nm0 m | Npos p => pget p (nmt m) end.
Definition nset {A} (i : N) (v : A) (m : nmap A) : nmap A :=
  match i with
  | N0 => {| nm0 := Some v; nmt := nmt m |}
  | Npos p => {| nm0 := nm0 m; nmt := pset p v (nmt m) |}
  end.

Lemma pget_leaf {A} p : pget p (@PLeaf A) = None.
Proof. destruct p; reflexivity. Qed.

Lemma pgss {A} p (v : A) t : pget p (pset p v t) = Some v.
Proof.
  revert t; induction p as [q IH|q IH|]; intros [|l o r]; cbn [pset pget]; auto.
Qed.

Lemma pgso {A} p q (v : A) t : p <> q -> pget p (pset q v t) = pget p t.
Proof.
  revert q t; induction p as [p IH|p IH|]; intros [q|q|] [|l o r] Hne; cbn [pset pget];
    try rewrite pget_leaf; try reflexivity; try congruence;
    try (rewrite IH by congruence; try rewrite pget_leaf; reflexivity).
Qed.

Lemma ngss {A} i (v : A) m : nget i (nset i v m) = Some v.
Proof. destruct i; cbn; [reflexivity|apply pgss]. Qed.

Lemma ngso {A} i j (v : A) m : i <> j -> nget i (nset j v m) = nget i m.
Proof. destruct i, j; cbn; intros H; try reflexivity; try congruence. apply pgso; congruence. Qed.

Lemma nget_empty {A} i : nget i (@nempty A) = None.
Proof. destruct i; cbn; [reflexivity|apply pget_leaf]. Qed.

(* Build a map from a list (index i -> i-th element). *)
Fixpoint index_from {A} (i : N) (l : list A) (m : nmap A) : nmap A :=
  match l with
  | [] => m
  | x :: r => index_from (N.succ i) r (nset i x m)
  end.
Definition index_list {A} (l : list A) : nmap A := index_from 0 l nempty.

(* [nseq a n] = [a; a+1; ...; a+n-1], n given as nat (block lengths, label ranges). *)
Fixpoint nseq (a : N) (n : nat) : list N :=
  match n with O => [] | S k => a :: nseq (N.succ a) k end.

(* Generic helpers. *)
Definition list_eqb (a b : list N) : bool :=
  (fix go (a b : list N) : bool :=
     match a, b with
     | [], [] => true
     | x :: a', y :: b' => (x =? y) && go a' b'
     | _, _ => false
     end) a b.

Definition isSome {A} (o : option A) : bool := match o with Some _ => true | None => false end.
