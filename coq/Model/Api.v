(* Api.v — the public search entry points of both automata (the kind assertion, the iterator
   run to exhaustion, Match::start()).  These are the functions the property theorems speak of. *)
From DV Require Import Model.Base Model.Nfa Model.BwBuild Model.CwBuild Model.BwSearch
     Model.CwSearch Model.Utf8.

Section Api.
Variable V : Type.

(* Match::start(): end - length (panics on underflow in the dev profile) *)
Definition triple (m : mtch V) : res (nat * nat * V) :=
  if (N.to_nat (m_length m) <=? m_end m)%nat
  then Ok ((m_end m - N.to_nat (m_length m))%nat, m_end m, m_value m)
  else Panic POverflow.
Fixpoint triples (ms : list (mtch V)) : res (list (nat * nat * V)) :=
  match ms with
  | [] => Ok []
  | m :: r => t <- triple m ;; ts <- triples r ;; Ok (t :: ts)
  end.

Definition run_iter {IT} (next : IT -> res (option (mtch V) * IT)) (k : nat) (it : IT)
  : res (list (nat * nat * V)) :=
  '(ms, _) <- drain V next k it ;; triples ms.

(* ---- byte-wise ---- *)
Definition bw_find_iter (A : bw_automaton V) (h : list N) : res (list (nat * nat * V)) :=
  if is_standard (bw_kind A) then
    run_iter (find_next V (bw_sget V A) (bw_oget V A) (bw_nslots V A)) (S (S (length h)))
             (find_init h)
  else Panic PKind.
Definition bw_find_overlapping_iter (A : bw_automaton V) (h : list N)
  : res (list (nat * nat * V)) :=
  if is_standard (bw_kind A) then
    run_iter (ovl_next V (bw_sget V A) (bw_oget V A) (bw_nslots V A))
             (S (S (length h) * S (length (bw_outputs A)))) (ovl_init h)
  else Panic PKind.
Definition bw_find_overlapping_no_suffix_iter (A : bw_automaton V) (h : list N)
  : res (list (nat * nat * V)) :=
  if is_standard (bw_kind A) then
    run_iter (nos_next V (bw_sget V A) (bw_oget V A) (bw_nslots V A)) (S (S (length h)))
             (nos_init h)
  else Panic PKind.
Definition bw_leftmost_find_iter (A : bw_automaton V) (h : list N)
  : res (list (nat * nat * V)) :=
  if is_leftmost (bw_kind A) then
    run_iter (lm_next V (bw_sget V A) (bw_oget V A) (bw_nslots V A)) (S (S (length h)))
             (lm_init h)
  else Panic PKind.

(* ---- char-wise (haystack given as its UTF-8 bytes) ---- *)
Definition cw_find_iter (A : cw_automaton V) (h : list N) : res (list (nat * nat * V)) :=
  if is_standard (cw_kind A) then
    run_iter (cfind_next V (cw_sget V A) (cw_oget V A) (cw_tget V A) (cw_nslots V A))
             (S (S (length h))) (find_init h)
  else Panic PKind.
Definition cw_find_overlapping_iter (A : cw_automaton V) (h : list N)
  : res (list (nat * nat * V)) :=
  if is_standard (cw_kind A) then
    run_iter (covl_next V (cw_sget V A) (cw_oget V A) (cw_tget V A) (cw_nslots V A))
             (S (S (length h) * S (length (cw_outputs A)))) (ovl_init h)
  else Panic PKind.
Definition cw_find_overlapping_no_suffix_iter (A : cw_automaton V) (h : list N)
  : res (list (nat * nat * V)) :=
  if is_standard (cw_kind A) then
    run_iter (cnos_next V (cw_sget V A) (cw_oget V A) (cw_tget V A) (cw_nslots V A))
             (S (S (length h))) (nos_init h)
  else Panic PKind.
Definition cw_leftmost_find_iter (A : cw_automaton V) (h : list N)
  : res (list (nat * nat * V)) :=
  if is_leftmost (cw_kind A) then
    run_iter (clm_next V (cw_sget V A) (cw_oget V A) (cw_tget V A) (cw_nslots V A))
             (S (S (length h))) (lm_init h)
  else Panic PKind.

(* statistics *)
Definition bw_num_elements (A : bw_automaton V) : N := N.of_nat (length (bw_states A)).
Definition cw_num_elements (A : cw_automaton V) : N := N.of_nat (length (cw_states A)).
(* heap_bytes with size_of::<State>() = 12 and size_of::<Output<V>>() = [osz] *)
Definition bw_heap_bytes (osz : N) (A : bw_automaton V) : N :=
  N.of_nat (length (bw_states A)) * 12 + N.of_nat (length (bw_outputs A)) * osz.
Definition cw_heap_bytes (osz : N) (A : cw_automaton V) : N :=
  N.of_nat (length (cw_states A)) * 16 + N.of_nat (length (mp_table (cw_mapper A))) * 4
  + N.of_nat (length (cw_outputs A)) * osz.

End Api.
