(* CwBuild.v — model of src/charwise/mapper.rs, src/charwise/builder.rs and the State type of
   src/charwise.rs.  Labels are Unicode scalar values as N. *)
From DV Require Import Model.Base Model.Nfa Model.Helper Model.Utf8.

(* charwise::State; base / output_pos: 0 = None *)
Record cstate := { c_base : N; c_check : N; c_fail : N; c_outpos : N }.
Definition cstate_default : cstate :=
  {| c_base := 0; c_check := DEAD; c_fail := DEAD; c_outpos := 0 |}.

(* CodeMapper *)
Record mapper := { mp_table : list N; mp_alpha : N }.

(* --- CodeMapper::new (mapper.rs:16-35) ---------------------------------------------------- *)
(* sort_unstable_by (f desc, c asc): the order is total on distinct c, so any sort gives the same
   list; modelled as insertion sort. *)
Definition freq_before (x y : N * N) : bool :=      (* (c, f) *)
  (snd y <? snd x) || ((snd x =? snd y) && (fst x <? fst y)).
Fixpoint freq_insert (x : N * N) (l : list (N * N)) : list (N * N) :=
  match l with
  | [] => [x]
  | y :: r => if freq_before x y then x :: l else y :: freq_insert x r
  end.
Definition freq_sort (l : list (N * N)) : list (N * N) := fold_right freq_insert [] l.

(* freqs: Vec<u32> as map + len *)
Record freqs := { fq_map : nmap N; fq_len : N }.
Definition fq_get (f : freqs) (c : N) : N :=
  match nget c (fq_map f) with Some x => x | None => 0 end.
Definition fq_bump (f : freqs) (c : N) : freqs :=
  {| fq_map := nset c (fq_get f c + 1) (fq_map f);
     fq_len := if fq_len f <=? c then c + 1 else fq_len f |}.

Fixpoint assign_codes (sorted : list (N * N)) (i : N) (m : nmap N) : nmap N :=
  match sorted with
  | [] => m
  | (c, _) :: r => assign_codes r (i + 1) (nset c i m)
  end.

Definition mapper_new (f : freqs) (present : list N) : mapper :=
  (* [present] = the code points with non-zero frequency, ascending (the enumerate().filter()) *)
  let sorted := freq_sort (map (fun c => (c, fq_get f c)) present) in
  let tbl := assign_codes sorted 0 nempty in
  {| mp_table := map (fun c => match nget c tbl with Some x => x | None => INVALID_CODE end)
                     (nseq 0 (N.to_nat (fq_len f)));
     mp_alpha := N.of_nat (length sorted) |}.

(* sorted, duplicate-free insertion (to enumerate the non-zero entries of freqs in index order) *)
Fixpoint sorted_insert (c : N) (l : list N) : list N :=
  match l with
  | [] => [c]
  | y :: r => if c <? y then c :: l else if c =? y then l else y :: sorted_insert c r
  end.

Section CwBuild.
Variable V : Type.

Record cw_automaton := {
  cw_states : list cstate;
  cw_mapper : mapper;
  cw_outputs : list (output V);
  cw_kind : mkind;
  cw_num_states : N
}.

Record carr := { ca_map : nmap cstate; ca_len : N }.
Definition ca_get (a : carr) (i : N) : res cstate :=
  if i <? ca_len a then
    Ok (match nget i (ca_map a) with Some s => s | None => cstate_default end)
  else Panic PIndex.
Definition ca_upd (a : carr) (i : N) (f : cstate -> cstate) : res carr :=
  s <- ca_get a i ;;
  Ok {| ca_map := nset i (f s) (ca_map a); ca_len := ca_len a |}.

Definition cset_check (x : N) (s : cstate) : cstate :=
  {| c_base := c_base s; c_check := x; c_fail := c_fail s; c_outpos := c_outpos s |}.
Definition cset_base (x : N) (s : cstate) : cstate :=
  {| c_base := x; c_check := c_check s; c_fail := c_fail s; c_outpos := c_outpos s |}.
Definition cset_fail (x : N) (s : cstate) : cstate :=
  {| c_base := c_base s; c_check := c_check s; c_fail := x; c_outpos := c_outpos s |}.
Definition cset_outpos (x : N) (s : cstate) : cstate :=
  {| c_base := c_base s; c_check := c_check s; c_fail := c_fail s; c_outpos := x |}.

(* the pattern loop of build_original_nfa_and_mapper (:189-203): add, then count characters
   (also for patterns dropped under leftmost-first: add returned Ok) *)
Fixpoint cw_add_all (n : nfa V) (f : freqs) (present : list N) (pvs : list (list N * V))
  : res (nfa V * freqs * list N) :=
  match pvs with
  | [] => Ok (n, f, present)
  | (p, v) :: r =>
    n' <- add V len_utf8 n p v ;;
    cw_add_all n' (fold_left fq_bump p f) (fold_left (fun l c => sorted_insert c l) p present) r
  end.

(* the builder-time mapper as a function: mapper.get(label) *)
Definition code_of (tbl : nmap N) (c : N) : option N :=
  match nget c tbl with
  | Some x => if x =? INVALID_CODE then None else Some x
  | None => None
  end.

(* mapped.sort_by(code): codes are distinct, insertion sort by code *)
Fixpoint code_insert (x : N * N) (l : list (N * N)) : list (N * N) :=
  match l with
  | [] => [x]
  | y :: r => if fst x <? fst y then x :: l else y :: code_insert x r
  end.
Fixpoint map_edges (tbl : nmap N) (es : list (N * N)) : res (list (N * N)) :=
  match es with
  | [] => Ok []
  | (label, child) :: r =>
    match code_of tbl label with
    | None => Panic PUnwrap
    | Some code => l <- map_edges tbl r ;; Ok (code_insert (code, child) l)
    end
  end.

(* verify_base (:333-341) *)
Fixpoint cw_all_free (h : helper) (base : N) (es : list (N * N)) : res bool :=
  match es with
  | [] => Ok true
  | (c, _) :: r =>
    u <- is_used_index h (N.lxor base c) ;;
    if u then Ok false else cw_all_free h base r
  end.
Definition verify_base (h : helper) (base : N) (es : list (N * N)) : res (option N) :=
  free <- cw_all_free h base es ;;
  if free then Ok (if base =? 0 then None else Some base) else Ok None.

(* find_base (:317-331) *)
Fixpoint cw_find_base_loop (fuel : nat) (h : helper) (cur : option N) (c0 : N)
         (es : list (N * N)) : res (option N) :=
  match cur with
  | None => Ok None
  | Some idx =>
    match fuel with
    | O => OutOfFuel
    | S fuel' =>
      nxt <- vacant_next h idx ;;
      r <- verify_base h (N.lxor idx c0) es ;;
      match r with
      | Some b => Ok (Some b)
      | None => cw_find_base_loop fuel' h nxt c0 es
      end
    end
  end.
Definition cw_find_base (a : carr) (h : helper) (es : list (N * N)) : res N :=
  match es with
  | [] => Panic PDebugAssert
  | (c0, _) :: _ =>
    r <- cw_find_base_loop (S (N.to_nat (h_cap h))) h (h_head h) c0 es ;;
    match r with
    | Some b => Ok b
    | None =>
      if U32_MAX <? ca_len a then Panic PUnwrap
      else let b := N.lxor (ca_len a) c0 in
           if b =? 0 then Panic PUnwrap else Ok b
    end
  end.

(* extend_array (:344-357) *)
Definition cw_extend_array (block_len : N) (a : carr) (h : helper) : res (carr * helper) :=
  if U32_MAX - block_len <? ca_len a then Err AutomatonScale
  else
    h1 <- push_block h ;;
    Ok ({| ca_map := ca_map a; ca_len := ca_len a + block_len |}, h1).

(* u32::next_power_of_two *)
Fixpoint npow2_loop (fuel : nat) (p x : N) : N :=
  match fuel with
  | O => p
  | S fuel' => if x <=? p then p else npow2_loop fuel' (2 * p) x
  end.
Definition next_power_of_two (x : N) : N := npow2_loop 33 1 x.

(* init_array (:305-314) *)
Definition cw_init_array (alpha nfb : N) : res (carr * helper * N) :=
  let block_len := N.max (next_power_of_two alpha) 2 in
  h0 <- helper_new block_len nfb ;;
  h1 <- match push_block h0 with
        | Ok h => Ok h
        | Err _ => Panic PUnwrap
        | Panic t => Panic t
        | UB t => UB t
        | OutOfFuel => OutOfFuel
        end ;;
  h2 <- use_index h1 ROOT ;;
  h3 <- use_index h2 DEAD ;;
  Ok ({| ca_map := nempty; ca_len := block_len |}, h3, block_len).

Definition cidmap_get (m : nmap N) (len : N) (i : N) : res N :=
  if i <? len then Ok (match nget i m with Some x => x | None => DEAD end) else Panic PIndex.

(* for &(c, child_id) in &mapped (:263-269) *)
Fixpoint cw_place_children (a : carr) (h : helper) (idmap : nmap N) (nst : N) (base sidx : N)
         (es : list (N * N)) (stack : list N)
  : res (carr * helper * nmap N * list N) :=
  match es with
  | [] => Ok (a, h, idmap, stack)
  | (c, child) :: r =>
    let child_idx := N.lxor base c in
    h' <- use_index h child_idx ;;
    a' <- ca_upd a child_idx (cset_check sidx) ;;
    if child <? nst then
      cw_place_children a' h' (nset child child_idx idmap) nst base sidx r (child :: stack)
    else Panic PIndex
  end.

(* while let Some(state_id) = stack.pop() (:236-271) *)
Fixpoint cw_dfs_loop (fuel : nat) (tbl : nmap N) (block_len : N) (n : nfa V) (a : carr)
         (h : helper) (idmap : nmap N) (stack : list N) : res (carr * helper * nmap N) :=
  match stack with
  | [] => Ok (a, h, idmap)
  | sid :: stack' =>
    match fuel with
    | O => OutOfFuel
    | S fuel' =>
      if sid =? DEAD then Panic PDebugAssert
      else
        st <- nfa_get V n sid ;;
        sidx <- cidmap_get idmap (n_nstates n) sid ;;
        if sidx =? DEAD then Panic PDebugAssert
        else
          match n_edges st with
          | [] => cw_dfs_loop fuel' tbl block_len n a h idmap stack'
          | _ :: _ =>
            mapped <- map_edges tbl (n_edges st) ;;
            base <- cw_find_base a h mapped ;;
            '(a1, h1) <- (if ca_len a <=? base then cw_extend_array block_len a h
                          else Ok (a, h)) ;;
            '(a2, h2, idmap2, stack2) <-
               cw_place_children a1 h1 idmap (n_nstates n) base sidx mapped stack' ;;
            a3 <- ca_upd a2 sidx (cset_base base) ;;
            cw_dfs_loop fuel' tbl block_len n a3 h2 idmap2 stack2
          end
    end
  end.

(* "Sets fail & output_pos values" (:274-298) *)
Fixpoint cw_set_fails_loop (n : nfa V) (a : carr) (idmap : nmap N) (ids : list N) : res carr :=
  match ids with
  | [] => Ok a
  | i :: r =>
    if i =? DEAD then cw_set_fails_loop n a idmap r
    else
      idx <- cidmap_get idmap (n_nstates n) i ;;
      if idx =? DEAD then Panic PDebugAssert
      else
        st <- nfa_get V n i ;;
        a1 <- ca_upd a idx (cset_outpos (n_outpos st)) ;;
        if n_fail st =? DEAD then
          a2 <- ca_upd a1 idx (cset_fail DEAD) ;; cw_set_fails_loop n a2 idmap r
        else
          fidx <- cidmap_get idmap (n_nstates n) (n_fail st) ;;
          if fidx =? DEAD then Panic PDebugAssert
          else a2 <- ca_upd a1 idx (cset_fail fidx) ;; cw_set_fails_loop n a2 idmap r
  end.

Definition carr_to_list (a : carr) : list cstate :=
  map (fun i => match nget i (ca_map a) with Some s => s | None => cstate_default end)
      (nseq 0 (N.to_nat (ca_len a))).

(* build_with_values (:147-170) with build_original_nfa_and_mapper and build_double_array *)
Definition cw_build_with_values (kind : mkind) (nfb : N) (pvs : list (list N * V))
  : res cw_automaton :=
  if nfb =? 0 then Panic PAssert
  else
    '(n0, f, present) <- cw_add_all (nfa_new V kind) {| fq_map := nempty; fq_len := 0 |} [] pvs ;;
    let mp := mapper_new f present in
    if n_len n0 =? 0 then Err InvalidArgument
    else
      n <- finish_nfa V n0 ;;
      let tbl := index_list (mp_table mp) in
      '(a0, h0, block_len) <- cw_init_array (mp_alpha mp) nfb ;;
      '(a1, h1, idmap) <- cw_dfs_loop (S (N.to_nat (n_nstates n))) tbl block_len n a0 h0
                                      (nset ROOT ROOT nempty) [ROOT] ;;
      a2 <- cw_set_fails_loop n a1 idmap (nseq 0 (N.to_nat (n_nstates n))) ;;
      if U32_MAX <? n_nstates n - 1 then Err AutomatonScale
      else Ok {| cw_states := carr_to_list a2; cw_mapper := mp; cw_outputs := n_outputs n;
                 cw_kind := kind; cw_num_states := n_nstates n - 1 |}.

Variable conv : nat -> option V.
Fixpoint cw_enumerate_conv (i : nat) (ps : list (list N)) : option (list (list N * V)) :=
  match ps with
  | [] => Some []
  | p :: r =>
    match conv i with
    | None => None
    | Some v =>
      match cw_enumerate_conv (S i) r with
      | None => None
      | Some l => Some ((p, v) :: l)
      end
    end
  end.
Definition cw_build (kind : mkind) (nfb : N) (ps : list (list N)) : res cw_automaton :=
  if nfb =? 0 then Panic PAssert
  else
    match cw_enumerate_conv 0 ps with
    | None => Err InvalidConversion
    | Some pvs => cw_build_with_values kind nfb pvs
    end.

End CwBuild.

Arguments cw_states {V} c.
Arguments cw_mapper {V} c.
Arguments cw_outputs {V} c.
Arguments cw_kind {V} c.
Arguments cw_num_states {V} c.
