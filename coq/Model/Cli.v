(* Cli.v — model of daacfind/src/main.rs: pattern list assembly, BufRead::lines, the line filter
   (find_iter) and the highlighter (no-suffix iterator + depth sweep) with termcolor's byte
   sequences as observed from the real binary.  clap, file opening and stderr are outside. *)
From DV Require Import Model.Base Model.Nfa Model.BwBuild Model.BwSearch Model.Api Model.Utf8.

Definition ESC_RESET : list N := [27; 91; 48; 109].                       (* ESC [ 0 m *)
Definition ESC_RED : list N := [27; 91; 48; 109; 27; 91; 51; 49; 109].    (* ESC [ 0 m ESC [ 3 1 m *)

Record cli_flags := { cf_color : bool; cf_lineno : bool; cf_nofilename : bool }.

(* ---- BufRead::lines(): split at LF, drop the LF and one CR before it; an unterminated last
   line is kept, an empty tail after the final LF is not a line. *)
Fixpoint split_lf (bs : list N) (cur : list N) : list (list N) :=
  match bs with
  | [] => match cur with [] => [] | _ => [rev cur] end
  | b :: r => if b =? 10 then rev cur :: split_lf r [] else split_lf r (b :: cur)
  end.
Definition drop_cr (l : list N) : list N :=
  match rev l with
  | b :: r => if b =? 13 then rev r else l
  | [] => l
  end.
(* note: for [split_lf] an unterminated empty tail is no line, which is what lines() does *)
Definition buf_lines (bs : list N) : list (list N) := map drop_cr (split_lf bs []).

(* str::split('\n') keeps empty pieces; main skips them *)
Fixpoint split_nl_all (bs : list N) (cur : list N) : list (list N) :=
  match bs with
  | [] => [rev cur]
  | b :: r => if b =? 10 then rev cur :: split_nl_all r [] else split_nl_all r (b :: cur)
  end.
Definition nonempty (l : list N) : bool := match l with [] => false | _ => true end.

(* patterns: the -f file's non-empty lines, then the non-empty pieces of the -p string *)
Definition cli_patterns (pfile : option (list N)) (pstr : option (list N)) : list (list N) :=
  (match pfile with Some f => filter nonempty (buf_lines f) | None => [] end)
  ++ (match pstr with Some s => filter nonempty (split_nl_all s []) | None => [] end).

(* format!("{n}") *)
Fixpoint dec_digits (fuel : nat) (n : N) (acc : list N) : list N :=
  match fuel with
  | O => acc
  | S f => if n <? 10 then (48 + n) :: acc else dec_digits f (n / 10) ((48 + n mod 10) :: acc)
  end.
Definition show_nat (n : nat) : list N := dec_digits 40 (N.of_nat n) [].

(* &line[a..b]: panics unless a <= b <= len and both are on character boundaries *)
Definition is_char_boundary (line : list N) (i : nat) : bool :=
  (i =? 0)%nat || (i =? length line)%nat
  || match nth_error line i with Some b => negb (is_cont b) | None => false end.
Definition slice (line : list N) (a b : nat) : res (list N) :=
  if (a <=? b)%nat && (b <=? length line)%nat && is_char_boundary line a && is_char_boundary line b
  then Ok (firstn (b - a) (skipn a line)) else Panic PIndex.

Section CliRun.
Variable A : bw_automaton unit.

Definition count_if {T} (f : T -> bool) (l : list T) : nat := length (filter f l).

(* color_counts after the loop over the no-suffix iterator *)
Definition color_count (ms : list (nat * nat * unit)) (pos : nat) : Z :=
  (Z.of_nat (count_if (fun m => (fst (fst m) =? pos)%nat) ms)
   - Z.of_nat (count_if (fun m => (snd (fst m) =? pos)%nat) ms))%Z.

Fixpoint sweep (line : list N) (ccs : list Z) (pos : nat) (depth : Z) (prev : nat) (out : list N)
  : res (list N * nat) :=
  match ccs with
  | [] => Ok (out, prev)
  | c :: r =>
    let nd := (depth + c)%Z in
    if (depth =? 0)%Z && negb (nd =? 0)%Z then
      seg <- slice line prev pos ;; sweep line r (S pos) nd pos (out ++ ESC_RESET ++ seg)
    else if negb (depth =? 0)%Z && (nd =? 0)%Z then
      seg <- slice line prev pos ;; sweep line r (S pos) nd pos (out ++ ESC_RED ++ seg)
    else sweep line r (S pos) nd prev out
  end.

(* find_and_output: None = nothing printed *)
Definition find_and_output (color : bool) (prefix line : list N) : res (option (list N)) :=
  if negb color then
    '(r, _) <- find_next unit (bw_sget unit A) (bw_oget unit A) (bw_nslots unit A) (find_init line) ;;
    match r with
    | Some _ => Ok (Some (prefix ++ line ++ [10]))
    | None => Ok None
    end
  else
    ms <- bw_find_overlapping_no_suffix_iter unit A line ;;
    if existsb (fun m => (length line <? snd (fst m))%nat) ms then Panic PIndex
    else
      match ms with
      | [] => Ok None
      | _ :: _ =>
        '(out, prev) <- sweep line (map (color_count ms) (seq 0 (S (length line)))) 0 0%Z 0 [] ;;
        tail <- slice line prev (length line) ;;
        Ok (Some (prefix ++ out ++ ESC_RESET ++ tail ++ [10]))
      end.

Definition line_prefix (fl : cli_flags) (fname : option (list N)) (i : nat) : list N :=
  (match fname with
   | Some f => if cf_nofilename fl then [] else f ++ [58]
   | None => []
   end)
  ++ (if cf_lineno fl then show_nat i ++ [58] else []).

Fixpoint run_lines (fl : cli_flags) (fname : option (list N)) (i : nat) (ls : list (list N))
  : res (list N) :=
  match ls with
  | [] => Ok []
  | l :: r =>
    o <- find_and_output (cf_color fl) (line_prefix fl fname i) l ;;
    rest <- run_lines fl fname (S i) r ;;
    Ok (match o with Some bytes => bytes ++ rest | None => rest end)
  end.

Fixpoint run_files (fl : cli_flags) (files : list (list N * list N)) : res (list N) :=
  match files with
  | [] => Ok []
  | (name, content) :: r =>
    a <- run_lines fl (Some name) 0 (buf_lines content) ;;
    b <- run_files fl r ;;
    Ok (a ++ b)
  end.
End CliRun.

(* main: Ok (stdout, exit status).  A pattern-list error ends the program with status 1 before
   anything is printed. *)
Definition cli_main (fl : cli_flags) (pfile pstr : option (list N)) (stdin : list N)
           (files : list (list N * list N)) : res (list N * N) :=
  match bw_build unit (fun _ => Some tt) Standard NFB_DEFAULT (cli_patterns pfile pstr) with
  | Err _ => Ok ([], 1)
  | Panic t => Panic t
  | UB t => UB t
  | OutOfFuel => OutOfFuel
  | Ok A =>
    out <- (match files with
            | [] => run_lines A fl None 0 (buf_lines stdin)
            | _ => run_files A fl files
            end) ;;
    Ok (out, 0)
  end.

(* ---- the property text for one line (C16), used as the oracle and in the theorems --------- *)
(* [occs] = all (start, end) with line[start..end] a pattern *)
Definition covered (occs : list (nat * nat)) (i : nat) : bool :=
  existsb (fun se => (fst se <=? i)%nat && (i <? snd se)%nat) occs.
