(* Spec.v — the reference semantics of the properties, on plain lists.  No automaton in sight.
   [occ_at] is the only notion a reader has to trust; the executable specifications below are
   related to it by the adequacy lemmas of Theory/SpecAdequacy.v. *)
From DV Require Import Model.Base.

Section Spec.
Variable V : Type.

(* haystack[s..e] *)
Definition sub (h : list N) (s e : nat) : list N := firstn (e - s) (skipn s h).

(* "haystack[s..e] is a registered pattern carrying v" *)
Definition occ_at (pvs : list (list N * V)) (h : list N) (s e : nat) (v : V) : Prop :=
  (s < e <= length h)%nat /\ In (sub h s e, v) pvs.

(* valid collections (C10) *)
Definition valid (pvs : list (list N * V)) : Prop :=
  pvs <> [] /\ Forall (fun pv => fst pv <> []) pvs /\ NoDup (map fst pvs).

(* occurrences of length l ending at e *)
Definition occs_len (pvs : list (list N * V)) (h : list N) (e l : nat) : list (nat * nat * V) :=
  map (fun pv => ((e - l)%nat, e, snd pv))
      (filter (fun pv => list_eqb (fst pv) (sub h (e - l) e)) pvs).

(* all occurrences ending at e that start at or after [from], longest first *)
Definition ends_at_from (pvs : list (list N * V)) (h : list N) (from e : nat)
  : list (nat * nat * V) :=
  flat_map (occs_len pvs h e) (rev (seq 1 (e - from))).
Definition ends_at pvs h e := ends_at_from pvs h 0 e.

(* C01 *)
Definition spec_overlapping (pvs : list (list N * V)) (h : list N) : list (nat * nat * V) :=
  flat_map (ends_at pvs h) (seq 1 (length h)).

(* C05 *)
Definition spec_nosuffix (pvs : list (list N * V)) (h : list N) : list (nat * nat * V) :=
  flat_map (fun e => firstn 1 (ends_at pvs h e)) (seq 1 (length h)).

(* C02: from [from], the least end e with an occurrence lying in h[from..], the longest one
   there; then restart at e.  [cands] enumerates the candidate ends from+1 .. length h. *)
Fixpoint first_end (pvs : list (list N * V)) (h : list N) (from : nat) (cands : list nat)
  : option (nat * nat * V) :=
  match cands with
  | [] => None
  | e :: r =>
    match ends_at_from pvs h from e with
    | m :: _ => Some m
    | [] => first_end pvs h from r
    end
  end.
Fixpoint spec_find_from (fuel : nat) (pvs : list (list N * V)) (h : list N) (from : nat)
  : list (nat * nat * V) :=
  match fuel with
  | O => []
  | S fuel' =>
    match first_end pvs h from (seq (S from) (length h - from)) with
    | None => []
    | Some (s, e, v) => (s, e, v) :: spec_find_from fuel' pvs h e
    end
  end.
Definition spec_find (pvs : list (list N * V)) (h : list N) : list (nat * nat * V) :=
  spec_find_from (S (length h)) pvs h 0.

(* occurrences starting at s *)
Fixpoint is_prefix (p t : list N) : bool :=
  match p, t with
  | [], _ => true
  | x :: p', y :: t' => (x =? y) && is_prefix p' t'
  | _ :: _, [] => false
  end.
(* C03: the longest pattern occurring at s (ties cannot occur in duplicate-free sets; first wins) *)
Definition longest_at (pvs : list (list N * V)) (h : list N) (s : nat) : option (list N * V) :=
  fold_left (fun best pv =>
               if is_prefix (fst pv) (skipn s h) then
                 match best with
                 | Some b => if (length (fst b) <? length (fst pv))%nat then Some pv else best
                 | None => Some pv
                 end
               else best) pvs None.
(* C04: the earliest registered pattern occurring at s *)
Definition first_at (pvs : list (list N * V)) (h : list N) (s : nat) : option (list N * V) :=
  find (fun pv => is_prefix (fst pv) (skipn s h)) pvs.

(* the greedy left-to-right tiling with a choice function at the leftmost start *)
Fixpoint first_start (choose : nat -> option (list N * V)) (cands : list nat)
  : option (nat * (list N * V)) :=
  match cands with
  | [] => None
  | s :: r => match choose s with Some pv => Some (s, pv) | None => first_start choose r end
  end.
Fixpoint spec_leftmost_from (fuel : nat) (choose : nat -> option (list N * V)) (hlen : nat)
         (from : nat) : list (nat * nat * V) :=
  match fuel with
  | O => []
  | S fuel' =>
    match first_start choose (seq from (hlen - from)) with
    | None => []
    | Some (s, pv) =>
      let e := (s + length (fst pv))%nat in
      (s, e, snd pv) :: spec_leftmost_from fuel' choose hlen e
    end
  end.
Definition nonempty_pats (pvs : list (list N * V)) : list (list N * V) :=
  filter (fun pv => negb (list_eqb (fst pv) [])) pvs.
Definition spec_lml (pvs : list (list N * V)) (h : list N) : list (nat * nat * V) :=
  spec_leftmost_from (S (length h)) (longest_at (nonempty_pats pvs) h) (length h) 0.
Definition spec_lmf (pvs : list (list N * V)) (h : list N) : list (nat * nat * V) :=
  spec_leftmost_from (S (length h)) (first_at (nonempty_pats pvs) h) (length h) 0.

(* patterns that survive leftmost-first shadowing: no earlier-registered proper prefix *)
Fixpoint effective_go (seen : list (list N)) (pvs : list (list N * V)) : list (list N * V) :=
  match pvs with
  | [] => []
  | (p, v) :: r =>
    if existsb (fun q => is_prefix q p && negb (list_eqb q p)) seen
    then effective_go (seen ++ [p]) r
    else (p, v) :: effective_go (seen ++ [p]) r
  end.
Definition effective (pvs : list (list N * V)) : list (list N * V) := effective_go [] pvs.

(* C15: distinct non-empty prefixes of a pattern list *)
Fixpoint prefixes_of (p : list N) : list (list N) :=   (* non-empty prefixes, shortest first *)
  match p with
  | [] => []
  | x :: r => [x] :: map (cons x) (prefixes_of r)
  end.
Fixpoint dedup (l : list (list N)) : list (list N) :=
  match l with
  | [] => []
  | x :: r => if existsb (list_eqb x) r then dedup r else x :: dedup r
  end.
Definition distinct_nonempty_prefixes (pvs : list (list N * V)) : list (list N) :=
  dedup (flat_map (fun pv => prefixes_of (fst pv)) pvs).

(* C10: what construction must answer, on the bare collection (documented size limits aside):
   None = must succeed; Some k = must return error kind k.  The first offending entry in input
   order decides between an empty pattern and a repeat. *)
Fixpoint first_offence (seen : list (list N)) (ps : list (list N)) : option errkind :=
  match ps with
  | [] => None
  | p :: r =>
    if list_eqb p [] then Some InvalidArgument
    else if existsb (list_eqb p) seen then Some DuplicatePattern
    else first_offence (p :: seen) r
  end.
Definition spec_build_error (ps : list (list N)) : option errkind :=
  match ps with
  | [] => Some InvalidArgument
  | _ => first_offence [] ps
  end.
(* the bare-pattern entry point: every input position must convert to the value type first *)
Definition spec_build_error_conv (conv : nat -> option V) (ps : list (list N)) : option errkind :=
  if forallb (fun i => isSome (conv i)) (seq 0 (length ps)) then spec_build_error ps
  else Some InvalidConversion.

End Spec.
