(* Utf8.v — UTF-8 as std guarantees it (encode, scalar values, len_utf8, str::chars) and the
   crate's hand-written end-offset decoder (src/charwise/iter.rs:65-98) with its three
   unwrap_unchecked and its from_u32_unchecked as UB branches. *)
From DV Require Import Model.Base.

Definition is_scalar (c : N) : bool := (c <? 55296) || ((57343 <? c) && (c <=? 1114111)).

(* char::len_utf8 *)
Definition len_utf8 (c : N) : N :=
  if c <? 128 then 1 else if c <? 2048 then 2 else if c <? 65536 then 3 else 4.

(* The UTF-8 encoding of one scalar value (what a &str holds; trusted std behaviour). *)
Definition encode_char (c : N) : list N :=
  if c <? 128 then [c]
  else if c <? 2048 then [192 + c / 64; 128 + c mod 64]
  else if c <? 65536 then [224 + c / 4096; 128 + (c / 64) mod 64; 128 + c mod 64]
  else [240 + c / 262144; 128 + (c / 4096) mod 64; 128 + (c / 64) mod 64; 128 + c mod 64].

Definition encode_utf8 (cs : list N) : list N := flat_map encode_char cs.

(* str::chars on a byte list (std's decoder, trusted): None when the bytes are not UTF-8. *)
Definition is_cont (b : N) : bool := (128 <=? b) && (b <? 192).
Definition decode_one (bs : list N) : option (N * list N) :=
  match bs with
  | [] => None
  | b0 :: r =>
    if b0 <? 128 then Some (b0, r)
    else if b0 <? 194 then None
    else if b0 <? 224 then
      match r with
      | b1 :: r1 => if is_cont b1 then Some ((b0 - 192) * 64 + (b1 - 128), r1) else None
      | _ => None
      end
    else if b0 <? 240 then
      match r with
      | b1 :: b2 :: r2 =>
        let c := (b0 - 224) * 4096 + (b1 - 128) * 64 + (b2 - 128) in
        if is_cont b1 && is_cont b2 && (2048 <=? c) && is_scalar c then Some (c, r2) else None
      | _ => None
      end
    else if b0 <? 245 then
      match r with
      | b1 :: b2 :: b3 :: r3 =>
        let c := (b0 - 240) * 262144 + (b1 - 128) * 4096 + (b2 - 128) * 64 + (b3 - 128) in
        if is_cont b1 && is_cont b2 && is_cont b3 && (65536 <=? c) && (c <=? 1114111)
        then Some (c, r3) else None
      | _ => None
      end
    else None
  end.

Fixpoint decode_utf8 (fuel : nat) (bs : list N) : option (list N) :=
  match bs with
  | [] => Some []
  | _ :: _ =>
    match fuel with
    | O => None
    | S fuel' =>
      match decode_one bs with
      | None => None
      | Some (c, r) =>
        match decode_utf8 fuel' r with
        | None => None
        | Some cs => Some (c :: cs)
        end
      end
    end
  end.
Definition chars_of (bs : list N) : option (list N) := decode_utf8 (length bs) bs.
Definition valid_utf8 (bs : list N) : bool := isSome (chars_of bs).

(* CharWithEndOffsetIterator::next (:72-98) over an enumerated byte source.
   Input: remaining bytes and the number already pulled.  Output: None at the end of input,
   else (end_offset, code point, remaining bytes, pulled). *)
Definition dec_next (rest : list N) (pulled : nat)
  : res (option (nat * N * list N * nat)) :=
  match rest with
  | [] => Ok None
  | first :: r0 =>
    if first <? 128 then Ok (Some (S pulled, first, r0, S pulled))
    else
      match r0 with
      | [] => UB UUnwrapNone
      | b1 :: r1 =>
        let c := N.land b1 63 in
        if first <? 224 then
          let cp := N.lor (N.shiftl (N.land first 31) 6) c in
          if is_scalar cp then Ok (Some (S (S pulled), cp, r1, S (S pulled))) else UB UBadChar
        else
          match r1 with
          | [] => UB UUnwrapNone
          | b2 :: r2 =>
            let c := N.lor (N.shiftl c 6) (N.land b2 63) in
            if first <? 240 then
              let cp := N.lor (N.shiftl (N.land first 15) 12) c in
              if is_scalar cp then Ok (Some (S (S (S pulled)), cp, r2, S (S (S pulled))))
              else UB UBadChar
            else
              match r2 with
              | [] => UB UUnwrapNone
              | b3 :: r3 =>
                let c := N.lor (N.shiftl c 6) (N.land b3 63) in
                let cp := N.lor (N.shiftl (N.land first 7) 18) c in
                if is_scalar cp
                then Ok (Some (S (S (S (S pulled))), cp, r3, S (S (S (S pulled)))))
                else UB UBadChar
              end
          end
      end
  end.
