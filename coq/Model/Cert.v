(* Cert.v — an executable certificate checker for a finished automaton (DESIGN 2.3 / 3.3 item 3).
   Given the registered pattern/value pairs it explores the automaton from the root and checks,
   node by node and directly against the *definitions*, that
     - the goto function is a finite tree closed under every label (one node per string),
     - every fail link is the longest proper suffix that is a node,
     - every output chain lists exactly the patterns that are suffixes of the node's string,
       longest first, with their values and stored lengths.
   Proofs/GenAC.v proves: checker = true  ->  for ALL haystacks the search model equals the
   specification.  The checker is extracted and run on the arrays the implementation itself
   serialised, so the search properties are decided per built automaton for all haystacks. *)
From DV Require Import Model.Base Model.Nfa Model.BwBuild Model.BwSearch Model.Spec Model.Utf8 Model.CwBuild Model.CwSearch.

Fixpoint tails (w : list N) : list (list N) :=
  w :: match w with [] => [] | _ :: r => tails r end.

(* the last k elements *)
Definition lastn (k : nat) (w : list N) : list N := skipn (length w - k) w.

Definition is_nil (w : list N) : bool := match w with [] => true | _ => false end.
Definition optN_eqb (a b : option N) : bool :=
  match a, b with
  | Some x, Some y => x =? y
  | None, None => true
  | _, _ => false
  end.

Section GenCert.
Variable V : Type.
Variable veqb : V -> V -> bool.
(* the automaton, abstractly: goto on raw labels, fail, output position, output table *)
Variable child : N -> N -> res (option N).
Variable failof : N -> res N.
Variable outposof : N -> res N.
Variable outat : N -> res (output V).
Variable labels : list N.            (* every label on which [child] can answer Some *)
Variable plen : list N -> N.         (* the length stored with a pattern (bytes) *)
Variable pvs : list (list N * V).

Fixpoint walk (s : N) (w : list N) : option N :=
  match w with
  | [] => Some s
  | c :: r => match child s c with Ok (Some t) => walk t r | _ => None end
  end.
Definition inT (w : list N) : bool := isSome (walk ROOT w).
(* the longest suffix of w that is a node *)
Definition lsuf (w : list N) : list N :=
  match find inT (tails w) with Some u => u | None => [] end.

(* follow parent links from an output position (0 = end) *)
Fixpoint chain (fuel : nat) (pos : N) : res (list (output V)) :=
  if pos =? 0 then Ok []
  else match fuel with
       | O => OutOfFuel
       | S f => o <- outat pos ;; r <- chain f (o_parent o) ;; Ok (o :: r)
       end.

(* the patterns that are suffixes of u, longest first: (stored length, value) *)
Definition pats_eq (v : list N) : list (N * V) :=
  map (fun pv => (plen (fst pv), snd pv)) (filter (fun pv => list_eqb (fst pv) v) pvs).
Definition sufpats (u : list N) : list (N * V) :=
  flat_map (fun k => pats_eq (lastn k u)) (rev (seq 1 (length u))).

Fixpoint outs_eqb (os : list (output V)) (ex : list (N * V)) : bool :=
  match os, ex with
  | [], [] => true
  | o :: os', (l, v) :: ex' => (o_length o =? l) && veqb (o_value o) v && outs_eqb os' ex'
  | _, _ => false
  end.

(* ---- the checks ----------------------------------------------------------------------------- *)
(* on one node: s is the state reached from the root by the string u *)
Definition local_ok (maxdepth nouts : nat) (s : N) (u : list N) : bool :=
  (negb (s =? ROOT) || is_nil u)
  && (length u <? maxdepth)%nat
  && (is_nil u
      || match failof s with
         | Ok f => optN_eqb (walk ROOT (lsuf (tl u))) (Some f)
         | _ => false
         end)
  && match outposof s with
     | Ok p => match chain (S nouts) p with
               | Ok os => outs_eqb os (sufpats u) && (length os <=? nouts)%nat
               | _ => false
               end
     | _ => false
     end.

(* the whole goto tree below (s, u), by recursion on the depth still allowed: every label's child
   answers without UB and is itself a checked node *)
Fixpoint tree_ok (fuel : nat) (maxdepth nouts : nat) (s : N) (u : list N) : bool :=
  match fuel with
  | O => false
  | S f =>
    local_ok maxdepth nouts s u
    && forallb (fun c => match child s c with
                         | Ok (Some t) => tree_ok f maxdepth nouts t (u ++ [c])
                         | Ok None => true
                         | _ => false
                         end) labels
  end.

Definition max_plen : nat := fold_left (fun m pv => Nat.max m (length (fst pv))) pvs 0%nat.

(* the whole certificate: the tree below the root passes (no node is deeper than the longest
   pattern), every pattern is non-empty and is a node *)
Definition cert_ok (nslots nouts : nat) : bool :=
  tree_ok (S max_plen) (S nslots) nouts ROOT []
  && forallb (fun pv => negb (is_nil (fst pv)) && inT (fst pv)) pvs.

(* number of nodes of the goto tree (C15: the states reachable from the root) *)
Fixpoint tree_count (fuel : nat) (s : N) : N :=
  match fuel with
  | O => 0
  | S f =>
    fold_left (fun acc c => match child s c with Ok (Some t) => acc + tree_count f t | _ => acc end)
              labels 1
  end.
Definition cert_count : N := tree_count (S max_plen) ROOT.

(* the strings of all nodes of the goto tree below (s, u) (C15; used in proofs only) *)
Fixpoint tree_nodes (fuel : nat) (s : N) (u : list N) : list (list N) :=
  match fuel with
  | O => []
  | S f =>
    u :: flat_map (fun c => match child s c with
                            | Ok (Some t) => tree_nodes f t (u ++ [c])
                            | _ => []
                            end) labels
  end.

(* ---- leftmost automata (C03/C04) ------------------------------------------------------------ *)
(* some pattern occurs in u starting at offset k *)
Definition occurs_at (u : list N) (k : nat) : bool :=
  existsb (fun pv => is_prefix (fst pv) (skipn k u)) pvs.
(* the least start of a pattern occurrence inside u *)
Definition mu0 (u : list N) : option nat := find (occurs_at u) (seq 0 (length u)).
(* following the textbook fail link of u would drop the start of the leftmost occurrence in u *)
Definition lm_dead (u : list N) : bool :=
  match mu0 u with
  | Some m => (m <? length u - length (lsuf (tl u)))%nat
  | None => false
  end.
(* the pattern that is the suffix of u starting at mu0 u, if there is one *)
Definition lm_out (u : list N) : option (N * V) :=
  match mu0 u with
  | Some m => match pats_eq (skipn m u) with x :: _ => Some x | [] => None end
  | None => None
  end.

Definition lm_local_ok (maxdepth : nat) (s : N) (u : list N) : bool :=
  (negb (s =? ROOT) || is_nil u)
  && negb (s =? DEAD)
  && (length u <? maxdepth)%nat
  && (is_nil u
      || match failof s with
         | Ok f => if lm_dead u then f =? DEAD
                   else optN_eqb (walk ROOT (lsuf (tl u))) (Some f)
         | _ => false
         end)
  && match outposof s with
     | Ok p => match lm_out u with
               | None => p =? 0
               | Some lv => negb (p =? 0)
                            && match outat p with
                               | Ok o => (o_length o =? fst lv) && veqb (o_value o) (snd lv)
                               | _ => false
                               end
               end
     | _ => false
     end.

Fixpoint lm_tree_ok (fuel : nat) (maxdepth : nat) (s : N) (u : list N) : bool :=
  match fuel with
  | O => false
  | S f =>
    lm_local_ok maxdepth s u
    && forallb (fun c => match child s c with
                         | Ok (Some t) => lm_tree_ok f maxdepth t (u ++ [c])
                         | Ok None => true
                         | _ => false
                         end) labels
  end.

Fixpoint nodupb (l : list (list N)) : bool :=
  match l with
  | [] => true
  | x :: r => negb (existsb (list_eqb x) r) && nodupb r
  end.

Definition lm_cert_ok (nslots : nat) : bool :=
  lm_tree_ok (S max_plen) (S nslots) ROOT []
  && forallb (fun pv => negb (is_nil (fst pv)) && inT (fst pv)) pvs
  && nodupb (map fst pvs).

(* ---- the search loops, abstractly (the concrete models are proved equal to these) -------- *)
Variable skip : N -> bool.           (* labels on which next_state answers ROOT at once *)

Fixpoint g_next (fuel : nat) (s c : N) : res N :=
  match fuel with
  | O => OutOfFuel
  | S f =>
    ch <- child s c ;;
    match ch with
    | Some t => Ok t
    | None => if s =? ROOT then Ok ROOT else s' <- failof s ;; g_next f s' c
    end
  end.
Definition g_step (fuel : nat) (s c : N) : res N :=
  if skip c then Ok ROOT else g_next fuel s c.

Fixpoint g_next_lm (fuel : nat) (s c : N) : res N :=
  match fuel with
  | O => OutOfFuel
  | S f =>
    ch <- child s c ;;
    match ch with
    | Some t => Ok t
    | None =>
      if s =? ROOT then Ok ROOT
      else s' <- failof s ;; if s' =? DEAD then Ok ROOT else g_next_lm f s' c
    end
  end.

(* the same loop on strings: None = a dead link was met (the search falls back to the root) *)
Fixpoint lm_str (fuel : nat) (u : list N) (c : N) : option (list N) :=
  match fuel with
  | O => None
  | S f =>
    if inT (u ++ [c]) then Some (u ++ [c])
    else match u with
         | [] => Some []
         | _ :: r => if lm_dead u then None else lm_str f (lsuf r) c
         end
  end.

End GenCert.

(* ---- instantiation: byte-wise automaton -------------------------------------------------- *)
Section BwCert.
Variable V : Type.
Variable veqb : V -> V -> bool.
(* the two arrays as lookup functions (built once per automaton, see [bw_cert_ok]) *)
Variable sget : N -> option bstate.
Variable oget : N -> option (output V).

Definition bwc_child (s c : N) : res (option N) :=
  if c <? 256 then bw_child sget s c else Ok None.
Definition bwc_failof (s : N) : res N := st <- st_at sget s ;; Ok (b_fail st).
Definition bwc_outposof (s : N) : res N := st <- st_at sget s ;; Ok (b_outpos st).
Definition bwc_outat (pos : N) : res (output V) := out_at V oget pos.
Definition byte_labels : list N := nseq 0 256.
Definition bwc_plen (p : list N) : N := N.of_nat (length p).

Definition bwc_cert_ok (pvs : list (list N * V)) (nslots nouts : nat) : bool :=
  cert_ok V veqb bwc_child bwc_failof bwc_outposof bwc_outat byte_labels bwc_plen pvs nslots nouts.
End BwCert.

Definition bw_lm_cert_ok {V} (veqb : V -> V -> bool) (A : bw_automaton V) (pvs : list (list N * V)) : bool :=
  let sget := bw_sget V A in
  let oget := bw_oget V A in
  is_leftmost (bw_kind A)
  && lm_cert_ok V veqb (bwc_child sget) (bwc_failof sget) (bwc_outposof sget) (bwc_outat V oget) byte_labels bwc_plen pvs
                (length (bw_states A)).

Definition bw_cert_ok {V} (veqb : V -> V -> bool) (A : bw_automaton V) (pvs : list (list N * V)) : bool :=
  let sget := bw_sget V A in
  let oget := bw_oget V A in
  is_standard (bw_kind A)
  && bwc_cert_ok V veqb sget oget pvs (length (bw_states A)) (length (bw_outputs A)).
Definition bw_cert_count {V} (A : bw_automaton V) (pvs : list (list N * V)) : N :=
  let sget := bw_sget V A in
  cert_count V (bwc_child sget) byte_labels pvs.

(* ---- C07: a range check that makes every unchecked read of the byte-wise search in-range ----
   (array length a positive multiple of 256; every base is None or below the length; every fail
   below the length; every output position / parent at most the number of outputs).
   Proofs/BwSafe.v: check = true -> no search method reaches a UB branch on any bytes. *)
Definition bw_slot_ok (len nout : N) (s : bstate) : bool :=
  ((b_base s =? 0) || (b_base s <? len)) && (b_fail s <? len) && (b_outpos s <=? nout).
Definition bw_safe_b {V} (A : bw_automaton V) : bool :=
  let len := N.of_nat (length (bw_states A)) in
  let nout := N.of_nat (length (bw_outputs A)) in
  (0 <? len) && (len mod 256 =? 0)
  && forallb (bw_slot_ok len nout) (bw_states A)
  && forallb (fun o => o_parent o <=? nout) (bw_outputs A).

(* ---- C15: the reported statistics against the certified goto tree -------------------------- *)
Definition bw_stats_ok {V} (A : bw_automaton V) (pvs : list (list N * V)) : bool :=
  let cnt := bw_cert_count A pvs in
  (bw_num_states A =? cnt)
  && (cnt =? 1 + N.of_nat (length (Spec.distinct_nonempty_prefixes V pvs)))
  && (bw_num_states A <=? N.of_nat (length (bw_states A))).

(* ---- instantiation: character-wise automaton ------------------------------------------------ *)
(* labels are Unicode scalar values; the goto function goes through the code mapper *)
Section CwCert.
Variable V : Type.
Variable veqb : V -> V -> bool.
Variable sget : N -> option cstate.
Variable oget : N -> option (output V).
Variable tget : N -> option N.

Definition cwc_child (s c : N) : res (option N) :=
  match mapper_get tget c with
  | Some mc => cw_child sget s mc
  | None => Ok None
  end.
Definition cwc_failof (s : N) : res N := st <- cst_at sget s ;; Ok (c_fail st).
Definition cwc_outposof (s : N) : res N := st <- cst_at sget s ;; Ok (c_outpos st).
Definition cwc_outat (pos : N) : res (output V) := cout_at V oget pos.
(* the stored length of a pattern is its length in bytes *)
Definition cwc_plen (p : list N) : N := fold_left (fun acc c => acc + len_utf8 c) p 0.
(* the characters the mapper knows *)
Definition cwc_labels (tlen : nat) : list N :=
  filter (fun c => isSome (mapper_get tget c)) (nseq 0 tlen).

Definition cwc_cert_ok (pvs : list (list N * V)) (tlen nslots nouts : nat) : bool :=
  cert_ok V veqb cwc_child cwc_failof cwc_outposof cwc_outat (cwc_labels tlen) cwc_plen pvs nslots nouts.
End CwCert.

Definition cw_cert_ok {V} (veqb : V -> V -> bool) (A : cw_automaton V) (pvs : list (list N * V)) : bool :=
  let sget := cw_sget V A in
  let oget := cw_oget V A in
  let tget := cw_tget V A in
  is_standard (cw_kind A)
  && cwc_cert_ok V veqb sget oget tget pvs (length (mp_table (cw_mapper A))) (length (cw_states A)) (length (cw_outputs A)).

Definition cw_lm_cert_ok {V} (veqb : V -> V -> bool) (A : cw_automaton V) (pvs : list (list N * V)) : bool :=
  let sget := cw_sget V A in
  let oget := cw_oget V A in
  let tget := cw_tget V A in
  is_leftmost (cw_kind A)
  && lm_cert_ok V veqb (cwc_child sget tget) (cwc_failof sget) (cwc_outposof sget) (cwc_outat V oget)
                (cwc_labels tget (length (mp_table (cw_mapper A)))) cwc_plen pvs (length (cw_states A)).

(* ---- C07, character-wise: the range check ---------------------------------------------------- *)
Definition cw_slot_ok (len nout : N) (s : cstate) : bool :=
  ((c_base s =? 0) || (c_base s <? len)) && (c_fail s <? len) && (c_outpos s <=? nout).
Definition cw_safe_b {V} (A : cw_automaton V) : bool :=
  let len := N.of_nat (length (cw_states A)) in
  let nout := N.of_nat (length (cw_outputs A)) in
  let bl := N.max (next_power_of_two (mp_alpha (cw_mapper A))) 2 in
  (1 <? len) && (2 ^ N.log2 bl =? bl) && (len mod bl =? 0)
  && forallb (fun code => (code =? INVALID_CODE) || (code <? bl)) (mp_table (cw_mapper A))
  && forallb (cw_slot_ok len nout) (cw_states A)
  && forallb (fun o => o_parent o <=? nout) (cw_outputs A).
