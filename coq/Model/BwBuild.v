(* BwBuild.v — model of src/bytewise/builder.rs and of the State type of src/bytewise.rs. *)
From DV Require Import Model.Base Model.Nfa Model.Helper.

(* U24nU8 (intpack.rs): one u32 holding a 24-bit value [a] and a byte [b]. *)
Definition pk_a (x : N) : N := N.shiftr x 8.
Definition pk_b (x : N) : N := N.land x 255.
Definition pk_set_a (x a : N) : N := N.lor (N.shiftl a 8) (pk_b x).
Definition pk_set_b (x b : N) : N := N.lor (N.shiftl (pk_a x) 8) b.

(* bytewise::State. base: 0 = None. *)
Record bstate := { b_base : N; b_fail : N; b_opos_ch : N }.
Definition bstate_default : bstate := {| b_base := 0; b_fail := 0; b_opos_ch := 0 |}.
Definition b_check (s : bstate) : N := pk_b (b_opos_ch s).
Definition b_outpos (s : bstate) : N := pk_a (b_opos_ch s).

Definition bstate_eqb (x y : bstate) : bool :=
  (b_base x =? b_base y) && (b_fail x =? b_fail y) && (b_opos_ch x =? b_opos_ch y).

Section BwBuild.
Variable V : Type.

(* DoubleArrayAhoCorasick<V> *)
Record bw_automaton := {
  bw_states : list bstate;
  bw_outputs : list (output V);
  bw_kind : mkind;
  bw_num_states : N
}.

(* The builder's growing array: Vec<State> as map + length; absent = State::default(). *)
Record barr := { ba_map : nmap bstate; ba_len : N }.

Definition ba_get (a : barr) (i : N) : res bstate :=
  if i <? ba_len a then
    Ok (match nget i (ba_map a) with Some s => s | None => bstate_default end)
  else Panic PIndex.
Definition ba_upd (a : barr) (i : N) (f : bstate -> bstate) : res barr :=
  s <- ba_get a i ;;
  Ok {| ba_map := nset i (f s) (ba_map a); ba_len := ba_len a |}.

Definition set_check (c : N) (s : bstate) : bstate :=
  {| b_base := b_base s; b_fail := b_fail s; b_opos_ch := pk_set_b (b_opos_ch s) c |}.
Definition set_base (b : N) (s : bstate) : bstate :=
  {| b_base := b; b_fail := b_fail s; b_opos_ch := b_opos_ch s |}.
Definition set_bfail (f : N) (s : bstate) : bstate :=
  {| b_base := b_base s; b_fail := f; b_opos_ch := b_opos_ch s |}.
Definition set_outpos (p : N) (s : bstate) : bstate :=
  {| b_base := b_base s; b_fail := b_fail s; b_opos_ch := pk_set_a (b_opos_ch s) p |}.

(* check_valid_base (:348-359) *)
Fixpoint all_indices_free (h : helper) (base : N) (labels : list N) : res bool :=
  match labels with
  | [] => Ok true
  | c :: r =>
    u <- is_used_index h (N.lxor base c) ;;
    if u then Ok false else all_indices_free h base r
  end.
Definition check_valid_base (h : helper) (base : N) (labels : list N) : res (option N) :=
  ub <- is_used_base h base ;;
  if ub then Ok None
  else
    free <- all_indices_free h base labels ;;
    if free then Ok (if base =? 0 then None else Some base) else Ok None.

(* find_base (:336-345): walk the vacant list *)
Fixpoint find_base_loop (fuel : nat) (h : helper) (cur : option N) (l0 : N) (labels : list N)
  : res (option N) :=
  match cur with
  | None => Ok None
  | Some idx =>
    match fuel with
    | O => OutOfFuel
    | S fuel' =>
      nxt <- vacant_next h idx ;;
      r <- check_valid_base h (N.lxor idx l0) labels ;;
      match r with
      | Some b => Ok (Some b)
      | None => find_base_loop fuel' h nxt l0 labels
      end
    end
  end.
Definition find_base (a : barr) (h : helper) (labels : list N) : res N :=
  match labels with
  | [] => Panic PIndex
  | l0 :: _ =>
    r <- find_base_loop (S (N.to_nat (h_cap h))) h (h_head h) l0 labels ;;
    match r with
    | Some b => Ok b
    | None =>
      if U32_MAX <? ba_len a then Panic PUnwrap
      else if ba_len a =? 0 then Panic PUnwrap
      else Ok (ba_len a)
    end
  end.

(* remove_invalid_checks (:380-389) *)
Fixpoint ric_loop (a : barr) (h : helper) (ub : N) (cs : list N) : res barr :=
  match cs with
  | [] => Ok a
  | c :: r =>
    let idx := N.lxor ub c in
    doit <- (if (idx =? ROOT) || (idx =? DEAD) then Ok true
             else u <- is_used_index h idx ;; Ok (negb u)) ;;
    if doit then a' <- ba_upd a idx (set_check c) ;; ric_loop a' h ub r
    else ric_loop a h ub r
  end.
Definition remove_invalid_checks (a : barr) (h : helper) (block_idx : N) : res barr :=
  ub <- unused_base_in_block h block_idx ;;
  match ub with
  | Some u => ric_loop a h u (nseq 0 256)
  | None => Ok a
  end.

(* extend_array (:361-377) *)
Definition extend_array (a : barr) (h : helper) : res (barr * helper) :=
  if U32_MAX - BLOCK_LEN <? ba_len a then Err AutomatonScale
  else
    a1 <- match dropped_block h with
          | Some cb => remove_invalid_checks a h cb
          | None => Ok a
          end ;;
    h1 <- push_block h ;;
    Ok ({| ba_map := ba_map a1; ba_len := ba_len a1 + BLOCK_LEN |}, h1).

(* init_array (:325-333) *)
Definition init_array (nfb : N) : res (barr * helper) :=
  h0 <- helper_new BLOCK_LEN nfb ;;
  h1 <- match push_block h0 with
        | Ok h => Ok h
        | Err _ => Panic PUnwrap
        | Panic t => Panic t
        | UB t => UB t
        | OutOfFuel => OutOfFuel
        end ;;
  h2 <- use_index h1 ROOT ;;
  h3 <- use_index h2 DEAD ;;
  Ok ({| ba_map := nempty; ba_len := BLOCK_LEN |}, h3).

(* state_id_map: Vec<u32> initialised with DEAD_STATE_IDX *)
Definition idmap_get (m : nmap N) (len : N) (i : N) : res N :=
  if i <? len then Ok (match nget i m with Some x => x | None => DEAD end) else Panic PIndex.

(* for (&c, &child_id) in &s.edges (:284-290) *)
Fixpoint place_children (a : barr) (h : helper) (idmap : nmap N) (nst : N) (base : N)
         (es : list (N * N)) (stack : list N)
  : res (barr * helper * nmap N * list N) :=
  match es with
  | [] => Ok (a, h, idmap, stack)
  | (c, child) :: r =>
    let child_idx := N.lxor base c in
    h' <- use_index h child_idx ;;
    a' <- ba_upd a child_idx (set_check c) ;;
    if child <? nst then
      place_children a' h' (nset child child_idx idmap) nst base r (child :: stack)
    else Panic PIndex
  end.

(* while let Some(state_id) = stack.pop() (:264-293); the stack's top is the list head *)
Fixpoint dfs_loop (fuel : nat) (n : nfa V) (a : barr) (h : helper) (idmap : nmap N)
         (stack : list N) : res (barr * helper * nmap N) :=
  match stack with
  | [] => Ok (a, h, idmap)
  | sid :: stack' =>
    match fuel with
    | O => OutOfFuel
    | S fuel' =>
      if sid =? DEAD then Panic PDebugAssert
      else
        st <- nfa_get V n sid ;;
        sidx <- idmap_get idmap (n_nstates n) sid ;;
        if sidx =? DEAD then Panic PDebugAssert
        else
          match n_edges st with
          | [] => dfs_loop fuel' n a h idmap stack'
          | _ :: _ =>
            let labels := map fst (n_edges st) in
            base <- find_base a h labels ;;
            '(a1, h1) <- (if ba_len a <=? base then extend_array a h else Ok (a, h)) ;;
            '(a2, h2, idmap2, stack2) <-
               place_children a1 h1 idmap (n_nstates n) base (n_edges st) stack' ;;
            a3 <- ba_upd a2 sidx (set_base base) ;;
            h3 <- use_base h2 base ;;
            dfs_loop fuel' n a3 h3 idmap2 stack2
          end
    end
  end.

(* "Sets fail & output_pos values" (:296-315) *)
Fixpoint set_fails_loop (n : nfa V) (a : barr) (idmap : nmap N) (ids : list N) : res barr :=
  match ids with
  | [] => Ok a
  | i :: r =>
    if i =? DEAD then set_fails_loop n a idmap r
    else
      idx <- idmap_get idmap (n_nstates n) i ;;
      if idx =? DEAD then Panic PDebugAssert
      else
        st <- nfa_get V n i ;;
        if U24_MAX <? n_outpos st then Err AutomatonScale
        else
          a1 <- ba_upd a idx (set_outpos (n_outpos st)) ;;
          if n_fail st =? DEAD then
            a2 <- ba_upd a1 idx (set_bfail DEAD) ;; set_fails_loop n a2 idmap r
          else
            fidx <- idmap_get idmap (n_nstates n) (n_fail st) ;;
            if fidx =? DEAD then Panic PDebugAssert
            else a2 <- ba_upd a1 idx (set_bfail fidx) ;; set_fails_loop n a2 idmap r
  end.

Fixpoint ric_blocks (a : barr) (h : helper) (blocks : list N) : res barr :=
  match blocks with
  | [] => Ok a
  | b :: r => a' <- remove_invalid_checks a h b ;; ric_blocks a' h r
  end.

Definition barr_to_list (a : barr) : list bstate :=
  map (fun i => match nget i (ba_map a) with Some s => s | None => bstate_default end)
      (nseq 0 (N.to_nat (ba_len a))).

(* build_double_array (:254-323) *)
Definition build_double_array (nfb : N) (n : nfa V) : res (list bstate) :=
  '(a0, h0) <- init_array nfb ;;
  '(a1, h1, idmap) <- dfs_loop (S (N.to_nat (n_nstates n))) n a0 h0 (nset ROOT ROOT nempty) [ROOT] ;;
  a2 <- set_fails_loop n a1 idmap (nseq 0 (N.to_nat (n_nstates n))) ;;
  a3 <- ric_blocks a2 h1
          (nseq (active_block_start h1) (N.to_nat (h_nblocks h1 - active_block_start h1))) ;;
  Ok (barr_to_list a3).

Fixpoint add_all (lbytes : N -> N) (n : nfa V) (pvs : list (list N * V)) : res (nfa V) :=
  match pvs with
  | [] => Ok n
  | (p, v) :: r => n' <- add V lbytes n p v ;; add_all lbytes n' r
  end.

(* build_sparse_nfa (:230-252) *)
Definition bw_build_sparse_nfa (kind : mkind) (pvs : list (list N * V)) : res (nfa V) :=
  n <- add_all (fun _ => 1) (nfa_new V kind) pvs ;;
  if n_len n =? 0 then Err InvalidArgument
  else if U24_MAX <? n_len n then Err AutomatonScale
  else finish_nfa V n.

(* build_with_values (:209-228); nfb >= 1 is asserted by num_free_blocks() (:112) *)
Definition bw_build_with_values (kind : mkind) (nfb : N) (pvs : list (list N * V))
  : res bw_automaton :=
  if nfb =? 0 then Panic PAssert
  else
    n <- bw_build_sparse_nfa kind pvs ;;
    sts <- build_double_array nfb n ;;
    if U32_MAX <? n_nstates n - 1 then Err AutomatonScale
    else Ok {| bw_states := sts; bw_outputs := n_outputs n; bw_kind := kind;
               bw_num_states := n_nstates n - 1 |}.

(* build (:154-169): values are the input positions converted with V::try_from(usize) *)
Variable conv : nat -> option V.
Fixpoint enumerate_conv (i : nat) (ps : list (list N)) : option (list (list N * V)) :=
  match ps with
  | [] => Some []
  | p :: r =>
    match conv i with
    | None => None
    | Some v =>
      match enumerate_conv (S i) r with
      | None => None
      | Some l => Some ((p, v) :: l)
      end
    end
  end.
Definition bw_build (kind : mkind) (nfb : N) (ps : list (list N)) : res bw_automaton :=
  if nfb =? 0 then Panic PAssert
  else
    match enumerate_conv 0 ps with
    | None => Err InvalidConversion
    | Some pvs => bw_build_with_values kind nfb pvs
    end.

End BwBuild.

Arguments bw_states {V} b.
Arguments bw_outputs {V} b.
Arguments bw_kind {V} b.
Arguments bw_num_states {V} b.
