(* BwSearch.v — model of the transition functions of src/bytewise.rs (:654-706) and of the four
   iterators of src/bytewise/iter.rs, as pull-style state machines over an explicit byte source.
   Every get_unchecked is a UB branch guarded by the real bound; transition loops are counted. *)
From DV Require Import Model.Base Model.Nfa Model.BwBuild.

Section BwSearch.
Variable V : Type.

(* A reported match: Match { length, end, value } (lib.rs). start() = end - length. *)
Record mtch := { m_length : N; m_end : nat; m_value : V }.

(* The automaton as the search code sees it: two arrays read without bounds checks. *)
Variable sget : N -> option bstate.         (* states.get(i) *)
Variable oget : N -> option (output V).     (* outputs.get(i) *)
Variable nslots : N.                        (* states.len(), only used as loop fuel *)

Definition st_at (i : N) : res bstate :=
  match sget i with Some s => Ok s | None => UB UStateIndex end.
Definition out_at (pos : N) : res (output V) :=     (* outputs.get_unchecked(pos - 1), pos > 0 *)
  match oget (pos - 1) with Some o => Ok o | None => UB UOutputIndex end.

(* child_index_unchecked (:654-666) *)
Definition bw_child (s c : N) : res (option N) :=
  st <- st_at s ;;
  if b_base st =? 0 then Ok None
  else
    let child := N.lxor (b_base st) c in
    cs <- st_at child ;;
    Ok (if b_check cs =? c then Some child else None).

(* next_state_id_unchecked (:672-684); returns the new state and the number of loop iterations *)
Fixpoint bw_next_state (fuel : nat) (s c : N) (ticks : N) : res (N * N) :=
  match fuel with
  | O => OutOfFuel
  | S fuel' =>
    ch <- bw_child s c ;;
    match ch with
    | Some t => Ok (t, ticks + 1)
    | None =>
      if s =? ROOT then Ok (ROOT, ticks + 1)
      else st <- st_at s ;; bw_next_state fuel' (b_fail st) c (ticks + 1)
    end
  end.

(* next_state_id_leftmost_unchecked (:690-706) *)
Fixpoint bw_next_state_lm (fuel : nat) (s c : N) (ticks : N) : res (N * N) :=
  match fuel with
  | O => OutOfFuel
  | S fuel' =>
    ch <- bw_child s c ;;
    match ch with
    | Some t => Ok (t, ticks + 1)
    | None =>
      if s =? ROOT then Ok (ROOT, ticks + 1)
      else
        st <- st_at s ;;
        if b_fail st =? DEAD then Ok (ROOT, ticks + 1)
        else bw_next_state_lm fuel' (b_fail st) c (ticks + 1)
    end
  end.

Definition fuel0 : nat := S (N.to_nat nslots).

(* --- byte sources ------------------------------------------------------------------------ *)
(* Enumerate<P>: [rest] is what the underlying iterator still holds, [pulled] how many items
   have been taken from it. *)
Record src := { s_rest : list N; s_pulled : nat }.
Definition src_of (h : list N) : src := {| s_rest := h; s_pulled := 0 |}.

(* --- FindIterator (:49-85) ---------------------------------------------------------------- *)
Record find_it := { f_src : src; f_ticks : N }.

Fixpoint find_scan (rest : list N) (pulled : nat) (state : N) (ticks : N)
  : res (option mtch * find_it) :=
  match rest with
  | [] => Ok (None, {| f_src := {| s_rest := []; s_pulled := pulled |}; f_ticks := ticks |})
  | c :: rest' =>
    '(state', ticks') <- bw_next_state fuel0 state c ticks ;;
    st <- st_at state' ;;
    if b_outpos st =? 0 then find_scan rest' (S pulled) state' ticks'
    else
      out <- out_at (b_outpos st) ;;
      Ok (Some {| m_length := o_length out; m_end := S pulled; m_value := o_value out |},
          {| f_src := {| s_rest := rest'; s_pulled := S pulled |}; f_ticks := ticks' |})
  end.
Definition find_next (it : find_it) : res (option mtch * find_it) :=
  find_scan (s_rest (f_src it)) (s_pulled (f_src it)) ROOT (f_ticks it).
Definition find_init (h : list N) : find_it := {| f_src := src_of h; f_ticks := 0 |}.

(* --- FindOverlappingIterator (:96-148) ---------------------------------------------------- *)
Record ovl_it := { v_src : src; v_state : N; v_pos : nat; v_outpos : N; v_ticks : N }.

Fixpoint ovl_scan (rest : list N) (pulled : nat) (state : N) (pos : nat) (ticks : N)
  : res (option mtch * ovl_it) :=
  match rest with
  | [] => Ok (None, {| v_src := {| s_rest := []; s_pulled := pulled |}; v_state := state;
                       v_pos := pos; v_outpos := 0; v_ticks := ticks |})
  | c :: rest' =>
    '(state', ticks') <- bw_next_state fuel0 state c ticks ;;
    st <- st_at state' ;;
    if b_outpos st =? 0 then ovl_scan rest' (S pulled) state' pos ticks'
    else
      out <- out_at (b_outpos st) ;;
      Ok (Some {| m_length := o_length out; m_end := S pulled; m_value := o_value out |},
          {| v_src := {| s_rest := rest'; s_pulled := S pulled |}; v_state := state';
             v_pos := S pulled; v_outpos := o_parent out; v_ticks := ticks' |})
  end.
Definition ovl_next (it : ovl_it) : res (option mtch * ovl_it) :=
  if v_outpos it =? 0 then
    ovl_scan (s_rest (v_src it)) (s_pulled (v_src it)) (v_state it) (v_pos it) (v_ticks it)
  else
    out <- out_at (v_outpos it) ;;
    Ok (Some {| m_length := o_length out; m_end := v_pos it; m_value := o_value out |},
        {| v_src := v_src it; v_state := v_state it; v_pos := v_pos it;
           v_outpos := o_parent out; v_ticks := v_ticks it |}).
Definition ovl_init (h : list N) : ovl_it :=
  {| v_src := src_of h; v_state := ROOT; v_pos := 0; v_outpos := 0; v_ticks := 0 |}.

(* --- FindOverlappingNoSuffixIterator (:157-192) ------------------------------------------- *)
Record nos_it := { x_src : src; x_state : N; x_ticks : N }.

Fixpoint nos_scan (rest : list N) (pulled : nat) (state : N) (ticks : N)
  : res (option mtch * nos_it) :=
  match rest with
  | [] => Ok (None, {| x_src := {| s_rest := []; s_pulled := pulled |}; x_state := state;
                       x_ticks := ticks |})
  | c :: rest' =>
    '(state', ticks') <- bw_next_state fuel0 state c ticks ;;
    st <- st_at state' ;;
    if b_outpos st =? 0 then nos_scan rest' (S pulled) state' ticks'
    else
      out <- out_at (b_outpos st) ;;
      Ok (Some {| m_length := o_length out; m_end := S pulled; m_value := o_value out |},
          {| x_src := {| s_rest := rest'; s_pulled := S pulled |}; x_state := state';
             x_ticks := ticks' |})
  end.
Definition nos_next (it : nos_it) : res (option mtch * nos_it) :=
  nos_scan (s_rest (x_src it)) (s_pulled (x_src it)) (x_state it) (x_ticks it).
Definition nos_init (h : list N) : nos_it := {| x_src := src_of h; x_state := ROOT; x_ticks := 0 |}.

(* --- LestmostFindIterator (:204-264): works on the whole slice, keeps only [pos] ----------- *)
Record lm_it := { l_hay : list N; l_pos : nat; l_ticks : N }.

(* the for loop: [rest] = haystack[i..], [i] = index of the next byte *)
Fixpoint lm_scan (rest : list N) (i : nat) (state : N) (last : N) (selfpos : nat) (ticks : N)
  : res (option (N * nat) * nat * N) :=      (* (Some (output_pos, end)), new self.pos, ticks *)
  match rest with
  | [] => Ok (if last =? 0 then None else Some (last, selfpos), selfpos, ticks)
  | c :: rest' =>
    '(state', ticks') <- bw_next_state_lm fuel0 state c ticks ;;
    if state' =? ROOT then
      if last =? 0 then lm_scan rest' (S i) state' last selfpos ticks'
      else Ok (Some (last, selfpos), selfpos, ticks')
    else
      st <- st_at state' ;;
      if b_outpos st =? 0 then lm_scan rest' (S i) state' last selfpos ticks'
      else lm_scan rest' (S i) state' (b_outpos st) (S i) ticks'
  end.
Definition lm_next (it : lm_it) : res (option mtch * lm_it) :=
  '(r, pos', ticks') <- lm_scan (skipn (l_pos it) (l_hay it)) (l_pos it) ROOT 0 (l_pos it)
                                (l_ticks it) ;;
  let it' := {| l_hay := l_hay it; l_pos := pos'; l_ticks := ticks' |} in
  match r with
  | None => Ok (None, it')
  | Some (opos, e) =>
    out <- out_at opos ;;
    Ok (Some {| m_length := o_length out; m_end := e; m_value := o_value out |}, it')
  end.
Definition lm_init (h : list N) : lm_it := {| l_hay := h; l_pos := 0; l_ticks := 0 |}.

End BwSearch.

Arguments m_length {V} m.
Arguments m_end {V} m.
Arguments m_value {V} m.

(* --- the public entry points on an automaton ---------------------------------------------- *)
Section BwApi.
Variable V : Type.

(* Run an iterator to exhaustion: at most [k] calls of next. *)
Fixpoint drain {IT} (next : IT -> res (option (mtch V) * IT)) (k : nat) (it : IT)
  : res (list (mtch V) * IT) :=
  match k with
  | O => OutOfFuel
  | S k' =>
    '(r, it') <- next it ;;
    match r with
    | None => Ok ([], it')
    | Some m => '(ms, it'') <- drain next k' it' ;; Ok (m :: ms, it'')
    end
  end.

Definition bw_sget (A : bw_automaton V) : N -> option bstate :=
  let m := index_list (bw_states A) in fun i => nget i m.
Definition bw_oget (A : bw_automaton V) : N -> option (output V) :=
  let m := index_list (bw_outputs A) in fun i => nget i m.
Definition bw_nslots (A : bw_automaton V) : N := N.of_nat (length (bw_states A)).

End BwApi.
