(* CwSearch.v — model of the transition functions of src/charwise.rs (:695-759) and of the four
   iterators of src/charwise/iter.rs. *)
From DV Require Import Model.Base Model.Nfa Model.Utf8 Model.CwBuild Model.BwSearch.

Section CwSearch.
Variable V : Type.

Variable sget : N -> option cstate.         (* states.get(i) *)
Variable oget : N -> option (output V).     (* outputs.get(i) *)
Variable tget : N -> option N.              (* mapper.table.get(c) *)
Variable nslots : N.

Definition cst_at (i : N) : res cstate :=
  match sget i with Some s => Ok s | None => UB UStateIndex end.
Definition cout_at (pos : N) : res (output V) :=
  match oget (pos - 1) with Some o => Ok o | None => UB UOutputIndex end.

(* CodeMapper::get (mapper.rs:38-43) *)
Definition mapper_get (c : N) : option N :=
  match tget c with
  | Some code => if code =? INVALID_CODE then None else Some code
  | None => None
  end.

(* child_index_unchecked (:695-717) *)
Definition cw_child (s mc : N) : res (option N) :=
  st <- cst_at s ;;
  if c_base st =? 0 then Ok None
  else
    let child := N.lxor (c_base st) mc in
    cs <- cst_at child ;;
    Ok (if c_check cs =? s then Some child else None).

Fixpoint cw_next_loop (fuel : nat) (s mc : N) (ticks : N) : res (N * N) :=
  match fuel with
  | O => OutOfFuel
  | S fuel' =>
    ch <- cw_child s mc ;;
    match ch with
    | Some t => Ok (t, ticks + 1)
    | None =>
      if s =? ROOT then Ok (ROOT, ticks + 1)
      else st <- cst_at s ;; cw_next_loop fuel' (c_fail st) mc (ticks + 1)
    end
  end.
Definition cfuel0 : nat := S (N.to_nat nslots).

(* next_state_id_unchecked (:721-737) *)
Definition cw_next_state (s c : N) (ticks : N) : res (N * N) :=
  match mapper_get c with
  | Some mc => cw_next_loop cfuel0 s mc ticks
  | None => Ok (ROOT, ticks)
  end.

Fixpoint cw_next_loop_lm (fuel : nat) (s mc : N) (ticks : N) : res (N * N) :=
  match fuel with
  | O => OutOfFuel
  | S fuel' =>
    ch <- cw_child s mc ;;
    match ch with
    | Some t => Ok (t, ticks + 1)
    | None =>
      if s =? ROOT then Ok (ROOT, ticks + 1)
      else
        st <- cst_at s ;;
        if c_fail st =? DEAD then Ok (ROOT, ticks + 1)
        else cw_next_loop_lm fuel' (c_fail st) mc (ticks + 1)
    end
  end.
(* next_state_id_leftmost_unchecked (:741-759) *)
Definition cw_next_state_lm (s c : N) (ticks : N) : res (N * N) :=
  match mapper_get c with
  | Some mc => cw_next_loop_lm cfuel0 s mc ticks
  | None => Ok (ROOT, ticks)
  end.

(* --- FindIterator (iter.rs:189-224) -------------------------------------------------------- *)
(* recursion is on fuel = number of remaining bytes + 1 (each step consumes >= 1 byte) *)
Fixpoint cfind_scan (fuel : nat) (rest : list N) (pulled : nat) (state : N) (ticks : N)
  : res (option (mtch V) * find_it) :=
  match fuel with
  | O => OutOfFuel
  | S fuel' =>
    d <- dec_next rest pulled ;;
    match d with
    | None => Ok (None, {| f_src := {| s_rest := rest; s_pulled := pulled |}; f_ticks := ticks |})
    | Some (pos, c, rest', pulled') =>
      '(state', ticks') <- cw_next_state state c ticks ;;
      st <- cst_at state' ;;
      if c_outpos st =? 0 then cfind_scan fuel' rest' pulled' state' ticks'
      else
        out <- cout_at (c_outpos st) ;;
        Ok (Some {| m_length := o_length out; m_end := pos; m_value := o_value out |},
            {| f_src := {| s_rest := rest'; s_pulled := pulled' |}; f_ticks := ticks' |})
    end
  end.
Definition cfind_next (it : find_it) : res (option (mtch V) * find_it) :=
  cfind_scan (S (length (s_rest (f_src it)))) (s_rest (f_src it)) (s_pulled (f_src it)) ROOT
             (f_ticks it).

(* --- FindOverlappingIterator (:129-187) ---------------------------------------------------- *)
Fixpoint covl_scan (fuel : nat) (rest : list N) (pulled : nat) (state : N) (pos : nat) (ticks : N)
  : res (option (mtch V) * ovl_it) :=
  match fuel with
  | O => OutOfFuel
  | S fuel' =>
    d <- dec_next rest pulled ;;
    match d with
    | None => Ok (None, {| v_src := {| s_rest := rest; s_pulled := pulled |}; v_state := state;
                           v_pos := pos; v_outpos := 0; v_ticks := ticks |})
    | Some (p, c, rest', pulled') =>
      (* self.pos = pos (assigned for every character) *)
      '(state', ticks') <- cw_next_state state c ticks ;;
      st <- cst_at state' ;;
      if c_outpos st =? 0 then covl_scan fuel' rest' pulled' state' p ticks'
      else
        out <- cout_at (c_outpos st) ;;
        Ok (Some {| m_length := o_length out; m_end := p; m_value := o_value out |},
            {| v_src := {| s_rest := rest'; s_pulled := pulled' |}; v_state := state';
               v_pos := p; v_outpos := o_parent out; v_ticks := ticks' |})
    end
  end.
Definition covl_next (it : ovl_it) : res (option (mtch V) * ovl_it) :=
  if v_outpos it =? 0 then
    covl_scan (S (length (s_rest (v_src it)))) (s_rest (v_src it)) (s_pulled (v_src it))
              (v_state it) (v_pos it) (v_ticks it)
  else
    out <- cout_at (v_outpos it) ;;
    Ok (Some {| m_length := o_length out; m_end := v_pos it; m_value := o_value out |},
        {| v_src := v_src it; v_state := v_state it; v_pos := v_pos it;
           v_outpos := o_parent out; v_ticks := v_ticks it |}).

(* --- FindOverlappingNoSuffixIterator (:226-262) -------------------------------------------- *)
Fixpoint cnos_scan (fuel : nat) (rest : list N) (pulled : nat) (state : N) (ticks : N)
  : res (option (mtch V) * nos_it) :=
  match fuel with
  | O => OutOfFuel
  | S fuel' =>
    d <- dec_next rest pulled ;;
    match d with
    | None => Ok (None, {| x_src := {| s_rest := rest; s_pulled := pulled |}; x_state := state;
                           x_ticks := ticks |})
    | Some (p, c, rest', pulled') =>
      '(state', ticks') <- cw_next_state state c ticks ;;
      st <- cst_at state' ;;
      if c_outpos st =? 0 then cnos_scan fuel' rest' pulled' state' ticks'
      else
        out <- cout_at (c_outpos st) ;;
        Ok (Some {| m_length := o_length out; m_end := p; m_value := o_value out |},
            {| x_src := {| s_rest := rest'; s_pulled := pulled' |}; x_state := state';
               x_ticks := ticks' |})
    end
  end.
Definition cnos_next (it : nos_it) : res (option (mtch V) * nos_it) :=
  cnos_scan (S (length (s_rest (x_src it)))) (s_rest (x_src it)) (s_pulled (x_src it))
            (x_state it) (x_ticks it).

(* --- LestmostFindIterator (:264-330) ------------------------------------------------------- *)
(* the for loop over haystack[self.pos..].chars() *)
Fixpoint clm_scan (cs : list N) (state : N) (last : N) (selfpos : nat) (skips : nat) (ticks : N)
  : res (option (N * nat) * nat * N) :=
  match cs with
  | [] => Ok (if last =? 0 then None else Some (last, selfpos), selfpos, ticks)
  | c :: cs' =>
    let skips := (skips + N.to_nat (len_utf8 c))%nat in
    '(state', ticks') <- cw_next_state_lm state c ticks ;;
    if state' =? ROOT then
      if last =? 0 then clm_scan cs' state' last selfpos skips ticks'
      else Ok (Some (last, selfpos), selfpos, ticks')
    else
      st <- cst_at state' ;;
      if c_outpos st =? 0 then clm_scan cs' state' last selfpos skips ticks'
      else clm_scan cs' state' (c_outpos st) (selfpos + skips)%nat 0%nat ticks'
  end.
Definition clm_next (it : lm_it) : res (option (mtch V) * lm_it) :=
  (* get_unchecked(self.pos..): in range and on a character boundary, else UB *)
  if (length (l_hay it) <? l_pos it)%nat then UB UStrSlice
  else
    match chars_of (skipn (l_pos it) (l_hay it)) with
    | None => UB UStrSlice
    | Some cs =>
      '(r, pos', ticks') <- clm_scan cs ROOT 0 (l_pos it) 0%nat (l_ticks it) ;;
      let it' := {| l_hay := l_hay it; l_pos := pos'; l_ticks := ticks' |} in
      match r with
      | None => Ok (None, it')
      | Some (opos, e) =>
        out <- cout_at opos ;;
        Ok (Some {| m_length := o_length out; m_end := e; m_value := o_value out |}, it')
      end
    end.

End CwSearch.

Section CwApi.
Variable V : Type.
Definition cw_sget (A : cw_automaton V) : N -> option cstate :=
  let m := index_list (cw_states A) in fun i => nget i m.
Definition cw_oget (A : cw_automaton V) : N -> option (output V) :=
  let m := index_list (cw_outputs A) in fun i => nget i m.
Definition cw_tget (A : cw_automaton V) : N -> option N :=
  let m := index_list (mp_table (cw_mapper A)) in fun i => nget i m.
Definition cw_nslots (A : cw_automaton V) : N := N.of_nat (length (cw_states A)).
End CwApi.
