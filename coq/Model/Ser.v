(* Ser.v — model of src/serializer.rs, the Serializable impls in lib.rs / intpack.rs /
   bytewise.rs / charwise.rs / mapper.rs, and serialize / deserialize_unchecked of both automata.
   Bytes are N < 256.  Slice indexing that can panic in the real deserialiser is a Panic branch. *)
From DV Require Import Model.Base Model.Nfa Model.BwBuild Model.CwBuild.

(* to_le_bytes / from_le_bytes for an n-byte unsigned integer *)
Fixpoint to_le (n : nat) (x : N) : list N :=
  match n with O => [] | S k => N.land x 255 :: to_le k (N.shiftr x 8) end.
Fixpoint of_le (bs : list N) : N :=
  match bs with [] => 0 | b :: r => b + 256 * of_le r end.

(* src[..n] / src[n..] with the bounds check of slice indexing *)
Fixpoint take_n (n : nat) (src : list N) : res (list N * list N) :=
  match n with
  | O => Ok ([], src)
  | S k =>
    match src with
    | [] => Panic PIndex
    | b :: r => '(h, t) <- take_n k r ;; Ok (b :: h, t)
    end
  end.

Definition ser_u32 (x : N) : list N := to_le 4 x.
Definition de_u32 (src : list N) : res (N * list N) :=
  '(h, r) <- take_n 4 src ;; Ok (of_le h, r).

(* Option<NonZeroU32>: None <-> 0; already the model's representation *)
Definition ser_onz := ser_u32.
Definition de_onz := de_u32.

(* The Serializable trait as a record (what a user-defined value type must provide). *)
Record serializable (V : Type) := {
  sv_ser : V -> list N;
  sv_de : list N -> res (V * list N);
  sv_bytes : nat
}.
Arguments sv_ser {V} s.
Arguments sv_de {V} s.
Arguments sv_bytes {V} s.

(* Built-in value types, values as Z.  (bytes, signed) *)
Inductive vtype := VUnsigned (bytes : nat) | VSigned (bytes : nat) | VEmpty.

Definition pow256 (n : nat) : Z := Z.pow 256 (Z.of_nat n).
Definition vt_in_range (t : vtype) (z : Z) : bool :=
  match t with
  | VUnsigned n => ((0 <=? z) && (z <? pow256 n))%Z
  | VSigned n => ((- (pow256 n / 2) <=? z) && (z <? pow256 n / 2))%Z
  | VEmpty => (z =? 0)%Z
  end.
Definition vt_ser (t : vtype) (z : Z) : list N :=
  match t with
  | VUnsigned n => to_le n (Z.to_N z)
  | VSigned n => to_le n (Z.to_N (z mod pow256 n))
  | VEmpty => []
  end.
Definition vt_de (t : vtype) (src : list N) : res (Z * list N) :=
  match t with
  | VUnsigned n => '(h, r) <- take_n n src ;; Ok (Z.of_N (of_le h), r)
  | VSigned n =>
    '(h, r) <- take_n n src ;;
    let u := Z.of_N (of_le h) in
    Ok ((if (u <? pow256 n / 2)%Z then u else u - pow256 n)%Z, r)
  | VEmpty => Ok (0%Z, src)
  end.
Definition vt_bytes (t : vtype) : nat :=
  match t with VUnsigned n | VSigned n => n | VEmpty => 0%nat end.
Definition vt_serializable (t : vtype) : serializable Z :=
  {| sv_ser := vt_ser t; sv_de := vt_de t; sv_bytes := vt_bytes t |}.
(* V::try_from(usize) on a 64-bit target (usize < 2^64) *)
Definition vt_conv (t : vtype) (i : nat) : option Z :=
  match t with
  | VEmpty => Some 0%Z
  | _ => if vt_in_range t (Z.of_nat i) then Some (Z.of_nat i) else None
  end.

(* MatchKind <-> u8 (lib.rs) *)
Definition kind_to_u8 (k : mkind) : N :=
  match k with Standard => 0 | LeftmostLongest => 1 | LeftmostFirst => 2 end.
Definition kind_of_u8 (b : N) : mkind :=
  if b =? 1 then LeftmostLongest else if b =? 2 then LeftmostFirst else Standard.
Definition de_kind (src : list N) : res (mkind * list N) :=
  match src with [] => Panic PIndex | b :: r => Ok (kind_of_u8 b, r) end.

Section Ser.
Variable V : Type.
Variable SV : serializable V.

(* Vec<T>: u32 length prefix, then the items *)
Definition ser_vec {T} (f : T -> list N) (l : list T) : list N :=
  ser_u32 (N.of_nat (length l)) ++ flat_map f l.
Fixpoint de_items {T} (de : list N -> res (T * list N)) (n : nat) (src : list N)
  : res (list T * list N) :=
  match n with
  | O => Ok ([], src)
  | S k => '(x, r) <- de src ;; '(xs, r') <- de_items de k r ;; Ok (x :: xs, r')
  end.
Definition de_vec {T} (de : list N -> res (T * list N)) (src : list N) : res (list T * list N) :=
  '(len, r) <- de_u32 src ;; de_items de (N.to_nat len) r.

(* Output<V> *)
Definition ser_output (o : output V) : list N :=
  sv_ser SV (o_value o) ++ ser_u32 (o_length o) ++ ser_onz (o_parent o).
Definition de_output (src : list N) : res (output V * list N) :=
  '(v, r) <- sv_de SV src ;;
  '(l, r) <- de_u32 r ;;
  '(p, r) <- de_onz r ;;
  Ok ({| o_value := v; o_length := l; o_parent := p |}, r).

(* bytewise::State *)
Definition ser_bstate (s : bstate) : list N :=
  ser_onz (b_base s) ++ ser_u32 (b_fail s) ++ ser_u32 (b_opos_ch s).
Definition de_bstate (src : list N) : res (bstate * list N) :=
  '(b, r) <- de_onz src ;;
  '(f, r) <- de_u32 r ;;
  '(oc, r) <- de_u32 r ;;
  Ok ({| b_base := b; b_fail := f; b_opos_ch := oc |}, r).

(* charwise::State *)
Definition ser_cstate (s : cstate) : list N :=
  ser_onz (c_base s) ++ ser_u32 (c_check s) ++ ser_u32 (c_fail s) ++ ser_onz (c_outpos s).
Definition de_cstate (src : list N) : res (cstate * list N) :=
  '(b, r) <- de_onz src ;;
  '(c, r) <- de_u32 r ;;
  '(f, r) <- de_u32 r ;;
  '(o, r) <- de_onz r ;;
  Ok ({| c_base := b; c_check := c; c_fail := f; c_outpos := o |}, r).

(* CodeMapper *)
Definition ser_mapper (m : mapper) : list N :=
  ser_vec ser_u32 (mp_table m) ++ ser_u32 (mp_alpha m).
Definition de_mapper (src : list N) : res (mapper * list N) :=
  '(t, r) <- de_vec de_u32 src ;;
  '(a, r) <- de_u32 r ;;
  Ok ({| mp_table := t; mp_alpha := a |}, r).

(* DoubleArrayAhoCorasick::serialize / deserialize_unchecked (bytewise.rs:574-648) *)
Definition bw_serialize (A : bw_automaton V) : list N :=
  ser_vec ser_bstate (bw_states A) ++ ser_vec ser_output (bw_outputs A)
  ++ [kind_to_u8 (bw_kind A)] ++ ser_u32 (bw_num_states A).
Definition bw_deserialize (src : list N) : res (bw_automaton V * list N) :=
  '(sts, r) <- de_vec de_bstate src ;;
  '(outs, r) <- de_vec de_output r ;;
  '(k, r) <- de_kind r ;;
  '(ns, r) <- de_u32 r ;;
  Ok ({| bw_states := sts; bw_outputs := outs; bw_kind := k; bw_num_states := ns |}, r).

(* CharwiseDoubleArrayAhoCorasick::serialize / deserialize_unchecked (charwise.rs:610-688) *)
Definition cw_serialize (A : cw_automaton V) : list N :=
  ser_vec ser_cstate (cw_states A) ++ ser_mapper (cw_mapper A)
  ++ ser_vec ser_output (cw_outputs A) ++ [kind_to_u8 (cw_kind A)] ++ ser_u32 (cw_num_states A).
Definition cw_deserialize (src : list N) : res (cw_automaton V * list N) :=
  '(sts, r) <- de_vec de_cstate src ;;
  '(mp, r) <- de_mapper r ;;
  '(outs, r) <- de_vec de_output r ;;
  '(k, r) <- de_kind r ;;
  '(ns, r) <- de_u32 r ;;
  Ok ({| cw_states := sts; cw_mapper := mp; cw_outputs := outs; cw_kind := k;
         cw_num_states := ns |}, r).

(* the capacity formula of serialize() *)
Definition bw_serialized_bytes (A : bw_automaton V) : nat :=
  (4 + 12 * length (bw_states A)) + (4 + (sv_bytes SV + 8) * length (bw_outputs A)) + 1 + 4.

End Ser.

(* "every stored field fits its Rust integer type", as a boolean (evaluated by the driver on every
   automaton the model builds; Proofs/SerProps.v proves it sound for the round-trip theorem) *)
Definition u32b (x : N) : bool := x <? 4294967296.
Definition bstate_okb (s : bstate) : bool := u32b (b_base s) && u32b (b_fail s) && u32b (b_opos_ch s).
Definition cstate_okb (s : cstate) : bool :=
  u32b (c_base s) && u32b (c_check s) && u32b (c_fail s) && u32b (c_outpos s).
Section RangesB.
Variable V : Type.
Variable domb : V -> bool.
Definition output_okb (o : output V) : bool :=
  domb (o_value o) && u32b (o_length o) && u32b (o_parent o).
Definition bw_ranges_b (A : bw_automaton V) : bool :=
  forallb bstate_okb (bw_states A) && forallb output_okb (bw_outputs A)
  && u32b (N.of_nat (length (bw_states A))) && u32b (N.of_nat (length (bw_outputs A)))
  && u32b (bw_num_states A).
Definition mapper_okb (m : mapper) : bool :=
  forallb u32b (mp_table m) && u32b (N.of_nat (length (mp_table m))) && u32b (mp_alpha m).
Definition cw_ranges_b (A : cw_automaton V) : bool :=
  forallb cstate_okb (cw_states A) && mapper_okb (cw_mapper A) && forallb output_okb (cw_outputs A)
  && u32b (N.of_nat (length (cw_states A))) && u32b (N.of_nat (length (cw_outputs A)))
  && u32b (cw_num_states A).
End RangesB.
