(* Nfa.v — model of src/nfa_builder.rs (NfaBuilder<L, V>), labels as N.
   One definition per Rust function; every index, unwrap and RefCell borrow that can panic is a
   Panic branch; every loop runs on fuel. *)
From DV Require Import Model.Base.

Section Nfa.
Variable V : Type.
(* EdgeLabel::num_bytes: 1 for u8, len_utf8 for char. *)
Variable lbytes : N -> N.

(* Output<V> of lib.rs. parent: 0 = None. *)
Record output := { o_value : V; o_length : N; o_parent : N }.

(* NfaBuilderState: edges is the BTreeMap, kept as a strictly label-sorted association list;
   output_pos: 0 = None. *)
Record nstate := {
  n_edges : list (N * N);
  n_fail : N;
  n_output : option (V * N);
  n_outpos : N
}.
Definition nstate_default : nstate :=
  {| n_edges := []; n_fail := ROOT; n_output := None; n_outpos := 0 |}.

Record nfa := {
  n_states : nmap nstate;
  n_nstates : N;                 (* states.len() *)
  n_outputs : list output;       (* outputs, in push order *)
  n_len : N;                     (* len *)
  n_kind : mkind;
  n_shadowed : list (list N)     (* BTreeSet<Vec<L>> of dropped patterns (leftmost-first) *)
}.

Definition nfa_new (k : mkind) : nfa :=
  {| n_states := nset 1 nstate_default (nset 0 nstate_default nempty);
     n_nstates := 2; n_outputs := []; n_len := 0; n_kind := k; n_shadowed := [] |}.

(* self.states[i] (panics when out of range) *)
Definition nfa_get (n : nfa) (i : N) : res nstate :=
  if i <? n_nstates n then
    match nget i (n_states n) with Some s => Ok s | None => Panic PIndex end
  else Panic PIndex.

Definition nfa_set (n : nfa) (i : N) (s : nstate) : nfa :=
  {| n_states := nset i s (n_states n); n_nstates := n_nstates n; n_outputs := n_outputs n;
     n_len := n_len n; n_kind := n_kind n; n_shadowed := n_shadowed n |}.

Definition nfa_push_state (n : nfa) : nfa :=
  {| n_states := nset (n_nstates n) nstate_default (n_states n);
     n_nstates := n_nstates n + 1; n_outputs := n_outputs n;
     n_len := n_len n; n_kind := n_kind n; n_shadowed := n_shadowed n |}.

(* BTreeMap::get / insert on the sorted association list *)
Fixpoint edge_get (es : list (N * N)) (c : N) : option N :=
  match es with
  | [] => None
  | (k, v) :: r => if k =? c then Some v else edge_get r c
  end.

Fixpoint edge_insert (es : list (N * N)) (c t : N) : list (N * N) :=
  match es with
  | [] => [(c, t)]
  | (k, v) :: r =>
    if c <? k then (c, t) :: es
    else if c =? k then (c, t) :: r
    else (k, v) :: edge_insert r c t
  end.

(* child_id (nfa_builder.rs:229) *)
Definition child_id (n : nfa) (s c : N) : res (option N) :=
  st <- nfa_get n s ;; Ok (edge_get (n_edges st) c).

(* The for-loop of add (:90-112).  Result: Some final state, or None when the leftmost-first
   shadow branch is taken. *)
Fixpoint add_walk (n : nfa) (sid : N) (rest : list N) : res (nfa * option N) :=
  match rest with
  | [] => Ok (n, Some sid)
  | c :: rest' =>
    st <- nfa_get n sid ;;
    if is_leftmost_first (n_kind n) && isSome (n_output st) then Ok (n, None)
    else
      match edge_get (n_edges st) c with
      | Some nx => add_walk n nx rest'
      | None =>
        let nx := n_nstates n in
        if U32_MAX <? nx then Err AutomatonScale
        else
          let st' := {| n_edges := edge_insert (n_edges st) c nx; n_fail := n_fail st;
                        n_output := n_output st; n_outpos := n_outpos st |} in
          add_walk (nfa_push_state (nfa_set n sid st')) nx rest'
      end
  end.

(* check_shadowed_duplicate (added by the "fix:" commit): walk existing edges only. *)
Fixpoint walk_existing (n : nfa) (sid : option N) (rest : list N) : res (option N) :=
  match rest with
  | [] => Ok sid
  | c :: rest' =>
    match sid with
    | None => walk_existing n None rest'
    | Some s => nx <- child_id n s c ;; walk_existing n nx rest'
    end
  end.

Definition check_shadowed_duplicate (n : nfa) (pat : list N) : res nfa :=
  sid <- walk_existing n (Some ROOT) pat ;;
  registered <- match sid with
                | None => Ok false
                | Some s => st <- nfa_get n s ;; Ok (isSome (n_output st))
                end ;;
  if registered || existsb (list_eqb pat) (n_shadowed n) then Err DuplicatePattern
  else Ok {| n_states := n_states n; n_nstates := n_nstates n; n_outputs := n_outputs n;
             n_len := n_len n; n_kind := n_kind n; n_shadowed := pat :: n_shadowed n |}.

(* add (:80-121) *)
Definition add (n : nfa) (pat : list N) (v : V) : res nfa :=
  let plen := fold_left (fun acc c => acc + lbytes c) pat 0 in
  if U32_MAX <? plen then Err InvalidArgument
  else if plen =? 0 then Err InvalidArgument
  else
    '(n1, fin) <- add_walk n ROOT pat ;;
    match fin with
    | None => check_shadowed_duplicate n1 pat
    | Some sid =>
      st <- nfa_get n1 sid ;;
      if isSome (n_output st) then Err DuplicatePattern
      else
        let st' := {| n_edges := n_edges st; n_fail := n_fail st;
                      n_output := Some (v, plen); n_outpos := n_outpos st |} in
        let n2 := nfa_set n1 sid st' in
        Ok {| n_states := n_states n2; n_nstates := n_nstates n2; n_outputs := n_outputs n2;
              n_len := n_len n2 + 1; n_kind := n_kind n2; n_shadowed := n_shadowed n2 |}
    end.

Definition set_fail (n : nfa) (i f : N) : res nfa :=
  st <- nfa_get n i ;;
  Ok (nfa_set n i {| n_edges := n_edges st; n_fail := f; n_output := n_output st;
                     n_outpos := n_outpos st |}).

(* inner loop of build_fails (:141-150) *)
Fixpoint fail_loop (fuel : nat) (n : nfa) (fail_id c : N) : res N :=
  match fuel with
  | O => OutOfFuel
  | S fuel' =>
    ch <- child_id n fail_id c ;;
    match ch with
    | Some t => Ok t
    | None =>
      fs <- nfa_get n fail_id ;;
      let next := n_fail fs in
      if (fail_id =? ROOT) && (next =? ROOT) then Ok ROOT
      else fail_loop fuel' n next c
    end
  end.

(* for (&c, &child_id) in &s.edges (:139-153); s is the state borrowed at loop entry, its fail
   is read from the borrowed copy (s.fail), children are appended to the queue. *)
Fixpoint fails_edges (n : nfa) (sid sfail : N) (es : list (N * N)) (newq : list N)
  : res (nfa * list N) :=
  match es with
  | [] => Ok (n, newq)
  | (c, child) :: es' =>
    nf <- fail_loop (S (N.to_nat (n_nstates n))) n sfail c ;;
    if child =? sid then Panic PBorrow
    else
      n' <- set_fail n child nf ;;
      fails_edges n' sid sfail es' (newq ++ [child])
  end.

(* while qi < q.len() (:134-154).  pending = q[qi..], done = rev q[..qi]. *)
Fixpoint fails_bfs (fuel : nat) (n : nfa) (pending : list N) (done : list N)
  : res (nfa * list N) :=
  match pending with
  | [] => Ok (n, rev done)
  | sid :: pending' =>
    match fuel with
    | O => OutOfFuel
    | S fuel' =>
      st <- nfa_get n sid ;;
      '(n', news) <- fails_edges n sid (n_fail st) (n_edges st) [] ;;
      fails_bfs fuel' n' (pending' ++ news) (sid :: done)
    end
  end.

Definition build_fails (n : nfa) : res (nfa * list N) :=
  root <- nfa_get n ROOT ;;
  fails_bfs (S (N.to_nat (n_nstates n))) n (map snd (n_edges root)) [].

(* inner loop of build_fails_leftmost (:187-199); [holder] is the state whose RefCell is
   mutably borrowed while the loop runs. *)
Fixpoint fail_loop_lm (fuel : nat) (n : nfa) (holder fail_id c : N) : res N :=
  match fuel with
  | O => OutOfFuel
  | S fuel' =>
    if fail_id =? holder then Panic PBorrow
    else
      ch <- child_id n fail_id c ;;
      match ch with
      | Some t => Ok t
      | None =>
        fs <- nfa_get n fail_id ;;
        let next := n_fail fs in
        if next =? DEAD then Ok DEAD
        else if (fail_id =? ROOT) && (next =? ROOT) then Ok ROOT
        else fail_loop_lm fuel' n holder next c
      end
  end.

Fixpoint fails_edges_lm (n : nfa) (sid sfail : N) (es : list (N * N)) (newq : list N)
  : res (nfa * list N) :=
  match es with
  | [] => Ok (n, newq)
  | (c, child) :: es' =>
    nf <- (if sfail =? DEAD then Ok DEAD
           else fail_loop_lm (S (N.to_nat (n_nstates n))) n sid sfail c) ;;
    if child =? sid then Panic PBorrow
    else
      n' <- set_fail n child nf ;;
      fails_edges_lm n' sid sfail es' (newq ++ [child])
  end.

Fixpoint fails_bfs_lm (fuel : nat) (n : nfa) (pending : list N) (done : list N)
  : res (nfa * list N) :=
  match pending with
  | [] => Ok (n, rev done)
  | sid :: pending' =>
    match fuel with
    | O => OutOfFuel
    | S fuel' =>
      st <- nfa_get n sid ;;
      (* "Sets the output state to the dead fail." *)
      let f := if isSome (n_output st) then DEAD else n_fail st in
      n1 <- set_fail n sid f ;;
      '(n', news) <- fails_edges_lm n1 sid f (n_edges st) [] ;;
      fails_bfs_lm fuel' n' (pending' ++ news) (sid :: done)
    end
  end.

Definition build_fails_leftmost (n : nfa) : res (nfa * list N) :=
  root <- nfa_get n ROOT ;;
  fails_bfs_lm (S (N.to_nat (n_nstates n))) n (map snd (n_edges root)) [].

(* build_outputs (:209-226) *)
Fixpoint outputs_loop (n : nfa) (q : list N) : res nfa :=
  match q with
  | [] => Ok n
  | sid :: q' =>
    st <- nfa_get n sid ;;
    if n_fail st =? sid then Panic PBorrow
    else
      fs <- nfa_get n (n_fail st) ;;
      match n_output st with
      | Some (v, len) =>
        let pos := N.of_nat (length (n_outputs n)) + 1 in
        if U32_MAX <? pos then Panic PUnwrap
        else
          let st' := {| n_edges := n_edges st; n_fail := n_fail st; n_output := n_output st;
                        n_outpos := pos |} in
          let n1 := nfa_set n sid st' in
          outputs_loop
            {| n_states := n_states n1; n_nstates := n_nstates n1;
               n_outputs := n_outputs n1 ++ [{| o_value := v; o_length := len;
                                                o_parent := n_outpos fs |}];
               n_len := n_len n1; n_kind := n_kind n1; n_shadowed := n_shadowed n1 |} q'
      | None =>
        let st' := {| n_edges := n_edges st; n_fail := n_fail st; n_output := n_output st;
                      n_outpos := n_outpos fs |} in
        outputs_loop (nfa_set n sid st') q'
      end
  end.

Definition build_outputs (n : nfa) (q : list N) : res nfa :=
  match q with
  | [] => Panic PIndex                      (* q[0] in the debug assertion *)
  | q0 :: _ => if q0 =? ROOT then Panic PDebugAssert else outputs_loop n q
  end.

(* The common part of build_sparse_nfa / build_original_nfa_and_mapper after the add loop. *)
Definition finish_nfa (n : nfa) : res nfa :=
  '(n1, q) <- (match n_kind n with
               | Standard => build_fails n
               | _ => build_fails_leftmost n
               end) ;;
  build_outputs n1 q.

End Nfa.

Arguments o_value {V} o.
Arguments o_length {V} o.
Arguments o_parent {V} o.
Arguments n_edges {V} n.
Arguments n_fail {V} n.
Arguments n_output {V} n.
Arguments n_outpos {V} n.
Arguments n_states {V} n.
Arguments n_nstates {V} n.
Arguments n_outputs {V} n.
Arguments n_len {V} n.
Arguments n_kind {V} n.
Arguments n_shadowed {V} n.
