(* Helper.v — model of src/build_helper.rs (BuildHelper). *)
From DV Require Import Model.Base.

Record item := { i_next : N; i_prev : N; i_used_base : bool; i_used_index : bool }.
Definition item_default : item :=
  {| i_next := 0; i_prev := 0; i_used_base := false; i_used_index := false |}.

Record helper := {
  h_items : nmap item;        (* ring of [h_cap] items; absent = ListItem::default() *)
  h_cap : N;                  (* items.len() = block_len * num_free_blocks *)
  h_block_len : N;
  h_nfb : N;
  h_nblocks : N;
  h_head : option N
}.

(* BuildHelper::new (:30-44) *)
Definition helper_new (block_len nfb : N) : res helper :=
  let cap := block_len * nfb in
  if U32_MAX <? cap then Err AutomatonScale
  else if cap =? 0 then Panic PAssert
  else Ok {| h_items := nempty; h_cap := cap; h_block_len := block_len; h_nfb := nfb;
             h_nblocks := 0; h_head := None |}.

Definition num_elements (h : helper) : N := h_nblocks h * h_block_len h.
(* saturating_sub *)
Definition active_block_start (h : helper) : N := h_nblocks h - h_nfb h.
Definition active_index_start (h : helper) : N := active_block_start h * h_block_len h.
Definition active_index_end (h : helper) : N := h_nblocks h * h_block_len h.

(* offset (:204-207): the assertion, then idx % capacity *)
Definition offset (h : helper) (idx : N) : res N :=
  if (active_index_start h <=? idx) && (idx <? active_index_end h)
  then Ok (idx mod h_cap h)
  else Panic PAssert.

Definition get_item (h : helper) (idx : N) : res item :=
  off <- offset h idx ;;
  Ok (match nget off (h_items h) with Some it => it | None => item_default end).

Definition with_items (h : helper) (m : nmap item) : helper :=
  {| h_items := m; h_cap := h_cap h; h_block_len := h_block_len h; h_nfb := h_nfb h;
     h_nblocks := h_nblocks h; h_head := h_head h |}.
Definition with_head (h : helper) (hd : option N) : helper :=
  {| h_items := h_items h; h_cap := h_cap h; h_block_len := h_block_len h; h_nfb := h_nfb h;
     h_nblocks := h_nblocks h; h_head := hd |}.

Definition upd_item (h : helper) (idx : N) (f : item -> item) : res helper :=
  off <- offset h idx ;;
  let it := match nget off (h_items h) with Some it => it | None => item_default end in
  Ok (with_items h (nset off (f it) (h_items h))).

Definition set_next (x : N) (it : item) : item :=
  {| i_next := x; i_prev := i_prev it; i_used_base := i_used_base it; i_used_index := i_used_index it |}.
Definition set_prev (x : N) (it : item) : item :=
  {| i_next := i_next it; i_prev := x; i_used_base := i_used_base it; i_used_index := i_used_index it |}.
Definition mark_base (it : item) : item :=
  {| i_next := i_next it; i_prev := i_prev it; i_used_base := true; i_used_index := i_used_index it |}.
Definition mark_index (it : item) : item :=
  {| i_next := i_next it; i_prev := i_prev it; i_used_base := i_used_base it; i_used_index := true |}.

Definition is_used_base (h : helper) (b : N) : res bool :=
  it <- get_item h b ;; Ok (i_used_base it).
Definition is_used_index (h : helper) (i : N) : res bool :=
  it <- get_item h i ;; Ok (i_used_index it).

(* use_base (:108-110) *)
Definition use_base (h : helper) (b : N) : res helper := upd_item h b mark_base.

(* use_index (:118-130) *)
Definition use_index (h : helper) (idx : N) : res helper :=
  it0 <- get_item h idx ;;
  if i_used_index it0 then Panic PDebugAssert
  else
    h1 <- upd_item h idx mark_index ;;
    it <- get_item h1 idx ;;
    let next := i_next it in
    let prev := i_prev it in
    h2 <- upd_item h1 prev (set_next next) ;;
    h3 <- upd_item h2 next (set_prev prev) ;;
    match h_head h3 with
    | None => Panic PUnwrap
    | Some hd =>
      if hd =? idx then Ok (with_head h3 (if next =? idx then None else Some next))
      else Ok h3
    end.

(* dropped_block (:177-179) *)
Definition dropped_block (h : helper) : option N :=
  if h_cap h <=? num_elements h then Some (active_block_start h) else None.

(* while let Some(head_idx) = self.head_idx (:140-145) *)
Fixpoint drop_loop (fuel : nat) (h : helper) (end_idx : N) : res helper :=
  match fuel with
  | O => OutOfFuel
  | S fuel' =>
    match h_head h with
    | None => Ok h
    | Some hd =>
      if end_idx <=? hd then Ok h
      else h' <- use_index h hd ;; drop_loop fuel' h' end_idx
    end
  end.

(* for idx in old_len..new_len (:154-158) *)
Fixpoint reset_range (h : helper) (idxs : list N) : res helper :=
  match idxs with
  | [] => Ok h
  | idx :: r =>
    off <- offset h idx ;;
    let it := {| i_next := idx + 1;
                 i_prev := (if idx =? 0 then U32_MAX else idx - 1);   (* wrapping_sub(1) *)
                 i_used_base := false; i_used_index := false |} in
    reset_range (with_items h (nset off it (h_items h))) r
  end.

(* push_block (:133-173) *)
Definition push_block (h : helper) : res helper :=
  if U32_MAX - h_block_len h <? num_elements h then Err AutomatonScale
  else
    h1 <- match dropped_block h with
          | Some closed =>
            drop_loop (S (N.to_nat (h_block_len h))) h ((closed + 1) * h_block_len h)
          | None => Ok h
          end ;;
    let old_len := num_elements h1 in
    let new_len := old_len + h_block_len h1 in
    let h2 := {| h_items := h_items h1; h_cap := h_cap h1; h_block_len := h_block_len h1;
                 h_nfb := h_nfb h1; h_nblocks := h_nblocks h1 + 1; h_head := h_head h1 |} in
    h3 <- reset_range h2 (nseq old_len (N.to_nat (h_block_len h2))) ;;
    match h_head h3 with
    | Some hd =>
      ith <- get_item h3 hd ;;
      let tail := i_prev ith in
      h4 <- upd_item h3 old_len (set_prev tail) ;;
      h5 <- upd_item h4 tail (set_next old_len) ;;
      h6 <- upd_item h5 (new_len - 1) (set_next hd) ;;
      upd_item h6 hd (set_prev (new_len - 1))
    | None =>
      h4 <- upd_item h3 old_len (set_prev (new_len - 1)) ;;
      h5 <- upd_item h4 (new_len - 1) (set_next old_len) ;;
      Ok (with_head h5 (Some old_len))
    end.

(* unused_base_in_block (:76-80) *)
Fixpoint find_unused_base (h : helper) (cands : list N) : res (option N) :=
  match cands with
  | [] => Ok None
  | b :: r =>
    u <- is_used_base h b ;;
    if u then find_unused_base h r else Ok (Some b)
  end.
Definition unused_base_in_block (h : helper) (block_idx : N) : res (option N) :=
  find_unused_base h (nseq (block_idx * h_block_len h) (N.to_nat (h_block_len h))).

(* VacantIter::next (:219-226): from the current index to the next one *)
Definition vacant_next (h : helper) (cur : N) : res (option N) :=
  it <- get_item h cur ;;
  match h_head h with
  | None => Panic PUnwrap
  | Some hd => Ok (if i_next it =? hd then None else Some (i_next it))
  end.
