(* C06 — Every reported match carries the value registered for the matched pattern. *)
From DV Require Import Model.Base Model.Nfa Model.BwBuild Model.BwSearch Model.Utf8 Model.CwBuild Model.Api Model.Spec
     Model.Cert Proofs.BwCert Theory.SpecAdequacy Proofs.Leftmost Proofs.BwLeftmost Theory.LmfSpec Proofs.Utf8Props Proofs.CwCert Proofs.TrieInv Proofs.BuildTrie Proofs.BuildCertLm Proofs.BuiltAutomata.
Local Open Scope N_scope.

(* every element of the three executable specifications is a true occurrence carrying a value
   registered for exactly that byte string, with 0 <= start < end <= |h| *)
Theorem spec_overlapping_sound :
  forall (V : Type) (pvs : list (list N * V)) (h : list N) (s e : nat) (v : V),
    In (s, e, v) (spec_overlapping V pvs h) ->
    (s < e <= length h)%nat /\ In (sub h s e, v) pvs.
Proof. intros V pvs h s e v H. apply spec_overlapping_adequate in H. exact H. Qed.
Print Assumptions spec_overlapping_sound.

Theorem spec_nosuffix_sound :
  forall (V : Type) (pvs : list (list N * V)) (h : list N) (s e : nat) (v : V),
    In (s, e, v) (spec_nosuffix V pvs h) ->
    (s < e <= length h)%nat /\ In (sub h s e, v) pvs.
Proof.
  intros V pvs h s e v H. apply spec_nosuffix_adequate in H as (e' & He & r & Hr).
  apply (spec_overlapping_adequate V pvs h s e v). unfold spec_overlapping. apply in_flat_map.
  exists e'. split; [apply in_seq; lia|]. rewrite Hr. left. reflexivity.
Qed.
Print Assumptions spec_nosuffix_sound.

(* hence, for every certified byte-wise automaton and every haystack, every match reported by the
   overlapping and the no-suffix search is such an occurrence with its registered value *)
Theorem bw_overlapping_match_sound :
  forall (V : Type) (veqb : V -> V -> bool), (forall a b, veqb a b = true -> a = b) ->
  forall (A : bw_automaton V) (pvs : list (list N * V)), bw_cert_ok veqb A pvs = true ->
  forall h ms, Forall (fun b => b < 256) h -> bw_find_overlapping_iter V A h = Ok ms ->
  forall s e v, In (s, e, v) ms -> (s < e <= length h)%nat /\ In (sub h s e, v) pvs.
Proof.
  intros V veqb Hv A pvs C h ms Hb Hr s e v Hin.
  rewrite (bw_overlapping_correct_lemma V veqb Hv A pvs C h Hb) in Hr. inversion Hr; subst.
  apply spec_overlapping_sound. exact Hin.
Qed.
Print Assumptions bw_overlapping_match_sound.

Theorem bw_nosuffix_match_sound :
  forall (V : Type) (veqb : V -> V -> bool), (forall a b, veqb a b = true -> a = b) ->
  forall (A : bw_automaton V) (pvs : list (list N * V)), bw_cert_ok veqb A pvs = true ->
  forall h ms, Forall (fun b => b < 256) h -> bw_find_overlapping_no_suffix_iter V A h = Ok ms ->
  forall s e v, In (s, e, v) ms -> (s < e <= length h)%nat /\ In (sub h s e, v) pvs.
Proof.
  intros V veqb Hv A pvs C h ms Hb Hr s e v Hin.
  rewrite (bw_nosuffix_correct_lemma V veqb Hv A pvs C h Hb) in Hr. inversion Hr; subst.
  apply spec_nosuffix_sound. exact Hin.
Qed.
Print Assumptions bw_nosuffix_match_sound.

(* leftmost kinds: every reported match is the pattern chosen at its start, with its value *)
Theorem bw_leftmost_match_sound :
  forall (V : Type) (veqb : V -> V -> bool), (forall a b, veqb a b = true -> a = b) ->
  forall (A : bw_automaton V) (pvs : list (list N * V)), bw_lm_cert_ok veqb A pvs = true ->
  forall h ms, Forall (fun b => b < 256) h -> bw_leftmost_find_iter V A h = Ok ms ->
  forall s e v, In (s, e, v) ms ->
    exists p, In (p, v) pvs /\ is_prefix p (skipn s h) = true /\ e = (s + length p)%nat.
Proof.
  intros V veqb Hv A pvs C h ms Hb Hr s e v Hin.
  rewrite (bw_leftmost_correct_lemma V veqb Hv A pvs C h Hb) in Hr. inversion Hr; subst. clear Hr.
  unfold spec_lml in Hin. apply spec_leftmost_from_in in Hin as ([p x] & Hc & -> & ->). cbn [fst snd].
  unfold longest_at in Hc.
  pose proof (longest_at_spec V (fun _ _ => Ok None) [] (fun p v (H : In (p, v) []) => match H with end) h s
                              (nonempty_pats V pvs) None I) as Hl.
  rewrite Hc in Hl. destruct Hl as (Hi & Hp & _). destruct Hi as [Hi|Hi]; [|discriminate].
  exists p. split; [|split; [exact Hp|reflexivity]].
  unfold nonempty_pats in Hi. apply filter_In in Hi as [Hi _]. exact Hi.
Qed.
Print Assumptions bw_leftmost_match_sound.

(* character-wise: every match of the overlapping search is a character-level occurrence with its
   value, reported with the byte offsets of its character positions *)
Theorem cw_overlapping_match_sound :
  forall (V : Type) (veqb : V -> V -> bool), (forall a b, veqb a b = true -> a = b) ->
  forall (A : cw_automaton V) (pvs : list (list N * V)), cw_cert_ok veqb A pvs = true ->
  forall cs ms, Forall scalar cs -> cw_find_overlapping_iter V A (encode_utf8 cs) = Ok ms ->
  forall x, In x ms -> exists s e v, x = to_bytes V cs (s, e, v)
                                     /\ (s < e <= length cs)%nat /\ In (sub cs s e, v) pvs.
Proof.
  intros V veqb Hv A pvs C cs ms Hs Hr x Hin.
  rewrite (cw_overlapping_correct_lemma V veqb Hv A pvs C cs Hs) in Hr. inversion Hr; subst. clear Hr.
  apply in_map_iff in Hin as ([[s e] v] & <- & Hin). exists s, e, v. split; [reflexivity|].
  apply spec_overlapping_sound. exact Hin.
Qed.
Print Assumptions cw_overlapping_match_sound.

(* in a duplicate-free collection the value registered for a byte string is unique, so "a value
   registered for h[s..e]" is THE value the user attached to it (also when values repeat) *)
Theorem value_unique :
  forall (V : Type) (pvs : list (list N * V)) p v v',
    NoDup (map fst pvs) -> In (p, v) pvs -> In (p, v') pvs -> v = v'.
Proof.
  intros V pvs p v v' Hnd. induction pvs as [|[q w] l IH]; cbn [map fst In] in *; [tauto|].
  inversion Hnd as [|? ? Hnot Hnd']; subst. intros [H1|H1] [H2|H2].
  - congruence.
  - inversion H1; subst. exfalso. apply Hnot. apply in_map_iff. exists (p, v'). auto.
  - inversion H2; subst. exfalso. apply Hnot. apply in_map_iff. exists (p, v). auto.
  - apply IH; assumption.
Qed.
Print Assumptions value_unique.

(* C06 with no certificate hypothesis (builder theorems of C01 and C03): on EVERY automaton
   construction returns -- every match kind -- every reported match of the byte-wise searches is a
   true occurrence carrying a value registered for exactly that byte string. *)
Theorem bw_matches_sound_for_every_built_automaton :
  forall (V : Type) (veqb : V -> V -> bool), (forall a b, veqb a b = true <-> a = b) ->
  forall k nfb (pvs : list (list N * V)) (A : bw_automaton V),
    (forall p v, In (p, v) pvs -> Forall (fun b => b < 256) p) -> 4 * total_len V pvs <= U32_MAX - 1 ->
    bw_build_with_values V k nfb pvs = Ok A ->
  forall h, Forall (fun b => b < 256) h ->
    (k = Standard -> forall ms, (bw_find_overlapping_iter V A h = Ok ms \/ bw_find_overlapping_no_suffix_iter V A h = Ok ms) ->
       forall s e v, In (s, e, v) ms -> (s < e <= length h)%nat /\ In (sub h s e, v) pvs)
    /\ (k <> Standard -> forall ms, bw_leftmost_find_iter V A h = Ok ms ->
       forall s e v, In (s, e, v) ms -> exists p, In (p, v) pvs /\ is_prefix p (skipn s h) = true /\ e = (s + length p)%nat).
Proof.
  intros V veqb Hv k nfb pvs A Hb Hs HA h Hh. split.
  - intros -> ms [Hm|Hm] s e v Hin.
    + exact (bw_overlapping_match_sound V veqb (fun a b => proj1 (Hv a b)) A pvs (built_cert V veqb Hv nfb pvs A Hb Hs HA) h ms Hh Hm s e v Hin).
    + exact (bw_nosuffix_match_sound V veqb (fun a b => proj1 (Hv a b)) A pvs (built_cert V veqb Hv nfb pvs A Hb Hs HA) h ms Hh Hm s e v Hin).
  - intros Hk ms Hm s e v Hin.
    pose proof (bw_build_lm_cert_lemma V veqb (fun x => proj2 (Hv x x) eq_refl) k nfb pvs A Hk Hb Hs HA) as C.
    destruct (bw_leftmost_match_sound V veqb (fun a b => proj1 (Hv a b)) A (regd V k pvs) C h ms Hh Hm s e v Hin) as (p & Hp & Hpre & He).
    exists p. split; [|auto]. exact (proj1 (regd_facts k pvs) _ Hp).
Qed.
Print Assumptions bw_matches_sound_for_every_built_automaton.

(* ---- C06 AS ONE STATEMENT PER VARIANT (Proofs/MatchSound.v) ------------------------------------------
   On EVERY built automaton -- any match kind, any num_free_blocks, any value type with a boolean
   equality -- EVERY match (s, e, v) returned by ANY of the four search methods satisfies
   occ_at pvs h s e v:  s < e <= |h|  and  (h[s..e], v) is one of the pattern/value pairs given to
   the builder.  (A search method of the other kind panics and returns no match at all.)  With
   value_unique, v is THE value registered for h[s..e]. *)
From DV Require Import Proofs.MatchSound Theory.Utf8Spec.

Theorem bw_every_match_of_every_search_is_a_registered_occurrence :
  forall (V : Type) (veqb : V -> V -> bool), (forall a b, veqb a b = true <-> a = b) ->
  forall k nfb (pvs : list (list N * V)) (A : bw_automaton V),
    (forall p v, In (p, v) pvs -> Forall (fun b => b < 256) p) -> 4 * total_len V pvs <= U32_MAX - 1 ->
    bw_build_with_values V k nfb pvs = Ok A ->
  forall h, Forall (fun b => b < 256) h ->
  forall ms, bw_find_iter V A h = Ok ms \/ bw_find_overlapping_iter V A h = Ok ms
             \/ bw_find_overlapping_no_suffix_iter V A h = Ok ms \/ bw_leftmost_find_iter V A h = Ok ms ->
  forall s e v, In (s, e, v) ms -> occ_at V pvs h s e v.
Proof. exact bw_every_match_sound. Qed.
Print Assumptions bw_every_match_of_every_search_is_a_registered_occurrence.

(* character-wise, on the UTF-8 encoding of any text: byte positions, encoded patterns *)
Theorem cw_every_match_of_every_search_is_a_registered_occurrence :
  forall (V : Type) (veqb : V -> V -> bool), (forall a b, veqb a b = true <-> a = b) ->
  forall k nfb (pvs : list (list N * V)) (A : cw_automaton V),
    (forall p v, In (p, v) pvs -> Forall scalar p) -> 4 * total_len V pvs <= U32_MAX - 1 ->
    cw_build_with_values V k nfb pvs = Ok A ->
  forall cs, Forall scalar cs ->
  let h := encode_utf8 cs in
  forall ms, cw_find_iter V A h = Ok ms \/ cw_find_overlapping_iter V A h = Ok ms
             \/ cw_find_overlapping_no_suffix_iter V A h = Ok ms \/ cw_leftmost_find_iter V A h = Ok ms ->
  forall s e v, In (s, e, v) ms -> occ_at V (bpvs V pvs) h s e v.
Proof. exact cw_every_match_sound. Qed.
Print Assumptions cw_every_match_of_every_search_is_a_registered_occurrence.

(* built from bare patterns: the value attached to a pattern is its position in the input sequence,
   converted with V::try_from *)
Theorem bare_pattern_values_are_input_positions :
  forall (V : Type) (conv : nat -> option V) (ps : list (list N)) (pvs : list (list N * V)),
    enumerate_conv V conv 0 ps = Some pvs ->
    forall p v, In (p, v) pvs -> exists j, nth_error ps j = Some p /\ conv j = Some v.
Proof. intros V conv ps pvs H p v Hin. exact (enumerate_conv_positions V conv ps 0%nat pvs H p v Hin). Qed.
Print Assumptions bare_pattern_values_are_input_positions.
