(* C06 — Every reported match carries the value registered for the matched pattern. *)
From DV Require Import Model.Base Model.Nfa Model.BwBuild Model.BwSearch Model.Api Model.Spec
     Model.Cert Proofs.BwCert Theory.SpecAdequacy.
Local Open Scope N_scope.

(* every element of the three executable specifications is a true occurrence carrying a value
   registered for exactly that byte string, with 0 <= start < end <= |h| *)
Theorem spec_overlapping_sound :
  forall (V : Type) (pvs : list (list N * V)) (h : list N) (s e : nat) (v : V),
    In (s, e, v) (spec_overlapping V pvs h) ->
    (s < e <= length h)%nat /\ In (sub h s e, v) pvs.
Proof. intros V pvs h s e v H. apply spec_overlapping_adequate in H. exact H. Qed.
Print Assumptions spec_overlapping_sound.

Theorem spec_nosuffix_sound :
  forall (V : Type) (pvs : list (list N * V)) (h : list N) (s e : nat) (v : V),
    In (s, e, v) (spec_nosuffix V pvs h) ->
    (s < e <= length h)%nat /\ In (sub h s e, v) pvs.
Proof.
  intros V pvs h s e v H. apply spec_nosuffix_adequate in H as (e' & He & r & Hr).
  apply (spec_overlapping_adequate V pvs h s e v). unfold spec_overlapping. apply in_flat_map.
  exists e'. split; [apply in_seq; lia|]. rewrite Hr. left. reflexivity.
Qed.
Print Assumptions spec_nosuffix_sound.

(* hence, for every certified byte-wise automaton and every haystack, every match reported by the
   overlapping and the no-suffix search is such an occurrence with its registered value *)
Theorem bw_overlapping_match_sound :
  forall (V : Type) (veqb : V -> V -> bool), (forall a b, veqb a b = true -> a = b) ->
  forall (A : bw_automaton V) (pvs : list (list N * V)), bw_cert_ok veqb A pvs = true ->
  forall h ms, Forall (fun b => b < 256) h -> bw_find_overlapping_iter V A h = Ok ms ->
  forall s e v, In (s, e, v) ms -> (s < e <= length h)%nat /\ In (sub h s e, v) pvs.
Proof.
  intros V veqb Hv A pvs C h ms Hb Hr s e v Hin.
  rewrite (bw_overlapping_correct_lemma V veqb Hv A pvs C h Hb) in Hr. inversion Hr; subst.
  apply spec_overlapping_sound. exact Hin.
Qed.
Print Assumptions bw_overlapping_match_sound.

Theorem bw_nosuffix_match_sound :
  forall (V : Type) (veqb : V -> V -> bool), (forall a b, veqb a b = true -> a = b) ->
  forall (A : bw_automaton V) (pvs : list (list N * V)), bw_cert_ok veqb A pvs = true ->
  forall h ms, Forall (fun b => b < 256) h -> bw_find_overlapping_no_suffix_iter V A h = Ok ms ->
  forall s e v, In (s, e, v) ms -> (s < e <= length h)%nat /\ In (sub h s e, v) pvs.
Proof.
  intros V veqb Hv A pvs C h ms Hb Hr s e v Hin.
  rewrite (bw_nosuffix_correct_lemma V veqb Hv A pvs C h Hb) in Hr. inversion Hr; subst.
  apply spec_nosuffix_sound. exact Hin.
Qed.
Print Assumptions bw_nosuffix_match_sound.

(* in a duplicate-free collection the value registered for a byte string is unique, so "a value
   registered for h[s..e]" is THE value the user attached to it (also when values repeat) *)
Theorem value_unique :
  forall (V : Type) (pvs : list (list N * V)) p v v',
    NoDup (map fst pvs) -> In (p, v) pvs -> In (p, v') pvs -> v = v'.
Proof.
  intros V pvs p v v' Hnd. induction pvs as [|[q w] l IH]; cbn [map fst In] in *; [tauto|].
  inversion Hnd as [|? ? Hnot Hnd']; subst. intros [H1|H1] [H2|H2].
  - congruence.
  - inversion H1; subst. exfalso. apply Hnot. apply in_map_iff. exists (p, v'). auto.
  - inversion H2; subst. exfalso. apply Hnot. apply in_map_iff. exists (p, v). auto.
  - apply IH; assumption.
Qed.
Print Assumptions value_unique.
