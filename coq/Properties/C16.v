(* C16 — daacfind prints exactly the matching lines.  The model is Model/Cli.v (pattern list
   assembly, BufRead::lines, find_and_output with both colour arms, prefixes); clap, termcolor and
   the I/O are outside and observed on the real dev and release binaries by ./check C16. *)
From DV Require Import Model.Base Model.Nfa Model.BwBuild Model.BwSearch Model.Api Model.Spec
     Model.Cert Model.Cli Model.Utf8 Proofs.CliProps Proofs.Utf8Props Theory.Utf8Spec Proofs.CliColour Proofs.TrieInv Proofs.NoPanic Proofs.CliMain Model.CliRaw Proofs.CliRawMain Proofs.Utf8Sound Proofs.CliRawBytes.
Local Open Scope N_scope.

(* "the line contains an occurrence of some pattern", on the property's own vocabulary *)
Theorem has_occ_means_occurrence :
  forall (pvs : list (list N * unit)) (line : list N),
    has_occ pvs line = true <-> exists s e v, occ_at unit pvs line s e v.
Proof. exact has_occ_iff. Qed.
Print Assumptions has_occ_means_occurrence.

(* Without colour, for a certified automaton of the pattern list: a line is printed iff it contains
   an occurrence, and what is printed is prefix ++ line ++ LF with the line's bytes unchanged. *)
Theorem cli_filter_line :
  forall (A : bw_automaton unit) (pvs : list (list N * unit)), bw_cert_ok ueqb A pvs = true ->
  forall prefix line, Forall (fun b => b < 256) line ->
    find_and_output A false prefix line
    = Ok (if has_occ pvs line then Some (prefix ++ line ++ [10]) else None).
Proof. intros A pvs C prefix line Hb. exact (find_and_output_plain A pvs C prefix line Hb). Qed.
Print Assumptions cli_filter_line.

(* The whole line loop: exactly the matching lines, in input order, each after its optional
   file-name and line-number prefix, and nothing for the other lines. *)
Theorem cli_filter :
  forall (A : bw_automaton unit) (pvs : list (list N * unit)), bw_cert_ok ueqb A pvs = true ->
  forall fl fname, cf_color fl = false -> forall ls i, Forall (Forall (fun b => b < 256)) ls ->
    run_lines A fl fname i ls = Ok (expected_lines pvs fl fname i ls).
Proof. intros A pvs C fl fname Hc ls i Hb. exact (run_lines_plain A pvs C fl fname Hc ls i Hb). Qed.
Print Assumptions cli_filter.

(* With colour the same lines are selected *)
Theorem cli_colour_selects_same_lines :
  forall (A : bw_automaton unit) (pvs : list (list N * unit)), bw_cert_ok ueqb A pvs = true ->
  forall prefix line, Forall (fun b => b < 256) line ->
    match find_and_output A true prefix line with
    | Ok None => has_occ pvs line = false
    | _ => has_occ pvs line = true
    end.
Proof. intros A pvs C prefix line Hb. exact (find_and_output_colour_lines A pvs C prefix line Hb). Qed.
Print Assumptions cli_colour_selects_same_lines.

(* Non-vacuity: patterns ab / bc; the automaton daacfind builds passes the checker; two of three
   lines are printed with -n. *)
Definition ex_pats : list (list N) := [[97; 98]; [98; 99]].
Example c16_observed :
  match bw_build unit (fun _ => Some tt) Standard NFB_DEFAULT ex_pats with
  | Ok A => bw_cert_ok ueqb A (map (fun p => (p, tt)) ex_pats) = true
            /\ run_lines A {| cf_color := false; cf_lineno := true; cf_nofilename := false |} None 0
                         [[120; 97; 98]; [122]; [98; 99; 98; 99]]
               = Ok [48; 58; 120; 97; 98; 10; 50; 58; 98; 99; 98; 99; 10]
  | _ => False
  end.
Proof. vm_compute. split; reflexivity. Qed.

(* ---- THE HIGHLIGHTER --------------------------------------------------------------------------------
   With colour, for a line that contains an occurrence, find_and_output prints prefix, then the
   line cut into maximal runs, each run behind the escape sequence of its colour (red for covered
   bytes, reset for the others; a final reset when the line ends in red), then LF.  [render] is
   that rendering for the coverage function of ALL pattern occurrences ("the highlighted bytes of
   a line are exactly those covered by at least one occurrence of some pattern"), although the
   program only looks at the longest match per end position.  Hypothesis: occurrences start and
   end on character boundaries (the program slices the line as a str; otherwise it would panic)
   -- true of every UTF-8 line and UTF-8 patterns (cli_highlight_utf8). *)
Theorem cli_highlight :
  forall (A : bw_automaton unit) (pvs : list (list N * unit)), bw_cert_ok ueqb A pvs = true ->
  forall prefix line, Forall (fun b => b < 256) line -> has_occ pvs line = true ->
    (forall s e v, occ_at unit pvs line s e v -> is_char_boundary line s = true /\ is_char_boundary line e = true) ->
    find_and_output A true prefix line
    = Ok (Some (prefix ++ render (Cli.covered (occs_of pvs line)) line 0 false [] ++ [10])).
Proof. intros A pvs C prefix line Hb Ho Hbd. exact (find_and_output_colour A pvs C prefix line Hb Ho Hbd). Qed.
Print Assumptions cli_highlight.

(* what a rendering is: painted segments whose bytes are the line's bytes, each red exactly when
   it is covered *)
Theorem rendering_is_the_coloured_line :
  forall (cov : nat -> bool) (line : list N),
    render cov line 0 false [] = flat_map paint (segs cov line 0 false []) ++ (if last_red (segs cov line 0 false []) then ESC_RESET else [])
    /\ flat_map (fun seg => map (fun b => (b, fst seg)) (snd seg)) (segs cov line 0 false [])
       = combine line (map cov (seq 0 (length line))).
Proof. intros cov line. split; [apply render_segs|exact (segs_coloured cov line 0%nat false [])]. Qed.
Print Assumptions rendering_is_the_coloured_line.

(* UTF-8 lines and UTF-8 patterns (what the command line hands the program): every occurrence
   starts and ends on a character boundary, so the highlighter never panics on a slice *)
Theorem cli_highlight_utf8 :
  forall (A : bw_automaton unit) (cpvs : list (list N * unit)),
    (forall p v, In (p, v) cpvs -> p <> []) -> (forall p v, In (p, v) cpvs -> Forall scalar p) ->
    bw_cert_ok ueqb A (bpvs unit cpvs) = true ->
  forall prefix cs, Forall scalar cs -> has_occ (bpvs unit cpvs) (encode_utf8 cs) = true ->
    find_and_output A true prefix (encode_utf8 cs)
    = Ok (Some (prefix ++ render (Cli.covered (occs_of (bpvs unit cpvs) (encode_utf8 cs))) (encode_utf8 cs) 0 false [] ++ [10])).
Proof.
  intros A cpvs Hne Hsc C prefix cs Hcs Ho.
  apply (find_and_output_colour A (bpvs unit cpvs) C prefix (encode_utf8 cs)); [|exact Ho|exact (utf8_occurrences_on_boundaries cpvs cs Hne Hsc Hcs)].
  apply Forall_forall. intros b Hb. unfold encode_utf8 in Hb. apply in_flat_map in Hb as (c & Hc & Hb).
  rewrite Forall_forall in Hcs. specialize (Hcs c Hc). apply scalar_range in Hcs. unfold encode_char in Hb.
  destruct (c <? 128) eqn:E1; [destruct Hb as [<-|[]]; lia|].
  destruct (c <? 2048) eqn:E2; [destruct Hb as [<-|[<-|[]]]; lia|].
  destruct (c <? 65536) eqn:E3; [destruct Hb as [<-|[<-|[<-|[]]]]; lia|].
  destruct Hb as [<-|[<-|[<-|[<-|[]]]]]; lia.
Qed.
Print Assumptions cli_highlight_utf8.

(* Non-vacuity: patterns ab / bc on "xabcx": bytes 1..3 are red. *)
Example c16_highlight_observed :
  match bw_build unit (fun _ => Some tt) Standard NFB_DEFAULT ex_pats with
  | Ok A => find_and_output A true [] [120; 97; 98; 99; 120]
            = Ok (Some (ESC_RESET ++ [120] ++ ESC_RED ++ [97; 98; 99] ++ ESC_RESET ++ [120] ++ [10]))
  | _ => False
  end.
Proof. vm_compute. reflexivity. Qed.

(* ---- THE WHOLE PROGRAM, NO CERTIFICATE HYPOTHESIS ---------------------------------------------------
   cli_main = pattern list assembly (-f file lines, then the pieces of -p, empty ones skipped),
   DoubleArrayAhoCorasick::new, then the line loop over standard input or over every FILE argument.
   For EVERY pattern list and every input: if the list is not a valid collection the program ends
   with status 1 and prints nothing; otherwise it prints [cli_expected] -- for each input line that
   contains an occurrence of some pattern (has_occ, has_occ_means_occurrence), in order, its
   file-name / line-number prefix, the line itself (with colour: cut into maximal runs, red exactly
   on the bytes covered by an occurrence, rendering_is_the_coloured_line), LF; nothing for other
   lines -- and ends with status 0 (or the builder refuses the collection as too large: status 1).
   Never Panic, UB or OutOfFuel.  Hypotheses: patterns and lines are bytes; total pattern length
   below 2^30; with colour, occurrences lie on character boundaries (cli_main_on_utf8 discharges
   it for UTF-8). *)
Theorem daacfind_prints_exactly_the_matching_lines :
  forall (fl : cli_flags) (pfile pstr : option (list N)) (stdin : list N) (files : list (list N * list N)),
  let pats := cli_patterns pfile pstr in
  (forall p, In p pats -> Forall (fun b => b < 256) p) -> 4 * plain_len pats <= U32_MAX - 1 ->
  inputs_ok (upvs pats) (cf_color fl) stdin files ->
  match spec_build_error pats with
  | Some _ => cli_main fl pfile pstr stdin files = Ok ([], 1)
  | None => cli_main fl pfile pstr stdin files = Ok (cli_expected (upvs pats) fl stdin files, 0)
            \/ cli_main fl pfile pstr stdin files = Ok ([], 1)
  end.
Proof. exact cli_main_lemma. Qed.
Print Assumptions daacfind_prints_exactly_the_matching_lines.

(* the same on UTF-8 arguments and inputs (what the command line and BufRead::lines hand the
   program): pattern file, pattern string, standard input and file contents are the UTF-8 encodings
   of arbitrary scalar-value texts; no side condition is left *)
Theorem daacfind_on_utf8_input :
  forall (fl : cli_flags) (pfile pstr : option (list N)) (stdin : list N) (files : list (list N * list N)),
  (forall f, pfile = Some f -> Forall scalar f) -> (forall s, pstr = Some s -> Forall scalar s) ->
  Forall scalar stdin -> Forall (fun f => Forall scalar (snd f)) files ->
  let pats := map encode_utf8 (ccli_patterns pfile pstr) in
  let bfiles := map (fun f => (fst f, encode_utf8 (snd f))) files in
  let run := cli_main fl (option_map encode_utf8 pfile) (option_map encode_utf8 pstr) (encode_utf8 stdin) bfiles in
  4 * plain_len pats <= U32_MAX - 1 ->
  match spec_build_error pats with
  | Some _ => run = Ok ([], 1)
  | None => run = Ok (cli_expected (upvs pats) fl (encode_utf8 stdin) bfiles, 0) \/ run = Ok ([], 1)
  end.
Proof. exact cli_main_utf8_lemma. Qed.
Print Assumptions daacfind_on_utf8_input.

(* the lines of UTF-8 text are UTF-8 text (LF and CR are ASCII) *)
Theorem lines_of_utf8_text_are_utf8 :
  forall cs, Forall scalar cs ->
    buf_lines (encode_utf8 cs) = map encode_utf8 (cbuf_lines cs) /\ Forall (Forall scalar) (cbuf_lines cs).
Proof. exact buf_lines_utf8. Qed.
Print Assumptions lines_of_utf8_text_are_utf8.

(* Non-vacuity: -p "ab\nbc" -n --color=always on two files; the second line of the first file and
   the only line of the second are printed, prefixes included, covered bytes in red. *)
Example c16_whole_program_observed :
  let fl := {| cf_color := true; cf_lineno := true; cf_nofilename := false |} in
  let files := [([102], [122; 10; 120; 97; 98; 99; 120; 10]); ([103], [98; 99])] in
  spec_build_error (cli_patterns None (Some [97; 98; 10; 98; 99])) = None
  /\ cli_main fl None (Some [97; 98; 10; 98; 99]) [] files
     = Ok (cli_expected (upvs (cli_patterns None (Some [97; 98; 10; 98; 99]))) fl [] files, 0)
  /\ cli_expected (upvs (cli_patterns None (Some [97; 98; 10; 98; 99]))) fl [] files
     = [102; 58; 49; 58] ++ ESC_RESET ++ [120] ++ ESC_RED ++ [97; 98; 99] ++ ESC_RESET ++ [120; 10]
       ++ [103; 58; 48; 58] ++ ESC_RESET ++ ESC_RED ++ [98; 99] ++ ESC_RESET ++ [10].
Proof. vm_compute. repeat split; reflexivity. Qed.

(* ---- beyond the property text: input that is NOT UTF-8 (Model/CliRaw.v) ----------------------------
   BufRead::lines() hands out an error for a line that is not UTF-8; the program stops reading that
   source (status 1 for the pattern file and standard input; for a FILE argument the rest of the file
   is skipped); a FILE name that is not UTF-8 is not printed.  (1) On inputs all of whose lines (and FILE names) are UTF-8 -- the inputs the property speaks of --
   that program IS [cli_main], so every theorem above is a theorem about it. *)
Theorem daacfind_on_bytes_is_daacfind_on_utf8_lines :
  forall fl pfile pstr stdin files,
  (forall f, pfile = Some f -> all_lines_utf8 f = true) ->
  all_lines_utf8 stdin = true -> forallb (fun f => valid_utf8 (fst f) && all_lines_utf8 (snd f)) files = true ->
  cli_main_raw fl pfile pstr stdin files = cli_main fl pfile pstr stdin files.
Proof. exact cli_main_raw_on_utf8_lines. Qed.
Print Assumptions daacfind_on_bytes_is_daacfind_on_utf8_lines.

(* (2) On arbitrary bytes it prints exactly the matching lines among the lines handed out before the
   first line that is not UTF-8 (per source), with the status described above. *)
Theorem daacfind_on_arbitrary_bytes :
  forall (fl : cli_flags) (pfile pstr : option (list N)) (stdin : list N) (files : list (list N * list N)),
  let pats := cli_patterns pfile pstr in
  (forall p, In p pats -> Forall (fun b => b < 256) p) -> 4 * plain_len pats <= U32_MAX - 1 ->
  inputs_ok_raw (upvs pats) (cf_color fl) stdin files ->
  if match pfile with Some f => negb (all_lines_utf8 f) | None => false end
  then cli_main_raw fl pfile pstr stdin files = Ok ([], 1)
  else match spec_build_error pats with
  | Some _ => cli_main_raw fl pfile pstr stdin files = Ok ([], 1)
  | None => cli_main_raw fl pfile pstr stdin files = Ok (cli_expected_raw (upvs pats) fl stdin files)
            \/ cli_main_raw fl pfile pstr stdin files = Ok ([], 1)
  end.
Proof. exact cli_main_raw_lemma. Qed.
Print Assumptions daacfind_on_arbitrary_bytes.

(* the lines handed out: a prefix of the lines of the input, all UTF-8, ending at the first line that is not *)
Theorem lines_handed_out_before_the_first_invalid_line :
  forall ls, exists rest, ls = fst (valid_prefix ls) ++ rest
    /\ forallb valid_utf8 (fst (valid_prefix ls)) = true
    /\ (if snd (valid_prefix ls) then rest = [] else exists l r, rest = l :: r /\ valid_utf8 l = false).
Proof. exact valid_prefix_spec. Qed.
Print Assumptions lines_handed_out_before_the_first_invalid_line.

(* (3) the same with NO side condition left: the -p string is UTF-8 (clap hands out a String);
   the pattern file, standard input, the file contents and the file names are ANY bytes.  The lines
   handed out are UTF-8 (std's decoder accepts exactly the encodings of scalar-value texts:
   Properties/C08.v, valid_utf8_is_exactly_the_image_of_the_encoder), so their occurrences lie on
   character boundaries and the colour arm never panics. *)
Theorem daacfind_on_arbitrary_bytes_no_side_condition :
  forall (fl : cli_flags) (pfile pstr : option (list N)) (stdin : list N) (files : list (list N * list N)),
  (forall s, pstr = Some s -> valid_utf8 s = true) ->
  let pats := cli_patterns pfile pstr in
  4 * plain_len pats <= U32_MAX - 1 ->
  if match pfile with Some f => negb (all_lines_utf8 f) | None => false end
  then cli_main_raw fl pfile pstr stdin files = Ok ([], 1)
  else match spec_build_error pats with
  | Some _ => cli_main_raw fl pfile pstr stdin files = Ok ([], 1)
  | None => cli_main_raw fl pfile pstr stdin files = Ok (cli_expected_raw (upvs pats) fl stdin files)
            \/ cli_main_raw fl pfile pstr stdin files = Ok ([], 1)
  end.
Proof. exact cli_main_raw_bytes_lemma. Qed.
Print Assumptions daacfind_on_arbitrary_bytes_no_side_condition.

(* (4) on the inputs the property speaks of -- pattern file, standard input, file contents and file
   names the UTF-8 encodings of scalar-value texts -- the program on bytes IS the program of
   Model/Cli.v, so daacfind_on_utf8_input is a theorem about it *)
Theorem daacfind_on_bytes_given_utf8_text :
  forall (fl : cli_flags) (pfile pstr : option (list N)) (stdin : list N) (files : list (list N * list N)),
  (forall f, pfile = Some f -> Forall scalar f) -> Forall scalar stdin ->
  Forall (fun f => Forall scalar (fst f) /\ Forall scalar (snd f)) files ->
  let bfiles := map (fun f => (encode_utf8 (fst f), encode_utf8 (snd f))) files in
  cli_main_raw fl (option_map encode_utf8 pfile) pstr (encode_utf8 stdin) bfiles
  = cli_main fl (option_map encode_utf8 pfile) pstr (encode_utf8 stdin) bfiles.
Proof. exact cli_main_raw_utf8_text. Qed.
Print Assumptions daacfind_on_bytes_given_utf8_text.

(* Non-vacuity: -p ab -n on standard input "ab\n<FF>\nab\n": the first line is printed, the program
   ends with status 1 at the line that is not UTF-8 (what the real binary does). *)
Example c16_raw_observed :
  cli_main_raw {| cf_color := false; cf_lineno := true; cf_nofilename := false |} None (Some [97; 98])
               [97; 98; 10; 255; 10; 97; 98; 10] [] = Ok ([48; 58; 97; 98; 10], 1).
Proof. vm_compute. reflexivity. Qed.
