(* C16 — daacfind prints exactly the matching lines.  The model is Model/Cli.v (pattern list
   assembly, BufRead::lines, find_and_output with both colour arms, prefixes); clap, termcolor and
   the I/O are outside and observed on the real dev and release binaries by ./check C16. *)
From DV Require Import Model.Base Model.Nfa Model.BwBuild Model.BwSearch Model.Api Model.Spec
     Model.Cert Model.Cli Proofs.CliProps.
Local Open Scope N_scope.

(* "the line contains an occurrence of some pattern", on the property's own vocabulary *)
Theorem has_occ_means_occurrence :
  forall (pvs : list (list N * unit)) (line : list N),
    has_occ pvs line = true <-> exists s e v, occ_at unit pvs line s e v.
Proof. exact has_occ_iff. Qed.
Print Assumptions has_occ_means_occurrence.

(* Without colour, for a certified automaton of the pattern list: a line is printed iff it contains
   an occurrence, and what is printed is prefix ++ line ++ LF with the line's bytes unchanged. *)
Theorem cli_filter_line :
  forall (A : bw_automaton unit) (pvs : list (list N * unit)), bw_cert_ok ueqb A pvs = true ->
  forall prefix line, Forall (fun b => b < 256) line ->
    find_and_output A false prefix line
    = Ok (if has_occ pvs line then Some (prefix ++ line ++ [10]) else None).
Proof. intros A pvs C prefix line Hb. exact (find_and_output_plain A pvs C prefix line Hb). Qed.
Print Assumptions cli_filter_line.

(* The whole line loop: exactly the matching lines, in input order, each after its optional
   file-name and line-number prefix, and nothing for the other lines. *)
Theorem cli_filter :
  forall (A : bw_automaton unit) (pvs : list (list N * unit)), bw_cert_ok ueqb A pvs = true ->
  forall fl fname, cf_color fl = false -> forall ls i, Forall (Forall (fun b => b < 256)) ls ->
    run_lines A fl fname i ls = Ok (expected_lines pvs fl fname i ls).
Proof. intros A pvs C fl fname Hc ls i Hb. exact (run_lines_plain A pvs C fl fname Hc ls i Hb). Qed.
Print Assumptions cli_filter.

(* With colour the same lines are selected (the bytes between the escape sequences are compared
   with the real binaries; the highlight theorem is listed as missing in DESIGN.md) *)
Theorem cli_colour_selects_same_lines :
  forall (A : bw_automaton unit) (pvs : list (list N * unit)), bw_cert_ok ueqb A pvs = true ->
  forall prefix line, Forall (fun b => b < 256) line ->
    match find_and_output A true prefix line with
    | Ok None => has_occ pvs line = false
    | _ => has_occ pvs line = true
    end.
Proof. intros A pvs C prefix line Hb. exact (find_and_output_colour_lines A pvs C prefix line Hb). Qed.
Print Assumptions cli_colour_selects_same_lines.

(* Non-vacuity: patterns ab / bc; the automaton daacfind builds passes the checker; two of three
   lines are printed with -n. *)
Definition ex_pats : list (list N) := [[97; 98]; [98; 99]].
Example c16_observed :
  match bw_build unit (fun _ => Some tt) Standard NFB_DEFAULT ex_pats with
  | Ok A => bw_cert_ok ueqb A (map (fun p => (p, tt)) ex_pats) = true
            /\ run_lines A {| cf_color := false; cf_lineno := true; cf_nofilename := false |} None 0
                         [[120; 97; 98]; [122]; [98; 99; 98; 99]]
               = Ok [48; 58; 120; 97; 98; 10; 50; 58; 98; 99; 98; 99; 10]
  | _ => False
  end.
Proof. vm_compute. split; reflexivity. Qed.
