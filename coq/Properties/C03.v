(* C03 — Leftmost-longest search picks the leftmost start, then the longest pattern there. *)
From DV Require Import Model.Base Model.Nfa Model.BwBuild Model.BwSearch Model.Utf8 Model.CwBuild Model.Api Model.Spec
     Model.Cert Proofs.Leftmost Proofs.BwLeftmost Proofs.Utf8Props Proofs.CwCert Proofs.CwLeftmost Proofs.TrieInv Proofs.BuildTrie Proofs.BuildCertLm Proofs.BuiltAutomata.
Local Open Scope N_scope.

(* For every byte-wise automaton of a leftmost kind that passes the leftmost certificate checker
   against the pattern/value pairs (every fail link is dead exactly when the textbook fail link
   would drop the start of the leftmost occurrence inside the node; every output is the pattern
   that is the suffix starting at that start) and EVERY haystack of bytes, leftmost_find_iter of
   the model returns exactly the executable specification spec_lml: the greedy left-to-right
   tiling by "least start, then longest pattern there, resume at its end". *)
Theorem bw_lml_correct :
  forall (V : Type) (veqb : V -> V -> bool), (forall a b, veqb a b = true -> a = b) ->
  forall (A : bw_automaton V) (pvs : list (list N * V)), bw_lm_cert_ok veqb A pvs = true ->
  forall h : list N, Forall (fun b => b < 256) h ->
    bw_leftmost_find_iter V A h = Ok (spec_lml V pvs h).
Proof. intros V veqb Hv A pvs C h Hb. exact (bw_leftmost_correct_lemma V veqb Hv A pvs C h Hb). Qed.
Print Assumptions bw_lml_correct.

(* Character-wise automaton: on the UTF-8 encoding of ANY text the result is spec_lml of the text's
   characters with its positions translated to byte offsets (all on character boundaries). *)
Theorem cw_lml_correct :
  forall (V : Type) (veqb : V -> V -> bool), (forall a b, veqb a b = true -> a = b) ->
  forall (A : cw_automaton V) (pvs : list (list N * V)), cw_lm_cert_ok veqb A pvs = true ->
  forall cs : list N, Forall scalar cs ->
    cw_leftmost_find_iter V A (encode_utf8 cs) = Ok (map (to_bytes V cs) (spec_lml V pvs cs)).
Proof. intros V veqb Hv A pvs C cs Hs. exact (cw_leftmost_correct_lemma V veqb Hv A pvs C cs Hs). Qed.
Print Assumptions cw_lml_correct.

(* What each step of spec_lml chooses, on the property's own vocabulary: at the first position
   from [from] on at which some pattern occurs, the occurrence (s, e) such that every occurrence
   of the remaining text starts at or after s and those starting at s end at or before e. *)
Theorem spec_lml_step_is_leftmost_longest :
  forall (V : Type) (child : N -> N -> res (option N)) (pvs : list (list N * V)),
    (forall p v, In (p, v) pvs -> p <> [] /\ Cert.inT child p = true) ->
  forall (h : list N) (from : nat), (from <= length h)%nat ->
    let R := skipn from h in
    match first_start V (longest_at V pvs h) (seq from (length h - from)) with
    | Some (s, pv) => (from <= s)%nat /\ In pv pvs
                      /\ isLL V pvs R (s - from) (s - from + length (fst pv))
                      /\ sub R (s - from) (s - from + length (fst pv)) = fst pv
    | None => forall a b, ~ occ V pvs R a b
    end.
Proof. intros V child pvs H h from Hf. exact (spec_choice V child pvs H h from Hf). Qed.
Print Assumptions spec_lml_step_is_leftmost_longest.

(* the leftmost-longest occurrence is unique *)
Theorem leftmost_longest_unique :
  forall (V : Type) (child : N -> N -> res (option N)) (pvs : list (list N * V)),
    (forall p v, In (p, v) pvs -> p <> [] /\ Cert.inT child p = true) ->
  forall R a b a' b', isLL V pvs R a b -> isLL V pvs R a' b' -> a = a' /\ b = b'.
Proof. intros V child pvs H R a b a' b'. exact (isLL_unique V child pvs H R a b a' b'). Qed.
Print Assumptions leftmost_longest_unique.

(* Non-vacuity: ab / abcd / bc / cde under leftmost-longest. *)
Definition ex_pvs : list (list N * Z) :=
  [([97; 98], 0%Z); ([97; 98; 99; 100], 1%Z); ([98; 99], 2%Z); ([99; 100; 101], 3%Z)].
Example c03_hypotheses_met :
  match bw_build_with_values Z LeftmostLongest 16 ex_pvs with
  | Ok A => bw_lm_cert_ok Z.eqb A ex_pvs = true
            /\ bw_leftmost_find_iter Z A [120; 97; 98; 99; 100; 101; 98; 99; 100; 101; 97; 98; 99]
               = Ok [(1, 5, 1%Z); (6, 8, 2%Z); (10, 12, 0%Z)]%nat
  | _ => False
  end.
Proof. vm_compute. split; reflexivity. Qed.

Example c03_cw_hypotheses_met :
  match cw_build_with_values Z LeftmostLongest 16 [([233; 128512], 1%Z); ([233], 2%Z); ([128512; 97; 98], 3%Z)] with
  | Ok A => cw_lm_cert_ok Z.eqb A [([233; 128512], 1%Z); ([233], 2%Z); ([128512; 97; 98], 3%Z)] = true
            /\ cw_leftmost_find_iter Z A (encode_utf8 [120; 233; 128512; 97; 98; 233])
               = Ok [(1, 7, 1%Z); (9, 11, 2%Z)]%nat
  | _ => False
  end.
Proof. vm_compute. split; reflexivity. Qed.

(* THE BUILDER THEOREM for the leftmost kinds (Proofs/NfaFailsLm.v, BuildCertLm.v): every automaton
   construction returns under leftmost-longest / leftmost-first semantics passes the leftmost
   certificate for the registered patterns -- the breadth-first pass of build_fails_leftmost sets the
   fail link of a node to DEAD exactly when the textbook link would drop the start of the leftmost
   pattern occurrence inside the node, and the output position to the pattern starting there; the
   double-array layout is the kind-independent refinement of DaRefine / CwDaRefine. *)
Theorem leftmost_built_automata_are_certified :
  forall (V : Type) (veqb : V -> V -> bool), (forall v, veqb v v = true) ->
  forall k nfb (pvs : list (list N * V)), k <> Standard -> 4 * total_len V pvs <= U32_MAX - 1 ->
    (forall (A : bw_automaton V), (forall p v, In (p, v) pvs -> Forall (fun b => b < 256) p) ->
       bw_build_with_values V k nfb pvs = Ok A -> bw_lm_cert_ok veqb A (regd V k pvs) = true)
    /\ (forall (A : cw_automaton V), cw_build_with_values V k nfb pvs = Ok A -> cw_lm_cert_ok veqb A (regd V k pvs) = true).
Proof.
  intros V veqb Hr k nfb pvs Hk Hs. split.
  - intros A Hb HA. exact (bw_build_lm_cert_lemma V veqb Hr k nfb pvs A Hk Hb Hs HA).
  - intros A HA. exact (cw_build_lm_cert_lemma V veqb Hr k nfb pvs A Hk Hs HA).
Qed.
Print Assumptions leftmost_built_automata_are_certified.

(* C03 with no certificate hypothesis, both variants *)
Theorem bw_lml_correct_for_every_built_automaton :
  forall (V : Type) (veqb : V -> V -> bool), (forall a b, veqb a b = true <-> a = b) ->
  forall nfb (pvs : list (list N * V)) (A : bw_automaton V),
    (forall p v, In (p, v) pvs -> Forall (fun b => b < 256) p) -> 4 * total_len V pvs <= U32_MAX - 1 ->
    bw_build_with_values V LeftmostLongest nfb pvs = Ok A ->
  forall h, Forall (fun b => b < 256) h -> bw_leftmost_find_iter V A h = Ok (spec_lml V pvs h).
Proof. exact bw_built_lml. Qed.
Print Assumptions bw_lml_correct_for_every_built_automaton.

Theorem cw_lml_correct_for_every_built_automaton :
  forall (V : Type) (veqb : V -> V -> bool), (forall a b, veqb a b = true <-> a = b) ->
  forall nfb (pvs : list (list N * V)) (A : cw_automaton V),
    4 * total_len V pvs <= U32_MAX - 1 ->
    cw_build_with_values V LeftmostLongest nfb pvs = Ok A ->
  forall cs, Forall scalar cs -> cw_leftmost_find_iter V A (encode_utf8 cs) = Ok (map (to_bytes V cs) (spec_lml V pvs cs)).
Proof. exact cw_built_lml. Qed.
Print Assumptions cw_lml_correct_for_every_built_automaton.

(* ---- C03 AS ONE DECLARATIVE STATEMENT ----------------------------------------------------------------
   [lm_seq pick pvs h from ms] (Theory/SpecLeftmostSeq.v): every element of ms starts at the smallest
   position >= the end of the previous element (initially [from]) at which ANY occurrence starts
   (so no occurrence starts in a gap), is the occurrence chosen there by [pick], and the next
   element is sought from its end; ms stops exactly when no occurrence starts at or after the end
   of its last element.  [lml_pick]: the occurrence of the longest pattern occurring at that start.
   The only notions underneath are [occ_at] and [occurs_at] (= occ_at for one pattern). *)
From DV Require Import Theory.SpecLeftmostSeq Theory.Utf8Spec Theory.Utf8Spec2 Proofs.BuildTrie Proofs.BuildProps.

Theorem spec_lml_is_the_leftmost_longest_sequence :
  forall (V : Type) (pvs : list (list N * V)) (h : list N),
    lm_seq V (lml_pick V pvs h) pvs h 0 (spec_lml V pvs h).
Proof. exact SpecLeftmostSeq.spec_lml_is_the_leftmost_longest_sequence. Qed.
Print Assumptions spec_lml_is_the_leftmost_longest_sequence.

Theorem occurrence_of_one_pattern :
  forall (V : Type) (pvs : list (list N * V)) (h : list N) (s e : nat) (v : V),
    occ_at V pvs h s e v <-> exists p, In (p, v) pvs /\ occurs_at h s p /\ e = (s + length p)%nat.
Proof. exact occ_at_occurs. Qed.
Print Assumptions occurrence_of_one_pattern.

(* consequences listed by the property: true occurrences, non-overlapping and increasing; the
   sequence of positions is determined by the rule *)
Theorem leftmost_longest_sequences_are_sound_disjoint_and_unique :
  forall (V : Type) (pvs : list (list N * V)) (h : list N) (from : nat) (ms : list (nat * nat * V)),
    lm_seq V (lml_pick V pvs h) pvs h from ms ->
    (forall s e v, In (s, e, v) ms -> occ_at V pvs h s e v /\ (from <= s)%nat)
    /\ (forall a m b m' c, ms = a ++ m :: b ++ m' :: c -> (snd (fst m) <= fst (fst m'))%nat)
    /\ (forall ms', lm_seq V (lml_pick V pvs h) pvs h from ms' -> map fst ms = map fst ms').
Proof.
  intros V pvs h from ms H. split; [|split].
  - exact (lm_seq_sound V _ pvs h (lml_pick_occ V pvs h) from ms H).
  - exact (lm_seq_non_overlapping V _ pvs h (lml_pick_occ V pvs h) from ms H).
  - exact (lml_seq_positions_unique V pvs h from ms H).
Qed.
Print Assumptions leftmost_longest_sequences_are_sound_disjoint_and_unique.

Theorem bw_leftmost_longest_search_returns_the_leftmost_longest_sequence :
  forall (V : Type) (veqb : V -> V -> bool), (forall a b, veqb a b = true <-> a = b) ->
  forall nfb (pvs : list (list N * V)) (A : bw_automaton V),
    (forall p v, In (p, v) pvs -> Forall (fun b => b < 256) p) -> 4 * total_len V pvs <= U32_MAX - 1 ->
    bw_build_with_values V LeftmostLongest nfb pvs = Ok A ->
  forall h, Forall (fun b => b < 256) h ->
    exists ms, bw_leftmost_find_iter V A h = Ok ms /\ lm_seq V (lml_pick V pvs h) pvs h 0 ms.
Proof.
  intros V veqb Hv nfb pvs A Hb Hs HA h Hh. exists (spec_lml V pvs h). split.
  - exact (bw_built_lml V veqb Hv nfb pvs A Hb Hs HA h Hh).
  - apply SpecLeftmostSeq.spec_lml_is_the_leftmost_longest_sequence.
Qed.
Print Assumptions bw_leftmost_longest_search_returns_the_leftmost_longest_sequence.

(* character-wise, on the UTF-8 encoding of any text: the same statement about BYTE positions and
   the encoded patterns *)
Theorem cw_leftmost_longest_search_returns_the_leftmost_longest_sequence :
  forall (V : Type) (veqb : V -> V -> bool), (forall a b, veqb a b = true <-> a = b) ->
  forall nfb (pvs : list (list N * V)) (A : cw_automaton V),
    (forall p v, In (p, v) pvs -> Forall scalar p) -> 4 * total_len V pvs <= U32_MAX - 1 ->
    cw_build_with_values V LeftmostLongest nfb pvs = Ok A ->
  forall cs, Forall scalar cs ->
    exists ms, cw_leftmost_find_iter V A (encode_utf8 cs) = Ok ms
               /\ lm_seq V (lml_pick V (bpvs V pvs) (encode_utf8 cs)) (bpvs V pvs) (encode_utf8 cs) 0 ms.
Proof.
  intros V veqb Hv nfb pvs A Hsc Hs HA cs Hcs. exists (spec_lml V (bpvs V pvs) (encode_utf8 cs)). split.
  - rewrite (cw_built_lml V veqb Hv nfb pvs A Hs HA cs Hcs). f_equal.
    destruct (cw_build_ok_lemma V LeftmostLongest nfb pvs A Hs HA) as (Hv' & _).
    apply spec_build_error_none_iff_valid in Hv' as (_ & Hne0 & Hnd).
    assert (Hne : forall p v, In (p, v) pvs -> p <> []).
    { intros p v Hin. rewrite Forall_forall in Hne0. apply Hne0. apply in_map_iff. exists (p, v). auto. }
    symmetry. exact (spec_lml_bytes_eq_chars V pvs Hne Hsc cs Hcs).
  - apply SpecLeftmostSeq.spec_lml_is_the_leftmost_longest_sequence.
Qed.
Print Assumptions cw_leftmost_longest_search_returns_the_leftmost_longest_sequence.
