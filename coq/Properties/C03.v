(* C03 — Leftmost-longest search picks the leftmost start, then the longest pattern there. *)
From DV Require Import Model.Base Model.Nfa Model.BwBuild Model.BwSearch Model.Utf8 Model.CwBuild Model.Api Model.Spec
     Model.Cert Proofs.Leftmost Proofs.BwLeftmost Proofs.Utf8Props Proofs.CwCert Proofs.CwLeftmost Proofs.TrieInv Proofs.BuildTrie Proofs.BuildCertLm Proofs.BuiltAutomata.
Local Open Scope N_scope.

(* For every byte-wise automaton of a leftmost kind that passes the leftmost certificate checker
   against the pattern/value pairs (every fail link is dead exactly when the textbook fail link
   would drop the start of the leftmost occurrence inside the node; every output is the pattern
   that is the suffix starting at that start) and EVERY haystack of bytes, leftmost_find_iter of
   the model returns exactly the executable specification spec_lml: the greedy left-to-right
   tiling by "least start, then longest pattern there, resume at its end". *)
Theorem bw_lml_correct :
  forall (V : Type) (veqb : V -> V -> bool), (forall a b, veqb a b = true -> a = b) ->
  forall (A : bw_automaton V) (pvs : list (list N * V)), bw_lm_cert_ok veqb A pvs = true ->
  forall h : list N, Forall (fun b => b < 256) h ->
    bw_leftmost_find_iter V A h = Ok (spec_lml V pvs h).
Proof. intros V veqb Hv A pvs C h Hb. exact (bw_leftmost_correct_lemma V veqb Hv A pvs C h Hb). Qed.
Print Assumptions bw_lml_correct.

(* Character-wise automaton: on the UTF-8 encoding of ANY text the result is spec_lml of the text's
   characters with its positions translated to byte offsets (all on character boundaries). *)
Theorem cw_lml_correct :
  forall (V : Type) (veqb : V -> V -> bool), (forall a b, veqb a b = true -> a = b) ->
  forall (A : cw_automaton V) (pvs : list (list N * V)), cw_lm_cert_ok veqb A pvs = true ->
  forall cs : list N, Forall scalar cs ->
    cw_leftmost_find_iter V A (encode_utf8 cs) = Ok (map (to_bytes V cs) (spec_lml V pvs cs)).
Proof. intros V veqb Hv A pvs C cs Hs. exact (cw_leftmost_correct_lemma V veqb Hv A pvs C cs Hs). Qed.
Print Assumptions cw_lml_correct.

(* What each step of spec_lml chooses, on the property's own vocabulary: at the first position
   from [from] on at which some pattern occurs, the occurrence (s, e) such that every occurrence
   of the remaining text starts at or after s and those starting at s end at or before e. *)
Theorem spec_lml_step_is_leftmost_longest :
  forall (V : Type) (child : N -> N -> res (option N)) (pvs : list (list N * V)),
    (forall p v, In (p, v) pvs -> p <> [] /\ Cert.inT child p = true) ->
  forall (h : list N) (from : nat), (from <= length h)%nat ->
    let R := skipn from h in
    match first_start V (longest_at V pvs h) (seq from (length h - from)) with
    | Some (s, pv) => (from <= s)%nat /\ In pv pvs
                      /\ isLL V pvs R (s - from) (s - from + length (fst pv))
                      /\ sub R (s - from) (s - from + length (fst pv)) = fst pv
    | None => forall a b, ~ occ V pvs R a b
    end.
Proof. intros V child pvs H h from Hf. exact (spec_choice V child pvs H h from Hf). Qed.
Print Assumptions spec_lml_step_is_leftmost_longest.

(* the leftmost-longest occurrence is unique *)
Theorem leftmost_longest_unique :
  forall (V : Type) (child : N -> N -> res (option N)) (pvs : list (list N * V)),
    (forall p v, In (p, v) pvs -> p <> [] /\ Cert.inT child p = true) ->
  forall R a b a' b', isLL V pvs R a b -> isLL V pvs R a' b' -> a = a' /\ b = b'.
Proof. intros V child pvs H R a b a' b'. exact (isLL_unique V child pvs H R a b a' b'). Qed.
Print Assumptions leftmost_longest_unique.

(* Non-vacuity: ab / abcd / bc / cde under leftmost-longest. *)
Definition ex_pvs : list (list N * Z) :=
  [([97; 98], 0%Z); ([97; 98; 99; 100], 1%Z); ([98; 99], 2%Z); ([99; 100; 101], 3%Z)].
Example c03_hypotheses_met :
  match bw_build_with_values Z LeftmostLongest 16 ex_pvs with
  | Ok A => bw_lm_cert_ok Z.eqb A ex_pvs = true
            /\ bw_leftmost_find_iter Z A [120; 97; 98; 99; 100; 101; 98; 99; 100; 101; 97; 98; 99]
               = Ok [(1, 5, 1%Z); (6, 8, 2%Z); (10, 12, 0%Z)]%nat
  | _ => False
  end.
Proof. vm_compute. split; reflexivity. Qed.

Example c03_cw_hypotheses_met :
  match cw_build_with_values Z LeftmostLongest 16 [([233; 128512], 1%Z); ([233], 2%Z); ([128512; 97; 98], 3%Z)] with
  | Ok A => cw_lm_cert_ok Z.eqb A [([233; 128512], 1%Z); ([233], 2%Z); ([128512; 97; 98], 3%Z)] = true
            /\ cw_leftmost_find_iter Z A (encode_utf8 [120; 233; 128512; 97; 98; 233])
               = Ok [(1, 7, 1%Z); (9, 11, 2%Z)]%nat
  | _ => False
  end.
Proof. vm_compute. split; reflexivity. Qed.

(* THE BUILDER THEOREM for the leftmost kinds (Proofs/NfaFailsLm.v, BuildCertLm.v): every automaton
   construction returns under leftmost-longest / leftmost-first semantics passes the leftmost
   certificate for the registered patterns -- the breadth-first pass of build_fails_leftmost sets the
   fail link of a node to DEAD exactly when the textbook link would drop the start of the leftmost
   pattern occurrence inside the node, and the output position to the pattern starting there; the
   double-array layout is the kind-independent refinement of DaRefine / CwDaRefine. *)
Theorem leftmost_built_automata_are_certified :
  forall (V : Type) (veqb : V -> V -> bool), (forall v, veqb v v = true) ->
  forall k nfb (pvs : list (list N * V)), k <> Standard -> 4 * total_len V pvs <= U32_MAX - 1 ->
    (forall (A : bw_automaton V), (forall p v, In (p, v) pvs -> Forall (fun b => b < 256) p) ->
       bw_build_with_values V k nfb pvs = Ok A -> bw_lm_cert_ok veqb A (regd V k pvs) = true)
    /\ (forall (A : cw_automaton V), cw_build_with_values V k nfb pvs = Ok A -> cw_lm_cert_ok veqb A (regd V k pvs) = true).
Proof.
  intros V veqb Hr k nfb pvs Hk Hs. split.
  - intros A Hb HA. exact (bw_build_lm_cert_lemma V veqb Hr k nfb pvs A Hk Hb Hs HA).
  - intros A HA. exact (cw_build_lm_cert_lemma V veqb Hr k nfb pvs A Hk Hs HA).
Qed.
Print Assumptions leftmost_built_automata_are_certified.

(* C03 with no certificate hypothesis, both variants *)
Theorem bw_lml_correct_for_every_built_automaton :
  forall (V : Type) (veqb : V -> V -> bool), (forall a b, veqb a b = true <-> a = b) ->
  forall nfb (pvs : list (list N * V)) (A : bw_automaton V),
    (forall p v, In (p, v) pvs -> Forall (fun b => b < 256) p) -> 4 * total_len V pvs <= U32_MAX - 1 ->
    bw_build_with_values V LeftmostLongest nfb pvs = Ok A ->
  forall h, Forall (fun b => b < 256) h -> bw_leftmost_find_iter V A h = Ok (spec_lml V pvs h).
Proof. exact bw_built_lml. Qed.
Print Assumptions bw_lml_correct_for_every_built_automaton.

Theorem cw_lml_correct_for_every_built_automaton :
  forall (V : Type) (veqb : V -> V -> bool), (forall a b, veqb a b = true <-> a = b) ->
  forall nfb (pvs : list (list N * V)) (A : cw_automaton V),
    4 * total_len V pvs <= U32_MAX - 1 ->
    cw_build_with_values V LeftmostLongest nfb pvs = Ok A ->
  forall cs, Forall scalar cs -> cw_leftmost_find_iter V A (encode_utf8 cs) = Ok (map (to_bytes V cs) (spec_lml V pvs cs)).
Proof. exact cw_built_lml. Qed.
Print Assumptions cw_lml_correct_for_every_built_automaton.
