(* C15 — Reported automaton statistics are truthful. *)
From DV Require Import Model.Base Model.Nfa Model.BwBuild Model.BwSearch Model.Api Model.Spec
     Model.Cert Model.Utf8 Model.CwBuild Proofs.StatsProps Proofs.TrieInv Proofs.BuildTrie Model.CwSearch Proofs.BuildStats.
Local Open Scope N_scope.

(* For a byte-wise automaton that passes the certificate checker, and whose reported state count
   equals the node count of its goto tree and 1 + the number of distinct non-empty pattern
   prefixes (three comparisons made by [bw_stats_ok]):
     - num_states = 1 + number of distinct non-empty prefixes of the patterns,
     - every one of those prefixes is a state reachable from the root by its own bytes,
     - there is no other state reachable from the root (a pigeon-hole argument on the NoDup list of
       prefixes inside the duplicate-free list of tree nodes of the same length),
     - num_states <= num_elements (and 12 * num_states <= heap_bytes follows, the array holding 12
       bytes per element). *)
Theorem bw_stats_truthful :
  forall (V : Type) (veqb : V -> V -> bool), (forall a b, veqb a b = true -> a = b) ->
  forall (A : bw_automaton V) (pvs : list (list N * V)),
    bw_cert_ok veqb A pvs = true -> bw_stats_ok A pvs = true ->
    let child := bwc_child (bw_sget V A) in
    let D := distinct_nonempty_prefixes V pvs in
    bw_num_states A = 1 + N.of_nat (length D)
    /\ (forall u, In u D -> exists s, Cert.walk child ROOT u = Some s)
    /\ (forall w s, Cert.walk child ROOT w = Some s -> w = [] \/ In w D)
    /\ bw_num_states A <= N.of_nat (length (bw_states A)).
Proof. intros V veqb Hv A pvs C S. exact (bw_stats_truthful_lemma V veqb A pvs C S). Qed.
Print Assumptions bw_stats_truthful.

Theorem bw_heap_bound :
  forall (V : Type) (A : bw_automaton V) (pvs : list (list N * V)) (osz : N),
    bw_stats_ok A pvs = true -> 12 * bw_num_states A <= bw_heap_bytes V osz A.
Proof.
  intros V A pvs osz S. unfold bw_stats_ok in S. rewrite !andb_true_iff in S. destruct S as [_ H].
  apply N.leb_le in H. unfold bw_heap_bytes. lia.
Qed.
Print Assumptions bw_heap_bound.

(* Universal, about the BUILDERS (trie invariant, Proofs/TrieInv.v): for EVERY pattern sequence of
   total length below 2^30 labels that construction accepts, under every match kind and setting, the
   state count the automaton reports is 1 + the number of distinct non-empty prefixes of the
   registered patterns: all patterns, or under leftmost-first the effective ones (those with no
   earlier-registered proper prefix).  Prefixes are byte strings for the byte-wise variant and
   character strings for the character-wise one. *)
Theorem bw_num_states_universal :
  forall (V : Type) k nfb (pvs : list (list N * V)) A, 4 * total_len V pvs <= U32_MAX - 1 ->
    bw_build_with_values V k nfb pvs = Ok A ->
    bw_num_states A = 1 + N.of_nat (length (distinct_nonempty_prefixes V (regd V k pvs))).
Proof. intros V k nfb pvs A H HA. exact (proj1 (proj2 (bw_build_ok_lemma V k nfb pvs A H HA))). Qed.
Print Assumptions bw_num_states_universal.

Theorem cw_num_states_universal :
  forall (V : Type) k nfb (pvs : list (list N * V)) A, 4 * total_len V pvs <= U32_MAX - 1 ->
    cw_build_with_values V k nfb pvs = Ok A ->
    cw_num_states A = 1 + N.of_nat (length (distinct_nonempty_prefixes V (regd V k pvs))).
Proof. intros V k nfb pvs A H HA. exact (proj1 (proj2 (cw_build_ok_lemma V k nfb pvs A H HA))). Qed.
Print Assumptions cw_num_states_universal.

Theorem registered_patterns :
  forall (V : Type) (pvs : list (list N * V)),
    regd V LeftmostFirst pvs = effective V pvs /\ regd V LeftmostLongest pvs = pvs /\ regd V Standard pvs = pvs.
Proof. intros V pvs. repeat split. Qed.
Print Assumptions registered_patterns.

(* C15 IN FULL, for EVERY automaton construction returns -- all three match kinds, any
   num_free_blocks, both variants (Proofs/BuildStats.v: trie invariant + the double array is an
   isomorphic copy of the NFA, for every kind): the reported state count is 1 + the number of
   distinct non-empty prefixes of the registered patterns; every one of those prefixes reaches a
   state of the finished double array from the root by its own labels; nothing else is reachable;
   distinct strings reach distinct slots; and the count never exceeds the element count, so
   12 * num_states <= heap_bytes (byte-wise) and 16 * num_states <= heap_bytes (character-wise). *)
Theorem bw_statistics_truthful_for_every_built_automaton :
  forall (V : Type) k nfb (pvs : list (list N * V)) (A : bw_automaton V),
    (forall p v, In (p, v) pvs -> Forall (fun b => b < 256) p) -> 4 * total_len V pvs <= U32_MAX - 1 ->
    bw_build_with_values V k nfb pvs = Ok A ->
    let child := bwc_child (bw_sget V A) in
    let D := distinct_nonempty_prefixes V (regd V k pvs) in
    bw_num_states A = 1 + N.of_nat (length D)
    /\ (forall u, In u D -> exists s, Cert.walk child ROOT u = Some s)
    /\ (forall w s, Cert.walk child ROOT w = Some s -> w = [] \/ In w D)
    /\ (forall u1 u2 s, Cert.walk child ROOT u1 = Some s -> Cert.walk child ROOT u2 = Some s -> u1 = u2)
    /\ bw_num_states A <= bw_num_elements V A.
Proof. exact bw_stats_universal. Qed.
Print Assumptions bw_statistics_truthful_for_every_built_automaton.

Theorem cw_statistics_truthful_for_every_built_automaton :
  forall (V : Type) k nfb (pvs : list (list N * V)) (A : cw_automaton V),
    4 * total_len V pvs <= U32_MAX - 1 ->
    cw_build_with_values V k nfb pvs = Ok A ->
    let child := cwc_child (cw_sget V A) (cw_tget V A) in
    let D := distinct_nonempty_prefixes V (regd V k pvs) in
    cw_num_states A = 1 + N.of_nat (length D)
    /\ (forall u, In u D -> exists s, Cert.walk child ROOT u = Some s)
    /\ (forall w s, Cert.walk child ROOT w = Some s -> w = [] \/ In w D)
    /\ (forall u1 u2 s, Cert.walk child ROOT u1 = Some s -> Cert.walk child ROOT u2 = Some s -> u1 = u2)
    /\ cw_num_states A <= cw_num_elements V A.
Proof. exact cw_stats_universal. Qed.
Print Assumptions cw_statistics_truthful_for_every_built_automaton.

Theorem heap_bytes_cover_the_states :
  forall (V : Type) (osz : N),
    (forall (A : bw_automaton V), bw_num_states A <= bw_num_elements V A -> 12 * bw_num_states A <= bw_heap_bytes V osz A)
    /\ (forall (A : cw_automaton V), cw_num_states A <= cw_num_elements V A -> 16 * cw_num_states A <= cw_heap_bytes V osz A).
Proof. intros V osz. split; intros A H; unfold bw_heap_bytes, cw_heap_bytes, bw_num_elements, cw_num_elements in *; lia. Qed.
Print Assumptions heap_bytes_cover_the_states.

Definition ex_pvs : list (list N * Z) :=
  [([98; 99; 100], 7%Z); ([97; 98], 8%Z); ([97], 9%Z); ([98], 7%Z); ([97; 98; 99], 1%Z)].
Example c15_hypotheses_met :
  match bw_build_with_values Z Standard 16 ex_pvs with
  | Ok A => bw_cert_ok Z.eqb A ex_pvs = true /\ bw_stats_ok A ex_pvs = true /\ bw_num_states A = 7
  | _ => False
  end.
Proof. vm_compute. repeat split; reflexivity. Qed.

(* ---- the automaton restored from its own serialised bytes reports the same statistics ---------------
   (it IS the same automaton: round-trip theorem of C09, no representability hypothesis) *)
From DV Require Import Model.Ser Proofs.SerProps Proofs.BuildRanges.

Theorem restored_automaton_reports_the_same_statistics :
  forall (V : Type) (SV : serializable V) (dom : V -> Prop), ser_law SV dom ->
  forall k nfb (pvs : list (list N * V)),
    (forall p v, In (p, v) pvs -> dom v) ->
    (forall (A : bw_automaton V), (forall p v, In (p, v) pvs -> Forall (fun b => b < 256) p) ->
       bw_build_with_values V k nfb pvs = Ok A ->
       forall r A' r', bw_deserialize V SV (bw_serialize V SV A ++ r) = Ok (A', r') ->
         bw_num_states A' = bw_num_states A /\ length (bw_states A') = length (bw_states A)
         /\ length (bw_outputs A') = length (bw_outputs A))
    /\ (forall (A : cw_automaton V), (forall p v, In (p, v) pvs -> Forall (fun c => c < 1114112) p) ->
       cw_build_with_values V k nfb pvs = Ok A ->
       forall r A' r', cw_deserialize V SV (cw_serialize V SV A ++ r) = Ok (A', r') ->
         cw_num_states A' = cw_num_states A /\ length (cw_states A') = length (cw_states A)
         /\ length (cw_outputs A') = length (cw_outputs A) /\ cw_mapper A' = cw_mapper A).
Proof.
  intros V SV dom L k nfb pvs Hd. split.
  - intros A Hb HA r A' r' HD.
    rewrite (bw_roundtrip_lemma SV dom L A r (bw_build_ranges_lemma V dom k nfb pvs A Hb Hd HA)) in HD.
    inversion HD; subst. auto.
  - intros A Hb HA r A' r' HD.
    rewrite (cw_roundtrip_lemma SV dom L A r (cw_build_ranges_lemma V dom k nfb pvs A Hb Hd HA)) in HD.
    inversion HD; subst. auto.
Qed.
Print Assumptions restored_automaton_reports_the_same_statistics.
