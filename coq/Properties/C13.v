(* C13 — Every search terminates and standard scans are linear in the haystack. *)
From DV Require Import Model.Base Model.Nfa Model.BwBuild Model.BwSearch Model.Utf8 Model.CwBuild Model.CwSearch Model.Api Model.Spec
     Model.Cert Proofs.BwCert Proofs.Leftmost Proofs.BwLeftmost Proofs.Utf8Props Proofs.CwCert Proofs.TrieInv Proofs.BuiltAutomata.
Local Open Scope N_scope.

(* The model counts every iteration of the transition loop (the [ticks] field threaded through the
   iterators; the implementation's counter hook is compared with it on every run).  For a
   certified byte-wise automaton and ANY haystack of n bytes, running each standard iterator to
   exhaustion with the fuel the public entry point uses (a) terminates normally -- the fuel is
   never exhausted -- and (b) has taken at most 2n iterations in total.  The proof is the potential
   argument "iterations so far + depth of the current node <= 2 * bytes consumed". *)
Theorem bw_find_linear :
  forall (V : Type) (veqb : V -> V -> bool), (forall a b, veqb a b = true -> a = b) ->
  forall (A : bw_automaton V) (pvs : list (list N * V)), bw_cert_ok veqb A pvs = true ->
  forall h : list N, Forall (fun b => b < 256) h ->
  exists ms it', drain V (find_next V (bw_sget V A) (bw_oget V A) (bw_nslots V A)) (S (S (length h))) (find_init h)
                 = Ok (ms, it')
                 /\ (N.to_nat (f_ticks it') <= 2 * length h)%nat.
Proof. intros V veqb Hv A pvs C h Hb. exact (bw_find_linear_lemma V veqb Hv A pvs C h Hb). Qed.
Print Assumptions bw_find_linear.

Theorem bw_overlapping_linear :
  forall (V : Type) (veqb : V -> V -> bool), (forall a b, veqb a b = true -> a = b) ->
  forall (A : bw_automaton V) (pvs : list (list N * V)), bw_cert_ok veqb A pvs = true ->
  forall h : list N, Forall (fun b => b < 256) h ->
  exists ms it', drain V (ovl_next V (bw_sget V A) (bw_oget V A) (bw_nslots V A))
                       (S (S (length h) * S (length (bw_outputs A)))) (ovl_init h) = Ok (ms, it')
                 /\ (N.to_nat (v_ticks it') <= 2 * length h)%nat.
Proof. intros V veqb Hv A pvs C h Hb. exact (bw_overlapping_linear_lemma V veqb Hv A pvs C h Hb). Qed.
Print Assumptions bw_overlapping_linear.

Theorem bw_nosuffix_linear :
  forall (V : Type) (veqb : V -> V -> bool), (forall a b, veqb a b = true -> a = b) ->
  forall (A : bw_automaton V) (pvs : list (list N * V)), bw_cert_ok veqb A pvs = true ->
  forall h : list N, Forall (fun b => b < 256) h ->
  exists ms it', drain V (nos_next V (bw_sget V A) (bw_oget V A) (bw_nslots V A)) (S (S (length h))) (nos_init h)
                 = Ok (ms, it')
                 /\ (N.to_nat (x_ticks it') <= 2 * length h)%nat.
Proof. intros V veqb Hv A pvs C h Hb. exact (bw_nosuffix_linear_lemma V veqb Hv A pvs C h Hb). Qed.
Print Assumptions bw_nosuffix_linear.

(* termination of the public entry points: they return Ok, in particular not OutOfFuel (no fail
   cycle, no output-parent cycle is ever met) *)
Theorem bw_standard_searches_terminate :
  forall (V : Type) (veqb : V -> V -> bool), (forall a b, veqb a b = true -> a = b) ->
  forall (A : bw_automaton V) (pvs : list (list N * V)), bw_cert_ok veqb A pvs = true ->
  forall h : list N, Forall (fun b => b < 256) h ->
    is_ok (bw_find_iter V A h) = true /\ is_ok (bw_find_overlapping_iter V A h) = true
    /\ is_ok (bw_find_overlapping_no_suffix_iter V A h) = true.
Proof.
  intros V veqb Hv A pvs C h Hb.
  rewrite (bw_find_correct_lemma V veqb Hv A pvs C h Hb), (bw_overlapping_correct_lemma V veqb Hv A pvs C h Hb),
          (bw_nosuffix_correct_lemma V veqb Hv A pvs C h Hb). auto.
Qed.
Print Assumptions bw_standard_searches_terminate.

(* the leftmost search of a certified byte-wise automaton and the three standard searches of a
   certified character-wise automaton terminate as well (they return Ok) *)
Theorem bw_leftmost_search_terminates :
  forall (V : Type) (veqb : V -> V -> bool), (forall a b, veqb a b = true -> a = b) ->
  forall (A : bw_automaton V) (pvs : list (list N * V)), bw_lm_cert_ok veqb A pvs = true ->
  forall h : list N, Forall (fun b => b < 256) h -> is_ok (bw_leftmost_find_iter V A h) = true.
Proof. intros V veqb Hv A pvs C h Hb. rewrite (bw_leftmost_correct_lemma V veqb Hv A pvs C h Hb). reflexivity. Qed.
Print Assumptions bw_leftmost_search_terminates.

Theorem cw_standard_searches_terminate :
  forall (V : Type) (veqb : V -> V -> bool), (forall a b, veqb a b = true -> a = b) ->
  forall (A : cw_automaton V) (pvs : list (list N * V)), cw_cert_ok veqb A pvs = true ->
  forall cs : list N, Forall scalar cs ->
    is_ok (cw_find_iter V A (encode_utf8 cs)) = true /\ is_ok (cw_find_overlapping_iter V A (encode_utf8 cs)) = true
    /\ is_ok (cw_find_overlapping_no_suffix_iter V A (encode_utf8 cs)) = true.
Proof.
  intros V veqb Hv A pvs C cs Hs.
  rewrite (cw_find_correct_lemma V veqb Hv A pvs C cs Hs), (cw_overlapping_correct_lemma V veqb Hv A pvs C cs Hs),
          (cw_nosuffix_correct_lemma V veqb Hv A pvs C cs Hs). auto.
Qed.
Print Assumptions cw_standard_searches_terminate.

(* Non-vacuity: a^5 / aab: the haystack aaaaxaaaax falls back along the whole fail chain twice;
   the overlapping scan of 10 bytes takes 18 <= 20 iterations. *)
Definition ex_pvs : list (list N * Z) := [([97; 97; 97; 97; 97], 1%Z); ([97; 97; 98], 2%Z)].
Example c13_observed :
  match bw_build_with_values Z Standard 16 ex_pvs with
  | Ok A => bw_cert_ok Z.eqb A ex_pvs = true
            /\ match drain Z (ovl_next Z (bw_sget Z A) (bw_oget Z A) (bw_nslots Z A)) 40
                           (ovl_init [97; 97; 97; 97; 120; 97; 97; 97; 97; 120]) with
               | Ok (_, it) => v_ticks it = 18
               | _ => False
               end
  | _ => False
  end.
Proof. vm_compute. split; reflexivity. Qed.

(* C13 for EVERY built byte-wise automaton of the standard kind (builder theorem, see C01): each
   standard iterator run to exhaustion terminates within the fuel of the public entry point and
   takes at most 2n transition-loop iterations on a haystack of n bytes. *)
Theorem bw_standard_scans_linear_for_every_built_automaton :
  forall (V : Type) (veqb : V -> V -> bool), (forall a b, veqb a b = true <-> a = b) ->
  forall nfb (pvs : list (list N * V)) (A : bw_automaton V),
    (forall p v, In (p, v) pvs -> Forall (fun b => b < 256) p) -> 4 * total_len V pvs <= U32_MAX - 1 ->
    bw_build_with_values V Standard nfb pvs = Ok A ->
  forall h : list N, Forall (fun b => b < 256) h ->
    (exists ms it', drain V (find_next V (bw_sget V A) (bw_oget V A) (bw_nslots V A)) (S (S (length h))) (find_init h) = Ok (ms, it')
                    /\ (N.to_nat (f_ticks it') <= 2 * length h)%nat)
    /\ (exists ms it', drain V (nos_next V (bw_sget V A) (bw_oget V A) (bw_nslots V A)) (S (S (length h))) (nos_init h) = Ok (ms, it')
                    /\ (N.to_nat (x_ticks it') <= 2 * length h)%nat)
    /\ (exists ms it', drain V (ovl_next V (bw_sget V A) (bw_oget V A) (bw_nslots V A))
                              (S (S (length h) * S (length (bw_outputs A)))) (ovl_init h) = Ok (ms, it')
                    /\ (N.to_nat (v_ticks it') <= 2 * length h)%nat).
Proof.
  intros V veqb Hv nfb pvs A Hb Hs B h Hh. split; [|split].
  - exact (built_find_linear V veqb Hv nfb pvs A Hb Hs B h Hh).
  - exact (built_nosuffix_linear V veqb Hv nfb pvs A Hb Hs B h Hh).
  - exact (built_overlapping_linear V veqb Hv nfb pvs A Hb Hs B h Hh).
Qed.
Print Assumptions bw_standard_scans_linear_for_every_built_automaton.

(* ... and every standard search on EVERY built character-wise automaton terminates with a result *)
Theorem cw_standard_searches_terminate_for_every_built_automaton :
  forall (V : Type) (veqb : V -> V -> bool), (forall a b, veqb a b = true <-> a = b) ->
  forall nfb (pvs : list (list N * V)) (A : cw_automaton V),
    4 * total_len V pvs <= U32_MAX - 1 ->
    cw_build_with_values V Standard nfb pvs = Ok A ->
  forall cs : list N, Forall scalar cs ->
    is_ok (cw_find_iter V A (encode_utf8 cs)) = true /\ is_ok (cw_find_overlapping_iter V A (encode_utf8 cs)) = true
    /\ is_ok (cw_find_overlapping_no_suffix_iter V A (encode_utf8 cs)) = true.
Proof.
  intros V veqb Hv nfb pvs A Hs HA cs Hc.
  rewrite (cw_built_find V veqb Hv nfb pvs A Hs HA cs Hc), (cw_built_overlapping V veqb Hv nfb pvs A Hs HA cs Hc),
          (cw_built_nosuffix V veqb Hv nfb pvs A Hs HA cs Hc). auto.
Qed.
Print Assumptions cw_standard_searches_terminate_for_every_built_automaton.

(* ---- the character-wise variant: at most 2 * (number of characters) <= 2n iterations --------- *)
(* For a certified character-wise automaton and ANY UTF-8 text of m characters (n >= m bytes), each
   standard iterator run to exhaustion with the fuel the public entry point uses terminates normally
   and has taken at most 2m <= 2n transition-loop iterations (one loop entry per character, plus at
   most one fail step per unit of depth gained; characters that are not in the code mapper reset to
   the root with one iteration). *)
Theorem cw_standard_scans_linear :
  forall (V : Type) (veqb : V -> V -> bool), (forall a b, veqb a b = true -> a = b) ->
  forall (A : cw_automaton V) (pvs : list (list N * V)), cw_cert_ok veqb A pvs = true ->
  forall cs : list N, Forall scalar cs ->
    (exists ms it', drain V (cfind_next V (cw_sget V A) (cw_oget V A) (cw_tget V A) (cw_nslots V A))
                          (S (S (length (encode_utf8 cs)))) (find_init (encode_utf8 cs)) = Ok (ms, it')
                    /\ (N.to_nat (f_ticks it') <= 2 * length cs)%nat)
    /\ (exists ms it', drain V (cnos_next V (cw_sget V A) (cw_oget V A) (cw_tget V A) (cw_nslots V A))
                          (S (S (length (encode_utf8 cs)))) (nos_init (encode_utf8 cs)) = Ok (ms, it')
                    /\ (N.to_nat (x_ticks it') <= 2 * length cs)%nat)
    /\ (exists ms it', drain V (covl_next V (cw_sget V A) (cw_oget V A) (cw_tget V A) (cw_nslots V A))
                          (S (S (length (encode_utf8 cs)) * S (length (cw_outputs A)))) (ovl_init (encode_utf8 cs)) = Ok (ms, it')
                    /\ (N.to_nat (v_ticks it') <= 2 * length cs)%nat).
Proof.
  intros V veqb Hv A pvs C cs Hs. split; [|split].
  - exact (cw_find_linear_lemma V veqb Hv A pvs C cs Hs).
  - exact (cw_nosuffix_linear_lemma V veqb Hv A pvs C cs Hs).
  - exact (cw_overlapping_linear_lemma V veqb Hv A pvs C cs Hs).
Qed.
Print Assumptions cw_standard_scans_linear.

(* a text never has more characters than bytes, so 2m <= 2n *)
Theorem chars_le_bytes : forall cs : list N, (length cs <= length (encode_utf8 cs))%nat.
Proof. exact enc_len_ge. Qed.
Print Assumptions chars_le_bytes.

(* ... and for EVERY built character-wise automaton of the standard kind (builder theorem) *)
Theorem cw_standard_scans_linear_for_every_built_automaton :
  forall (V : Type) (veqb : V -> V -> bool), (forall a b, veqb a b = true <-> a = b) ->
  forall nfb (pvs : list (list N * V)) (A : cw_automaton V),
    4 * total_len V pvs <= U32_MAX - 1 ->
    cw_build_with_values V Standard nfb pvs = Ok A ->
  forall cs : list N, Forall scalar cs ->
    (exists ms it', drain V (cfind_next V (cw_sget V A) (cw_oget V A) (cw_tget V A) (cw_nslots V A))
                          (S (S (length (encode_utf8 cs)))) (find_init (encode_utf8 cs)) = Ok (ms, it')
                    /\ (N.to_nat (f_ticks it') <= 2 * length (encode_utf8 cs))%nat)
    /\ (exists ms it', drain V (cnos_next V (cw_sget V A) (cw_oget V A) (cw_tget V A) (cw_nslots V A))
                          (S (S (length (encode_utf8 cs)))) (nos_init (encode_utf8 cs)) = Ok (ms, it')
                    /\ (N.to_nat (x_ticks it') <= 2 * length (encode_utf8 cs))%nat)
    /\ (exists ms it', drain V (covl_next V (cw_sget V A) (cw_oget V A) (cw_tget V A) (cw_nslots V A))
                          (S (S (length (encode_utf8 cs)) * S (length (cw_outputs A)))) (ovl_init (encode_utf8 cs)) = Ok (ms, it')
                    /\ (N.to_nat (v_ticks it') <= 2 * length (encode_utf8 cs))%nat).
Proof.
  intros V veqb Hv nfb pvs A Hs HA cs Hc.
  pose proof (cw_built_cert V veqb Hv nfb pvs A Hs HA) as C.
  pose proof (enc_len_ge cs) as Hle.
  destruct (cw_standard_scans_linear V veqb (fun a b => proj1 (Hv a b)) A pvs C cs Hc)
    as ((m1 & i1 & D1 & T1) & (m2 & i2 & D2 & T2) & (m3 & i3 & D3 & T3)).
  split; [|split]; eexists; eexists; (split; [eassumption|]); eapply Nat.le_trans; try eassumption; apply Nat.mul_le_mono_l; exact Hle.
Qed.
Print Assumptions cw_standard_scans_linear_for_every_built_automaton.

(* ---- the leftmost kinds terminate on EVERY built automaton (they return the specified list) ---- *)
Theorem leftmost_searches_terminate_for_every_built_automaton :
  forall (V : Type) (veqb : V -> V -> bool), (forall a b, veqb a b = true <-> a = b) ->
  forall k, k <> Standard ->
  forall nfb (pvs : list (list N * V)), 4 * total_len V pvs <= U32_MAX - 1 ->
    (forall A, (forall p v, In (p, v) pvs -> Forall (fun b => b < 256) p) ->
       bw_build_with_values V k nfb pvs = Ok A ->
       forall h, Forall (fun b => b < 256) h -> is_ok (bw_leftmost_find_iter V A h) = true)
    /\ (forall A, cw_build_with_values V k nfb pvs = Ok A ->
       forall cs, Forall scalar cs -> is_ok (cw_leftmost_find_iter V A (encode_utf8 cs)) = true).
Proof.
  intros V veqb Hv k Hk nfb pvs Hs. split.
  - intros A Hb HA h Hh. destruct k; [congruence| |].
    + rewrite (bw_built_lml V veqb Hv nfb pvs A Hb Hs HA h Hh). reflexivity.
    + rewrite (bw_built_lmf V veqb Hv nfb pvs A Hb Hs HA h Hh). reflexivity.
  - intros A HA cs Hc. destruct k; [congruence| |].
    + rewrite (cw_built_lml V veqb Hv nfb pvs A Hs HA cs Hc). reflexivity.
    + rewrite (cw_built_lmf V veqb Hv nfb pvs A Hs HA cs Hc). reflexivity.
Qed.
Print Assumptions leftmost_searches_terminate_for_every_built_automaton.
