(* C05 — No-suffix overlapping search reports exactly the longest match per end position. *)
From DV Require Import Model.Base Model.Nfa Model.BwBuild Model.BwSearch Model.Api Model.Spec
     Model.Cert Proofs.BwCert Theory.SpecAdequacy Model.Utf8 Model.CwBuild Proofs.Utf8Props Proofs.CwCert Proofs.TrieInv Proofs.BuiltAutomata.
Local Open Scope N_scope.

Theorem bw_nosuffix_correct :
  forall (V : Type) (veqb : V -> V -> bool), (forall a b, veqb a b = true -> a = b) ->
  forall (A : bw_automaton V) (pvs : list (list N * V)), bw_cert_ok veqb A pvs = true ->
  forall h : list N, Forall (fun b => b < 256) h ->
    bw_find_overlapping_no_suffix_iter V A h = Ok (spec_nosuffix V pvs h).
Proof. intros V veqb Hv A pvs C h Hb. exact (bw_nosuffix_correct_lemma V veqb Hv A pvs C h Hb). Qed.
Print Assumptions bw_nosuffix_correct.

(* the specification holds exactly one entry per end position at which an occurrence ends: the
   head of the (longest-first) list of occurrences ending there; nothing for other positions *)
Theorem spec_nosuffix_one_per_end :
  forall (V : Type) (pvs : list (list N * V)) (h : list N) (x : nat * nat * V),
    In x (spec_nosuffix V pvs h) <->
    exists e, (1 <= e <= length h)%nat /\ exists r, ends_at V pvs h e = x :: r.
Proof. exact spec_nosuffix_adequate. Qed.
Print Assumptions spec_nosuffix_one_per_end.

(* and that head is a true occurrence no other occurrence ending there is longer than *)
Theorem nosuffix_head_is_longest :
  forall (V : Type) (pvs : list (list N * V)) (h : list N) (e : nat) (x : nat * nat * V) r,
    (e <= length h)%nat -> ends_at V pvs h e = x :: r ->
    (exists v, x = (fst (fst x), e, v) /\ occ_at V pvs h (fst (fst x)) e v) /\
    forall s v, occ_at V pvs h s e v -> (fst (fst x) <= s)%nat.
Proof. exact ends_at_head_longest. Qed.
Print Assumptions nosuffix_head_is_longest.

(* Character-wise automaton: patterns are lists of Unicode scalar values, the haystack is the UTF-8
   encoding of ANY text cs; the result is the character-level specification with its positions
   translated to byte offsets ([to_bytes cs (s, e, v)] = (bytes before character s, bytes before
   character e, v)), so every reported offset falls on a character boundary. *)
Theorem cw_nosuffix_correct :
  forall (V : Type) (veqb : V -> V -> bool), (forall a b, veqb a b = true -> a = b) ->
  forall (A : cw_automaton V) (pvs : list (list N * V)), cw_cert_ok veqb A pvs = true ->
  forall cs : list N, Forall scalar cs ->
    cw_find_overlapping_no_suffix_iter V A (encode_utf8 cs) = Ok (map (to_bytes V cs) (spec_nosuffix V pvs cs)).
Proof. intros V veqb Hv A pvs C cs Hs. exact (cw_nosuffix_correct_lemma V veqb Hv A pvs C cs Hs). Qed.
Print Assumptions cw_nosuffix_correct.

Definition ex_pvs : list (list N * Z) :=
  [([98; 99; 100], 7%Z); ([97; 98], 8%Z); ([97], 9%Z); ([98], 7%Z)].
Example c05_hypotheses_met :
  match bw_build_with_values Z Standard 16 ex_pvs with
  | Ok A => bw_cert_ok Z.eqb A ex_pvs = true
            /\ bw_find_overlapping_no_suffix_iter Z A [97; 98; 99; 100; 0; 255]
               = Ok [(0, 1, 9%Z); (0, 2, 8%Z); (1, 4, 7%Z)]%nat
  | _ => False
  end.
Proof. vm_compute. split; reflexivity. Qed.

(* C05 for the byte-wise variant with no certificate hypothesis (builder theorem, see C01) *)
Theorem bw_nosuffix_correct_for_every_built_automaton :
  forall (V : Type) (veqb : V -> V -> bool), (forall a b, veqb a b = true <-> a = b) ->
  forall nfb (pvs : list (list N * V)) (A : bw_automaton V),
    (forall p v, In (p, v) pvs -> Forall (fun b => b < 256) p) -> 4 * total_len V pvs <= U32_MAX - 1 ->
    bw_build_with_values V Standard nfb pvs = Ok A ->
  forall h : list N, Forall (fun b => b < 256) h ->
    bw_find_overlapping_no_suffix_iter V A h = Ok (spec_nosuffix V pvs h).
Proof. exact built_nosuffix. Qed.
Print Assumptions bw_nosuffix_correct_for_every_built_automaton.

Theorem cw_nosuffix_correct_for_every_built_automaton :
  forall (V : Type) (veqb : V -> V -> bool), (forall a b, veqb a b = true <-> a = b) ->
  forall nfb (pvs : list (list N * V)) (A : cw_automaton V),
    4 * total_len V pvs <= U32_MAX - 1 ->
    cw_build_with_values V Standard nfb pvs = Ok A ->
  forall cs : list N, Forall scalar cs ->
    cw_find_overlapping_no_suffix_iter V A (encode_utf8 cs) = Ok (map (to_bytes V cs) (spec_nosuffix V pvs cs)).
Proof. exact cw_built_nosuffix. Qed.
Print Assumptions cw_nosuffix_correct_for_every_built_automaton.
