(* C05 — No-suffix overlapping search reports exactly the longest match per end position. *)
From DV Require Import Model.Base Model.Nfa Model.BwBuild Model.BwSearch Model.Api Model.Spec
     Model.Cert Proofs.BwCert Theory.SpecAdequacy Model.Utf8 Model.CwBuild Proofs.Utf8Props Proofs.CwCert Proofs.TrieInv Proofs.BuiltAutomata.
Local Open Scope N_scope.

Theorem bw_nosuffix_correct :
  forall (V : Type) (veqb : V -> V -> bool), (forall a b, veqb a b = true -> a = b) ->
  forall (A : bw_automaton V) (pvs : list (list N * V)), bw_cert_ok veqb A pvs = true ->
  forall h : list N, Forall (fun b => b < 256) h ->
    bw_find_overlapping_no_suffix_iter V A h = Ok (spec_nosuffix V pvs h).
Proof. intros V veqb Hv A pvs C h Hb. exact (bw_nosuffix_correct_lemma V veqb Hv A pvs C h Hb). Qed.
Print Assumptions bw_nosuffix_correct.

(* the specification holds exactly one entry per end position at which an occurrence ends: the
   head of the (longest-first) list of occurrences ending there; nothing for other positions *)
Theorem spec_nosuffix_one_per_end :
  forall (V : Type) (pvs : list (list N * V)) (h : list N) (x : nat * nat * V),
    In x (spec_nosuffix V pvs h) <->
    exists e, (1 <= e <= length h)%nat /\ exists r, ends_at V pvs h e = x :: r.
Proof. exact spec_nosuffix_adequate. Qed.
Print Assumptions spec_nosuffix_one_per_end.

(* and that head is a true occurrence no other occurrence ending there is longer than *)
Theorem nosuffix_head_is_longest :
  forall (V : Type) (pvs : list (list N * V)) (h : list N) (e : nat) (x : nat * nat * V) r,
    (e <= length h)%nat -> ends_at V pvs h e = x :: r ->
    (exists v, x = (fst (fst x), e, v) /\ occ_at V pvs h (fst (fst x)) e v) /\
    forall s v, occ_at V pvs h s e v -> (fst (fst x) <= s)%nat.
Proof. exact ends_at_head_longest. Qed.
Print Assumptions nosuffix_head_is_longest.

(* Character-wise automaton: patterns are lists of Unicode scalar values, the haystack is the UTF-8
   encoding of ANY text cs; the result is the character-level specification with its positions
   translated to byte offsets ([to_bytes cs (s, e, v)] = (bytes before character s, bytes before
   character e, v)), so every reported offset falls on a character boundary. *)
Theorem cw_nosuffix_correct :
  forall (V : Type) (veqb : V -> V -> bool), (forall a b, veqb a b = true -> a = b) ->
  forall (A : cw_automaton V) (pvs : list (list N * V)), cw_cert_ok veqb A pvs = true ->
  forall cs : list N, Forall scalar cs ->
    cw_find_overlapping_no_suffix_iter V A (encode_utf8 cs) = Ok (map (to_bytes V cs) (spec_nosuffix V pvs cs)).
Proof. intros V veqb Hv A pvs C cs Hs. exact (cw_nosuffix_correct_lemma V veqb Hv A pvs C cs Hs). Qed.
Print Assumptions cw_nosuffix_correct.

Definition ex_pvs : list (list N * Z) :=
  [([98; 99; 100], 7%Z); ([97; 98], 8%Z); ([97], 9%Z); ([98], 7%Z)].
Example c05_hypotheses_met :
  match bw_build_with_values Z Standard 16 ex_pvs with
  | Ok A => bw_cert_ok Z.eqb A ex_pvs = true
            /\ bw_find_overlapping_no_suffix_iter Z A [97; 98; 99; 100; 0; 255]
               = Ok [(0, 1, 9%Z); (0, 2, 8%Z); (1, 4, 7%Z)]%nat
  | _ => False
  end.
Proof. vm_compute. split; reflexivity. Qed.

(* C05 for the byte-wise variant with no certificate hypothesis (builder theorem, see C01) *)
Theorem bw_nosuffix_correct_for_every_built_automaton :
  forall (V : Type) (veqb : V -> V -> bool), (forall a b, veqb a b = true <-> a = b) ->
  forall nfb (pvs : list (list N * V)) (A : bw_automaton V),
    (forall p v, In (p, v) pvs -> Forall (fun b => b < 256) p) -> 4 * total_len V pvs <= U32_MAX - 1 ->
    bw_build_with_values V Standard nfb pvs = Ok A ->
  forall h : list N, Forall (fun b => b < 256) h ->
    bw_find_overlapping_no_suffix_iter V A h = Ok (spec_nosuffix V pvs h).
Proof. exact built_nosuffix. Qed.
Print Assumptions bw_nosuffix_correct_for_every_built_automaton.

Theorem cw_nosuffix_correct_for_every_built_automaton :
  forall (V : Type) (veqb : V -> V -> bool), (forall a b, veqb a b = true <-> a = b) ->
  forall nfb (pvs : list (list N * V)) (A : cw_automaton V),
    4 * total_len V pvs <= U32_MAX - 1 ->
    cw_build_with_values V Standard nfb pvs = Ok A ->
  forall cs : list N, Forall scalar cs ->
    cw_find_overlapping_no_suffix_iter V A (encode_utf8 cs) = Ok (map (to_bytes V cs) (spec_nosuffix V pvs cs)).
Proof. exact cw_built_nosuffix. Qed.
Print Assumptions cw_nosuffix_correct_for_every_built_automaton.

(* ---- C05 AS ONE DECLARATIVE STATEMENT (Theory/SpecNoSuffix.v) -----------------------------------------
   The no-suffix search reports exactly the triples (s, e, v) such that h[s..e] is an occurrence
   carrying v and no occurrence ending at e starts before s ([longest_ending_at]) -- hence one match
   per end position that has an occurrence, nothing for the other positions -- in strictly increasing
   order of end position. *)
From DV Require Import Theory.SpecNoSuffix Theory.Utf8Spec Theory.Utf8Spec2 Proofs.BuildTrie Proofs.BuildProps.
From Coq Require Import Sorted.

Theorem spec_nosuffix_is_the_longest_match_per_end :
  forall (V : Type) (pvs : list (list N * V)) (h : list N), NoDup (map fst pvs) ->
    (forall s e v, In (s, e, v) (spec_nosuffix V pvs h) <-> longest_ending_at V pvs h s e v)
    /\ StronglySorted (end_lt V) (spec_nosuffix V pvs h).
Proof. intros V pvs h Hn. split; [exact (spec_nosuffix_characterised V pvs h Hn)|exact (spec_nosuffix_increasing V pvs h)]. Qed.
Print Assumptions spec_nosuffix_is_the_longest_match_per_end.

Theorem bw_nosuffix_search_reports_the_longest_match_per_end :
  forall (V : Type) (veqb : V -> V -> bool), (forall a b, veqb a b = true <-> a = b) ->
  forall nfb (pvs : list (list N * V)) (A : bw_automaton V),
    (forall p v, In (p, v) pvs -> Forall (fun b => b < 256) p) -> 4 * total_len V pvs <= U32_MAX - 1 ->
    bw_build_with_values V Standard nfb pvs = Ok A ->
  forall h, Forall (fun b => b < 256) h ->
    exists ms, bw_find_overlapping_no_suffix_iter V A h = Ok ms
      /\ (forall s e v, In (s, e, v) ms <-> longest_ending_at V pvs h s e v) /\ StronglySorted (end_lt V) ms.
Proof.
  intros V veqb Hv nfb pvs A Hb Hs HA h Hh. exists (spec_nosuffix V pvs h).
  split; [exact (built_nosuffix V veqb Hv nfb pvs A Hb Hs HA h Hh)|].
  destruct (bw_build_ok_lemma V Standard nfb pvs A Hs HA) as (Hvd & _).
  apply spec_build_error_none_iff_valid in Hvd as (_ & _ & Hnd).
  split; [exact (spec_nosuffix_characterised V pvs h Hnd)|exact (spec_nosuffix_increasing V pvs h)].
Qed.
Print Assumptions bw_nosuffix_search_reports_the_longest_match_per_end.

Theorem cw_nosuffix_search_reports_the_longest_match_per_end :
  forall (V : Type) (veqb : V -> V -> bool), (forall a b, veqb a b = true <-> a = b) ->
  forall nfb (pvs : list (list N * V)) (A : cw_automaton V),
    (forall p v, In (p, v) pvs -> Forall scalar p) -> 4 * total_len V pvs <= U32_MAX - 1 ->
    cw_build_with_values V Standard nfb pvs = Ok A ->
  forall cs, Forall scalar cs ->
    exists ms, cw_find_overlapping_no_suffix_iter V A (encode_utf8 cs) = Ok ms
      /\ (forall s e v, In (s, e, v) ms <-> longest_ending_at V (bpvs V pvs) (encode_utf8 cs) s e v)
      /\ StronglySorted (end_lt V) ms.
Proof.
  intros V veqb Hv nfb pvs A Hsc Hs HA cs Hcs. exists (spec_nosuffix V (bpvs V pvs) (encode_utf8 cs)).
  destruct (cw_build_ok_lemma V Standard nfb pvs A Hs HA) as (Hvd & _).
  apply spec_build_error_none_iff_valid in Hvd as (_ & Hne0 & Hnd).
  assert (Hne : forall p v, In (p, v) pvs -> p <> []).
  { intros p w Hp. rewrite Forall_forall in Hne0. apply Hne0. apply in_map_iff. exists (p, w). auto. }
  split.
  - rewrite (cw_built_nosuffix V veqb Hv nfb pvs A Hs HA cs Hcs). f_equal.
    symmetry. exact (spec_nosuffix_bytes_eq_chars V pvs Hne Hsc Hnd cs Hcs).
  - split; [exact (spec_nosuffix_characterised V _ _ (bpvs_nodup V pvs Hsc Hnd))|exact (spec_nosuffix_increasing V _ _)].
Qed.
Print Assumptions cw_nosuffix_search_reports_the_longest_match_per_end.
