(* C10 — Construction accepts exactly the valid pattern collections and never panics.
   Proved here: the adequacy of the specification the correspondence check uses as its oracle; for
   EVERY pattern sequence (total length below 2^30 labels) and both builders: an invalid collection
   is answered with exactly the error kind of its first offending entry (empty collection, empty
   pattern, repeat -- including repeats dropped by leftmost-first), and whatever construction
   accepts is valid (trie invariant, Proofs/TrieInv.v); and construction NEVER PANICS: for every
   pattern sequence, kind and num_free_blocks >= 1 both builders return Ok or a documented error
   (bw_construction_never_panics, cw_construction_never_panics; Proofs/NoPanic.v on top of the
   vacant-list invariant of build_helper.rs, Proofs/HelperList.v). *)
From DV Require Import Model.Base Model.Nfa Model.BwBuild Model.Utf8 Model.CwBuild Model.Spec Proofs.BuildProps Proofs.TrieInv Proofs.BuildTrie Proofs.NoPanic.
Local Open Scope N_scope.

(* the oracle says "must succeed" exactly for non-empty collections without an empty pattern and
   without two equal patterns *)
Theorem spec_accepts_exactly_valid :
  forall ps : list (list N),
    spec_build_error ps = None <-> ps <> [] /\ Forall (fun p => p <> []) ps /\ NoDup ps.
Proof. exact spec_build_error_none_iff_valid. Qed.
Print Assumptions spec_accepts_exactly_valid.

(* and otherwise the documented kind of the FIRST offending entry, wherever it stands *)
Theorem spec_empty_pattern_is_invalid_argument :
  forall good rest : list (list N), Forall (fun q => q <> []) good -> NoDup good ->
    spec_build_error (good ++ [] :: rest) = Some InvalidArgument.
Proof. exact spec_build_error_empty_pattern_first. Qed.
Print Assumptions spec_empty_pattern_is_invalid_argument.

Theorem spec_repeat_is_duplicate_pattern :
  forall (good rest : list (list N)) p, Forall (fun q => q <> []) good -> NoDup good -> p <> [] ->
    In p good -> spec_build_error (good ++ p :: rest) = Some DuplicatePattern.
Proof. exact spec_build_error_repeat_first. Qed.
Print Assumptions spec_repeat_is_duplicate_pattern.

Theorem spec_conversion_failure_wins :
  forall (V : Type) (conv : nat -> option V) (ps : list (list N)) i, (i < length ps)%nat ->
    conv i = None -> spec_build_error_conv V conv ps = Some InvalidConversion.
Proof. intros V conv ps i. exact (spec_build_error_conversion_first conv ps i). Qed.
Print Assumptions spec_conversion_failure_wins.

(* model: the empty collection, an empty pattern after any accepted prefix, and a failed index
   conversion are answered with the documented error kind, for every match kind and setting *)
Theorem empty_collection_rejected :
  forall (V : Type) k nfb, nfb <> 0 ->
    bw_build_with_values V k nfb [] = Err InvalidArgument
    /\ cw_build_with_values V k nfb [] = Err InvalidArgument.
Proof. intros V k nfb H. split; [apply bw_build_empty_set|apply cw_build_empty_set]; exact H. Qed.
Print Assumptions empty_collection_rejected.

Theorem empty_pattern_rejected_at_any_position :
  forall (V : Type) k nfb (good : list (list N * V)) v rest n1, nfb <> 0 ->
    add_all V (fun _ => 1) (nfa_new V k) good = Ok n1 ->
    bw_build_with_values V k nfb (good ++ ([], v) :: rest) = Err InvalidArgument.
Proof. intros V k nfb good v rest n1. exact (bw_empty_pattern_rejected V k nfb good v rest n1). Qed.
Print Assumptions empty_pattern_rejected_at_any_position.

Theorem conversion_failure_reported_first :
  forall (V : Type) (conv : nat -> option V) k nfb ps, nfb <> 0 ->
    enumerate_conv V conv 0 ps = None -> bw_build V conv k nfb ps = Err InvalidConversion.
Proof. intros V conv k nfb ps. exact (bw_build_conversion_error V conv k nfb ps). Qed.
Print Assumptions conversion_failure_reported_first.

(* model, EVERY pattern sequence: construction answers an invalid collection with the error kind the
   specification names (the first offending entry in input order decides), under every match kind
   and setting.  [total_len] is the summed pattern length in labels (bytes / characters). *)
Theorem bw_invalid_collection_rejected :
  forall (V : Type) k nfb (pvs : list (list N * V)) e, nfb <> 0 -> 4 * total_len V pvs <= U32_MAX - 1 ->
    spec_build_error (map fst pvs) = Some e -> bw_build_with_values V k nfb pvs = Err e.
Proof. exact bw_build_error_lemma. Qed.
Print Assumptions bw_invalid_collection_rejected.

Theorem cw_invalid_collection_rejected :
  forall (V : Type) k nfb (pvs : list (list N * V)) e, nfb <> 0 -> 4 * total_len V pvs <= U32_MAX - 1 ->
    spec_build_error (map fst pvs) = Some e -> cw_build_with_values V k nfb pvs = Err e.
Proof. exact cw_build_error_lemma. Qed.
Print Assumptions cw_invalid_collection_rejected.

(* and conversely whatever construction accepts is a valid collection *)
Theorem accepted_collections_are_valid :
  forall (V : Type) k nfb (pvs : list (list N * V)), 4 * total_len V pvs <= U32_MAX - 1 ->
    (forall A, bw_build_with_values V k nfb pvs = Ok A -> spec_build_error (map fst pvs) = None)
    /\ (forall A, cw_build_with_values V k nfb pvs = Ok A -> spec_build_error (map fst pvs) = None).
Proof.
  intros V k nfb pvs H. split; intros A HA.
  - exact (proj1 (bw_build_ok_lemma V k nfb pvs A H HA)).
  - exact (proj1 (cw_build_ok_lemma V k nfb pvs A H HA)).
Qed.
Print Assumptions accepted_collections_are_valid.

(* the pattern loop itself never panics and accepts every valid collection: it ends in a trie that
   satisfies the invariant for the registered patterns *)
Theorem pattern_loop_accepts_valid_collections :
  forall (V : Type) k (pvs : list (list N * V)), 4 * total_len V pvs <= U32_MAX - 1 ->
    spec_build_error (map fst pvs) = None ->
    exists n paths, add_all V (fun _ => 1) (nfa_new V k) pvs = Ok n
                    /\ TI V (fun _ => 1) n (regd V k pvs) [] paths /\ n_len n <> 0.
Proof.
  intros V k pvs Hsz Hs. rewrite add_all_adds.
  pose proof (adds_spec V (fun _ => 1) one_pos one_le4 k pvs Hsz) as A.
  destruct pvs as [|pv r]; [discriminate|]. unfold spec_build_error in Hs. cbn [map] in Hs, A. rewrite Hs in A.
  destruct A as (n & paths & A1 & A2 & _ & A4 & _). exists n, paths. split; [exact A1|]. split; [exact A2|].
  rewrite A4. pose proof (regd_nonempty V k (pv :: r) ltac:(discriminate)) as Hne.
  destruct (regd V k (pv :: r)); [congruence|]. cbn [length]. lia.
Qed.
Print Assumptions pattern_loop_accepts_valid_collections.

(* CONSTRUCTION NEVER PANICS.  For EVERY pattern sequence (byte strings / scalar strings of total
   length below 2^30 labels), every match kind and every num_free_blocks >= 1 (zero is rejected by
   the documented assertion of the setter), build_with_values of the model returns Ok or Err:
   never a failed assertion, a failed unwrap, an out-of-range index, undefined behaviour or fuel
   exhaustion.  The pattern loop is total by the trie invariant; the fail-link and output phases
   by NfaFails / NfaFailsLm; the layout phase because the vacant indices of the active blocks form
   a sorted doubly linked ring starting at head_idx (HelperList.HL), which use_index, push_block
   and the vacant iterator preserve: every offset assertion holds, every find_base candidate lies
   in an active block, the closing block's vacancies are retired before the window moves, every
   child slot is vacant when it is taken, and the depth-first loop stops after one iteration per
   state. *)
Theorem bw_construction_never_panics :
  forall (V : Type) k nfb (pvs : list (list N * V)), nfb <> 0 ->
    (forall p v, In (p, v) pvs -> Forall (fun b => b < 256) p) -> 4 * total_len V pvs <= U32_MAX - 1 ->
    match bw_build_with_values V k nfb pvs with Ok _ | Err _ => True | _ => False end.
Proof. exact bw_build_no_panic. Qed.
Print Assumptions bw_construction_never_panics.

Theorem cw_construction_never_panics :
  forall (V : Type) k nfb (pvs : list (list N * V)), nfb <> 0 ->
    4 * total_len V pvs <= U32_MAX - 1 ->
    match cw_build_with_values V k nfb pvs with Ok _ | Err _ => True | _ => False end.
Proof. exact cw_build_no_panic. Qed.
Print Assumptions cw_construction_never_panics.

(* ... and so do the pattern-only entry points (values = input positions converted with
   V::try_from): a failed conversion is reported as InvalidConversion, everything else is
   build_with_values *)
Theorem build_entry_points_never_panic :
  forall (V : Type) conv k nfb (ps : list (list N)), nfb <> 0 -> 4 * plain_len ps <= U32_MAX - 1 ->
    ((forall p, In p ps -> Forall (fun b => b < 256) p) ->
     match bw_build V conv k nfb ps with Ok _ | Err _ => True | _ => False end)
    /\ match cw_build V conv k nfb ps with Ok _ | Err _ => True | _ => False end.
Proof.
  intros V conv k nfb ps Hn Hs. split.
  - intros Hb. exact (bw_build_entry_no_panic V conv k nfb ps Hn Hb Hs).
  - exact (cw_build_entry_no_panic V conv k nfb ps Hn Hs).
Qed.
Print Assumptions build_entry_points_never_panic.

(* ACCEPTS EVERY VALID COLLECTION: a valid collection is built, or refused with AutomatonScale
   alone (the array or the output table would outgrow u32 / u24) -- never with one of the three
   validity errors, never with a panic.  Together with bw/cw_invalid_collection_rejected this is
   "accepts exactly the valid collections". *)
Theorem bw_valid_collections_are_built_or_too_large :
  forall (V : Type) k nfb (pvs : list (list N * V)), nfb <> 0 ->
    (forall p v, In (p, v) pvs -> Forall (fun b => b < 256) p) -> 4 * total_len V pvs <= U32_MAX - 1 ->
    spec_build_error (map fst pvs) = None ->
    match bw_build_with_values V k nfb pvs with Ok _ => True | Err AutomatonScale => True | _ => False end.
Proof. exact bw_build_valid. Qed.
Print Assumptions bw_valid_collections_are_built_or_too_large.

Theorem cw_valid_collections_are_built_or_too_large :
  forall (V : Type) k nfb (pvs : list (list N * V)), nfb <> 0 ->
    4 * total_len V pvs <= U32_MAX - 1 ->
    spec_build_error (map fst pvs) = None ->
    match cw_build_with_values V k nfb pvs with Ok _ => True | Err AutomatonScale => True | _ => False end.
Proof. exact cw_build_valid. Qed.
Print Assumptions cw_valid_collections_are_built_or_too_large.

(* Non-vacuity and the repaired finding F2: repeats shadowed under leftmost-first are rejected. *)
Example c10_observed :
  (match bw_build_with_values Z LeftmostFirst 16 [([97], 0%Z); ([97; 98], 1%Z); ([97; 98], 2%Z)] with
   | Err DuplicatePattern => True | _ => False end)
  /\ (match bw_build_with_values Z LeftmostFirst 16 [([97; 98], 0%Z); ([97], 1%Z); ([97; 98], 2%Z)] with
      | Err DuplicatePattern => True | _ => False end)
  /\ is_ok (bw_build_with_values Z LeftmostFirst 16 [([97], 0%Z); ([97; 98], 1%Z); ([97; 98; 99], 2%Z)]) = true
  /\ spec_build_error [[97]; [97; 98]; [97; 98]] = Some DuplicatePattern.
Proof. vm_compute. repeat split. Qed.

(* ---- "PRECISELY WHEN", within explicit size limits (Proofs/BuildLimits.v) ----------------------------
   Byte-wise limits: at most U24::MAX patterns, 256 * (total pattern length + 4) <= u32::MAX (every
   array index stays inside u32: one block of 256 per state at most), 256 * num_free_blocks <=
   u32::MAX.  Within them construction returns Ok EXACTLY for the valid collections (non-empty, no
   empty pattern, no two equal patterns) -- never AutomatonScale, never a panic. *)
From DV Require Import Proofs.BuildLimits.

Theorem bw_construction_succeeds_precisely_on_valid_collections :
  forall (V : Type) k nfb (pvs : list (list N * V)),
    nfb <> 0 -> 256 * nfb <= U32_MAX ->
    (forall p v, In (p, v) pvs -> Forall (fun b => b < 256) p) ->
    N.of_nat (length pvs) <= U24_MAX -> 256 * (total_len V pvs + 4) <= U32_MAX ->
    ((exists A, bw_build_with_values V k nfb pvs = Ok A)
     <-> map fst pvs <> [] /\ Forall (fun p => p <> []) (map fst pvs) /\ NoDup (map fst pvs)).
Proof.
  intros V k nfb pvs Hn Hn2 Hb Hc Hl. rewrite <- spec_build_error_none_iff_valid. split.
  - intros [A HA]. assert (Hsz : 4 * total_len V pvs <= U32_MAX - 1) by (unfold U32_MAX in *; lia).
    exact (proj1 (bw_build_ok_lemma V k nfb pvs A Hsz HA)).
  - intros Hv. exact (bw_build_within_limits V k nfb pvs Hn Hn2 Hb Hc Hl Hv).
Qed.
Print Assumptions bw_construction_succeeds_precisely_on_valid_collections.

(* Character-wise limits: the block length is a power of two not below the number of distinct pattern
   characters, hence at most 2 T + 2 for total length T; every array index stays inside u32 when
   (2 T + 2) * (T + 4) <= u32::MAX, and (2 T + 2) * num_free_blocks <= u32::MAX. *)
Theorem cw_construction_succeeds_precisely_on_valid_collections :
  forall (V : Type) k nfb (pvs : list (list N * V)),
    nfb <> 0 -> (2 * total_len V pvs + 2) * nfb <= U32_MAX ->
    (2 * total_len V pvs + 2) * (total_len V pvs + 4) <= U32_MAX ->
    ((exists A, cw_build_with_values V k nfb pvs = Ok A)
     <-> map fst pvs <> [] /\ Forall (fun p => p <> []) (map fst pvs) /\ NoDup (map fst pvs)).
Proof.
  intros V k nfb pvs Hn Hn2 Hl. rewrite <- spec_build_error_none_iff_valid. split.
  - intros [A HA]. assert (Hsz : 4 * total_len V pvs <= U32_MAX - 1) by (unfold U32_MAX in *; nia).
    exact (proj1 (cw_build_ok_lemma V k nfb pvs A Hsz HA)).
  - intros Hv. exact (cw_build_within_limits V k nfb pvs Hn Hn2 Hl Hv).
Qed.
Print Assumptions cw_construction_succeeds_precisely_on_valid_collections.

(* Non-vacuity: the limits hold for an ordinary collection and it is built *)
Example c10_limits_met :
  let pvs : list (list N * Z) := [([97; 98], 1%Z); ([98], 2%Z); ([97; 98; 99], 3%Z)] in
  256 * 16 <= U32_MAX /\ N.of_nat (length pvs) <= U24_MAX /\ 256 * (total_len Z pvs + 4) <= U32_MAX
  /\ (2 * total_len Z pvs + 2) * (total_len Z pvs + 4) <= U32_MAX
  /\ (exists A, bw_build_with_values Z Standard 16 pvs = Ok A) /\ (exists A, cw_build_with_values Z LeftmostFirst 16 pvs = Ok A).
Proof. vm_compute. repeat split; try discriminate; eexists; reflexivity. Qed.
