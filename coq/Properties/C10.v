(* C10 — Construction accepts exactly the valid pattern collections and never panics.
   Proved here: the adequacy of the specification the correspondence check uses as its oracle, and
   the error arms of the model that do not depend on the trie invariant.  The duplicate arm and
   the absence of panics (which need the trie/helper invariants) are decided by the correspondence
   check only; they are listed as missing in DESIGN.md. *)
From DV Require Import Model.Base Model.Nfa Model.BwBuild Model.Utf8 Model.CwBuild Model.Spec Proofs.BuildProps.
Local Open Scope N_scope.

(* the oracle says "must succeed" exactly for non-empty collections without an empty pattern and
   without two equal patterns *)
Theorem spec_accepts_exactly_valid :
  forall ps : list (list N),
    spec_build_error ps = None <-> ps <> [] /\ Forall (fun p => p <> []) ps /\ NoDup ps.
Proof. exact spec_build_error_none_iff_valid. Qed.
Print Assumptions spec_accepts_exactly_valid.

(* and otherwise the documented kind of the FIRST offending entry, wherever it stands *)
Theorem spec_empty_pattern_is_invalid_argument :
  forall good rest : list (list N), Forall (fun q => q <> []) good -> NoDup good ->
    spec_build_error (good ++ [] :: rest) = Some InvalidArgument.
Proof. exact spec_build_error_empty_pattern_first. Qed.
Print Assumptions spec_empty_pattern_is_invalid_argument.

Theorem spec_repeat_is_duplicate_pattern :
  forall (good rest : list (list N)) p, Forall (fun q => q <> []) good -> NoDup good -> p <> [] ->
    In p good -> spec_build_error (good ++ p :: rest) = Some DuplicatePattern.
Proof. exact spec_build_error_repeat_first. Qed.
Print Assumptions spec_repeat_is_duplicate_pattern.

Theorem spec_conversion_failure_wins :
  forall (V : Type) (conv : nat -> option V) (ps : list (list N)) i, (i < length ps)%nat ->
    conv i = None -> spec_build_error_conv V conv ps = Some InvalidConversion.
Proof. intros V conv ps i. exact (spec_build_error_conversion_first conv ps i). Qed.
Print Assumptions spec_conversion_failure_wins.

(* model: the empty collection, an empty pattern after any accepted prefix, and a failed index
   conversion are answered with the documented error kind, for every match kind and setting *)
Theorem empty_collection_rejected :
  forall (V : Type) k nfb, nfb <> 0 ->
    bw_build_with_values V k nfb [] = Err InvalidArgument
    /\ cw_build_with_values V k nfb [] = Err InvalidArgument.
Proof. intros V k nfb H. split; [apply bw_build_empty_set|apply cw_build_empty_set]; exact H. Qed.
Print Assumptions empty_collection_rejected.

Theorem empty_pattern_rejected_at_any_position :
  forall (V : Type) k nfb (good : list (list N * V)) v rest n1, nfb <> 0 ->
    add_all V (fun _ => 1) (nfa_new V k) good = Ok n1 ->
    bw_build_with_values V k nfb (good ++ ([], v) :: rest) = Err InvalidArgument.
Proof. intros V k nfb good v rest n1. exact (bw_empty_pattern_rejected V k nfb good v rest n1). Qed.
Print Assumptions empty_pattern_rejected_at_any_position.

Theorem conversion_failure_reported_first :
  forall (V : Type) (conv : nat -> option V) k nfb ps, nfb <> 0 ->
    enumerate_conv V conv 0 ps = None -> bw_build V conv k nfb ps = Err InvalidConversion.
Proof. intros V conv k nfb ps. exact (bw_build_conversion_error V conv k nfb ps). Qed.
Print Assumptions conversion_failure_reported_first.

(* Non-vacuity and the repaired finding F2: repeats shadowed under leftmost-first are rejected. *)
Example c10_observed :
  (match bw_build_with_values Z LeftmostFirst 16 [([97], 0%Z); ([97; 98], 1%Z); ([97; 98], 2%Z)] with
   | Err DuplicatePattern => True | _ => False end)
  /\ (match bw_build_with_values Z LeftmostFirst 16 [([97; 98], 0%Z); ([97], 1%Z); ([97; 98], 2%Z)] with
      | Err DuplicatePattern => True | _ => False end)
  /\ is_ok (bw_build_with_values Z LeftmostFirst 16 [([97], 0%Z); ([97; 98], 1%Z); ([97; 98; 99], 2%Z)]) = true
  /\ spec_build_error [[97]; [97; 98]; [97; 98]] = Some DuplicatePattern.
Proof. vm_compute. repeat split. Qed.
