(* C04 — Leftmost-first search picks the leftmost start, then the earliest-registered pattern. *)
From DV Require Import Model.Base Model.Nfa Model.BwBuild Model.BwSearch Model.Utf8 Model.CwBuild Model.Api Model.Spec
     Model.Cert Proofs.Leftmost Proofs.BwLeftmost Theory.LmfSpec Proofs.Utf8Props Proofs.CwCert Proofs.CwLeftmost Proofs.TrieInv Proofs.BuildTrie Proofs.BuiltAutomata.
Local Open Scope N_scope.

(* (1) On specifications, for every duplicate-free sequence of non-empty patterns (order is
   significant) and every haystack: "earliest registered at the leftmost start" is "longest
   EFFECTIVE pattern at the leftmost start", where a pattern is effective iff no earlier-registered
   pattern is a proper prefix of it.  So the shadowed patterns change nothing. *)
Theorem lmf_shadow_irrelevant :
  forall (V : Type) (pvs : list (list N * V)),
    (forall p v, In (p, v) pvs -> p <> []) -> NoDup (map fst pvs) ->
  forall h, spec_lmf V pvs h = spec_lml V (effective V pvs) h.
Proof. intros V pvs H1 H2 h. exact (spec_lmf_is_lml_of_effective V pvs H1 H2 h). Qed.
Print Assumptions lmf_shadow_irrelevant.

(* (2) A pattern that has an earlier-registered proper prefix is not effective ... *)
Theorem lmf_shadowed_is_not_effective :
  forall (V : Type) (pvs : list (list N * V)),
    (forall p v, In (p, v) pvs -> p <> []) -> NoDup (map fst pvs) ->
  forall l1 p v l2 q, pvs = l1 ++ (p, v) :: l2 -> In q (map fst l1) -> pp q p = true ->
  forall v', ~ In (p, v') (effective V pvs).
Proof. intros V pvs H1 H2 l1 p v l2 q. exact (shadowed_not_effective V pvs H2 l1 p v l2 q). Qed.
Print Assumptions lmf_shadowed_is_not_effective.

(* ... and only effective patterns are ever reported *)
Theorem lmf_shadow_never_reported :
  forall (V : Type) (pvs : list (list N * V)),
    (forall p v, In (p, v) pvs -> p <> []) -> NoDup (map fst pvs) ->
  forall h s e v, In (s, e, v) (spec_lmf V pvs h) ->
    exists p, In (p, v) (effective V pvs) /\ is_prefix p (skipn s h) = true /\ e = (s + length p)%nat.
Proof. intros V pvs H1 H2 h s e v. exact (lmf_reports_only_effective V pvs H1 H2 h s e v). Qed.
Print Assumptions lmf_shadow_never_reported.

(* (3) Automaton: a leftmost-first automaton holds the effective patterns; if it passes the
   leftmost certificate checker against them, its search equals spec_lmf of the REGISTERED sequence
   on every haystack. *)
Theorem bw_lmf_correct :
  forall (V : Type) (veqb : V -> V -> bool), (forall a b, veqb a b = true -> a = b) ->
  forall (A : bw_automaton V) (pvs : list (list N * V)),
    (forall p v, In (p, v) pvs -> p <> []) -> NoDup (map fst pvs) ->
    bw_lm_cert_ok veqb A (effective V pvs) = true ->
  forall h : list N, Forall (fun b => b < 256) h ->
    bw_leftmost_find_iter V A h = Ok (spec_lmf V pvs h).
Proof.
  intros V veqb Hv A pvs H1 H2 C h Hb. rewrite (spec_lmf_is_lml_of_effective V pvs H1 H2 h).
  exact (bw_leftmost_correct_lemma V veqb Hv A (effective V pvs) C h Hb).
Qed.
Print Assumptions bw_lmf_correct.

(* the same for the character-wise automaton, with byte offsets *)
Theorem cw_lmf_correct :
  forall (V : Type) (veqb : V -> V -> bool), (forall a b, veqb a b = true -> a = b) ->
  forall (A : cw_automaton V) (pvs : list (list N * V)),
    (forall p v, In (p, v) pvs -> p <> []) -> NoDup (map fst pvs) ->
    cw_lm_cert_ok veqb A (effective V pvs) = true ->
  forall cs : list N, Forall scalar cs ->
    cw_leftmost_find_iter V A (encode_utf8 cs) = Ok (map (to_bytes V cs) (spec_lmf V pvs cs)).
Proof.
  intros V veqb Hv A pvs H1 H2 C cs Hs. rewrite (spec_lmf_is_lml_of_effective V pvs H1 H2 cs).
  exact (cw_leftmost_correct_lemma V veqb Hv A (effective V pvs) C cs Hs).
Qed.
Print Assumptions cw_lmf_correct.

(* Non-vacuity: registration order matters; "abcd" is shadowed by the earlier "ab". *)
Definition ex_pvs : list (list N * Z) :=
  [([97; 98], 0%Z); ([97; 98; 99; 100], 1%Z); ([98; 99], 2%Z); ([97], 3%Z); ([99; 100; 101], 4%Z)].
Example c04_hypotheses_met :
  match bw_build_with_values Z LeftmostFirst 16 ex_pvs with
  | Ok A => bw_lm_cert_ok Z.eqb A (effective Z ex_pvs) = true
            /\ map fst (effective Z ex_pvs) = [[97; 98]; [98; 99]; [97]; [99; 100; 101]]
            /\ bw_leftmost_find_iter Z A [120; 97; 98; 99; 100; 101; 98; 99; 100; 101; 97; 120]
               = Ok [(1, 3, 0%Z); (3, 6, 4%Z); (6, 8, 2%Z); (10, 11, 3%Z)]%nat
  | _ => False
  end.
Proof. vm_compute. repeat split; reflexivity. Qed.

(* (6) Universal, about the BUILDER (trie invariant): for every valid pattern sequence (total length
   below 2^30 bytes) the pattern loop under leftmost-first ends in a trie whose output-bearing
   states are exactly the EFFECTIVE patterns, each reached from the root by its own bytes, with its
   own value and length: the shadowed patterns are dropped at registration, never reported. *)
Theorem lmf_builder_registers_exactly_the_effective_patterns :
  forall (V : Type) (pvs : list (list N * V)), 4 * total_len V pvs <= U32_MAX - 1 ->
    spec_build_error (map fst pvs) = None ->
  exists n, add_all V (fun _ => 1) (nfa_new V LeftmostFirst) pvs = Ok n
    /\ (forall p t st, twalk V n ROOT p = Some t -> nget t (n_states n) = Some st ->
          match n_output st with
          | Some (v, l) => In (p, v) (effective V pvs) /\ l = N.of_nat (length p)
          | None => forall v, ~ In (p, v) (effective V pvs)
          end)
    /\ (forall p v, In (p, v) (effective V pvs) -> exists t, twalk V n ROOT p = Some t).
Proof. exact lmf_loop_lemma. Qed.
Print Assumptions lmf_builder_registers_exactly_the_effective_patterns.

(* (7) C04 with no certificate hypothesis, both variants (builder theorem for the leftmost kinds, see
   C03): on every automaton built with leftmost-first semantics, from any valid pattern sequence,
   the leftmost search returns spec_lmf of the REGISTERED sequence on every haystack. *)
Theorem bw_lmf_correct_for_every_built_automaton :
  forall (V : Type) (veqb : V -> V -> bool), (forall a b, veqb a b = true <-> a = b) ->
  forall nfb (pvs : list (list N * V)) (A : bw_automaton V),
    (forall p v, In (p, v) pvs -> Forall (fun b => b < 256) p) -> 4 * total_len V pvs <= U32_MAX - 1 ->
    bw_build_with_values V LeftmostFirst nfb pvs = Ok A ->
  forall h, Forall (fun b => b < 256) h -> bw_leftmost_find_iter V A h = Ok (spec_lmf V pvs h).
Proof. exact bw_built_lmf. Qed.
Print Assumptions bw_lmf_correct_for_every_built_automaton.

Theorem cw_lmf_correct_for_every_built_automaton :
  forall (V : Type) (veqb : V -> V -> bool), (forall a b, veqb a b = true <-> a = b) ->
  forall nfb (pvs : list (list N * V)) (A : cw_automaton V),
    4 * total_len V pvs <= U32_MAX - 1 ->
    cw_build_with_values V LeftmostFirst nfb pvs = Ok A ->
  forall cs, Forall scalar cs -> cw_leftmost_find_iter V A (encode_utf8 cs) = Ok (map (to_bytes V cs) (spec_lmf V pvs cs)).
Proof. exact cw_built_lmf. Qed.
Print Assumptions cw_lmf_correct_for_every_built_automaton.

(* ---- C04 AS ONE DECLARATIVE STATEMENT ----------------------------------------------------------------
   [lm_seq] as in C03 (smallest start at or after the previous end at which any occurrence starts,
   resume at the end of the reported match) with the rule [lmf_pick]: the pattern reported at that
   start is the one that occurs there and has no earlier-registered pattern occurring there
   (pvs = l1 ++ pv :: l2, nothing in l1 occurs at the start). *)
From DV Require Import Theory.SpecLeftmostSeq Theory.Utf8Spec Theory.Utf8Spec2 Proofs.BuildTrie Proofs.BuildProps.

Theorem spec_lmf_is_the_leftmost_first_sequence :
  forall (V : Type) (pvs : list (list N * V)) (h : list N),
    lm_seq V (lmf_pick V pvs h) pvs h 0 (spec_lmf V pvs h).
Proof. exact SpecLeftmostSeq.spec_lmf_is_the_leftmost_first_sequence. Qed.
Print Assumptions spec_lmf_is_the_leftmost_first_sequence.

Theorem leftmost_first_sequences_are_sound_and_disjoint :
  forall (V : Type) (pvs : list (list N * V)) (h : list N) (from : nat) (ms : list (nat * nat * V)),
    lm_seq V (lmf_pick V pvs h) pvs h from ms ->
    (forall s e v, In (s, e, v) ms -> occ_at V pvs h s e v /\ (from <= s)%nat)
    /\ (forall a m b m' c, ms = a ++ m :: b ++ m' :: c -> (snd (fst m) <= fst (fst m'))%nat).
Proof.
  intros V pvs h from ms H. split.
  - exact (lm_seq_sound V _ pvs h (lmf_pick_occ V pvs h) from ms H).
  - exact (lm_seq_non_overlapping V _ pvs h (lmf_pick_occ V pvs h) from ms H).
Qed.
Print Assumptions leftmost_first_sequences_are_sound_and_disjoint.

Theorem bw_leftmost_first_search_returns_the_leftmost_first_sequence :
  forall (V : Type) (veqb : V -> V -> bool), (forall a b, veqb a b = true <-> a = b) ->
  forall nfb (pvs : list (list N * V)) (A : bw_automaton V),
    (forall p v, In (p, v) pvs -> Forall (fun b => b < 256) p) -> 4 * total_len V pvs <= U32_MAX - 1 ->
    bw_build_with_values V LeftmostFirst nfb pvs = Ok A ->
  forall h, Forall (fun b => b < 256) h ->
    exists ms, bw_leftmost_find_iter V A h = Ok ms /\ lm_seq V (lmf_pick V pvs h) pvs h 0 ms.
Proof.
  intros V veqb Hv nfb pvs A Hb Hs HA h Hh. exists (spec_lmf V pvs h). split.
  - exact (bw_built_lmf V veqb Hv nfb pvs A Hb Hs HA h Hh).
  - apply SpecLeftmostSeq.spec_lmf_is_the_leftmost_first_sequence.
Qed.
Print Assumptions bw_leftmost_first_search_returns_the_leftmost_first_sequence.

Theorem cw_leftmost_first_search_returns_the_leftmost_first_sequence :
  forall (V : Type) (veqb : V -> V -> bool), (forall a b, veqb a b = true <-> a = b) ->
  forall nfb (pvs : list (list N * V)) (A : cw_automaton V),
    (forall p v, In (p, v) pvs -> Forall scalar p) -> 4 * total_len V pvs <= U32_MAX - 1 ->
    cw_build_with_values V LeftmostFirst nfb pvs = Ok A ->
  forall cs, Forall scalar cs ->
    exists ms, cw_leftmost_find_iter V A (encode_utf8 cs) = Ok ms
               /\ lm_seq V (lmf_pick V (bpvs V pvs) (encode_utf8 cs)) (bpvs V pvs) (encode_utf8 cs) 0 ms.
Proof.
  intros V veqb Hv nfb pvs A Hsc Hs HA cs Hcs. exists (spec_lmf V (bpvs V pvs) (encode_utf8 cs)). split.
  - rewrite (cw_built_lmf V veqb Hv nfb pvs A Hs HA cs Hcs). f_equal.
    destruct (cw_build_ok_lemma V LeftmostFirst nfb pvs A Hs HA) as (Hv' & _).
    apply spec_build_error_none_iff_valid in Hv' as (_ & Hne0 & Hnd).
    assert (Hne : forall p v, In (p, v) pvs -> p <> []).
    { intros p v Hin. rewrite Forall_forall in Hne0. apply Hne0. apply in_map_iff. exists (p, v). auto. }
    symmetry. exact (spec_lmf_bytes_eq_chars V pvs Hne Hsc cs Hcs).
  - apply SpecLeftmostSeq.spec_lmf_is_the_leftmost_first_sequence.
Qed.
Print Assumptions cw_leftmost_first_search_returns_the_leftmost_first_sequence.
