(* C11 — Builder tuning parameters never change search results. *)
From DV Require Import Model.Base Model.Nfa Model.BwBuild Model.BwSearch Model.Utf8 Model.CwBuild Model.Api Model.Spec
     Model.Cert Proofs.BwCert Proofs.Leftmost Proofs.BwLeftmost Proofs.Utf8Props Proofs.CwCert Proofs.TrieInv Proofs.BuiltAutomata.
Local Open Scope N_scope.

(* Two byte-wise automata that pass the certificate checker for the same pattern/value pairs --
   e.g. the ones built with two different numbers of free blocks, whose arrays differ -- answer
   every standard search identically on every haystack. *)
Theorem bw_certified_automata_agree :
  forall (V : Type) (veqb : V -> V -> bool), (forall a b, veqb a b = true -> a = b) ->
  forall (A1 A2 : bw_automaton V) (pvs : list (list N * V)),
    bw_cert_ok veqb A1 pvs = true -> bw_cert_ok veqb A2 pvs = true ->
  forall h : list N, Forall (fun b => b < 256) h ->
    bw_find_overlapping_iter V A1 h = bw_find_overlapping_iter V A2 h
    /\ bw_find_iter V A1 h = bw_find_iter V A2 h
    /\ bw_find_overlapping_no_suffix_iter V A1 h = bw_find_overlapping_no_suffix_iter V A2 h.
Proof.
  intros V veqb Hv A1 A2 pvs C1 C2 h Hb.
  rewrite (bw_overlapping_correct_lemma V veqb Hv A1 pvs C1 h Hb), (bw_overlapping_correct_lemma V veqb Hv A2 pvs C2 h Hb).
  rewrite (bw_find_correct_lemma V veqb Hv A1 pvs C1 h Hb), (bw_find_correct_lemma V veqb Hv A2 pvs C2 h Hb).
  rewrite (bw_nosuffix_correct_lemma V veqb Hv A1 pvs C1 h Hb), (bw_nosuffix_correct_lemma V veqb Hv A2 pvs C2 h Hb).
  auto.
Qed.
Print Assumptions bw_certified_automata_agree.

(* the same for the leftmost kinds (two automata certified against the same pattern list) ... *)
Theorem bw_leftmost_certified_automata_agree :
  forall (V : Type) (veqb : V -> V -> bool), (forall a b, veqb a b = true -> a = b) ->
  forall (A1 A2 : bw_automaton V) (pvs : list (list N * V)),
    bw_lm_cert_ok veqb A1 pvs = true -> bw_lm_cert_ok veqb A2 pvs = true ->
  forall h : list N, Forall (fun b => b < 256) h ->
    bw_leftmost_find_iter V A1 h = bw_leftmost_find_iter V A2 h.
Proof.
  intros V veqb Hv A1 A2 pvs C1 C2 h Hb.
  rewrite (bw_leftmost_correct_lemma V veqb Hv A1 pvs C1 h Hb), (bw_leftmost_correct_lemma V veqb Hv A2 pvs C2 h Hb).
  reflexivity.
Qed.
Print Assumptions bw_leftmost_certified_automata_agree.

(* ... and for the character-wise automaton on every UTF-8 text *)
Theorem cw_certified_automata_agree :
  forall (V : Type) (veqb : V -> V -> bool), (forall a b, veqb a b = true -> a = b) ->
  forall (A1 A2 : cw_automaton V) (pvs : list (list N * V)),
    cw_cert_ok veqb A1 pvs = true -> cw_cert_ok veqb A2 pvs = true ->
  forall cs : list N, Forall scalar cs ->
    cw_find_overlapping_iter V A1 (encode_utf8 cs) = cw_find_overlapping_iter V A2 (encode_utf8 cs)
    /\ cw_find_iter V A1 (encode_utf8 cs) = cw_find_iter V A2 (encode_utf8 cs)
    /\ cw_find_overlapping_no_suffix_iter V A1 (encode_utf8 cs) = cw_find_overlapping_no_suffix_iter V A2 (encode_utf8 cs).
Proof.
  intros V veqb Hv A1 A2 pvs C1 C2 cs Hs.
  rewrite (cw_overlapping_correct_lemma V veqb Hv A1 pvs C1 cs Hs), (cw_overlapping_correct_lemma V veqb Hv A2 pvs C2 cs Hs).
  rewrite (cw_find_correct_lemma V veqb Hv A1 pvs C1 cs Hs), (cw_find_correct_lemma V veqb Hv A2 pvs C2 cs Hs).
  rewrite (cw_nosuffix_correct_lemma V veqb Hv A1 pvs C1 cs Hs), (cw_nosuffix_correct_lemma V veqb Hv A2 pvs C2 cs Hs).
  auto.
Qed.
Print Assumptions cw_certified_automata_agree.

(* Non-vacuity: num_free_blocks = 1 and = 16 lay the same 875 patterns out in arrays of different
   length (2048 vs 1792 elements: blocks are evicted under 1), and both pass the checker. *)
Definition ex_pvs : list (list N * Z) :=
  flat_map (fun a => map (fun j => ([a; (a * 53 + j * 29) mod 256], Z.of_N (a * 256 + j)))
                         (nseq 0 (N.to_nat (a mod 23 + 3))))
           (nseq 30 60).
Example c11_hypotheses_met :
  match bw_build_with_values Z Standard 1 ex_pvs, bw_build_with_values Z Standard 16 ex_pvs with
  | Ok A1, Ok A2 => bw_cert_ok Z.eqb A1 ex_pvs = true /\ bw_cert_ok Z.eqb A2 ex_pvs = true
                    /\ (length (bw_states A1) =? length (bw_states A2))%nat = false
  | _, _ => False
  end.
Proof. vm_compute. repeat split; reflexivity. Qed.

(* C11 as a theorem about the BUILDER (byte-wise, standard kind): whatever num_free_blocks, the
   automata construction returns for the same patterns answer all three standard searches
   identically on every haystack (each equals the specification: builder theorem, see C01). *)
Theorem bw_num_free_blocks_is_irrelevant :
  forall (V : Type) (veqb : V -> V -> bool), (forall a b, veqb a b = true <-> a = b) ->
  forall nfb1 nfb2 (pvs : list (list N * V)) (A1 A2 : bw_automaton V),
    (forall p v, In (p, v) pvs -> Forall (fun b => b < 256) p) -> 4 * total_len V pvs <= U32_MAX - 1 ->
    bw_build_with_values V Standard nfb1 pvs = Ok A1 -> bw_build_with_values V Standard nfb2 pvs = Ok A2 ->
  forall h, Forall (fun b => b < 256) h ->
    bw_find_overlapping_iter V A1 h = bw_find_overlapping_iter V A2 h
    /\ bw_find_iter V A1 h = bw_find_iter V A2 h
    /\ bw_find_overlapping_no_suffix_iter V A1 h = bw_find_overlapping_no_suffix_iter V A2 h.
Proof. exact built_nfb_irrelevant. Qed.
Print Assumptions bw_num_free_blocks_is_irrelevant.

(* ... and for the character-wise builder *)
Theorem cw_num_free_blocks_is_irrelevant :
  forall (V : Type) (veqb : V -> V -> bool), (forall a b, veqb a b = true <-> a = b) ->
  forall nfb1 nfb2 (pvs : list (list N * V)) (A1 A2 : cw_automaton V),
    4 * total_len V pvs <= U32_MAX - 1 ->
    cw_build_with_values V Standard nfb1 pvs = Ok A1 -> cw_build_with_values V Standard nfb2 pvs = Ok A2 ->
  forall cs, Forall scalar cs ->
    cw_find_overlapping_iter V A1 (encode_utf8 cs) = cw_find_overlapping_iter V A2 (encode_utf8 cs)
    /\ cw_find_iter V A1 (encode_utf8 cs) = cw_find_iter V A2 (encode_utf8 cs)
    /\ cw_find_overlapping_no_suffix_iter V A1 (encode_utf8 cs) = cw_find_overlapping_no_suffix_iter V A2 (encode_utf8 cs).
Proof. exact cw_built_nfb_irrelevant. Qed.
Print Assumptions cw_num_free_blocks_is_irrelevant.

(* ... and for the leftmost kinds, both variants: the result is the specification whatever
   num_free_blocks *)
Theorem leftmost_num_free_blocks_is_irrelevant :
  forall (V : Type) (veqb : V -> V -> bool), (forall a b, veqb a b = true <-> a = b) ->
  forall nfb1 nfb2 (pvs : list (list N * V)), 4 * total_len V pvs <= U32_MAX - 1 ->
    (forall (A1 A2 : bw_automaton V) k, k <> Standard -> (forall p v, In (p, v) pvs -> Forall (fun b => b < 256) p) ->
       bw_build_with_values V k nfb1 pvs = Ok A1 -> bw_build_with_values V k nfb2 pvs = Ok A2 ->
       forall h, Forall (fun b => b < 256) h -> bw_leftmost_find_iter V A1 h = bw_leftmost_find_iter V A2 h)
    /\ (forall (A1 A2 : cw_automaton V) k, k <> Standard ->
       cw_build_with_values V k nfb1 pvs = Ok A1 -> cw_build_with_values V k nfb2 pvs = Ok A2 ->
       forall cs, Forall scalar cs -> cw_leftmost_find_iter V A1 (encode_utf8 cs) = cw_leftmost_find_iter V A2 (encode_utf8 cs)).
Proof.
  intros V veqb Hv nfb1 nfb2 pvs Hs. split.
  - intros A1 A2 k Hk Hb H1 H2 h Hh. destruct k; [congruence| |].
    + rewrite (bw_built_lml V veqb Hv nfb1 pvs A1 Hb Hs H1 h Hh), (bw_built_lml V veqb Hv nfb2 pvs A2 Hb Hs H2 h Hh). reflexivity.
    + rewrite (bw_built_lmf V veqb Hv nfb1 pvs A1 Hb Hs H1 h Hh), (bw_built_lmf V veqb Hv nfb2 pvs A2 Hb Hs H2 h Hh). reflexivity.
  - intros A1 A2 k Hk H1 H2 cs Hc. destruct k; [congruence| |].
    + rewrite (cw_built_lml V veqb Hv nfb1 pvs A1 Hs H1 cs Hc), (cw_built_lml V veqb Hv nfb2 pvs A2 Hs H2 cs Hc). reflexivity.
    + rewrite (cw_built_lmf V veqb Hv nfb1 pvs A1 Hs H1 cs Hc), (cw_built_lmf V veqb Hv nfb2 pvs A2 Hs H2 cs Hc). reflexivity.
Qed.
Print Assumptions leftmost_num_free_blocks_is_irrelevant.
