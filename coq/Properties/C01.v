(* C01 — Overlapping search reports every occurrence of every pattern exactly once.
   Pinned statements only; proofs in Proofs/GenAC.v, Proofs/BwCert.v, Theory/SpecAdequacy.v. *)
From DV Require Import Model.Base Model.Nfa Model.BwBuild Model.BwSearch Model.Api Model.Spec
     Model.Cert Proofs.BwCert Theory.SpecAdequacy Model.Utf8 Model.CwBuild Proofs.Utf8Props Proofs.CwCert Proofs.TrieInv Proofs.BuildCert Proofs.BuiltAutomata.
From Coq Require Import Sorted.
Local Open Scope N_scope.

(* For every byte-wise automaton A that passes the certificate checker against the registered
   pattern/value pairs, and EVERY haystack of bytes, the overlapping search of the model returns
   exactly the executable specification (in particular: not Panic, not UB, not OutOfFuel). *)
Theorem bw_overlapping_correct :
  forall (V : Type) (veqb : V -> V -> bool), (forall a b, veqb a b = true -> a = b) ->
  forall (A : bw_automaton V) (pvs : list (list N * V)), bw_cert_ok veqb A pvs = true ->
  forall h : list N, Forall (fun b => b < 256) h ->
    bw_find_overlapping_iter V A h = Ok (spec_overlapping V pvs h).
Proof. intros V veqb Hv A pvs C h Hb. exact (bw_overlapping_correct_lemma V veqb Hv A pvs C h Hb). Qed.
Print Assumptions bw_overlapping_correct.

(* THE BUILDER THEOREM (byte-wise, standard kind).  EVERY automaton that construction returns -- any
   byte patterns of total length below 2^30, any values with a boolean equality, any
   num_free_blocks -- passes the certificate checker for the registered patterns.  Proof chain:
   trie invariant of add (TrieInv) -> breadth-first fail links = longest proper suffix node and
   output chains = suffix patterns (NfaFails) -> the double array is an isomorphic copy of the NFA:
   injective state map, bases unique, every vacant slot of every block sealed by
   remove_invalid_checks, pigeon-hole for full blocks (DaRefine, HelperFlags) -> every check of the
   certificate succeeds (BuildCert). *)
Theorem bw_built_automaton_is_certified :
  forall (V : Type) (veqb : V -> V -> bool), (forall a b, veqb a b = true <-> a = b) ->
  forall nfb (pvs : list (list N * V)) (A : bw_automaton V),
    (forall p v, In (p, v) pvs -> Forall (fun b => b < 256) p) -> 4 * total_len V pvs <= U32_MAX - 1 ->
    bw_build_with_values V Standard nfb pvs = Ok A ->
    bw_cert_ok veqb A pvs = true.
Proof. exact built_cert. Qed.
Print Assumptions bw_built_automaton_is_certified.

(* C01 for the byte-wise variant with NO certificate hypothesis: on every built automaton and every
   haystack the overlapping search returns exactly the specification. *)
Theorem bw_overlapping_correct_for_every_built_automaton :
  forall (V : Type) (veqb : V -> V -> bool), (forall a b, veqb a b = true <-> a = b) ->
  forall nfb (pvs : list (list N * V)) (A : bw_automaton V),
    (forall p v, In (p, v) pvs -> Forall (fun b => b < 256) p) -> 4 * total_len V pvs <= U32_MAX - 1 ->
    bw_build_with_values V Standard nfb pvs = Ok A ->
  forall h : list N, Forall (fun b => b < 256) h ->
    bw_find_overlapping_iter V A h = Ok (spec_overlapping V pvs h).
Proof. exact built_overlapping. Qed.
Print Assumptions bw_overlapping_correct_for_every_built_automaton.

(* Adequacy of the executable specification: it contains exactly the triples (start, end, value)
   with haystack[start..end] a registered pattern carrying that value ... *)
Theorem spec_overlapping_complete_and_sound :
  forall (V : Type) (pvs : list (list N * V)) (h : list N) (s e : nat) (v : V),
    In (s, e, v) (spec_overlapping V pvs h) <-> occ_at V pvs h s e v.
Proof. exact spec_overlapping_adequate. Qed.
Print Assumptions spec_overlapping_complete_and_sound.

(* ... in increasing order of end position and, among equal ends, longest (smallest start) first *)
Theorem spec_overlapping_ordered :
  forall (V : Type) (pvs : list (list N * V)) (h : list N),
    Sorted (ord_le V) (spec_overlapping V pvs h).
Proof. exact spec_overlapping_sorted. Qed.
Print Assumptions spec_overlapping_ordered.

(* Character-wise automaton: patterns are lists of Unicode scalar values, the haystack is the UTF-8
   encoding of ANY text cs; the result is the character-level specification with its positions
   translated to byte offsets ([to_bytes cs (s, e, v)] = (bytes before character s, bytes before
   character e, v)), so every reported offset falls on a character boundary. *)
Theorem cw_overlapping_correct :
  forall (V : Type) (veqb : V -> V -> bool), (forall a b, veqb a b = true -> a = b) ->
  forall (A : cw_automaton V) (pvs : list (list N * V)), cw_cert_ok veqb A pvs = true ->
  forall cs : list N, Forall scalar cs ->
    cw_find_overlapping_iter V A (encode_utf8 cs) = Ok (map (to_bytes V cs) (spec_overlapping V pvs cs)).
Proof. intros V veqb Hv A pvs C cs Hs. exact (cw_overlapping_correct_lemma V veqb Hv A pvs C cs Hs). Qed.
Print Assumptions cw_overlapping_correct.

(* Non-vacuity: the automaton the model builds for {bcd, ab, a, b} (values 7,8,9,7) passes the
   checker, and the theorem's conclusion is observed on a haystack. *)
Definition ex_pvs : list (list N * Z) :=
  [([98; 99; 100], 7%Z); ([97; 98], 8%Z); ([97], 9%Z); ([98], 7%Z)].
Example c01_hypotheses_met :
  match bw_build_with_values Z Standard 16 ex_pvs with
  | Ok A => bw_cert_ok Z.eqb A ex_pvs = true
            /\ bw_find_overlapping_iter Z A [97; 98; 99; 100; 0; 255]
               = Ok [(0, 1, 9%Z); (0, 2, 8%Z); (1, 2, 7%Z); (1, 4, 7%Z)]%nat
  | _ => False
  end.
Proof. vm_compute. split; reflexivity. Qed.

(* Non-vacuity, character-wise: patterns "é😀", "😀", "aé" over a text with all four widths. *)
Definition ex_cpvs : list (list N * Z) := [([233; 128512], 1%Z); ([128512], 2%Z); ([97; 233], 3%Z)].
Example c01_cw_hypotheses_met :
  match cw_build_with_values Z Standard 16 ex_cpvs with
  | Ok A => cw_cert_ok Z.eqb A ex_cpvs = true
            /\ cw_find_overlapping_iter Z A (encode_utf8 [97; 233; 128512; 12354; 128512])
               = Ok [(0, 3, 3%Z); (1, 7, 1%Z); (3, 7, 2%Z); (10, 14, 2%Z)]%nat
  | _ => False
  end.
Proof. vm_compute. split; reflexivity. Qed.

(* THE BUILDER THEOREM, character-wise variant (standard kind): every automaton construction returns
   passes cw_cert_ok.  Chain: TrieInv -> NfaFails -> CwDaRefine (CHECK = parent index, so vacant
   slots never answer; the code mapper is injective: CwBuildCert) -> certificate completeness. *)
Theorem cw_built_automaton_is_certified :
  forall (V : Type) (veqb : V -> V -> bool), (forall a b, veqb a b = true <-> a = b) ->
  forall nfb (pvs : list (list N * V)) (A : cw_automaton V),
    4 * total_len V pvs <= U32_MAX - 1 ->
    cw_build_with_values V Standard nfb pvs = Ok A ->
    cw_cert_ok veqb A pvs = true.
Proof. exact cw_built_cert. Qed.
Print Assumptions cw_built_automaton_is_certified.

(* C01 for the character-wise variant with no certificate hypothesis *)
Theorem cw_overlapping_correct_for_every_built_automaton :
  forall (V : Type) (veqb : V -> V -> bool), (forall a b, veqb a b = true <-> a = b) ->
  forall nfb (pvs : list (list N * V)) (A : cw_automaton V),
    4 * total_len V pvs <= U32_MAX - 1 ->
    cw_build_with_values V Standard nfb pvs = Ok A ->
  forall cs : list N, Forall scalar cs ->
    cw_find_overlapping_iter V A (encode_utf8 cs) = Ok (map (to_bytes V cs) (spec_overlapping V pvs cs)).
Proof. exact cw_built_overlapping. Qed.
Print Assumptions cw_overlapping_correct_for_every_built_automaton.

(* ---- C01 AS ONE STATEMENT PER VARIANT (Proofs/OverlapOnce.v) -----------------------------------------
   [exactly_the_occurrences_once pvs h ms]: ms contains exactly the triples (s, e, v) with h[s..e] a
   registered pattern carrying v (none missed, none invented), each of them once (NoDup), strictly
   ordered by end position and, among equal ends, by start (longest first). *)
From DV Require Import Proofs.OverlapOnce Theory.Utf8Spec.

Theorem bw_overlapping_search_reports_every_occurrence_exactly_once :
  forall (V : Type) (veqb : V -> V -> bool), (forall a b, veqb a b = true <-> a = b) ->
  forall nfb (pvs : list (list N * V)) (A : bw_automaton V),
    (forall p v, In (p, v) pvs -> Forall (fun b => b < 256) p) -> 4 * total_len V pvs <= U32_MAX - 1 ->
    bw_build_with_values V Standard nfb pvs = Ok A ->
  forall h, Forall (fun b => b < 256) h ->
    exists ms, bw_find_overlapping_iter V A h = Ok ms
      /\ (forall s e v, In (s, e, v) ms <-> occ_at V pvs h s e v) /\ NoDup ms /\ StronglySorted (slt V) ms.
Proof. intros V veqb Hv nfb pvs A Hb Hs HA h Hh. exact (bw_overlapping_once V veqb Hv nfb pvs A Hb Hs HA h Hh). Qed.
Print Assumptions bw_overlapping_search_reports_every_occurrence_exactly_once.

Theorem cw_overlapping_search_reports_every_occurrence_exactly_once :
  forall (V : Type) (veqb : V -> V -> bool), (forall a b, veqb a b = true <-> a = b) ->
  forall nfb (pvs : list (list N * V)) (A : cw_automaton V),
    (forall p v, In (p, v) pvs -> Forall scalar p) -> 4 * total_len V pvs <= U32_MAX - 1 ->
    cw_build_with_values V Standard nfb pvs = Ok A ->
  forall cs, Forall scalar cs ->
    exists ms, cw_find_overlapping_iter V A (encode_utf8 cs) = Ok ms
      /\ (forall s e v, In (s, e, v) ms <-> occ_at V (bpvs V pvs) (encode_utf8 cs) s e v) /\ NoDup ms /\ StronglySorted (slt V) ms.
Proof. intros V veqb Hv nfb pvs A Hsc Hs HA cs Hcs. exact (cw_overlapping_once V veqb Hv nfb pvs A Hsc Hs HA cs Hcs). Qed.
Print Assumptions cw_overlapping_search_reports_every_occurrence_exactly_once.
