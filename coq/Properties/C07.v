(* C07 — Searching never performs undefined behaviour despite unchecked indexing. *)
From DV Require Import Model.Base Model.Nfa Model.BwBuild Model.BwSearch Model.Utf8 Model.CwBuild Model.Api Model.Cert
     Model.Ser Proofs.BwSafe Proofs.Utf8Props Proofs.CwSafe Proofs.SerProps Proofs.BuildSafe Proofs.CwBuildSafe.
Local Open Scope N_scope.

(* Byte-wise automaton: if the range check [bw_safe_b] passes (array length a positive multiple of
   256, every base None or below the length, every fail below the length, every output position
   and parent within the output table) then NONE of the four search methods reaches a UB branch
   (an out-of-range get_unchecked on the state or the output array) on ANY haystack of bytes,
   whatever the match kind.  (They may panic on the kind assertion, which is defined behaviour.) *)
Theorem bw_search_no_ub :
  forall (V : Type) (A : bw_automaton V), bw_safe_b A = true ->
  forall h : list N, Forall (fun b => b < 256) h ->
    noub (bw_find_iter V A h) /\ noub (bw_find_overlapping_iter V A h)
    /\ noub (bw_find_overlapping_no_suffix_iter V A h) /\ noub (bw_leftmost_find_iter V A h).
Proof. intros V A S h Hb. exact (bw_search_no_ub_lemma V A S h Hb). Qed.
Print Assumptions bw_search_no_ub.

(* Universal, about the byte-wise BUILDER (Proofs/BuildSafe.v: range invariants of the trie, of the
   growing double array, of the state-id map and of the build helper's bookkeeping, preserved by
   every write of nfa_builder.rs and bytewise/builder.rs): EVERY automaton construction returns --
   any byte patterns, any values, any match kind, any num_free_blocks -- passes the range check. *)
Theorem bw_built_automaton_passes_range_check :
  forall (V : Type) k nfb (pvs : list (list N * V)) (A : bw_automaton V),
    (forall p v, In (p, v) pvs -> Forall (fun b => b < 256) p) ->
    bw_build_with_values V k nfb pvs = Ok A -> bw_safe_b A = true.
Proof. exact bw_build_safe_lemma. Qed.
Print Assumptions bw_built_automaton_passes_range_check.

(* C07 for the byte-wise variant, with no certificate: on every successfully built automaton no
   search reaches an undefined-behaviour branch on any haystack. *)
Theorem bw_built_automaton_never_ub :
  forall (V : Type) k nfb (pvs : list (list N * V)) (A : bw_automaton V),
    (forall p v, In (p, v) pvs -> Forall (fun b => b < 256) p) ->
    bw_build_with_values V k nfb pvs = Ok A ->
  forall h : list N, Forall (fun b => b < 256) h ->
    noub (bw_find_iter V A h) /\ noub (bw_find_overlapping_iter V A h)
    /\ noub (bw_find_overlapping_no_suffix_iter V A h) /\ noub (bw_leftmost_find_iter V A h).
Proof.
  intros V k nfb pvs A Hp HA h Hh.
  exact (bw_search_no_ub_lemma V A (bw_build_safe_lemma V k nfb pvs A Hp HA) h Hh).
Qed.
Print Assumptions bw_built_automaton_never_ub.

(* ... and on the automaton restored from the bytes it serialises to (any trailing bytes), for every
   lawful value type: the restored automaton IS the built one (C09). *)
Theorem bw_restored_automaton_never_ub :
  forall (V : Type) (SV : serializable V) (dom : V -> Prop), ser_law SV dom ->
  forall k nfb (pvs : list (list N * V)) (A : bw_automaton V),
    (forall p v, In (p, v) pvs -> Forall (fun b => b < 256) p) ->
    bw_build_with_values V k nfb pvs = Ok A -> bw_ranges dom A ->
  forall r A' r', bw_deserialize V SV (bw_serialize V SV A ++ r) = Ok (A', r') ->
  forall h : list N, Forall (fun b => b < 256) h ->
    noub (bw_find_iter V A' h) /\ noub (bw_find_overlapping_iter V A' h)
    /\ noub (bw_find_overlapping_no_suffix_iter V A' h) /\ noub (bw_leftmost_find_iter V A' h).
Proof.
  intros V SV dom L k nfb pvs A Hp HA HR r A' r' HD h Hh.
  rewrite (bw_roundtrip_lemma SV dom L A r HR) in HD. inversion HD; subst A' r'.
  exact (bw_search_no_ub_lemma V A (bw_build_safe_lemma V k nfb pvs A Hp HA) h Hh).
Qed.
Print Assumptions bw_restored_automaton_never_ub.

(* Character-wise automaton: if the range check [cw_safe_b] passes (array length a multiple of the
   power-of-two block length, every mapped code below the block length, bases/fails/output positions
   in range) then none of the four search methods reaches a UB branch on ANY valid UTF-8 haystack:
   no out-of-range get_unchecked, no unwrap_unchecked on None and no invalid char in the
   hand-written decoder, and the leftmost iterator only slices the haystack (get_unchecked(pos..))
   on character boundaries. *)
Theorem cw_search_no_ub :
  forall (V : Type) (A : cw_automaton V), cw_safe_b A = true ->
  forall cs : list N, Forall scalar cs ->
    let h := encode_utf8 cs in
    noub (cw_find_iter V A h) /\ noub (cw_find_overlapping_iter V A h)
    /\ noub (cw_find_overlapping_no_suffix_iter V A h) /\ noub (cw_leftmost_find_iter V A h).
Proof. intros V A S cs Hs. exact (cw_search_no_ub_lemma V A S cs Hs). Qed.
Print Assumptions cw_search_no_ub.

(* Universal, about the character-wise BUILDER (Proofs/CwBuildSafe.v): EVERY automaton construction
   returns -- any patterns, values, match kind, num_free_blocks -- passes the range check: the block
   length is a power of two not below the alphabet size (u32::next_power_of_two, the capacity check
   of BuildHelper::new), every mapped code is below it, the array length is a multiple of it, and
   bases / fails / output positions are in range. *)
Theorem cw_built_automaton_passes_range_check :
  forall (V : Type) k nfb (pvs : list (list N * V)) (A : cw_automaton V),
    cw_build_with_values V k nfb pvs = Ok A -> cw_safe_b A = true.
Proof. exact cw_build_safe_lemma. Qed.
Print Assumptions cw_built_automaton_passes_range_check.

(* C07 for the character-wise variant, with no certificate *)
Theorem cw_built_automaton_never_ub :
  forall (V : Type) k nfb (pvs : list (list N * V)) (A : cw_automaton V),
    cw_build_with_values V k nfb pvs = Ok A ->
  forall cs : list N, Forall scalar cs ->
    let h := encode_utf8 cs in
    noub (cw_find_iter V A h) /\ noub (cw_find_overlapping_iter V A h)
    /\ noub (cw_find_overlapping_no_suffix_iter V A h) /\ noub (cw_leftmost_find_iter V A h).
Proof.
  intros V k nfb pvs A HA cs Hs.
  exact (cw_search_no_ub_lemma V A (cw_build_safe_lemma V k nfb pvs A HA) cs Hs).
Qed.
Print Assumptions cw_built_automaton_never_ub.

Theorem cw_restored_automaton_never_ub :
  forall (V : Type) (SV : serializable V) (dom : V -> Prop), ser_law SV dom ->
  forall k nfb (pvs : list (list N * V)) (A : cw_automaton V),
    cw_build_with_values V k nfb pvs = Ok A -> cw_ranges dom A ->
  forall r A' r', cw_deserialize V SV (cw_serialize V SV A ++ r) = Ok (A', r') ->
  forall cs : list N, Forall scalar cs ->
    let h := encode_utf8 cs in
    noub (cw_find_iter V A' h) /\ noub (cw_find_overlapping_iter V A' h)
    /\ noub (cw_find_overlapping_no_suffix_iter V A' h) /\ noub (cw_leftmost_find_iter V A' h).
Proof.
  intros V SV dom L k nfb pvs A HA HR r A' r' HD cs Hs.
  rewrite (cw_roundtrip_lemma SV dom L A r HR) in HD. inversion HD; subst A' r'.
  exact (cw_search_no_ub_lemma V A (cw_build_safe_lemma V k nfb pvs A HA) cs Hs).
Qed.
Print Assumptions cw_restored_automaton_never_ub.

(* the source comment "the length is a multiple of the block size and every base is below the
   length, so base XOR label is below the length", as a lemma *)
Theorem xor_stays_in_block :
  forall k b c n : N, c < 2 ^ k -> b < n * 2 ^ k -> N.lxor b c < n * 2 ^ k.
Proof. exact xor_lt. Qed.
Print Assumptions xor_stays_in_block.

(* Non-vacuity: automata the model builds under all three kinds pass the range check. *)
Definition ex_pvs : list (list N * Z) := [([0; 255], 1%Z); ([255], 2%Z); ([1; 0; 255], 3%Z); ([97], 4%Z)].
Example c07_hypotheses_met :
  forallb (fun k => match bw_build_with_values Z k 1 ex_pvs with Ok A => bw_safe_b A | _ => false end)
          [Standard; LeftmostLongest; LeftmostFirst] = true.
Proof. vm_compute. reflexivity. Qed.

Example c07_cw_hypotheses_met :
  forallb (fun k => match cw_build_with_values Z k 1 [([97; 233], 1%Z); ([128512], 2%Z); ([233; 12354; 97], 3%Z)] with
                    | Ok A => cw_safe_b A | _ => false end)
          [Standard; LeftmostLongest; LeftmostFirst] = true.
Proof. vm_compute. reflexivity. Qed.

(* ---- restored automata with NO representability hypothesis (Proofs/BuildRanges.v): every built
   automaton fits the Rust types, so its image deserialises to itself, whatever follows it ---------- *)
From DV Require Import Proofs.BuildRanges.

Theorem bw_every_restored_automaton_never_ub :
  forall (V : Type) (SV : serializable V) (dom : V -> Prop), ser_law SV dom ->
  forall k nfb (pvs : list (list N * V)) (A : bw_automaton V),
    (forall p v, In (p, v) pvs -> Forall (fun b => b < 256) p) -> (forall p v, In (p, v) pvs -> dom v) ->
    bw_build_with_values V k nfb pvs = Ok A ->
  forall r A' r', bw_deserialize V SV (bw_serialize V SV A ++ r) = Ok (A', r') ->
  forall h : list N, Forall (fun b => b < 256) h ->
    noub (bw_find_iter V A' h) /\ noub (bw_find_overlapping_iter V A' h)
    /\ noub (bw_find_overlapping_no_suffix_iter V A' h) /\ noub (bw_leftmost_find_iter V A' h).
Proof.
  intros V SV dom L k nfb pvs A Hp Hd HA r A' r' HD h Hh.
  exact (bw_restored_automaton_never_ub V SV dom L k nfb pvs A Hp HA (bw_build_ranges_lemma V dom k nfb pvs A Hp Hd HA) r A' r' HD h Hh).
Qed.
Print Assumptions bw_every_restored_automaton_never_ub.

Theorem cw_every_restored_automaton_never_ub :
  forall (V : Type) (SV : serializable V) (dom : V -> Prop), ser_law SV dom ->
  forall k nfb (pvs : list (list N * V)) (A : cw_automaton V),
    (forall p v, In (p, v) pvs -> Forall (fun c => c < 1114112) p) -> (forall p v, In (p, v) pvs -> dom v) ->
    cw_build_with_values V k nfb pvs = Ok A ->
  forall r A' r', cw_deserialize V SV (cw_serialize V SV A ++ r) = Ok (A', r') ->
  forall cs : list N, Forall scalar cs ->
    let h := encode_utf8 cs in
    noub (cw_find_iter V A' h) /\ noub (cw_find_overlapping_iter V A' h)
    /\ noub (cw_find_overlapping_no_suffix_iter V A' h) /\ noub (cw_leftmost_find_iter V A' h).
Proof.
  intros V SV dom L k nfb pvs A Hp Hd HA r A' r' HD cs Hs.
  exact (cw_restored_automaton_never_ub V SV dom L k nfb pvs A HA (cw_build_ranges_lemma V dom k nfb pvs A Hp Hd HA) r A' r' HD cs Hs).
Qed.
Print Assumptions cw_every_restored_automaton_never_ub.
