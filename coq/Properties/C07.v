(* C07 — Searching never performs undefined behaviour despite unchecked indexing. *)
From DV Require Import Model.Base Model.Nfa Model.BwBuild Model.BwSearch Model.Utf8 Model.CwBuild Model.Api Model.Cert
     Proofs.BwSafe Proofs.Utf8Props Proofs.CwSafe.
Local Open Scope N_scope.

(* Byte-wise automaton: if the range check [bw_safe_b] passes (array length a positive multiple of
   256, every base None or below the length, every fail below the length, every output position
   and parent within the output table) then NONE of the four search methods reaches a UB branch
   (an out-of-range get_unchecked on the state or the output array) on ANY haystack of bytes,
   whatever the match kind.  (They may panic on the kind assertion, which is defined behaviour.) *)
Theorem bw_search_no_ub :
  forall (V : Type) (A : bw_automaton V), bw_safe_b A = true ->
  forall h : list N, Forall (fun b => b < 256) h ->
    noub (bw_find_iter V A h) /\ noub (bw_find_overlapping_iter V A h)
    /\ noub (bw_find_overlapping_no_suffix_iter V A h) /\ noub (bw_leftmost_find_iter V A h).
Proof. intros V A S h Hb. exact (bw_search_no_ub_lemma V A S h Hb). Qed.
Print Assumptions bw_search_no_ub.

(* Character-wise automaton: if the range check [cw_safe_b] passes (array length a multiple of the
   power-of-two block length, every mapped code below the block length, bases/fails/output positions
   in range) then none of the four search methods reaches a UB branch on ANY valid UTF-8 haystack:
   no out-of-range get_unchecked, no unwrap_unchecked on None and no invalid char in the
   hand-written decoder, and the leftmost iterator only slices the haystack (get_unchecked(pos..))
   on character boundaries. *)
Theorem cw_search_no_ub :
  forall (V : Type) (A : cw_automaton V), cw_safe_b A = true ->
  forall cs : list N, Forall scalar cs ->
    let h := encode_utf8 cs in
    noub (cw_find_iter V A h) /\ noub (cw_find_overlapping_iter V A h)
    /\ noub (cw_find_overlapping_no_suffix_iter V A h) /\ noub (cw_leftmost_find_iter V A h).
Proof. intros V A S cs Hs. exact (cw_search_no_ub_lemma V A S cs Hs). Qed.
Print Assumptions cw_search_no_ub.

(* the source comment "the length is a multiple of the block size and every base is below the
   length, so base XOR label is below the length", as a lemma *)
Theorem xor_stays_in_block :
  forall k b c n : N, c < 2 ^ k -> b < n * 2 ^ k -> N.lxor b c < n * 2 ^ k.
Proof. exact xor_lt. Qed.
Print Assumptions xor_stays_in_block.

(* Non-vacuity: automata the model builds under all three kinds pass the range check. *)
Definition ex_pvs : list (list N * Z) := [([0; 255], 1%Z); ([255], 2%Z); ([1; 0; 255], 3%Z); ([97], 4%Z)].
Example c07_hypotheses_met :
  forallb (fun k => match bw_build_with_values Z k 1 ex_pvs with Ok A => bw_safe_b A | _ => false end)
          [Standard; LeftmostLongest; LeftmostFirst] = true.
Proof. vm_compute. reflexivity. Qed.

Example c07_cw_hypotheses_met :
  forallb (fun k => match cw_build_with_values Z k 1 [([97; 233], 1%Z); ([128512], 2%Z); ([233; 12354; 97], 3%Z)] with
                    | Ok A => cw_safe_b A | _ => false end)
          [Standard; LeftmostLongest; LeftmostFirst] = true.
Proof. vm_compute. reflexivity. Qed.
