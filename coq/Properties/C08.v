(* C08 — Character-wise and byte-wise automata agree on UTF-8 input.
   Proved here: the UTF-8 facts the agreement rests on, the agreement of the two SPECIFICATIONS
   (byte-level on encoded patterns/text = character-level with byte offsets), and from it the
   agreement of a certified character-wise automaton with a certified byte-wise automaton built
   from the same patterns, on every UTF-8 text (overlapping search, which determines the set of all
   matches).  The correspondence check additionally compares the two IMPLEMENTATIONS directly on
   UTF-8 twins for all six searches (see DESIGN.md section 0). *)
From DV Require Import Model.Base Model.Nfa Model.BwBuild Model.BwSearch Model.Utf8 Model.CwBuild Model.Api Model.Spec Model.Cert
     Proofs.Utf8Props Proofs.BwCert Proofs.CwCert Theory.Utf8Spec Theory.Utf8Spec2 Proofs.TrieInv Proofs.BuildTrie Proofs.BuildProps Proofs.BuiltAutomata.
Local Open Scope N_scope.

(* (1) self-synchronisation: a non-empty UTF-8 pattern occurs in a UTF-8 text only at a character
   boundary, and there the pattern's characters occur in the text's characters.  So the byte-level
   occurrences that the byte-wise automaton reports are exactly the character-level occurrences
   the character-wise automaton can see, all offsets fall on character boundaries, and a haystack
   character that occurs in no pattern simply interrupts matching. *)
Theorem utf8_occurrences_are_character_occurrences :
  forall cs p s, Forall scalar cs -> Forall scalar p -> p <> [] ->
    is_prefix (encode_utf8 p) (skipn s (encode_utf8 cs)) = true ->
    exists i, (i <= length cs)%nat /\ s = boff (firstn i cs) /\ is_prefix p (skipn i cs) = true.
Proof. exact utf8_occ_sync. Qed.
Print Assumptions utf8_occurrences_are_character_occurrences.

Theorem character_occurrences_are_utf8_occurrences :
  forall cs p i, (i <= length cs)%nat -> is_prefix p (skipn i cs) = true ->
    is_prefix (encode_utf8 p) (skipn (boff (firstn i cs)) (encode_utf8 cs)) = true.
Proof. exact utf8_occ_sync_conv. Qed.
Print Assumptions character_occurrences_are_utf8_occurrences.

(* (2) the crate's hand-written decoder (charwise/iter.rs) decodes every encoded scalar value
   exactly, for every scalar value (all four width classes), and reports the offset after it *)
Theorem decoder_total :
  forall c rest pulled, scalar c ->
    dec_next (encode_char c ++ rest) pulled
    = Ok (Some ((pulled + length (encode_char c))%nat, c, rest, (pulled + length (encode_char c))%nat)).
Proof. exact dec_next_encode_char. Qed.
Print Assumptions decoder_total.

(* (3) what the model takes for str::chars is the inverse of the encoder on scalar values *)
Theorem chars_of_encoded_text : forall cs, Forall scalar cs -> chars_of (encode_utf8 cs) = Some cs.
Proof. exact chars_of_encode. Qed.
Print Assumptions chars_of_encoded_text.

(* (3b) and conversely: the decoder accepts ONLY encodings of scalar-value texts (no overlong form,
   no surrogate, nothing above U+10FFFF, no truncated sequence) -- valid UTF-8 is exactly the image
   of the encoder, and decoding gives back the text *)
From DV Require Import Proofs.Utf8Sound.
Theorem valid_utf8_is_exactly_the_image_of_the_encoder :
  forall bs, valid_utf8 bs = true <-> exists cs, Forall scalar cs /\ bs = encode_utf8 cs.
Proof. exact valid_utf8_iff. Qed.
Print Assumptions valid_utf8_is_exactly_the_image_of_the_encoder.

Theorem decoded_text_encodes_back :
  forall bs cs, chars_of bs = Some cs -> Forall scalar cs /\ bs = encode_utf8 cs.
Proof. exact chars_of_sound. Qed.
Print Assumptions decoded_text_encodes_back.

(* Non-vacuity: what the decoder rejects (overlong C0 AF and E0 80 80, the surrogate ED A0 80, F4 90 80 80
   above U+10FFFF, a truncated E3 81) and the boundary encodings it accepts *)
Example decoder_edges :
  map valid_utf8 [[192; 175]; [224; 128; 128]; [237; 160; 128]; [244; 144; 128; 128]; [227; 129]; [128]; [245; 128; 128; 128]]
    = [false; false; false; false; false; false; false]
  /\ map chars_of [[194; 128]; [223; 191]; [224; 160; 128]; [237; 159; 191]; [238; 128; 128]; [240; 144; 128; 128]; [244; 143; 191; 191]]
    = [Some [128]; Some [2047]; Some [2048]; Some [55295]; Some [57344]; Some [65536]; Some [1114111]].
Proof. vm_compute. split; reflexivity. Qed.

(* (4) the byte length stored with a pattern (EdgeLabel::num_bytes = len_utf8) is the length of its
   encoding *)
Theorem len_utf8_is_encoded_length : forall c, length (encode_char c) = N.to_nat (len_utf8 c).
Proof. exact encode_char_length. Qed.
Print Assumptions len_utf8_is_encoded_length.

(* (5) both automata against their specifications, on the same UTF-8 text: the character-wise
   result is the character-level specification with byte offsets; the byte-wise result is the
   byte-level specification of the encoded patterns.  (6) shows that the two lists coincide. *)
Theorem cw_and_bw_against_their_specs :
  forall (V : Type) (veqb : V -> V -> bool), (forall a b, veqb a b = true -> a = b) ->
  forall (C : cw_automaton V) (B : bw_automaton V) (pvs : list (list N * V)),
    cw_cert_ok veqb C pvs = true ->
    bw_cert_ok veqb B (map (fun pv => (encode_utf8 (fst pv), snd pv)) pvs) = true ->
  forall cs : list N, Forall scalar cs ->
    cw_find_overlapping_iter V C (encode_utf8 cs) = Ok (map (to_bytes V cs) (spec_overlapping V pvs cs))
    /\ bw_find_overlapping_iter V B (encode_utf8 cs)
       = Ok (spec_overlapping V (map (fun pv => (encode_utf8 (fst pv), snd pv)) pvs) (encode_utf8 cs)).
Proof.
  intros V veqb Hv C B pvs HC HB cs Hs. split.
  - exact (cw_overlapping_correct_lemma V veqb Hv C pvs HC cs Hs).
  - apply (bw_overlapping_correct_lemma V veqb Hv B _ HB).
    apply Forall_forall. intros b Hb. unfold encode_utf8 in Hb. apply in_flat_map in Hb as (c & Hc & Hb).
    rewrite Forall_forall in Hs. specialize (Hs c Hc). apply scalar_range in Hs.
    unfold encode_char in Hb.
    destruct (c <? 128) eqn:E1; [destruct Hb as [<-|[]]; lia|].
    destruct (c <? 2048) eqn:E2; [destruct Hb as [<-|[<-|[]]]; lia|].
    destruct (c <? 65536) eqn:E3; [destruct Hb as [<-|[<-|[<-|[]]]]; lia|].
    destruct Hb as [<-|[<-|[<-|[<-|[]]]]]; lia.
Qed.
Print Assumptions cw_and_bw_against_their_specs.

(* (6) the two specifications coincide: the byte-level overlapping specification of the encoded
   patterns on the encoded text is the character-level one with positions translated to byte
   offsets.  Patterns are distinct non-empty scalar strings (what the builders accept). *)
Theorem byte_spec_is_char_spec :
  forall (V : Type) (pvs : list (list N * V)),
    (forall p v, In (p, v) pvs -> p <> []) -> (forall p v, In (p, v) pvs -> Forall scalar p) ->
    NoDup (map fst pvs) ->
  forall cs, Forall scalar cs ->
    spec_overlapping V (bpvs V pvs) (encode_utf8 cs) = map (tb V cs) (spec_overlapping V pvs cs).
Proof. exact spec_bytes_eq_spec_chars. Qed.
Print Assumptions byte_spec_is_char_spec.

(* (7) C08 itself for certified automata: a character-wise automaton and a byte-wise automaton,
   each certified for the same distinct scalar patterns, return the same list of overlapping
   matches (same order, same byte offsets, same values) on every UTF-8 text. *)
Theorem cw_eq_bw_overlapping :
  forall (V : Type) (veqb : V -> V -> bool), (forall a b, veqb a b = true -> a = b) ->
  forall (C : cw_automaton V) (B : bw_automaton V) (pvs : list (list N * V)),
    cw_cert_ok veqb C pvs = true ->
    bw_cert_ok veqb B (map (fun pv => (encode_utf8 (fst pv), snd pv)) pvs) = true ->
    (forall p v, In (p, v) pvs -> Forall scalar p) -> NoDup (map fst pvs) ->
  forall cs : list N, Forall scalar cs ->
    cw_find_overlapping_iter V C (encode_utf8 cs) = bw_find_overlapping_iter V B (encode_utf8 cs).
Proof.
  intros V veqb Hv C B pvs HC HB Hsc Hnd cs Hs.
  destruct (cw_and_bw_against_their_specs V veqb Hv C B pvs HC HB cs Hs) as [-> ->].
  f_equal. symmetry.
  assert (Hne : forall p v, In (p, v) pvs -> p <> []).
  { intros p v Hin. exact (proj1 (cpats_nodes V veqb C pvs HC p v Hin)). }
  exact (spec_bytes_eq_spec_chars V pvs Hne Hsc Hnd cs Hs).
Qed.
Print Assumptions cw_eq_bw_overlapping.

(* (8) C08 for EVERY pair of built automata (builder theorems of C01, both variants): build the
   character-wise automaton from scalar patterns and the byte-wise automaton from their UTF-8
   encodings, with any num_free_blocks each; on every UTF-8 text the two overlapping searches
   return the same list. *)
Lemma encode_utf8_is_bytes : forall p, Forall scalar p -> Forall (fun b => b < 256) (encode_utf8 p).
Proof.
  intros p Hs. apply Forall_forall. intros b Hb. unfold encode_utf8 in Hb. apply in_flat_map in Hb as (c & Hc & Hb).
  rewrite Forall_forall in Hs. specialize (Hs c Hc). apply scalar_range in Hs. unfold encode_char in Hb.
  destruct (c <? 128) eqn:E1; [destruct Hb as [<-|[]]; lia|].
  destruct (c <? 2048) eqn:E2; [destruct Hb as [<-|[<-|[]]]; lia|].
  destruct (c <? 65536) eqn:E3; [destruct Hb as [<-|[<-|[<-|[]]]]; lia|].
  destruct Hb as [<-|[<-|[<-|[<-|[]]]]]; lia.
Qed.

Theorem cw_eq_bw_for_every_built_pair :
  forall (V : Type) (veqb : V -> V -> bool), (forall a b, veqb a b = true <-> a = b) ->
  forall nfb1 nfb2 (pvs : list (list N * V)) (C : cw_automaton V) (B : bw_automaton V),
    (forall p v, In (p, v) pvs -> Forall scalar p) ->
    4 * total_len V pvs <= U32_MAX - 1 ->
    4 * total_len V (map (fun pv => (encode_utf8 (fst pv), snd pv)) pvs) <= U32_MAX - 1 ->
    cw_build_with_values V Standard nfb1 pvs = Ok C ->
    bw_build_with_values V Standard nfb2 (map (fun pv => (encode_utf8 (fst pv), snd pv)) pvs) = Ok B ->
  forall cs : list N, Forall scalar cs ->
    cw_find_overlapping_iter V C (encode_utf8 cs) = bw_find_overlapping_iter V B (encode_utf8 cs).
Proof.
  intros V veqb Hv nfb1 nfb2 pvs C B Hsc Hs1 Hs2 HC HB cs Hcs.
  assert (Hbytes : forall p v, In (p, v) (map (fun pv => (encode_utf8 (fst pv), snd pv)) pvs) -> Forall (fun b => b < 256) p).
  { intros p v Hin. apply in_map_iff in Hin as [[q w] [E Hq]]. cbn [fst snd] in E. injection E as E1 E2. rewrite <- E1. apply encode_utf8_is_bytes. exact (Hsc q w Hq). }
  assert (Hnd : NoDup (map fst pvs)).
  { destruct (cw_build_ok_lemma V Standard nfb1 pvs C Hs1 HC) as (Hv' & _). apply spec_build_error_none_iff_valid in Hv' as (_ & _ & Hn). exact Hn. }
  apply (cw_eq_bw_overlapping V veqb (fun a b => proj1 (Hv a b)) C B pvs); try assumption.
  - exact (cw_built_cert V veqb Hv nfb1 pvs C Hs1 HC).
  - exact (built_cert V veqb Hv nfb2 _ B Hbytes Hs2 HB).
Qed.
Print Assumptions cw_eq_bw_for_every_built_pair.

(* (9) the remaining specifications coincide as well: find, no-suffix, leftmost-longest and
   leftmost-first.  Byte positions that are not character boundaries never start or end an
   occurrence, so every candidate loop of a byte-level specification skips them; at boundaries the
   candidates correspond; the greedy choices (least end / longest at an end / longest at a start /
   earliest registered at a start) are preserved because the translation is strictly monotone. *)
Theorem byte_specs_are_char_specs :
  forall (V : Type) (pvs : list (list N * V)),
    (forall p v, In (p, v) pvs -> p <> []) -> (forall p v, In (p, v) pvs -> Forall scalar p) ->
    NoDup (map fst pvs) ->
  forall cs, Forall scalar cs ->
    spec_find V (bpvs V pvs) (encode_utf8 cs) = map (tb V cs) (spec_find V pvs cs)
    /\ spec_nosuffix V (bpvs V pvs) (encode_utf8 cs) = map (tb V cs) (spec_nosuffix V pvs cs)
    /\ spec_lml V (bpvs V pvs) (encode_utf8 cs) = map (tb V cs) (spec_lml V pvs cs)
    /\ spec_lmf V (bpvs V pvs) (encode_utf8 cs) = map (tb V cs) (spec_lmf V pvs cs).
Proof.
  intros V pvs Hne Hsc Hnd cs Hcs. split; [|split; [|split]].
  - exact (spec_find_bytes_eq_chars V pvs Hne Hsc Hnd cs Hcs).
  - exact (spec_nosuffix_bytes_eq_chars V pvs Hne Hsc Hnd cs Hcs).
  - exact (spec_lml_bytes_eq_chars V pvs Hne Hsc cs Hcs).
  - exact (spec_lmf_bytes_eq_chars V pvs Hne Hsc cs Hcs).
Qed.
Print Assumptions byte_specs_are_char_specs.

(* (10) C08 in full for EVERY pair of built automata: all three standard searches ... *)
Theorem cw_eq_bw_standard_searches_for_every_built_pair :
  forall (V : Type) (veqb : V -> V -> bool), (forall a b, veqb a b = true <-> a = b) ->
  forall nfb1 nfb2 (pvs : list (list N * V)) (C : cw_automaton V) (B : bw_automaton V),
    (forall p v, In (p, v) pvs -> Forall scalar p) ->
    4 * total_len V pvs <= U32_MAX - 1 ->
    4 * total_len V (map (fun pv => (encode_utf8 (fst pv), snd pv)) pvs) <= U32_MAX - 1 ->
    cw_build_with_values V Standard nfb1 pvs = Ok C ->
    bw_build_with_values V Standard nfb2 (map (fun pv => (encode_utf8 (fst pv), snd pv)) pvs) = Ok B ->
  forall cs : list N, Forall scalar cs ->
    cw_find_iter V C (encode_utf8 cs) = bw_find_iter V B (encode_utf8 cs)
    /\ cw_find_overlapping_iter V C (encode_utf8 cs) = bw_find_overlapping_iter V B (encode_utf8 cs)
    /\ cw_find_overlapping_no_suffix_iter V C (encode_utf8 cs) = bw_find_overlapping_no_suffix_iter V B (encode_utf8 cs).
Proof.
  intros V veqb Hv nfb1 nfb2 pvs C B Hsc Hs1 Hs2 HC HB cs Hcs.
  assert (Hbytes : forall p v, In (p, v) (map (fun pv => (encode_utf8 (fst pv), snd pv)) pvs) -> Forall (fun b => b < 256) p).
  { intros p v Hin. apply in_map_iff in Hin as [[q w] [E Hq]]. cbn [fst snd] in E. injection E as E1 E2. rewrite <- E1. apply encode_utf8_is_bytes. exact (Hsc q w Hq). }
  destruct (cw_build_ok_lemma V Standard nfb1 pvs C Hs1 HC) as (Hv' & _). apply spec_build_error_none_iff_valid in Hv' as (_ & Hne0 & Hnd).
  assert (Hne : forall p v, In (p, v) pvs -> p <> []).
  { intros p v Hin. rewrite Forall_forall in Hne0. apply Hne0. apply in_map_iff. exists (p, v). auto. }
  pose proof (encode_utf8_is_bytes cs Hcs) as Hbcs.
  destruct (byte_specs_are_char_specs V pvs Hne Hsc Hnd cs Hcs) as (F & NS & _ & _).
  split; [|split].
  - rewrite (cw_built_find V veqb Hv nfb1 pvs C Hs1 HC cs Hcs), (built_find V veqb Hv nfb2 _ B Hbytes Hs2 HB _ Hbcs).
    f_equal. symmetry. exact F.
  - exact (cw_eq_bw_for_every_built_pair V veqb Hv nfb1 nfb2 pvs C B Hsc Hs1 Hs2 HC HB cs Hcs).
  - rewrite (cw_built_nosuffix V veqb Hv nfb1 pvs C Hs1 HC cs Hcs), (built_nosuffix V veqb Hv nfb2 _ B Hbytes Hs2 HB _ Hbcs).
    f_equal. symmetry. exact NS.
Qed.
Print Assumptions cw_eq_bw_standard_searches_for_every_built_pair.

(* ... and the leftmost search under both leftmost kinds *)
Theorem cw_eq_bw_leftmost_search_for_every_built_pair :
  forall (V : Type) (veqb : V -> V -> bool), (forall a b, veqb a b = true <-> a = b) ->
  forall k, k <> Standard ->
  forall nfb1 nfb2 (pvs : list (list N * V)) (C : cw_automaton V) (B : bw_automaton V),
    (forall p v, In (p, v) pvs -> Forall scalar p) ->
    4 * total_len V pvs <= U32_MAX - 1 ->
    4 * total_len V (map (fun pv => (encode_utf8 (fst pv), snd pv)) pvs) <= U32_MAX - 1 ->
    cw_build_with_values V k nfb1 pvs = Ok C ->
    bw_build_with_values V k nfb2 (map (fun pv => (encode_utf8 (fst pv), snd pv)) pvs) = Ok B ->
  forall cs : list N, Forall scalar cs ->
    cw_leftmost_find_iter V C (encode_utf8 cs) = bw_leftmost_find_iter V B (encode_utf8 cs).
Proof.
  intros V veqb Hv k Hk nfb1 nfb2 pvs C B Hsc Hs1 Hs2 HC HB cs Hcs.
  assert (Hbytes : forall p v, In (p, v) (map (fun pv => (encode_utf8 (fst pv), snd pv)) pvs) -> Forall (fun b => b < 256) p).
  { intros p v Hin. apply in_map_iff in Hin as [[q w] [E Hq]]. cbn [fst snd] in E. injection E as E1 E2. rewrite <- E1. apply encode_utf8_is_bytes. exact (Hsc q w Hq). }
  destruct (built_valid_cw V k nfb1 pvs C Hs1 HC) as [Hne Hnd].
  pose proof (encode_utf8_is_bytes cs Hcs) as Hbcs.
  destruct (byte_specs_are_char_specs V pvs Hne Hsc Hnd cs Hcs) as (_ & _ & LML & LMF).
  destruct k; [congruence| |].
  - rewrite (cw_built_lml V veqb Hv nfb1 pvs C Hs1 HC cs Hcs), (bw_built_lml V veqb Hv nfb2 _ B Hbytes Hs2 HB _ Hbcs).
    f_equal. symmetry. exact LML.
  - rewrite (cw_built_lmf V veqb Hv nfb1 pvs C Hs1 HC cs Hcs), (bw_built_lmf V veqb Hv nfb2 _ B Hbytes Hs2 HB _ Hbcs).
    f_equal. symmetry. exact LMF.
Qed.
Print Assumptions cw_eq_bw_leftmost_search_for_every_built_pair.

(* Non-vacuity: "é" (2 bytes) inside "aé😀é": found at byte offset 1 = boundary of character 1,
   not at the continuation byte; U+10FFFF decodes. *)
Example c08_observed :
  is_prefix (encode_utf8 [233]) (skipn 1 (encode_utf8 [97; 233; 128512; 233])) = true
  /\ is_prefix (encode_utf8 [233]) (skipn 2 (encode_utf8 [97; 233; 128512; 233])) = false
  /\ boff (firstn 1 [97; 233; 128512; 233]) = 1%nat
  /\ dec_next (encode_char 1114111 ++ [7]) 5 = Ok (Some (9%nat, 1114111, [7], 9%nat)).
Proof. vm_compute. repeat split; reflexivity. Qed.

(* ---- every reported offset is a character boundary (Proofs/CwBoundaries.v) ---------------------------
   For every built character-wise automaton of every kind, every search method, every match: start and
   end are character boundaries of the haystack (0, its length, or the position of a non-continuation
   byte), so slicing the haystack str at them cannot panic. *)
From DV Require Import Model.Cli Proofs.CwBoundaries.

Theorem cw_offsets_fall_on_character_boundaries :
  forall (V : Type) (veqb : V -> V -> bool), (forall a b, veqb a b = true <-> a = b) ->
  forall k nfb (pvs : list (list N * V)) (A : cw_automaton V),
    (forall p v, In (p, v) pvs -> Forall scalar p) -> 4 * total_len V pvs <= U32_MAX - 1 ->
    cw_build_with_values V k nfb pvs = Ok A ->
  forall cs, Forall scalar cs ->
  let h := encode_utf8 cs in
  forall ms, cw_find_iter V A h = Ok ms \/ cw_find_overlapping_iter V A h = Ok ms
             \/ cw_find_overlapping_no_suffix_iter V A h = Ok ms \/ cw_leftmost_find_iter V A h = Ok ms ->
  forall s e v, In (s, e, v) ms -> is_char_boundary h s = true /\ is_char_boundary h e = true.
Proof. exact cw_offsets_on_boundaries. Qed.
Print Assumptions cw_offsets_fall_on_character_boundaries.
