(* C14 — Construction is deterministic and independent of input order; searching is pure.
   Determinism and purity are definitional for Gallina functions (the model has no hidden state:
   equal inputs give equal results, a search returns a value and cannot modify the automaton);
   their content lies in the correspondence check (build twice, build in permuted order, 8 threads
   on one shared automaton).  Proved here: the character-wise CodeMapper -- the component whose
   result could depend on the order of the input -- does not. *)
From DV Require Import Model.Base Model.Nfa Model.BwBuild Model.Utf8 Model.CwBuild Model.Ser Model.Spec Proofs.PermProps Proofs.TrieInv Theory.SpecPerm Proofs.BuildPermBytes.
From Coq Require Import Sorted Permutation.
Local Open Scope N_scope.

(* Whatever algorithm sorts the (character, frequency) pairs (the code uses sort_unstable_by): any
   permutation of the input that is strictly sorted by (frequency desc, character asc) is the list
   the model's insertion sort returns. *)
Theorem mapper_sort_is_canonical :
  forall l s : list (N * N), NoDup (map fst l) -> Permutation l s -> StronglySorted flt s ->
    s = freq_sort l.
Proof. exact any_sorted_permutation_is_freq_sort. Qed.
Print Assumptions mapper_sort_is_canonical.

(* The mapper the builder computes is a function of the sequence of all pattern characters ... *)
Theorem cw_builder_mapper :
  forall (V : Type) (pvs : list (list N * V)) n n' f' present',
    cw_add_all V n {| fq_map := nempty; fq_len := 0 |} [] pvs = Ok (n', f', present') ->
    mapper_new f' present' = mapper_of_chars (concat (map fst pvs)).
Proof. intros V pvs n n' f' present' H. exact (cw_mapper_is_mapper_of_chars pvs n n' f' present' H). Qed.
Print Assumptions cw_builder_mapper.

(* ... and that function is invariant under every permutation of the pattern/value pairs *)
Theorem cw_mapper_order_independent :
  forall (V : Type) (pvs pvs' : list (list N * V)), Permutation pvs pvs' ->
    mapper_of_chars (concat (map fst pvs)) = mapper_of_chars (concat (map fst pvs')).
Proof. intros V pvs pvs' H. exact (cw_mapper_perm pvs pvs' H). Qed.
Print Assumptions cw_mapper_order_independent.

(* Non-vacuity: two orders of three patterns with a frequency tie (a and b occur twice each). *)
Example c14_observed :
  mapper_of_chars (concat [[97; 98]; [98; 99]; [97]]) = mapper_of_chars (concat [[97]; [98; 99]; [97; 98]])
  /\ mp_alpha (mapper_of_chars (concat [[97; 98]; [98; 99]; [97]])) = 3.
Proof. vm_compute. split; reflexivity. Qed.

(* ---- BUILD ORDER INDEPENDENCE, in full ---------------------------------------------------------------
   Building from ANY permutation of the pattern/value pairs gives THE SAME automaton -- the same
   state array, the same output table (and, character-wise, the same code mapper), the same
   counters; Leibniz equality of the model's automaton values, hence identical serialised bytes
   under every value serialiser -- for standard and leftmost-longest semantics, any num_free_blocks,
   both variants, every collection both orders of which are built.  (Leftmost-first depends on the
   registration order by definition.)  Proof chain: the tries of the two orders satisfy the trie
   invariant for the same set of strings, so "the state of string p" defines a renaming phi of the
   state ids (Proofs/IsoTrie.v: a bijection of N; edge lists are sorted by label, so corresponding
   states have corresponding edge lists; outputs agree); finish_nfa (fail links by breadth-first
   search, both kinds; output chains) maps isomorphic NFAs to isomorphic NFAs with equal output
   tables, step by step and with equal outcomes (Proofs/Iso.v); the depth-first layout runs in lock
   step on isomorphic NFAs -- same bases, same slots, same helper state -- and set_fails writes the
   same values, so the finished arrays agree slot by slot (Proofs/IsoBw.v, IsoCw.v); the code
   mapper is order independent (above). *)
Theorem bw_build_is_order_independent :
  forall (V : Type) k nfb (pvs pvs' : list (list N * V)) A A',
    Permutation pvs pvs' -> k <> LeftmostFirst ->
    (forall p v, In (p, v) pvs -> Forall (fun b => b < 256) p) -> 4 * total_len V pvs <= U32_MAX - 1 ->
    bw_build_with_values V k nfb pvs = Ok A -> bw_build_with_values V k nfb pvs' = Ok A' -> A' = A.
Proof. exact bw_build_perm. Qed.
Print Assumptions bw_build_is_order_independent.

Theorem cw_build_is_order_independent :
  forall (V : Type) k nfb (pvs pvs' : list (list N * V)) C C',
    Permutation pvs pvs' -> k <> LeftmostFirst -> 4 * total_len V pvs <= U32_MAX - 1 ->
    cw_build_with_values V k nfb pvs = Ok C -> cw_build_with_values V k nfb pvs' = Ok C' -> C' = C.
Proof. exact cw_build_perm. Qed.
Print Assumptions cw_build_is_order_independent.

(* identical serialised bytes, for every lawful value serialiser *)
Theorem permuted_builds_serialise_identically :
  forall (V : Type) (SV : serializable V) k nfb (pvs pvs' : list (list N * V)),
    Permutation pvs pvs' -> k <> LeftmostFirst -> 4 * total_len V pvs <= U32_MAX - 1 ->
    (forall A A', (forall p v, In (p, v) pvs -> Forall (fun b => b < 256) p) ->
       bw_build_with_values V k nfb pvs = Ok A -> bw_build_with_values V k nfb pvs' = Ok A' ->
       bw_serialize V SV A' = bw_serialize V SV A)
    /\ (forall C C', cw_build_with_values V k nfb pvs = Ok C -> cw_build_with_values V k nfb pvs' = Ok C' ->
       cw_serialize V SV C' = cw_serialize V SV C).
Proof.
  intros V SV k nfb pvs pvs' HP Hk Hs. split.
  - intros A A' Hb HA HA'. rewrite (bw_build_perm V k nfb pvs pvs' A A' HP Hk Hb Hs HA HA'). reflexivity.
  - intros C C' HC HC'. rewrite (cw_build_perm V k nfb pvs pvs' C C' HP Hk Hs HC HC'). reflexivity.
Qed.
Print Assumptions permuted_builds_serialise_identically.

(* the specifications themselves are order independent for duplicate-free collections *)
Theorem specifications_are_order_independent :
  forall (V : Type) (pvs pvs' : list (list N * V)), Permutation pvs pvs' -> NoDup (map fst pvs) ->
  forall h, spec_overlapping V pvs h = spec_overlapping V pvs' h /\ spec_find V pvs h = spec_find V pvs' h
            /\ spec_nosuffix V pvs h = spec_nosuffix V pvs' h /\ spec_lml V pvs h = spec_lml V pvs' h.
Proof.
  intros V pvs pvs' HP Hnd h. split; [|split; [|split]].
  - exact (spec_overlapping_perm V pvs pvs' HP Hnd h).
  - exact (spec_find_perm V pvs pvs' HP Hnd h).
  - exact (spec_nosuffix_perm V pvs pvs' HP Hnd h).
  - exact (spec_lml_perm V pvs pvs' HP Hnd h).
Qed.
Print Assumptions specifications_are_order_independent.

