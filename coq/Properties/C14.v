(* C14 — Construction is deterministic and independent of input order; searching is pure.
   Determinism and purity are definitional for Gallina functions (the model has no hidden state:
   equal inputs give equal results, a search returns a value and cannot modify the automaton);
   their content lies in the correspondence check (build twice, build in permuted order, 8 threads
   on one shared automaton).  Proved here: the character-wise CodeMapper -- the component whose
   result could depend on the order of the input -- does not. *)
From DV Require Import Model.Base Model.Utf8 Model.CwBuild Proofs.PermProps.
From Coq Require Import Sorted Permutation.
Local Open Scope N_scope.

(* Whatever algorithm sorts the (character, frequency) pairs (the code uses sort_unstable_by): any
   permutation of the input that is strictly sorted by (frequency desc, character asc) is the list
   the model's insertion sort returns. *)
Theorem mapper_sort_is_canonical :
  forall l s : list (N * N), NoDup (map fst l) -> Permutation l s -> StronglySorted flt s ->
    s = freq_sort l.
Proof. exact any_sorted_permutation_is_freq_sort. Qed.
Print Assumptions mapper_sort_is_canonical.

(* The mapper the builder computes is a function of the sequence of all pattern characters ... *)
Theorem cw_builder_mapper :
  forall (V : Type) (pvs : list (list N * V)) n n' f' present',
    cw_add_all V n {| fq_map := nempty; fq_len := 0 |} [] pvs = Ok (n', f', present') ->
    mapper_new f' present' = mapper_of_chars (concat (map fst pvs)).
Proof. intros V pvs n n' f' present' H. exact (cw_mapper_is_mapper_of_chars pvs n n' f' present' H). Qed.
Print Assumptions cw_builder_mapper.

(* ... and that function is invariant under every permutation of the pattern/value pairs *)
Theorem cw_mapper_order_independent :
  forall (V : Type) (pvs pvs' : list (list N * V)), Permutation pvs pvs' ->
    mapper_of_chars (concat (map fst pvs)) = mapper_of_chars (concat (map fst pvs')).
Proof. intros V pvs pvs' H. exact (cw_mapper_perm pvs pvs' H). Qed.
Print Assumptions cw_mapper_order_independent.

(* Non-vacuity: two orders of three patterns with a frequency tie (a and b occur twice each). *)
Example c14_observed :
  mapper_of_chars (concat [[97; 98]; [98; 99]; [97]]) = mapper_of_chars (concat [[97]; [98; 99]; [97; 98]])
  /\ mp_alpha (mapper_of_chars (concat [[97; 98]; [98; 99]; [97]])) = 3.
Proof. vm_compute. split; reflexivity. Qed.
