(* C12 — Byte-iterator searches read their source lazily, once.
   In the model every iterator is a state machine over an explicit source (rest, pulled); the
   slice and string entry points feed the same machine (their equality with the byte-iterator
   entry points on the real code is what the correspondence check observes).  The theorems are
   universal: ANY arrays, ANY haystack, ANY call history -- whenever next() returns normally. *)
From DV Require Import Model.Base Model.Nfa Model.BwBuild Model.BwSearch Model.Utf8 Model.CwBuild
     Model.CwSearch Proofs.IterPull.

(* [src_inv h s]: the source holds exactly the bytes of h not yet pulled (pulled left to right,
   each byte once).  It holds initially and every next() preserves it; when a match ending at e is
   returned exactly e bytes have been pulled; when None is returned all |h| bytes have been. *)
Theorem source_invariant_initially : forall h, src_inv h (src_of h).
Proof. exact src_inv_init. Qed.
Print Assumptions source_invariant_initially.

Theorem bw_find_pull_exact :
  forall V sget oget nslots (h : list N) (it : find_it) r it', src_inv h (f_src it) ->
  find_next V sget oget nslots it = Ok (r, it') ->
  src_inv h (f_src it') /\
  match r with
  | Some m => m_end m = s_pulled (f_src it') /\ (s_pulled (f_src it) < m_end m)%nat
  | None => s_pulled (f_src it') = length h
  end.
Proof. exact find_next_pull. Qed.
Print Assumptions bw_find_pull_exact.

Theorem bw_nosuffix_pull_exact :
  forall V sget oget nslots (h : list N) (it : nos_it) r it', src_inv h (x_src it) ->
  nos_next V sget oget nslots it = Ok (r, it') ->
  src_inv h (x_src it') /\
  match r with
  | Some m => m_end m = s_pulled (x_src it') /\ (s_pulled (x_src it) < m_end m)%nat
  | None => s_pulled (x_src it') = length h
  end.
Proof. exact nos_next_pull. Qed.
Print Assumptions bw_nosuffix_pull_exact.

(* overlapping: a pending chain of suffix outputs is emitted without touching the source *)
Theorem bw_overlapping_pull_exact :
  forall V sget oget nslots (h : list N) (it : ovl_it) r it', ovl_inv h it ->
  ovl_next V sget oget nslots it = Ok (r, it') ->
  ovl_inv h it' /\
  match r with
  | Some m => m_end m = s_pulled (v_src it') /\ (s_pulled (v_src it) <= m_end m)%nat
  | None => s_pulled (v_src it') = length h
  end.
Proof. exact ovl_next_pull. Qed.
Print Assumptions bw_overlapping_pull_exact.

Theorem overlapping_invariant_initially : forall h, ovl_inv h (ovl_init h).
Proof. exact ovl_inv_init. Qed.
Print Assumptions overlapping_invariant_initially.

(* character-wise: the hand-written decoder pulls the 1..4 bytes of one character, and the end
   offset it reports is the number of bytes pulled after the last of them *)
Theorem decoder_pulls_one_character :
  forall rest pulled pos c rest' pulled',
  dec_next rest pulled = Ok (Some (pos, c, rest', pulled')) ->
  pos = pulled' /\ exists k, (1 <= k <= 4)%nat /\ pulled' = (pulled + k)%nat /\ rest' = skipn k rest
                            /\ (k <= length rest)%nat.
Proof. exact dec_next_pull. Qed.
Print Assumptions decoder_pulls_one_character.

Theorem cw_find_pull_exact :
  forall V sget oget tget nslots (h : list N) (it : find_it) r it', src_inv h (f_src it) ->
  cfind_next V sget oget tget nslots it = Ok (r, it') ->
  src_inv h (f_src it') /\
  match r with
  | Some m => m_end m = s_pulled (f_src it') /\ (s_pulled (f_src it) < m_end m)%nat
  | None => s_pulled (f_src it') = length h
  end.
Proof. exact cfind_next_pull. Qed.
Print Assumptions cw_find_pull_exact.

Theorem cw_nosuffix_pull_exact :
  forall V sget oget tget nslots (h : list N) (it : nos_it) r it', src_inv h (x_src it) ->
  cnos_next V sget oget tget nslots it = Ok (r, it') ->
  src_inv h (x_src it') /\
  match r with
  | Some m => m_end m = s_pulled (x_src it') /\ (s_pulled (x_src it) < m_end m)%nat
  | None => s_pulled (x_src it') = length h
  end.
Proof. exact cnos_next_pull. Qed.
Print Assumptions cw_nosuffix_pull_exact.

Theorem cw_overlapping_pull_exact :
  forall V sget oget tget nslots (h : list N) (it : ovl_it) r it', ovl_inv h it ->
  covl_next V sget oget tget nslots it = Ok (r, it') ->
  ovl_inv h it' /\
  match r with
  | Some m => m_end m = s_pulled (v_src it') /\ (s_pulled (v_src it) <= m_end m)%nat
  | None => s_pulled (v_src it') = length h
  end.
Proof. exact covl_next_pull. Qed.
Print Assumptions cw_overlapping_pull_exact.

(* Non-vacuity: on a real automaton the second call of the overlapping iterator returns a match
   ending at 2 with exactly 2 of 4 bytes pulled. *)
Example c12_observed :
  match bw_build_with_values Z Standard 16 [([97; 98], 1%Z); ([98], 2%Z); ([99; 100], 3%Z)] with
  | Ok A =>
    let nx := ovl_next Z (bw_sget Z A) (bw_oget Z A) (bw_nslots Z A) in
    match nx (ovl_init [97; 98; 99; 100]) with
    | Ok (Some m1, it1) =>
      match nx it1 with
      | Ok (Some m2, it2) => (m_end m1, s_pulled (v_src it1), m_end m2, s_pulled (v_src it2), s_rest (v_src it2))
                             = (2, 2, 2, 2, [99; 100]%N)%nat
      | _ => False
      end
    | _ => False
    end
  | _ => False
  end.
Proof. vm_compute. reflexivity. Qed.

(* ---- WHOLE CALL HISTORIES (Proofs/IterHistory.v) ------------------------------------------------------
   [history next src k it]: k successive next() calls; after each one: what it returned, how many
   bytes have been pulled from the source so far, and what the source still holds.  Whatever k is
   (and whatever the caller does between the calls: the iterator owns its cursor), every call
   satisfies [call_ok]: the source holds exactly the bytes of h not yet pulled, in order; a returned
   match ending at e leaves exactly e bytes pulled; None leaves the source drained. *)
From DV Require Import Proofs.IterHistory.

Theorem bw_find_history_exact :
  forall V sget oget nslots (h : list N) k hs,
    history V find_it (find_next V sget oget nslots) f_src k (find_init h) = Ok hs -> Forall (call_ok V h) hs.
Proof.
  intros V sget oget nslots h k hs H.
  apply (history_exact V find_it (find_next V sget oget nslots) f_src (fun it => src_inv h (f_src it)) h) with (k := k) (it := find_init h); [| |exact H].
  - intros it r it' HI E. destruct (bw_find_pull_exact V sget oget nslots h it r it' HI E) as [H1 H2].
    split; [exact H1|]. split; [exact H1|]. destruct r as [m|]; [destruct H2; split; [assumption|lia]|exact H2].
  - apply source_invariant_initially.
Qed.
Print Assumptions bw_find_history_exact.

Theorem bw_nosuffix_history_exact :
  forall V sget oget nslots (h : list N) k hs,
    history V nos_it (nos_next V sget oget nslots) x_src k (nos_init h) = Ok hs -> Forall (call_ok V h) hs.
Proof.
  intros V sget oget nslots h k hs H.
  apply (history_exact V nos_it (nos_next V sget oget nslots) x_src (fun it => src_inv h (x_src it)) h) with (k := k) (it := nos_init h); [| |exact H].
  - intros it r it' HI E. destruct (bw_nosuffix_pull_exact V sget oget nslots h it r it' HI E) as [H1 H2].
    split; [exact H1|]. split; [exact H1|]. destruct r as [m|]; [destruct H2; split; [assumption|lia]|exact H2].
  - apply source_invariant_initially.
Qed.
Print Assumptions bw_nosuffix_history_exact.

Theorem bw_overlapping_history_exact :
  forall V sget oget nslots (h : list N) k hs,
    history V ovl_it (ovl_next V sget oget nslots) v_src k (ovl_init h) = Ok hs -> Forall (call_ok V h) hs.
Proof.
  intros V sget oget nslots h k hs H.
  apply (history_exact V ovl_it (ovl_next V sget oget nslots) v_src (ovl_inv h) h) with (k := k) (it := ovl_init h); [| |exact H].
  - intros it r it' HI E. destruct (bw_overlapping_pull_exact V sget oget nslots h it r it' HI E) as [H1 H2].
    split; [exact H1|]. split; [exact (proj1 H1)|]. exact H2.
  - apply overlapping_invariant_initially.
Qed.
Print Assumptions bw_overlapping_history_exact.

Theorem cw_find_history_exact :
  forall V sget oget tget nslots (h : list N) k hs,
    history V find_it (cfind_next V sget oget tget nslots) f_src k (find_init h) = Ok hs -> Forall (call_ok V h) hs.
Proof.
  intros V sget oget tget nslots h k hs H.
  apply (history_exact V find_it (cfind_next V sget oget tget nslots) f_src (fun it => src_inv h (f_src it)) h) with (k := k) (it := find_init h); [| |exact H].
  - intros it r it' HI E. destruct (cw_find_pull_exact V sget oget tget nslots h it r it' HI E) as [H1 H2].
    split; [exact H1|]. split; [exact H1|]. destruct r as [m|]; [destruct H2; split; [assumption|lia]|exact H2].
  - apply source_invariant_initially.
Qed.
Print Assumptions cw_find_history_exact.

Theorem cw_nosuffix_history_exact :
  forall V sget oget tget nslots (h : list N) k hs,
    history V nos_it (cnos_next V sget oget tget nslots) x_src k (nos_init h) = Ok hs -> Forall (call_ok V h) hs.
Proof.
  intros V sget oget tget nslots h k hs H.
  apply (history_exact V nos_it (cnos_next V sget oget tget nslots) x_src (fun it => src_inv h (x_src it)) h) with (k := k) (it := nos_init h); [| |exact H].
  - intros it r it' HI E. destruct (cw_nosuffix_pull_exact V sget oget tget nslots h it r it' HI E) as [H1 H2].
    split; [exact H1|]. split; [exact H1|]. destruct r as [m|]; [destruct H2; split; [assumption|lia]|exact H2].
  - apply source_invariant_initially.
Qed.
Print Assumptions cw_nosuffix_history_exact.

Theorem cw_overlapping_history_exact :
  forall V sget oget tget nslots (h : list N) k hs,
    history V ovl_it (covl_next V sget oget tget nslots) v_src k (ovl_init h) = Ok hs -> Forall (call_ok V h) hs.
Proof.
  intros V sget oget tget nslots h k hs H.
  apply (history_exact V ovl_it (covl_next V sget oget tget nslots) v_src (ovl_inv h) h) with (k := k) (it := ovl_init h); [| |exact H].
  - intros it r it' HI E. destruct (cw_overlapping_pull_exact V sget oget tget nslots h it r it' HI E) as [H1 H2].
    split; [exact H1|]. split; [exact (proj1 H1)|]. exact H2.
  - apply overlapping_invariant_initially.
Qed.
Print Assumptions cw_overlapping_history_exact.
