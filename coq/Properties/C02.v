(* C02 — Standard non-overlapping search: earliest-ending match, then restart after it. *)
From DV Require Import Model.Base Model.Nfa Model.BwBuild Model.BwSearch Model.Api Model.Spec
     Model.Cert Proofs.BwCert Theory.SpecAdequacy Model.Utf8 Model.CwBuild Proofs.Utf8Props Proofs.CwCert Proofs.TrieInv Proofs.BuiltAutomata.
Local Open Scope N_scope.

Theorem bw_find_correct :
  forall (V : Type) (veqb : V -> V -> bool), (forall a b, veqb a b = true -> a = b) ->
  forall (A : bw_automaton V) (pvs : list (list N * V)), bw_cert_ok veqb A pvs = true ->
  forall h : list N, Forall (fun b => b < 256) h ->
    bw_find_iter V A h = Ok (spec_find V pvs h).
Proof. intros V veqb Hv A pvs C h Hb. exact (bw_find_correct_lemma V veqb Hv A pvs C h Hb). Qed.
Print Assumptions bw_find_correct.

(* what the head of [ends_at_from] is: every element is an occurrence ending at e that lies
   entirely at or after [from] (the specification [spec_find] takes the first end position with a
   non-empty list, reports its head and restarts there) *)
Theorem ends_at_from_characterised :
  forall (V : Type) (pvs : list (list N * V)) (h : list N) (from e : nat) (x : nat * nat * V),
    In x (ends_at_from V pvs h from e) <->
    exists l p v, (1 <= l <= e - from)%nat /\ In (p, v) pvs /\ p = sub h (e - l) e
                  /\ x = ((e - l)%nat, e, v).
Proof. exact in_ends_at_from. Qed.
Print Assumptions ends_at_from_characterised.

(* Character-wise automaton: patterns are lists of Unicode scalar values, the haystack is the UTF-8
   encoding of ANY text cs; the result is the character-level specification with its positions
   translated to byte offsets ([to_bytes cs (s, e, v)] = (bytes before character s, bytes before
   character e, v)), so every reported offset falls on a character boundary. *)
Theorem cw_find_correct :
  forall (V : Type) (veqb : V -> V -> bool), (forall a b, veqb a b = true -> a = b) ->
  forall (A : cw_automaton V) (pvs : list (list N * V)), cw_cert_ok veqb A pvs = true ->
  forall cs : list N, Forall scalar cs ->
    cw_find_iter V A (encode_utf8 cs) = Ok (map (to_bytes V cs) (spec_find V pvs cs)).
Proof. intros V veqb Hv A pvs C cs Hs. exact (cw_find_correct_lemma V veqb Hv A pvs C cs Hs). Qed.
Print Assumptions cw_find_correct.

Definition ex_pvs : list (list N * Z) :=
  [([98; 99; 100], 7%Z); ([97; 98], 8%Z); ([97], 9%Z); ([98], 7%Z)].
Example c02_hypotheses_met :
  match bw_build_with_values Z Standard 16 ex_pvs with
  | Ok A => bw_cert_ok Z.eqb A ex_pvs = true
            /\ bw_find_iter Z A [97; 98; 99; 100; 0; 255] = Ok [(0, 1, 9%Z); (1, 2, 7%Z)]%nat
  | _ => False
  end.
Proof. vm_compute. split; reflexivity. Qed.

(* C02 for the byte-wise variant with no certificate hypothesis (builder theorem, see C01) *)
Theorem bw_find_correct_for_every_built_automaton :
  forall (V : Type) (veqb : V -> V -> bool), (forall a b, veqb a b = true <-> a = b) ->
  forall nfb (pvs : list (list N * V)) (A : bw_automaton V),
    (forall p v, In (p, v) pvs -> Forall (fun b => b < 256) p) -> 4 * total_len V pvs <= U32_MAX - 1 ->
    bw_build_with_values V Standard nfb pvs = Ok A ->
  forall h : list N, Forall (fun b => b < 256) h -> bw_find_iter V A h = Ok (spec_find V pvs h).
Proof. exact built_find. Qed.
Print Assumptions bw_find_correct_for_every_built_automaton.

Theorem cw_find_correct_for_every_built_automaton :
  forall (V : Type) (veqb : V -> V -> bool), (forall a b, veqb a b = true <-> a = b) ->
  forall nfb (pvs : list (list N * V)) (A : cw_automaton V),
    4 * total_len V pvs <= U32_MAX - 1 ->
    cw_build_with_values V Standard nfb pvs = Ok A ->
  forall cs : list N, Forall scalar cs ->
    cw_find_iter V A (encode_utf8 cs) = Ok (map (to_bytes V cs) (spec_find V pvs cs)).
Proof. exact cw_built_find. Qed.
Print Assumptions cw_find_correct_for_every_built_automaton.

(* ---- C02 AS ONE DECLARATIVE STATEMENT ----------------------------------------------------------------
   [find_seq pvs h from ms] (Theory/SpecFind.v): every element of ms is an occurrence that lies
   entirely at or after the end of the previous element (initially [from]), ends first among those
   and is the longest of those ending there; ms stops exactly when no such occurrence remains.  The
   only notion underneath is [occ_at]. *)
From DV Require Import Theory.SpecFind Theory.Utf8Spec Theory.Utf8Spec2 Proofs.BuildTrie Proofs.BuildProps.

Theorem spec_find_is_the_earliest_ending_sequence :
  forall (V : Type) (pvs : list (list N * V)) (h : list N), find_seq V pvs h 0 (spec_find V pvs h).
Proof. exact SpecFind.spec_find_is_the_earliest_ending_sequence. Qed.
Print Assumptions spec_find_is_the_earliest_ending_sequence.

(* what the property lists as consequences: true occurrences, never overlapping and increasing,
   and the sequence of positions is determined by the rule *)
Theorem earliest_ending_sequences_are_sound_disjoint_and_unique :
  forall (V : Type) (pvs : list (list N * V)) (h : list N) (from : nat) (ms : list (nat * nat * V)),
    find_seq V pvs h from ms ->
    (forall s e v, In (s, e, v) ms -> occ_at V pvs h s e v /\ (from <= s)%nat)
    /\ (forall a m b m' c, ms = a ++ m :: b ++ m' :: c -> (snd (fst m) <= fst (fst m'))%nat)
    /\ (forall ms', find_seq V pvs h from ms' -> map fst ms = map fst ms').
Proof.
  intros V pvs h from ms H. split; [|split].
  - exact (find_seq_sound V pvs h from ms H).
  - exact (find_seq_non_overlapping V pvs h from ms H).
  - exact (find_seq_positions_unique V pvs h from ms H).
Qed.
Print Assumptions earliest_ending_sequences_are_sound_disjoint_and_unique.

(* every built byte-wise automaton: find_iter returns THE earliest-ending sequence *)
Theorem bw_find_iter_returns_the_earliest_ending_sequence :
  forall (V : Type) (veqb : V -> V -> bool), (forall a b, veqb a b = true <-> a = b) ->
  forall nfb (pvs : list (list N * V)) (A : bw_automaton V),
    (forall p v, In (p, v) pvs -> Forall (fun b => b < 256) p) -> 4 * total_len V pvs <= U32_MAX - 1 ->
    bw_build_with_values V Standard nfb pvs = Ok A ->
  forall h : list N, Forall (fun b => b < 256) h ->
    exists ms, bw_find_iter V A h = Ok ms /\ find_seq V pvs h 0 ms.
Proof.
  intros V veqb Hv nfb pvs A Hb Hs HA h Hh. exists (spec_find V pvs h). split.
  - exact (built_find V veqb Hv nfb pvs A Hb Hs HA h Hh).
  - apply SpecFind.spec_find_is_the_earliest_ending_sequence.
Qed.
Print Assumptions bw_find_iter_returns_the_earliest_ending_sequence.

(* every built character-wise automaton, on the UTF-8 encoding of any text: the same statement
   about BYTE positions and the encoded patterns *)
Theorem cw_find_iter_returns_the_earliest_ending_sequence :
  forall (V : Type) (veqb : V -> V -> bool), (forall a b, veqb a b = true <-> a = b) ->
  forall nfb (pvs : list (list N * V)) (A : cw_automaton V),
    (forall p v, In (p, v) pvs -> Forall scalar p) -> 4 * total_len V pvs <= U32_MAX - 1 ->
    cw_build_with_values V Standard nfb pvs = Ok A ->
  forall cs : list N, Forall scalar cs ->
    exists ms, cw_find_iter V A (encode_utf8 cs) = Ok ms
               /\ find_seq V (bpvs V pvs) (encode_utf8 cs) 0 ms.
Proof.
  intros V veqb Hv nfb pvs A Hsc Hs HA cs Hcs. exists (spec_find V (bpvs V pvs) (encode_utf8 cs)). split.
  - rewrite (cw_built_find V veqb Hv nfb pvs A Hs HA cs Hcs). f_equal.
    destruct (cw_build_ok_lemma V Standard nfb pvs A Hs HA) as (Hv' & _).
    apply spec_build_error_none_iff_valid in Hv' as (_ & Hne0 & Hnd).
    assert (Hne : forall p v, In (p, v) pvs -> p <> []).
    { intros p v Hin. rewrite Forall_forall in Hne0. apply Hne0. apply in_map_iff. exists (p, v). auto. }
    symmetry. exact (spec_find_bytes_eq_chars V pvs Hne Hsc Hnd cs Hcs).
  - apply SpecFind.spec_find_is_the_earliest_ending_sequence.
Qed.
Print Assumptions cw_find_iter_returns_the_earliest_ending_sequence.
