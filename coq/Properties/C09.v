(* C09 — Serialisation round trip restores an equal, equally behaving automaton.
   Pinned statements only; proofs live in Proofs/SerProps.v. *)
From DV Require Import Model.Base Model.Nfa Model.BwBuild Model.CwBuild Model.Ser Proofs.SerProps.
Local Open Scope N_scope.

(* Deserialising the image (followed by arbitrary trailing bytes r) yields the original record
   -- Leibniz-equal, hence answering every search identically --, consumes exactly the image and
   hands r back; for every value type whose Serializable implementation satisfies [ser_law].
   [bw_ranges]/[cw_ranges] say that the model value is representable in the Rust types (fields
   u32, vector lengths below 2^32): true of every Rust value by typing. *)
Theorem bw_roundtrip :
  forall (V : Type) (SV : serializable V) (dom : V -> Prop), ser_law SV dom ->
  forall (A : bw_automaton V) (r : list N), bw_ranges dom A ->
    bw_deserialize V SV (bw_serialize V SV A ++ r) = Ok (A, r).
Proof. intros V SV dom L A r H. exact (bw_roundtrip_lemma SV dom L A r H). Qed.
Print Assumptions bw_roundtrip.

Theorem cw_roundtrip :
  forall (V : Type) (SV : serializable V) (dom : V -> Prop), ser_law SV dom ->
  forall (A : cw_automaton V) (r : list N), cw_ranges dom A ->
    cw_deserialize V SV (cw_serialize V SV A ++ r) = Ok (A, r).
Proof. intros V SV dom L A r H. exact (cw_roundtrip_lemma SV dom L A r H). Qed.
Print Assumptions cw_roundtrip.

(* whatever deserialisation returns for an image is the original, the untouched trailer, and it
   re-serialises to the same bytes *)
Theorem bw_reserialize_same :
  forall (V : Type) (SV : serializable V) (dom : V -> Prop), ser_law SV dom ->
  forall (A B : bw_automaton V) (r r' : list N), bw_ranges dom A ->
    bw_deserialize V SV (bw_serialize V SV A ++ r) = Ok (B, r') ->
    B = A /\ r' = r /\ bw_serialize V SV B = bw_serialize V SV A.
Proof. intros V SV dom L A B r r' H E. exact (bw_reserialize SV dom L A B r r' H E). Qed.
Print Assumptions bw_reserialize_same.

Theorem cw_reserialize_same :
  forall (V : Type) (SV : serializable V) (dom : V -> Prop), ser_law SV dom ->
  forall (A B : cw_automaton V) (r r' : list N), cw_ranges dom A ->
    cw_deserialize V SV (cw_serialize V SV A ++ r) = Ok (B, r') ->
    B = A /\ r' = r /\ cw_serialize V SV B = cw_serialize V SV A.
Proof. intros V SV dom L A B r r' H E. exact (cw_reserialize SV dom L A B r r' H E). Qed.
Print Assumptions cw_reserialize_same.

(* the capacity formula used by serialize() is the exact image length *)
Theorem bw_image_length :
  forall (V : Type) (SV : serializable V) (dom : V -> Prop), ser_law SV dom ->
  forall A : bw_automaton V, Forall (fun o => dom (o_value o)) (bw_outputs A) ->
    length (bw_serialize V SV A) = bw_serialized_bytes V SV A.
Proof. intros V SV dom L A H. exact (bw_serialize_length SV dom L A H). Qed.
Print Assumptions bw_image_length.

(* the match kind survives; any byte other than 1 and 2 silently decodes to Standard *)
Theorem kind_roundtrip : forall k, kind_of_u8 (kind_to_u8 k) = k.
Proof. exact kind_byte_roundtrip. Qed.
Print Assumptions kind_roundtrip.
Theorem kind_default : forall b, b <> 1 -> b <> 2 -> kind_of_u8 b = Standard.
Proof. exact kind_byte_default. Qed.
Print Assumptions kind_default.

(* every built-in value type (u8..u128, i8..i128, usize/isize on 64 bit, Empty, and any other
   unsigned or signed width) satisfies the law on its value range *)
Theorem builtin_value_types_lawful :
  forall t : vtype, match t with VSigned n => (0 < n)%nat | _ => True end ->
    ser_law (vt_serializable t) (fun z => vt_in_range t z = true).
Proof. exact vt_law. Qed.
Print Assumptions builtin_value_types_lawful.

(* the range hypothesis is decidable and the decision procedure is sound *)
Theorem bw_ranges_decidable_sound :
  forall (V : Type) (dom : V -> Prop) (domb : V -> bool), (forall v, domb v = true -> dom v) ->
  forall A, bw_ranges_b V domb A = true -> bw_ranges dom A.
Proof. intros V dom domb H A. exact (bw_ranges_b_sound dom domb H A). Qed.
Print Assumptions bw_ranges_decidable_sound.
Theorem cw_ranges_decidable_sound :
  forall (V : Type) (dom : V -> Prop) (domb : V -> bool), (forall v, domb v = true -> dom v) ->
  forall A, cw_ranges_b V domb A = true -> cw_ranges dom A.
Proof. intros V dom domb H A. exact (cw_ranges_b_sound dom domb H A). Qed.
Print Assumptions cw_ranges_decidable_sound.

(* Non-vacuity: a concrete automaton built by the model from three patterns with i16 values
   (one negative) under leftmost-longest meets the hypotheses, and its image round-trips. *)
Definition ex_pvs : list (list N * Z) := [([97; 98], (-3)%Z); ([98], 32767%Z); ([97; 98; 99], 0%Z)].
Example c09_hypotheses_met :
  match bw_build_with_values Z LeftmostLongest 16 ex_pvs with
  | Ok A => bw_ranges_b Z (vt_in_range (VSigned 2)) A = true
            /\ bw_deserialize Z (vt_serializable (VSigned 2))
                 (bw_serialize Z (vt_serializable (VSigned 2)) A ++ [1; 2; 3]) = Ok (A, [1; 2; 3])
  | _ => False
  end.
Proof. vm_compute. split; reflexivity. Qed.
