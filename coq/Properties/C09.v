(* C09 — Serialisation round trip restores an equal, equally behaving automaton.
   Pinned statements only; proofs live in Proofs/SerProps.v. *)
From DV Require Import Model.Base Model.Nfa Model.BwBuild Model.CwBuild Model.Ser Proofs.SerProps Proofs.BuildRanges.
Local Open Scope N_scope.

(* Deserialising the image (followed by arbitrary trailing bytes r) yields the original record
   -- Leibniz-equal, hence answering every search identically --, consumes exactly the image and
   hands r back; for every value type whose Serializable implementation satisfies [ser_law].
   [bw_ranges]/[cw_ranges] say that the model value is representable in the Rust types (fields
   u32, vector lengths below 2^32): true of every Rust value by typing. *)
Theorem bw_roundtrip :
  forall (V : Type) (SV : serializable V) (dom : V -> Prop), ser_law SV dom ->
  forall (A : bw_automaton V) (r : list N), bw_ranges dom A ->
    bw_deserialize V SV (bw_serialize V SV A ++ r) = Ok (A, r).
Proof. intros V SV dom L A r H. exact (bw_roundtrip_lemma SV dom L A r H). Qed.
Print Assumptions bw_roundtrip.

Theorem cw_roundtrip :
  forall (V : Type) (SV : serializable V) (dom : V -> Prop), ser_law SV dom ->
  forall (A : cw_automaton V) (r : list N), cw_ranges dom A ->
    cw_deserialize V SV (cw_serialize V SV A ++ r) = Ok (A, r).
Proof. intros V SV dom L A r H. exact (cw_roundtrip_lemma SV dom L A r H). Qed.
Print Assumptions cw_roundtrip.

(* whatever deserialisation returns for an image is the original, the untouched trailer, and it
   re-serialises to the same bytes *)
Theorem bw_reserialize_same :
  forall (V : Type) (SV : serializable V) (dom : V -> Prop), ser_law SV dom ->
  forall (A B : bw_automaton V) (r r' : list N), bw_ranges dom A ->
    bw_deserialize V SV (bw_serialize V SV A ++ r) = Ok (B, r') ->
    B = A /\ r' = r /\ bw_serialize V SV B = bw_serialize V SV A.
Proof. intros V SV dom L A B r r' H E. exact (bw_reserialize SV dom L A B r r' H E). Qed.
Print Assumptions bw_reserialize_same.

Theorem cw_reserialize_same :
  forall (V : Type) (SV : serializable V) (dom : V -> Prop), ser_law SV dom ->
  forall (A B : cw_automaton V) (r r' : list N), cw_ranges dom A ->
    cw_deserialize V SV (cw_serialize V SV A ++ r) = Ok (B, r') ->
    B = A /\ r' = r /\ cw_serialize V SV B = cw_serialize V SV A.
Proof. intros V SV dom L A B r r' H E. exact (cw_reserialize SV dom L A B r r' H E). Qed.
Print Assumptions cw_reserialize_same.

(* the capacity formula used by serialize() is the exact image length *)
Theorem bw_image_length :
  forall (V : Type) (SV : serializable V) (dom : V -> Prop), ser_law SV dom ->
  forall A : bw_automaton V, Forall (fun o => dom (o_value o)) (bw_outputs A) ->
    length (bw_serialize V SV A) = bw_serialized_bytes V SV A.
Proof. intros V SV dom L A H. exact (bw_serialize_length SV dom L A H). Qed.
Print Assumptions bw_image_length.

(* the match kind survives; any byte other than 1 and 2 silently decodes to Standard *)
Theorem kind_roundtrip : forall k, kind_of_u8 (kind_to_u8 k) = k.
Proof. exact kind_byte_roundtrip. Qed.
Print Assumptions kind_roundtrip.
Theorem kind_default : forall b, b <> 1 -> b <> 2 -> kind_of_u8 b = Standard.
Proof. exact kind_byte_default. Qed.
Print Assumptions kind_default.

(* every built-in value type (u8..u128, i8..i128, usize/isize on 64 bit, Empty, and any other
   unsigned or signed width) satisfies the law on its value range *)
Theorem builtin_value_types_lawful :
  forall t : vtype, match t with VSigned n => (0 < n)%nat | _ => True end ->
    ser_law (vt_serializable t) (fun z => vt_in_range t z = true).
Proof. exact vt_law. Qed.
Print Assumptions builtin_value_types_lawful.

(* the range hypothesis is decidable and the decision procedure is sound *)
Theorem bw_ranges_decidable_sound :
  forall (V : Type) (dom : V -> Prop) (domb : V -> bool), (forall v, domb v = true -> dom v) ->
  forall A, bw_ranges_b V domb A = true -> bw_ranges dom A.
Proof. intros V dom domb H A. exact (bw_ranges_b_sound dom domb H A). Qed.
Print Assumptions bw_ranges_decidable_sound.
Theorem cw_ranges_decidable_sound :
  forall (V : Type) (dom : V -> Prop) (domb : V -> bool), (forall v, domb v = true -> dom v) ->
  forall A, cw_ranges_b V domb A = true -> cw_ranges dom A.
Proof. intros V dom domb H A. exact (cw_ranges_b_sound dom domb H A). Qed.
Print Assumptions cw_ranges_decidable_sound.

(* Non-vacuity: a concrete automaton built by the model from three patterns with i16 values
   (one negative) under leftmost-longest meets the hypotheses, and its image round-trips. *)
Definition ex_pvs : list (list N * Z) := [([97; 98], (-3)%Z); ([98], 32767%Z); ([97; 98; 99], 0%Z)].
Example c09_hypotheses_met :
  match bw_build_with_values Z LeftmostLongest 16 ex_pvs with
  | Ok A => bw_ranges_b Z (vt_in_range (VSigned 2)) A = true
            /\ bw_deserialize Z (vt_serializable (VSigned 2))
                 (bw_serialize Z (vt_serializable (VSigned 2)) A ++ [1; 2; 3]) = Ok (A, [1; 2; 3])
  | _ => False
  end.
Proof. vm_compute. split; reflexivity. Qed.

(* ---- NO REPRESENTABILITY HYPOTHESIS: every built automaton round-trips -----------------------------
   Every automaton the builders return is representable in the Rust types (Proofs/BuildRanges.v: the
   guards the unbounded-N model has wherever the Rust code converts or checks a width are carried
   through every write of nfa_builder.rs, both builder.rs and mapper.rs: array length <= u32::MAX,
   packed output position <= U24::MAX, check / base / fail / output position / parent < 2^32,
   pattern lengths <= u32::MAX, mapper table over code points below 0x110000, values = the registered
   ones).  [dom] is the value range of the value type (ser_law), and the registered values lie in it. *)
Theorem bw_built_automata_are_representable :
  forall (V : Type) (dom : V -> Prop) k nfb (pvs : list (list N * V)) (A : bw_automaton V),
    (forall p v, In (p, v) pvs -> Forall (fun b => b < 256) p) -> (forall p v, In (p, v) pvs -> dom v) ->
    bw_build_with_values V k nfb pvs = Ok A -> bw_ranges dom A.
Proof. exact bw_build_ranges_lemma. Qed.
Print Assumptions bw_built_automata_are_representable.

Theorem cw_built_automata_are_representable :
  forall (V : Type) (dom : V -> Prop) k nfb (pvs : list (list N * V)) (A : cw_automaton V),
    (forall p v, In (p, v) pvs -> Forall (fun c => c < 1114112) p) -> (forall p v, In (p, v) pvs -> dom v) ->
    cw_build_with_values V k nfb pvs = Ok A -> cw_ranges dom A.
Proof. exact cw_build_ranges_lemma. Qed.
Print Assumptions cw_built_automata_are_representable.

(* C09 in full, byte-wise: for every lawful value type, every match kind, every num_free_blocks and
   every pattern/value sequence whose values lie in the type's range: the bytes serialize produces,
   followed by ANY trailing bytes r, deserialise to the SAME automaton (Leibniz equality: same
   arrays, outputs, kind, counters, hence the same answer to every search) and hand back exactly r;
   re-serialising gives the same bytes. *)
Theorem bw_every_built_automaton_round_trips :
  forall (V : Type) (SV : serializable V) (dom : V -> Prop), ser_law SV dom ->
  forall k nfb (pvs : list (list N * V)) (A : bw_automaton V),
    (forall p v, In (p, v) pvs -> Forall (fun b => b < 256) p) -> (forall p v, In (p, v) pvs -> dom v) ->
    bw_build_with_values V k nfb pvs = Ok A ->
  forall r : list N,
    bw_deserialize V SV (bw_serialize V SV A ++ r) = Ok (A, r)
    /\ forall B r', bw_deserialize V SV (bw_serialize V SV A ++ r) = Ok (B, r') ->
                    B = A /\ r' = r /\ bw_serialize V SV B = bw_serialize V SV A.
Proof.
  intros V SV dom L k nfb pvs A Hb Hd HA r.
  pose proof (bw_build_ranges_lemma V dom k nfb pvs A Hb Hd HA) as HR. split.
  - exact (bw_roundtrip_lemma SV dom L A r HR).
  - intros B r' E. exact (bw_reserialize SV dom L A B r r' HR E).
Qed.
Print Assumptions bw_every_built_automaton_round_trips.

Theorem cw_every_built_automaton_round_trips :
  forall (V : Type) (SV : serializable V) (dom : V -> Prop), ser_law SV dom ->
  forall k nfb (pvs : list (list N * V)) (A : cw_automaton V),
    (forall p v, In (p, v) pvs -> Forall (fun c => c < 1114112) p) -> (forall p v, In (p, v) pvs -> dom v) ->
    cw_build_with_values V k nfb pvs = Ok A ->
  forall r : list N,
    cw_deserialize V SV (cw_serialize V SV A ++ r) = Ok (A, r)
    /\ forall B r', cw_deserialize V SV (cw_serialize V SV A ++ r) = Ok (B, r') ->
                    B = A /\ r' = r /\ cw_serialize V SV B = cw_serialize V SV A.
Proof.
  intros V SV dom L k nfb pvs A Hb Hd HA r.
  pose proof (cw_build_ranges_lemma V dom k nfb pvs A Hb Hd HA) as HR. split.
  - exact (cw_roundtrip_lemma SV dom L A r HR).
  - intros B r' E. exact (cw_reserialize SV dom L A B r r' HR E).
Qed.
Print Assumptions cw_every_built_automaton_round_trips.
