(* Leftmost.v — soundness of the leftmost certificate (Model/Cert.v: lm_cert_ok), generic part.
   Strings are the text consumed since the current restart of the search.  Occurrences, the
   least start mu0 and the leftmost-longest occurrence are defined on strings; the automaton is
   tied to them by the per-node checks (fail link dead exactly when the textbook fail link would
   drop the start of the leftmost occurrence inside the node; output = the pattern that is the
   suffix starting at that start). *)
From DV Require Import Model.Base Model.Nfa Model.Spec Model.Cert Proofs.GenAC.
From Coq Require Import ZifyN ZifyNat ZifyBool.

Local Open Scope N_scope.

Section Lm.
Variable V : Type.
Variable veqb : V -> V -> bool.
Hypothesis veqb_sound : forall a b, veqb a b = true -> a = b.
Variable child : N -> N -> res (option N).
Variable failof : N -> res N.
Variable outposof : N -> res N.
Variable outat : N -> res (output V).
Variable labels : list N.
Variable plen : list N -> N.
Variable pvs : list (list N * V).
Hypothesis child_labels : forall s c, ~ In c labels -> child s c = Ok None.

Notation walk := (Cert.walk child).
Notation inT := (Cert.inT child).
Notation lsuf := (Cert.lsuf child).
Notation mu0 := (Cert.mu0 V pvs).
Notation occurs_at := (Cert.occurs_at V pvs).
Notation lm_dead := (Cert.lm_dead V child pvs).
Notation lm_out := (Cert.lm_out V plen pvs).
Notation lm_str := (Cert.lm_str V child pvs).
Notation g_next_lm := (Cert.g_next_lm child failof).

Variable maxdepth : nat.

(* ---- what a passed certificate says about every node -------------------------------------- *)
Record lm_facts (s : N) (u : list N) : Prop := {
  lf_root : s = ROOT -> u = [];
  lf_notdead : s <> DEAD;
  lf_depth : (length u < maxdepth)%nat;
  lf_fail : forall a r, u = a :: r ->
            exists f, failof s = Ok f
                      /\ (lm_dead u = true -> f = DEAD)
                      /\ (lm_dead u = false -> walk ROOT (lsuf r) = Some f);
  lf_out : exists p, outposof s = Ok p
                     /\ match lm_out u with
                        | None => p = 0
                        | Some lv => p <> 0 /\ exists o, outat p = Ok o /\ o_length o = fst lv /\ o_value o = snd lv
                        end;
  lf_child : forall c, exists r, child s c = Ok r
}.

Lemma lm_tree_ok_facts fuel s u :
  lm_tree_ok V veqb child failof outposof outat labels plen pvs fuel maxdepth s u = true ->
  lm_facts s u
  /\ forall c t, child s c = Ok (Some t) ->
       exists fuel', lm_tree_ok V veqb child failof outposof outat labels plen pvs fuel' maxdepth t (u ++ [c]) = true.
Proof.
  destruct fuel as [|f]; [discriminate|]. cbn [lm_tree_ok]. intros H.
  apply andb_true_iff in H as [Hl Hc]. rewrite forallb_forall in Hc.
  unfold lm_local_ok in Hl. rewrite !andb_true_iff in Hl. destruct Hl as ((((H1 & H0) & H2) & H3) & H4).
  split.
  - constructor.
    + intros Hs. subst s. rewrite N.eqb_refl in H1. cbn in H1. destruct u; [reflexivity|discriminate].
    + intros Hs. subst s. discriminate.
    + apply Nat.ltb_lt in H2. exact H2.
    + intros a r Hu. subst u. cbn [is_nil orb tl] in H3.
      destruct (failof s) as [fl| | | |]; try discriminate. exists fl. split; [reflexivity|].
      destruct (lm_dead (a :: r)); split; intros E; try discriminate.
      * apply N.eqb_eq in H3. exact H3.
      * apply optN_eqb_eq in H3. exact H3.
    + destruct (outposof s) as [p| | | |]; try discriminate. exists p. split; [reflexivity|].
      destruct (lm_out u) as [lv|].
      * apply andb_true_iff in H4 as [Hp Ho]. split; [intros E; subst p; discriminate|].
        destruct (outat p) as [o| | | |]; try discriminate. apply andb_true_iff in Ho as [Ho1 Ho2].
        exists o. split; [reflexivity|]. split; [apply N.eqb_eq; exact Ho1|apply veqb_sound; exact Ho2].
      * apply N.eqb_eq in H4. exact H4.
    + intros c. destruct (in_dec N.eq_dec c labels) as [Hin|Hnin].
      * specialize (Hc c Hin). destruct (child s c) as [r| | | |]; try discriminate. eauto.
      * rewrite (child_labels s c Hnin). eauto.
  - intros c t Hch. destruct (in_dec N.eq_dec c labels) as [Hin|Hnin].
    + specialize (Hc c Hin). rewrite Hch in Hc. eauto.
    + rewrite (child_labels s c Hnin) in Hch. discriminate.
Qed.

Hypothesis CERT : exists fuel,
  lm_tree_ok V veqb child failof outposof outat labels plen pvs fuel maxdepth ROOT [] = true.

Lemma lm_node_checked u : forall s, walk ROOT u = Some s ->
  exists fuel, lm_tree_ok V veqb child failof outposof outat labels plen pvs fuel maxdepth s u = true.
Proof.
  induction u as [|c u IH] using rev_ind; intros s H.
  - cbn in H. inversion H; subst. exact CERT.
  - rewrite (walk_snoc child) in H. destruct (walk ROOT u) as [t|] eqn:E; [|discriminate].
    destruct (IH t eq_refl) as [fuel Hf].
    destruct (child t c) as [[t'|]| | | |] eqn:Ec; try discriminate. inversion H; subst.
    destruct (lm_tree_ok_facts _ _ _ Hf) as [_ Hk]. exact (Hk c s Ec).
Qed.

Lemma lm_node_ok u s : walk ROOT u = Some s -> lm_facts s u.
Proof. intros H. destruct (lm_node_checked u s H) as [fuel Hf]. apply (lm_tree_ok_facts _ _ _ Hf). Qed.

(* ---- the automaton's transition loop is the loop on strings --------------------------------- *)
Definition state_of (r : option (list N)) : option N :=
  match r with Some x => walk ROOT x | None => Some ROOT end.

Lemma lsuf_cons'' a r : lsuf (a :: r) = if inT (a :: r) then a :: r else lsuf r.
Proof. apply (lsuf_cons child). Qed.

Lemma lsuf_len'' r : (length (lsuf r) <= length r)%nat.
Proof.
  induction r as [|a r IH]; [cbn; lia|]. rewrite lsuf_cons''.
  destruct (inT (a :: r)); cbn [length]; lia.
Qed.

Lemma g_next_lm_str c : forall fuel u s,
  walk ROOT u = Some s -> (length u < fuel)%nat ->
  exists s', g_next_lm fuel s c = Ok s' /\ state_of (lm_str fuel u c) = Some s'.
Proof.
  induction fuel as [|fuel IH]; intros u s Hw Hlen; [lia|].
  pose proof (lm_node_ok u s Hw) as NF. destruct NF as [NFroot _ _ NFfail _ NFchild].
  cbn [Cert.g_next_lm Cert.lm_str]. destruct (NFchild c) as [r Hr]. rewrite Hr. cbn [bind].
  destruct r as [t|].
  - assert (Hwt : walk ROOT (u ++ [c]) = Some t) by (rewrite (walk_snoc child), Hw, Hr; reflexivity).
    unfold Cert.inT at 1. rewrite Hwt. cbn [isSome state_of]. eauto.
  - assert (Hnot : inT (u ++ [c]) = false).
    { unfold Cert.inT. rewrite (walk_snoc child), Hw, Hr. reflexivity. }
    rewrite Hnot. destruct u as [|a r].
    + cbn in Hw. inversion Hw; subst s. rewrite N.eqb_refl. cbn [state_of Cert.walk]. eauto.
    + destruct (s =? ROOT) eqn:Es.
      { apply N.eqb_eq in Es. pose proof (NFroot Es). discriminate. }
      destruct (NFfail a r eq_refl) as (f & Hf & Hd & Hl). rewrite Hf. cbn [bind].
      destruct (lm_dead (a :: r)) eqn:Ed.
      * rewrite (Hd eq_refl), N.eqb_refl. cbn [state_of]. eauto.
      * specialize (Hl eq_refl).
        destruct (f =? DEAD) eqn:Ef.
        { apply N.eqb_eq in Ef. subst f. pose proof (lm_node_ok _ _ Hl) as NF2. destruct NF2 as [_ Hnd _ _ _ _]. congruence. }
        apply (IH (lsuf r) f Hl). pose proof (lsuf_len'' r). cbn [length] in Hlen. lia.
Qed.

(* ================= string-level theory of occurrences ========================================= *)
Hypothesis pats_ok : forall p v, In (p, v) pvs -> p <> [] /\ inT p = true.

Definition isPat (x : list N) : bool := existsb (fun pv => list_eqb (fst pv) x) pvs.
(* w[s..e] is a pattern *)
Definition occ (w : list N) (s e : nat) : Prop := (s < e <= length w)%nat /\ isPat (sub w s e) = true.

Lemma isPat_iff x : isPat x = true <-> exists v, In (x, v) pvs.
Proof.
  unfold isPat. rewrite existsb_exists. split.
  - intros [[p v] [Hin He]]. cbn [fst] in He. apply list_eqb_eq in He. subst. eauto.
  - intros [v Hin]. exists (x, v). split; [exact Hin|]. cbn [fst]. apply list_eqb_eq. reflexivity.
Qed.

Lemma isPat_node x : isPat x = true -> x <> [] /\ inT x = true.
Proof. intros H. apply isPat_iff in H as [v Hin]. exact (pats_ok x v Hin). Qed.

Lemma is_prefix_iff p t : is_prefix p t = true <-> exists r, t = p ++ r.
Proof.
  revert t; induction p as [|x p IH]; intros t; cbn [is_prefix].
  - split; [intros _; exists t; reflexivity|reflexivity].
  - destruct t as [|y t]; [split; [discriminate|intros [r H]; discriminate]|].
    rewrite andb_true_iff, IH, N.eqb_eq. split.
    + intros [-> [r ->]]. exists r. reflexivity.
    + intros [r H]. cbn [app] in H. inversion H; subst. split; [reflexivity|eauto].
Qed.

Lemma occurs_at_iff w k : occurs_at w k = true <-> exists e, occ w k e.
Proof.
  unfold Cert.occurs_at. rewrite existsb_exists. split.
  - intros [[p v] [Hin Hp]]. cbn [fst] in Hp. apply is_prefix_iff in Hp as [r Hr].
    destruct (pats_ok p v Hin) as [Hne _].
    assert (Hl : (k + length p <= length w)%nat).
    { apply (f_equal (@length N)) in Hr. rewrite skipn_length, app_length in Hr. destruct p; [congruence|cbn [length] in *]. lia. }
    exists (k + length p)%nat. split.
    + destruct p; [congruence|cbn [length] in *]. lia.
    + unfold sub. replace (k + length p - k)%nat with (length p) by lia. rewrite Hr.
      rewrite firstn_app, Nat.sub_diag, firstn_all. cbn [firstn]. rewrite app_nil_r.
      apply isPat_iff. eauto.
  - intros [e [Hse Hp]]. apply isPat_iff in Hp as [v Hin]. exists (sub w k e, v). split; [exact Hin|].
    cbn [fst]. apply is_prefix_iff. unfold sub. exists (skipn (e - k) (skipn k w)). symmetry. apply firstn_skipn.
Qed.

(* occurrences and suffixes: w = x ++ v *)
Lemma sub_app_r x v s e : (length x <= s)%nat -> sub (x ++ v) s e = sub v (s - length x) (e - length x).
Proof.
  intros H. unfold sub. rewrite skipn_app, skipn_all2 by lia. cbn [app].
  replace (e - length x - (s - length x))%nat with (e - s)%nat by lia. reflexivity.
Qed.

Lemma occ_suffix x v s e : (length x <= s)%nat ->
  occ (x ++ v) s e <-> occ v (s - length x) (e - length x).
Proof.
  intros H. unfold occ. rewrite sub_app_r by exact H. rewrite app_length. split; intros [H1 H2]; (split; [lia|exact H2]).
Qed.

(* occurrences and prefixes: an occurrence inside w is an occurrence inside w ++ z, and conversely
   when it ends inside w *)
Lemma sub_app_l w z s e : (e <= length w)%nat -> sub (w ++ z) s e = sub w s e.
Proof.
  intros H. unfold sub. destruct (le_lt_dec s (length w)) as [Hs|Hs].
  - rewrite skipn_app. rewrite firstn_app. rewrite skipn_length.
    replace (e - s - (length w - s))%nat with 0%nat by lia. cbn [firstn]. apply app_nil_r.
  - replace (e - s)%nat with 0%nat by lia. reflexivity.
Qed.

Lemma occ_prefix w z s e : (e <= length w)%nat -> occ (w ++ z) s e <-> occ w s e.
Proof.
  intros H. unfold occ. rewrite sub_app_l by exact H. rewrite app_length. split; intros [H1 H2]; (split; [lia|exact H2]).
Qed.

(* every occurrence inside w starts at or after n *)
Definition starts_ge (w : list N) (n : nat) : Prop := forall s e, occ w s e -> (n <= s)%nat.

(* a pattern that occurs in w ++ [c] ++ z from s, reaching beyond w: the suffix of w from s,
   extended by c, is a node *)
Lemma occ_beyond w c z s e : occ (w ++ c :: z) s e -> (length w < e)%nat -> (s <= length w)%nat ->
  inT (skipn s w ++ [c]) = true.
Proof.
  intros [Hse Hp] He Hs. apply isPat_node in Hp as [_ HT].
  assert (exists r, sub (w ++ c :: z) s e = (skipn s w ++ [c]) ++ r) as [r Hr].
  { unfold sub. rewrite skipn_app. replace (s - length w)%nat with 0%nat by lia. cbn [skipn].
    rewrite firstn_app, skipn_length.
    rewrite firstn_all2 by (rewrite skipn_length; lia).
    destruct (e - s - (length w - s))%nat as [|n] eqn:E; [lia|]. cbn [firstn].
    exists (firstn n z). rewrite <- app_assoc. reflexivity. }
  rewrite Hr in HT. apply (inT_app_l child) in HT. exact HT.
Qed.

(* ---- mu0, lm_dead ---------------------------------------------------------------------------- *)
Lemma find_seq_first (f : nat -> bool) : forall n a m,
  find f (seq a n) = Some m -> f m = true /\ (a <= m < a + n)%nat /\ forall k, (a <= k < m)%nat -> f k = false.
Proof.
  induction n as [|n IH]; intros a m H; cbn [seq find] in H; [discriminate|].
  destruct (f a) eqn:E.
  - inversion H; subst. split; [exact E|]. split; [lia|]. intros k Hk. lia.
  - destruct (IH (S a) m H) as (H1 & H2 & H3). split; [exact H1|]. split; [lia|].
    intros k Hk. destruct (Nat.eq_dec k a) as [->|Hne]; [exact E|apply H3; lia].
Qed.

Lemma find_seq_none (f : nat -> bool) n a : find f (seq a n) = None -> forall k, (a <= k < a + n)%nat -> f k = false.
Proof. intros H k Hk. apply (find_none _ _ H). apply in_seq. lia. Qed.

Lemma occurs_at_lt w k : occurs_at w k = true -> (k < length w)%nat.
Proof. intros H. apply occurs_at_iff in H as [e [H _]]. lia. Qed.

Lemma lm_dead_true v : lm_dead v = true ->
  exists s e, occ v s e /\ (s < length v - length (lsuf (tl v)))%nat.
Proof.
  unfold Cert.lm_dead, Cert.mu0. destruct (find (occurs_at v) (seq 0 (length v))) as [m|] eqn:E; [|discriminate].
  intros H. apply Nat.ltb_lt in H. apply find_seq_first in E as (Hm & _ & _).
  apply occurs_at_iff in Hm as [e He]. eauto.
Qed.

Lemma lm_dead_false v : lm_dead v = false -> starts_ge v (length v - length (lsuf (tl v))).
Proof.
  unfold Cert.lm_dead, Cert.mu0, starts_ge. intros H s e Ho.
  assert (Hs : occurs_at v s = true) by (apply occurs_at_iff; eauto).
  destruct (find (occurs_at v) (seq 0 (length v))) as [m|] eqn:E.
  - apply Nat.ltb_ge in H. apply find_seq_first in E as (_ & _ & Hfirst).
    destruct (le_lt_dec m s) as [Hle|Hlt]; [lia|]. rewrite (Hfirst s) in Hs by lia. discriminate.
  - pose proof (occurs_at_lt _ _ Hs). rewrite (find_seq_none _ _ _ E s) in Hs by lia. discriminate.
Qed.

(* ---- the chain lemma ------------------------------------------------------------------------- *)
Lemma skipn_app_ge {X} (x v : list X) s : (length x <= s)%nat -> skipn s (x ++ v) = skipn (s - length x) v.
Proof. intros H. rewrite skipn_app, skipn_all2 by lia. reflexivity. Qed.

Lemma sub_to_end (t : list N) s : sub t s (length t) = skipn s t.
Proof. unfold sub. apply firstn_all2. rewrite skipn_length. lia. Qed.

(* no node lies strictly between a node and its longest proper suffix node *)
Lemma no_node_between a r k : (1 <= k)%nat -> (k < length (a :: r) - length (lsuf r))%nat ->
  inT (skipn k (a :: r)) = false.
Proof.
  intros H1 H2. destruct (inT (skipn k (a :: r))) eqn:E; [|reflexivity]. exfalso.
  destruct k as [|k]; [lia|]. cbn [skipn] in E.
  destruct (lsuf_longest child r (firstn k r) (skipn k r) (eq_sym (firstn_skipn k r)) E) as [q Hq].
  apply (f_equal (@length N)) in Hq. rewrite app_length, skipn_length in Hq. cbn [length] in H2. lia.
Qed.

Lemma suffix_occ_start (t : list N) s : occ t s (length t) -> inT (skipn s t) = true /\ skipn s t <> [].
Proof. intros [_ Hp]. rewrite sub_to_end in Hp. apply isPat_node in Hp. tauto. Qed.

Lemma lm_chain c w : forall fuel x v,
  w = x ++ v -> inT v = true -> (length v < fuel)%nat ->
  lsuf (w ++ [c]) = lsuf (v ++ [c]) ->
  starts_ge w (length x) ->
  (forall s, (s < length x)%nat -> inT (skipn s w ++ [c]) = false) ->
  match lm_str fuel v c with
  | Some z => z = lsuf (w ++ [c]) /\ starts_ge (w ++ [c]) (length w + 1 - length z)
  | None => (exists s0 e0, occ w s0 e0) /\
            forall z s e, occ (w ++ c :: z) s e -> (length w < e)%nat -> exists s0 e0, occ w s0 e0 /\ (s0 < s)%nat
  end.
Proof.
  induction fuel as [|fuel IH]; intros x v Hw Hv Hlen Hls Hge Hno; [lia|].
  assert (Hwl : length w = (length x + length v)%nat) by (rewrite Hw, app_length; reflexivity).
  cbn [Cert.lm_str]. destruct (inT (v ++ [c])) eqn:Ec.
  - (* the edge exists *)
    assert (Hz : lsuf (w ++ [c]) = v ++ [c]) by (rewrite Hls; apply (lsuf_of_node child); exact Ec).
    split; [symmetry; exact Hz|]. rewrite app_length. cbn [length].
    intros s e Ho. destruct (le_lt_dec e (length w)) as [Hle|Hgt].
    + apply (proj1 (occ_prefix w [c] s e Hle)) in Ho. specialize (Hge s e Ho). lia.
    + assert (e = length (w ++ [c])) as -> by (destruct Ho as [Ho _]; rewrite app_length in *; cbn [length] in *; lia).
      apply suffix_occ_start in Ho as [HT _].
      destruct (lsuf_longest child (w ++ [c]) (firstn s (w ++ [c])) (skipn s (w ++ [c]))
                             (eq_sym (firstn_skipn s _)) HT) as [q Hq].
      rewrite Hz in Hq. apply (f_equal (@length N)) in Hq. rewrite !app_length, skipn_length, app_length in Hq.
      cbn [length] in Hq. lia.
  - destruct v as [|a r].
    + (* at the root, no edge *)
      assert (Hz : lsuf (w ++ [c]) = []).
      { rewrite Hls. cbn [app] in *. rewrite lsuf_cons'', Ec. reflexivity. }
      split; [symmetry; exact Hz|]. cbn [length]. intros s e Ho. exfalso.
      destruct (le_lt_dec e (length w)) as [Hle|Hgt].
      * apply (proj1 (occ_prefix w [c] s e Hle)) in Ho. specialize (Hge s e Ho). destruct Ho as [Ho _]. cbn [length] in Hwl. lia.
      * assert (e = length (w ++ [c])) as -> by (destruct Ho as [Ho _]; rewrite app_length in *; cbn [length] in *; lia).
        apply suffix_occ_start in Ho as [HT Hne].
        destruct (lsuf_longest child (w ++ [c]) (firstn s (w ++ [c])) (skipn s (w ++ [c]))
                               (eq_sym (firstn_skipn s _)) HT) as [q Hq].
        rewrite Hz in Hq. symmetry in Hq. apply app_eq_nil in Hq as [_ Hq]. contradiction.
    + set (v := a :: r) in *. set (v' := lsuf r).
      assert (Hv'len : (length v' <= length r)%nat) by apply lsuf_len''.
      (* suffixes of w starting inside v but before v' do not extend by c *)
      assert (Hmid : forall s, (length x <= s)%nat -> (s < length x + (length v - length v'))%nat ->
                               inT (skipn s w ++ [c]) = false).
      { intros s H1 H2. rewrite Hw, skipn_app_ge by exact H1.
        destruct (Nat.eq_dec s (length x)) as [->|Hne].
        - rewrite Nat.sub_diag. cbn [skipn]. exact Ec.
        - destruct (inT (skipn (s - length x) v ++ [c])) eqn:E; [|reflexivity]. exfalso.
          apply (inT_app_l child) in E. unfold v, v' in *.
          rewrite (no_node_between a r (s - length x)) in E by lia. discriminate. }
      destruct (lm_dead v) eqn:Ed.
      * (* a dead link *)
        apply lm_dead_true in Ed as (s1 & e1 & Ho1 & Hs1).
        assert (Hs1' : (s1 < length v - length v')%nat) by exact Hs1.
        assert (Hocc0 : occ w (length x + s1) (length x + e1)).
        { rewrite Hw. apply (proj2 (occ_suffix x v (length x + s1) (length x + e1) ltac:(lia))).
          replace (length x + s1 - length x)%nat with s1 by lia.
          replace (length x + e1 - length x)%nat with e1 by lia. exact Ho1. }
        split; [eauto|].
        intros z s e Ho He.
        exists (length x + s1)%nat, (length x + e1)%nat. split; [exact Hocc0|].
        destruct (le_lt_dec s (length x + s1)) as [Hle|Hgt]; [|exact Hgt]. exfalso.
        assert (Hsw : (s <= length w)%nat) by lia.
        pose proof (occ_beyond w c z s e Ho He Hsw) as HT.
        destruct (le_lt_dec (length x) s) as [Hxs|Hsx].
        -- rewrite (Hmid s Hxs) in HT by lia. discriminate.
        -- rewrite (Hno s Hsx) in HT. discriminate.
      * (* follow the fail link *)
        apply lm_dead_false in Ed.
        assert (Ed' : starts_ge v (length v - length v')) by exact Ed.
        destruct (lsuf_suffix child r) as [q Hq]. fold v' in Hq.
        assert (Hw' : w = (x ++ a :: q) ++ v').
        { rewrite Hw. unfold v. rewrite Hq at 1. rewrite <- app_assoc. reflexivity. }
        assert (Hxl : length (x ++ a :: q) = (length x + (length v - length v'))%nat).
        { rewrite app_length. unfold v. cbn [length]. apply (f_equal (@length N)) in Hq. rewrite app_length in Hq. lia. }
        apply (IH (x ++ a :: q) v' Hw').
        -- apply (lsuf_inT child).
        -- unfold v in Hlen. cbn [length] in Hlen. lia.
        -- rewrite Hls. unfold v. cbn [app]. rewrite lsuf_cons''. unfold v in Ec. cbn [app] in Ec. rewrite Ec.
           apply (lsuf_snoc child).
        -- rewrite Hxl. intros s e Ho. pose proof (Hge s e Ho) as Hs.
           rewrite Hw in Ho. apply (proj1 (occ_suffix x v s e Hs)) in Ho. specialize (Ed' _ _ Ho). lia.
        -- rewrite Hxl. intros s Hs. destruct (le_lt_dec (length x) s) as [Hxs|Hsx].
           ++ apply Hmid; assumption.
           ++ apply Hno. exact Hsx.
Qed.

(* ---- one step of the scan on strings ---------------------------------------------------------- *)
(* all occurrences inside w lie inside its longest suffix node *)
Definition K (w : list N) : Prop := starts_ge w (length w - length (lsuf w)).

Lemma K_nil : K [].
Proof. intros s e [H _]. cbn in H. lia. Qed.

Lemma lm_step c w fuel : K w -> (length (lsuf w) < fuel)%nat ->
  match lm_str fuel (lsuf w) c with
  | Some z => z = lsuf (w ++ [c]) /\ K (w ++ [c])
  | None => (exists s0 e0, occ w s0 e0) /\
            forall z s e, occ (w ++ c :: z) s e -> (length w < e)%nat -> exists s0 e0, occ w s0 e0 /\ (s0 < s)%nat
  end.
Proof.
  intros HK Hf. destruct (lsuf_suffix child w) as [x Hx].
  assert (Hxl : length x = (length w - length (lsuf w))%nat).
  { apply (f_equal (@length N)) in Hx. rewrite app_length in Hx. lia. }
  pose proof (lm_chain c w fuel x (lsuf w) Hx (lsuf_inT child w) Hf (lsuf_snoc child w c)) as H.
  rewrite Hxl in H. specialize (H HK).
  assert (Hno : forall s, (s < length w - length (lsuf w))%nat -> inT (skipn s w ++ [c]) = false).
  { intros s Hs. destruct (inT (skipn s w ++ [c])) eqn:E; [|reflexivity]. exfalso.
    apply (inT_app_l child) in E.
    destruct (lsuf_longest child w (firstn s w) (skipn s w) (eq_sym (firstn_skipn s w)) E) as [q Hq].
    apply (f_equal (@length N)) in Hq. rewrite app_length, skipn_length in Hq. lia. }
  specialize (H Hno). destruct (lm_str fuel (lsuf w) c) as [z|]; [|exact H].
  destruct H as [Hz Hge]. split; [exact Hz|]. unfold K. rewrite app_length. cbn [length]. rewrite <- Hz.
  replace (length w + 1 - length z)%nat with (length w + 1 - length z)%nat by reflexivity. exact Hge.
Qed.

(* ---- leftmost-longest occurrence and the output of a node -------------------------------------- *)
Definition isLL (w : list N) (s e : nat) : Prop :=
  occ w s e /\ forall s' e', occ w s' e' -> (s <= s')%nat /\ (s' = s -> (e' <= e)%nat).

Lemma occ_snoc_old w c s e : occ w s e -> occ (w ++ [c]) s e.
Proof. intros H. apply (proj2 (occ_prefix w [c] s e ltac:(destruct H; lia))). exact H. Qed.

Lemma pats_eq_head v lv r : pats_eq V plen pvs v = lv :: r -> exists x, In (v, x) pvs /\ lv = (plen v, x).
Proof.
  unfold pats_eq. intros H.
  assert (In lv (map (fun pv => (plen (fst pv), snd pv)) (filter (fun pv => list_eqb (fst pv) v) pvs))) as Hin
    by (rewrite H; left; reflexivity).
  apply in_map_iff in Hin as ([p x] & E & Hf). apply filter_In in Hf as [Hin He]. cbn [fst snd] in *.
  apply list_eqb_eq in He. subst p. exists x. split; [exact Hin|symmetry; exact E].
Qed.

Lemma pats_eq_nil' v : pats_eq V plen pvs v = [] -> isPat v = false.
Proof.
  unfold pats_eq. intros H. destruct (isPat v) eqn:E; [|reflexivity]. exfalso.
  apply isPat_iff in E as [x Hin].
  assert (In (v, x) (filter (fun pv => list_eqb (fst pv) v) pvs)) as Hf.
  { apply filter_In. split; [exact Hin|]. cbn [fst]. apply list_eqb_eq. reflexivity. }
  apply (in_map (fun pv => (plen (fst pv), snd pv))) in Hf. rewrite H in Hf. destruct Hf.
Qed.

Lemma lm_out_step w c : K (w ++ [c]) ->
  let t := w ++ [c] in
  let x := lsuf t in
  match lm_out x with
  | Some lv => exists s v, isLL t s (length t) /\ In (sub t s (length t), v) pvs
                           /\ lv = (plen (sub t s (length t)), v)
  | None => (forall s e, isLL w s e -> isLL t s e) /\ ((forall s e, ~ occ w s e) -> forall s e, ~ occ t s e)
  end.
Proof.
  intros HK t x. destruct (lsuf_suffix child t) as [y Hy]. fold x in Hy.
  assert (Hyl : length y = (length t - length x)%nat).
  { apply (f_equal (@length N)) in Hy. rewrite app_length in Hy. lia. }
  assert (Hty : length t = (length y + length x)%nat).
  { rewrite Hy at 1. apply app_length. }
  assert (Hin_x : forall s e, occ t s e -> (length y <= s)%nat /\ occ x (s - length y) (e - length y)).
  { intros s e Ho. pose proof (HK s e Ho) as Hs. fold t x in Hs. split; [lia|].
    rewrite Hy in Ho. apply (proj1 (occ_suffix y x s e ltac:(lia))) in Ho. exact Ho. }
  assert (Htl : length t = S (length w)) by (unfold t; rewrite app_length; cbn; lia).
  unfold Cert.lm_out, Cert.mu0.
  destruct (find (occurs_at x) (seq 0 (length x))) as [m|] eqn:Em.
  - apply find_seq_first in Em as (Hm & Hmr & Hfirst).
    assert (Hleast : forall s e, occ t s e -> (length y + m <= s)%nat).
    { intros s e Ho. destruct (Hin_x s e Ho) as [Hs Hox].
      assert (occurs_at x (s - length y) = true) as Hoa by (apply occurs_at_iff; eauto).
      destruct (le_lt_dec m (s - length y)) as [H|H]; [lia|]. rewrite (Hfirst (s - length y)%nat) in Hoa by lia. discriminate. }
    assert (Hsub : sub t (length y + m) (length t) = skipn m x).
    { rewrite sub_to_end, Hy, skipn_app_ge by lia. f_equal. lia. }
    destruct (pats_eq V plen pvs (skipn m x)) as [|lv r] eqn:Ep.
    + (* the suffix from the least start is not a pattern *)
      apply pats_eq_nil' in Ep.
      apply occurs_at_iff in Hm as [e1 Ho1].
      assert (He1 : (e1 < length x)%nat).
      { destruct Ho1 as [Hr Hp]. destruct (Nat.eq_dec e1 (length x)) as [->|Hne]; [|lia].
        rewrite sub_to_end in Hp. congruence. }
      assert (Ho1t : occ t (length y + m) (length y + e1)).
      { rewrite Hy. apply (proj2 (occ_suffix y x (length y + m) (length y + e1) ltac:(lia))).
        replace (length y + m - length y)%nat with m by lia.
        replace (length y + e1 - length y)%nat with e1 by lia. exact Ho1. }
      assert (Ho1w : occ w (length y + m) (length y + e1)).
      { apply (proj1 (occ_prefix w [c] (length y + m) (length y + e1) ltac:(lia))). exact Ho1t. }
      split.
      * intros s e [Ho Hll]. split; [apply occ_snoc_old; exact Ho|].
        intros s' e' Ho'. destruct (le_lt_dec e' (length w)) as [Hle|Hgt].
        -- apply Hll. apply (proj1 (occ_prefix w [c] s' e' Hle)). exact Ho'.
        -- assert (e' = length t) as -> by (destruct Ho' as [Hr _]; fold t in Hr; lia).
           pose proof (Hleast _ _ Ho') as Hs'. destruct (Hll _ _ Ho1w) as [Hs _].
           assert (s' <> length y + m)%nat.
           { intros ->. destruct Ho' as [_ Hp]. rewrite Hsub in Hp. congruence. }
           split; lia.
      * intros Hnone. exfalso. exact (Hnone _ _ Ho1w).
    + destruct (pats_eq_head _ _ _ Ep) as [v [Hin Hlv]].
      exists (length y + m)%nat, v. rewrite Hsub. split; [|split; [exact Hin|exact Hlv]].
      split.
      * split; [lia|]. rewrite Hsub. apply isPat_iff. eauto.
      * intros s' e' Ho'. split; [apply (Hleast _ _ Ho')|]. intros _. destruct Ho' as [Hr _]. lia.
  - (* no occurrence inside x, hence none in t *)
    assert (Hnone : forall s e, ~ occ t s e).
    { intros s e Ho. destruct (Hin_x s e Ho) as [Hs Hox].
      assert (occurs_at x (s - length y) = true) as Hoa by (apply occurs_at_iff; eauto).
      pose proof (occurs_at_lt _ _ Hoa). rewrite (find_seq_none _ _ _ Em (s - length y)%nat) in Hoa by lia. discriminate. }
    split; [|intros _; exact Hnone]. intros s e [Ho _]. exfalso. exact (Hnone _ _ (occ_snoc_old w c s e Ho)).
Qed.

End Lm.
