(* CwSafe.v — C07 (character-wise): [cw_safe_b A = true] implies that none of the four search
   methods reaches a UB branch on any valid UTF-8 haystack: no out-of-range get_unchecked on the
   state / output arrays (mapped codes stay inside the block: XOR closure), no unwrap_unchecked
   on None and no invalid char in the hand-written decoder, and the leftmost iterator only slices
   the haystack on character boundaries. *)
From DV Require Import Model.Base Model.Nfa Model.Utf8 Model.CwBuild Model.BwSearch Model.CwSearch Model.Api
     Model.Cert Proofs.BwSafe Proofs.Utf8Props.
From Coq Require Import ZifyN ZifyNat ZifyBool.
Local Open Scope N_scope.

Section CwSafe.
Variable V : Type.
Variable A : cw_automaton V.
Hypothesis SAFE : cw_safe_b A = true.

Let sget := cw_sget V A.
Let oget := cw_oget V A.
Let tget := cw_tget V A.
Let nslots := cw_nslots V A.
Let len := N.of_nat (length (cw_states A)).
Let nout := N.of_nat (length (cw_outputs A)).
Let bl := N.max (next_power_of_two (mp_alpha (cw_mapper A))) 2.

Lemma csafe_facts :
  1 < len /\ (exists k n, bl = 2 ^ k /\ len = n * 2 ^ k)
  /\ (forall c mc, mapper_get tget c = Some mc -> mc < bl)
  /\ (forall i, i < len -> exists st, sget i = Some st /\ cw_slot_ok len nout st = true)
  /\ (forall p, 1 <= p <= nout -> exists o, oget (p - 1) = Some o /\ o_parent o <= nout).
Proof.
  pose proof SAFE as S0. unfold cw_safe_b in S0. fold len nout bl in S0. rewrite !andb_true_iff in S0.
  destruct S0 as (((((H1 & H2) & H3) & H4) & H5) & H6). rewrite forallb_forall in H4, H5, H6.
  split; [lia|]. split.
  { exists (N.log2 bl), (len / bl). apply N.eqb_eq in H2. split; [symmetry; exact H2|].
    rewrite H2. pose proof (N.div_mod len bl). assert (bl <> 0) by (unfold bl; lia). lia. }
  split.
  { intros c mc Hm. unfold mapper_get in Hm. destruct (tget c) as [code|] eqn:E; [|discriminate].
    destruct (code =? INVALID_CODE) eqn:Ei; [discriminate|]. inversion Hm; subst mc.
    unfold tget, cw_tget in E. rewrite index_list_get in E. apply nth_error_In in E.
    specialize (H4 _ E). rewrite Ei in H4. cbn [orb] in H4. lia. }
  split.
  - intros i Hi. unfold sget, cw_sget. rewrite index_list_get.
    destruct (nth_error (cw_states A) (N.to_nat i)) as [st|] eqn:E.
    + exists st. split; [reflexivity|]. apply H5. eapply nth_error_In. exact E.
    + apply nth_error_None in E. unfold len in Hi. lia.
  - intros p Hp. unfold oget, cw_oget. rewrite index_list_get.
    destruct (nth_error (cw_outputs A) (N.to_nat (p - 1))) as [o|] eqn:E.
    + exists o. split; [reflexivity|]. apply N.leb_le. apply H6. eapply nth_error_In. exact E.
    + apply nth_error_None in E. unfold nout in Hp. lia.
Qed.

Definition cslot_good (st : cstate) : Prop :=
  (c_base st = 0 \/ c_base st < len) /\ c_fail st < len /\ c_outpos st <= nout.

Lemma cst_at_good s : s < len -> good (cst_at sget s) cslot_good.
Proof.
  intros Hs. destruct csafe_facts as (_ & _ & _ & F & _). destruct (F s Hs) as [st [E Hok]].
  unfold cst_at. rewrite E. cbn. unfold cw_slot_ok in Hok. unfold cslot_good. lia.
Qed.

Lemma cout_at_good p : 1 <= p <= nout -> good (cout_at V oget p) (fun o => o_parent o <= nout).
Proof.
  intros Hp. destruct csafe_facts as (_ & _ & _ & _ & F). destruct (F p Hp) as [o [E Ho]].
  unfold cout_at. rewrite E. cbn. exact Ho.
Qed.

Lemma croot_lt : ROOT < len.
Proof. destruct csafe_facts as (H & _). unfold ROOT. lia. Qed.

Lemma cchild_good s mc : s < len -> mc < bl ->
  good (cw_child sget s mc) (fun r => forall t, r = Some t -> t < len).
Proof.
  intros Hs Hc. unfold cw_child. eapply good_bind; [apply cst_at_good; exact Hs|].
  intros st (Hb & _ & _). destruct (c_base st =? 0) eqn:E; [cbn; discriminate|].
  assert (Hlt : N.lxor (c_base st) mc < len).
  { destruct csafe_facts as (_ & (k & n & Hk & Hn) & _). rewrite Hn. apply xor_lt; [rewrite <- Hk; exact Hc|].
    rewrite <- Hn. lia. }
  eapply good_bind; [apply cst_at_good; exact Hlt|]. intros cs _. cbn.
  destruct (c_check cs =? s); intros t Ht; inversion Ht; subst; exact Hlt.
Qed.

Lemma cnext_loop_good mc : mc < bl -> forall fuel s t, s < len ->
  good (cw_next_loop sget fuel s mc t) (fun r => fst r < len).
Proof.
  intros Hc. induction fuel as [|fuel IH]; intros s t Hs; [exact I|]. cbn [cw_next_loop].
  eapply good_bind; [apply cchild_good; assumption|]. intros [x|] Hx; [cbn; auto|].
  destruct (s =? ROOT); [cbn; apply croot_lt|].
  eapply good_bind; [apply cst_at_good; exact Hs|]. intros st (_ & Hf & _). apply IH. exact Hf.
Qed.

Lemma cnext_state_good c s t : s < len -> good (cw_next_state sget tget nslots s c t) (fun r => fst r < len).
Proof.
  intros Hs. unfold cw_next_state. destruct (mapper_get tget c) as [mc|] eqn:E; [|cbn; apply croot_lt].
  apply cnext_loop_good; [|exact Hs]. destruct csafe_facts as (_ & _ & F & _). exact (F c mc E).
Qed.

Lemma cnext_loop_lm_good mc : mc < bl -> forall fuel s t, s < len ->
  good (cw_next_loop_lm sget fuel s mc t) (fun r => fst r < len).
Proof.
  intros Hc. induction fuel as [|fuel IH]; intros s t Hs; [exact I|]. cbn [cw_next_loop_lm].
  eapply good_bind; [apply cchild_good; assumption|]. intros [x|] Hx; [cbn; auto|].
  destruct (s =? ROOT); [cbn; apply croot_lt|].
  eapply good_bind; [apply cst_at_good; exact Hs|]. intros st (_ & Hf & _).
  destruct (c_fail st =? DEAD); [cbn; apply croot_lt|]. apply IH. exact Hf.
Qed.

Lemma cnext_state_lm_good c s t : s < len -> good (cw_next_state_lm sget tget nslots s c t) (fun r => fst r < len).
Proof.
  intros Hs. unfold cw_next_state_lm. destruct (mapper_get tget c) as [mc|] eqn:E; [|cbn; apply croot_lt].
  apply cnext_loop_lm_good; [|exact Hs]. destruct csafe_facts as (_ & _ & F & _). exact (F c mc E).
Qed.

(* ---- the byte source holds the encoding of the characters not yet decoded --------------------- *)
Definition enc_rest (rest : list N) : Prop := exists cs, Forall scalar cs /\ rest = encode_utf8 cs.

Lemma dec_next_enc rest pulled : enc_rest rest ->
  good (dec_next rest pulled) (fun r => match r with Some (_, _, rest', _) => enc_rest rest' /\ (length rest' < length rest)%nat | None => True end).
Proof.
  intros (cs & Hs & ->). destruct cs as [|c cs]; [cbn; exact I|].
  inversion Hs as [|? ? Hc Hcs]; subst. cbn [encode_utf8 flat_map]. fold (encode_utf8 cs).
  rewrite (dec_next_encode_char c _ pulled Hc). cbn. split; [exists cs; auto|].
  rewrite app_length. pose proof (encode_char_nonempty c). destruct (encode_char c); [congruence|cbn [length]; lia].
Qed.

Definition cfind_ok (it : find_it) : Prop := enc_rest (s_rest (f_src it)).

Lemma cfind_scan_good : forall fuel rest pulled s t, enc_rest rest -> s < len ->
  good (cfind_scan V sget oget tget nslots fuel rest pulled s t) (fun r => cfind_ok (snd r)).
Proof.
  induction fuel as [|fuel IH]; intros rest pulled s t Hr Hs; [exact I|]. cbn [cfind_scan].
  eapply good_bind; [apply dec_next_enc; exact Hr|]. intros [[[[pos c] rest'] pulled']|] Hd; [|cbn; exact Hr].
  destruct Hd as [Hr' _].
  eapply good_bind; [apply cnext_state_good; exact Hs|]. intros [s' t'] Hs'. cbn [fst] in Hs'.
  eapply good_bind; [apply cst_at_good; exact Hs'|]. intros st (_ & _ & Ho).
  destruct (c_outpos st =? 0) eqn:E; [apply IH; assumption|].
  eapply good_bind; [apply cout_at_good; lia|]. intros o _. cbn. exact Hr'.
Qed.

Definition cnos_ok (it : nos_it) : Prop := x_state it < len /\ enc_rest (s_rest (x_src it)).

Lemma cnos_scan_good : forall fuel rest pulled s t, enc_rest rest -> s < len ->
  good (cnos_scan V sget oget tget nslots fuel rest pulled s t) (fun r => cnos_ok (snd r)).
Proof.
  induction fuel as [|fuel IH]; intros rest pulled s t Hr Hs; [exact I|]. cbn [cnos_scan].
  eapply good_bind; [apply dec_next_enc; exact Hr|]. intros [[[[pos c] rest'] pulled']|] Hd; [|cbn; split; assumption].
  destruct Hd as [Hr' _].
  eapply good_bind; [apply cnext_state_good; exact Hs|]. intros [s' t'] Hs'. cbn [fst] in Hs'.
  eapply good_bind; [apply cst_at_good; exact Hs'|]. intros st (_ & _ & Ho).
  destruct (c_outpos st =? 0) eqn:E; [apply IH; assumption|].
  eapply good_bind; [apply cout_at_good; lia|]. intros o _. cbn. split; assumption.
Qed.

Definition covl_ok (it : ovl_it) : Prop :=
  v_state it < len /\ v_outpos it <= nout /\ enc_rest (s_rest (v_src it)).

Lemma covl_scan_good : forall fuel rest pulled s pos t, enc_rest rest -> s < len ->
  good (covl_scan V sget oget tget nslots fuel rest pulled s pos t) (fun r => covl_ok (snd r)).
Proof.
  induction fuel as [|fuel IH]; intros rest pulled s pos t Hr Hs; [exact I|]. cbn [covl_scan].
  eapply good_bind; [apply dec_next_enc; exact Hr|]. intros [[[[p c] rest'] pulled']|] Hd.
  - destruct Hd as [Hr' _].
    eapply good_bind; [apply cnext_state_good; exact Hs|]. intros [s' t'] Hs'. cbn [fst] in Hs'.
    eapply good_bind; [apply cst_at_good; exact Hs'|]. intros st (_ & _ & Ho).
    destruct (c_outpos st =? 0) eqn:E; [apply IH; assumption|].
    eapply good_bind; [apply cout_at_good; lia|]. intros o Hp. cbn. unfold covl_ok. cbn. auto.
  - cbn. unfold covl_ok. cbn. repeat split; [exact Hs|lia|exact Hr].
Qed.

Lemma covl_next_good it : covl_ok it -> good (covl_next V sget oget tget nslots it) (fun r => covl_ok (snd r)).
Proof.
  intros (H1 & H2 & H3). unfold covl_next. destruct (v_outpos it =? 0) eqn:E.
  - apply covl_scan_good; assumption.
  - eapply good_bind; [apply cout_at_good; lia|]. intros o Hp. cbn. unfold covl_ok. cbn. auto.
Qed.

(* ---- leftmost: the iterator's position always is a character boundary -------------------------- *)
Lemma clm_scan_good : forall cs s last selfpos skips t, s < len -> last <= nout ->
  good (clm_scan sget tget nslots cs s last selfpos skips t)
       (fun r => match fst (fst r) with Some (opos, _) => 1 <= opos <= nout | None => True end).
Proof.
  induction cs as [|c cs IH]; intros s last selfpos skips t Hs Hl.
  - cbn. destruct (last =? 0) eqn:E; cbn; [exact I|lia].
  - cbn [clm_scan]. eapply good_bind; [apply cnext_state_lm_good; exact Hs|]. intros [s' t'] Hs'. cbn [fst] in Hs'.
    destruct (s' =? ROOT).
    + destruct (last =? 0) eqn:E; [apply IH; assumption|]. cbn. lia.
    + eapply good_bind; [apply cst_at_good; exact Hs'|]. intros st (_ & _ & Ho).
      destruct (c_outpos st =? 0); apply IH; assumption.
Qed.

(* the position returned by a scan over the characters cs that started at a boundary: it is
   selfpos or selfpos + the byte length of a prefix of cs *)
Lemma clm_scan_pos : forall cs s last selfpos skips t r pos' t',
  clm_scan sget tget nslots cs s last selfpos skips t = Ok (r, pos', t') ->
  pos' = selfpos \/ exists j, (j <= length cs)%nat /\ pos' = (selfpos + skips + boff (firstn j cs))%nat.
Proof.
  induction cs as [|c cs IH]; intros s last selfpos skips t r pos' t' H.
  - cbn in H. inversion H; subst. left. reflexivity.
  - cbn [clm_scan] in H.
    destruct (cw_next_state_lm sget tget nslots s c t) as [[s' t1]| | | |]; cbn [bind] in H; try discriminate.
    assert (Hb : forall j, boff (firstn (S j) (c :: cs)) = (N.to_nat (len_utf8 c) + boff (firstn j cs))%nat).
    { intros j. unfold boff. cbn [firstn encode_utf8 flat_map]. fold (encode_utf8 (firstn j cs)).
      rewrite app_length, encode_char_length. reflexivity. }
    destruct (s' =? ROOT).
    + destruct (last =? 0).
      * apply IH in H as [H|(j & Hj & H)]; [left; exact H|]. right. exists (S j). split; [cbn [length]; lia|].
        rewrite Hb. lia.
      * inversion H; subst. left. reflexivity.
    + destruct (cst_at sget s') as [st| | | |]; cbn [bind] in H; try discriminate.
      destruct (c_outpos st =? 0).
      * apply IH in H as [H|(j & Hj & H)]; [left; exact H|]. right. exists (S j). split; [cbn [length]; lia|].
        rewrite Hb. lia.
      * apply IH in H as [H|(j & Hj & H)].
        -- right. exists 1%nat. split; [cbn [length]; lia|]. rewrite (Hb 0%nat). unfold boff at 1. cbn [firstn encode_utf8 flat_map length]. lia.
        -- right. exists (S j). split; [cbn [length]; lia|]. rewrite Hb. lia.
Qed.

Definition clm_ok (it : lm_it) : Prop :=
  exists cs i, Forall scalar cs /\ l_hay it = encode_utf8 cs /\ (i <= length cs)%nat /\ l_pos it = boff (firstn i cs).

Lemma skipn_boff cs i : skipn (boff (firstn i cs)) (encode_utf8 cs) = encode_utf8 (skipn i cs).
Proof.
  rewrite <- (firstn_skipn i cs) at 2. rewrite encode_utf8_app. unfold boff.
  rewrite skipn_app, skipn_all, Nat.sub_diag. reflexivity.
Qed.

Lemma Forall_skipn {X} (P : X -> Prop) n l : Forall P l -> Forall P (skipn n l).
Proof.
  intros H. rewrite Forall_forall in *. intros x Hx. apply H. rewrite <- (firstn_skipn n l).
  apply in_or_app. right. exact Hx.
Qed.

Lemma firstn_plus {X} (i j : nat) (l : list X) : firstn (i + j) l = firstn i l ++ firstn j (skipn i l).
Proof.
  revert l; induction i as [|i IH]; intros l; [reflexivity|].
  destruct l as [|x l]; [cbn; rewrite firstn_nil; reflexivity|]. cbn [Nat.add firstn skipn app]. f_equal. apply IH.
Qed.

Lemma clm_next_good it : clm_ok it -> good (clm_next V sget oget tget nslots it) (fun r => clm_ok (snd r)).
Proof.
  intros (cs & i & Hs & Hh & Hi & Hp). unfold clm_next. rewrite Hh, Hp.
  assert (Hle : (boff (firstn i cs) <= length (encode_utf8 cs))%nat).
  { rewrite <- (firstn_skipn i cs) at 2. rewrite encode_utf8_app, app_length. unfold boff. lia. }
  replace (length (encode_utf8 cs) <? boff (firstn i cs))%nat with false by lia.
  rewrite skipn_boff, (chars_of_encode _ (Forall_skipn _ i cs Hs)).
  destruct (clm_scan sget tget nslots (skipn i cs) ROOT 0 (boff (firstn i cs)) 0 (l_ticks it)) as [[[r pos'] t']| | | |] eqn:Es;
    try (pose proof (clm_scan_good (skipn i cs) ROOT 0 (boff (firstn i cs)) 0%nat (l_ticks it) croot_lt ltac:(lia)) as Hg;
         rewrite Es in Hg; exact Hg).
  cbn [bind].
  pose proof (clm_scan_good (skipn i cs) ROOT 0 (boff (firstn i cs)) 0%nat (l_ticks it) croot_lt ltac:(lia)) as Hg.
  rewrite Es in Hg. cbn [good fst] in Hg.
  assert (Hok : clm_ok {| l_hay := encode_utf8 cs; l_pos := pos'; l_ticks := t' |}).
  { exists cs. apply clm_scan_pos in Es as [->|(j & Hj & ->)].
    - exists i. auto.
    - exists (i + j)%nat. rewrite skipn_length in Hj. split; [exact Hs|]. split; [reflexivity|]. split; [lia|].
      cbn [l_pos]. rewrite Nat.add_0_r. unfold boff. rewrite firstn_plus, encode_utf8_app, app_length. reflexivity. }
  destruct r as [[opos e]|]; [|cbn; exact Hok].
  eapply good_bind; [apply cout_at_good; exact Hg|]. intros o _. cbn. exact Hok.
Qed.

(* ---- C07, character-wise --------------------------------------------------------------------- *)
Theorem cw_search_no_ub_lemma cs : Forall scalar cs ->
  let h := encode_utf8 cs in
  noub (cw_find_iter V A h) /\ noub (cw_find_overlapping_iter V A h)
  /\ noub (cw_find_overlapping_no_suffix_iter V A h) /\ noub (cw_leftmost_find_iter V A h).
Proof.
  intros Hs h. assert (He : enc_rest h) by (exists cs; auto). repeat split.
  - unfold cw_find_iter. destruct (is_standard (cw_kind A)); [|exact I].
    apply (run_iter_good V _ cfind_ok); [|exact He].
    intros it Hi. unfold cfind_next. apply cfind_scan_good; [exact Hi|apply croot_lt].
  - unfold cw_find_overlapping_iter. destruct (is_standard (cw_kind A)); [|exact I].
    apply (run_iter_good V _ covl_ok); [apply covl_next_good|].
    unfold covl_ok, ovl_init. cbn. repeat split; [apply croot_lt|lia|exact He].
  - unfold cw_find_overlapping_no_suffix_iter. destruct (is_standard (cw_kind A)); [|exact I].
    apply (run_iter_good V _ cnos_ok).
    + intros it [H1 H2]. unfold cnos_next. apply cnos_scan_good; assumption.
    + split; [apply croot_lt|exact He].
  - unfold cw_leftmost_find_iter. destruct (is_leftmost (cw_kind A)); [|exact I].
    apply (run_iter_good V _ clm_ok); [apply clm_next_good|].
    exists cs, 0%nat. unfold lm_init. cbn. repeat split; [exact Hs|lia].
Qed.

End CwSafe.
