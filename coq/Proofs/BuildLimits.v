(* BuildLimits.v — C10, the "precisely when" direction WITHIN EXPLICIT SIZE LIMITS: a valid collection whose
   total length keeps every array index inside u32 (256 * (total length + 4) <= u32::MAX), with at most
   U24::MAX patterns and 256 * num_free_blocks <= u32::MAX, IS BUILT: construction returns Ok, not
   AutomatonScale.  Proofs/NoPanic.v shows the result is Ok or Err AutomatonScale; here every site that
   can return an error (helper_new, push_block, extend_array, set_fails' U24 check, the pattern-count
   check, the final state-count check) is shown not to fire under the limits. *)
From DV Require Import Model.Base Model.Nfa Model.Helper Model.BwBuild Model.Spec Proofs.BuildSafe
     Proofs.TrieInv Proofs.BuildTrie Proofs.BuildProps Proofs.NfaFails Proofs.NfaFailsLm Proofs.BuildCert Proofs.BuildCertLm Proofs.NoPanicBw Proofs.NoPanic.
From Coq Require Import ZifyN ZifyNat ZifyBool.
Local Open Scope N_scope.

Definition noerr {X} (r : res X) : Prop := match r with Err _ => False | _ => True end.
Lemma noerr_bind {X Y} (e : res X) (f : X -> res Y) : noerr e -> (forall x, e = Ok x -> noerr (f x)) -> noerr (bind e f).
Proof. destruct e as [x|k| | |]; cbn [bind noerr]; intros H Hf; try exact I; [apply Hf; reflexivity|contradiction]. Qed.

Create HintDb ne.
Ltac ne_step :=
  first
   [ exact I
   | assumption
   | solve [eauto with ne]
   | progress (cbv zeta)
   | match goal with |- noerr (bind _ _) => apply noerr_bind; [ | intros ? ?] end
   | match goal with |- noerr (if ?b then _ else _) => destruct b eqn:? end
   | match goal with |- noerr (match ?x with _ => _ end) => destruct x eqn:? end
   | match goal with |- noerr (let '(_, _) := ?x in _) => destruct x eqn:? end ].
Ltac ne := repeat ne_step.

Lemma offset_ne h i : noerr (offset h i). Proof. unfold offset. ne. Qed.
#[export] Hint Resolve offset_ne : ne.
Lemma get_item_ne h i : noerr (get_item h i). Proof. unfold get_item. ne. Qed.
#[export] Hint Resolve get_item_ne : ne.
Lemma upd_item_ne h i f : noerr (upd_item h i f). Proof. unfold upd_item. ne. Qed.
#[export] Hint Resolve upd_item_ne : ne.
Lemma is_used_base_ne h i : noerr (is_used_base h i). Proof. unfold is_used_base. ne. Qed.
Lemma is_used_index_ne h i : noerr (is_used_index h i). Proof. unfold is_used_index. ne. Qed.
#[export] Hint Resolve is_used_base_ne is_used_index_ne : ne.
Lemma use_base_ne h i : noerr (use_base h i). Proof. unfold use_base. ne. Qed.
Lemma use_index_ne h i : noerr (use_index h i). Proof. unfold use_index. ne. Qed.
#[export] Hint Resolve use_base_ne use_index_ne : ne.
Lemma drop_loop_ne : forall fuel h e, noerr (drop_loop fuel h e).
Proof. induction fuel as [|fuel IH]; intros h e; cbn [drop_loop]; ne. Qed.
#[export] Hint Resolve drop_loop_ne : ne.
Lemma reset_range_ne : forall idxs h, noerr (reset_range h idxs).
Proof. induction idxs as [|i r IH]; intros h; cbn [reset_range]; ne. Qed.
#[export] Hint Resolve reset_range_ne : ne.
Lemma push_block_ne h : num_elements h <= U32_MAX - h_block_len h -> noerr (push_block h).
Proof. intros H. unfold push_block. assert ((U32_MAX - h_block_len h <? num_elements h) = false) as -> by lia. ne. Qed.
Lemma find_unused_base_ne : forall cs h, noerr (find_unused_base h cs).
Proof. induction cs as [|c r IH]; intros h; cbn [find_unused_base]; ne. Qed.
#[export] Hint Resolve find_unused_base_ne : ne.
Lemma unused_base_in_block_ne h b : noerr (unused_base_in_block h b). Proof. unfold unused_base_in_block. ne. Qed.
Lemma vacant_next_ne h c : noerr (vacant_next h c). Proof. unfold vacant_next. ne. Qed.
#[export] Hint Resolve unused_base_in_block_ne vacant_next_ne : ne.

(* ---- byte-wise layout ------------------------------------------------------------------------------ *)
Section BwNoErr.
Variable V : Type.
Variable nout : N.

Lemma all_indices_free_ne : forall ls h b, noerr (all_indices_free h b ls).
Proof. induction ls as [|c r IH]; intros h b; cbn [all_indices_free]; ne. Qed.
Hint Resolve all_indices_free_ne : ne.
Lemma check_valid_base_ne h b ls : noerr (check_valid_base h b ls). Proof. unfold check_valid_base. ne. Qed.
Hint Resolve check_valid_base_ne : ne.
Lemma find_base_loop_ne : forall fuel h cur l0 ls, noerr (find_base_loop fuel h cur l0 ls).
Proof. induction fuel as [|fuel IH]; intros h cur l0 ls; destruct cur; cbn [find_base_loop]; ne. Qed.
Hint Resolve find_base_loop_ne : ne.
Lemma find_base_ne (a : barr) h ls : noerr (find_base a h ls). Proof. unfold find_base. ne. Qed.
Lemma ba_get_ne (a : barr) i : noerr (ba_get a i). Proof. unfold ba_get. ne. Qed.
Hint Resolve find_base_ne ba_get_ne : ne.
Lemma ba_upd_ne (a : barr) i f : noerr (ba_upd a i f). Proof. unfold ba_upd. ne. Qed.
Hint Resolve ba_upd_ne : ne.
Lemma ric_loop_ne : forall cs (a : barr) h ub, noerr (ric_loop a h ub cs).
Proof. induction cs as [|c r IH]; intros a h ub; cbn [ric_loop]; ne. Qed.
Hint Resolve ric_loop_ne : ne.
Lemma remove_invalid_checks_ne (a : barr) h b : noerr (remove_invalid_checks a h b). Proof. unfold remove_invalid_checks. ne. Qed.
Hint Resolve remove_invalid_checks_ne : ne.
Lemma ric_blocks_ne : forall bs (a : barr) h, noerr (ric_blocks a h bs).
Proof. induction bs as [|b r IH]; intros a h; cbn [ric_blocks]; ne. Qed.
Lemma idmap_get_ne m len i : noerr (idmap_get m len i). Proof. unfold idmap_get. ne. Qed.
Hint Resolve ric_blocks_ne idmap_get_ne : ne.
Lemma place_children_ne : forall es (a : barr) h idmap nst base stack, noerr (place_children a h idmap nst base es stack).
Proof. induction es as [|[c ch] es IH]; intros a h idmap nst base stack; cbn [place_children]; ne. Qed.
Hint Resolve place_children_ne : ne.
Lemma nfa_get_ne (n : nfa V) i : noerr (nfa_get V n i). Proof. unfold nfa_get. ne. Qed.
Hint Resolve nfa_get_ne : ne.

Lemma extend_array_ne (a : barr) h : CP a h -> ba_len a <= U32_MAX - 256 -> noerr (extend_array a h).
Proof.
  intros [C1 C2] Hl. unfold extend_array. assert ((U32_MAX - BLOCK_LEN <? ba_len a) = false) as -> by (unfold BLOCK_LEN; lia).
  apply noerr_bind; [ne|]. intros a1 _. apply noerr_bind; [|intros; exact I].
  apply push_block_ne. unfold num_elements. rewrite C2, <- C1. exact Hl.
Qed.

Lemma init_array_ne nfb : 256 * nfb <= U32_MAX -> noerr (init_array nfb).
Proof.
  intros H. unfold init_array, helper_new. assert ((U32_MAX <? BLOCK_LEN * nfb) = false) as -> by (unfold BLOCK_LEN; lia). ne.
Qed.

Lemma set_fails_loop_ne (n : nfa V) : (forall i st, nfa_get V n i = Ok st -> n_outpos st <= U24_MAX) ->
  forall ids (a : barr) idmap, noerr (set_fails_loop V n a idmap ids).
Proof.
  intros Hop. induction ids as [|i ids IH]; intros a idmap; cbn [set_fails_loop]; [exact I|].
  destruct (i =? DEAD); [apply IH|]. apply noerr_bind; [ne|]. intros idx _. destruct (idx =? DEAD); [exact I|].
  apply noerr_bind; [ne|]. intros st Hst. assert ((U24_MAX <? n_outpos st) = false) as -> by (specialize (Hop i st Hst); lia). ne.
Qed.

Lemma dfs_loop_ne (n : nfa V) : AllSt V (PL2 V (fun b : N => b < 256) nout) n ->
  forall fuel a h idmap stack, BI nout a -> CP a h -> IM idmap (ba_len a) ->
  ba_len a + 256 * N.of_nat fuel <= U32_MAX ->
  noerr (dfs_loop V fuel n a h idmap stack).
Proof.
  intros HN. induction fuel as [|fuel IH]; intros a h idmap stack HB HC HI Hlen; destruct stack as [|sid stack]; cbn [dfs_loop]; try exact I.
  destruct (sid =? DEAD); [exact I|]. apply noerr_bind; [ne|]. intros st Est. apply noerr_bind; [ne|]. intros sidx Esx.
  destruct (sidx =? DEAD); [exact I|].
  destruct (n_edges st) as [|e0 es0] eqn:Ee; [apply IH; try assumption; lia|]. rewrite <- Ee.
  apply noerr_bind; [ne|]. intros base Eb.
  pose proof (find_base_range _ _ _ _ HC Eb) as Hbase.
  apply noerr_bind.
  { destruct (ba_len a <=? base); [apply extend_array_ne; [exact HC|lia]|exact I]. }
  intros [a3 h3] E2.
  assert (Hext : BI nout a3 /\ CP a3 h3 /\ ba_len a <= ba_len a3 /\ base < ba_len a3 /\ ba_len a3 <= ba_len a + 256).
  { destruct (ba_len a <=? base) eqn:El.
    - destruct (extend_array_inv nout _ _ _ _ HB HC E2) as (X1 & X2 & X3). split; [exact X1|]. split; [exact X2|]. repeat split; lia.
    - inversion E2; subst a3 h3. split; [exact HB|]. split; [exact HC|]. repeat split; lia. }
  destruct Hext as (HB3 & HC3 & Hle & Hb & Hle2).
  apply noerr_bind; [ne|]. intros [[[a4 h4] idmap4] stack4] E3.
  destruct (HN sid st (nfa_get_some V n sid st Est)) as [_ Hlab].
  destruct (place_children_inv nout _ _ _ _ _ _ _ _ _ _ _ Hlab HB3 (IM_mono _ _ _ Hle HI) E3) as (HB4 & L4 & M4 & HI4).
  apply noerr_bind; [ne|]. intros a5 E4.
  assert (Hb4 : base < ba_len a4) by lia.
  destruct (ba_upd_BI nout a4 _ _ a5 HB4 (fun s => set_base_inv nout _ base s Hb4) E4) as (HB5 & L5 & _).
  apply noerr_bind; [ne|]. intros h5 E5.
  apply IH; [exact HB5| |rewrite L5, L4; exact HI4|lia].
  apply (CP_meta a5 h3); [|exact (hmeta_trans _ _ _ M4 (use_base_meta _ _ _ E5))].
  destruct HC3 as [C1 C2]. split; [congruence|exact C2].
Qed.
End BwNoErr.

(* ---- the fail-link and output phases never return an error ---------------------------------------- *)
Section NfaNoErr.
Variable V : Type.
Hint Resolve nfa_get_ne : ne.
Lemma child_id_ne (n : nfa V) s c : noerr (child_id V n s c). Proof. unfold child_id. ne. Qed.
Lemma set_fail_ne (n : nfa V) i f : noerr (set_fail V n i f). Proof. unfold set_fail. ne. Qed.
Hint Resolve child_id_ne set_fail_ne : ne.
Lemma fail_loop_ne : forall fuel (n : nfa V) f c, noerr (fail_loop V fuel n f c).
Proof. induction fuel as [|fuel IH]; intros n f c; cbn [fail_loop]; ne. Qed.
Lemma fail_loop_lm_ne : forall fuel (n : nfa V) hd f c, noerr (fail_loop_lm V fuel n hd f c).
Proof. induction fuel as [|fuel IH]; intros n hd f c; cbn [fail_loop_lm]; ne. Qed.
Hint Resolve fail_loop_ne fail_loop_lm_ne : ne.
Lemma fails_edges_ne : forall es (n : nfa V) sid sf q, noerr (fails_edges V n sid sf es q).
Proof. induction es as [|[c ch] es IH]; intros n sid sf q; cbn [fails_edges]; ne. Qed.
Lemma fails_edges_lm_ne : forall es (n : nfa V) sid sf q, noerr (fails_edges_lm V n sid sf es q).
Proof. induction es as [|[c ch] es IH]; intros n sid sf q; cbn [fails_edges_lm]; ne. Qed.
Hint Resolve fails_edges_ne fails_edges_lm_ne : ne.
Lemma fails_bfs_ne : forall fuel (n : nfa V) p d, noerr (fails_bfs V fuel n p d).
Proof. induction fuel as [|fuel IH]; intros n p d; destruct p; cbn [fails_bfs]; ne. Qed.
Lemma fails_bfs_lm_ne : forall fuel (n : nfa V) p d, noerr (fails_bfs_lm V fuel n p d).
Proof. induction fuel as [|fuel IH]; intros n p d; destruct p; cbn [fails_bfs_lm]; ne. Qed.
Hint Resolve fails_bfs_ne fails_bfs_lm_ne : ne.
Lemma outputs_loop_ne : forall q (n : nfa V), noerr (outputs_loop V n q).
Proof. induction q as [|s q IH]; intros n; cbn [outputs_loop]; ne. Qed.
Hint Resolve outputs_loop_ne : ne.
Lemma finish_nfa_ne (n : nfa V) : noerr (finish_nfa V n).
Proof. unfold finish_nfa, build_fails, build_fails_leftmost, build_outputs. ne. Qed.
End NfaNoErr.

(* ---- counting ------------------------------------------------------------------------------------- *)
Section Count.
Variable V : Type.
Lemma dedup_length_le (l : list (list N)) : (length (dedup l) <= length l)%nat.
Proof. induction l as [|x r IH]; cbn [dedup length]; [lia|]. destruct (existsb (list_eqb x) r); cbn [length]; lia. Qed.
Lemma prefixes_of_length (p : list N) : length (prefixes_of p) = length p.
Proof. induction p as [|x r IH]; cbn [prefixes_of length]; [reflexivity|]. rewrite map_length, IH. reflexivity. Qed.
Lemma distinct_prefixes_le_total (l : list (list N * V)) :
  N.of_nat (length (distinct_nonempty_prefixes V l)) <= total_len V l.
Proof.
  unfold distinct_nonempty_prefixes. pose proof (dedup_length_le (flat_map (fun pv => prefixes_of (fst pv)) l)) as H.
  assert (E : N.of_nat (length (flat_map (fun pv : list N * V => prefixes_of (fst pv)) l)) = total_len V l).
  { clear H. unfold total_len. induction l as [|pv r IH]; cbn [flat_map fold_right]; [reflexivity|]. rewrite app_length, prefixes_of_length, <- IH. lia. }
  lia.
Qed.
Lemma total_len_incl_nodup (l1 l2 : list (list N * V)) : NoDup l1 -> incl l1 l2 -> total_len V l1 <= total_len V l2.
Proof.
  revert l2. induction l1 as [|x l1 IH]; intros l2 Hnd Hinc; [unfold total_len; cbn; lia|].
  inversion Hnd as [|? ? Hx Hnd']; subst. assert (Hin : In x l2) by (apply Hinc; left; reflexivity).
  apply in_split in Hin as (a & b & ->).
  assert (Hinc' : incl l1 (a ++ b)).
  { intros y Hy. assert (In y (a ++ x :: b)) as H by (apply Hinc; right; exact Hy). apply in_app_iff in H as [H|[H|H]].
    - apply in_or_app. left. exact H.
    - subst y. contradiction.
    - apply in_or_app. right. exact H. }
  specialize (IH (a ++ b) Hnd' Hinc').
  assert (Eapp : forall u w : list (list N * V), total_len V (u ++ w) = total_len V u + total_len V w).
  { intros u w. unfold total_len. induction u as [|z u IHu]; cbn [app fold_right]; [reflexivity|]. rewrite IHu. lia. }
  rewrite Eapp in *. cbn [total_len fold_right] in *. fold (total_len V b). fold (total_len V l1). unfold total_len in *. cbn [fold_right] in *. lia.
Qed.
End Count.

(* the output table is never longer than the list of registered patterns *)
Lemma finish_nfa_any_len (V : Type) (lbytes : N -> N) (lb_pos : forall c, 1 <= lbytes c) k (n0 : nfa V) (outs : list (list N * V)) paths :
  TI V lbytes n0 outs [] paths ->
  (forall i st, nget i (n_states n0) = Some st -> NoDup (map fst (n_edges st))) ->
  (forall i st, nget i (n_states n0) = Some st -> n_fail st = ROOT) ->
  NoDup (map fst outs) -> N.of_nat (length outs) < U32_MAX ->
  (forall i st, nget i (n_states n0) = Some st -> n_outpos st = 0) ->
  n_outputs n0 = [] -> outs <> [] -> n_kind n0 = k ->
  exists n2, finish_nfa V n0 = Ok n2 /\ N.of_nat (length (n_outputs n2)) <= N.of_nat (length outs).
Proof.
  intros T0 EK0 F0 Hnd LEN0 OP0 Hout NE0 Hk. destruct k.
  - destruct (finish_nfa_std_ok V lbytes lb_pos n0 outs paths T0 EK0 F0 Hnd LEN0 OP0 Hout NE0 Hk)
      as (n2 & Hf & _ & _ & _ & _ & _ & HL & _). exists n2. auto.
  - assert (LM0 : n_kind n0 <> Standard) by congruence.
    destruct (build_fails_ok V lbytes lb_pos n0 _ paths T0 EK0 F0) as (ng & qg & _ & STg & Fg & _).
    destruct (finish_nfa_lm_ok V lbytes lb_pos n0 _ paths T0 EK0 F0 Hnd ng STg Fg LEN0 OP0 Hout NE0 LM0)
      as (n2 & Hf & _ & _ & _ & _ & _ & HL & _). exists n2. auto.
  - assert (LM0 : n_kind n0 <> Standard) by congruence.
    destruct (build_fails_ok V lbytes lb_pos n0 _ paths T0 EK0 F0) as (ng & qg & _ & STg & Fg & _).
    destruct (finish_nfa_lm_ok V lbytes lb_pos n0 _ paths T0 EK0 F0 Hnd ng STg Fg LEN0 OP0 Hout NE0 LM0)
      as (n2 & Hf & _ & _ & _ & _ & _ & HL & _). exists n2. auto.
Qed.

Lemma okscale_noerr_ok {X} (r : res X) : okscale r -> noerr r -> exists x, r = Ok x.
Proof. destruct r as [x|e| | |]; cbn; intros H1 H2; try contradiction; eauto. Qed.

Section BwLimits.
Variable V : Type.

Lemma init_array_len nfb a h : init_array nfb = Ok (a, h) -> ba_len a = 256.
Proof.
  unfold init_array. intros H.
  destruct (helper_new BLOCK_LEN nfb) as [x0| | | |]; cbn [bind] in H; try discriminate.
  destruct (match push_block x0 with Ok h => Ok h | Err _ => Panic PUnwrap | Panic t => Panic t | UB t => UB t | OutOfFuel => OutOfFuel end) as [x1| | | |]; cbn [bind] in H; try discriminate.
  destruct (use_index x1 ROOT) as [x2| | | |]; cbn [bind] in H; try discriminate.
  destruct (use_index x2 DEAD) as [x3| | | |]; cbn [bind] in H; try discriminate. inversion H. reflexivity.
Qed.

Lemma build_double_array_ne nout nfb (n : nfa V) :
  AllSt V (PL2 V (fun b : N => b < 256) nout) n -> nout <= U24_MAX ->
  256 * nfb <= U32_MAX -> 256 * (n_nstates n + 2) <= U32_MAX ->
  noerr (build_double_array V nfb n).
Proof.
  intros HN Hno Hnfb Hsz. unfold build_double_array.
  apply noerr_bind; [apply init_array_ne; exact Hnfb|]. intros [a0 h0] Ei.
  destruct (init_array_inv nout _ _ _ Ei) as [HB0 HC0]. pose proof (init_array_len _ _ _ Ei) as L0.
  apply noerr_bind.
  { apply (dfs_loop_ne V nout n HN); [exact HB0|exact HC0| |].
    - intros i x Hg. destruct (N.eq_dec i ROOT) as [->|Hne]; [rewrite ngss in Hg; inversion Hg; unfold ROOT; lia|].
      rewrite ngso in Hg by exact Hne. rewrite nget_empty in Hg. discriminate.
    - rewrite L0. lia. }
  intros [[a1 h1] idmap] _. apply noerr_bind.
  { apply set_fails_loop_ne. intros i st Hg. destruct (HN i st (nfa_get_some V n i st Hg)) as [Hop _]. lia. }
  intros a2 _. apply noerr_bind; [apply ric_blocks_ne|]. intros a3 _. exact I.
Qed.

(* C10: valid collections within the limits ARE built *)
Theorem bw_build_within_limits k nfb (pvs : list (list N * V)) :
  nfb <> 0 -> 256 * nfb <= U32_MAX ->
  (forall p v, In (p, v) pvs -> Forall (fun b => b < 256) p) ->
  N.of_nat (length pvs) <= U24_MAX -> 256 * (total_len V pvs + 4) <= U32_MAX ->
  spec_build_error (map fst pvs) = None ->
  exists A, bw_build_with_values V k nfb pvs = Ok A.
Proof.
  intros Hnfb Hnfb2 Hbytes Hcnt Hlim Hvalid.
  assert (Hsz : 4 * total_len V pvs <= U32_MAX - 1) by (unfold U32_MAX in *; lia).
  apply okscale_noerr_ok; [exact (bw_build_valid V k nfb pvs Hnfb Hbytes Hsz Hvalid)|].
  unfold bw_build_with_values. apply N.eqb_neq in Hnfb. rewrite Hnfb. apply N.eqb_neq in Hnfb.
  (* the NFA *)
  assert (Hpne : pvs <> []) by (intros ->; discriminate).
  assert (Efo0 : first_offence [] (map fst pvs) = None) by (destruct pvs; [congruence|exact Hvalid]).
  pose proof (adds_spec V (fun _ => 1) one_pos one_le4 k pvs Hsz) as S. rewrite Efo0 in S.
  destruct S as (n0 & paths & S1 & T0 & Hk & Hlen & Hout).
  apply first_offence_none in Efo0 as (Hne' & Hnd & _).
  destruct (regd_facts k pvs) as (Rin & Rnd & Rlen). pose proof (Rnd Hnd) as Hnd'.
  pose proof (adds_PEF V (fun _ => 1) pvs _ n0 (nfa_new_PEF V k) S1) as HPEF.
  assert (EK0 : forall i st, nget i (n_states n0) = Some st -> NoDup (map fst (n_edges st))) by (intros i st Hg; exact (proj2 (HPEF i st Hg))).
  assert (F0 : forall i st, nget i (n_states n0) = Some st -> n_fail st = ROOT) by (intros i st Hg; exact (proj1 (HPEF i st Hg))).
  rewrite <- add_all_adds in S1.
  destruct (add_all_inv V pvs _ n0 Hbytes (nfa_new_PLO V k) eq_refl S1) as [HPLO _].
  assert (OP0 : forall i st, nget i (n_states n0) = Some st -> n_outpos st = 0) by (intros i st Hg; exact (proj1 (HPLO i st Hg))).
  assert (NE0 : regd V k pvs <> []) by (apply regd_nonempty; exact Hpne).
  assert (LEN0 : N.of_nat (length (regd V k pvs)) < U32_MAX) by (unfold U24_MAX, U32_MAX in *; lia).
  destruct (finish_nfa_any_len V (fun _ => 1) one_pos k n0 _ paths T0 EK0 F0 Hnd' LEN0 OP0 Hout NE0 Hk) as (n2 & Hf & HLo).
  assert (En : bw_build_sparse_nfa V k pvs = Ok n2).
  { unfold bw_build_sparse_nfa. rewrite S1. cbn [bind].
    assert ((n_len n0 =? 0) = false) as -> by (rewrite Hlen; destruct (regd V k pvs); [congruence|cbn [length]; lia]).
    assert ((U24_MAX <? n_len n0) = false) as -> by (rewrite Hlen; unfold U24_MAX in *; lia). exact Hf. }
  rewrite En. cbn [bind].
  (* the layout *)
  destruct (bw_sparse_nfa_inv V k pvs n2 Hbytes En) as [HA2 _].
  assert (Hns : n_nstates n2 <= total_len V pvs + 2).
  { rewrite (finish_nfa_ns V n0 n2 Hf). destruct (TI_count V (fun _ => 1) n0 _ paths T0) as [Hc _]. rewrite Hc.
    pose proof (distinct_prefixes_le_total V (regd V k pvs)).
    assert (total_len V (regd V k pvs) <= total_len V pvs).
    { apply total_len_incl_nodup; [|exact Rin]. apply (NoDup_map_inv fst). exact Hnd'. }
    lia. }
  apply noerr_bind.
  { apply (build_double_array_ne (N.of_nat (length (n_outputs n2)))); [exact HA2| |exact Hnfb2|].
    - unfold U24_MAX in *. lia.
    - unfold U32_MAX in *. lia. }
  intros sts _. assert ((U32_MAX <? n_nstates n2 - 1) = false) as -> by (unfold U32_MAX in *; lia). exact I.
Qed.
End BwLimits.

(* ================================================================================================= *)
(* ---- character-wise ------------------------------------------------------------------------------ *)
From DV Require Import Model.Utf8 Model.CwBuild Proofs.CwBuildSafe.

Lemma npow2_loop_le : forall fuel p x, npow2_loop fuel p x <= N.max p (2 * x).
Proof.
  induction fuel as [|fuel IH]; intros p x; cbn [npow2_loop]; [lia|].
  destruct (x <=? p) eqn:E; [lia|]. specialize (IH (2 * p) x). lia.
Qed.
Lemma block_len_le alpha : block_len_of alpha <= 2 * alpha + 2.
Proof. unfold block_len_of, next_power_of_two. pose proof (npow2_loop_le 33 1 alpha). lia. Qed.

Section CwNoErr.
Variable V : Type.
Variable nout : N.
Variable k : N.
Hypothesis k_pos : 1 <= k.
Notation bl := (2 ^ k).

Hint Resolve nfa_get_ne : ne.
Lemma cw_all_free_ne : forall es h b, noerr (cw_all_free h b es).
Proof. induction es as [|[c ch] r IH]; intros h b; cbn [cw_all_free]; ne. Qed.
Hint Resolve cw_all_free_ne : ne.
Lemma verify_base_ne h b es : noerr (verify_base h b es). Proof. unfold verify_base. ne. Qed.
Hint Resolve verify_base_ne : ne.
Lemma cw_find_base_loop_ne : forall fuel h cur c0 es, noerr (cw_find_base_loop fuel h cur c0 es).
Proof. induction fuel as [|fuel IH]; intros h cur c0 es; destruct cur; cbn [cw_find_base_loop]; ne. Qed.
Hint Resolve cw_find_base_loop_ne : ne.
Lemma cw_find_base_ne (a : carr) h es : noerr (cw_find_base a h es). Proof. unfold cw_find_base. ne. Qed.
Lemma ca_get_ne (a : carr) i : noerr (ca_get a i). Proof. unfold ca_get. ne. Qed.
Hint Resolve cw_find_base_ne ca_get_ne : ne.
Lemma ca_upd_ne (a : carr) i f : noerr (ca_upd a i f). Proof. unfold ca_upd. ne. Qed.
Lemma cidmap_get_ne m len i : noerr (cidmap_get m len i). Proof. unfold cidmap_get. ne. Qed.
Hint Resolve ca_upd_ne cidmap_get_ne : ne.
Lemma map_edges_ne tbl : forall es, noerr (map_edges tbl es).
Proof. induction es as [|[l ch] r IH]; cbn [map_edges]; ne. Qed.
Hint Resolve map_edges_ne : ne.
Lemma cw_place_children_ne : forall es (a : carr) h idmap nst base sidx stack, noerr (cw_place_children a h idmap nst base sidx es stack).
Proof. induction es as [|[c ch] es IH]; intros a h idmap nst base sidx stack; cbn [cw_place_children]; ne. Qed.
Hint Resolve cw_place_children_ne : ne.
Lemma cw_set_fails_loop_ne (n : nfa V) : forall ids (a : carr) idmap, noerr (cw_set_fails_loop V n a idmap ids).
Proof. induction ids as [|i ids IH]; intros a idmap; cbn [cw_set_fails_loop]; ne. Qed.

Lemma cw_extend_array_ne (a : carr) h : CCP k a h -> ca_len a <= U32_MAX - bl -> noerr (cw_extend_array bl a h).
Proof.
  intros [C1 C2] Hl. unfold cw_extend_array. assert ((U32_MAX - bl <? ca_len a) = false) as -> by lia.
  apply noerr_bind; [|intros; exact I]. apply push_block_ne. unfold num_elements. rewrite C2, <- C1. exact Hl.
Qed.

Lemma cw_dfs_loop_ne tbl (n : nfa V) :
  (forall label code, code_of tbl label = Some code -> code < bl) ->
  forall fuel a h idmap stack, CBI nout k a -> CCP k a h -> IM idmap (ca_len a) ->
  ca_len a + bl * N.of_nat fuel <= U32_MAX ->
  noerr (cw_dfs_loop V fuel tbl bl n a h idmap stack).
Proof.
  intros Hcode. induction fuel as [|fuel IH]; intros a h idmap stack HB HC HI Hlen; destruct stack as [|sid stack]; cbn [cw_dfs_loop]; try exact I.
  destruct (sid =? DEAD); [exact I|]. apply noerr_bind; [ne|]. intros st Est. apply noerr_bind; [ne|]. intros sidx Esx.
  destruct (sidx =? DEAD); [exact I|].
  destruct (n_edges st) as [|e0 es0] eqn:Ee; [apply IH; try assumption; lia|]. rewrite <- Ee.
  apply noerr_bind; [ne|]. intros mapped Em.
  assert (Hmc : forall c ch, In (c, ch) mapped -> c < bl).
  { intros c ch Hin. destruct (map_edges_codes tbl _ _ Em c ch Hin) as [label Hl]. exact (Hcode label c Hl). }
  apply noerr_bind; [ne|]. intros base Eb.
  pose proof (cw_find_base_range nout k k_pos _ _ _ _ HB HC Hmc Eb) as Hbase.
  apply noerr_bind.
  { destruct (ca_len a <=? base); [apply cw_extend_array_ne; [exact HC|lia]|exact I]. }
  intros [a4 h4] E3.
  assert (Hext : CBI nout k a4 /\ CCP k a4 h4 /\ ca_len a <= ca_len a4 /\ base < ca_len a4 /\ ca_len a4 <= ca_len a + bl).
  { destruct (ca_len a <=? base) eqn:El.
    - destruct (cw_extend_array_inv nout k k_pos _ _ _ _ HB HC E3) as (X1 & X2 & X3). split; [exact X1|]. split; [exact X2|]. repeat split; lia.
    - inversion E3; subst a4 h4. split; [exact HB|]. split; [exact HC|]. repeat split; lia. }
  destruct Hext as (HB4 & HC4 & Hle & Hb & Hle2).
  apply noerr_bind; [ne|]. intros [[[a5 h5] idmap5] stack5] E4.
  destruct (cw_place_children_inv nout k k_pos _ _ _ _ _ _ _ _ _ _ _ _ HB4 (IM_mono _ _ _ Hle HI) E4) as (HB5 & L5 & M5 & HI5).
  apply noerr_bind; [ne|]. intros a6 E5.
  assert (Hb5 : base < ca_len a5) by lia.
  destruct (ca_upd_CBI nout k k_pos a5 _ _ a6 HB5 (fun s => cset_base_inv nout _ base s Hb5) E5) as (HB6 & L6 & _).
  apply IH; [exact HB6| |rewrite L6, L5; exact HI5|lia].
  apply (CCP_meta k a6 h4); [|exact M5]. destruct HC4 as [C1 C2]. split; [congruence|exact C2].
Qed.
End CwNoErr.

Section CwLimits.
Variable V : Type.

Lemma cw_init_array_ne alpha nfb : block_len_of alpha * nfb <= U32_MAX -> noerr (cw_init_array alpha nfb).
Proof.
  intros H. unfold cw_init_array, helper_new. fold (block_len_of alpha).
  assert ((U32_MAX <? block_len_of alpha * nfb) = false) as -> by lia. ne.
Qed.
Lemma cw_init_array_len alpha nfb a h b : cw_init_array alpha nfb = Ok (a, h, b) -> ca_len a = b.
Proof.
  unfold cw_init_array. intros H.
  destruct (helper_new _ nfb) as [x0| | | |]; cbn [bind] in H; try discriminate.
  destruct (match push_block x0 with Ok h => Ok h | Err _ => Panic PUnwrap | Panic t => Panic t | UB t => UB t | OutOfFuel => OutOfFuel end) as [x1| | | |]; cbn [bind] in H; try discriminate.
  destruct (use_index x1 ROOT) as [x2| | | |]; cbn [bind] in H; try discriminate.
  destruct (use_index x2 DEAD) as [x3| | | |]; cbn [bind] in H; try discriminate. inversion H. reflexivity.
Qed.

(* C10, character-wise: valid collections within the limits ARE built.  The block length is a power
   of two not below the number of distinct pattern characters, hence at most 2 * total length + 2;
   every array index stays inside u32 when (2 T + 2) * (T + 4) <= u32::MAX, T = total length. *)
Theorem cw_build_within_limits k nfb (pvs : list (list N * V)) :
  nfb <> 0 ->
  (2 * total_len V pvs + 2) * nfb <= U32_MAX ->
  (2 * total_len V pvs + 2) * (total_len V pvs + 4) <= U32_MAX ->
  spec_build_error (map fst pvs) = None ->
  exists A, cw_build_with_values V k nfb pvs = Ok A.
Proof.
  intros Hnfb Hnfb2 Hlim Hvalid.
  assert (Hsz : 4 * total_len V pvs <= U32_MAX - 1) by (unfold U32_MAX in *; nia).
  apply okscale_noerr_ok; [exact (cw_build_valid V k nfb pvs Hnfb Hsz Hvalid)|].
  assert (Hpne : pvs <> []) by (intros ->; discriminate).
  assert (Efo0 : first_offence [] (map fst pvs) = None) by (destruct pvs; [congruence|exact Hvalid]).
  unfold cw_build_with_values. apply N.eqb_neq in Hnfb. rewrite Hnfb. apply N.eqb_neq in Hnfb.
  pose proof (cw_add_all_adds V pvs (nfa_new V k) {| fq_map := nempty; fq_len := 0 |} []) as Hadds.
  pose proof (adds_spec V len_utf8 len_utf8_pos len_utf8_le4 k pvs Hsz) as S.
  rewrite Efo0 in S.
  destruct (cw_add_all V (nfa_new V k) _ [] pvs) as [[[n0 f] pr]|e| | |] eqn:Ea; cbn [bind noerr];
    try (destruct S as (? & ? & S1 & _); rewrite Hadds in S1; discriminate).
  destruct S as (n0' & paths & S1 & T0 & Hk & Hlen & Hout). rewrite Hadds in S1. inversion S1; subst n0'; clear S1.
  assert ((n_len n0 =? 0) = false) as ->.
  { rewrite Hlen. pose proof (regd_nonempty V k pvs Hpne). destruct (regd V k pvs); [congruence|cbn [length]; lia]. }
  apply first_offence_none in Efo0 as (Hne' & Hnd & _).
  destruct (regd_facts k pvs) as (Rin & Rnd & Rlen). pose proof (Rnd Hnd) as Hnd'.
  pose proof (adds_PEF V len_utf8 pvs _ n0 (nfa_new_PEF V k) Hadds) as HPEF.
  assert (EK0 : forall i st, nget i (n_states n0) = Some st -> NoDup (map fst (n_edges st))) by (intros i st Hg; exact (proj2 (HPEF i st Hg))).
  assert (F0 : forall i st, nget i (n_states n0) = Some st -> n_fail st = ROOT) by (intros i st Hg; exact (proj1 (HPEF i st Hg))).
  destruct (cw_add_all_inv V pvs _ _ _ _ _ _ (nfa_new_PLO_any V k) eq_refl Ea) as [HPLO _].
  assert (OP0 : forall i st, nget i (n_states n0) = Some st -> n_outpos st = 0) by (intros i st Hg; exact (proj1 (HPLO i st Hg))).
  assert (NE0 : regd V k pvs <> []) by (apply regd_nonempty; exact Hpne).
  assert (Hne : forall p v, In (p, v) pvs -> p <> []).
  { intros p v Hin. rewrite Forall_forall in Hne'. apply Hne'. apply in_map_iff. exists (p, v). auto. }
  assert (LEN0 : N.of_nat (length (regd V k pvs)) < U32_MAX) by (pose proof (count_le_total_len pvs Hne); unfold U32_MAX in *; lia).
  destruct (finish_nfa_any_len V len_utf8 len_utf8_pos k n0 _ paths T0 EK0 F0 Hnd' LEN0 OP0 Hout NE0 Hk) as (n2 & Hf & _).
  rewrite Hf. cbn [bind].
  set (mp := mapper_new f pr) in *.
  destruct (cw_add_all_chars pvs (nfa_new V k) {| fq_map := nempty; fq_len := 0 |} [] n0 f pr (fun c (H : In c []) => match H with end) Ea) as (_ & _ & _ & Hprlen).
  assert (Halpha : mp_alpha mp <= total_len V pvs).
  { unfold mp, mapper_new. cbn [mp_alpha]. rewrite freq_sort_length, map_length. cbn [length] in Hprlen. lia. }
  pose proof (block_len_le (mp_alpha mp)) as Hble.
  assert (Hns : n_nstates n2 <= total_len V pvs + 2).
  { rewrite (finish_nfa_ns V n0 n2 Hf). destruct (TI_count V len_utf8 n0 _ paths T0) as [Hc _]. rewrite Hc.
    pose proof (distinct_prefixes_le_total V (regd V k pvs)).
    assert (total_len V (regd V k pvs) <= total_len V pvs).
    { apply total_len_incl_nodup; [|exact Rin]. apply (NoDup_map_inv fst). exact Hnd'. }
    lia. }
  apply noerr_bind; [apply cw_init_array_ne; nia|]. intros [[a0 h0] b] Ei.
  destruct (cw_init_array_inv _ _ _ _ _ Ei) as (Hb & Hbu & Hinit). pose proof (cw_init_array_len _ _ _ _ _ Ei) as L0.
  destruct (block_len_pow2 (mp_alpha mp)) as [kk [Hk2 Hk1]]. rewrite <- Hb in Hk2.
  destruct (Hinit kk Hk2 Hk1) as (_ & HC0 & HB0).
  assert (Hcode : forall label code, code_of (index_list (mp_table mp)) label = Some code -> code < 2 ^ kk).
  { intros label code Hc. apply (code_of_lt (mp_table mp) (mp_alpha mp)) in Hc; [|intros x Hx; exact (mapper_new_codes f pr x Hx)].
    pose proof (block_len_ge (mp_alpha mp)) as Hge. rewrite <- Hb in Hge. specialize (Hge Hbu). lia. }
  rewrite Hk2. apply noerr_bind.
  { apply (cw_dfs_loop_ne V 0 kk Hk1 _ n2 Hcode); [exact (HB0 0)|exact HC0| |].
    - intros i x Hg. destruct (N.eq_dec i ROOT) as [->|Hne0]; [rewrite ngss in Hg; inversion Hg; destruct (HB0 0) as [H1 _]; unfold ROOT; lia|].
      rewrite ngso in Hg by exact Hne0. rewrite nget_empty in Hg. discriminate.
    - rewrite L0, Hk2. rewrite <- Hk2, Hb. unfold U32_MAX in *. nia. }
  intros [[a1 h1] idmap] _. apply noerr_bind; [apply cw_set_fails_loop_ne|]. intros a2 _.
  assert ((U32_MAX <? n_nstates n2 - 1) = false) as -> by (unfold U32_MAX in *; nia). exact I.
Qed.
End CwLimits.
