(* BwSafe.v — C07 (byte-wise): [bw_safe_b A = true] implies that none of the four search methods
   reaches a UB branch (an out-of-range get_unchecked) on any haystack of bytes. *)
From DV Require Import Model.Base Model.Nfa Model.BwBuild Model.BwSearch Model.Api Model.Cert.
From Coq Require Import ZifyN ZifyNat ZifyBool.
Local Open Scope N_scope.

Definition noub {T} (r : res T) : Prop := match r with UB _ => False | _ => True end.

Lemma noub_bind {S T} (r : res S) (f : S -> res T) :
  noub r -> (forall a, r = Ok a -> noub (f a)) -> noub (bind r f).
Proof. destruct r; cbn; auto. Qed.

(* the arithmetic heart: XOR with a label stays inside the block *)
Lemma xor_lt (k b c n : N) : c < 2 ^ k -> b < n * 2 ^ k -> N.lxor b c < n * 2 ^ k.
Proof.
  intros Hc Hb.
  assert (Hp : 0 < 2 ^ k) by (apply N.neq_0_lt_0, N.pow_nonzero; lia).
  assert (N.lxor b c / 2 ^ k = b / 2 ^ k) as Hq.
  { rewrite <- !N.shiftr_div_pow2, N.shiftr_lxor, (N.shiftr_div_pow2 c), (N.div_small c) by exact Hc.
    apply N.lxor_0_r. }
  assert (b / 2 ^ k < n) by (apply N.div_lt_upper_bound; lia).
  pose proof (N.div_mod (N.lxor b c) (2 ^ k)). pose proof (N.mod_lt (N.lxor b c) (2 ^ k)). nia.
Qed.

Lemma index_from_get {T} (l : list T) : forall (a : N) (m : nmap T) i,
  nget i (index_from a l m) =
  if (a <=? i) && (i <? a + N.of_nat (length l)) then nth_error l (N.to_nat (i - a)) else nget i m.
Proof.
  induction l as [|x l IH]; intros a m i; cbn [index_from length].
  - replace ((a <=? i) && (i <? a + N.of_nat 0)) with false by lia. reflexivity.
  - rewrite IH. rewrite Nat2N.inj_succ.
    destruct (N.eq_dec i a) as [->|Hne].
    + replace ((N.succ a <=? a) && (a <? N.succ a + N.of_nat (length l))) with false by lia.
      replace ((a <=? a) && (a <? a + N.succ (N.of_nat (length l)))) with true by lia.
      rewrite ngss, N.sub_diag. reflexivity.
    + destruct ((N.succ a <=? i) && (i <? N.succ a + N.of_nat (length l))) eqn:E.
      * replace ((a <=? i) && (i <? a + N.succ (N.of_nat (length l)))) with true by lia.
        replace (N.to_nat (i - a)) with (S (N.to_nat (i - N.succ a))) by lia. reflexivity.
      * replace ((a <=? i) && (i <? a + N.succ (N.of_nat (length l)))) with false by lia.
        apply ngso. exact Hne.
Qed.

Lemma index_list_get {T} (l : list T) i : nget i (index_list l) = nth_error l (N.to_nat i).
Proof.
  unfold index_list. rewrite index_from_get, N.sub_0_r. cbn [N.add].
  destruct ((0 <=? i) && (i <? 0 + N.of_nat (length l))) eqn:E; [reflexivity|].
  rewrite nget_empty. symmetry. apply nth_error_None. lia.
Qed.

Definition good {T} (r : res T) (P : T -> Prop) : Prop :=
  match r with Ok a => P a | UB _ => False | _ => True end.

Lemma good_bind {S T} (r : res S) (f : S -> res T) (P : S -> Prop) (Q : T -> Prop) :
  good r P -> (forall a, P a -> good (f a) Q) -> good (bind r f) Q.
Proof. destruct r; cbn; auto. Qed.

Lemma good_noub {T} (r : res T) P : good r P -> noub r.
Proof. destruct r; cbn; auto. Qed.

Lemma good_weaken {T} (r : res T) (P Q : T -> Prop) : good r P -> (forall a, P a -> Q a) -> good r Q.
Proof. destruct r; cbn; auto. Qed.

Section BwSafe.
Variable V : Type.
Variable A : bw_automaton V.
Hypothesis SAFE : bw_safe_b A = true.

Let sget := bw_sget V A.
Let oget := bw_oget V A.
Let nslots := bw_nslots V A.
Let len := N.of_nat (length (bw_states A)).
Let nout := N.of_nat (length (bw_outputs A)).

Definition bytes (h : list N) : Prop := Forall (fun b => b < 256) h.

Lemma safe_facts :
  0 < len /\ (exists n, len = n * 2 ^ 8)
  /\ (forall i, i < len -> exists st, sget i = Some st /\ bw_slot_ok len nout st = true)
  /\ (forall p, 1 <= p <= nout -> exists o, oget (p - 1) = Some o /\ o_parent o <= nout).
Proof.
  unfold bw_safe_b in SAFE. fold len nout in SAFE. rewrite !andb_true_iff in SAFE.
  destruct SAFE as (((H1 & H2) & H3) & H4). rewrite forallb_forall in H3, H4.
  split; [lia|]. split.
  { exists (len / 256). pose proof (N.div_mod len 256). change (2 ^ 8) with 256. lia. }
  split.
  - intros i Hi. unfold sget, bw_sget. rewrite index_list_get.
    destruct (nth_error (bw_states A) (N.to_nat i)) as [st|] eqn:E.
    + exists st. split; [reflexivity|]. apply H3. eapply nth_error_In. exact E.
    + apply nth_error_None in E. unfold len in Hi. lia.
  - intros p Hp. unfold oget, bw_oget. rewrite index_list_get.
    destruct (nth_error (bw_outputs A) (N.to_nat (p - 1))) as [o|] eqn:E.
    + exists o. split; [reflexivity|]. apply N.leb_le. apply H4. eapply nth_error_In. exact E.
    + apply nth_error_None in E. unfold nout in Hp. lia.
Qed.

Definition slot_good (st : bstate) : Prop :=
  (b_base st = 0 \/ b_base st < len) /\ b_fail st < len /\ b_outpos st <= nout.

Lemma st_at_good s : s < len -> good (st_at sget s) slot_good.
Proof.
  intros Hs. destruct safe_facts as (_ & _ & F & _). destruct (F s Hs) as [st [E Hok]].
  unfold st_at. rewrite E. cbn. unfold bw_slot_ok in Hok. unfold slot_good. lia.
Qed.

Lemma out_at_good p : 1 <= p <= nout -> good (out_at V oget p) (fun o => o_parent o <= nout).
Proof.
  intros Hp. destruct safe_facts as (_ & _ & _ & F). destruct (F p Hp) as [o [E Ho]].
  unfold out_at. rewrite E. cbn. exact Ho.
Qed.

Lemma child_good s c : s < len -> c < 256 ->
  good (bw_child sget s c) (fun r => forall t, r = Some t -> t < len).
Proof.
  intros Hs Hc. unfold bw_child. eapply good_bind; [apply st_at_good; exact Hs|].
  intros st (Hb & _ & _). destruct (b_base st =? 0) eqn:E; [cbn; discriminate|].
  assert (Hlt : N.lxor (b_base st) c < len).
  { destruct safe_facts as (_ & [n Hn] & _). rewrite Hn. apply xor_lt; [exact Hc|]. rewrite <- Hn. lia. }
  eapply good_bind; [apply st_at_good; exact Hlt|]. intros cs _. cbn.
  destruct (b_check cs =? c); intros t Ht; inversion Ht; subst; exact Hlt.
Qed.

Lemma root_lt : ROOT < len.
Proof. destruct safe_facts as (H & _). exact H. Qed.

Lemma next_state_good c : c < 256 -> forall fuel s t, s < len ->
  good (bw_next_state sget fuel s c t) (fun r => fst r < len).
Proof.
  intros Hc. induction fuel as [|fuel IH]; intros s t Hs; [exact I|]. cbn [bw_next_state].
  eapply good_bind; [apply child_good; assumption|]. intros [x|] Hx; [cbn; auto|].
  destruct (s =? ROOT); [cbn; apply root_lt|].
  eapply good_bind; [apply st_at_good; exact Hs|]. intros st (_ & Hf & _). apply IH. exact Hf.
Qed.

Lemma next_state_lm_good c : c < 256 -> forall fuel s t, s < len ->
  good (bw_next_state_lm sget fuel s c t) (fun r => fst r < len).
Proof.
  intros Hc. induction fuel as [|fuel IH]; intros s t Hs; [exact I|]. cbn [bw_next_state_lm].
  eapply good_bind; [apply child_good; assumption|]. intros [x|] Hx; [cbn; auto|].
  destruct (s =? ROOT); [cbn; apply root_lt|].
  eapply good_bind; [apply st_at_good; exact Hs|]. intros st (_ & Hf & _).
  destruct (b_fail st =? DEAD); [cbn; apply root_lt|]. apply IH. exact Hf.
Qed.

(* ---- the scans ---- *)
Lemma bytes_tl c rest : bytes (c :: rest) -> bytes rest.
Proof. intros H; inversion H; assumption. Qed.

Definition find_ok (it : find_it) : Prop := bytes (s_rest (f_src it)).

Lemma find_scan_good : forall rest pulled s t, bytes rest -> s < len ->
  good (find_scan V sget oget nslots rest pulled s t) (fun r => find_ok (snd r)).
Proof.
  induction rest as [|c rest IH]; intros pulled s t Hb Hs; [cbn; constructor|]. inversion Hb; subst.
  cbn [find_scan]. eapply good_bind; [apply next_state_good; eassumption|]. intros [s' t'] Hs'. cbn [fst] in Hs'.
  eapply good_bind; [apply st_at_good; exact Hs'|]. intros st (_ & _ & Ho).
  destruct (b_outpos st =? 0) eqn:E; [apply IH; assumption|].
  eapply good_bind; [apply out_at_good; lia|]. intros o _. cbn. assumption.
Qed.

Definition nos_ok (it : nos_it) : Prop := x_state it < len /\ bytes (s_rest (x_src it)).

Lemma nos_scan_good : forall rest pulled s t, bytes rest -> s < len ->
  good (nos_scan V sget oget nslots rest pulled s t) (fun r => nos_ok (snd r)).
Proof.
  induction rest as [|c rest IH]; intros pulled s t Hb Hs; [cbn; split; [exact Hs|constructor]|]. inversion Hb; subst.
  cbn [nos_scan]. eapply good_bind; [apply next_state_good; eassumption|]. intros [s' t'] Hs'. cbn [fst] in Hs'.
  eapply good_bind; [apply st_at_good; exact Hs'|]. intros st (_ & _ & Ho).
  destruct (b_outpos st =? 0) eqn:E; [apply IH; assumption|].
  eapply good_bind; [apply out_at_good; lia|]. intros o _. cbn. split; assumption.
Qed.

Definition ovl_ok (it : ovl_it) : Prop :=
  v_state it < len /\ v_outpos it <= nout /\ bytes (s_rest (v_src it)).

Lemma ovl_scan_good : forall rest pulled s pos t, bytes rest -> s < len ->
  good (ovl_scan V sget oget nslots rest pulled s pos t) (fun r => ovl_ok (snd r)).
Proof.
  induction rest as [|c rest IH]; intros pulled s pos t Hb Hs.
  - cbn. unfold ovl_ok. cbn. repeat split; [exact Hs|lia|constructor].
  - inversion Hb; subst.
    cbn [ovl_scan]. eapply good_bind; [apply next_state_good; eassumption|]. intros [s' t'] Hs'. cbn [fst] in Hs'.
    eapply good_bind; [apply st_at_good; exact Hs'|]. intros st (_ & _ & Ho).
    destruct (b_outpos st =? 0) eqn:E; [apply IH; assumption|].
    eapply good_bind; [apply out_at_good; lia|]. intros o Hp. cbn. unfold ovl_ok. cbn. auto.
Qed.

Lemma ovl_next_good it : ovl_ok it -> good (ovl_next V sget oget nslots it) (fun r => ovl_ok (snd r)).
Proof.
  intros (H1 & H2 & H3). unfold ovl_next. destruct (v_outpos it =? 0) eqn:E.
  - apply ovl_scan_good; assumption.
  - eapply good_bind; [apply out_at_good; lia|]. intros o Hp. cbn. unfold ovl_ok. cbn. auto.
Qed.

(* drain keeps an invariant of the iterator state *)
Lemma drain_good {IT} (next : IT -> res (option (mtch V) * IT)) (Inv : IT -> Prop) :
  (forall it, Inv it -> good (next it) (fun r => Inv (snd r))) ->
  forall k it, Inv it -> good (drain V next k it) (fun _ => True).
Proof.
  intros Hn. induction k as [|k IH]; intros it Hi; [exact I|]. cbn [drain].
  eapply good_bind; [apply Hn; exact Hi|]. intros [[m|] it'] Hi'; cbn [snd] in Hi'; [|exact I].
  eapply good_bind; [apply IH; exact Hi'|]. intros [ms it''] _. exact I.
Qed.

Lemma triples_noub ms : good (triples V ms) (fun _ => True).
Proof.
  induction ms as [|m ms IH]; [exact I|]. cbn [triples]. unfold triple.
  destruct (N.to_nat (m_length m) <=? m_end m)%nat; cbn [bind]; [|exact I].
  eapply good_bind; [exact IH|]. intros; exact I.
Qed.

Lemma run_iter_good {IT} (next : IT -> res (option (mtch V) * IT)) (Inv : IT -> Prop) k it :
  (forall it, Inv it -> good (next it) (fun r => Inv (snd r))) -> Inv it ->
  noub (run_iter V next k it).
Proof.
  intros Hn Hi. unfold run_iter. eapply good_noub.
  eapply good_bind; [eapply drain_good; eassumption|]. intros [ms it'] _. apply triples_noub.
Qed.

(* ---- leftmost ---- *)
Lemma lm_scan_good : forall rest i s last selfpos t, bytes rest -> s < len -> last <= nout ->
  good (lm_scan sget nslots rest i s last selfpos t)
       (fun r => match fst (fst r) with Some (opos, _) => 1 <= opos <= nout | None => True end).
Proof.
  induction rest as [|c rest IH]; intros i s last selfpos t Hb Hs Hl.
  - cbn. destruct (last =? 0) eqn:E; cbn; [exact I|lia].
  - inversion Hb; subst. cbn [lm_scan].
    eapply good_bind; [apply next_state_lm_good; eassumption|]. intros [s' t'] Hs'. cbn [fst] in Hs'.
    destruct (s' =? ROOT).
    + destruct (last =? 0) eqn:E; [apply IH; assumption|]. cbn. lia.
    + eapply good_bind; [apply st_at_good; exact Hs'|]. intros st (_ & _ & Ho).
      destruct (b_outpos st =? 0); apply IH; assumption.
Qed.

Lemma bytes_skipn n h : bytes h -> bytes (skipn n h).
Proof.
  unfold bytes. rewrite !Forall_forall. intros H x Hx. apply H.
  rewrite <- (firstn_skipn n h). apply in_or_app. right. exact Hx.
Qed.

Lemma lm_next_good it : bytes (l_hay it) ->
  good (lm_next V sget oget nslots it) (fun r => bytes (l_hay (snd r))).
Proof.
  intros Hb. unfold lm_next.
  eapply good_bind; [apply lm_scan_good; [apply bytes_skipn; exact Hb|apply root_lt|lia]|].
  intros [[r pos'] t'] Hr. cbn [fst] in Hr. destruct r as [[opos e]|]; [|cbn; exact Hb].
  eapply good_bind; [apply out_at_good; exact Hr|]. intros o _. cbn. exact Hb.
Qed.

(* ---- C07, byte-wise: no search method reaches an out-of-range unchecked read ---- *)
Theorem bw_search_no_ub_lemma h : bytes h ->
  noub (bw_find_iter V A h) /\ noub (bw_find_overlapping_iter V A h)
  /\ noub (bw_find_overlapping_no_suffix_iter V A h) /\ noub (bw_leftmost_find_iter V A h).
Proof.
  intros Hb. repeat split.
  - unfold bw_find_iter. destruct (is_standard (bw_kind A)); [|exact I].
    apply (run_iter_good _ find_ok); [|exact Hb].
    intros it Hi. unfold find_next. apply find_scan_good; [exact Hi|apply root_lt].
  - unfold bw_find_overlapping_iter. destruct (is_standard (bw_kind A)); [|exact I].
    apply (run_iter_good _ ovl_ok); [apply ovl_next_good|].
    unfold ovl_ok, ovl_init. cbn. repeat split; [apply root_lt|lia|exact Hb].
  - unfold bw_find_overlapping_no_suffix_iter. destruct (is_standard (bw_kind A)); [|exact I].
    apply (run_iter_good _ nos_ok).
    + intros it [H1 H2]. unfold nos_next. apply nos_scan_good; assumption.
    + split; [apply root_lt|exact Hb].
  - unfold bw_leftmost_find_iter. destruct (is_leftmost (bw_kind A)); [|exact I].
    apply (run_iter_good _ (fun it => bytes (l_hay it))); [apply lm_next_good|exact Hb].
Qed.

End BwSafe.
