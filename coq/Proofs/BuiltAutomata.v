(* BuiltAutomata.v — the search theorems for EVERY byte-wise automaton of the standard kind that
   construction returns: the certificate hypothesis of Proofs/BwCert.v is discharged by the builder
   theorem of Proofs/BuildCert.v.  Values need a boolean equality (every built-in value type has
   one); patterns are byte strings of total length below 2^30. *)
From DV Require Import Model.Base Model.Nfa Model.BwBuild Model.BwSearch Model.Api Model.Spec Model.Cert
     Proofs.TrieInv Proofs.BwCert Proofs.BuildCert.
Local Open Scope N_scope.

Section Built.
Variable V : Type.
Variable veqb : V -> V -> bool.
Hypothesis veqb_eq : forall a b, veqb a b = true <-> a = b.
Variables (nfb : N) (pvs : list (list N * V)) (A : bw_automaton V).
Hypothesis pats_bytes : forall p v, In (p, v) pvs -> Forall (fun b => b < 256) p.
Hypothesis pats_size : 4 * total_len V pvs <= U32_MAX - 1.
Hypothesis BUILT : bw_build_with_values V Standard nfb pvs = Ok A.

Lemma veqb_sound : forall a b, veqb a b = true -> a = b.
Proof. intros a b. apply veqb_eq. Qed.
Lemma veqb_refl : forall v, veqb v v = true.
Proof. intros v. apply veqb_eq. reflexivity. Qed.

Theorem built_cert : bw_cert_ok veqb A pvs = true.
Proof. exact (bw_build_cert_lemma V veqb veqb_refl nfb pvs A pats_bytes pats_size BUILT). Qed.

Theorem built_overlapping h : Forall (fun b => b < 256) h ->
  bw_find_overlapping_iter V A h = Ok (spec_overlapping V pvs h).
Proof. exact (bw_overlapping_correct_lemma V veqb veqb_sound A pvs built_cert h). Qed.

Theorem built_find h : Forall (fun b => b < 256) h -> bw_find_iter V A h = Ok (spec_find V pvs h).
Proof. exact (bw_find_correct_lemma V veqb veqb_sound A pvs built_cert h). Qed.

Theorem built_nosuffix h : Forall (fun b => b < 256) h ->
  bw_find_overlapping_no_suffix_iter V A h = Ok (spec_nosuffix V pvs h).
Proof. exact (bw_nosuffix_correct_lemma V veqb veqb_sound A pvs built_cert h). Qed.

Theorem built_find_linear h : Forall (fun b => b < 256) h ->
  exists ms it', drain V (find_next V (bw_sget V A) (bw_oget V A) (bw_nslots V A)) (S (S (length h))) (find_init h) = Ok (ms, it')
                 /\ (N.to_nat (f_ticks it') <= 2 * length h)%nat.
Proof. exact (bw_find_linear_lemma V veqb veqb_sound A pvs built_cert h). Qed.

Theorem built_nosuffix_linear h : Forall (fun b => b < 256) h ->
  exists ms it', drain V (nos_next V (bw_sget V A) (bw_oget V A) (bw_nslots V A)) (S (S (length h))) (nos_init h) = Ok (ms, it')
                 /\ (N.to_nat (x_ticks it') <= 2 * length h)%nat.
Proof. exact (bw_nosuffix_linear_lemma V veqb veqb_sound A pvs built_cert h). Qed.

Theorem built_overlapping_linear h : Forall (fun b => b < 256) h ->
  exists ms it', drain V (ovl_next V (bw_sget V A) (bw_oget V A) (bw_nslots V A))
                       (S (S (length h) * S (length (bw_outputs A)))) (ovl_init h) = Ok (ms, it')
                 /\ (N.to_nat (v_ticks it') <= 2 * length h)%nat.
Proof. exact (bw_overlapping_linear_lemma V veqb veqb_sound A pvs built_cert h). Qed.
End Built.

(* num_free_blocks is a pure space/time knob *)
Theorem built_nfb_irrelevant (V : Type) (veqb : V -> V -> bool) (veqb_eq : forall a b, veqb a b = true <-> a = b)
  nfb1 nfb2 (pvs : list (list N * V)) A1 A2 :
  (forall p v, In (p, v) pvs -> Forall (fun b => b < 256) p) -> 4 * total_len V pvs <= U32_MAX - 1 ->
  bw_build_with_values V Standard nfb1 pvs = Ok A1 -> bw_build_with_values V Standard nfb2 pvs = Ok A2 ->
  forall h, Forall (fun b => b < 256) h ->
    bw_find_overlapping_iter V A1 h = bw_find_overlapping_iter V A2 h
    /\ bw_find_iter V A1 h = bw_find_iter V A2 h
    /\ bw_find_overlapping_no_suffix_iter V A1 h = bw_find_overlapping_no_suffix_iter V A2 h.
Proof.
  intros Hb Hs B1 B2 h Hh.
  rewrite (built_overlapping V veqb veqb_eq nfb1 pvs A1 Hb Hs B1 h Hh), (built_overlapping V veqb veqb_eq nfb2 pvs A2 Hb Hs B2 h Hh).
  rewrite (built_find V veqb veqb_eq nfb1 pvs A1 Hb Hs B1 h Hh), (built_find V veqb veqb_eq nfb2 pvs A2 Hb Hs B2 h Hh).
  rewrite (built_nosuffix V veqb veqb_eq nfb1 pvs A1 Hb Hs B1 h Hh), (built_nosuffix V veqb veqb_eq nfb2 pvs A2 Hb Hs B2 h Hh).
  auto.
Qed.

(* ---- the same for EVERY character-wise automaton of the standard kind ------------------------- *)
From DV Require Import Model.Utf8 Model.CwBuild Model.CwSearch Proofs.Utf8Props Proofs.CwCert Proofs.CwBuildCert.

Section CwBuilt.
Variable V : Type.
Variable veqb : V -> V -> bool.
Hypothesis veqb_eq : forall a b, veqb a b = true <-> a = b.
Variables (nfb : N) (pvs : list (list N * V)) (A : cw_automaton V).
Hypothesis pats_size : 4 * total_len V pvs <= U32_MAX - 1.
Hypothesis BUILT : cw_build_with_values V Standard nfb pvs = Ok A.

Theorem cw_built_cert : cw_cert_ok veqb A pvs = true.
Proof. exact (cw_build_cert_lemma V veqb (veqb_refl V veqb veqb_eq) nfb pvs A pats_size BUILT). Qed.

Theorem cw_built_overlapping cs : Forall scalar cs ->
  cw_find_overlapping_iter V A (encode_utf8 cs) = Ok (map (to_bytes V cs) (spec_overlapping V pvs cs)).
Proof. exact (cw_overlapping_correct_lemma V veqb (veqb_sound V veqb veqb_eq) A pvs cw_built_cert cs). Qed.

Theorem cw_built_find cs : Forall scalar cs ->
  cw_find_iter V A (encode_utf8 cs) = Ok (map (to_bytes V cs) (spec_find V pvs cs)).
Proof. exact (cw_find_correct_lemma V veqb (veqb_sound V veqb veqb_eq) A pvs cw_built_cert cs). Qed.

Theorem cw_built_nosuffix cs : Forall scalar cs ->
  cw_find_overlapping_no_suffix_iter V A (encode_utf8 cs) = Ok (map (to_bytes V cs) (spec_nosuffix V pvs cs)).
Proof. exact (cw_nosuffix_correct_lemma V veqb (veqb_sound V veqb veqb_eq) A pvs cw_built_cert cs). Qed.
End CwBuilt.

Theorem cw_built_nfb_irrelevant (V : Type) (veqb : V -> V -> bool) (veqb_eq : forall a b, veqb a b = true <-> a = b)
  nfb1 nfb2 (pvs : list (list N * V)) A1 A2 :
  4 * total_len V pvs <= U32_MAX - 1 ->
  cw_build_with_values V Standard nfb1 pvs = Ok A1 -> cw_build_with_values V Standard nfb2 pvs = Ok A2 ->
  forall cs, Forall scalar cs ->
    cw_find_overlapping_iter V A1 (encode_utf8 cs) = cw_find_overlapping_iter V A2 (encode_utf8 cs)
    /\ cw_find_iter V A1 (encode_utf8 cs) = cw_find_iter V A2 (encode_utf8 cs)
    /\ cw_find_overlapping_no_suffix_iter V A1 (encode_utf8 cs) = cw_find_overlapping_no_suffix_iter V A2 (encode_utf8 cs).
Proof.
  intros Hs B1 B2 cs Hc.
  rewrite (cw_built_overlapping V veqb veqb_eq nfb1 pvs A1 Hs B1 cs Hc), (cw_built_overlapping V veqb veqb_eq nfb2 pvs A2 Hs B2 cs Hc).
  rewrite (cw_built_find V veqb veqb_eq nfb1 pvs A1 Hs B1 cs Hc), (cw_built_find V veqb veqb_eq nfb2 pvs A2 Hs B2 cs Hc).
  rewrite (cw_built_nosuffix V veqb veqb_eq nfb1 pvs A1 Hs B1 cs Hc), (cw_built_nosuffix V veqb veqb_eq nfb2 pvs A2 Hs B2 cs Hc).
  auto.
Qed.

(* ---- the leftmost kinds ----------------------------------------------------------------------- *)
From DV Require Import Proofs.BuildTrie Proofs.BuildProps Proofs.BuildCertLm Proofs.BwLeftmost Proofs.CwLeftmost Theory.LmfSpec.

Section LmBuilt.
Variable V : Type.
Variable veqb : V -> V -> bool.
Hypothesis veqb_eq : forall a b, veqb a b = true <-> a = b.

Lemma built_valid_bw k nfb (pvs : list (list N * V)) A : 4 * total_len V pvs <= U32_MAX - 1 ->
  bw_build_with_values V k nfb pvs = Ok A -> (forall p v, In (p, v) pvs -> p <> []) /\ NoDup (map fst pvs).
Proof.
  intros Hs H. destruct (bw_build_ok_lemma V k nfb pvs A Hs H) as (Hv & _). apply spec_build_error_none_iff_valid in Hv as (_ & Hne & Hnd).
  split; [|exact Hnd]. intros p v Hin. rewrite Forall_forall in Hne. apply Hne. apply in_map_iff. exists (p, v). auto.
Qed.
Lemma built_valid_cw k nfb (pvs : list (list N * V)) A : 4 * total_len V pvs <= U32_MAX - 1 ->
  cw_build_with_values V k nfb pvs = Ok A -> (forall p v, In (p, v) pvs -> p <> []) /\ NoDup (map fst pvs).
Proof.
  intros Hs H. destruct (cw_build_ok_lemma V k nfb pvs A Hs H) as (Hv & _). apply spec_build_error_none_iff_valid in Hv as (_ & Hne & Hnd).
  split; [|exact Hnd]. intros p v Hin. rewrite Forall_forall in Hne. apply Hne. apply in_map_iff. exists (p, v). auto.
Qed.

Theorem bw_built_lml nfb (pvs : list (list N * V)) A :
  (forall p v, In (p, v) pvs -> Forall (fun b => b < 256) p) -> 4 * total_len V pvs <= U32_MAX - 1 ->
  bw_build_with_values V LeftmostLongest nfb pvs = Ok A ->
  forall h, Forall (fun b => b < 256) h -> bw_leftmost_find_iter V A h = Ok (spec_lml V pvs h).
Proof.
  intros Hb Hs HA h Hh.
  pose proof (bw_build_lm_cert_lemma V veqb (veqb_refl V veqb veqb_eq) LeftmostLongest nfb pvs A ltac:(discriminate) Hb Hs HA) as C.
  exact (bw_leftmost_correct_lemma V veqb (veqb_sound V veqb veqb_eq) A pvs C h Hh).
Qed.

Theorem bw_built_lmf nfb (pvs : list (list N * V)) A :
  (forall p v, In (p, v) pvs -> Forall (fun b => b < 256) p) -> 4 * total_len V pvs <= U32_MAX - 1 ->
  bw_build_with_values V LeftmostFirst nfb pvs = Ok A ->
  forall h, Forall (fun b => b < 256) h -> bw_leftmost_find_iter V A h = Ok (spec_lmf V pvs h).
Proof.
  intros Hb Hs HA h Hh. destruct (built_valid_bw _ _ _ _ Hs HA) as [Hne Hnd].
  pose proof (bw_build_lm_cert_lemma V veqb (veqb_refl V veqb veqb_eq) LeftmostFirst nfb pvs A ltac:(discriminate) Hb Hs HA) as C.
  rewrite (spec_lmf_is_lml_of_effective V pvs Hne Hnd h).
  exact (bw_leftmost_correct_lemma V veqb (veqb_sound V veqb veqb_eq) A (effective V pvs) C h Hh).
Qed.

Theorem cw_built_lml nfb (pvs : list (list N * V)) A : 4 * total_len V pvs <= U32_MAX - 1 ->
  cw_build_with_values V LeftmostLongest nfb pvs = Ok A ->
  forall cs, Forall scalar cs -> cw_leftmost_find_iter V A (encode_utf8 cs) = Ok (map (to_bytes V cs) (spec_lml V pvs cs)).
Proof.
  intros Hs HA cs Hc.
  pose proof (cw_build_lm_cert_lemma V veqb (veqb_refl V veqb veqb_eq) LeftmostLongest nfb pvs A ltac:(discriminate) Hs HA) as C.
  exact (cw_leftmost_correct_lemma V veqb (veqb_sound V veqb veqb_eq) A pvs C cs Hc).
Qed.

Theorem cw_built_lmf nfb (pvs : list (list N * V)) A : 4 * total_len V pvs <= U32_MAX - 1 ->
  cw_build_with_values V LeftmostFirst nfb pvs = Ok A ->
  forall cs, Forall scalar cs -> cw_leftmost_find_iter V A (encode_utf8 cs) = Ok (map (to_bytes V cs) (spec_lmf V pvs cs)).
Proof.
  intros Hs HA cs Hc. destruct (built_valid_cw _ _ _ _ Hs HA) as [Hne Hnd].
  pose proof (cw_build_lm_cert_lemma V veqb (veqb_refl V veqb veqb_eq) LeftmostFirst nfb pvs A ltac:(discriminate) Hs HA) as C.
  rewrite (spec_lmf_is_lml_of_effective V pvs Hne Hnd cs).
  exact (cw_leftmost_correct_lemma V veqb (veqb_sound V veqb veqb_eq) A (effective V pvs) C cs Hc).
Qed.
End LmBuilt.
