(* BuildProps.v — C10: adequacy of the construction specification and the error arms of the model
   that do not need the trie invariant. *)
From DV Require Import Model.Base Model.Nfa Model.Helper Model.BwBuild Model.Utf8 Model.CwBuild Model.Spec
     Proofs.GenAC.
From Coq Require Import ZifyN ZifyNat ZifyBool.
Local Open Scope N_scope.

(* ---- the specification against the property text -------------------------------------------- *)
Lemma existsb_list_eqb p seen : existsb (list_eqb p) seen = true <-> In p seen.
Proof.
  rewrite existsb_exists. split.
  - intros [q [Hq He]]. apply list_eqb_eq in He. subst. exact Hq.
  - intros H. exists p. split; [exact H|]. apply list_eqb_eq. reflexivity.
Qed.

Lemma first_offence_none seen ps :
  first_offence seen ps = None <->
  Forall (fun p => p <> []) ps /\ NoDup ps /\ (forall p, In p ps -> ~ In p seen).
Proof.
  revert seen. induction ps as [|p r IH]; intros seen; cbn [first_offence].
  - split; [intros _; repeat split; try constructor; intros p []|reflexivity].
  - destruct (list_eqb p []) eqn:E1.
    { apply list_eqb_eq in E1. subst p. split; [discriminate|]. intros (H & _). inversion H; congruence. }
    destruct (existsb (list_eqb p) seen) eqn:E2.
    { apply existsb_list_eqb in E2. split; [discriminate|]. intros (_ & _ & H). exfalso. apply (H p); [left; reflexivity|exact E2]. }
    rewrite IH. assert (p <> []) as Hp by (intros ->; cbn in E1; discriminate).
    assert (~ In p seen) as Hns by (intros H; apply existsb_list_eqb in H; congruence).
    split.
    + intros (H1 & H2 & H3). repeat split.
      * constructor; assumption.
      * constructor; [|exact H2]. intros Hin. apply (H3 p Hin). left. reflexivity.
      * intros q [<-|Hq]; [exact Hns|]. intros Hs. apply (H3 q Hq). right. exact Hs.
    + intros (H1 & H2 & H3). inversion H1; subst. inversion H2; subst. repeat split; try assumption.
      intros q Hq [<-|Hs]; [contradiction|]. apply (H3 q); [right; exact Hq|exact Hs].
Qed.

(* construction must succeed exactly on the valid collections: non-empty, no empty pattern, no
   two equal patterns *)
Theorem spec_build_error_none_iff_valid (ps : list (list N)) :
  spec_build_error ps = None <-> ps <> [] /\ Forall (fun p => p <> []) ps /\ NoDup ps.
Proof.
  unfold spec_build_error. destruct ps as [|p r].
  - split; [discriminate|]. intros [H _]. congruence.
  - rewrite first_offence_none. split.
    + intros (H1 & H2 & _). repeat split; [discriminate|assumption|assumption].
    + intros (_ & H1 & H2). repeat split; try assumption. intros q _ [].
Qed.

(* and otherwise the answer is decided by the first offending entry in input order *)
Lemma first_offence_app good : forall seen tl,
  Forall (fun q => q <> []) good -> NoDup good -> (forall q, In q good -> ~ In q seen) ->
  first_offence seen (good ++ tl) = first_offence (rev good ++ seen) tl.
Proof.
  induction good as [|g good IH]; intros seen tl Hg Hn Hs; [reflexivity|].
  inversion Hg; subst. inversion Hn; subst. cbn [app first_offence rev].
  destruct (list_eqb g []) eqn:Eg; [apply list_eqb_eq in Eg; congruence|].
  destruct (existsb (list_eqb g) seen) eqn:Es.
  { apply existsb_list_eqb in Es. exfalso. apply (Hs g); [left; reflexivity|exact Es]. }
  rewrite IH; try assumption.
  - rewrite <- app_assoc. reflexivity.
  - intros q Hq [<-|Hin]; [contradiction|]. apply (Hs q); [right; exact Hq|exact Hin].
Qed.

Theorem spec_build_error_empty_pattern_first (good rest : list (list N)) :
  Forall (fun q => q <> []) good -> NoDup good ->
  spec_build_error (good ++ [] :: rest) = Some InvalidArgument.
Proof.
  intros Hg Hn. unfold spec_build_error.
  destruct (good ++ [] :: rest) eqn:E; [destruct good; discriminate|]. rewrite <- E.
  rewrite first_offence_app; try assumption; [reflexivity|]. intros q _ [].
Qed.

Theorem spec_build_error_repeat_first (good rest : list (list N)) p :
  Forall (fun q => q <> []) good -> NoDup good -> p <> [] -> In p good ->
  spec_build_error (good ++ p :: rest) = Some DuplicatePattern.
Proof.
  intros Hg Hn Hp Hin. unfold spec_build_error.
  destruct (good ++ p :: rest) eqn:E; [destruct good; discriminate|]. rewrite <- E.
  rewrite first_offence_app; try assumption; [|intros q _ []]. cbn [first_offence].
  destruct (list_eqb p []) eqn:E1; [apply list_eqb_eq in E1; congruence|].
  assert (existsb (list_eqb p) (rev good ++ []) = true) as ->; [|reflexivity].
  apply existsb_list_eqb. rewrite app_nil_r. apply -> in_rev. exact Hin.
Qed.

(* the bare-pattern entry point: a position that does not convert to the value type wins *)
Theorem spec_build_error_conversion_first {V} (conv : nat -> option V) (ps : list (list N)) i :
  (i < length ps)%nat -> conv i = None -> spec_build_error_conv V conv ps = Some InvalidConversion.
Proof.
  intros Hi Hc. unfold spec_build_error_conv.
  destruct (forallb (fun i => isSome (conv i)) (seq 0 (length ps))) eqn:E; [|reflexivity].
  rewrite forallb_forall in E. specialize (E i). rewrite Hc in E. cbn in E.
  assert (false = true); [apply E; apply in_seq; lia|discriminate].
Qed.

(* ---- error arms of the model that need no trie invariant ------------------------------------- *)
Section Model.
Variable V : Type.

Lemma add_empty_pattern lb (n : nfa V) v : add V lb n [] v = Err InvalidArgument.
Proof. reflexivity. Qed.

(* an empty collection is rejected, by both builders, for every match kind and setting *)
Theorem bw_build_empty_set k nfb : nfb <> 0 -> bw_build_with_values V k nfb [] = Err InvalidArgument.
Proof.
  intros H. unfold bw_build_with_values. destruct (nfb =? 0) eqn:E; [apply N.eqb_eq in E; contradiction|].
  reflexivity.
Qed.
Theorem cw_build_empty_set k nfb : nfb <> 0 -> cw_build_with_values V k nfb [] = Err InvalidArgument.
Proof.
  intros H. unfold cw_build_with_values. destruct (nfb =? 0) eqn:E; [apply N.eqb_eq in E; contradiction|].
  reflexivity.
Qed.

(* the pattern loop stops at the first error: whatever follows an offending entry is irrelevant *)
Lemma add_all_app lb (n : nfa V) l1 l2 :
  add_all V lb n (l1 ++ l2) = (n1 <- add_all V lb n l1 ;; add_all V lb n1 l2).
Proof.
  revert n; induction l1 as [|[p v] l1 IH]; intros n; cbn [app add_all bind]; [reflexivity|].
  destruct (add V lb n p v); cbn [bind]; try reflexivity. apply IH.
Qed.

Theorem bw_empty_pattern_rejected k nfb good v rest n1 : nfb <> 0 ->
  add_all V (fun _ => 1) (nfa_new V k) good = Ok n1 ->
  bw_build_with_values V k nfb (good ++ ([], v) :: rest) = Err InvalidArgument.
Proof.
  intros H Hg. unfold bw_build_with_values, bw_build_sparse_nfa.
  destruct (nfb =? 0) eqn:E; [apply N.eqb_eq in E; contradiction|].
  rewrite add_all_app, Hg. cbn [bind add_all]. rewrite add_empty_pattern. reflexivity.
Qed.

(* the bare-pattern entry point reports a failed index conversion before looking at any pattern *)
Theorem bw_build_conversion_error conv k nfb ps : nfb <> 0 ->
  enumerate_conv V conv 0 ps = None -> bw_build V conv k nfb ps = Err InvalidConversion.
Proof.
  intros H Hc. unfold bw_build. destruct (nfb =? 0) eqn:E; [apply N.eqb_eq in E; contradiction|].
  rewrite Hc. reflexivity.
Qed.
End Model.
