(* BuildTrie.v — universal builder facts obtained from the trie invariant (TrieInv.v):
     - the pattern loop of both builders answers exactly as the construction specification says
       (first offending entry decides; leftmost-first drops the patterns with a registered proper
       prefix and registers exactly [effective]);
     - the state count the automaton reports is 1 + the number of distinct non-empty prefixes of the
       registered patterns, for every pattern sequence the builder accepts. *)
From DV Require Import Model.Base Model.Nfa Model.Helper Model.BwBuild Model.Utf8 Model.CwBuild Model.Spec
     Proofs.GenAC Proofs.TrieInv.
From Coq Require Import ZifyN ZifyNat ZifyBool.
Local Open Scope N_scope.

Section Spec.
Variable V : Type.

Lemma existsb_ext_mem {X} (f : X -> bool) (l1 l2 : list X) :
  (forall x, In x l1 <-> In x l2) -> existsb f l1 = existsb f l2.
Proof.
  intros H. destruct (existsb f l1) eqn:E1; destruct (existsb f l2) eqn:E2; try reflexivity.
  - apply existsb_exists in E1 as [x [Hx Hf]]. apply H in Hx.
    assert (existsb f l2 = true) by (apply existsb_exists; eauto). congruence.
  - apply existsb_exists in E2 as [x [Hx Hf]]. apply H in Hx.
    assert (existsb f l1 = true) by (apply existsb_exists; eauto). congruence.
Qed.

Lemma first_offence_ext ps : forall s1 s2, (forall q, In q s1 <-> In q s2) -> first_offence s1 ps = first_offence s2 ps.
Proof.
  induction ps as [|p r IH]; intros s1 s2 H; cbn [first_offence]; [reflexivity|].
  rewrite (existsb_ext_mem _ s1 s2 H). destruct (list_eqb p []); [reflexivity|].
  destruct (existsb (list_eqb p) s2); [reflexivity|]. apply IH. intros q. cbn [In]. rewrite H. reflexivity.
Qed.

Lemma effective_go_ext (pvs : list (list N * V)) : forall s1 s2, (forall q, In q s1 <-> In q s2) ->
  effective_go V s1 pvs = effective_go V s2 pvs.
Proof.
  induction pvs as [|[p v] r IH]; intros s1 s2 H; cbn [effective_go]; [reflexivity|].
  rewrite (existsb_ext_mem _ s1 s2 H).
  assert (H' : forall q, In q (s1 ++ [p]) <-> In q (s2 ++ [p])) by (intros q; rewrite !in_app_iff, H; reflexivity).
  rewrite (IH _ _ H'). reflexivity.
Qed.

(* the registration function of TrieInv.v against the specifications of Spec.v *)
Definition registered (lf : bool) (seen : list (list N)) (pvs : list (list N * V)) : list (list N * V) :=
  if lf then effective_go V seen pvs else pvs.

Lemma shadow_test_agree (outs : list (list N * V)) sh seen p :
  (forall q, In q seen <-> In q (map fst outs) \/ In q sh) ->
  (forall q, In q sh -> proper_in V outs q) ->
  existsb (fun q => is_prefix q p && negb (list_eqb q p)) seen = proper_in_b V outs p.
Proof.
  intros Hm Hsh.
  destruct (proper_in_b V outs p) eqn:E.
  - apply proper_in_b_iff in E as (r1 & r2 & v & -> & Hr & Hin). apply existsb_exists. exists r1. split.
    + apply Hm. left. apply in_map_iff. exists (r1, v). auto.
    + apply andb_true_iff. split; [apply is_prefix_iff_ex; exists r2; reflexivity|].
      destruct (list_eqb r1 (r1 ++ r2)) eqn:E; [|reflexivity]. apply list_eqb_eq in E.
      rewrite <- (app_nil_r r1) in E at 1. apply app_inv_head in E. congruence.
  - destruct (existsb _ seen) eqn:E2; [|reflexivity]. exfalso.
    apply existsb_exists in E2 as [q [Hq Hpp]]. apply andb_true_iff in Hpp as [H1 H2].
    apply is_prefix_iff_ex in H1 as [r ->].
    assert (Hr : r <> []).
    { intros ->. rewrite app_nil_r in H2. assert (list_eqb q q = true) by (apply list_eqb_eq; reflexivity).
      rewrite H in H2. discriminate. }
    assert (proper_in V outs (q ++ r)) as Hp.
    { apply Hm in Hq as [Hq|Hq].
      - apply in_map_iff in Hq as [[q' v] [<- Hin]]. exists q', r, v. auto.
      - destruct (Hsh q Hq) as (r1 & r2 & v & -> & Hr2 & Hin). exists r1, (r2 ++ r), v.
        split; [rewrite app_assoc; reflexivity|]. split; [|exact Hin]. intros E'. apply app_eq_nil in E' as [E' _]. congruence. }
    apply proper_in_b_iff in Hp. congruence.
Qed.

Lemma reg_spec : forall pvs lf outs sh seen,
  (forall q, In q seen <-> In q (map fst outs) \/ In q sh) ->
  (forall q, In q sh -> proper_in V outs q) ->
  (lf = false -> sh = []) ->
  match first_offence seen (map fst pvs) with
  | Some e => reg V lf outs sh pvs = inl e
  | None => exists sh', reg V lf outs sh pvs = inr (outs ++ registered lf seen pvs, sh')
  end.
Proof.
  induction pvs as [|[p v] r IH]; intros lf outs sh seen Hm Hsh Hlf; cbn [map fst first_offence reg].
  - exists sh. unfold registered. destruct lf; cbn [effective_go]; rewrite app_nil_r; reflexivity.
  - destruct (list_eqb p []); [reflexivity|].
    assert (Hd : existsb (list_eqb p) seen = existsb (list_eqb p) (map fst outs) || existsb (list_eqb p) sh).
    { rewrite <- existsb_app. apply existsb_ext_mem. intros q. rewrite in_app_iff. apply Hm. }
    rewrite Hd. destruct (existsb (list_eqb p) (map fst outs) || existsb (list_eqb p) sh); [reflexivity|].
    rewrite (first_offence_ext (map fst r) (p :: seen) (seen ++ [p]))
      by (intros q; rewrite in_app_iff; cbn [In]; tauto).
    destruct lf.
    + cbn [andb]. unfold registered. cbn [effective_go]. rewrite (shadow_test_agree outs sh seen p Hm Hsh).
      destruct (proper_in_b V outs p) eqn:Ep.
      * (* dropped *)
        apply (IH true outs (p :: sh) (seen ++ [p])).
        -- intros q. rewrite in_app_iff. cbn [In]. rewrite Hm. tauto.
        -- intros q [<-|Hq]; [apply proper_in_b_iff; exact Ep|exact (Hsh q Hq)].
        -- discriminate.
      * specialize (IH true (outs ++ [(p, v)]) sh (seen ++ [p])).
        replace (outs ++ (p, v) :: effective_go V (seen ++ [p]) r)
          with ((outs ++ [(p, v)]) ++ registered true (seen ++ [p]) r) by (rewrite <- app_assoc; reflexivity).
        apply IH.
        -- intros q. rewrite map_app, !in_app_iff. cbn [map fst In]. rewrite Hm. tauto.
        -- intros q Hq. apply proper_in_mono. exact (Hsh q Hq).
        -- discriminate.
    + cbn [andb]. unfold registered. specialize (IH false (outs ++ [(p, v)]) sh (seen ++ [p])).
      replace (outs ++ (p, v) :: r) with ((outs ++ [(p, v)]) ++ registered false (seen ++ [p]) r)
        by (rewrite <- app_assoc; reflexivity).
      apply IH.
      * intros q. rewrite map_app, !in_app_iff. cbn [map fst In]. rewrite Hm. tauto.
      * intros q Hq. apply proper_in_mono. exact (Hsh q Hq).
      * exact Hlf.
Qed.

(* ---- the state count ----------------------------------------------------------------------- *)
Lemma in_prefixes_of_conv : forall (p u w : list N), u <> [] -> p = u ++ w -> In u (prefixes_of p).
Proof.
  induction p as [|x p IH]; intros u w Hu E.
  - symmetry in E. apply app_eq_nil in E as [E _]. congruence.
  - destruct u as [|y u]; [congruence|]. cbn [app] in E. inversion E; subst. cbn [prefixes_of].
    destruct u as [|z u]; [left; reflexivity|right]. apply in_map. apply (IH (z :: u) w); [discriminate|reflexivity].
Qed.

Lemma in_prefixes_of' p u : In u (prefixes_of p) -> u <> [] /\ exists w, p = u ++ w.
Proof.
  revert u. induction p as [|x p IH]; intros u; cbn [prefixes_of]; [intros []|].
  intros [<-|H]; [split; [discriminate|exists p; reflexivity]|].
  apply in_map_iff in H as [u' [<- H]]. apply IH in H as [_ [w ->]]. split; [discriminate|exists w; reflexivity].
Qed.

Lemma existsb_eqb_in' (x : list N) l : existsb (list_eqb x) l = true <-> In x l.
Proof. apply existsb_list_eqb_iff. Qed.

Lemma dedup_in' l x : In x (dedup l) <-> In x l.
Proof.
  induction l as [|y l IH]; cbn [dedup]; [reflexivity|].
  destruct (existsb (list_eqb y) l) eqn:E.
  - rewrite IH. cbn [In]. split; [auto|]. intros [<-|H]; [apply existsb_eqb_in'; exact E|exact H].
  - cbn [In]. rewrite IH. reflexivity.
Qed.

Lemma dedup_nodup' l : NoDup (dedup l).
Proof.
  induction l as [|y l IH]; cbn [dedup]; [constructor|].
  destruct (existsb (list_eqb y) l) eqn:E; [exact IH|]. constructor; [|exact IH].
  rewrite dedup_in'. intros H. apply existsb_eqb_in' in H. congruence.
Qed.

Lemma nodup_same_length {X} (l1 l2 : list X) : NoDup l1 -> NoDup l2 -> (forall x, In x l1 <-> In x l2) -> length l1 = length l2.
Proof.
  intros H1 H2 H. apply Nat.le_antisymm; apply NoDup_incl_length; try assumption; intros x Hx; apply H; exact Hx.
Qed.

Variable lbytes : N -> N.

Theorem TI_count (n : nfa V) outs paths : TI V lbytes n outs [] paths ->
  n_nstates n = 2 + N.of_nat (length (distinct_nonempty_prefixes V outs))
  /\ (forall u, In u (distinct_nonempty_prefixes V outs) <-> exists t, 2 <= t /\ twalk V n ROOT u = Some t).
Proof.
  intros T.
  assert (Hnd : NoDup paths).
  { apply NoDup_nth_error. intros i j Hi E. destruct (nth_error paths i) as [p|] eqn:Ei; [|apply nth_error_None in Ei; lia].
    symmetry in E. pose proof (ti_fwd _ _ _ _ _ _ T i p Ei) as H1. pose proof (ti_fwd _ _ _ _ _ _ T j p E) as H2.
    rewrite H1 in H2. inversion H2. lia. }
  assert (Hmem : forall u, In u paths <-> In u (distinct_nonempty_prefixes V outs)).
  { intros u. rewrite (ti_mem _ _ _ _ _ _ T). unfold distinct_nonempty_prefixes, covered. rewrite dedup_in', in_flat_map. split.
    - intros [Hu [Hc|(q & v & Hin & [w ->])]]; [apply pref_nil_r in Hc; congruence|].
      exists (u ++ w, v). split; [exact Hin|]. cbn [fst]. apply (in_prefixes_of_conv _ u w Hu eq_refl).
    - intros [[q v] [Hin Hp]]. cbn [fst] in Hp. apply in_prefixes_of' in Hp as [Hu [w ->]].
      split; [exact Hu|]. right. exists (u ++ w), v. split; [exact Hin|exists w; reflexivity]. }
  split.
  - rewrite <- (ti_cnt _ _ _ _ _ _ T). pose proof (nodup_same_length _ _ Hnd (dedup_nodup' _) Hmem) as Hl. unfold distinct_nonempty_prefixes in *. lia.
  - intros u. rewrite <- Hmem. split.
    + intros Hin. apply In_nth_error in Hin as [i Hi]. exists (N.of_nat i + 2). split; [lia|exact (ti_fwd _ _ _ _ _ _ T i u Hi)].
    + intros [t [Ht Hw]]. destruct (ti_bwd _ _ _ _ _ _ T u t Hw) as [[_ ->]|[_ Hn]]; [unfold ROOT in Ht; lia|].
      eapply nth_error_In. exact Hn.
Qed.

End Spec.

(* ---- the rest of the NFA construction does not create states -------------------------------- *)
Section Finish.
Variable V : Type.

Ltac bstep H :=
  match type of H with
  | bind ?e _ = Ok _ => let E := fresh "E" in destruct e eqn:E; cbn [bind] in H; try discriminate
  end.

Lemma set_fail_ns n i f n' : set_fail V n i f = Ok n' -> n_nstates n' = n_nstates n.
Proof. unfold set_fail. intros H. bstep H. inversion H. reflexivity. Qed.

Lemma fails_edges_ns : forall es n sid sf q n' q',
  fails_edges V n sid sf es q = Ok (n', q') -> n_nstates n' = n_nstates n.
Proof.
  induction es as [|[c ch] es IH]; intros n sid sf q n' q' H; cbn [fails_edges] in H.
  - inversion H. reflexivity.
  - bstep H. destruct (ch =? sid); [discriminate|]. bstep H. apply IH in H. rewrite H. eapply set_fail_ns. exact E0.
Qed.

Lemma fails_bfs_ns : forall fuel n pending done n' q,
  fails_bfs V fuel n pending done = Ok (n', q) -> n_nstates n' = n_nstates n.
Proof.
  induction fuel as [|fuel IH]; intros n pending done n' q H; destruct pending as [|sid pending]; cbn [fails_bfs] in H;
    try (inversion H; reflexivity); try discriminate.
  bstep H. bstep H. destruct a0 as [n1 news]. apply IH in H. rewrite H. eapply fails_edges_ns. exact E0.
Qed.

Lemma fails_edges_lm_ns : forall es n sid sf q n' q',
  fails_edges_lm V n sid sf es q = Ok (n', q') -> n_nstates n' = n_nstates n.
Proof.
  induction es as [|[c ch] es IH]; intros n sid sf q n' q' H; cbn [fails_edges_lm] in H.
  - inversion H. reflexivity.
  - bstep H. destruct (ch =? sid); [discriminate|]. bstep H. apply IH in H. rewrite H. eapply set_fail_ns. exact E0.
Qed.

Lemma fails_bfs_lm_ns : forall fuel n pending done n' q,
  fails_bfs_lm V fuel n pending done = Ok (n', q) -> n_nstates n' = n_nstates n.
Proof.
  induction fuel as [|fuel IH]; intros n pending done n' q H; destruct pending as [|sid pending]; cbn [fails_bfs_lm] in H;
    try (inversion H; reflexivity); try discriminate.
  bstep H. bstep H. bstep H. destruct a1 as [n1 news]. apply IH in H. rewrite H.
  apply fails_edges_lm_ns in E1. rewrite E1. eapply set_fail_ns. exact E0.
Qed.

Lemma outputs_loop_ns : forall q n n', outputs_loop V n q = Ok n' -> n_nstates n' = n_nstates n.
Proof.
  induction q as [|sid q IH]; intros n n' H; cbn [outputs_loop] in H; [inversion H; reflexivity|].
  bstep H. destruct (n_fail a =? sid); [discriminate|]. bstep H.
  destruct (n_output a) as [[v len]|].
  - destruct (U32_MAX <? _); [discriminate|]. apply IH in H. rewrite H. reflexivity.
  - apply IH in H. rewrite H. reflexivity.
Qed.

Lemma finish_nfa_ns n n' : finish_nfa V n = Ok n' -> n_nstates n' = n_nstates n.
Proof.
  unfold finish_nfa. intros H. bstep H. destruct a as [n1 q].
  assert (n_nstates n1 = n_nstates n) as <-.
  { destruct (n_kind n); unfold build_fails, build_fails_leftmost in E; bstep E;
      [eapply fails_bfs_ns|eapply fails_bfs_lm_ns|eapply fails_bfs_lm_ns]; exact E. }
  unfold build_outputs in H. destruct q as [|q0 q]; [discriminate|]. destruct (q0 =? ROOT); [discriminate|].
  eapply outputs_loop_ns. exact H.
Qed.
End Finish.

(* ---- both builders ------------------------------------------------------------------------- *)
Section Builders.
Variable V : Type.

Ltac bstep H :=
  match type of H with
  | bind ?e _ = Ok _ => let E := fresh "E" in destruct e eqn:E; cbn [bind] in H; try discriminate
  end.

(* what the pattern loop registers: everything, or under leftmost-first the effective patterns *)
Definition regd (k : mkind) (pvs : list (list N * V)) : list (list N * V) :=
  registered V (is_leftmost_first k) [] pvs.

Lemma regd_lmf pvs : regd LeftmostFirst pvs = effective V pvs.
Proof. reflexivity. Qed.
Lemma regd_other k pvs : k <> LeftmostFirst -> regd k pvs = pvs.
Proof. destruct k; try reflexivity. congruence. Qed.

Lemma regd_nonempty k pvs : pvs <> [] -> regd k pvs <> [].
Proof.
  intros H. unfold regd, registered. destruct (is_leftmost_first k); [|exact H].
  destruct pvs as [|[p v] r]; [congruence|]. cbn. discriminate.
Qed.

Lemma in_total_len (pvs : list (list N * V)) p v : In (p, v) pvs -> N.of_nat (length p) <= total_len V pvs.
Proof.
  induction pvs as [|[q w] r IH]; [intros []|]. unfold total_len. cbn [fold_right fst]. fold (total_len V r).
  intros [E|H]; [inversion E; subst; lia|]. specialize (IH H). lia.
Qed.

Section Loop.
Variable lbytes : N -> N.
Hypothesis lb_pos : forall c, 1 <= lbytes c.
Hypothesis lb_le4 : forall c, lbytes c <= 4.

Lemma plen_le4 p : plen lbytes p <= 4 * N.of_nat (length p).
Proof.
  induction p as [|c p IH]; [cbn; lia|]. change (c :: p) with ([c] ++ p). rewrite (plen_app lbytes lb_pos).
  unfold plen at 1. cbn [fold_left length app]. pose proof (lb_le4 c). lia.
Qed.

(* the pattern loop, for every pattern sequence within the documented size limit *)
Theorem adds_spec k pvs : 4 * total_len V pvs <= U32_MAX - 1 ->
  match first_offence [] (map fst pvs) with
  | Some e => adds V lbytes (nfa_new V k) pvs = Err e
  | None => exists n paths, adds V lbytes (nfa_new V k) pvs = Ok n /\ TI V lbytes n (regd k pvs) [] paths
                            /\ n_kind n = k /\ n_len n = N.of_nat (length (regd k pvs)) /\ n_outputs n = []
  end.
Proof.
  intros Hsz.
  assert (Hsh : forall q, In q (n_shadowed (nfa_new V k)) -> lmf V (nfa_new V k) = true /\ proper_in V [] q) by (intros q []).
  assert (Hpl : forall p v, In (p, v) pvs -> plen lbytes p <= U32_MAX).
  { intros p v Hin. pose proof (plen_le4 p). pose proof (in_total_len pvs p v Hin). unfold U32_MAX in *. lia. }
  assert (Hs2 : n_nstates (nfa_new V k) + total_len V pvs <= U32_MAX + 1) by (cbn [n_nstates nfa_new]; unfold U32_MAX in *; lia).
  pose proof (adds_reg V lbytes lb_pos pvs (nfa_new V k) [] [] (TI_new V lbytes lb_pos k) Hsh Hpl Hs2) as A.
  assert (Hm : forall q : list N, In q [] <-> In q (map fst (@nil (list N * V))) \/ In q []) by (intros q; cbn; tauto).
  pose proof (reg_spec V pvs (is_leftmost_first k) [] [] [] Hm (fun q (H : In q []) => match H with end) (fun _ => eq_refl)) as R.
  change (lmf V (nfa_new V k)) with (is_leftmost_first k) in A. cbn [n_shadowed nfa_new] in A.
  destruct (first_offence [] (map fst pvs)) as [e|].
  - rewrite R in A. exact A.
  - destruct R as [sh' R]. rewrite R in A. cbn [app] in A.
    destruct A as (n & paths & A1 & A2 & _ & A4 & A5 & A6 & _). exists n, paths.
    split; [exact A1|]. split; [exact A2|]. split; [exact A4|]. split; [cbn [n_len nfa_new length] in A6; unfold regd; lia|exact A5].
Qed.
End Loop.

Lemma add_all_adds lb (n : nfa V) pvs : add_all V lb n pvs = adds V lb n pvs.
Proof.
  revert n; induction pvs as [|[p v] r IH]; intros n; cbn [add_all adds]; [reflexivity|].
  destruct (add V lb n p v); cbn [bind]; auto.
Qed.

Lemma cw_add_all_adds : forall pvs (n : nfa V) f pr,
  match cw_add_all V n f pr pvs with
  | Ok (n', _, _) => adds V len_utf8 n pvs = Ok n'
  | Err e => adds V len_utf8 n pvs = Err e
  | Panic t => adds V len_utf8 n pvs = Panic t
  | UB t => adds V len_utf8 n pvs = UB t
  | OutOfFuel => adds V len_utf8 n pvs = OutOfFuel
  end.
Proof.
  induction pvs as [|[p v] r IH]; intros n f pr; cbn [cw_add_all adds]; [reflexivity|].
  destruct (add V len_utf8 n p v) as [n'| | | |]; cbn [bind]; try reflexivity. apply IH.
Qed.

Lemma len_utf8_pos c : 1 <= len_utf8 c.
Proof. unfold len_utf8. destruct (c <? 128); [lia|]. destruct (c <? 2048); [lia|]. destruct (c <? 65536); lia. Qed.
Lemma len_utf8_le4 c : len_utf8 c <= 4.
Proof. unfold len_utf8. destruct (c <? 128); [lia|]. destruct (c <? 2048); [lia|]. destruct (c <? 65536); lia. Qed.

Lemma one_pos : forall c : N, 1 <= (fun _ : N => 1) c.
Proof. intros c. cbn. lia. Qed.
Lemma one_le4 : forall c : N, (fun _ : N => 1) c <= 4.
Proof. intros c. cbn. lia. Qed.

(* ---- C10: the error arms, for every pattern sequence --------------------------------------- *)
Theorem bw_build_error_lemma k nfb pvs e : nfb <> 0 -> 4 * total_len V pvs <= U32_MAX - 1 ->
  spec_build_error (map fst pvs) = Some e -> bw_build_with_values V k nfb pvs = Err e.
Proof.
  intros Hn Hsz Hs. unfold bw_build_with_values. apply N.eqb_neq in Hn. rewrite Hn.
  unfold bw_build_sparse_nfa. rewrite add_all_adds.
  pose proof (adds_spec (fun _ => 1) one_pos one_le4 k pvs Hsz) as A.
  unfold spec_build_error in Hs. destruct pvs as [|pv r].
  - cbn in Hs. inversion Hs. reflexivity.
  - cbn [map] in Hs, A. rewrite Hs in A. rewrite A. reflexivity.
Qed.

Theorem cw_build_error_lemma k nfb pvs e : nfb <> 0 -> 4 * total_len V pvs <= U32_MAX - 1 ->
  spec_build_error (map fst pvs) = Some e -> cw_build_with_values V k nfb pvs = Err e.
Proof.
  intros Hn Hsz Hs. unfold cw_build_with_values. apply N.eqb_neq in Hn. rewrite Hn.
  pose proof (adds_spec len_utf8 len_utf8_pos len_utf8_le4 k pvs Hsz) as A.
  pose proof (cw_add_all_adds pvs (nfa_new V k) {| fq_map := nempty; fq_len := 0 |} []) as C.
  unfold spec_build_error in Hs. destruct pvs as [|pv r].
  - cbn in Hs. inversion Hs. reflexivity.
  - cbn [map] in Hs, A. rewrite Hs in A. rewrite A in C.
    destruct (cw_add_all V (nfa_new V k) _ [] (pv :: r)) as [[[n' f'] pr']| | | |]; try discriminate.
    inversion C. reflexivity.
Qed.

(* ---- C15 / C04: accepted sequences --------------------------------------------------------- *)
Theorem bw_build_ok_lemma k nfb pvs A : 4 * total_len V pvs <= U32_MAX - 1 ->
  bw_build_with_values V k nfb pvs = Ok A ->
  spec_build_error (map fst pvs) = None
  /\ bw_num_states A = 1 + N.of_nat (length (distinct_nonempty_prefixes V (regd k pvs)))
  /\ bw_kind A = k.
Proof.
  intros Hsz H. unfold bw_build_with_values in H. destruct (nfb =? 0); [discriminate|].
  bstep H. bstep H. destruct (U32_MAX <? n_nstates a - 1); [discriminate|]. inversion H; subst A; clear H. cbn [bw_num_states bw_kind].
  unfold bw_build_sparse_nfa in E. rewrite add_all_adds in E. bstep E.
  destruct (n_len a1 =? 0) eqn:El; [discriminate|]. destruct (U24_MAX <? n_len a1); [discriminate|].
  apply finish_nfa_ns in E.
  pose proof (adds_spec (fun _ => 1) one_pos one_le4 k pvs Hsz) as S.
  assert (Hne : pvs <> []) by (intros ->; cbn in E1; inversion E1; subst a1; cbn in El; discriminate).
  assert (Hsp : spec_build_error (map fst pvs) = first_offence [] (map fst pvs)) by (destruct pvs; [congruence|reflexivity]).
  rewrite Hsp. destruct (first_offence [] (map fst pvs)) as [e|]; [rewrite E1 in S; discriminate|].
  destruct S as (n & paths & S1 & S2 & _). rewrite E1 in S1. inversion S1; subst n.
  split; [reflexivity|]. split; [|reflexivity].
  destruct (TI_count V (fun _ => 1) a1 _ paths S2) as [Hc _]. lia.
Qed.

Theorem cw_build_ok_lemma k nfb pvs A : 4 * total_len V pvs <= U32_MAX - 1 ->
  cw_build_with_values V k nfb pvs = Ok A ->
  spec_build_error (map fst pvs) = None
  /\ cw_num_states A = 1 + N.of_nat (length (distinct_nonempty_prefixes V (regd k pvs)))
  /\ cw_kind A = k.
Proof.
  intros Hsz H. unfold cw_build_with_values in H. destruct (nfb =? 0); [discriminate|].
  pose proof (cw_add_all_adds pvs (nfa_new V k) {| fq_map := nempty; fq_len := 0 |} []) as C.
  bstep H. destruct a as [[n0 f] pr]. destruct (n_len n0 =? 0) eqn:El; [discriminate|].
  bstep H. bstep H. destruct a0 as [[a0 h0] bl]. bstep H. destruct a1 as [[a1 h1] idmap]. bstep H.
  destruct (U32_MAX <? n_nstates a - 1); [discriminate|]. inversion H; subst A; clear H. cbn [cw_num_states cw_kind].
  apply finish_nfa_ns in E0.
  pose proof (adds_spec len_utf8 len_utf8_pos len_utf8_le4 k pvs Hsz) as S.
  assert (Hne : pvs <> []) by (intros ->; cbn in C; inversion C; subst n0; cbn in El; discriminate).
  assert (Hsp : spec_build_error (map fst pvs) = first_offence [] (map fst pvs)) by (destruct pvs; [congruence|reflexivity]).
  rewrite Hsp. destruct (first_offence [] (map fst pvs)) as [e|]; [rewrite C in S; discriminate|].
  destruct S as (n & paths & S1 & S2 & _). rewrite C in S1. inversion S1; subst n.
  split; [reflexivity|]. split; [|reflexivity].
  destruct (TI_count V len_utf8 n0 _ paths S2) as [Hc _]. lia.
Qed.

(* ---- C04: what the pattern loop registers under leftmost-first ----------------------------- *)
Lemma plen_one p : plen (fun _ => 1) p = N.of_nat (length p).
Proof.
  unfold plen. assert (forall a, fold_left (fun acc _ : N => acc + 1) p a = a + N.of_nat (length p)) as H.
  { induction p as [|c p IH]; intros a; cbn [fold_left length]; [lia|]. rewrite IH. lia. }
  rewrite H. lia.
Qed.

Theorem lmf_loop_lemma pvs : 4 * total_len V pvs <= U32_MAX - 1 -> spec_build_error (map fst pvs) = None ->
  exists n, add_all V (fun _ => 1) (nfa_new V LeftmostFirst) pvs = Ok n
    /\ (forall p t st, twalk V n ROOT p = Some t -> nget t (n_states n) = Some st ->
          match n_output st with
          | Some (v, l) => In (p, v) (effective V pvs) /\ l = N.of_nat (length p)
          | None => forall v, ~ In (p, v) (effective V pvs)
          end)
    /\ (forall p v, In (p, v) (effective V pvs) -> exists t, twalk V n ROOT p = Some t).
Proof.
  intros Hsz Hs. rewrite add_all_adds.
  pose proof (adds_spec (fun _ => 1) one_pos one_le4 LeftmostFirst pvs Hsz) as A.
  destruct pvs as [|pv r]; [discriminate|]. unfold spec_build_error in Hs. cbn [map] in Hs, A. rewrite Hs in A.
  destruct A as (n & paths & A1 & A2 & _). exists n. split; [exact A1|]. rewrite regd_lmf in A2. split.
  - intros p t st Hw Hg. pose proof (ti_out _ _ _ _ _ _ A2 p t st Hw Hg) as Ho. rewrite plen_one in Ho. exact Ho.
  - intros p v Hin. apply (ti_sub _ _ _ _ _ _ A2) in Hin. apply In_nth_error in Hin as [i Hi].
    eexists. exact (ti_fwd _ _ _ _ _ _ A2 i p Hi).
Qed.

End Builders.
