(* CwDaRefine.v — charwise/builder.rs build_double_array, for EVERY trie: the double array is an
   isomorphic copy of the NFA over the mapped codes.  The CHECK field of a slot holds the index of
   the parent, so a slot answers a code with a child exactly when the NFA state has the edge whose
   label maps to that code: vacant slots keep CHECK = DEAD, which is no state's index. *)
From DV Require Import Model.Base Model.Nfa Model.Helper Model.Utf8 Model.CwBuild Model.CwSearch Model.Spec Model.Cert
     Proofs.GenAC Proofs.TrieInv Proofs.BwSafe Proofs.BuildSafe Proofs.CwBuildSafe Proofs.HelperFlagsG Proofs.NfaFails Proofs.DaRefine.
From Coq Require Import ZifyN ZifyNat ZifyBool.
Local Open Scope N_scope.

Ltac bstep H :=
  match type of H with
  | bind ?e _ = Ok _ => let E := fresh "E" in destruct e eqn:E; cbn [bind] in H; try discriminate
  end.

Lemma xor_div_k k b c : c < 2 ^ k -> N.lxor b c / 2 ^ k = b / 2 ^ k.
Proof.
  intros Hc. rewrite <- !N.shiftr_div_pow2, N.shiftr_lxor, (N.shiftr_div_pow2 c), (N.div_small c) by exact Hc. apply N.lxor_0_r.
Qed.

Lemma lxor_lt_k k x y : x < 2 ^ k -> y < 2 ^ k -> N.lxor x y < 2 ^ k.
Proof.
  intros Hx Hy. assert (Hp : 2 ^ k <> 0) by (apply N.pow_nonzero; discriminate).
  assert (N.lxor x y / 2 ^ k = 0) as Hz.
  { rewrite <- !N.shiftr_div_pow2, N.shiftr_lxor, !N.shiftr_div_pow2, (N.div_small x), (N.div_small y) by assumption. reflexivity. }
  apply N.div_small_iff in Hz; assumption.
Qed.

Lemma nseq_nth_c : forall k a i, (i < k)%nat -> nth_error (nseq a k) i = Some (a + N.of_nat i).
Proof.
  induction k as [|k IH]; intros a i Hi; [lia|]. cbn [nseq]. destruct i as [|i]; [cbn; f_equal; lia|].
  cbn [nth_error]. rewrite IH by lia. f_equal. lia.
Qed.

Lemma nseq_mem_c : forall k a x, a <= x < a + N.of_nat k -> In x (nseq a k).
Proof.
  induction k as [|k IH]; intros a x H; [lia|]. cbn [nseq In]. destruct (N.eq_dec a x) as [->|Hne]; [left; reflexivity|right]. apply IH. lia.
Qed.

Definition cslot (a : carr) (i : N) : cstate :=
  match nget i (ca_map a) with Some s => s | None => cstate_default end.
Definition cb (a : carr) (i : N) : N := c_base (cslot a i).
Definition cck (a : carr) (i : N) : N := c_check (cslot a i).

Lemma ca_upd_slot a i f a' : ca_upd a i f = Ok a' ->
  i < ca_len a /\ ca_len a' = ca_len a /\ forall j, cslot a' j = if j =? i then f (cslot a i) else cslot a j.
Proof.
  unfold ca_upd, ca_get. destruct (i <? ca_len a) eqn:E; [|discriminate]. cbn [bind]. intros H. inversion H; subst a'; clear H.
  split; [lia|]. split; [reflexivity|]. intros j. unfold cslot. cbn [ca_map]. destruct (j =? i) eqn:Ej.
  - apply N.eqb_eq in Ej. subst j. rewrite ngss. reflexivity.
  - apply N.eqb_neq in Ej. rewrite ngso by exact Ej. reflexivity.
Qed.

(* ---- map_edges ------------------------------------------------------------------------------- *)
Lemma code_insert_iff x l y : In y (code_insert x l) <-> y = x \/ In y l.
Proof.
  induction l as [|z r IH]; cbn [code_insert In].
  - split; [intros [->|[]]; auto|intros [->|[]]; auto].
  - destruct (fst x <? fst z); cbn [In]; [split; [intros [->|H]; auto|intros [->|H]; auto]|].
    rewrite IH. split; [intros [->|[->|H]]; auto|intros [->|[->|H]]; auto].
Qed.

Lemma map_edges_iff tbl : forall es l, map_edges tbl es = Ok l ->
  forall code ch, In (code, ch) l <-> exists c, In (c, ch) es /\ code_of tbl c = Some code.
Proof.
  induction es as [|[c0 ch0] r IH]; intros l H code ch; cbn [map_edges] in H.
  - inversion H; subst. split; [intros []|intros (c & [] & _)].
  - destruct (code_of tbl c0) as [m0|] eqn:E0; [|discriminate]. bstep H. inversion H; subst l. rewrite code_insert_iff, (IH a eq_refl). split.
    + intros [Ex|(c & Hc & Hm)]; [inversion Ex; subst; exists c0; split; [left; reflexivity|exact E0]|exists c; split; [right; exact Hc|exact Hm]].
    + intros (c & [Ex|Hc] & Hm); [inversion Ex; subst; left; congruence|right; eauto].
Qed.

Lemma code_insert_keys x l : forall y, In y (map fst (code_insert x l)) <-> y = fst x \/ In y (map fst l).
Proof.
  intros y. rewrite !in_map_iff. split.
  - intros [e [<- He]]. apply code_insert_iff in He as [->|He]; [left; reflexivity|right; exists e; auto].
  - intros [->|[e [<- He]]]; [exists x; split; [reflexivity|apply code_insert_iff; left; reflexivity]|exists e; split; [reflexivity|apply code_insert_iff; right; exact He]].
Qed.

Lemma code_insert_nodup x l : ~ In (fst x) (map fst l) -> NoDup (map fst l) -> NoDup (map fst (code_insert x l)).
Proof.
  induction l as [|z r IH]; intros Hx Hn; cbn [code_insert map] in *; [constructor; [intros []|constructor]|].
  apply NoDup_cons_iff in Hn as [Hz Hn]. destruct (fst x <? fst z); cbn [map].
  - constructor; [exact Hx|constructor; assumption].
  - constructor; [|apply IH; [intros H; apply Hx; right; exact H|exact Hn]].
    intros H. apply code_insert_keys in H as [E|H]; [apply Hx; left; exact E|contradiction].
Qed.

Lemma map_edges_nodup tbl : (forall c1 c2 m, code_of tbl c1 = Some m -> code_of tbl c2 = Some m -> c1 = c2) ->
  forall es l, NoDup (map fst es) -> map_edges tbl es = Ok l -> NoDup (map fst l).
Proof.
  intros Hinj. induction es as [|[c0 ch0] r IH]; intros l Hn H; cbn [map_edges] in H; [inversion H; constructor|].
  destruct (code_of tbl c0) as [m0|] eqn:E0; [|discriminate]. bstep H. inversion H; subst l.
  cbn [map fst] in Hn. apply NoDup_cons_iff in Hn as [Hc0 Hn]. apply code_insert_nodup; [|exact (IH a Hn eq_refl)].
  cbn [fst]. intros Hin. apply in_map_iff in Hin as [[m ch] [Em Hin]]. cbn [fst] in Em. subst m.
  apply (map_edges_iff tbl r a E m0 ch) in Hin as (c & Hc & Hm). rewrite (Hinj c0 c m0 E0 Hm) in Hc0.
  apply Hc0. apply in_map_iff. exists (c, ch). auto.
Qed.

(* ---- find_base ---------------------------------------------------------------------------------- *)
Section G.
Variable k : N.
Hypothesis k_pos : 1 <= k.
Notation bl := (2 ^ k).
Lemma bl_pos : 0 < bl. Proof. apply N.neq_0_lt_0, N.pow_nonzero. discriminate. Qed.
Notation HW := (HW bl).

Lemma cw_all_free_inv h base : forall es, cw_all_free h base es = Ok true ->
  forall c ch, In (c, ch) es -> act h (N.lxor base c) /\ ui h (N.lxor base c) = false.
Proof.
  induction es as [|[c0 ch0] r IH]; intros H c ch Hin; [destruct Hin|]. cbn [cw_all_free] in H. bstep H.
  destruct (is_used_index_inv _ _ _ E) as [A ->]. destruct (ui h (N.lxor base c0)) eqn:Eu; [discriminate|].
  destruct Hin as [E'|Hin]; [inversion E'; subst; auto|exact (IH H c ch Hin)].
Qed.

Lemma cw_find_base_loop_inv : forall fuel h cur c0 es b, cw_find_base_loop fuel h cur c0 es = Ok (Some b) ->
  b <> 0 /\ forall c ch, In (c, ch) es -> act h (N.lxor b c) /\ ui h (N.lxor b c) = false.
Proof.
  induction fuel as [|fuel IH]; intros h cur c0 es b H; destruct cur as [idx|]; cbn [cw_find_base_loop] in H; try discriminate.
  bstep H. bstep H. destruct a0 as [b'|]; [|exact (IH _ _ _ _ _ H)]. inversion H; subst b'; clear H.
  unfold verify_base in E0. bstep E0. destruct a0; [|discriminate]. destruct (N.lxor idx c0 =? 0) eqn:Ez; [discriminate|].
  inversion E0; subst b. apply N.eqb_neq in Ez. split; [exact Ez|]. exact (cw_all_free_inv _ _ _ E1).
Qed.

Lemma cw_find_base_inv a h es base : cw_find_base a h es = Ok base ->
  es <> [] /\ base <> 0 /\
  ((forall c ch, In (c, ch) es -> act h (N.lxor base c) /\ ui h (N.lxor base c) = false)
   \/ exists c0 ch0 r, es = (c0, ch0) :: r /\ base = N.lxor (ca_len a) c0).
Proof.
  unfold cw_find_base. destruct es as [|[c0 ch0] r]; [discriminate|]. intros H. bstep H. split; [discriminate|]. destruct a0 as [b|].
  - inversion H; subst b. destruct (cw_find_base_loop_inv _ _ _ _ _ _ E) as [A B]. split; [exact A|]. left. exact B.
  - destruct (U32_MAX <? ca_len a); [discriminate|]. destruct (N.lxor (ca_len a) c0 =? 0) eqn:Ez; [discriminate|]. inversion H; subst base.
    apply N.eqb_neq in Ez. split; [exact Ez|]. right. eauto.
Qed.

(* ================================================================================================= *)
Section Refine.
Variable V : Type.
Variable n : nfa V.
Variable tbl : nmap N.
Notation edges_of := (edges_of V n).
Notation node := (node V n).

Hypothesis edges_child : forall s c t, node s -> (In (c, t) (edges_of s) <-> tchild V n s c = Some t).
Hypothesis child_node : forall s c t, node s -> tchild V n s c = Some t -> node t /\ t <> ROOT /\ t <> DEAD /\ t < n_nstates n.
Hypothesis uniq_parent : forall p1 p2 c1 c2 t, node p1 -> node p2 ->
  tchild V n p1 c1 = Some t -> tchild V n p2 c2 = Some t -> p1 = p2 /\ c1 = c2.
Hypothesis node_lt : forall t, node t -> t < n_nstates n.
Hypothesis edges_nodup : forall s, node s -> NoDup (map fst (edges_of s)).
Hypothesis code_lt : forall c m, code_of tbl c = Some m -> m < bl.
Hypothesis code_inj : forall c1 c2 m, code_of tbl c1 = Some m -> code_of tbl c2 = Some m -> c1 = c2.

Record CDI (a : carr) (h : helper) (idmap : nmap N) (stack proc : list N) : Prop := {
  cd_hw : HW h;
  cd_cp : ca_len a = h_nblocks h * bl;
  cd_nodup : NoDup (proc ++ stack);
  cd_node : forall t, In t (proc ++ stack) -> node t;
  cd_par : forall t, In t (proc ++ stack) -> t <> ROOT -> exists p c, In p proc /\ tchild V n p c = Some t;
  cd_chi : forall s c t, In s proc -> tchild V n s c = Some t -> In t (proc ++ stack);
  cd_im : forall s, (exists i, nget s idmap = Some i) <-> In s (proc ++ stack);
  cd_im_root : nget ROOT idmap = Some ROOT;
  cd_im_inj : forall s1 s2 i, nget s1 idmap = Some i -> nget s2 idmap = Some i -> s1 = s2;
  cd_im_rng : forall s i, nget s idmap = Some i -> i < ca_len a /\ (s <> ROOT -> 2 <= i);
  cd_ui : forall i, act h i -> (ui h i = true <-> i = 0 \/ i = 1 \/ exists s, nget s idmap = Some i);
  cd_arr : forall s i, In s proc -> nget s idmap = Some i ->
             (edges_of s = [] -> cb a i = 0) /\
             (edges_of s <> [] -> cb a i <> 0 /\ cb a i < ca_len a /\
                forall c ch, In (c, ch) (edges_of s) -> exists m, code_of tbl c = Some m /\ nget ch idmap = Some (N.lxor (cb a i) m));
  cd_arr_stack : forall s i, In s stack -> nget s idmap = Some i -> cb a i = 0;
  cd_chk : forall t j, t <> ROOT -> nget t idmap = Some j ->
             exists p ip c, In p proc /\ nget p idmap = Some ip /\ tchild V n p c = Some t /\ cck a j = ip;
  cd_vac : forall j, (forall t, t <> ROOT -> nget t idmap <> Some j) -> cck a j = DEAD;
  cd_vacb : forall j, (forall s, nget s idmap <> Some j) -> cb a j = 0
}.

Lemma CDI_leaf a h idmap sid stack proc : CDI a h idmap (sid :: stack) proc -> edges_of sid = [] ->
  CDI a h idmap stack (sid :: proc).
Proof.
  intros D He.
  assert (Hperm : forall t, In t ((sid :: proc) ++ stack) <-> In t (proc ++ sid :: stack)).
  { intros t. cbn [app In]. rewrite !in_app_iff. cbn [In]. tauto. }
  assert (Hsid : node sid) by (apply (cd_node _ _ _ _ _ D); apply in_app_iff; right; left; reflexivity).
  constructor.
  - exact (cd_hw _ _ _ _ _ D).
  - exact (cd_cp _ _ _ _ _ D).
  - pose proof (cd_nodup _ _ _ _ _ D) as H. apply NoDup_remove in H as [H1 H2]. cbn [app]. constructor; assumption.
  - intros t Ht. apply (cd_node _ _ _ _ _ D). apply Hperm. exact Ht.
  - intros t Ht Hr. destruct (cd_par _ _ _ _ _ D t (proj1 (Hperm t) Ht) Hr) as (p & c & Hp & Hc). exists p, c. split; [right; exact Hp|exact Hc].
  - intros s c t [<-|Hs] Hc.
    + exfalso. apply (edges_child sid c t Hsid) in Hc. rewrite He in Hc. destruct Hc.
    + apply Hperm. exact (cd_chi _ _ _ _ _ D s c t Hs Hc).
  - intros s. rewrite (cd_im _ _ _ _ _ D s). symmetry. apply Hperm.
  - exact (cd_im_root _ _ _ _ _ D).
  - exact (cd_im_inj _ _ _ _ _ D).
  - exact (cd_im_rng _ _ _ _ _ D).
  - exact (cd_ui _ _ _ _ _ D).
  - intros s i [<-|Hs] Hi; [|exact (cd_arr _ _ _ _ _ D s i Hs Hi)]. split; [|congruence].
    intros _. apply (cd_arr_stack _ _ _ _ _ D sid i); [left; reflexivity|exact Hi].
  - intros s i Hs Hi. apply (cd_arr_stack _ _ _ _ _ D s i); [right; exact Hs|exact Hi].
  - intros t j Hr Hj. destruct (cd_chk _ _ _ _ _ D t j Hr Hj) as (p & ip & c & Hp & Hip & Hc & Hk). exists p, ip, c. split; [right; exact Hp|auto].
  - exact (cd_vac _ _ _ _ _ D).
  - exact (cd_vacb _ _ _ _ _ D).
Qed.

Lemma act_block_k h i : HW h -> act h i -> active_block_start h <= i / bl < h_nblocks h.
Proof.
  intros (B & _) [L U]. unfold active_index_start, active_index_end in *. rewrite B in *. pose proof bl_pos. split.
  - apply N.div_le_lower_bound; lia.
  - apply N.div_lt_upper_bound; lia.
Qed.
Lemma block_act_k h i : HW h -> active_block_start h <= i / bl < h_nblocks h -> act h i.
Proof.
  intros (B & _) [L U]. unfold act, active_index_start, active_index_end. rewrite B. pose proof bl_pos.
  pose proof (N.div_mod i bl ltac:(lia)). pose proof (N.mod_lt i bl ltac:(lia)). split; nia.
Qed.

Lemma CDI_extend a h idmap stack proc a1 h1 : CDI a h idmap stack proc -> cw_extend_array bl a h = Ok (a1, h1) ->
  CDI a1 h1 idmap stack proc /\ ca_len a1 = ca_len a + bl /\ (forall j, cslot a1 j = cslot a j)
  /\ (forall j, ca_len a <= j < ca_len a + bl -> act h1 j /\ ui h1 j = false).
Proof.
  intros D H. pose proof (cd_hw _ _ _ _ _ D) as W. pose proof (cd_cp _ _ _ _ _ D) as Hcp. pose proof bl_pos as Hbl.
  unfold cw_extend_array in H. destruct (_ <? ca_len a); [discriminate|]. bstep H. inversion H; subst a1 h1; clear H.
  destruct (push_block_fl bl Hbl h a0 W E) as (W1 & Hnb & Hfl).
  assert (Hnfb : h_nfb a0 = h_nfb h) by (destruct (push_block_meta _ _ E) as (_ & _ & X & _); exact X).
  assert (Hend : active_index_end h = ca_len a) by (unfold active_index_end; destruct W as (Wb & _); rewrite Wb; lia).
  assert (Hsl : forall j, cslot {| ca_map := ca_map a; ca_len := ca_len a + bl |} j = cslot a j) by (intros j; reflexivity).
  assert (Hend2 : 2 <= active_index_end h).
  { rewrite Hend. destruct (cd_im_rng _ _ _ _ _ D ROOT ROOT (cd_im_root _ _ _ _ _ D)) as [Hr _]. unfold ROOT in Hr.
    pose proof (bl_ge2 k k_pos). rewrite Hcp in *. destruct (h_nblocks h); [lia|nia]. }
  split; [|split; [reflexivity|split; [exact Hsl|]]].
  - constructor.
    + exact W1.
    + cbn [ca_len]. rewrite Hnb. lia.
    + exact (cd_nodup _ _ _ _ _ D).
    + exact (cd_node _ _ _ _ _ D).
    + exact (cd_par _ _ _ _ _ D).
    + exact (cd_chi _ _ _ _ _ D).
    + exact (cd_im _ _ _ _ _ D).
    + exact (cd_im_root _ _ _ _ _ D).
    + exact (cd_im_inj _ _ _ _ _ D).
    + intros s i Hi. destruct (cd_im_rng _ _ _ _ _ D s i Hi) as [A B]. cbn [ca_len]. split; [lia|exact B].
    + intros i Ai. destruct (Hfl i Ai) as [Fn Fo]. destruct (N.lt_ge_cases i (active_index_end h)) as [Hi|Hi].
      * destruct (Fo Hi) as (Aj & U & _). rewrite U. exact (cd_ui _ _ _ _ _ D i Aj).
      * destruct (Fn Hi) as [U _]. rewrite U. split; [discriminate|]. intros [->|[->|[s Hs]]]; try lia.
        destruct (cd_im_rng _ _ _ _ _ D s i Hs) as [A _]. lia.
    + intros s i Hs Hi. destruct (cd_arr _ _ _ _ _ D s i Hs Hi) as [A0 A1]. unfold cb. rewrite Hsl. split; [exact A0|].
      intros Hne. destruct (A1 Hne) as (B1 & B2 & B3). split; [exact B1|]. split; [cbn [ca_len]; unfold cb in B2; lia|exact B3].
    + intros s i Hs Hi. unfold cb. rewrite Hsl. exact (cd_arr_stack _ _ _ _ _ D s i Hs Hi).
    + intros t j Hr Hj. unfold cck. rewrite Hsl. exact (cd_chk _ _ _ _ _ D t j Hr Hj).
    + intros j Hj. unfold cck. rewrite Hsl. exact (cd_vac _ _ _ _ _ D j Hj).
    + intros j Hj. unfold cb. rewrite Hsl. exact (cd_vacb _ _ _ _ _ D j Hj).
  - intros j Hj. assert (Aj : act a0 j).
    { apply (block_act_k a0 j W1). unfold active_block_start. rewrite Hnb, Hnfb. rewrite Hcp in Hj. split.
      - apply N.div_le_lower_bound; [lia|]. apply N.le_trans with (bl * h_nblocks h); [|rewrite N.mul_comm; lia].
        apply N.mul_le_mono_l. destruct W as (_ & _ & Wd). lia.
      - apply N.div_lt_upper_bound; [lia|]. rewrite N.mul_add_distr_l, N.mul_1_r, N.mul_comm. lia. }
    split; [exact Aj|]. destruct (Hfl j Aj) as [Fn _]. apply Fn. lia.
Qed.

(* ---- place_children ------------------------------------------------------------------------------ *)
Lemma cw_place_children_spec : forall es a h idmap nst base sidx stack a' h' idmap' stack',
  HW h -> NoDup (map fst es) -> NoDup (map snd es) ->
  cw_place_children a h idmap nst base sidx es stack = Ok (a', h', idmap', stack') ->
  hmeta h h' /\ ca_len a' = ca_len a /\ stack' = rev (map snd es) ++ stack /\
  (forall c ch, In (c, ch) es -> act h (N.lxor base c) /\ ui h (N.lxor base c) = false /\ N.lxor base c < ca_len a /\ ch < nst) /\
  (forall j, act h j -> ui h' j = (in_slots base es j || ui h j)) /\
  (forall j, cslot a' j = if in_slots base es j then cset_check sidx (cslot a j) else cslot a j) /\
  (forall c ch, In (c, ch) es -> nget ch idmap' = Some (N.lxor base c)) /\
  (forall s, ~ In s (map snd es) -> nget s idmap' = nget s idmap).
Proof.
  pose proof bl_pos as Hbl.
  induction es as [|[c0 ch0] es IH]; intros a h idmap nst base sidx stack a' h' idmap' stack' W Hk Hv H; cbn [cw_place_children] in H.
  - inversion H; subst. split; [apply hmeta_refl|]. split; [reflexivity|]. split; [reflexivity|].
    split; [intros c ch []|]. split; [intros j _; reflexivity|]. split; [intros j; reflexivity|]. split; [intros c ch []|auto].
  - bstep H. bstep H. destruct (ch0 <? nst) eqn:Ent; [|discriminate].
    cbn [map fst snd] in Hk, Hv. apply NoDup_cons_iff in Hk as [Hk0 Hk]. apply NoDup_cons_iff in Hv as [Hv0 Hv].
    destruct (use_index_fl bl Hbl h _ a0 W E) as (A0 & U0 & M0 & F0).
    destruct (ca_upd_slot _ _ _ _ E0) as (Lt0 & L0 & S0).
    destruct (IH a1 a0 (nset ch0 (N.lxor base c0) idmap) nst base sidx (ch0 :: stack) a' h' idmap' stack'
                 (HW_meta bl _ _ W M0) Hk Hv H) as (M1 & L1 & St1 & P1 & F1 & B1 & I1 & J1).
    assert (Hdist : forall c ch, In (c, ch) es -> N.lxor base c <> N.lxor base c0).
    { intros c ch Hin E'. apply lxor_inj_r in E'. subst c. apply Hk0. apply in_map_iff. exists (c0, ch). auto. }
    assert (Hs0 : in_slots base es (N.lxor base c0) = false).
    { destruct (in_slots base es (N.lxor base c0)) eqn:Ei; [|reflexivity]. apply in_slots_iff in Ei as (c & ch & Hin & E2).
      exfalso. symmetry in E2. exact (Hdist c ch Hin E2). }
    split; [exact (hmeta_trans _ _ _ M0 M1)|]. split; [congruence|]. split.
    { rewrite St1. cbn [map snd rev]. rewrite <- app_assoc. reflexivity. }
    split.
    { intros c ch [E'|Hin].
      - inversion E'; subst c ch. split; [exact A0|]. split; [exact U0|]. split; [exact Lt0|lia].
      - destruct (P1 c ch Hin) as (Q1 & Q2 & Q3 & Q4). assert (Ah : act h (N.lxor base c)) by (apply (act_meta h a0 _ M0); exact Q1).
        split; [exact Ah|]. destruct (F0 _ Ah) as [Ux _]. rewrite Ux in Q2.
        assert ((N.lxor base c =? N.lxor base c0) = false) as Ex by (apply N.eqb_neq; exact (Hdist c ch Hin)). rewrite Ex in Q2.
        split; [exact Q2|]. split; [lia|exact Q4]. }
    split.
    { intros j Aj. destruct (F0 j Aj) as [U _]. rewrite (F1 j (proj2 (act_meta h a0 j M0) Aj)), U.
      unfold in_slots. cbn [existsb fst]. destruct (existsb _ es); destruct (j =? N.lxor base c0); reflexivity. }
    split.
    { intros j. rewrite B1, S0. unfold in_slots at 2. cbn [existsb fst]. destruct (j =? N.lxor base c0) eqn:Ej.
      - apply N.eqb_eq in Ej. subst j. rewrite Hs0. reflexivity.
      - cbn [orb]. reflexivity. }
    split.
    { intros c ch [E'|Hin]; [|exact (I1 c ch Hin)]. inversion E'; subst c ch. rewrite (J1 ch0 Hv0). apply ngss. }
    { intros s Hs. cbn [map snd In] in Hs. rewrite (J1 s ltac:(tauto)). apply ngso. intros ->. tauto. }
Qed.

Lemma map_edges_total : forall es l, map_edges tbl es = Ok l ->
  forall c ch, In (c, ch) es -> exists m, code_of tbl c = Some m /\ In (m, ch) l.
Proof.
  induction es as [|[c0 ch0] r IH]; intros l H c ch Hin; [destruct Hin|]. cbn [map_edges] in H.
  destruct (code_of tbl c0) as [m0|] eqn:E0; [|discriminate]. bstep H. inversion H; subst l. destruct Hin as [Ex|Hin].
  - inversion Ex; subst. exists m0. split; [exact E0|apply code_insert_iff; left; reflexivity].
  - destruct (IH a eq_refl c ch Hin) as (m & Hm & Hl). exists m. split; [exact Hm|apply code_insert_iff; right; exact Hl].
Qed.

(* ---- a state popped from the stack that has edges --------------------------------------------- *)
Lemma CDI_node a1 h1 idmap sid stack proc mapped base sidx a2 h2 idmap2 stack2 a3 :
  CDI a1 h1 idmap (sid :: stack) proc ->
  edges_of sid <> [] -> nget sid idmap = Some sidx -> base <> 0 -> base < ca_len a1 ->
  map_edges tbl (edges_of sid) = Ok mapped ->
  cw_place_children a1 h1 idmap (n_nstates n) base sidx mapped stack = Ok (a2, h2, idmap2, stack2) ->
  ca_upd a2 sidx (cset_base base) = Ok a3 ->
  CDI a3 h2 idmap2 stack2 (sid :: proc).
Proof.
  intros D Hes Hsidx Hb0 Hbl Hmap Hpl Hsb.
  set (es := edges_of sid) in *. set (chs := map snd mapped).
  pose proof (cd_hw _ _ _ _ _ D) as W.
  assert (Hsin : In sid (proc ++ sid :: stack)) by (apply in_app_iff; right; left; reflexivity).
  assert (Nsid : node sid) by (apply (cd_node _ _ _ _ _ D); exact Hsin).
  assert (Fes : forall c ch, In (c, ch) es <-> tchild V n sid c = Some ch) by (intros c ch; apply edges_child; exact Nsid).
  pose proof (edges_nodup sid Nsid) as Hk0. fold es in Hk0.
  pose proof (map_edges_nodup tbl code_inj es mapped Hk0 Hmap) as Hk.
  pose proof (map_edges_iff tbl es mapped Hmap) as Hmi.
  assert (Hchs : forall ch, In ch chs <-> exists c, In (c, ch) es).
  { intros ch. unfold chs. rewrite in_map_iff. split.
    - intros [[m ch'] [E Hin]]. cbn [snd] in E. subst ch'. apply Hmi in Hin as (c & Hc & _). eauto.
    - intros [c Hc]. destruct (map_edges_total es mapped Hmap c ch Hc) as (m & _ & Hl). exists (m, ch). auto. }
  assert (Hv : NoDup chs).
  { unfold chs. apply nodup_map_in; [|apply NoDup_map_inv in Hk; exact Hk].
    intros [m1 t1] [m2 t2] H1 H2 E. cbn [snd] in E. subst t2. apply Hmi in H1 as (c1 & A1 & B1). apply Hmi in H2 as (c2 & A2 & B2).
    apply Fes in A1, A2. destruct (uniq_parent sid sid c1 c2 t1 Nsid Nsid A1 A2) as [_ ->]. congruence. }
  assert (Hchild : forall ch, In ch chs -> exists c, In (c, ch) es /\ node ch /\ ch <> ROOT /\ ~ In ch (proc ++ sid :: stack)).
  { intros ch Hin. apply Hchs in Hin as [c Hin]. exists c. split; [exact Hin|].
    apply Fes in Hin. destruct (child_node sid c ch Nsid Hin) as (Nc & Hr & _). split; [exact Nc|]. split; [exact Hr|].
    intros Hp. destruct (cd_par _ _ _ _ _ D ch Hp Hr) as (p & c' & Hpp & Hc').
    assert (Np : node p) by (apply (cd_node _ _ _ _ _ D); apply in_app_iff; left; exact Hpp).
    destruct (uniq_parent p sid c' c ch Np Nsid Hc' Hin) as [-> _].
    pose proof (cd_nodup _ _ _ _ _ D) as Hnd. apply NoDup_remove_2 in Hnd. apply Hnd. apply in_app_iff. left. exact Hpp. }
  destruct (cw_place_children_spec mapped a1 h1 idmap (n_nstates n) base sidx stack a2 h2 idmap2 stack2 W Hk Hv Hpl)
    as (M2 & L2 & St2 & P2 & F2 & B2 & I2 & J2).
  pose proof (HW_meta bl _ _ W M2) as W2.
  destruct (ca_upd_slot _ _ _ _ Hsb) as (Ls & L3 & S3).
  assert (Hsid_nin : ~ In sid chs).
  { intros Hin. destruct (Hchild sid Hin) as (_ & _ & _ & _ & Hn). exact (Hn Hsin). }
  assert (Hsidx2 : nget sid idmap2 = Some sidx) by (rewrite (J2 sid Hsid_nin); exact Hsidx).
  assert (Hslot_occ : forall j, in_slots base mapped j = true -> act h1 j /\ ui h1 j = false /\ j < ca_len a1 /\ 2 <= j /\ forall s, nget s idmap <> Some j).
  { intros j Hj. apply in_slots_iff in Hj as (c & ch & Hin & ->). destruct (P2 c ch Hin) as (Q1 & Q2 & Q3 & _).
    split; [exact Q1|]. split; [exact Q2|]. split; [exact Q3|].
    assert (Hnu : ~ (N.lxor base c = 0 \/ N.lxor base c = 1 \/ exists s, nget s idmap = Some (N.lxor base c))).
    { intros Hx. apply (cd_ui _ _ _ _ _ D _ Q1) in Hx. congruence. }
    split; [lia|]. intros s Hs. apply Hnu. right. right. eauto. }
  assert (Hsidx_ns : in_slots base mapped sidx = false).
  { destruct (in_slots base mapped sidx) eqn:E; [|reflexivity]. destruct (Hslot_occ sidx E) as (_ & _ & _ & _ & Hn). exfalso. exact (Hn sid Hsidx). }
  assert (Hcb3 : forall j, cb a3 j = if j =? sidx then base else cb a1 j).
  { intros j. unfold cb at 1. rewrite S3. destruct (j =? sidx) eqn:E; [reflexivity|]. rewrite B2. destruct (in_slots base mapped j); reflexivity. }
  assert (Hck3 : forall j, cck a3 j = if in_slots base mapped j then sidx else cck a1 j).
  { intros j. unfold cck at 1. rewrite S3. destruct (j =? sidx) eqn:E.
    - apply N.eqb_eq in E. subst j. rewrite Hsidx_ns. cbn. rewrite B2, Hsidx_ns. reflexivity.
    - rewrite B2. destruct (in_slots base mapped j); reflexivity. }
  assert (Him2 : forall s i, nget s idmap2 = Some i <-> (nget s idmap = Some i /\ ~ In s chs) \/ (exists m, In (m, s) mapped /\ i = N.lxor base m)).
  { intros s i. destruct (in_dec N.eq_dec s chs) as [Hin|Hin].
    - assert (Hm : exists m, In (m, s) mapped) by (unfold chs in Hin; apply in_map_iff in Hin as [[m s'] [E Hm]]; cbn [snd] in E; subst s'; eauto).
      destruct Hm as [m Hm]. rewrite (I2 m s Hm). split.
      + intros E. inversion E. right. exists m. auto.
      + intros [[_ Hx]|(m' & Hm' & ->)]; [contradiction|]. f_equal. f_equal.
        apply Hmi in Hm as (c & A1 & B1). apply Hmi in Hm' as (c' & A2 & B2'). apply Fes in A1, A2.
        destruct (uniq_parent sid sid c c' s Nsid Nsid A1 A2) as [_ ->]. congruence.
    - rewrite (J2 s Hin). split; [intros E; left; auto|]. intros [[E _]|(m & Hm & _)]; [exact E|].
      exfalso. apply Hin. apply in_map_iff. exists (m, s). auto. }
  assert (Hold_placed : forall s i, nget s idmap = Some i -> ~ In s chs).
  { intros s i Hi Hin. destruct (Hchild s Hin) as (_ & _ & _ & _ & Hn). apply Hn. apply (cd_im _ _ _ _ _ D). eauto. }
  assert (Hperm : forall t, In t ((sid :: proc) ++ stack2) <-> In t (proc ++ sid :: stack) \/ In t chs).
  { intros t. rewrite St2. cbn [app In]. rewrite !in_app_iff. cbn [In]. rewrite <- in_rev. fold chs. tauto. }
  assert (Hnew_slot : forall m ch, In (m, ch) mapped -> in_slots base mapped (N.lxor base m) = true) by (intros m ch Hm; apply in_slots_iff; eauto).
  assert (Hsid_proc : ~ In sid proc).
  { intros Hp. pose proof (cd_nodup _ _ _ _ _ D) as Hnd. apply NoDup_remove_2 in Hnd. apply Hnd. apply in_app_iff. left. exact Hp. }
  constructor.
  - exact W2.
  - rewrite L3, L2. destruct M2 as (_ & _ & _ & ->). exact (cd_cp _ _ _ _ _ D).
  - rewrite St2. cbn [app]. pose proof (cd_nodup _ _ _ _ _ D) as Hnd. apply NoDup_remove in Hnd as [Hnd Hnsid].
    constructor.
    + intros Hin. apply in_app_iff in Hin as [Hin|Hin]; [apply Hnsid; apply in_app_iff; left; exact Hin|].
      apply in_app_iff in Hin as [Hin|Hin]; [apply Hsid_nin; apply in_rev; exact Hin|apply Hnsid; apply in_app_iff; right; exact Hin].
    + destruct (nodup_app_elim _ _ Hnd) as (Hp & Hst & Hdj). apply nodup_app_intro. split; [exact Hp|]. split.
      * apply nodup_app_intro. split; [apply NoDup_rev; exact Hv|]. split; [exact Hst|].
        intros x Hx Hy. apply in_rev in Hx. destruct (Hchild x Hx) as (_ & _ & _ & _ & Hn). apply Hn. apply in_app_iff. right. right. exact Hy.
      * intros x Hx Hy. apply in_app_iff in Hy as [Hy|Hy].
        -- apply in_rev in Hy. destruct (Hchild x Hy) as (_ & _ & _ & _ & Hn). apply Hn. apply in_app_iff. left. exact Hx.
        -- exact (Hdj x Hx Hy).
  - intros t Ht. apply Hperm in Ht as [Ht|Ht]; [exact (cd_node _ _ _ _ _ D t Ht)|]. destruct (Hchild t Ht) as (_ & _ & Nt & _). exact Nt.
  - intros t Ht Hr. apply Hperm in Ht as [Ht|Ht].
    + destruct (cd_par _ _ _ _ _ D t Ht Hr) as (p & c & Hp & Hc). exists p, c. split; [right; exact Hp|exact Hc].
    + destruct (Hchild t Ht) as (c & Hc & _). exists sid, c. split; [left; reflexivity|apply Fes; exact Hc].
  - intros s c t [<-|Hs] Hc; apply Hperm.
    + right. apply Hchs. exists c. apply Fes. exact Hc.
    + left. exact (cd_chi _ _ _ _ _ D s c t Hs Hc).
  - intros s. rewrite Hperm. split.
    + intros [i Hi]. apply Him2 in Hi as [[Hi _]|(m & Hm & _)]; [left; apply (cd_im _ _ _ _ _ D); eauto|right; apply in_map_iff; exists (m, s); auto].
    + intros [Hp|Hc].
      * apply (cd_im _ _ _ _ _ D) in Hp as [i Hi]. exists i. apply Him2. left. split; [exact Hi|exact (Hold_placed s i Hi)].
      * unfold chs in Hc. apply in_map_iff in Hc as [[m s'] [E Hm]]. cbn [snd] in E. subst s'. exists (N.lxor base m). apply Him2. right. eauto.
  - apply Him2. left. split; [exact (cd_im_root _ _ _ _ _ D)|exact (Hold_placed _ _ (cd_im_root _ _ _ _ _ D))].
  - intros s1 s2 i H1 H2. apply Him2 in H1, H2.
    destruct H1 as [[H1 _]|(m1 & Hm1 & E1)]; destruct H2 as [[H2 _]|(m2 & Hm2 & E2)].
    + exact (cd_im_inj _ _ _ _ _ D s1 s2 i H1 H2).
    + exfalso. subst i. destruct (Hslot_occ _ (Hnew_slot _ _ Hm2)) as (_ & _ & _ & _ & Hn). exact (Hn s1 H1).
    + exfalso. subst i. destruct (Hslot_occ _ (Hnew_slot _ _ Hm1)) as (_ & _ & _ & _ & Hn). exact (Hn s2 H2).
    + subst i. apply lxor_inj_r in E2. subst m2. apply NoDup_map_inv in Hk as Hnm.
      assert (Hfun : forall x y z, In (x, y) mapped -> In (x, z) mapped -> y = z).
      { clear -Hk. induction mapped as [|[a b] r IHr]; intros x y z H1 H2; [destruct H1|]. cbn [map fst] in Hk. apply NoDup_cons_iff in Hk as [Hn Hk'].
        destruct H1 as [E1|H1]; destruct H2 as [E2|H2].
        - congruence.
        - inversion E1; subst. exfalso. apply Hn. apply in_map_iff. exists (x, z). auto.
        - inversion E2; subst. exfalso. apply Hn. apply in_map_iff. exists (x, y). auto.
        - exact (IHr Hk' x y z H1 H2). }
      exact (Hfun m1 s1 s2 Hm1 Hm2).
  - intros s i Hi. rewrite L3, L2. apply Him2 in Hi as [[Hi _]|(m & Hm & ->)]; [exact (cd_im_rng _ _ _ _ _ D s i Hi)|].
    destruct (Hslot_occ _ (Hnew_slot _ _ Hm)) as (_ & _ & Hl & H2 & _). auto.
  - intros i Ai. assert (Ai1 : act h1 i) by (apply (act_meta h1 h2 i M2); exact Ai).
    rewrite (F2 i Ai1), orb_true_iff, (cd_ui _ _ _ _ _ D i Ai1), in_slots_iff. split.
    + intros [(m & ch & Hm & ->)|[->|[->|[s Hs]]]]; [right; right; exists ch; apply Him2; right; eauto|auto|auto|].
      right. right. exists s. apply Him2. left. split; [exact Hs|exact (Hold_placed s i Hs)].
    + intros [->|[->|[s Hs]]]; [auto|auto|]. apply Him2 in Hs as [[Hs _]|(m & Hm & ->)]; [right; right; right; eauto|left; eauto].
  - intros s i [<-|Hs] Hi.
    + rewrite Hsidx2 in Hi. inversion Hi; subst i. split; [intros E; fold es in E; congruence|]. intros _.
      rewrite Hcb3, N.eqb_refl. split; [exact Hb0|]. split; [rewrite L3, L2; exact Hbl|].
      intros c ch Hin. fold es in Hin. destruct (map_edges_total es mapped Hmap c ch Hin) as (m & Hm & Hl). exists m. split; [exact Hm|].
      apply Him2. right. eauto.
    + apply Him2 in Hi as [[Hi _]|(m & Hm & _)].
      2:{ exfalso. assert (Hin : In s chs) by (apply in_map_iff; exists (m, s); auto). destruct (Hchild s Hin) as (_ & _ & _ & _ & Hn).
          apply Hn. apply in_app_iff. left. exact Hs. }
      assert (Hne : (i =? sidx) = false).
      { apply N.eqb_neq. intros ->. rewrite (cd_im_inj _ _ _ _ _ D s sid sidx Hi Hsidx) in Hs. contradiction. }
      rewrite Hcb3, Hne. destruct (cd_arr _ _ _ _ _ D s i Hs Hi) as [A0 A1]. split; [exact A0|]. intros Hne'.
      destruct (A1 Hne') as (X1 & X2 & X3). split; [exact X1|]. split; [rewrite L3, L2; exact X2|].
      intros c ch Hin. destruct (X3 c ch Hin) as (m & Y1 & Y2). exists m. split; [exact Y1|]. apply Him2. left. split; [exact Y2|exact (Hold_placed ch _ Y2)].
  - intros s i Hs Hi. rewrite St2 in Hs. apply in_app_iff in Hs as [Hs|Hs].
    + apply in_rev in Hs. fold chs in Hs. apply Him2 in Hi as [[_ Hx]|(m & Hm & ->)]; [contradiction|].
      destruct (Hslot_occ _ (Hnew_slot _ _ Hm)) as (_ & _ & _ & _ & Hn).
      rewrite Hcb3. assert ((N.lxor base m =? sidx) = false) as -> by (apply N.eqb_neq; intros E; exact (Hn sid (eq_trans Hsidx (f_equal Some (eq_sym E))))).
      apply (cd_vacb _ _ _ _ _ D). exact Hn.
    + apply Him2 in Hi as [[Hi _]|(m & Hm & _)].
      * rewrite Hcb3. assert ((i =? sidx) = false) as ->.
        { apply N.eqb_neq. intros ->. rewrite (cd_im_inj _ _ _ _ _ D s sid sidx Hi Hsidx) in Hs.
          pose proof (cd_nodup _ _ _ _ _ D) as Hnd. apply NoDup_remove_2 in Hnd. apply Hnd. apply in_app_iff. right. exact Hs. }
        apply (cd_arr_stack _ _ _ _ _ D s i); [right; exact Hs|exact Hi].
      * exfalso. assert (Hin : In s chs) by (apply in_map_iff; exists (m, s); auto). destruct (Hchild s Hin) as (_ & _ & _ & _ & Hn).
        apply Hn. apply in_app_iff. right. right. exact Hs.
  - (* check fields *)
    intros t j Hr Hj. rewrite Hck3. apply Him2 in Hj as [[Hj Hnc]|(m & Hm & ->)].
    + assert (in_slots base mapped j = false) as ->.
      { destruct (in_slots base mapped j) eqn:E; [|reflexivity]. destruct (Hslot_occ j E) as (_ & _ & _ & _ & Hn). exfalso. exact (Hn t Hj). }
      destruct (cd_chk _ _ _ _ _ D t j Hr Hj) as (p & ip & c & Hp & Hip & Hc & Hk'). exists p, ip, c. split; [right; exact Hp|].
      split; [apply Him2; left; split; [exact Hip|exact (Hold_placed p ip Hip)]|auto].
    + rewrite (Hnew_slot _ _ Hm). apply Hmi in Hm as (c & Hc & _). exists sid, sidx, c. split; [left; reflexivity|]. split; [exact Hsidx2|].
      split; [apply Fes; exact Hc|reflexivity].
  - intros j Hj. rewrite Hck3. destruct (in_slots base mapped j) eqn:E.
    + exfalso. apply in_slots_iff in E as (m & ch & Hm & ->). apply (Hj ch); [|apply Him2; right; eauto].
      assert (Hin : In ch chs) by (apply in_map_iff; exists (m, ch); auto). destruct (Hchild ch Hin) as (_ & _ & _ & Hr & _). exact Hr.
    + apply (cd_vac _ _ _ _ _ D). intros t Hr Ht. apply (Hj t Hr). apply Him2. left. split; [exact Ht|exact (Hold_placed t j Ht)].
  - intros j Hj. rewrite Hcb3. assert ((j =? sidx) = false) as -> by (apply N.eqb_neq; intros ->; exact (Hj sid Hsidx2)).
    apply (cd_vacb _ _ _ _ _ D). intros s Hs. apply (Hj s). apply Him2. left. split; [exact Hs|exact (Hold_placed s j Hs)].
Qed.

(* ---- the depth-first loop ------------------------------------------------------------------------ *)
Lemma cw_dfs_loop_CDI : forall fuel a h idmap stack proc a' h' idmap',
  CDI a h idmap stack proc -> cw_dfs_loop V fuel tbl bl n a h idmap stack = Ok (a', h', idmap') ->
  exists proc', CDI a' h' idmap' [] proc'.
Proof.
  pose proof bl_pos as Hblp.
  induction fuel as [|fuel IH]; intros a h idmap stack proc a' h' idmap' D H; destruct stack as [|sid stack]; cbn [cw_dfs_loop] in H;
    try discriminate; try (inversion H; subst; exists proc; exact D).
  destruct (sid =? DEAD); [discriminate|]. bstep H. bstep H. destruct (a1 =? DEAD) eqn:Ed; [discriminate|].
  assert (Hsin : In sid (proc ++ sid :: stack)) by (apply in_app_iff; right; left; reflexivity).
  assert (Hed : edges_of sid = n_edges a0).
  { unfold DaRefine.edges_of. unfold nfa_get in E. destruct (sid <? n_nstates n); [|discriminate]. destruct (nget sid (n_states n)); [inversion E; reflexivity|discriminate]. }
  assert (Hsidx : nget sid idmap = Some a1).
  { destruct (proj2 (cd_im _ _ _ _ _ D sid) Hsin) as [i Hi]. unfold cidmap_get in E0. destruct (sid <? n_nstates n); [|discriminate].
    rewrite Hi in E0. inversion E0. subst. exact Hi. }
  destruct (n_edges a0) as [|e0 es0] eqn:Ee.
  - apply (IH a h idmap stack (sid :: proc) a' h' idmap'); [|exact H]. apply CDI_leaf; assumption.
  - rewrite <- Hed in H.
    bstep H. bstep H. bstep H. destruct a4 as [a4 h4]. bstep H. destruct a5 as [[[a5 h5] idmap5] stack5]. bstep H.
    pose proof (cd_hw _ _ _ _ _ D) as W. pose proof (cd_cp _ _ _ _ _ D) as Hcp.
    destruct (cw_find_base_inv _ _ _ _ E2) as (Hmne & Hb0 & Hcase).
    assert (Hcode : forall m ch, In (m, ch) a2 -> m < bl).
    { intros m ch Hin. apply (map_edges_iff tbl _ _ E1) in Hin as (c & _ & Hm). exact (code_lt c m Hm). }
    assert (Hpre : CDI a4 h4 idmap (sid :: stack) proc /\ a3 < ca_len a4).
    { destruct Hcase as [Hfree|(c0 & ch0 & r & -> & ->)].
      - destruct a2 as [|[c0 ch0] r]; [congruence|]. destruct (Hfree c0 ch0 (or_introl eq_refl)) as [Ac _].
        apply (act_block_k h _ W) in Ac. rewrite (xor_div_k k a3 c0 (Hcode c0 ch0 (or_introl eq_refl))) in Ac.
        assert (a3 < ca_len a).
        { rewrite Hcp. pose proof (N.div_mod a3 bl ltac:(lia)). pose proof (N.mod_lt a3 bl ltac:(lia)). nia. }
        assert ((ca_len a <=? a3) = false) as Hl by (apply N.leb_gt; assumption). rewrite Hl in E3. inversion E3; subst a4 h4. auto.
      - pose proof (Hcode c0 ch0 (or_introl eq_refl)) as Hc0.
        assert (Hd : N.lxor (ca_len a) c0 / bl = h_nblocks h) by (rewrite (xor_div_k k _ c0 Hc0), Hcp; apply N.div_mul; lia).
        assert (Hrange : ca_len a <= N.lxor (ca_len a) c0 < ca_len a + bl).
        { rewrite Hcp. pose proof (N.div_mod (N.lxor (ca_len a) c0) bl ltac:(lia)) as Hdm. pose proof (N.mod_lt (N.lxor (ca_len a) c0) bl ltac:(lia)).
          rewrite Hd in Hdm. rewrite Hcp in *. nia. }
        assert ((ca_len a <=? N.lxor (ca_len a) c0) = true) as Hl by (apply N.leb_le; lia). rewrite Hl in E3.
        destruct (CDI_extend _ _ _ _ _ _ _ D E3) as (D1 & L1 & _). split; [exact D1|lia]. }
    destruct Hpre as [D4 Hlt].
    apply (IH a6 h5 idmap5 stack5 (sid :: proc) a' h' idmap'); [|exact H].
    apply (CDI_node a4 h4 idmap sid stack proc a2 a3 a1 a5 h5 idmap5 stack5 a6 D4); try assumption.
    rewrite Hed. discriminate.
Qed.

Lemma CDI_ext a a' h idmap stack proc : ca_len a' = ca_len a -> (forall j, cb a' j = cb a j /\ cck a' j = cck a j) ->
  CDI a h idmap stack proc -> CDI a' h idmap stack proc.
Proof.
  intros L Hs D. assert (Hb : forall j, cb a' j = cb a j) by (intros j; apply Hs). assert (Hc : forall j, cck a' j = cck a j) by (intros j; apply Hs).
  constructor.
  - exact (cd_hw _ _ _ _ _ D).
  - rewrite L. exact (cd_cp _ _ _ _ _ D).
  - exact (cd_nodup _ _ _ _ _ D).
  - exact (cd_node _ _ _ _ _ D).
  - exact (cd_par _ _ _ _ _ D).
  - exact (cd_chi _ _ _ _ _ D).
  - exact (cd_im _ _ _ _ _ D).
  - exact (cd_im_root _ _ _ _ _ D).
  - exact (cd_im_inj _ _ _ _ _ D).
  - rewrite L. exact (cd_im_rng _ _ _ _ _ D).
  - exact (cd_ui _ _ _ _ _ D).
  - intros s i Hs' Hi. rewrite Hb, L. exact (cd_arr _ _ _ _ _ D s i Hs' Hi).
  - intros s i Hs' Hi. rewrite Hb. exact (cd_arr_stack _ _ _ _ _ D s i Hs' Hi).
  - intros t j Hr Hj. rewrite Hc. exact (cd_chk _ _ _ _ _ D t j Hr Hj).
  - intros j Hj. rewrite Hc. exact (cd_vac _ _ _ _ _ D j Hj).
  - intros j Hj. rewrite Hb. exact (cd_vacb _ _ _ _ _ D j Hj).
Qed.

(* ---- set_fails_loop ------------------------------------------------------------------------------- *)
Lemma cw_set_fails_loop_spec idmap : (forall s1 s2 i, nget s1 idmap = Some i -> nget s2 idmap = Some i -> s1 = s2) ->
  forall ids a a', NoDup ids -> cw_set_fails_loop V n a idmap ids = Ok a' ->
  ca_len a' = ca_len a /\ (forall j, cb a' j = cb a j /\ cck a' j = cck a j)
  /\ (forall j, (forall s, In s ids -> s <> DEAD -> nget s idmap <> Some j) ->
        c_fail (cslot a' j) = c_fail (cslot a j) /\ c_outpos (cslot a' j) = c_outpos (cslot a j))
  /\ (forall s st i, In s ids -> s <> DEAD -> nfa_get V n s = Ok st -> nget s idmap = Some i ->
        c_fail (cslot a' i) = fmap idmap (n_fail st) /\ c_outpos (cslot a' i) = n_outpos st).
Proof.
  intros Hinj. induction ids as [|s0 ids IH]; intros a a' Hnd H; cbn [cw_set_fails_loop] in H.
  - inversion H; subst. split; [reflexivity|]. split; [auto|]. split; [auto|]. intros s st i [].
  - apply NoDup_cons_iff in Hnd as [Hs0 Hnd]. destruct (s0 =? DEAD) eqn:Ed.
    + apply N.eqb_eq in Ed. destruct (IH a a' Hnd H) as (L & S & U & F). split; [exact L|]. split; [exact S|]. split.
      * intros j Hj. apply U. intros s Hs. apply Hj. right. exact Hs.
      * intros s st i [<-|Hs] Hne; [congruence|]. exact (F s st i Hs Hne).
    + apply N.eqb_neq in Ed. bstep H. destruct (a0 =? DEAD) eqn:Ea; [discriminate|]. bstep H. bstep H.
      assert (Hidx : nget s0 idmap = Some a0).
      { unfold cidmap_get in E. destruct (s0 <? n_nstates n); [|discriminate]. destruct (nget s0 idmap) eqn:Eg; inversion E; subst; [reflexivity|].
        rewrite N.eqb_refl in Ea. discriminate. }
      destruct (ca_upd_slot _ _ _ _ E1) as (_ & L1 & S1).
      assert (Hstep : exists a3, cw_set_fails_loop V n a3 idmap ids = Ok a' /\ ca_len a3 = ca_len a
                 /\ (forall j, cslot a3 j = if j =? a0 then cset_fail (fmap idmap (n_fail a1)) (cset_outpos (n_outpos a1) (cslot a a0)) else cslot a j)).
      { destruct (n_fail a1 =? DEAD) eqn:Ef.
        - bstep H. exists a3. destruct (ca_upd_slot _ _ _ _ E2) as (_ & L2 & S2). split; [exact H|]. split; [congruence|].
          intros j. rewrite S2, !S1. unfold fmap. rewrite Ef, N.eqb_refl. destruct (j =? a0); reflexivity.
        - bstep H. destruct (a3 =? DEAD) eqn:Ea3; [discriminate|]. bstep H. exists a4. destruct (ca_upd_slot _ _ _ _ E3) as (_ & L2 & S2).
          split; [exact H|]. split; [congruence|]. intros j. rewrite S2, !S1. unfold fmap. rewrite Ef.
          assert (a3 = match nget (n_fail a1) idmap with Some x => x | None => DEAD end) as ->.
          { unfold cidmap_get in E2. destruct (n_fail a1 <? n_nstates n); [|discriminate]. inversion E2. reflexivity. }
          rewrite N.eqb_refl. destruct (j =? a0); reflexivity. }
      destruct Hstep as (a3 & H3 & L3 & S3). destruct (IH a3 a' Hnd H3) as (L & S & U & F).
      assert (Hfields : forall j, cb a3 j = cb a j /\ cck a3 j = cck a j).
      { intros j. unfold cb, cck. rewrite S3. destruct (j =? a0) eqn:Ej; [|auto]. apply N.eqb_eq in Ej. subst j. auto. }
      split; [congruence|]. split; [|split].
      * intros j. destruct (S j) as [X1 X2]. destruct (Hfields j) as [Y1 Y2]. split; congruence.
      * intros j Hj. destruct (U j (fun s Hs => Hj s (or_intror Hs))) as [X1 X2]. rewrite X1, X2, S3.
        assert ((j =? a0) = false) as ->; [|auto]. apply N.eqb_neq. intros ->. exact (Hj s0 (or_introl eq_refl) Ed Hidx).
      * intros s st i [<-|Hs] Hne Hg Hi.
        -- rewrite Hidx in Hi. inversion Hi; subst i. rewrite E0 in Hg. inversion Hg; subst st.
           destruct (U a0) as [X1 X2].
           { intros s Hs Hsd Hx. rewrite (Hinj s s0 a0 Hx Hidx) in Hs. contradiction. }
           rewrite X1, X2, S3, N.eqb_refl. auto.
        -- exact (F s st i Hs Hne Hg Hi).
Qed.

(* ---- init_array ------------------------------------------------------------------------------- *)
Lemma cw_init_CDI alpha nfb aa hh b : block_len_of alpha = bl -> cw_init_array alpha nfb = Ok (aa, hh, b) ->
  b = bl /\ (node ROOT -> CDI aa hh (nset ROOT ROOT nempty) [ROOT] []).
Proof.
  intros Hb. unfold cw_init_array, helper_new. fold (block_len_of alpha). rewrite Hb. intros H.
  destruct (U32_MAX <? bl * nfb); [discriminate|]. destruct (bl * nfb =? 0) eqn:Ez; [discriminate|]. cbn [bind] in H.
  set (hh0 := {| h_items := nempty; h_cap := bl * nfb; h_block_len := bl; h_nfb := nfb; h_nblocks := 0; h_head := None |}) in *.
  destruct (push_block hh0) as [a0| | | |] eqn:Ep; cbn [bind] in H; try discriminate.
  destruct (use_index a0 ROOT) as [a1| | | |] eqn:E1; cbn [bind] in H; try discriminate.
  destruct (use_index a1 DEAD) as [a2| | | |] eqn:E2; cbn [bind] in H; try discriminate.
  inversion H; subst aa hh b; clear H. split; [reflexivity|]. intros Nroot.
  pose proof bl_pos as Hblp. pose proof (bl_ge2 k k_pos) as Hbl2.
  assert (W0 : HW hh0).
  { unfold HelperFlagsG.HW, hh0. cbn. split; [reflexivity|split; [reflexivity|]]. destruct nfb; [rewrite N.mul_0_r in Ez; discriminate|lia]. }
  destruct (push_block_fl bl Hblp hh0 a0 W0 Ep) as (W1 & Nb1 & F1). cbn [h_nblocks hh0] in Nb1.
  destruct (use_index_fl bl Hblp a0 ROOT a1 W1 E1) as (_ & _ & M2 & F2). pose proof (HW_meta bl _ _ W1 M2) as W2.
  destruct (use_index_fl bl Hblp a1 DEAD a2 W2 E2) as (_ & _ & M3 & F3). pose proof (HW_meta bl _ _ W2 M3) as W3.
  assert (M13 : hmeta a0 a2) by exact (hmeta_trans _ _ _ M2 M3).
  assert (Hact : forall j, act a2 j <-> j < bl).
  { intros j. rewrite (act_meta a0 a2 j M13). unfold act, active_index_start, active_index_end, active_block_start.
    destruct W1 as (B1 & C1 & D1). rewrite B1, Nb1. replace (0 + 1 - h_nfb a0) with 0 by lia. lia. }
  assert (Hflags : forall j, j < bl -> ui a2 j = ((j =? DEAD) || ((j =? ROOT) || false))).
  { intros j Hj. assert (A0 : act a0 j) by (apply (act_meta a0 a2 j M13); apply Hact; exact Hj).
    destruct (F1 j A0) as [Fn _]. destruct (Fn ltac:(unfold active_index_end, hh0; cbn; lia)) as [U1 _].
    destruct (F2 j A0) as [U2 _]. destruct (F3 j (proj2 (act_meta a0 a1 j M2) A0)) as [U3 _].
    rewrite U3, U2, U1. reflexivity. }
  assert (Him : forall s i, nget s (nset ROOT ROOT nempty) = Some i <-> s = ROOT /\ i = ROOT).
  { intros s i. destruct (N.eq_dec s ROOT) as [->|Hne].
    - rewrite ngss. split; [intros E; inversion E; auto|intros [_ ->]; reflexivity].
    - rewrite ngso by exact Hne. rewrite nget_empty. split; [discriminate|intros [? _]; contradiction]. }
  assert (Hsl0 : forall j, cslot {| ca_map := nempty; ca_len := bl |} j = cstate_default).
  { intros j. unfold cslot. cbn [ca_map]. rewrite nget_empty. reflexivity. }
  constructor.
  - exact W3.
  - cbn [ca_len]. destruct M13 as (_ & _ & _ & ->). rewrite Nb1. lia.
  - cbn [app]. constructor; [intros []|constructor].
  - intros t [<-|[]]. exact Nroot.
  - intros t [<-|[]] Hr. congruence.
  - intros s c t [].
  - intros s. cbn [app In]. split; [intros [i Hi]; apply Him in Hi as [-> _]; auto|intros [<-|[]]; exists ROOT; apply Him; auto].
  - apply Him. auto.
  - intros s1 s2 i H1 H2. apply Him in H1 as [-> _]. apply Him in H2 as [-> _]. reflexivity.
  - intros s i Hi. apply Him in Hi as [-> ->]. cbn [ca_len]. unfold ROOT. split; [lia|congruence].
  - intros i Ai. apply Hact in Ai. rewrite (Hflags i Ai). unfold ROOT, DEAD. split.
    + intros Hx. destruct (i =? 1) eqn:E1'; [right; left; lia|]. destruct (i =? 0) eqn:E0'; [left; lia|discriminate].
    + intros [->|[->|[s Hs]]]; [reflexivity|reflexivity|]. apply Him in Hs as [_ ->]. reflexivity.
  - intros s i [].
  - intros s i _ _. unfold cb. rewrite Hsl0. reflexivity.
  - intros t j Hr Hj. apply Him in Hj as [-> _]. congruence.
  - intros j _. unfold cck. rewrite Hsl0. reflexivity.
  - intros j _. unfold cb. rewrite Hsl0. reflexivity.
Qed.

(* ---- the result ---------------------------------------------------------------------------------- *)
Lemma carr_to_list_nth a j : j < ca_len a -> nth_error (carr_to_list a) (N.to_nat j) = Some (cslot a j).
Proof.
  intros Hj. unfold carr_to_list. rewrite nth_error_map, nseq_nth_c by lia. cbn [option_map]. unfold cslot.
  replace (0 + N.of_nat (N.to_nat j)) with j by lia. reflexivity.
Qed.

Record CRefines (sts : list cstate) (idmap : nmap N) : Prop := {
  crf_root : nget ROOT idmap = Some ROOT;
  crf_tot : forall s, node s -> exists i, nget s idmap = Some i /\ i < N.of_nat (length sts) /\ (s <> ROOT -> 2 <= i);
  crf_inj : forall s1 s2 i, nget s1 idmap = Some i -> nget s2 idmap = Some i -> s1 = s2;
  crf_child : forall s i c m, node s -> nget s idmap = Some i -> code_of tbl c = Some m ->
    cw_child (fun j => nth_error sts (N.to_nat j)) i m
    = Ok (match tchild V n s c with Some t => nget t idmap | None => None end);
  crf_links : forall s st i, node s -> s <> DEAD -> nfa_get V n s = Ok st -> nget s idmap = Some i ->
    exists sl, nth_error sts (N.to_nat i) = Some sl /\ c_fail sl = fmap idmap (n_fail st) /\ c_outpos sl = n_outpos st;
  crf_code : forall s c t, node s -> tchild V n s c = Some t -> exists m, code_of tbl c = Some m
}.

Hypothesis root_node : node ROOT.
Hypothesis nstates_nodes : forall s, s < n_nstates n -> s <> DEAD -> node s.

Theorem cw_layout_refines alpha nfb a0 h0 b a1 h1 idmap a2 :
  block_len_of alpha = bl ->
  cw_init_array alpha nfb = Ok (a0, h0, b) ->
  cw_dfs_loop V (S (N.to_nat (n_nstates n))) tbl b n a0 h0 (nset ROOT ROOT nempty) [ROOT] = Ok (a1, h1, idmap) ->
  cw_set_fails_loop V n a1 idmap (nseq 0 (N.to_nat (n_nstates n))) = Ok a2 ->
  CRefines (carr_to_list a2) idmap.
Proof.
  intros Hb Ei Ed Es. destruct (cw_init_CDI alpha nfb a0 h0 b Hb Ei) as [-> D0]. specialize (D0 root_node).
  destruct (cw_dfs_loop_CDI _ _ _ _ _ _ _ _ _ D0 Ed) as [proc D1].
  destruct (cw_set_fails_loop_spec idmap (cd_im_inj _ _ _ _ _ D1) _ a1 a2 (nseq_nodup' _ _) Es) as (L2 & S2 & _ & F2).
  assert (D2 : CDI a2 h1 idmap [] proc) by (apply (CDI_ext a1 a2); assumption).
  pose proof (cd_hw _ _ _ _ _ D2) as W. pose proof (cd_cp _ _ _ _ _ D2) as Hcp. pose proof bl_pos as Hblp.
  assert (Hlen : N.of_nat (length (carr_to_list a2)) = ca_len a2).
  { unfold carr_to_list. rewrite map_length. assert (forall k0 a, length (nseq a k0) = k0) as Hl by (induction k0; intros; cbn; auto). rewrite Hl. lia. }
  assert (Hplaced : forall s, node s -> In s proc).
  { intros s [w Hw]. revert s Hw. induction w as [|c w IHw] using rev_ind; intros s Hw.
    - cbn in Hw. inversion Hw; subst s. pose proof (cd_im _ _ _ _ _ D2 ROOT) as Hx. rewrite app_nil_r in Hx. apply Hx. exists ROOT. exact (cd_im_root _ _ _ _ _ D2).
    - rewrite twalk_snoc in Hw. destruct (twalk V n ROOT w) as [p|] eqn:Ep; [|discriminate].
      pose proof (cd_chi _ _ _ _ _ D2 p c s (IHw p eq_refl) Hw) as Hx. rewrite app_nil_r in Hx. exact Hx. }
  assert (Hidx : forall s, In s proc -> exists i, nget s idmap = Some i).
  { intros s Hs. apply (cd_im _ _ _ _ _ D2). rewrite app_nil_r. exact Hs. }
  constructor.
  - exact (cd_im_root _ _ _ _ _ D2).
  - intros s Ns. destruct (Hidx s (Hplaced s Ns)) as [i Hi]. exists i. split; [exact Hi|]. rewrite Hlen. exact (cd_im_rng _ _ _ _ _ D2 s i Hi).
  - exact (cd_im_inj _ _ _ _ _ D2).
  - intros s i c m Ns Hi Hm. pose proof (Hplaced s Ns) as Hs.
    destruct (cd_im_rng _ _ _ _ _ D2 s i Hi) as [Hil Hi2].
    unfold cw_child, cst_at. rewrite (carr_to_list_nth a2 i Hil). cbn [bind]. fold (cb a2 i).
    destruct (cd_arr _ _ _ _ _ D2 s i Hs Hi) as [A0 A1].
    destruct (edges_of s) as [|e0 es0] eqn:Ee.
    + rewrite (A0 eq_refl). cbn. destruct (tchild V n s c) as [t|] eqn:Et; [|reflexivity].
      apply (edges_child s c t Ns) in Et. rewrite Ee in Et. destruct Et.
    + destruct (A1 ltac:(discriminate)) as (Hbz & Hbl & Hch). assert ((cb a2 i =? 0) = false) as -> by (apply N.eqb_neq; exact Hbz).
      set (j := N.lxor (cb a2 i) m).
      assert (Hjl : j < ca_len a2).
      { assert (Hd : j / bl = cb a2 i / bl) by (apply xor_div_k; exact (code_lt c m Hm)).
        assert (cb a2 i / bl < h_nblocks h1) by (apply N.div_lt_upper_bound; [lia|]; rewrite N.mul_comm; lia).
        pose proof (N.div_mod j bl ltac:(lia)). pose proof (N.mod_lt j bl ltac:(lia)). rewrite Hcp. nia. }
      rewrite (carr_to_list_nth a2 j Hjl). cbn [bind]. fold (cck a2 j).
      destruct (tchild V n s c) as [t|] eqn:Et.
      * apply (edges_child s c t Ns) in Et as Hin. rewrite <- Ee in Hch. destruct (Hch c t Hin) as (m' & Y1 & Y2).
        assert (m' = m) by congruence. subst m'. fold j in Y2.
        destruct (child_node s c t Ns Et) as (_ & Htr & _).
        destruct (cd_chk _ _ _ _ _ D2 t j Htr Y2) as (p & ip & c' & Hp & Hip & Hc' & Hk).
        assert (Np : node p) by (apply (cd_node _ _ _ _ _ D2); rewrite app_nil_r; exact Hp).
        destruct (uniq_parent p s c' c t Np Ns Hc' Et) as [-> _]. rewrite Hi in Hip. inversion Hip as [Hii].
        rewrite Hk, <- Hii, N.eqb_refl, Y2. reflexivity.
      * destruct (cck a2 j =? i) eqn:Eck; [|reflexivity]. exfalso. apply N.eqb_eq in Eck.
        destruct (occ_dec_list idmap proc j ltac:(intros s0 Hs0; pose proof (cd_im _ _ _ _ _ D2 s0) as Hx; rewrite app_nil_r in Hx; apply Hx; exact Hs0)) as [(t & Htr & Ht)|Hno].
        -- destruct (cd_chk _ _ _ _ _ D2 t j Htr Ht) as (p & ip & c' & Hp & Hip & Hc' & Hk).
           rewrite Eck in Hk. rewrite <- Hk in Hip. assert (p = s) by exact (cd_im_inj _ _ _ _ _ D2 p s i Hip Hi). subst p.
           apply (edges_child s c' t Ns) in Hc' as Hin. rewrite <- Ee in Hch. destruct (Hch c' t Hin) as (m' & Y1 & Y2).
           rewrite Ht in Y2. inversion Y2 as [Ej]. unfold j in Ej. apply lxor_inj_r in Ej. subst m'.
           rewrite (code_inj c c' m Hm Y1) in Et. congruence.
        -- assert (Hv : cck a2 j = DEAD) by (apply (cd_vac _ _ _ _ _ D2); intros t Htr Ht; apply Hno; exists t; auto).
           rewrite Hv in Eck. destruct (N.eq_dec s ROOT) as [->|Hsr].
           ++ rewrite (cd_im_root _ _ _ _ _ D2) in Hi. inversion Hi; subst i. discriminate.
           ++ specialize (Hi2 Hsr). unfold DEAD in Eck. lia.
  - intros s st i Ns Hd Hg Hi. destruct (cd_im_rng _ _ _ _ _ D2 s i Hi) as [Hil _]. exists (cslot a2 i). split; [exact (carr_to_list_nth a2 i Hil)|].
    apply (F2 s st i); try assumption. apply nseq_mem_c. pose proof (node_lt s Ns). lia.
  - intros s c t Ns Hc. destruct (Hidx s (Hplaced s Ns)) as [i Hi]. destruct (cd_arr _ _ _ _ _ D2 s i (Hplaced s Ns) Hi) as [_ A1].
    apply (edges_child s c t Ns) in Hc. destruct (A1 ltac:(intros E0; rewrite E0 in Hc; destruct Hc)) as (_ & _ & Hch).
    destruct (Hch c t Hc) as (m & Hm & _). eauto.
Qed.

End Refine.
End G.
