(* CliRawMain.v — the whole program on arbitrary bytes (Model/CliRaw.v) against the property text. *)
From DV Require Import Model.Base Model.Nfa Model.BwBuild Model.BwSearch Model.Api Model.Spec
     Model.Cert Model.Cli Model.Utf8 Proofs.CliProps Proofs.CliColour Proofs.TrieInv Proofs.BuildTrie Proofs.BuildCert
     Proofs.NoPanicBw Proofs.NoPanic Proofs.BuiltAutomata Proofs.CliMain.
From DV Require Import Model.CliRaw.
From Coq Require Import ZifyN ZifyNat ZifyBool.
Local Open Scope N_scope.

Lemma valid_prefix_all ls : forallb valid_utf8 ls = true -> valid_prefix ls = (ls, true).
Proof.
  induction ls as [|l r IH]; intros H; [reflexivity|]. cbn [forallb] in H. apply andb_true_iff in H as [Hl Hr].
  cbn [valid_prefix]. rewrite Hl, (IH Hr). reflexivity.
Qed.

(* the lines handed out are a prefix of the lines of the input, all UTF-8; the iteration stops at
   the first line that is not *)
Lemma valid_prefix_spec ls :
  exists rest, ls = fst (valid_prefix ls) ++ rest
    /\ forallb valid_utf8 (fst (valid_prefix ls)) = true
    /\ (if snd (valid_prefix ls) then rest = [] else exists l r, rest = l :: r /\ valid_utf8 l = false).
Proof.
  induction ls as [|l r (rest & E & Hv & Hs)]; [exists []; repeat split|].
  cbn [valid_prefix]. destruct (valid_utf8 l) eqn:El.
  - destruct (valid_prefix r) as [a ok] eqn:Ev. cbn [fst snd] in *. exists rest. split; [cbn [app]; f_equal; exact E|].
    split; [cbn [forallb]; rewrite El; exact Hv|exact Hs].
  - exists (l :: r). cbn [fst snd app forallb]. repeat split. exists l, r. split; [reflexivity|exact El].
Qed.

(* (1) on inputs all of whose lines are UTF-8 the program IS [cli_main] *)
Definition all_lines_utf8 (bs : list N) : bool := forallb valid_utf8 (buf_lines bs).

Lemma run_files_raw_valid A fl : forall files,
  forallb (fun f => valid_utf8 (fst f) && all_lines_utf8 (snd f)) files = true -> run_files_raw A fl files = run_files A fl files.
Proof.
  induction files as [|[name content] r IH]; intros H; [reflexivity|]. cbn [forallb fst snd] in H.
  apply andb_true_iff in H as [Hc Hr]. apply andb_true_iff in Hc as [Hn Hc]. cbn [run_files_raw run_files]. unfold lines_raw, shown_name.
  rewrite Hn, (valid_prefix_all _ Hc). cbn [fst]. rewrite (IH Hr). reflexivity.
Qed.

Theorem cli_main_raw_on_utf8_lines fl pfile pstr stdin files :
  (forall f, pfile = Some f -> all_lines_utf8 f = true) ->
  all_lines_utf8 stdin = true -> forallb (fun f => valid_utf8 (fst f) && all_lines_utf8 (snd f)) files = true ->
  cli_main_raw fl pfile pstr stdin files = cli_main fl pfile pstr stdin files.
Proof.
  intros Hf Hs Hfs. unfold cli_main_raw, cli_main.
  assert (E : match pfile with Some f => negb (snd (lines_raw f)) | None => false end = false).
  { destruct pfile as [f|]; [|reflexivity]. unfold lines_raw. rewrite (valid_prefix_all _ (Hf f eq_refl)). reflexivity. }
  rewrite E. destruct (bw_build unit (fun _ => Some tt) Standard NFB_DEFAULT (cli_patterns pfile pstr)) as [A|e| | |]; try reflexivity.
  destruct files as [|f r].
  - unfold lines_raw. rewrite (valid_prefix_all _ Hs). reflexivity.
  - rewrite (run_files_raw_valid A fl (f :: r) Hfs). reflexivity.
Qed.

(* (2) arbitrary bytes: what the property text says is printed, restricted to the lines handed out *)
Fixpoint expected_files_raw (pvs : list (list N * unit)) (fl : cli_flags) (files : list (list N * list N)) : list N :=
  match files with
  | [] => []
  | (name, content) :: r => expected_out pvs fl (shown_name name) 0 (fst (lines_raw content)) ++ expected_files_raw pvs fl r
  end.

Definition cli_expected_raw (pvs : list (list N * unit)) (fl : cli_flags) (stdin : list N)
           (files : list (list N * list N)) : list N * N :=
  match files with
  | [] => (expected_out pvs fl None 0 (fst (lines_raw stdin)), if snd (lines_raw stdin) then 0 else 1)
  | _ => (expected_files_raw pvs fl files, 0)
  end.

Definition inputs_ok_raw (pvs : list (list N * unit)) (color : bool) (stdin : list N) (files : list (list N * list N)) : Prop :=
  Forall (line_ok pvs color) (fst (lines_raw stdin))
  /\ Forall (fun f => Forall (line_ok pvs color) (fst (lines_raw (snd f)))) files.

Lemma run_files_raw_any A pvs (CERT : bw_cert_ok ueqb A pvs = true) fl : forall files,
  Forall (fun f => Forall (line_ok pvs (cf_color fl)) (fst (lines_raw (snd f)))) files ->
  run_files_raw A fl files = Ok (expected_files_raw pvs fl files).
Proof.
  induction files as [|[name content] r IH]; intros Hok; [reflexivity|].
  inversion Hok as [|? ? Hf Hr]; subst. cbn [run_files_raw expected_files_raw]. cbn [snd] in Hf.
  rewrite (run_lines_any A pvs CERT fl (shown_name name) _ 0%nat Hf). cbn [bind]. rewrite (IH Hr). cbn [bind]. reflexivity.
Qed.

Theorem cli_main_raw_lemma (fl : cli_flags) (pfile pstr : option (list N)) (stdin : list N) (files : list (list N * list N)) :
  let pats := cli_patterns pfile pstr in
  (forall p, In p pats -> Forall (fun b => b < 256) p) -> 4 * plain_len pats <= U32_MAX - 1 ->
  inputs_ok_raw (upvs pats) (cf_color fl) stdin files ->
  if match pfile with Some f => negb (all_lines_utf8 f) | None => false end
  then cli_main_raw fl pfile pstr stdin files = Ok ([], 1)          (* the pattern file is not UTF-8 *)
  else match spec_build_error pats with
  | Some _ => cli_main_raw fl pfile pstr stdin files = Ok ([], 1)
  | None => cli_main_raw fl pfile pstr stdin files = Ok (cli_expected_raw (upvs pats) fl stdin files)
            \/ cli_main_raw fl pfile pstr stdin files = Ok ([], 1)       (* refused: AutomatonScale *)
  end.
Proof.
  intros pats Hb Hsz [Hin Hfs]. unfold cli_main_raw. fold pats.
  assert (Epf : match pfile with Some f => negb (snd (lines_raw f)) | None => false end
                = match pfile with Some f => negb (all_lines_utf8 f) | None => false end).
  { destruct pfile as [f|]; [|reflexivity]. f_equal. unfold lines_raw, all_lines_utf8.
    destruct (valid_prefix_spec (buf_lines f)) as (rest & E & Hv & Hs).
    destruct (snd (valid_prefix (buf_lines f))) eqn:Eo.
    - subst rest. rewrite app_nil_r in E. rewrite E at 1. symmetry. exact Hv.
    - destruct Hs as (l & r & -> & Hl). rewrite E. rewrite forallb_app. cbn [forallb]. rewrite Hl, andb_false_r. reflexivity. }
  rewrite Epf. destruct (match pfile with Some f => negb (all_lines_utf8 f) | None => false end); [reflexivity|].
  assert (Hbuild : bw_build unit (fun _ => Some tt) Standard NFB_DEFAULT pats
                   = bw_build_with_values unit Standard NFB_DEFAULT (upvs pats)).
  { unfold bw_build. rewrite enumerate_conv_unit. reflexivity. }
  rewrite Hbuild.
  assert (Hn : NFB_DEFAULT <> 0) by (unfold NFB_DEFAULT; lia).
  assert (Hb' : forall p v, In (p, v) (upvs pats) -> Forall (fun b => b < 256) p).
  { intros p v Hp. apply Hb. unfold upvs in Hp. apply in_map_iff in Hp as (q & E & Hq). inversion E; subst. exact Hq. }
  assert (Hsz' : 4 * total_len unit (upvs pats) <= U32_MAX - 1) by (rewrite total_len_plain, upvs_fst; exact Hsz).
  destruct (spec_build_error pats) as [e|] eqn:Es.
  - rewrite (bw_build_error_lemma unit Standard NFB_DEFAULT (upvs pats) e Hn Hsz' ltac:(rewrite upvs_fst; exact Es)). reflexivity.
  - pose proof (bw_build_valid unit Standard NFB_DEFAULT (upvs pats) Hn Hb' Hsz' ltac:(rewrite upvs_fst; exact Es)) as Hv.
    destruct (bw_build_with_values unit Standard NFB_DEFAULT (upvs pats)) as [A|e| | |] eqn:EA; cbn [okscale] in Hv; try contradiction.
    + left.
      pose proof (built_cert unit ueqb ueqb_eq NFB_DEFAULT (upvs pats) A Hb' Hsz' EA) as CERT.
      unfold cli_expected_raw. destruct files as [|f r].
      * destruct (lines_raw stdin) as [ls ok] eqn:El. cbn [fst snd] in *.
        rewrite (run_lines_any A (upvs pats) CERT fl None _ 0%nat Hin). reflexivity.
      * rewrite (run_files_raw_any A (upvs pats) CERT fl _ Hfs). reflexivity.
    + right. reflexivity.
Qed.
