(* NoPanic.v — C10, "never panics": for EVERY pattern sequence (total length below 2^30 labels),
   every match kind and every num_free_blocks >= 1, construction returns Ok or one of the
   documented errors — never a panic (failed assertion / unwrap / index), undefined behaviour or
   fuel exhaustion of the model.  Chain: the trie invariant (pattern loop), NfaFails / NfaFailsLm
   (the fail-link and output phases succeed), NoPanicBw (the layout phase succeeds or reports
   AutomatonScale). *)
From DV Require Import Model.Base Model.Nfa Model.Helper Model.BwBuild Model.BwSearch Model.Utf8 Model.CwBuild Model.CwSearch
     Model.Spec Model.Cert
     Proofs.GenAC Proofs.TrieInv Proofs.BuildTrie Proofs.BuildSafe Proofs.CwBuildSafe Proofs.NfaFails Proofs.NfaFailsLm
     Proofs.DaRefine Proofs.CwDaRefine Proofs.BwSafe Proofs.BuildProps Proofs.BuildCert Proofs.CwBuildCert Proofs.BuildStats
     Proofs.BuildCertLm Proofs.NoPanicBw.
From Coq Require Import Sorted ZifyN ZifyNat ZifyBool.
Local Open Scope N_scope.

Definition no_panic {X} (r : res X) : Prop := match r with Ok _ | Err _ => True | _ => False end.

Lemma okscale_no_panic {X} (r : res X) : okscale r -> no_panic r.
Proof. destruct r as [x|e| | |]; cbn; auto. Qed.

(* the finished NFA of an accepted collection, whatever the kind: same trie, fail links lead to
   nodes or to the dead state *)
Lemma finish_nfa_any (V : Type) (lbytes : N -> N) (lb_pos : forall c, 1 <= lbytes c) k (n0 : nfa V) (outs : list (list N * V)) paths :
  TI V lbytes n0 outs [] paths ->
  (forall i st, nget i (n_states n0) = Some st -> NoDup (map fst (n_edges st))) ->
  (forall i st, nget i (n_states n0) = Some st -> n_fail st = ROOT) ->
  NoDup (map fst outs) -> N.of_nat (length outs) < U32_MAX ->
  (forall i st, nget i (n_states n0) = Some st -> n_outpos st = 0) ->
  n_outputs n0 = [] -> outs <> [] -> n_kind n0 = k ->
  exists n2, finish_nfa V n0 = Ok n2 /\ n_nstates n2 = n_nstates n0
    /\ (forall s c, tchild V n2 s c = tchild V n0 s c)
    /\ (forall i, i < n_nstates n0 -> exists st st0, nget i (n_states n2) = Some st /\ nget i (n_states n0) = Some st0
                                                   /\ n_edges st = n_edges st0 /\ n_output st = n_output st0)
    /\ (forall w t, N0 V n0 w t -> failof V n2 t = DEAD \/ exists w', N0 V n0 w' (failof V n2 t)).
Proof.
  intros T0 EK0 F0 Hnd LEN0 OP0 Hout NE0 Hk. destruct k.
  - destruct (finish_nfa_std_ok V lbytes lb_pos n0 outs paths T0 EK0 F0 Hnd LEN0 OP0 Hout NE0 Hk)
      as (n2 & Hf & Hns & _ & Htc & Hfail & _ & _ & Hst).
    exists n2. split; [exact Hf|]. split; [exact Hns|]. split; [exact Htc|]. split; [exact Hst|].
    intros w t Hw. right. eexists. exact (Hfail w t Hw).
  - assert (LM0 : n_kind n0 <> Standard) by congruence.
    destruct (build_fails_ok V lbytes lb_pos n0 _ paths T0 EK0 F0) as (ng & qg & _ & STg & Fg & _).
    destruct (finish_nfa_lm_ok V lbytes lb_pos n0 _ paths T0 EK0 F0 Hnd ng STg Fg LEN0 OP0 Hout NE0 LM0)
      as (n2 & Hf & Hns & _ & Htc & Hfail & _ & _ & Hst & Hroot).
    exists n2. split; [exact Hf|]. split; [exact Hns|]. split; [exact Htc|]. split; [exact Hst|].
    intros w t Hw. destruct w as [|c w].
    + unfold N0 in Hw. cbn in Hw. inversion Hw; subst t. right. exists []. rewrite Hroot. reflexivity.
    + specialize (Hfail _ t Hw ltac:(discriminate)). unfold lfail_spec in Hfail.
      destruct (Cert.lm_dead _ _ _ _); [left; exact Hfail|right; eexists; exact Hfail].
  - assert (LM0 : n_kind n0 <> Standard) by congruence.
    destruct (build_fails_ok V lbytes lb_pos n0 _ paths T0 EK0 F0) as (ng & qg & _ & STg & Fg & _).
    destruct (finish_nfa_lm_ok V lbytes lb_pos n0 _ paths T0 EK0 F0 Hnd ng STg Fg LEN0 OP0 Hout NE0 LM0)
      as (n2 & Hf & Hns & _ & Htc & Hfail & _ & _ & Hst & Hroot).
    exists n2. split; [exact Hf|]. split; [exact Hns|]. split; [exact Htc|]. split; [exact Hst|].
    intros w t Hw. destruct w as [|c w].
    + unfold N0 in Hw. cbn in Hw. inversion Hw; subst t. right. exists []. rewrite Hroot. reflexivity.
    + specialize (Hfail _ t Hw ltac:(discriminate)). unfold lfail_spec in Hfail.
      destruct (Cert.lm_dead _ _ _ _); [left; exact Hfail|right; eexists; exact Hfail].
Qed.

Lemma bw_sparse_nfa_valid (V : Type) k (pvs : list (list N * V)) :
  (forall p v, In (p, v) pvs -> Forall (fun b => b < 256) p) -> 4 * total_len V pvs <= U32_MAX - 1 ->
  spec_build_error (map fst pvs) = None -> okscale (bw_build_sparse_nfa V k pvs).
Proof.
  intros Hbytes Hsz Hvalid.
  assert (Hpne : pvs <> []) by (intros ->; discriminate).
  assert (Efo0 : first_offence [] (map fst pvs) = None) by (destruct pvs; [congruence|exact Hvalid]).
  unfold bw_build_sparse_nfa. rewrite add_all_adds.
  pose proof (adds_spec V (fun _ => 1) one_pos one_le4 k pvs Hsz) as S.
  destruct (first_offence [] (map fst pvs)) as [e|] eqn:Efo; [discriminate|].
  destruct S as (n0 & paths & S1 & T0 & Hk & Hlen & Hout). rewrite S1. cbn [bind].
  destruct (n_len n0 =? 0) eqn:El; [exfalso; apply N.eqb_eq in El; rewrite Hlen in El; pose proof (regd_nonempty V k pvs Hpne); destruct (regd V k pvs); [congruence|cbn [length] in El; lia]|]. destruct (U24_MAX <? n_len n0) eqn:E24; [exact I|].
  apply first_offence_none in Efo as (Hne' & Hnd & _).
  destruct (regd_facts k pvs) as (Rin & Rnd & Rlen). pose proof (Rnd Hnd) as Hnd'.
  pose proof (adds_PEF V (fun _ => 1) pvs _ n0 (nfa_new_PEF V k) S1) as HPEF.
  assert (EK0 : forall i st, nget i (n_states n0) = Some st -> NoDup (map fst (n_edges st))) by (intros i st Hg; exact (proj2 (HPEF i st Hg))).
  assert (F0 : forall i st, nget i (n_states n0) = Some st -> n_fail st = ROOT) by (intros i st Hg; exact (proj1 (HPEF i st Hg))).
  rewrite <- add_all_adds in S1.
  destruct (add_all_inv V pvs _ n0 Hbytes (nfa_new_PLO V k) eq_refl S1) as [HPLO _].
  assert (OP0 : forall i st, nget i (n_states n0) = Some st -> n_outpos st = 0) by (intros i st Hg; exact (proj1 (HPLO i st Hg))).
  assert (NE0 : regd V k pvs <> []) by (intros E0; rewrite E0 in Hlen; cbn in Hlen; rewrite Hlen in El; discriminate).
  assert (LEN0 : N.of_nat (length (regd V k pvs)) < U32_MAX) by (apply N.ltb_ge in E24; unfold U24_MAX, U32_MAX in *; lia).
  destruct (finish_nfa_any V (fun _ => 1) one_pos k n0 _ paths T0 EK0 F0 Hnd' LEN0 OP0 Hout NE0 Hk) as (n2' & Hf & _).
  rewrite Hf. exact I.
Qed.

Theorem bw_build_valid (V : Type) k nfb (pvs : list (list N * V)) : nfb <> 0 ->
  (forall p v, In (p, v) pvs -> Forall (fun b => b < 256) p) -> 4 * total_len V pvs <= U32_MAX - 1 ->
  spec_build_error (map fst pvs) = None -> okscale (bw_build_with_values V k nfb pvs).
Proof.
  intros Hnfb Hbytes Hsz Hvalid. unfold bw_build_with_values. apply N.eqb_neq in Hnfb. rewrite Hnfb. apply N.eqb_neq in Hnfb.
  pose proof (bw_sparse_nfa_valid V k pvs Hbytes Hsz Hvalid) as Hnp.
  destruct (bw_build_sparse_nfa V k pvs) as [n2|e| | |] eqn:En; cbn [bind okscale] in *; try contradiction; [|exact Hnp].
  - (* the NFA exists: the layout cannot panic *)
    pose proof (bw_sparse_nfa_inv V k pvs n2 Hbytes En) as [HA2 _].
    unfold bw_build_sparse_nfa in En. destruct (add_all V (fun _ => 1) (nfa_new V k) pvs) as [n0| | | |] eqn:Ea; cbn [bind] in En; try discriminate.
    destruct (n_len n0 =? 0) eqn:El; [discriminate|]. destruct (U24_MAX <? n_len n0) eqn:E24; [discriminate|].
    rewrite add_all_adds in Ea.
    pose proof (adds_spec V (fun _ => 1) one_pos one_le4 k pvs Hsz) as S.
    destruct (first_offence [] (map fst pvs)) as [e|] eqn:Efo; [rewrite Ea in S; discriminate|].
    destruct S as (n0' & paths & S1 & T0 & Hk & Hlen & Hout). rewrite Ea in S1. inversion S1; subst n0'; clear S1.
    apply first_offence_none in Efo as (Hne' & Hnd & _).
    destruct (regd_facts k pvs) as (Rin & Rnd & Rlen). pose proof (Rnd Hnd) as Hnd'.
    pose proof (adds_PEF V (fun _ => 1) pvs _ n0 (nfa_new_PEF V k) Ea) as HPEF.
    assert (EK0 : forall i st, nget i (n_states n0) = Some st -> NoDup (map fst (n_edges st))) by (intros i st Hg; exact (proj2 (HPEF i st Hg))).
    assert (F0 : forall i st, nget i (n_states n0) = Some st -> n_fail st = ROOT) by (intros i st Hg; exact (proj1 (HPEF i st Hg))).
    rewrite <- add_all_adds in Ea.
    destruct (add_all_inv V pvs _ n0 Hbytes (nfa_new_PLO V k) eq_refl Ea) as [HPLO _].
    assert (OP0 : forall i st, nget i (n_states n0) = Some st -> n_outpos st = 0) by (intros i st Hg; exact (proj1 (HPLO i st Hg))).
    assert (NE0 : regd V k pvs <> []) by (intros E0; rewrite E0 in Hlen; cbn in Hlen; rewrite Hlen in El; discriminate).
    assert (LEN0 : N.of_nat (length (regd V k pvs)) < U32_MAX) by (apply N.ltb_ge in E24; unfold U24_MAX, U32_MAX in *; lia).
    destruct (finish_nfa_any V (fun _ => 1) one_pos k n0 _ paths T0 EK0 F0 Hnd' LEN0 OP0 Hout NE0 Hk)
      as (n2' & Hf & Hns & Htc & Hst & Hfail).
    rewrite En in Hf. inversion Hf; subst n2'; clear Hf.
    assert (Hlab : forall i st, nget i (n_states n2) = Some st -> forall c t, In (c, t) (n_edges st) -> c < 256) by (intros i st Hg; exact (proj2 (HA2 i st Hg))).
    assert (Hnode : forall t, node V n2 t <-> exists w, N0 V n0 w t) by (apply node2_iff; exact Htc).
    assert (Hnd2 : forall w s, N0 V n0 w s -> s <> DEAD).
    { intros w s Hw ->. destruct (ti_bwd _ _ _ _ _ _ T0 _ _ Hw) as [[_ E]|[H2 _]]; [discriminate|unfold DEAD in H2; lia]. }
    assert (Hlay : okscale (build_double_array V nfb n2)).
    { apply build_double_array_total; [| | | | | | | | | | |lia].
      - eapply tf_wf; eassumption.
      - eapply tf_edges_child; try eassumption; exact one_pos.
      - eapply tf_labels; eassumption.
      - eapply tf_child_node; try eassumption; exact one_pos.
      - eapply tf_uniq_parent; try eassumption; exact one_pos.
      - eapply tf_nonroot_parent; eassumption.
      - eapply tf_node_lt; try eassumption; exact one_pos.
      - eapply tf_edges_nodup; try eassumption; exact one_pos.
      - eapply tf_nstates_nodes; try eassumption; exact one_pos.
      - intros Hd. apply Hnode in Hd as [w Hw]. exact (Hnd2 w DEAD Hw eq_refl).
      - intros s st Ns Hg. apply Hnode in Ns as [w Hw].
        assert (Efl : n_fail st = failof V n2 s).
        { unfold nfa_get in Hg. unfold failof. destruct (s <? n_nstates n2); [|discriminate]. destruct (nget s (n_states n2)); [inversion Hg; reflexivity|discriminate]. }
        rewrite Efl. destruct (Hfail w s Hw) as [Hd|[w' Hw']]; [left; exact Hd|right; apply Hnode; eauto]. }
    destruct (build_double_array V nfb n2) as [sts|e| | |]; cbn [okscale bind] in *; try contradiction; [|exact Hlay].
    destruct (U32_MAX <? n_nstates n2 - 1); exact I.
Qed.

Theorem bw_build_no_panic (V : Type) k nfb (pvs : list (list N * V)) : nfb <> 0 ->
  (forall p v, In (p, v) pvs -> Forall (fun b => b < 256) p) -> 4 * total_len V pvs <= U32_MAX - 1 ->
  no_panic (bw_build_with_values V k nfb pvs).
Proof.
  intros Hnfb Hbytes Hsz. destruct (spec_build_error (map fst pvs)) as [e|] eqn:Es.
  - rewrite (bw_build_error_lemma V k nfb pvs e Hnfb Hsz Es). exact I.
  - apply okscale_no_panic. exact (bw_build_valid V k nfb pvs Hnfb Hbytes Hsz Es).
Qed.

(* ================================================================================================= *)
(* the character-wise builder: every character of every pattern has a code *)
From DV Require Import Proofs.NoPanicCw.

Lemma assign_codes_has : forall sorted i m c, In c (map fst sorted) \/ (exists x, nget c m = Some x) ->
  exists x, nget c (assign_codes sorted i m) = Some x.
Proof.
  induction sorted as [|[c0 f0] r IH]; intros i m c H; cbn [assign_codes map fst] in *.
  - destruct H as [[]|H]; exact H.
  - apply IH. destruct H as [[<-|H]|[x Hx]]; [right; exists i; apply ngss|left; exact H|right].
    destruct (N.eq_dec c c0) as [->|Hne]; [exists i; apply ngss|exists x; rewrite ngso by exact Hne; exact Hx].
Qed.

Lemma freq_sort_keys l y : In y (map fst (freq_sort l)) <-> In y (map fst l).
Proof.
  unfold freq_sort. induction l as [|x l IH]; cbn [fold_right map]; [tauto|].
  rewrite freq_insert_keys, IH. cbn [In]. split; intros [H|H]; auto.
Qed.

Lemma freq_insert_length x l : length (freq_insert x l) = S (length l).
Proof. induction l as [|z r IH]; cbn [freq_insert length]; [reflexivity|]. destruct (freq_before x z); cbn [length]; [reflexivity|]. rewrite IH. reflexivity. Qed.
Lemma freq_sort_length l : length (freq_sort l) = length l.
Proof. unfold freq_sort. induction l as [|x l IH]; cbn [fold_right length]; [reflexivity|]. rewrite freq_insert_length, IH. reflexivity. Qed.

Lemma mapper_code_total f present c : In c present -> c < fq_len f -> N.of_nat (length present) < INVALID_CODE ->
  exists m, code_of (index_list (mp_table (mapper_new f present))) c = Some m.
Proof.
  intros Hin Hlt Hsz. unfold code_of. rewrite index_list_get. unfold mapper_new. cbn [mp_table].
  set (sorted := freq_sort (map (fun c => (c, fq_get f c)) present)). set (tb := assign_codes sorted 0 nempty).
  rewrite nth_error_map. rewrite nseq_nth_c by lia. cbn [option_map]. replace (0 + N.of_nat (N.to_nat c)) with c by lia.
  destruct (assign_codes_has sorted 0 nempty c) as [x Hx].
  { left. unfold sorted. apply freq_sort_keys. rewrite map_map. cbn [fst]. rewrite map_id. exact Hin. }
  fold tb in Hx. rewrite Hx.
  assert (x < 0 + N.of_nat (length sorted)).
  { apply (assign_codes_lt sorted 0 nempty) with (c := c); [|exact Hx]. intros c1 x1 Hg. rewrite nget_empty in Hg. discriminate. }
  unfold sorted in H. rewrite freq_sort_length, map_length in H.
  assert ((x =? INVALID_CODE) = false) as -> by (apply N.eqb_neq; lia). eauto.
Qed.

Lemma sorted_insert_length c l : (length (sorted_insert c l) <= S (length l))%nat.
Proof.
  induction l as [|y r IH]; cbn [sorted_insert length]; [lia|]. destruct (c <? y); cbn [length]; [lia|]. destruct (c =? y); cbn [length]; lia.
Qed.

Lemma fold_sorted_insert_in p : forall l x, In x (fold_left (fun l c => sorted_insert c l) p l) <-> In x p \/ In x l.
Proof.
  induction p as [|c p IH]; intros l x; cbn [fold_left In]; [tauto|]. rewrite IH, sorted_insert_in. split; intros [H|H]; auto.
  - destruct H as [->|H]; auto.
  - destruct H as [<-|H]; auto.
Qed.

Lemma fold_sorted_insert_length p : forall l, (length (fold_left (fun l c => sorted_insert c l) p l) <= length l + length p)%nat.
Proof.
  induction p as [|c p IH]; intros l; cbn [fold_left length]; [lia|]. specialize (IH (sorted_insert c l)). pose proof (sorted_insert_length c l). lia.
Qed.

Lemma fold_bump_len p : forall f, fq_len f <= fq_len (fold_left fq_bump p f) /\ forall c, In c p -> c < fq_len (fold_left fq_bump p f).
Proof.
  induction p as [|c0 p IH]; intros f; cbn [fold_left]; [split; [lia|intros c []]|].
  destruct (IH (fq_bump f c0)) as [H1 H2].
  assert (Hb : fq_len f <= fq_len (fq_bump f c0) /\ c0 < fq_len (fq_bump f c0)).
  { unfold fq_bump. cbn [fq_len]. destruct (fq_len f <=? c0) eqn:E; [apply N.leb_le in E|apply N.leb_gt in E]; lia. }
  split; [lia|]. intros c [<-|Hc]; [lia|exact (H2 c Hc)].
Qed.

Lemma cw_add_all_chars {V} : forall pvs (n : nfa V) f pr n' f' pr',
  (forall c, In c pr -> c < fq_len f) ->
  cw_add_all V n f pr pvs = Ok (n', f', pr') ->
  (forall p v, In (p, v) pvs -> forall c, In c p -> In c pr') /\ (forall c, In c pr -> In c pr') /\ (forall c, In c pr' -> c < fq_len f')
  /\ (N.of_nat (length pr') <= N.of_nat (length pr) + total_len V pvs).
Proof.
  induction pvs as [|[p v] r IH]; intros n f pr n' f' pr' Hlt H; cbn [cw_add_all] in H.
  - inversion H; subst. split; [intros p v []|]. split; [auto|]. split; [exact Hlt|]. unfold total_len. cbn. lia.
  - destruct (add V len_utf8 n p v) as [n1| | | |]; cbn [bind] in H; try discriminate.
    destruct (fold_bump_len p f) as [B1 B2].
    destruct (IH n1 _ _ n' f' pr' ltac:(intros c Hc; apply fold_sorted_insert_in in Hc as [Hc|Hc]; [exact (B2 c Hc)|pose proof (Hlt c Hc); lia]) H) as (I1 & I2 & I3 & I4).
    split; [|split; [|split]].
    + intros q w [E|Hin] c Hc; [inversion E; subst; apply I2; apply fold_sorted_insert_in; left; exact Hc|exact (I1 q w Hin c Hc)].
    + intros c Hc. apply I2. apply fold_sorted_insert_in. right. exact Hc.
    + exact I3.
    + pose proof (fold_sorted_insert_length p pr). unfold total_len in *. cbn [fold_right fst]. lia.
Qed.

Theorem cw_build_valid (V : Type) k nfb (pvs : list (list N * V)) : nfb <> 0 ->
  4 * total_len V pvs <= U32_MAX - 1 -> spec_build_error (map fst pvs) = None -> okscale (cw_build_with_values V k nfb pvs).
Proof.
  intros Hnfb Hsz Hvalid.
  assert (Hpne : pvs <> []) by (intros ->; discriminate).
  assert (Efo0 : first_offence [] (map fst pvs) = None) by (destruct pvs; [congruence|exact Hvalid]).
  unfold cw_build_with_values. apply N.eqb_neq in Hnfb. rewrite Hnfb. apply N.eqb_neq in Hnfb.
  pose proof (cw_add_all_adds V pvs (nfa_new V k) {| fq_map := nempty; fq_len := 0 |} []) as Hadds.
  pose proof (adds_spec V len_utf8 len_utf8_pos len_utf8_le4 k pvs Hsz) as S.
  rewrite Efo0 in S.
  destruct (cw_add_all V (nfa_new V k) _ [] pvs) as [[[n0 f] pr]|e| | |] eqn:Ea; cbn [bind okscale];
    try (destruct S as (? & ? & S1 & _); rewrite Hadds in S1; discriminate).
  assert (Efo : first_offence [] (map fst pvs) = None) by exact Efo0.
  destruct S as (n0' & paths & S1 & T0 & Hk & Hlen & Hout). rewrite Hadds in S1. inversion S1; subst n0'; clear S1.
  destruct (n_len n0 =? 0) eqn:El; [exfalso; apply N.eqb_eq in El; rewrite Hlen in El; pose proof (regd_nonempty V k pvs Hpne); destruct (regd V k pvs); [congruence|cbn [length] in El; lia]|].
  apply first_offence_none in Efo as (Hne' & Hnd & _).
  destruct (regd_facts k pvs) as (Rin & Rnd & Rlen). pose proof (Rnd Hnd) as Hnd'.
  pose proof (adds_PEF V len_utf8 pvs _ n0 (nfa_new_PEF V k) Hadds) as HPEF.
  assert (EK0 : forall i st, nget i (n_states n0) = Some st -> NoDup (map fst (n_edges st))) by (intros i st Hg; exact (proj2 (HPEF i st Hg))).
  assert (F0 : forall i st, nget i (n_states n0) = Some st -> n_fail st = ROOT) by (intros i st Hg; exact (proj1 (HPEF i st Hg))).
  destruct (cw_add_all_inv V pvs _ _ _ _ _ _ (nfa_new_PLO_any V k) eq_refl Ea) as [HPLO _].
  assert (OP0 : forall i st, nget i (n_states n0) = Some st -> n_outpos st = 0) by (intros i st Hg; exact (proj1 (HPLO i st Hg))).
  assert (NE0 : regd V k pvs <> []) by (intros E0; rewrite E0 in Hlen; cbn in Hlen; rewrite Hlen in El; discriminate).
  assert (Hne : forall p v, In (p, v) pvs -> p <> []).
  { intros p v Hin. rewrite Forall_forall in Hne'. apply Hne'. apply in_map_iff. exists (p, v). auto. }
  assert (LEN0 : N.of_nat (length (regd V k pvs)) < U32_MAX) by (pose proof (count_le_total_len pvs Hne); unfold U32_MAX in *; lia).
  destruct (finish_nfa_any V len_utf8 len_utf8_pos k n0 _ paths T0 EK0 F0 Hnd' LEN0 OP0 Hout NE0 Hk)
    as (n2 & Hf & Hns & Htc & Hst & Hfail).
  rewrite Hf. cbn [bind].
  assert (Hnode : forall t, node V n2 t <-> exists w, N0 V n0 w t) by (apply node2_iff; exact Htc).
  assert (Hnd2 : forall w s, N0 V n0 w s -> s <> DEAD).
  { intros w s Hw ->. destruct (ti_bwd _ _ _ _ _ _ T0 _ _ Hw) as [[_ E]|[H2 _]]; [discriminate|unfold DEAD in H2; lia]. }
  set (mp := mapper_new f pr) in *.
  destruct (block_len_pow2 (mp_alpha mp)) as [kk [Hbk Hk1]].
  destruct (cw_add_all_chars pvs (nfa_new V k) {| fq_map := nempty; fq_len := 0 |} [] n0 f pr (fun c (H : In c []) => match H with end) Ea) as (Hchars & _ & Hprlt & Hprlen).
  assert (Hprs : StronglySorted N.lt pr) by (apply (cw_add_all_present pvs _ _ _ _ _ _ (SSorted_nil _) Ea)).
  assert (Halpha : mp_alpha mp < 2 ^ 30).
  { unfold mp, mapper_new. cbn [mp_alpha]. rewrite freq_sort_length, map_length. cbn [length] in Hprlen. unfold U32_MAX in Hsz. lia. }
  assert (Hlay : okscale (r0 <- cw_init_array (mp_alpha mp) nfb ;;
           let '(a0, h0, block_len) := r0 in
           r1 <- cw_dfs_loop V (S (N.to_nat (n_nstates n2))) (index_list (mp_table mp)) block_len n2 a0 h0 (nset ROOT ROOT nempty) [ROOT] ;;
           let '(a1, h1, idmap) := r1 in
           cw_set_fails_loop V n2 a1 idmap (nseq 0 (N.to_nat (n_nstates n2))))).
  { destruct (N.le_gt_cases (block_len_of (mp_alpha mp)) U32_MAX) as [Hbu|Hbig].
    2:{ unfold cw_init_array, helper_new. fold (block_len_of (mp_alpha mp)).
        assert ((U32_MAX <? block_len_of (mp_alpha mp) * nfb) = true) as -> by (apply N.ltb_lt; nia). exact I. }
    apply (cw_layout_total kk Hk1 V n2 (index_list (mp_table mp))); [| | | | | | | | | | | | |exact Hbk|lia].
    - eapply tf_wf; eassumption.
    - eapply tf_edges_child; try eassumption; exact len_utf8_pos.
    - eapply tf_child_node; try eassumption; exact len_utf8_pos.
    - eapply tf_uniq_parent; try eassumption; exact len_utf8_pos.
    - eapply tf_node_lt; try eassumption; exact len_utf8_pos.
    - eapply tf_edges_nodup; try eassumption; exact len_utf8_pos.
    - intros c m Hc. apply (code_of_lt (mp_table mp) (mp_alpha mp)) in Hc; [|intros x Hx; exact (mapper_new_codes f pr x Hx)].
      pose proof (block_len_ge (mp_alpha mp) Hbu) as Hge. rewrite Hbk in Hge. lia.
    - exact (mapper_code_inj f pr Hprs).
    - (* every edge label has a code *)
      intros s c t Ns Hin. apply (mapper_code_total f pr c).
      + apply Hnode in Ns as [w Hw].
        assert (Hc : tchild V n2 s c = Some t) by (eapply tf_edges_child; try eassumption; [exact len_utf8_pos|apply Hnode; eauto]).
        rewrite Htc in Hc. assert (Ht : N0 V n0 (w ++ [c]) t) by (apply (N0_snoc V n0); eauto).
        destruct (ti_bwd _ _ _ _ _ _ T0 _ _ Ht) as [[E _]|[_ Hp]]; [apply app_eq_nil in E as [_ E]; discriminate|].
        apply nth_error_In in Hp. apply (ti_mem _ _ _ _ _ _ T0) in Hp as [_ [[r Hr]|(q & v & Hq & [r Hr])]].
        * symmetry in Hr. apply app_eq_nil in Hr as [Hr _]. apply app_eq_nil in Hr as [_ Hr]. discriminate.
        * apply (Hchars q v (Rin _ Hq)). rewrite Hr. apply in_or_app. left. apply in_or_app. right. left. reflexivity.
      + apply Hprlt.
        apply Hnode in Ns as [w Hw].
        assert (Hc : tchild V n2 s c = Some t) by (eapply tf_edges_child; try eassumption; [exact len_utf8_pos|apply Hnode; eauto]).
        rewrite Htc in Hc. assert (Ht : N0 V n0 (w ++ [c]) t) by (apply (N0_snoc V n0); eauto).
        destruct (ti_bwd _ _ _ _ _ _ T0 _ _ Ht) as [[E _]|[_ Hp]]; [apply app_eq_nil in E as [_ E]; discriminate|].
        apply nth_error_In in Hp. apply (ti_mem _ _ _ _ _ _ T0) in Hp as [_ [[r Hr]|(q & v & Hq & [r Hr])]].
        * symmetry in Hr. apply app_eq_nil in Hr as [Hr _]. apply app_eq_nil in Hr as [_ Hr]. discriminate.
        * apply (Hchars q v (Rin _ Hq)). rewrite Hr. apply in_or_app. left. apply in_or_app. right. left. reflexivity.
      + cbn [length] in Hprlen. unfold INVALID_CODE. unfold U32_MAX in Hsz. lia.
    - apply Hnode. exists []. reflexivity.
    - eapply tf_nstates_nodes; try eassumption; exact len_utf8_pos.
    - intros Hd. apply Hnode in Hd as [w Hw]. exact (Hnd2 w DEAD Hw eq_refl).
    - intros s st Ns Hg. apply Hnode in Ns as [w Hw].
      assert (Efl : n_fail st = failof V n2 s).
      { unfold nfa_get in Hg. unfold failof. destruct (s <? n_nstates n2); [|discriminate]. destruct (nget s (n_states n2)); [inversion Hg; reflexivity|discriminate]. }
      rewrite Efl. destruct (Hfail w s Hw) as [Hd|[w' Hw']]; [left; exact Hd|right; apply Hnode; eauto]. }
  fold mp.
  destruct (cw_init_array (mp_alpha mp) nfb) as [[[a0 h0] b]|e| | |]; cbn [okscale bind] in *; try contradiction; [|exact Hlay].
  destruct (cw_dfs_loop V _ _ b n2 a0 h0 _ _) as [[[a1 h1] idmap]|e| | |]; cbn [okscale bind] in *; try contradiction; [|exact Hlay].
  destruct (cw_set_fails_loop V n2 a1 idmap _) as [a2|e| | |]; cbn [okscale bind] in *; try contradiction; [|exact Hlay].
  destruct (U32_MAX <? n_nstates n2 - 1); exact I.
Qed.

Theorem cw_build_no_panic (V : Type) k nfb (pvs : list (list N * V)) : nfb <> 0 ->
  4 * total_len V pvs <= U32_MAX - 1 -> no_panic (cw_build_with_values V k nfb pvs).
Proof.
  intros Hnfb Hsz. destruct (spec_build_error (map fst pvs)) as [e|] eqn:Es.
  - rewrite (cw_build_error_lemma V k nfb pvs e Hnfb Hsz Es). exact I.
  - apply okscale_no_panic. exact (cw_build_valid V k nfb pvs Hnfb Hsz Es).
Qed.

(* ---- the pattern-only entry points (values = input positions converted with V::try_from) ----------- *)
Definition plain_len (ps : list (list N)) : N := fold_right (fun p a => N.of_nat (length p) + a) 0 ps.

Lemma bw_enumerate_conv_fst (V : Type) conv : forall ps i pvs, enumerate_conv V conv i ps = Some pvs -> map fst pvs = ps.
Proof.
  induction ps as [|p r IH]; intros i pvs H; cbn [enumerate_conv] in H; [inversion H; reflexivity|].
  destruct (conv i) as [v|]; [|discriminate]. destruct (enumerate_conv V conv (S i) r) as [l|] eqn:E; [|discriminate].
  inversion H; subst. cbn [map fst]. f_equal. exact (IH (S i) l E).
Qed.
Lemma cw_enumerate_conv_fst (V : Type) conv : forall ps i pvs, cw_enumerate_conv V conv i ps = Some pvs -> map fst pvs = ps.
Proof.
  induction ps as [|p r IH]; intros i pvs H; cbn [cw_enumerate_conv] in H; [inversion H; reflexivity|].
  destruct (conv i) as [v|]; [|discriminate]. destruct (cw_enumerate_conv V conv (S i) r) as [l|] eqn:E; [|discriminate].
  inversion H; subst. cbn [map fst]. f_equal. exact (IH (S i) l E).
Qed.
Lemma total_len_plain {V} (pvs : list (list N * V)) : total_len V pvs = plain_len (map fst pvs).
Proof. unfold total_len, plain_len. induction pvs as [|pv r IH]; cbn [fold_right map]; [reflexivity|]. rewrite IH. reflexivity. Qed.

Theorem bw_build_entry_no_panic (V : Type) conv k nfb (ps : list (list N)) : nfb <> 0 ->
  (forall p, In p ps -> Forall (fun b => b < 256) p) -> 4 * plain_len ps <= U32_MAX - 1 ->
  no_panic (bw_build V conv k nfb ps).
Proof.
  intros Hn Hb Hs. unfold bw_build. apply N.eqb_neq in Hn. rewrite Hn. apply N.eqb_neq in Hn.
  destruct (enumerate_conv V conv 0 ps) as [pvs|] eqn:E; [|exact I].
  pose proof (bw_enumerate_conv_fst V conv ps 0%nat pvs E) as Hfst.
  apply bw_build_no_panic; [exact Hn| |rewrite total_len_plain, Hfst; exact Hs].
  intros p v Hin. apply Hb. rewrite <- Hfst. apply in_map_iff. exists (p, v). auto.
Qed.

Theorem cw_build_entry_no_panic (V : Type) conv k nfb (ps : list (list N)) : nfb <> 0 ->
  4 * plain_len ps <= U32_MAX - 1 -> no_panic (cw_build V conv k nfb ps).
Proof.
  intros Hn Hs. unfold cw_build. apply N.eqb_neq in Hn. rewrite Hn. apply N.eqb_neq in Hn.
  destruct (cw_enumerate_conv V conv 0 ps) as [pvs|] eqn:E; [|exact I].
  pose proof (cw_enumerate_conv_fst V conv ps 0%nat pvs E) as Hfst.
  apply cw_build_no_panic; [exact Hn|rewrite total_len_plain, Hfst; exact Hs].
Qed.
