(* NoPanic.v — C10, "never panics": for EVERY pattern sequence (total length below 2^30 labels),
   every match kind and every num_free_blocks >= 1, construction returns Ok or one of the
   documented errors — never a panic (failed assertion / unwrap / index), undefined behaviour or
   fuel exhaustion of the model.  Chain: the trie invariant (pattern loop), NfaFails / NfaFailsLm
   (the fail-link and output phases succeed), NoPanicBw (the layout phase succeeds or reports
   AutomatonScale). *)
From DV Require Import Model.Base Model.Nfa Model.Helper Model.BwBuild Model.BwSearch Model.Utf8 Model.CwBuild Model.CwSearch
     Model.Spec Model.Cert
     Proofs.GenAC Proofs.TrieInv Proofs.BuildTrie Proofs.BuildSafe Proofs.CwBuildSafe Proofs.NfaFails Proofs.NfaFailsLm
     Proofs.DaRefine Proofs.CwDaRefine Proofs.BwSafe Proofs.BuildProps Proofs.BuildCert Proofs.CwBuildCert Proofs.BuildStats
     Proofs.BuildCertLm Proofs.NoPanicBw.
From Coq Require Import Sorted ZifyN ZifyNat ZifyBool.
Local Open Scope N_scope.

Definition no_panic {X} (r : res X) : Prop := match r with Ok _ | Err _ => True | _ => False end.

Lemma okscale_no_panic {X} (r : res X) : okscale r -> no_panic r.
Proof. destruct r as [x|e| | |]; cbn; auto. Qed.

(* the finished NFA of an accepted collection, whatever the kind: same trie, fail links lead to
   nodes or to the dead state *)
Lemma finish_nfa_any (V : Type) (lbytes : N -> N) (lb_pos : forall c, 1 <= lbytes c) k (n0 : nfa V) (outs : list (list N * V)) paths :
  TI V lbytes n0 outs [] paths ->
  (forall i st, nget i (n_states n0) = Some st -> NoDup (map fst (n_edges st))) ->
  (forall i st, nget i (n_states n0) = Some st -> n_fail st = ROOT) ->
  NoDup (map fst outs) -> N.of_nat (length outs) < U32_MAX ->
  (forall i st, nget i (n_states n0) = Some st -> n_outpos st = 0) ->
  n_outputs n0 = [] -> outs <> [] -> n_kind n0 = k ->
  exists n2, finish_nfa V n0 = Ok n2 /\ n_nstates n2 = n_nstates n0
    /\ (forall s c, tchild V n2 s c = tchild V n0 s c)
    /\ (forall i, i < n_nstates n0 -> exists st st0, nget i (n_states n2) = Some st /\ nget i (n_states n0) = Some st0
                                                   /\ n_edges st = n_edges st0 /\ n_output st = n_output st0)
    /\ (forall w t, N0 V n0 w t -> failof V n2 t = DEAD \/ exists w', N0 V n0 w' (failof V n2 t)).
Proof.
  intros T0 EK0 F0 Hnd LEN0 OP0 Hout NE0 Hk. destruct k.
  - destruct (finish_nfa_std_ok V lbytes lb_pos n0 outs paths T0 EK0 F0 Hnd LEN0 OP0 Hout NE0 Hk)
      as (n2 & Hf & Hns & _ & Htc & Hfail & _ & _ & Hst).
    exists n2. split; [exact Hf|]. split; [exact Hns|]. split; [exact Htc|]. split; [exact Hst|].
    intros w t Hw. right. eexists. exact (Hfail w t Hw).
  - assert (LM0 : n_kind n0 <> Standard) by congruence.
    destruct (build_fails_ok V lbytes lb_pos n0 _ paths T0 EK0 F0) as (ng & qg & _ & STg & Fg & _).
    destruct (finish_nfa_lm_ok V lbytes lb_pos n0 _ paths T0 EK0 F0 Hnd ng STg Fg LEN0 OP0 Hout NE0 LM0)
      as (n2 & Hf & Hns & _ & Htc & Hfail & _ & _ & Hst & Hroot).
    exists n2. split; [exact Hf|]. split; [exact Hns|]. split; [exact Htc|]. split; [exact Hst|].
    intros w t Hw. destruct w as [|c w].
    + unfold N0 in Hw. cbn in Hw. inversion Hw; subst t. right. exists []. rewrite Hroot. reflexivity.
    + specialize (Hfail _ t Hw ltac:(discriminate)). unfold lfail_spec in Hfail.
      destruct (Cert.lm_dead _ _ _ _); [left; exact Hfail|right; eexists; exact Hfail].
  - assert (LM0 : n_kind n0 <> Standard) by congruence.
    destruct (build_fails_ok V lbytes lb_pos n0 _ paths T0 EK0 F0) as (ng & qg & _ & STg & Fg & _).
    destruct (finish_nfa_lm_ok V lbytes lb_pos n0 _ paths T0 EK0 F0 Hnd ng STg Fg LEN0 OP0 Hout NE0 LM0)
      as (n2 & Hf & Hns & _ & Htc & Hfail & _ & _ & Hst & Hroot).
    exists n2. split; [exact Hf|]. split; [exact Hns|]. split; [exact Htc|]. split; [exact Hst|].
    intros w t Hw. destruct w as [|c w].
    + unfold N0 in Hw. cbn in Hw. inversion Hw; subst t. right. exists []. rewrite Hroot. reflexivity.
    + specialize (Hfail _ t Hw ltac:(discriminate)). unfold lfail_spec in Hfail.
      destruct (Cert.lm_dead _ _ _ _); [left; exact Hfail|right; eexists; exact Hfail].
Qed.

Lemma bw_sparse_nfa_no_panic (V : Type) k (pvs : list (list N * V)) :
  (forall p v, In (p, v) pvs -> Forall (fun b => b < 256) p) -> 4 * total_len V pvs <= U32_MAX - 1 ->
  no_panic (bw_build_sparse_nfa V k pvs).
Proof.
  intros Hbytes Hsz. unfold bw_build_sparse_nfa. rewrite add_all_adds.
  pose proof (adds_spec V (fun _ => 1) one_pos one_le4 k pvs Hsz) as S.
  destruct (first_offence [] (map fst pvs)) as [e|] eqn:Efo; [rewrite S; exact I|].
  destruct S as (n0 & paths & S1 & T0 & Hk & Hlen & Hout). rewrite S1. cbn [bind].
  destruct (n_len n0 =? 0) eqn:El; [exact I|]. destruct (U24_MAX <? n_len n0) eqn:E24; [exact I|].
  apply first_offence_none in Efo as (Hne' & Hnd & _).
  destruct (regd_facts k pvs) as (Rin & Rnd & Rlen). pose proof (Rnd Hnd) as Hnd'.
  pose proof (adds_PEF V (fun _ => 1) pvs _ n0 (nfa_new_PEF V k) S1) as HPEF.
  assert (EK0 : forall i st, nget i (n_states n0) = Some st -> NoDup (map fst (n_edges st))) by (intros i st Hg; exact (proj2 (HPEF i st Hg))).
  assert (F0 : forall i st, nget i (n_states n0) = Some st -> n_fail st = ROOT) by (intros i st Hg; exact (proj1 (HPEF i st Hg))).
  rewrite <- add_all_adds in S1.
  destruct (add_all_inv V pvs _ n0 Hbytes (nfa_new_PLO V k) eq_refl S1) as [HPLO _].
  assert (OP0 : forall i st, nget i (n_states n0) = Some st -> n_outpos st = 0) by (intros i st Hg; exact (proj1 (HPLO i st Hg))).
  assert (NE0 : regd V k pvs <> []) by (intros E0; rewrite E0 in Hlen; cbn in Hlen; rewrite Hlen in El; discriminate).
  assert (LEN0 : N.of_nat (length (regd V k pvs)) < U32_MAX) by (apply N.ltb_ge in E24; unfold U24_MAX, U32_MAX in *; lia).
  destruct (finish_nfa_any V (fun _ => 1) one_pos k n0 _ paths T0 EK0 F0 Hnd' LEN0 OP0 Hout NE0 Hk) as (n2' & Hf & _).
  rewrite Hf. exact I.
Qed.

Theorem bw_build_no_panic (V : Type) k nfb (pvs : list (list N * V)) : nfb <> 0 ->
  (forall p v, In (p, v) pvs -> Forall (fun b => b < 256) p) -> 4 * total_len V pvs <= U32_MAX - 1 ->
  no_panic (bw_build_with_values V k nfb pvs).
Proof.
  intros Hnfb Hbytes Hsz. unfold bw_build_with_values. apply N.eqb_neq in Hnfb. rewrite Hnfb. apply N.eqb_neq in Hnfb.
  pose proof (bw_sparse_nfa_no_panic V k pvs Hbytes Hsz) as Hnp.
  destruct (bw_build_sparse_nfa V k pvs) as [n2|e| | |] eqn:En; cbn [bind no_panic] in *; try exact I; try contradiction.
  - (* the NFA exists: the layout cannot panic *)
    pose proof (bw_sparse_nfa_inv V k pvs n2 Hbytes En) as [HA2 _].
    unfold bw_build_sparse_nfa in En. destruct (add_all V (fun _ => 1) (nfa_new V k) pvs) as [n0| | | |] eqn:Ea; cbn [bind] in En; try discriminate.
    destruct (n_len n0 =? 0) eqn:El; [discriminate|]. destruct (U24_MAX <? n_len n0) eqn:E24; [discriminate|].
    rewrite add_all_adds in Ea.
    pose proof (adds_spec V (fun _ => 1) one_pos one_le4 k pvs Hsz) as S.
    destruct (first_offence [] (map fst pvs)) as [e|] eqn:Efo; [rewrite Ea in S; discriminate|].
    destruct S as (n0' & paths & S1 & T0 & Hk & Hlen & Hout). rewrite Ea in S1. inversion S1; subst n0'; clear S1.
    apply first_offence_none in Efo as (Hne' & Hnd & _).
    destruct (regd_facts k pvs) as (Rin & Rnd & Rlen). pose proof (Rnd Hnd) as Hnd'.
    pose proof (adds_PEF V (fun _ => 1) pvs _ n0 (nfa_new_PEF V k) Ea) as HPEF.
    assert (EK0 : forall i st, nget i (n_states n0) = Some st -> NoDup (map fst (n_edges st))) by (intros i st Hg; exact (proj2 (HPEF i st Hg))).
    assert (F0 : forall i st, nget i (n_states n0) = Some st -> n_fail st = ROOT) by (intros i st Hg; exact (proj1 (HPEF i st Hg))).
    rewrite <- add_all_adds in Ea.
    destruct (add_all_inv V pvs _ n0 Hbytes (nfa_new_PLO V k) eq_refl Ea) as [HPLO _].
    assert (OP0 : forall i st, nget i (n_states n0) = Some st -> n_outpos st = 0) by (intros i st Hg; exact (proj1 (HPLO i st Hg))).
    assert (NE0 : regd V k pvs <> []) by (intros E0; rewrite E0 in Hlen; cbn in Hlen; rewrite Hlen in El; discriminate).
    assert (LEN0 : N.of_nat (length (regd V k pvs)) < U32_MAX) by (apply N.ltb_ge in E24; unfold U24_MAX, U32_MAX in *; lia).
    destruct (finish_nfa_any V (fun _ => 1) one_pos k n0 _ paths T0 EK0 F0 Hnd' LEN0 OP0 Hout NE0 Hk)
      as (n2' & Hf & Hns & Htc & Hst & Hfail).
    rewrite En in Hf. inversion Hf; subst n2'; clear Hf.
    assert (Hlab : forall i st, nget i (n_states n2) = Some st -> forall c t, In (c, t) (n_edges st) -> c < 256) by (intros i st Hg; exact (proj2 (HA2 i st Hg))).
    assert (Hnode : forall t, node V n2 t <-> exists w, N0 V n0 w t) by (apply node2_iff; exact Htc).
    assert (Hnd2 : forall w s, N0 V n0 w s -> s <> DEAD).
    { intros w s Hw ->. destruct (ti_bwd _ _ _ _ _ _ T0 _ _ Hw) as [[_ E]|[H2 _]]; [discriminate|unfold DEAD in H2; lia]. }
    assert (Hlay : okscale (build_double_array V nfb n2)).
    { apply build_double_array_total; [| | | | | | | | | | |lia].
      - eapply tf_wf; eassumption.
      - eapply tf_edges_child; try eassumption; exact one_pos.
      - eapply tf_labels; eassumption.
      - eapply tf_child_node; try eassumption; exact one_pos.
      - eapply tf_uniq_parent; try eassumption; exact one_pos.
      - eapply tf_nonroot_parent; eassumption.
      - eapply tf_node_lt; try eassumption; exact one_pos.
      - eapply tf_edges_nodup; try eassumption; exact one_pos.
      - eapply tf_nstates_nodes; try eassumption; exact one_pos.
      - intros Hd. apply Hnode in Hd as [w Hw]. exact (Hnd2 w DEAD Hw eq_refl).
      - intros s st Ns Hg. apply Hnode in Ns as [w Hw].
        assert (Efl : n_fail st = failof V n2 s).
        { unfold nfa_get in Hg. unfold failof. destruct (s <? n_nstates n2); [|discriminate]. destruct (nget s (n_states n2)); [inversion Hg; reflexivity|discriminate]. }
        rewrite Efl. destruct (Hfail w s Hw) as [Hd|[w' Hw']]; [left; exact Hd|right; apply Hnode; eauto]. }
    destruct (build_double_array V nfb n2) as [sts|e| | |]; cbn [okscale bind] in *; try contradiction; [|exact I].
    destruct (U32_MAX <? n_nstates n2 - 1); exact I.
Qed.
