(* OverlapOnce.v — C01 as ONE statement per variant: on every built automaton of the standard kind the
   overlapping search returns a list that (i) contains exactly the occurrences (occ_at), (ii) contains
   each of them exactly once (NoDup) and (iii) is STRICTLY ordered by end position and, among equal
   ends, by start (longest first). *)
From DV Require Import Model.Base Model.Nfa Model.BwBuild Model.BwSearch Model.Utf8 Model.CwBuild Model.CwSearch
     Model.Api Model.Spec Model.Cert Proofs.Utf8Props Proofs.TrieInv Proofs.BuildTrie Proofs.BuildProps
     Proofs.BwCert Proofs.CwCert Proofs.BuiltAutomata Theory.SpecAdequacy Theory.Utf8Spec.
From Coq Require Import Sorted ZifyN ZifyNat ZifyBool.
Local Open Scope N_scope.

Section Once.
Variable V : Type.

Lemma ssorted_slt_nodup (l : list (nat * nat * V)) : StronglySorted (slt V) l -> NoDup l.
Proof.
  induction 1 as [|a l Hs IH Hall]; constructor; [|exact IH].
  intros Hin. rewrite Forall_forall in Hall. exact (slt_irrefl V a (Hall a Hin)).
Qed.

Definition exactly_the_occurrences_once (pvs : list (list N * V)) (h : list N) (ms : list (nat * nat * V)) : Prop :=
  (forall s e v, In (s, e, v) ms <-> occ_at V pvs h s e v) /\ NoDup ms /\ StronglySorted (slt V) ms.

Lemma spec_overlapping_once pvs h : NoDup (map fst pvs) -> exactly_the_occurrences_once pvs h (spec_overlapping V pvs h).
Proof.
  intros Hn. pose proof (spec_overlapping_ssorted V pvs h Hn) as Hs. split; [|split; [exact (ssorted_slt_nodup _ Hs)|exact Hs]].
  intros s e v. apply spec_overlapping_adequate.
Qed.

Variable veqb : V -> V -> bool.
Hypothesis veqb_eq : forall a b, veqb a b = true <-> a = b.

Theorem bw_overlapping_once nfb (pvs : list (list N * V)) (A : bw_automaton V) :
  (forall p v, In (p, v) pvs -> Forall (fun b => b < 256) p) -> 4 * total_len V pvs <= U32_MAX - 1 ->
  bw_build_with_values V Standard nfb pvs = Ok A ->
  forall h, Forall (fun b => b < 256) h ->
  exists ms, bw_find_overlapping_iter V A h = Ok ms /\ exactly_the_occurrences_once pvs h ms.
Proof.
  intros Hb Hs HA h Hh. exists (spec_overlapping V pvs h). split; [exact (built_overlapping V veqb veqb_eq nfb pvs A Hb Hs HA h Hh)|].
  apply spec_overlapping_once. destruct (bw_build_ok_lemma V Standard nfb pvs A Hs HA) as (Hv & _).
  apply spec_build_error_none_iff_valid in Hv as (_ & _ & Hnd). exact Hnd.
Qed.

Theorem cw_overlapping_once nfb (pvs : list (list N * V)) (A : cw_automaton V) :
  (forall p v, In (p, v) pvs -> Forall scalar p) -> 4 * total_len V pvs <= U32_MAX - 1 ->
  cw_build_with_values V Standard nfb pvs = Ok A ->
  forall cs, Forall scalar cs ->
  exists ms, cw_find_overlapping_iter V A (encode_utf8 cs) = Ok ms
             /\ exactly_the_occurrences_once (bpvs V pvs) (encode_utf8 cs) ms.
Proof.
  intros Hsc Hs HA cs Hcs. exists (spec_overlapping V (bpvs V pvs) (encode_utf8 cs)).
  destruct (cw_build_ok_lemma V Standard nfb pvs A Hs HA) as (Hv & _).
  apply spec_build_error_none_iff_valid in Hv as (_ & Hne0 & Hnd).
  assert (Hne : forall p v, In (p, v) pvs -> p <> []).
  { intros p w Hp. rewrite Forall_forall in Hne0. apply Hne0. apply in_map_iff. exists (p, w). auto. }
  split.
  - rewrite (cw_built_overlapping V veqb veqb_eq nfb pvs A Hs HA cs Hcs). f_equal.
    symmetry. exact (spec_bytes_eq_spec_chars V pvs Hne Hsc Hnd cs Hcs).
  - apply spec_overlapping_once. exact (bpvs_nodup V pvs Hsc Hnd).
Qed.
End Once.
