(* Utf8Sound.v — std's decoder (decode_one / chars_of) accepts ONLY encodings of scalar values: valid UTF-8 is exactly
   the image of encode_utf8 on texts of scalar values (with chars_of_encode: the two are inverse). *)
From DV Require Import Model.Base Model.Utf8 Proofs.Utf8Props.
From Coq Require Import ZifyN ZifyNat ZifyBool.
Ltac Zify.zify_post_hook ::= Z.div_mod_to_equations.
Local Open Scope N_scope.

Lemma is_cont_range b : is_cont b = true -> 128 <= b < 192.
Proof. unfold is_cont. lia. Qed.

(* std's decoder accepts only the encoding of a scalar value: the accepted bytes ARE its encoding *)
Lemma decode_one_sound bs c r : decode_one bs = Some (c, r) -> scalar c /\ bs = encode_char c ++ r.
Proof.
  unfold decode_one, scalar. destruct bs as [|b0 t]; [discriminate|].
  destruct (b0 <? 128) eqn:E0.
  { intros H. injection H as <- <-. split; [unfold is_scalar; lia|]. unfold encode_char. rewrite E0. reflexivity. }
  destruct (b0 <? 194) eqn:E1; [discriminate|].
  destruct (b0 <? 224) eqn:E2.
  { destruct t as [|b1 t1]; [discriminate|]. destruct (is_cont b1) eqn:C1; [|discriminate].
    intros H. injection H as Hc <-. apply is_cont_range in C1.
    assert (Hr : 128 <= c < 2048) by lia.
    split; [unfold is_scalar; lia|]. unfold encode_char.
    replace (c <? 128) with false by lia. replace (c <? 2048) with true by lia.
    cbn [app]. f_equal; [lia|]. f_equal. lia. }
  destruct (b0 <? 240) eqn:E3.
  { destruct t as [|b1 [|b2 t2]]; try discriminate.
    destruct (is_cont b1) eqn:C1; cbn [andb]; [|discriminate].
    destruct (is_cont b2) eqn:C2; cbn [andb]; [|discriminate].
    destruct (2048 <=? _) eqn:L; cbn [andb]; [|discriminate].
    destruct (is_scalar _) eqn:S; [|discriminate].
    intros H. injection H as Hc <-. rewrite Hc in *. apply is_cont_range in C1. apply is_cont_range in C2.
    assert (Hr : 2048 <= c < 65536) by lia.
    split; [exact S|]. unfold encode_char.
    replace (c <? 128) with false by lia. replace (c <? 2048) with false by lia. replace (c <? 65536) with true by lia.
    cbn [app]. f_equal; [lia|]. f_equal; [lia|]. f_equal. lia. }
  destruct (b0 <? 245) eqn:E4; [|discriminate].
  destruct t as [|b1 [|b2 [|b3 t3]]]; try discriminate.
  destruct (is_cont b1) eqn:C1; cbn [andb]; [|discriminate].
  destruct (is_cont b2) eqn:C2; cbn [andb]; [|discriminate].
  destruct (is_cont b3) eqn:C3; cbn [andb]; [|discriminate].
  destruct (65536 <=? _) eqn:L; cbn [andb]; [|discriminate].
  destruct (_ <=? 1114111) eqn:U; [|discriminate].
  intros H. injection H as Hc <-. rewrite Hc in *. apply is_cont_range in C1. apply is_cont_range in C2. apply is_cont_range in C3.
  split; [unfold is_scalar; lia|]. unfold encode_char.
  replace (c <? 128) with false by lia. replace (c <? 2048) with false by lia. replace (c <? 65536) with false by lia.
  cbn [app]. f_equal; [lia|]. f_equal; [lia|]. f_equal; [lia|]. f_equal. lia.
Qed.

Lemma decode_utf8_sound : forall fuel bs cs, decode_utf8 fuel bs = Some cs -> Forall scalar cs /\ bs = encode_utf8 cs.
Proof.
  induction fuel as [|f IH]; intros bs cs H.
  - destruct bs; [injection H as <-; split; [constructor|reflexivity]|discriminate].
  - destruct bs as [|b t]; [injection H as <-; split; [constructor|reflexivity]|].
    cbn [decode_utf8] in H. destruct (decode_one (b :: t)) as [[c r]|] eqn:E; [|discriminate].
    destruct (decode_utf8 f r) as [cs'|] eqn:E2; [|discriminate]. injection H as <-.
    destruct (decode_one_sound _ _ _ E) as [Hc Hb]. destruct (IH r cs' E2) as [Hs Hr].
    split; [constructor; assumption|]. cbn [encode_utf8 flat_map]. fold (encode_utf8 cs'). rewrite Hb, Hr. reflexivity.
Qed.

(* valid UTF-8 = the encoding of a text of scalar values (with chars_of_encode: exactly) *)
Theorem chars_of_sound bs cs : chars_of bs = Some cs -> Forall scalar cs /\ bs = encode_utf8 cs.
Proof. unfold chars_of. apply decode_utf8_sound. Qed.

Theorem valid_utf8_iff bs : valid_utf8 bs = true <-> exists cs, Forall scalar cs /\ bs = encode_utf8 cs.
Proof.
  unfold valid_utf8. split.
  - destruct (chars_of bs) as [cs|] eqn:E; [|discriminate]. intros _. exists cs. exact (chars_of_sound bs cs E).
  - intros (cs & Hs & ->). rewrite (chars_of_encode cs Hs). reflexivity.
Qed.
