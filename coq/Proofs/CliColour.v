(* CliColour.v — C16, the colour arm of daacfind (Model/Cli.v): for a line that contains an
   occurrence the highlighter prints the line's own bytes, cut into maximal runs, each run behind
   the escape sequence of its colour; the red runs are EXACTLY the bytes covered by at least one
   occurrence of some pattern.  The depth sweep over the no-suffix matches is related to coverage
   by counting: depth after position p = number of matches m with start m <= p < end m. *)
From DV Require Import Model.Base Model.Nfa Model.BwBuild Model.BwSearch Model.Api Model.Spec Model.Utf8
     Model.Cert Model.Cli Proofs.GenAC Proofs.BwCert Theory.SpecAdequacy Proofs.CliProps Proofs.Utf8Props Proofs.IterPull Theory.Utf8Spec.
From Coq Require Import ZArith ZifyN ZifyNat ZifyBool.
Local Open Scope N_scope.

Notation st_ m := (fst (fst m)).
Notation en_ m := (snd (fst m)).

(* the rendering the property describes: the line's bytes in maximal runs; [run] is the run being
   collected, [inred] its colour *)
Fixpoint render (cov : nat -> bool) (rest : list N) (pos : nat) (inred : bool) (run : list N) : list N :=
  match rest with
  | [] => if inred then ESC_RED ++ run ++ ESC_RESET else ESC_RESET ++ run
  | b :: r =>
    if Bool.eqb (cov pos) inred then render cov r (S pos) inred (run ++ [b])
    else (if inred then ESC_RED else ESC_RESET) ++ run ++ render cov r (S pos) (cov pos) [b]
  end.

(* stripping the escape sequences of a rendering gives back the line, whatever the coverage *)
Fixpoint render_plain (cov : nat -> bool) (rest : list N) (pos : nat) (inred : bool) (run : list N) : list N :=
  match rest with
  | [] => run
  | b :: r => if Bool.eqb (cov pos) inred then render_plain cov r (S pos) inred (run ++ [b])
              else run ++ render_plain cov r (S pos) (cov pos) [b]
  end.
Lemma render_plain_id cov : forall rest pos inred run, render_plain cov rest pos inred run = run ++ rest.
Proof.
  induction rest as [|b r IH]; intros pos inred run; cbn [render_plain]; [rewrite app_nil_r; reflexivity|].
  destruct (Bool.eqb (cov pos) inred); rewrite IH; [rewrite <- app_assoc|]; reflexivity.
Qed.

Section Count.
Context {T : Type}.
Lemma count_if_cons (f : T -> bool) x l : count_if f (x :: l) = ((if f x then 1 else 0) + count_if f l)%nat.
Proof. unfold count_if. cbn [filter]. destruct (f x); reflexivity. Qed.

Lemma count_lt_succ (g : T -> nat) l p :
  count_if (fun m => (g m <? S p)%nat) l = (count_if (fun m => (g m <? p)%nat) l + count_if (fun m => (g m =? p)%nat) l)%nat.
Proof.
  induction l as [|x l IH]; [reflexivity|]. rewrite !count_if_cons, IH.
  destruct (g x <? S p)%nat eqn:E1, (g x <? p)%nat eqn:E2, (g x =? p)%nat eqn:E3; lia.
Qed.

Lemma count_pos_iff (f : T -> bool) l : (0 < count_if f l)%nat <-> existsb f l = true.
Proof.
  induction l as [|x l IH]; [cbn; split; [lia|discriminate]|]. rewrite count_if_cons. cbn [existsb].
  destruct (f x); cbn [orb]; [split; [reflexivity|lia]|]. rewrite <- IH. cbn. reflexivity.
Qed.
Lemma count_lt_0 (g : T -> nat) l : count_if (fun m => (g m <? 0)%nat) l = 0%nat.
Proof. induction l as [|x l IH]; [reflexivity|]. rewrite count_if_cons, IH. reflexivity. Qed.

Lemma count_cover (s e : T -> nat) l p : (forall m, In m l -> (s m < e m)%nat) ->
  (Z.of_nat (count_if (fun m => (s m <? S p)%nat) l) - Z.of_nat (count_if (fun m => (e m <? S p)%nat) l))%Z
  = Z.of_nat (count_if (fun m => (s m <=? p)%nat && (p <? e m)%nat) l).
Proof.
  induction l as [|x l IH]; intros Hok; [reflexivity|]. rewrite !count_if_cons.
  specialize (IH (fun m Hm => Hok m (or_intror Hm))). pose proof (Hok x (or_introl eq_refl)) as Hx.
  destruct (s x <? S p)%nat eqn:E1, (e x <? S p)%nat eqn:E2, ((s x <=? p)%nat && (p <? e x)%nat) eqn:E3; lia.
Qed.
End Count.

Section Sweep.
Variable ms : list (nat * nat * unit).
Hypothesis ms_ok : forall m, In m ms -> (st_ m < en_ m)%nat.

Definition D (p : nat) : Z :=
  (Z.of_nat (count_if (fun m => (st_ m <? p)%nat) ms) - Z.of_nat (count_if (fun m => (en_ m <? p)%nat) ms))%Z.
Definition mcov (p : nat) : bool := existsb (fun m => (st_ m <=? p)%nat && (p <? en_ m)%nat) ms.

Lemma D_0 : D 0 = 0%Z.
Proof. unfold D. rewrite !count_lt_0. reflexivity. Qed.

Lemma D_succ p : D (S p) = (D p + color_count ms p)%Z.
Proof. unfold D, color_count. rewrite !count_lt_succ. lia. Qed.

Lemma D_cover p : D (S p) = Z.of_nat (count_if (fun m => (st_ m <=? p)%nat && (p <? en_ m)%nat) ms).
Proof. unfold D. apply count_cover. exact ms_ok. Qed.

Lemma D_nonzero p : negb (D (S p) =? 0)%Z = mcov p.
Proof.
  rewrite D_cover. unfold mcov. destruct (existsb _ ms) eqn:E.
  - apply count_pos_iff in E. apply negb_true_iff. apply Z.eqb_neq. lia.
  - apply negb_false_iff. apply Z.eqb_eq. destruct (count_if _ ms) eqn:Ec; [reflexivity|].
    assert (0 < count_if (fun m => (st_ m <=? p)%nat && (p <? en_ m)%nat) ms)%nat as Hp by lia. apply count_pos_iff in Hp. congruence.
Qed.

Lemma D_end len : (forall m, In m ms -> (en_ m <= len)%nat) -> D (S len) = 0%Z.
Proof.
  intros Hle. rewrite D_cover. assert (count_if (fun m => (st_ m <=? len)%nat && (len <? en_ m)%nat) ms = 0%nat) as ->; [|reflexivity].
  destruct (count_if _ ms) eqn:E; [reflexivity|]. exfalso.
  assert (0 < count_if (fun m => (st_ m <=? len)%nat && (len <? en_ m)%nat) ms)%nat as Hp by lia.
  apply count_pos_iff in Hp. apply existsb_exists in Hp as (m & Hm & Hc). specialize (Hle m Hm). lia.
Qed.

Lemma transition_endpoint p : color_count ms p <> 0%Z -> exists m, In m ms /\ (st_ m = p \/ en_ m = p).
Proof.
  unfold color_count. intros H.
  destruct (count_if (fun m => (st_ m =? p)%nat) ms) eqn:E1.
  - destruct (count_if (fun m => (en_ m =? p)%nat) ms) eqn:E2; [cbn in H; congruence|].
    assert (0 < count_if (fun m => (en_ m =? p)%nat) ms)%nat as Hp by lia. apply count_pos_iff in Hp.
    apply existsb_exists in Hp as (m & Hm & Hc). exists m. split; [exact Hm|right; lia].
  - assert (0 < count_if (fun m => (st_ m =? p)%nat) ms)%nat as Hp by lia. apply count_pos_iff in Hp.
    apply existsb_exists in Hp as (m & Hm & Hc). exists m. split; [exact Hm|left; lia].
Qed.

Variable line : list N.
Hypothesis ms_len : forall m, In m ms -> (en_ m <= length line)%nat.
Hypothesis ms_bd : forall m, In m ms -> is_char_boundary line (st_ m) = true /\ is_char_boundary line (en_ m) = true.

Lemma slice_ok a b : (a <= b <= length line)%nat -> is_char_boundary line a = true -> is_char_boundary line b = true ->
  slice line a b = Ok (firstn (b - a) (skipn a line)).
Proof.
  intros [H1 H2] Ha Hb. unfold slice. rewrite Ha, Hb.
  assert ((a <=? b)%nat = true) as -> by (apply Nat.leb_le; exact H1).
  assert ((b <=? length line)%nat = true) as -> by (apply Nat.leb_le; exact H2). reflexivity.
Qed.

Lemma bd_0 : is_char_boundary line 0 = true. Proof. reflexivity. Qed.
Lemma bd_len : is_char_boundary line (length line) = true.
Proof. unfold is_char_boundary. rewrite Nat.eqb_refl, orb_true_r. reflexivity. Qed.

Lemma firstn_skipn_snoc {X} (l : list X) a n b r : skipn (a + n) l = b :: r ->
  firstn (S n) (skipn a l) = firstn n (skipn a l) ++ [b].
Proof.
  rewrite <- skipn_skipn_add. generalize (skipn a l) as t. clear l. induction n as [|n IH]; intros t H.
  - cbn [skipn] in H. rewrite H. reflexivity.
  - destruct t as [|x t]; [rewrite skipn_nil in H; discriminate|]. cbn [skipn] in H.
    change (firstn (S (S n)) (x :: t)) with (x :: firstn (S n) t). rewrite (IH t H). reflexivity.
Qed.

Lemma sweep_render : forall rest pos prev run out,
  skipn pos line = rest -> (prev <= pos)%nat -> (pos + length rest = length line)%nat ->
  run = firstn (pos - prev) (skipn prev line) -> is_char_boundary line prev = true ->
  exists out' prev', sweep line (map (color_count ms) (seq pos (S (length rest)))) pos (D pos) prev out = Ok (out', prev')
    /\ exists tail, slice line prev' (length line) = Ok tail
    /\ out' ++ ESC_RESET ++ tail = out ++ render mcov rest pos (negb (D pos =? 0)%Z) run.
Proof.
  induction rest as [|b r IH]; intros pos prev run out Hsk Hpp Hlen Hrun Hbp.
  - cbn [length] in *. assert (pos = length line) by lia. subst pos. cbn [seq map sweep render].
    rewrite <- D_succ, (D_end (length line) ms_len). cbn [Z.add].
    destruct (D (length line) =? 0)%Z eqn:Ed; cbn [andb negb].
    + exists out, prev. split; [reflexivity|]. exists run. split; [|reflexivity].
      rewrite (slice_ok prev (length line)); [rewrite Hrun; reflexivity|lia|exact Hbp|exact bd_len].
    + change (0 =? 0)%Z with true. cbn [andb negb].
      rewrite (slice_ok prev (length line)); [|lia|exact Hbp|exact bd_len]. cbn [bind sweep].
      eexists. eexists. split; [reflexivity|]. exists []. split.
      * rewrite (slice_ok (length line) (length line)); [rewrite Nat.sub_diag; reflexivity|lia|exact bd_len|exact bd_len].
      * rewrite <- Hrun, app_nil_r, <- !app_assoc. reflexivity.
  - cbn [length] in *. change (seq pos (S (S (length r)))) with (pos :: seq (S pos) (S (length r))). cbn [map sweep render].
    rewrite <- D_succ.
    assert (Hsk' : skipn (S pos) line = r).
    { replace (S pos) with (pos + 1)%nat by lia. rewrite <- skipn_skipn_add, Hsk. reflexivity. }
    assert (Hrun' : run ++ [b] = firstn (S pos - prev) (skipn prev line)).
    { rewrite Hrun. replace (S pos - prev)%nat with (S (pos - prev)) by lia. symmetry. apply (firstn_skipn_snoc line prev (pos - prev) b r).
      replace (prev + (pos - prev))%nat with pos by lia. exact Hsk. }
    assert (Hbd : D (S pos) <> D pos -> is_char_boundary line pos = true).
    { intros Hne. assert (Hcc : color_count ms pos <> 0%Z) by (rewrite D_succ in Hne; lia).
      destruct (transition_endpoint pos Hcc) as (m & Hm & [E|E]); subst pos; apply (ms_bd m Hm). }
    rewrite <- (D_nonzero pos).
    destruct (D pos =? 0)%Z eqn:Ed; destruct (D (S pos) =? 0)%Z eqn:En; cbn [andb negb Bool.eqb].
    + (* plain stays plain *)
      destruct (IH (S pos) prev (run ++ [b]) out Hsk' ltac:(lia) ltac:(lia) Hrun' Hbp) as (out' & prev' & E & tail & Ht & Heq).
      rewrite En in Heq. exists out', prev'. split; [exact E|]. exists tail. split; [exact Ht|exact Heq].
    + (* a red run starts at pos *)
      apply Z.eqb_eq in Ed. apply Z.eqb_neq in En.
      assert (Hb : is_char_boundary line pos = true) by (apply Hbd; lia).
      rewrite (slice_ok prev pos); [|lia|exact Hbp|exact Hb]. cbn [bind]. rewrite <- Hrun.
      destruct (IH (S pos) pos [b] (out ++ ESC_RESET ++ run) Hsk' ltac:(lia) ltac:(lia)) as (out' & prev' & E & tail & Ht & Heq).
      { replace (S pos - pos)%nat with 1%nat by lia. rewrite Hsk. reflexivity. }
      { exact Hb. }
      apply Z.eqb_neq in En. rewrite En in Heq. exists out', prev'. split; [exact E|]. exists tail. split; [exact Ht|].
      rewrite Heq, <- !app_assoc. reflexivity.
    + (* a red run ends at pos *)
      apply Z.eqb_neq in Ed. apply Z.eqb_eq in En.
      assert (Hb : is_char_boundary line pos = true) by (apply Hbd; lia).
      rewrite (slice_ok prev pos); [|lia|exact Hbp|exact Hb]. cbn [bind]. rewrite <- Hrun.
      destruct (IH (S pos) pos [b] (out ++ ESC_RED ++ run) Hsk' ltac:(lia) ltac:(lia)) as (out' & prev' & E & tail & Ht & Heq).
      { replace (S pos - pos)%nat with 1%nat by lia. rewrite Hsk. reflexivity. }
      { exact Hb. }
      apply Z.eqb_eq in En. rewrite En in Heq. exists out', prev'. split; [exact E|]. exists tail. split; [exact Ht|].
      rewrite Heq, <- !app_assoc. reflexivity.
    + (* red stays red *)
      destruct (IH (S pos) prev (run ++ [b]) out Hsk' ltac:(lia) ltac:(lia) Hrun' Hbp) as (out' & prev' & E & tail & Ht & Heq).
      rewrite En in Heq. exists out', prev'. split; [exact E|]. exists tail. split; [exact Ht|exact Heq].
Qed.
End Sweep.

Lemma render_ext cov cov' : (forall p, cov p = cov' p) -> forall rest pos inred run,
  render cov rest pos inred run = render cov' rest pos inred run.
Proof.
  intros H. induction rest as [|b r IH]; intros pos inred run; cbn [render]; [reflexivity|]. rewrite <- (H pos).
  destruct (Bool.eqb (cov pos) inred); rewrite IH; reflexivity.
Qed.

Section Colour.
Variable A : bw_automaton unit.
Variable pvs : list (list N * unit).
Hypothesis CERT : bw_cert_ok ueqb A pvs = true.

Definition occs_of (line : list N) : list (nat * nat) :=
  map (fun m : nat * nat * unit => (st_ m, en_ m)) (spec_overlapping unit pvs line).

Lemma nosuffix_sub line m : In m (spec_nosuffix unit pvs line) ->
  In m (spec_overlapping unit pvs line) /\ (st_ m < en_ m <= length line)%nat.
Proof.
  intros Hin. apply spec_nosuffix_adequate in Hin as (e & He & r & Hr).
  assert (Hin : In m (spec_overlapping unit pvs line)).
  { unfold spec_overlapping. apply in_flat_map. exists e. split; [apply in_seq; lia|rewrite Hr; left; reflexivity]. }
  split; [exact Hin|]. destruct m as [[s e'] v]. apply spec_overlapping_adequate in Hin as [Hrange _]. exact Hrange.
Qed.

Lemma mcov_covered line p : mcov (spec_nosuffix unit pvs line) p = covered (occs_of line) p.
Proof.
  unfold mcov, covered, occs_of. destruct (existsb _ (map _ _)) eqn:E.
  - apply existsb_exists in E as ([s e] & Hin & Hc). cbn [fst snd] in Hc. apply in_map_iff in Hin as ([[s' e'] v] & E' & Hin).
    cbn [fst snd] in E'. inversion E'; subst s' e'. apply spec_overlapping_adequate in Hin as Hocc. destruct Hocc as [Hrange Hp].
    destruct (ends_at unit pvs line e) as [|x r] eqn:Ee.
    + exfalso. assert (In (s, e, v) (ends_at unit pvs line e)); [|rewrite Ee in *; contradiction].
      unfold ends_at. apply in_ends_at_from. exists (e - s)%nat, (sub line s e), v. replace (e - (e - s))%nat with s by lia. repeat split; auto; lia.
    + destruct (ends_at_head_longest unit pvs line e x r ltac:(lia) Ee) as ((v' & Ex & _) & Hlong).
      specialize (Hlong s v (conj Hrange Hp)).
      apply existsb_exists. exists x. split.
      * apply spec_nosuffix_adequate. exists e. split; [lia|]. eauto.
      * rewrite Ex. cbn [fst snd]. apply andb_true_iff in Hc as [H1 H2]. apply Nat.leb_le in H1. apply andb_true_iff. split; [apply Nat.leb_le; lia|exact H2].
  - destruct (existsb _ (spec_nosuffix unit pvs line)) eqn:E2; [|reflexivity].
    apply existsb_exists in E2 as (m & Hm & Hc). apply nosuffix_sub in Hm as [Hm _].
    assert (existsb (fun se : nat * nat => (fst se <=? p)%nat && (p <? snd se)%nat) (map (fun m0 : nat * nat * unit => (st_ m0, en_ m0)) (spec_overlapping unit pvs line)) = true); [|congruence].
    apply existsb_exists. exists (st_ m, en_ m). split; [apply in_map_iff; exists m; auto|exact Hc].
Qed.

(* the colour arm, for a line with an occurrence whose occurrences start and end on character
   boundaries (true of every UTF-8 line and UTF-8 patterns: below) *)
Theorem find_and_output_colour prefix line : Forall (fun b => b < 256) line -> has_occ pvs line = true ->
  (forall s e v, occ_at unit pvs line s e v -> is_char_boundary line s = true /\ is_char_boundary line e = true) ->
  find_and_output A true prefix line = Ok (Some (prefix ++ render (covered (occs_of line)) line 0 false [] ++ [10])).
Proof.
  intros Hb Hocc Hbd. unfold find_and_output. cbn [negb].
  rewrite (bw_nosuffix_correct_lemma unit ueqb ueqb_sound A pvs CERT line Hb). cbn [bind].
  set (ms := spec_nosuffix unit pvs line).
  assert (Hms : forall m, In m ms -> (st_ m < en_ m)%nat) by (intros m Hm; apply nosuffix_sub in Hm as [_ H]; lia).
  assert (Hlen : forall m, In m ms -> (en_ m <= length line)%nat) by (intros m Hm; apply nosuffix_sub in Hm as [_ H]; lia).
  assert (Hbds : forall m, In m ms -> is_char_boundary line (st_ m) = true /\ is_char_boundary line (en_ m) = true).
  { intros m Hm. apply nosuffix_sub in Hm as [Hm _]. destruct m as [[s e] v]. apply spec_overlapping_adequate in Hm. exact (Hbd s e v Hm). }
  assert (Hex : existsb (fun m => (length line <? en_ m)%nat) ms = false).
  { destruct (existsb _ ms) eqn:E; [|reflexivity]. apply existsb_exists in E as (m & Hm & Hlt). specialize (Hlen m Hm). apply Nat.ltb_lt in Hlt. lia. }
  rewrite Hex.
  destruct ms as [|m0 ms0] eqn:Ems.
  - exfalso. apply (nosuffix_nil_iff pvs line) in Ems. congruence.
  - rewrite <- Ems in *.
    destruct (sweep_render ms Hms line Hlen Hbds line 0%nat 0%nat [] [] eq_refl ltac:(lia) ltac:(cbn; lia) ltac:(reflexivity) eq_refl)
      as (out' & prev' & Esw & tail & Et & Heq).
    rewrite (D_0 ms) in Esw, Heq. rewrite Esw. cbn [bind]. rewrite Et. cbn [bind]. cbn [Z.eqb negb app] in Heq.
    f_equal. f_equal. f_equal. rewrite <- (render_ext _ _ (mcov_covered line)). unfold ms in Heq.
    rewrite <- Heq, <- !app_assoc. reflexivity.
Qed.
End Colour.

(* ---- UTF-8 lines and UTF-8 patterns: every occurrence starts and ends on a character boundary --- *)
Lemma boundary_boff cs i : Forall scalar cs -> (i <= length cs)%nat ->
  is_char_boundary (encode_utf8 cs) (boff (firstn i cs)) = true.
Proof.
  intros Hs Hi. unfold is_char_boundary. destruct (Nat.eq_dec i (length cs)) as [->|Hne].
  - rewrite firstn_all. unfold boff. rewrite Nat.eqb_refl, orb_true_r. reflexivity.
  - assert (Hsplit : cs = firstn i cs ++ skipn i cs) by (symmetry; apply firstn_skipn).
    destruct (skipn i cs) as [|c r] eqn:Esk.
    { exfalso. apply (f_equal (@length N)) in Esk. rewrite skipn_length in Esk. cbn in Esk. lia. }
    assert (Hc : scalar c).
    { rewrite Forall_forall in Hs. apply Hs. rewrite Hsplit. apply in_or_app. right. left. reflexivity. }
    destruct (encode_char_shape c Hc) as (b0 & tl & E & Hl & _).
    assert (Hn : nth_error (encode_utf8 cs) (boff (firstn i cs)) = Some b0).
    { rewrite Hsplit at 1. rewrite encode_utf8_app. unfold boff. rewrite nth_error_app2 by lia. rewrite Nat.sub_diag.
      cbn [encode_utf8 flat_map]. rewrite E. reflexivity. }
    rewrite Hn. unfold lead_byte in Hl. unfold is_cont.
    assert ((128 <=? b0) && (b0 <? 192) = false) as -> by lia. cbn [negb]. rewrite !orb_true_r. reflexivity.
Qed.

Lemma utf8_occurrences_on_boundaries (cpvs : list (list N * unit)) cs :
  (forall p v, In (p, v) cpvs -> p <> []) -> (forall p v, In (p, v) cpvs -> Forall scalar p) -> Forall scalar cs ->
  forall s e v, occ_at unit (bpvs unit cpvs) (encode_utf8 cs) s e v ->
    is_char_boundary (encode_utf8 cs) s = true /\ is_char_boundary (encode_utf8 cs) e = true.
Proof.
  intros Hne Hsc Hcs s e v [Hr Hin]. unfold bpvs in Hin. apply in_map_iff in Hin as [[p w] [E Hp]]. cbn [fst snd] in E. inversion E as [[Hsub Hw]].
  assert (Hpre : is_prefix (encode_utf8 p) (skipn s (encode_utf8 cs)) = true).
  { apply is_prefix_ex. rewrite Hsub. unfold sub. exists (skipn (e - s) (skipn s (encode_utf8 cs))). symmetry. apply firstn_skipn. }
  destruct (utf8_occ_sync cs p s Hcs (Hsc p w Hp) (Hne p w Hp) Hpre) as (i & Hi & Hs & Hpc).
  apply is_prefix_ex in Hpc as [r Hr2].
  assert (Hlenp : (i + length p <= length cs)%nat).
  { apply (f_equal (@length N)) in Hr2. rewrite skipn_length, app_length in Hr2. lia. }
  assert (Hlen : (e - s)%nat = length (encode_utf8 p)).
  { rewrite Hsub. unfold sub. rewrite firstn_length, skipn_length. lia. }
  assert (He : e = boff (firstn (i + length p) cs)).
  { rewrite firstn_plus_u, boff_app, <- Hs.
    replace (firstn (length p) (skipn i cs)) with p by (rewrite Hr2, firstn_app, Nat.sub_diag, firstn_all; cbn [firstn]; symmetry; apply app_nil_r).
    unfold boff at 1. lia. }
  split; [rewrite Hs; apply boundary_boff; assumption|rewrite He; apply boundary_boff; assumption].
Qed.

(* ---- what a rendering says: the line's bytes, each with the colour of its coverage ----------------- *)
Definition paint (seg : bool * list N) : list N := (if fst seg then ESC_RED else ESC_RESET) ++ snd seg.

Fixpoint segs (cov : nat -> bool) (rest : list N) (pos : nat) (inred : bool) (run : list N) : list (bool * list N) :=
  match rest with
  | [] => [(inred, run)]
  | b :: r => if Bool.eqb (cov pos) inred then segs cov r (S pos) inred (run ++ [b])
              else (inred, run) :: segs cov r (S pos) (cov pos) [b]
  end.

Definition last_red (l : list (bool * list N)) : bool := match rev l with (c, _) :: _ => c | [] => false end.

Lemma segs_nonempty cov : forall rest pos inred run, segs cov rest pos inred run <> [].
Proof. induction rest as [|b r IH]; intros pos inred run; cbn [segs]; [discriminate|]. destruct (Bool.eqb (cov pos) inred); [apply IH|discriminate]. Qed.

Lemma last_red_cons x l : l <> [] -> last_red (x :: l) = last_red l.
Proof.
  intros H. unfold last_red. cbn [rev]. destruct (rev l) as [|y t] eqn:E; [|reflexivity].
  exfalso. apply H. apply (f_equal (@rev _)) in E. rewrite rev_involutive in E. exact E.
Qed.

(* the output is the painted segments, closed by a reset when the line ends in red *)
Lemma render_segs cov : forall rest pos inred run,
  render cov rest pos inred run
  = flat_map paint (segs cov rest pos inred run) ++ (if last_red (segs cov rest pos inred run) then ESC_RESET else []).
Proof.
  induction rest as [|b r IH]; intros pos inred run; cbn [render segs].
  - cbn [flat_map paint fst snd last_red rev app]. destruct inred; rewrite ?app_nil_r, <- ?app_assoc; reflexivity.
  - destruct (Bool.eqb (cov pos) inred); [apply IH|].
    cbn [flat_map]. rewrite (last_red_cons _ _ (segs_nonempty cov r (S pos) (cov pos) [b])), IH. unfold paint. cbn [fst snd].
    rewrite <- !app_assoc. reflexivity.
Qed.

(* the segments carry the line's bytes unchanged, and a byte is red exactly when it is covered *)
Lemma segs_coloured cov : forall rest pos inred run,
  flat_map (fun seg => map (fun b => (b, fst seg)) (snd seg)) (segs cov rest pos inred run)
  = map (fun b => (b, inred)) run ++ combine rest (map cov (seq pos (length rest))).
Proof.
  induction rest as [|b r IH]; intros pos inred run; cbn [segs length seq map combine].
  - cbn [flat_map fst snd]. rewrite !app_nil_r. reflexivity.
  - destruct (Bool.eqb (cov pos) inred) eqn:E.
    + rewrite IH, map_app, <- app_assoc. cbn [map app]. apply Bool.eqb_prop in E. rewrite E. reflexivity.
    + cbn [flat_map fst snd]. rewrite IH. cbn [map app]. reflexivity.
Qed.
