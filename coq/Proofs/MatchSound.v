(* MatchSound.v — C06 as ONE statement per variant: on every built automaton, whatever the match
   kind, EVERY match returned by ANY of the four search methods is an occurrence of a registered
   pattern carrying the value registered for it:  occ_at pvs h s e v  =  s < e <= |h| and
   (h[s..e], v) is one of the pattern/value pairs given to the builder.  A search method called on
   an automaton of the other kind panics (never returns Ok), so the statement has no kind split. *)
From DV Require Import Model.Base Model.Nfa Model.BwBuild Model.BwSearch Model.Utf8 Model.CwBuild Model.CwSearch
     Model.Api Model.Spec Model.Cert Proofs.Utf8Props Proofs.TrieInv Proofs.BuildTrie Proofs.BuildProps
     Proofs.BwCert Proofs.CwCert Proofs.BuiltAutomata
     Theory.SpecAdequacy Theory.SpecFind Theory.SpecLeftmostSeq Theory.Utf8Spec Theory.Utf8Spec2.
From Coq Require Import ZifyN ZifyNat ZifyBool.
Local Open Scope N_scope.

Section Sound.
Variable V : Type.

(* members of the five specifications are occurrences *)
Lemma spec_nosuffix_sound pvs h s e v : In (s, e, v) (spec_nosuffix V pvs h) -> occ_at V pvs h s e v.
Proof.
  intros Hin. apply spec_nosuffix_adequate in Hin as (e' & He' & r & Hr).
  apply spec_overlapping_adequate. unfold spec_overlapping. apply in_flat_map. exists e'.
  split; [apply in_seq; lia|rewrite Hr; left; reflexivity].
Qed.
Lemma spec_find_sound pvs h s e v : In (s, e, v) (spec_find V pvs h) -> occ_at V pvs h s e v.
Proof. intros Hin. exact (proj1 (find_seq_sound V pvs h 0%nat _ (spec_find_is_the_earliest_ending_sequence V pvs h) s e v Hin)). Qed.
Lemma spec_lml_sound pvs h s e v : In (s, e, v) (spec_lml V pvs h) -> occ_at V pvs h s e v.
Proof.
  intros Hin. exact (proj1 (lm_seq_sound V _ pvs h (lml_pick_occ V pvs h) 0%nat _ (spec_lml_is_the_leftmost_longest_sequence V pvs h) s e v Hin)).
Qed.
Lemma spec_lmf_sound pvs h s e v : In (s, e, v) (spec_lmf V pvs h) -> occ_at V pvs h s e v.
Proof.
  intros Hin. exact (proj1 (lm_seq_sound V _ pvs h (lmf_pick_occ V pvs h) 0%nat _ (spec_lmf_is_the_leftmost_first_sequence V pvs h) s e v Hin)).
Qed.

Variable veqb : V -> V -> bool.
Hypothesis veqb_eq : forall a b, veqb a b = true <-> a = b.

Lemma bw_built_kind k nfb pvs (A : bw_automaton V) : bw_build_with_values V k nfb pvs = Ok A -> bw_kind A = k.
Proof.
  unfold bw_build_with_values. destruct (nfb =? 0); [discriminate|].
  destruct (bw_build_sparse_nfa V k pvs); cbn [bind]; try discriminate.
  destruct (build_double_array V nfb a); cbn [bind]; try discriminate.
  destruct (U32_MAX <? _); [discriminate|]. intros H. inversion H. reflexivity.
Qed.

Theorem bw_every_match_sound k nfb (pvs : list (list N * V)) (A : bw_automaton V) :
  (forall p v, In (p, v) pvs -> Forall (fun b => b < 256) p) -> 4 * total_len V pvs <= U32_MAX - 1 ->
  bw_build_with_values V k nfb pvs = Ok A ->
  forall h, Forall (fun b => b < 256) h ->
  forall ms, bw_find_iter V A h = Ok ms \/ bw_find_overlapping_iter V A h = Ok ms
             \/ bw_find_overlapping_no_suffix_iter V A h = Ok ms \/ bw_leftmost_find_iter V A h = Ok ms ->
  forall s e v, In (s, e, v) ms -> occ_at V pvs h s e v.
Proof.
  intros Hb Hs HA h Hh ms Hm s e v Hin. pose proof (bw_built_kind k nfb pvs A HA) as Hk.
  destruct k.
  - (* standard *)
    destruct Hm as [Hm|[Hm|[Hm|Hm]]].
    + rewrite (built_find V veqb veqb_eq nfb pvs A Hb Hs HA h Hh) in Hm. inversion Hm; subst ms. exact (spec_find_sound pvs h s e v Hin).
    + rewrite (built_overlapping V veqb veqb_eq nfb pvs A Hb Hs HA h Hh) in Hm. inversion Hm; subst ms. apply spec_overlapping_adequate. exact Hin.
    + rewrite (built_nosuffix V veqb veqb_eq nfb pvs A Hb Hs HA h Hh) in Hm. inversion Hm; subst ms. exact (spec_nosuffix_sound pvs h s e v Hin).
    + unfold bw_leftmost_find_iter in Hm. rewrite Hk in Hm. cbn in Hm. discriminate.
  - destruct Hm as [Hm|[Hm|[Hm|Hm]]].
    + unfold bw_find_iter in Hm. rewrite Hk in Hm. cbn in Hm. discriminate.
    + unfold bw_find_overlapping_iter in Hm. rewrite Hk in Hm. cbn in Hm. discriminate.
    + unfold bw_find_overlapping_no_suffix_iter in Hm. rewrite Hk in Hm. cbn in Hm. discriminate.
    + rewrite (bw_built_lml V veqb veqb_eq nfb pvs A Hb Hs HA h Hh) in Hm. inversion Hm; subst ms. exact (spec_lml_sound pvs h s e v Hin).
  - destruct Hm as [Hm|[Hm|[Hm|Hm]]].
    + unfold bw_find_iter in Hm. rewrite Hk in Hm. cbn in Hm. discriminate.
    + unfold bw_find_overlapping_iter in Hm. rewrite Hk in Hm. cbn in Hm. discriminate.
    + unfold bw_find_overlapping_no_suffix_iter in Hm. rewrite Hk in Hm. cbn in Hm. discriminate.
    + rewrite (bw_built_lmf V veqb veqb_eq nfb pvs A Hb Hs HA h Hh) in Hm. inversion Hm; subst ms. exact (spec_lmf_sound pvs h s e v Hin).
Qed.

(* character-wise: the same about byte positions in the encoded text and the encoded patterns *)
Theorem cw_every_match_sound k nfb (pvs : list (list N * V)) (A : cw_automaton V) :
  (forall p v, In (p, v) pvs -> Forall scalar p) -> 4 * total_len V pvs <= U32_MAX - 1 ->
  cw_build_with_values V k nfb pvs = Ok A ->
  forall cs, Forall scalar cs ->
  let h := encode_utf8 cs in
  forall ms, cw_find_iter V A h = Ok ms \/ cw_find_overlapping_iter V A h = Ok ms
             \/ cw_find_overlapping_no_suffix_iter V A h = Ok ms \/ cw_leftmost_find_iter V A h = Ok ms ->
  forall s e v, In (s, e, v) ms -> occ_at V (bpvs V pvs) h s e v.
Proof.
  intros Hsc Hs HA cs Hcs h ms Hm s e v Hin.
  destruct (cw_build_ok_lemma V k nfb pvs A Hs HA) as (Hv' & _ & Hk).
  apply spec_build_error_none_iff_valid in Hv' as (_ & Hne0 & Hnd).
  assert (Hne : forall p v, In (p, v) pvs -> p <> []).
  { intros p w Hp. rewrite Forall_forall in Hne0. apply Hne0. apply in_map_iff. exists (p, w). auto. }
  destruct k.
  - destruct Hm as [Hm|[Hm|[Hm|Hm]]].
    + unfold h in Hm. rewrite (cw_built_find V veqb veqb_eq nfb pvs A Hs HA cs Hcs) in Hm. inversion Hm; subst ms.
      change (map (to_bytes V cs) (spec_find V pvs cs)) with (map (tb V cs) (spec_find V pvs cs)) in Hin.
      rewrite <- (spec_find_bytes_eq_chars V pvs Hne Hsc Hnd cs Hcs) in Hin. exact (spec_find_sound _ _ s e v Hin).
    + unfold h in Hm. rewrite (cw_built_overlapping V veqb veqb_eq nfb pvs A Hs HA cs Hcs) in Hm. inversion Hm; subst ms.
      change (map (to_bytes V cs) (spec_overlapping V pvs cs)) with (map (tb V cs) (spec_overlapping V pvs cs)) in Hin.
      rewrite <- (spec_bytes_eq_spec_chars V pvs Hne Hsc Hnd cs Hcs) in Hin. apply spec_overlapping_adequate. exact Hin.
    + unfold h in Hm. rewrite (cw_built_nosuffix V veqb veqb_eq nfb pvs A Hs HA cs Hcs) in Hm. inversion Hm; subst ms.
      change (map (to_bytes V cs) (spec_nosuffix V pvs cs)) with (map (tb V cs) (spec_nosuffix V pvs cs)) in Hin.
      rewrite <- (spec_nosuffix_bytes_eq_chars V pvs Hne Hsc Hnd cs Hcs) in Hin. exact (spec_nosuffix_sound _ _ s e v Hin).
    + unfold cw_leftmost_find_iter in Hm. rewrite Hk in Hm. cbn in Hm. discriminate.
  - destruct Hm as [Hm|[Hm|[Hm|Hm]]].
    + unfold cw_find_iter in Hm. rewrite Hk in Hm. cbn in Hm. discriminate.
    + unfold cw_find_overlapping_iter in Hm. rewrite Hk in Hm. cbn in Hm. discriminate.
    + unfold cw_find_overlapping_no_suffix_iter in Hm. rewrite Hk in Hm. cbn in Hm. discriminate.
    + unfold h in Hm. rewrite (cw_built_lml V veqb veqb_eq nfb pvs A Hs HA cs Hcs) in Hm. inversion Hm; subst ms.
      change (map (to_bytes V cs) (spec_lml V pvs cs)) with (map (tb V cs) (spec_lml V pvs cs)) in Hin.
      rewrite <- (spec_lml_bytes_eq_chars V pvs Hne Hsc cs Hcs) in Hin. exact (spec_lml_sound _ _ s e v Hin).
  - destruct Hm as [Hm|[Hm|[Hm|Hm]]].
    + unfold cw_find_iter in Hm. rewrite Hk in Hm. cbn in Hm. discriminate.
    + unfold cw_find_overlapping_iter in Hm. rewrite Hk in Hm. cbn in Hm. discriminate.
    + unfold cw_find_overlapping_no_suffix_iter in Hm. rewrite Hk in Hm. cbn in Hm. discriminate.
    + unfold h in Hm. rewrite (cw_built_lmf V veqb veqb_eq nfb pvs A Hs HA cs Hcs) in Hm. inversion Hm; subst ms.
      change (map (to_bytes V cs) (spec_lmf V pvs cs)) with (map (tb V cs) (spec_lmf V pvs cs)) in Hin.
      rewrite <- (spec_lmf_bytes_eq_chars V pvs Hne Hsc cs Hcs) in Hin. exact (spec_lmf_sound _ _ s e v Hin).
Qed.
End Sound.

(* built from bare patterns: the value of a pattern is its position in the input sequence *)
Lemma enumerate_conv_positions (V : Type) (conv : nat -> option V) : forall ps i pvs,
  enumerate_conv V conv i ps = Some pvs ->
  forall p v, In (p, v) pvs -> exists j, nth_error ps j = Some p /\ conv (i + j)%nat = Some v.
Proof.
  induction ps as [|q r IH]; intros i pvs H p v Hin; cbn [enumerate_conv] in H; [inversion H; subst; destruct Hin|].
  destruct (conv i) as [w|] eqn:Ec; [|discriminate]. destruct (enumerate_conv V conv (S i) r) as [l|] eqn:E; [|discriminate].
  inversion H; subst pvs. destruct Hin as [Hin|Hin].
  - inversion Hin; subst. exists 0%nat. split; [reflexivity|]. rewrite Nat.add_0_r. exact Ec.
  - destruct (IH (S i) l E p v Hin) as (j & Hj & Hc). exists (S j). split; [exact Hj|]. replace (i + S j)%nat with (S i + j)%nat by lia. exact Hc.
Qed.
Lemma cw_enumerate_conv_positions (V : Type) (conv : nat -> option V) : forall ps i pvs,
  cw_enumerate_conv V conv i ps = Some pvs ->
  forall p v, In (p, v) pvs -> exists j, nth_error ps j = Some p /\ conv (i + j)%nat = Some v.
Proof.
  induction ps as [|q r IH]; intros i pvs H p v Hin; cbn [cw_enumerate_conv] in H; [inversion H; subst; destruct Hin|].
  destruct (conv i) as [w|] eqn:Ec; [|discriminate]. destruct (cw_enumerate_conv V conv (S i) r) as [l|] eqn:E; [|discriminate].
  inversion H; subst pvs. destruct Hin as [Hin|Hin].
  - inversion Hin; subst. exists 0%nat. split; [reflexivity|]. rewrite Nat.add_0_r. exact Ec.
  - destruct (IH (S i) l E p v Hin) as (j & Hj & Hc). exists (S j). split; [exact Hj|]. replace (i + S j)%nat with (S i + j)%nat by lia. exact Hc.
Qed.
