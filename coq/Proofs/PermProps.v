(* PermProps.v — C14: the parts of construction that must not depend on the registration order.
   (1) CodeMapper::new sorts (character, frequency) pairs by (frequency desc, character asc), a
   strict total order on pairs with distinct characters; any sorted permutation of such a list is
   THE sorted list, so (a) modelling sort_unstable_by by insertion sort loses nothing and (b) the
   code assignment is independent of the order in which the characters were collected.
   (2) the set of characters seen is collected by sorted, duplicate-free insertion, which is
   independent of the insertion order. *)
From DV Require Import Model.Base Model.Utf8 Model.CwBuild.
From Coq Require Import Sorted Permutation ZifyN ZifyNat ZifyBool.
Local Open Scope N_scope.

Definition flt (x y : N * N) : Prop := freq_before x y = true.

Lemma flt_irrefl x : ~ flt x x.
Proof. unfold flt, freq_before. lia. Qed.
Lemma flt_trans x y z : flt x y -> flt y z -> flt x z.
Proof. unfold flt, freq_before. lia. Qed.
Lemma flt_asym x y : flt x y -> ~ flt y x.
Proof. unfold flt, freq_before. lia. Qed.
Lemma flt_total x y : fst x <> fst y -> flt x y \/ flt y x.
Proof. unfold flt, freq_before. lia. Qed.

(* ---- a strictly sorted permutation is unique ------------------------------------------------ *)
Lemma sorted_perm_unique (l l' : list (N * N)) :
  StronglySorted flt l -> StronglySorted flt l' -> Permutation l l' -> l = l'.
Proof.
  revert l'. induction l as [|a r IH]; intros l' Hs Hs' Hp.
  - apply Permutation_nil in Hp. congruence.
  - destruct l' as [|b r']; [apply Permutation_sym, Permutation_nil in Hp; discriminate|].
    inversion Hs as [|? ? Hsr Ha]; subst. inversion Hs' as [|? ? Hsr' Hb]; subst.
    rewrite Forall_forall in Ha, Hb.
    assert (a = b) as ->.
    { assert (In a (b :: r')) as Hina by (eapply Permutation_in; [exact Hp|left; reflexivity]).
      assert (In b (a :: r)) as Hinb by (eapply Permutation_in; [apply Permutation_sym; exact Hp|left; reflexivity]).
      destruct Hina as [->|Hina]; [reflexivity|]. destruct Hinb as [->|Hinb]; [reflexivity|].
      exfalso. apply (flt_asym a b); [apply Ha; exact Hinb|apply Hb; exact Hina]. }
    f_equal. apply IH; auto. eapply Permutation_cons_inv. exact Hp.
Qed.

(* ---- insertion sort yields a sorted permutation --------------------------------------------- *)
Lemma freq_insert_perm x l : Permutation (x :: l) (freq_insert x l).
Proof.
  induction l as [|y r IH]; cbn [freq_insert]; [reflexivity|].
  destruct (freq_before x y); [reflexivity|].
  eapply perm_trans; [apply perm_swap|]. apply perm_skip. exact IH.
Qed.

Lemma freq_sort_perm l : Permutation l (freq_sort l).
Proof.
  induction l as [|x l IH]; cbn [freq_sort fold_right]; [reflexivity|].
  eapply perm_trans; [apply perm_skip; exact IH|]. apply freq_insert_perm.
Qed.

Lemma freq_insert_sorted x l :
  StronglySorted flt l -> (forall y, In y l -> fst x <> fst y) -> StronglySorted flt (freq_insert x l).
Proof.
  induction l as [|y r IH]; intros Hs Hd; cbn [freq_insert].
  - constructor; constructor.
  - inversion Hs as [|? ? Hsr Hy]; subst. destruct (freq_before x y) eqn:E.
    + constructor; [exact Hs|]. constructor; [exact E|].
      rewrite Forall_forall in *. intros z Hz. eapply flt_trans; [exact E|apply Hy; exact Hz].
    + assert (flt y x) as Hyx.
      { destruct (flt_total x y) as [H|H]; [apply Hd; left; reflexivity|unfold flt in H; congruence|exact H]. }
      constructor.
      * apply IH; [exact Hsr|]. intros z Hz. apply Hd. right. exact Hz.
      * rewrite Forall_forall in *. intros z Hz.
        apply (Permutation_in _ (Permutation_sym (freq_insert_perm x r))) in Hz.
        destruct Hz as [<-|Hz]; [exact Hyx|apply Hy; exact Hz].
Qed.

Lemma freq_sort_sorted l : NoDup (map fst l) -> StronglySorted flt (freq_sort l).
Proof.
  induction l as [|x l IH]; intros Hn; cbn [freq_sort fold_right]; [constructor|].
  cbn [map] in Hn. inversion Hn as [|? ? Hnot Hn']; subst. apply freq_insert_sorted.
  - apply IH. exact Hn'.
  - intros y Hy Heq. apply Hnot. apply (Permutation_in _ (Permutation_sym (freq_sort_perm l))) in Hy.
    rewrite Heq. apply in_map. exact Hy.
Qed.

(* (1a) whatever sorting algorithm is used: any strictly sorted permutation of the input is the
   list the model's insertion sort returns *)
Theorem any_sorted_permutation_is_freq_sort l s :
  NoDup (map fst l) -> Permutation l s -> StronglySorted flt s -> s = freq_sort l.
Proof.
  intros Hn Hp Hs. apply sorted_perm_unique; [exact Hs|apply freq_sort_sorted; exact Hn|].
  eapply perm_trans; [apply Permutation_sym; exact Hp|apply freq_sort_perm].
Qed.

(* (1b) the sorted list -- hence the code assignment -- does not depend on the order of the input *)
Theorem freq_sort_order_independent l l' :
  NoDup (map fst l) -> Permutation l l' -> freq_sort l = freq_sort l'.
Proof.
  intros Hn Hp. apply any_sorted_permutation_is_freq_sort.
  - eapply Permutation_NoDup; [apply Permutation_map; exact Hp|exact Hn].
  - eapply perm_trans; [apply Permutation_sym; exact Hp|apply freq_sort_perm].
  - apply freq_sort_sorted. exact Hn.
Qed.

(* ---- (2) the set of characters seen ---------------------------------------------------------- *)
Definition nlt (x y : N) : Prop := x < y.

Lemma sorted_insert_in c l x : In x (sorted_insert c l) <-> x = c \/ In x l.
Proof.
  induction l as [|y r IH]; cbn [sorted_insert].
  - cbn. intuition.
  - destruct (c <? y) eqn:E1; [cbn; intuition|]. destruct (c =? y) eqn:E2.
    + apply N.eqb_eq in E2. subst. cbn. intuition.
    + cbn [In]. rewrite IH. intuition.
Qed.

Lemma sorted_insert_sorted c l : StronglySorted nlt l -> StronglySorted nlt (sorted_insert c l).
Proof.
  induction l as [|y r IH]; intros Hs; cbn [sorted_insert].
  - constructor; constructor.
  - inversion Hs as [|? ? Hsr Hy]; subst. rewrite Forall_forall in Hy.
    destruct (c <? y) eqn:E1.
    + constructor; [exact Hs|]. constructor; [unfold nlt; lia|]. apply Forall_forall. intros z Hz.
      specialize (Hy z Hz). unfold nlt in *. lia.
    + destruct (c =? y) eqn:E2; [exact Hs|]. constructor; [apply IH; exact Hsr|].
      apply Forall_forall. intros z Hz. apply sorted_insert_in in Hz as [->|Hz]; [unfold nlt; lia|apply Hy; exact Hz].
Qed.

Lemma nlt_sorted_unique (l l' : list N) :
  StronglySorted nlt l -> StronglySorted nlt l' -> (forall x, In x l <-> In x l') -> l = l'.
Proof.
  revert l'. induction l as [|a r IH]; intros l' Hs Hs' Hi.
  - destruct l' as [|b r']; [reflexivity|]. exfalso. apply (Hi b). left. reflexivity.
  - destruct l' as [|b r']; [exfalso; apply (Hi a); left; reflexivity|].
    inversion Hs as [|? ? Hsr Ha]; subst. inversion Hs' as [|? ? Hsr' Hb]; subst.
    rewrite Forall_forall in Ha, Hb. unfold nlt in *.
    assert (a = b) as ->.
    { destruct (proj1 (Hi a) (or_introl eq_refl)) as [->|H1]; [reflexivity|].
      destruct (proj2 (Hi b) (or_introl eq_refl)) as [->|H2]; [reflexivity|].
      specialize (Ha _ H2). specialize (Hb _ H1). lia. }
    f_equal. apply IH; auto. intros x. split; intros Hx.
    + destruct (proj1 (Hi x) (or_intror Hx)) as [<-|H]; [|exact H]. specialize (Ha _ Hx). lia.
    + destruct (proj2 (Hi x) (or_intror Hx)) as [<-|H]; [|exact H]. specialize (Hb _ Hx). lia.
Qed.

Lemma fold_sorted_insert_sorted cs : forall l, StronglySorted nlt l ->
  StronglySorted nlt (fold_left (fun l c => sorted_insert c l) cs l).
Proof. induction cs as [|c cs IH]; intros l Hs; cbn [fold_left]; [exact Hs|]. apply IH, sorted_insert_sorted, Hs. Qed.

Lemma fold_sorted_insert_in cs : forall l x,
  In x (fold_left (fun l c => sorted_insert c l) cs l) <-> In x cs \/ In x l.
Proof.
  induction cs as [|c cs IH]; intros l x; cbn [fold_left].
  - cbn. intuition.
  - rewrite IH, sorted_insert_in. cbn. intuition.
Qed.

(* the list of characters present is the same for every order in which they are met *)
Theorem present_order_independent (cs cs' : list N) :
  Permutation cs cs' ->
  fold_left (fun l c => sorted_insert c l) cs [] = fold_left (fun l c => sorted_insert c l) cs' [].
Proof.
  intros Hp. apply nlt_sorted_unique; try (apply fold_sorted_insert_sorted; constructor).
  intros x. rewrite !fold_sorted_insert_in. split; intros [H|[]]; left.
  - eapply Permutation_in; eauto.
  - eapply Permutation_in; [apply Permutation_sym|]; eauto.
Qed.

(* ---- (3) frequencies are sums, hence order independent; so is the whole CodeMapper ---------- *)
Lemma fq_get_bump f c x : fq_get (fq_bump f c) x = if x =? c then fq_get f c + 1 else fq_get f x.
Proof.
  unfold fq_bump, fq_get at 1. cbn [fq_map]. destruct (x =? c) eqn:E.
  - apply N.eqb_eq in E. subst. rewrite ngss. reflexivity.
  - apply N.eqb_neq in E. rewrite ngso by exact E. reflexivity.
Qed.

Lemma fq_get_fold cs : forall f x,
  fq_get (fold_left fq_bump cs f) x = fq_get f x + N.of_nat (count_occ N.eq_dec cs x).
Proof.
  induction cs as [|c cs IH]; intros f x; cbn [fold_left count_occ]; [lia|].
  rewrite IH, fq_get_bump. destruct (N.eq_dec c x) as [->|Hne].
  - rewrite N.eqb_refl. lia.
  - replace (x =? c) with false by lia. lia.
Qed.

Lemma fq_len_bump f c : fq_len (fq_bump f c) = N.max (fq_len f) (c + 1).
Proof. unfold fq_bump. cbn [fq_len]. destruct (fq_len f <=? c) eqn:E; lia. Qed.

Lemma fq_len_fold cs : forall f,
  fq_len (fold_left fq_bump cs f) = fold_right (fun c m => N.max m (c + 1)) (fq_len f) cs.
Proof.
  induction cs as [|c cs IH]; intros f; cbn [fold_left fold_right]; [reflexivity|].
  rewrite IH, fq_len_bump. clear IH. generalize (fq_len f). induction cs as [|d cs IH]; intros m; cbn [fold_right]; [lia|].
  rewrite IH. lia.
Qed.

Lemma max_fold_perm (cs cs' : list N) m : Permutation cs cs' ->
  fold_right (fun c m => N.max m (c + 1)) m cs = fold_right (fun c m => N.max m (c + 1)) m cs'.
Proof. intros Hp. induction Hp; cbn [fold_right]; try lia; try congruence. Qed.

(* the mapper computed from the sequence of all pattern characters *)
Definition mapper_of_chars (cs : list N) : mapper :=
  mapper_new (fold_left fq_bump cs {| fq_map := nempty; fq_len := 0 |})
             (fold_left (fun l c => sorted_insert c l) cs []).

Lemma mapper_new_ext f f' present :
  (forall x, fq_get f x = fq_get f' x) -> fq_len f = fq_len f' -> mapper_new f present = mapper_new f' present.
Proof.
  intros Hg Hl. unfold mapper_new. rewrite Hl.
  replace (map (fun c => (c, fq_get f c)) present) with (map (fun c => (c, fq_get f' c)) present)
    by (apply map_ext; intros c; rewrite Hg; reflexivity).
  reflexivity.
Qed.

Theorem mapper_order_independent (cs cs' : list N) :
  Permutation cs cs' -> mapper_of_chars cs = mapper_of_chars cs'.
Proof.
  intros Hp. unfold mapper_of_chars. rewrite (present_order_independent cs cs' Hp).
  apply mapper_new_ext.
  - intros x. rewrite !fq_get_fold. f_equal. f_equal. apply Permutation_count_occ. exact Hp.
  - rewrite !fq_len_fold. apply max_fold_perm. exact Hp.
Qed.

(* the builder's pattern loop computes exactly these folds over the concatenation of all pattern
   characters (whenever every add succeeds) *)
Lemma fold_left_app' {X Y} (f : X -> Y -> X) l1 l2 a : fold_left f (l1 ++ l2) a = fold_left f l2 (fold_left f l1 a).
Proof. apply fold_left_app. Qed.

Lemma cw_add_all_counts {V} : forall (pvs : list (list N * V)) n f present n' f' present',
  cw_add_all V n f present pvs = Ok (n', f', present') ->
  f' = fold_left fq_bump (concat (map fst pvs)) f
  /\ present' = fold_left (fun l c => sorted_insert c l) (concat (map fst pvs)) present.
Proof.
  induction pvs as [|[p v] r IH]; intros n f present n' f' present' H; cbn [cw_add_all] in H.
  - inversion H; subst. auto.
  - destruct (Nfa.add V len_utf8 n p v) as [n1| | | |]; cbn [bind] in H; try discriminate.
    apply IH in H as [H1 H2]. cbn [map fst concat]. rewrite !fold_left_app'. auto.
Qed.

Theorem cw_mapper_is_mapper_of_chars {V} (pvs : list (list N * V)) n n' f' present' :
  cw_add_all V n {| fq_map := nempty; fq_len := 0 |} [] pvs = Ok (n', f', present') ->
  mapper_new f' present' = mapper_of_chars (concat (map fst pvs)).
Proof. intros H. apply cw_add_all_counts in H as [-> ->]. reflexivity. Qed.

Lemma concat_perm {X} (l l' : list (list X)) : Permutation l l' -> Permutation (concat l) (concat l').
Proof.
  intros Hp. induction Hp; cbn [concat].
  - reflexivity.
  - apply Permutation_app_head. exact IHHp.
  - rewrite !app_assoc. apply Permutation_app_tail. apply Permutation_app_comm.
  - eapply perm_trans; eauto.
Qed.

(* the character-wise code mapper of any permutation of the pattern/value pairs is the same *)
Theorem cw_mapper_perm {V} (pvs pvs' : list (list N * V)) :
  Permutation pvs pvs' ->
  mapper_of_chars (concat (map fst pvs)) = mapper_of_chars (concat (map fst pvs')).
Proof. intros Hp. apply mapper_order_independent, concat_perm, Permutation_map, Hp. Qed.
