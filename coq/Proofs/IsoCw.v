(* IsoCw.v — C14, character-wise layout: the double array does not depend on how the NFA states are
   numbered (the same statement as IsoBw.v for charwise/builder.rs: mapped edge lists correspond,
   the depth-first layout runs in lock step, the finished state arrays are equal). *)
From DV Require Import Model.Base Model.Nfa Model.Helper Model.Utf8 Model.CwBuild Proofs.TrieInv Proofs.BuildSafe Proofs.CwBuildSafe
     Proofs.HelperFlagsG Proofs.DaRefine Proofs.CwDaRefine Proofs.Iso.
From Coq Require Import ZifyN ZifyNat ZifyBool.
Local Open Scope N_scope.

Lemma nseq_in_l : forall n a x, In x (nseq a n) <-> a <= x < a + N.of_nat n.
Proof. induction n as [|n IH]; intros a x; cbn [nseq In]; [lia|]. rewrite IH. lia. Qed.

Definition caeq (a a' : carr) : Prop := ca_len a' = ca_len a /\ forall j, cslot a' j = cslot a j.

Lemma carr_to_list_caeq a a' : caeq a a' -> carr_to_list a' = carr_to_list a.
Proof. intros [L S]. unfold carr_to_list. rewrite L. apply map_ext. intros j. exact (S j). Qed.

Lemma cstate_eq (x y : cstate) : c_base x = c_base y -> c_check x = c_check y -> c_fail x = c_fail y -> c_outpos x = c_outpos y -> x = y.
Proof. destruct x, y. cbn. intros -> -> -> ->. reflexivity. Qed.

Section Sim.
Variable V : Type.
Variables phi psi : N -> N.
Hypothesis phi_psi : forall x, phi (psi x) = x.
Hypothesis psi_phi : forall x, psi (phi x) = x.
Hypothesis phi_root : phi ROOT = ROOT.
Hypothesis phi_dead : phi DEAD = DEAD.
Notation iso := (iso V phi).
Notation redges := (redges phi).

Definition imrel (im im' : nmap N) : Prop := forall s, nget (phi s) im' = nget s im.

Lemma imrel_set im im' ch idx : imrel im im' -> imrel (nset ch idx im) (nset (phi ch) idx im').
Proof.
  intros H s. destruct (N.eq_dec s ch) as [->|Hne]; [rewrite !ngss; reflexivity|].
  rewrite !ngso; [apply H|exact Hne|]. intros E. apply (phi_inj phi psi psi_phi) in E. contradiction.
Qed.

Lemma cidmap_get_iso n n' im im' i : iso n n' -> imrel im im' -> cidmap_get im' (n_nstates n') (phi i) = cidmap_get im (n_nstates n) i.
Proof. intros (Hn & _ & _ & _ & Hr & _) Hi. unfold cidmap_get. rewrite Hn, Hr, Hi. reflexivity. Qed.

Lemma code_insert_iso c t l : code_insert (c, phi t) (redges l) = redges (code_insert (c, t) l).
Proof.
  induction l as [|[k v] r IH]; cbn [Iso.redges map code_insert fst snd]; [reflexivity|].
  destruct (c <? k); [reflexivity|]. cbn [map fst snd]. f_equal. exact IH.
Qed.

Lemma map_edges_iso tbl : forall es, map_edges tbl (redges es) = rmap redges (map_edges tbl es).
Proof.
  induction es as [|[c t] r IH]; cbn [Iso.redges map map_edges fst snd]; [reflexivity|].
  destruct (code_of tbl c) as [m|]; [|reflexivity]. fold (redges r). rewrite IH. destruct (map_edges tbl r) as [l| | | |]; cbn [rmap bind]; try reflexivity.
  rewrite code_insert_iso. reflexivity.
Qed.

Definition R4 (x y : carr * helper * nmap N * list N) : Prop :=
  fst (fst (fst y)) = fst (fst (fst x)) /\ snd (fst (fst y)) = snd (fst (fst x)) /\ imrel (snd (fst x)) (snd (fst y)) /\ snd y = map phi (snd x).

Lemma cw_place_children_iso nst : (forall i, (phi i <? nst) = (i <? nst)) -> forall es a h im im' base sidx stack, imrel im im' ->
  rres R4 (cw_place_children a h im nst base sidx es stack) (cw_place_children a h im' nst base sidx (redges es) (map phi stack)).
Proof.
  intros Hr. induction es as [|[c ch] es IH]; intros a h im im' base sidx stack Hi; cbn [Iso.redges map cw_place_children fst snd].
  - cbn [rres]. unfold R4. cbn [fst snd]. auto.
  - destruct (use_index h (N.lxor base c)) as [h1| | | |]; cbn [bind rres]; auto.
    destruct (ca_upd a (N.lxor base c) (cset_check sidx)) as [a1| | | |]; cbn [bind rres]; auto.
    rewrite Hr. destruct (ch <? nst); [|reflexivity].
    exact (IH a1 h1 (nset ch (N.lxor base c) im) (nset (phi ch) (N.lxor base c) im') base sidx (ch :: stack) (imrel_set im im' ch _ Hi)).
Qed.

Definition R3 (x y : carr * helper * nmap N) : Prop :=
  fst (fst y) = fst (fst x) /\ snd (fst y) = snd (fst x) /\ imrel (snd x) (snd y).

Lemma cw_find_base_redges a h l : cw_find_base a h (redges l) = cw_find_base a h l.
Proof.
  assert (Haf : forall base l0, cw_all_free h base (redges l0) = cw_all_free h base l0).
  { intros base. induction l0 as [|[c t] r IH]; cbn [Iso.redges map cw_all_free fst snd]; [reflexivity|].
    destruct (is_used_index h (N.lxor base c)) as [u| | | |]; cbn [bind]; try reflexivity. destruct u; [reflexivity|exact IH]. }
  assert (Hvb : forall base, verify_base h base (redges l) = verify_base h base l) by (intros base; unfold verify_base; rewrite Haf; reflexivity).
  assert (Hloop : forall fuel cur c0, cw_find_base_loop fuel h cur c0 (redges l) = cw_find_base_loop fuel h cur c0 l).
  { induction fuel as [|fuel IH]; intros cur c0; destruct cur as [idx|]; cbn [cw_find_base_loop]; try reflexivity.
    destruct (vacant_next h idx) as [nx| | | |]; cbn [bind]; try reflexivity. rewrite Hvb.
    destruct (verify_base h (N.lxor idx c0) l) as [[b|]| | | |]; cbn [bind]; try reflexivity. apply IH. }
  unfold cw_find_base. destruct l as [|[c0 t0] r]; cbn [Iso.redges map fst snd]; [reflexivity|].
  change ((c0, phi t0) :: map (fun e => (fst e, phi (snd e))) r) with (redges ((c0, t0) :: r)). rewrite Hloop. reflexivity.
Qed.

Lemma cw_dfs_loop_iso tbl bl n n' : iso n n' -> forall fuel a h im im' stack, imrel im im' ->
  rres R3 (cw_dfs_loop V fuel tbl bl n a h im stack) (cw_dfs_loop V fuel tbl bl n' a h im' (map phi stack)).
Proof.
  intros H. pose proof H as (Hn & _ & _ & _ & Hr & _).
  induction fuel as [|fuel IH]; intros a h im im' stack Hi; destruct stack as [|sid stack]; cbn [map cw_dfs_loop rres].
  - unfold R3. cbn [fst snd]. auto.
  - exact I.
  - unfold R3. cbn [fst snd]. auto.
  - rewrite (phi_eqb_dead phi psi psi_phi phi_dead). destruct (sid =? DEAD); [reflexivity|].
    rewrite (nfa_get_iso V phi n n' sid H). destruct (nfa_get V n sid) as [st| | | |]; cbn [rmap bind rres]; auto.
    rewrite (cidmap_get_iso n n' im im' sid H Hi). destruct (cidmap_get im (n_nstates n) sid) as [sidx| | | |]; cbn [bind rres]; auto.
    destruct (sidx =? DEAD); [reflexivity|]. cbn [rst n_edges].
    assert (Hm : forall (X : Type) (es : list (N * N)) (x y : X),
               match redges es with [] => x | _ :: _ => y end = match es with [] => x | _ :: _ => y end) by (intros X es x y; destruct es; reflexivity).
    rewrite Hm. rewrite map_edges_iso.
    destruct (n_edges st) as [|e0 es0] eqn:Ee; [exact (IH a h im im' stack Hi)|].
    destruct (map_edges tbl (e0 :: es0)) as [mapped| | | |]; cbn [rmap bind rres]; auto.
    rewrite cw_find_base_redges.
    destruct (cw_find_base a h mapped) as [base| | | |]; cbn [bind rres]; auto.
    destruct (if ca_len a <=? base then cw_extend_array bl a h else Ok (a, h)) as [[a1 h1]| | | |]; cbn [bind rres]; auto.
    rewrite Hn.
    apply (rres_bind R4 R3); [apply cw_place_children_iso; [exact Hr|exact Hi]|].
    intros [[[a2 h2] im2] st2] [[[a2' h2'] im2'] st2'] (E1 & E2 & Hi2 & Est). cbn [fst snd] in *. subst a2' h2' st2'.
    destruct (ca_upd a2 sidx (cset_base base)) as [a3| | | |]; cbn [bind rres]; try reflexivity; try exact I.
    exact (IH a3 h2 im2 im2' st2 Hi2).
Qed.

Lemma cw_set_fails_loop_ok_get n im : forall ids a a', cw_set_fails_loop V n a im ids = Ok a' ->
  forall s, In s ids -> s <> DEAD -> exists st, nfa_get V n s = Ok st.
Proof.
  induction ids as [|i r IH]; intros a a' H s Hs Hd; [destruct Hs|]. cbn [cw_set_fails_loop] in H.
  destruct (i =? DEAD) eqn:Ed.
  - destruct Hs as [<-|Hs]; [apply N.eqb_eq in Ed; contradiction|exact (IH a a' H s Hs Hd)].
  - destruct (cidmap_get im (n_nstates n) i) as [idx| | | |]; cbn [bind] in H; try discriminate.
    destruct (idx =? DEAD); [discriminate|]. destruct (nfa_get V n i) as [st| | | |] eqn:Eg; cbn [bind] in H; try discriminate.
    destruct Hs as [<-|Hs]; [eauto|].
    destruct (ca_upd a idx (cset_outpos (n_outpos st))) as [a1| | | |]; cbn [bind] in H; try discriminate.
    destruct (n_fail st =? DEAD).
    + destruct (ca_upd a1 idx (cset_fail DEAD)) as [a2| | | |]; cbn [bind] in H; try discriminate. exact (IH a2 a' H s Hs Hd).
    + destruct (cidmap_get im (n_nstates n) (n_fail st)) as [fidx| | | |]; cbn [bind] in H; try discriminate.
      destruct (fidx =? DEAD); [discriminate|].
      destruct (ca_upd a1 idx (cset_fail fidx)) as [a2| | | |]; cbn [bind] in H; try discriminate. exact (IH a2 a' H s Hs Hd).
Qed.

Lemma fmap_iso im im' f : imrel im im' -> fmap im' (phi f) = fmap im f.
Proof. intros Hi. unfold fmap. rewrite (phi_eqb_dead phi psi psi_phi phi_dead), Hi. reflexivity. Qed.

Lemma psi_range nst : (forall i, (phi i <? nst) = (i <? nst)) -> forall x, (psi x <? nst) = (x <? nst).
Proof. intros Hr x. rewrite <- (Hr (psi x)), phi_psi. reflexivity. Qed.

Lemma cw_set_fails_iso n n' a1 im im' a2 a2' : iso n n' -> imrel im im' ->
  (forall s1 s2 i, nget s1 im = Some i -> nget s2 im = Some i -> s1 = s2) ->
  cw_set_fails_loop V n a1 im (nseq 0 (N.to_nat (n_nstates n))) = Ok a2 ->
  cw_set_fails_loop V n' a1 im' (nseq 0 (N.to_nat (n_nstates n'))) = Ok a2' -> caeq a2 a2'.
Proof.
  intros H Hi Hinj E1 E2. pose proof H as (Hn & _ & _ & _ & Hr & _). rewrite Hn in E2.
  set (nst := n_nstates n) in *. set (ids := nseq 0 (N.to_nat nst)) in *.
  assert (Hids : forall s, In s ids <-> s < nst).
  { intros s. unfold ids. rewrite nseq_in_l. rewrite N2Nat.id. lia. }
  assert (Hinj' : forall s1 s2 i, nget s1 im' = Some i -> nget s2 im' = Some i -> s1 = s2).
  { intros s1 s2 i G1 G2. rewrite <- (phi_psi s1), Hi in G1. rewrite <- (phi_psi s2), Hi in G2.
    rewrite <- (phi_psi s1), <- (phi_psi s2). f_equal. exact (Hinj _ _ i G1 G2). }
  destruct (cw_set_fails_loop_spec V n im Hinj ids a1 a2 (nseq_nodup' _ _) E1) as (L1 & S1 & U1 & F1).
  destruct (cw_set_fails_loop_spec V n' im' Hinj' ids a1 a2' (nseq_nodup' _ _) E2) as (L2 & S2 & U2 & F2).
  split; [congruence|]. intros j.
  assert (Hfo : c_fail (cslot a2' j) = c_fail (cslot a2 j) /\ c_outpos (cslot a2' j) = c_outpos (cslot a2 j)).
  { destruct (existsb (fun s => negb (s =? DEAD) && match nget s im with Some x => x =? j | None => false end) ids) eqn:Ex.
    + apply existsb_exists in Ex as (s & Hs & Hc). apply andb_true_iff in Hc as [Hd Hg]. apply negb_true_iff, N.eqb_neq in Hd.
      destruct (nget s im) as [x|] eqn:Eg; [|discriminate]. apply N.eqb_eq in Hg. subst x.
      destruct (cw_set_fails_loop_ok_get n im ids a1 a2 E1 s Hs Hd) as [st Hst].
      destruct (F1 s st j Hs Hd Hst Eg) as [Ff1 Fo1].
      assert (Hs' : In (phi s) ids) by (apply Hids; apply Hids in Hs; apply N.ltb_lt; rewrite Hr; apply N.ltb_lt; exact Hs).
      assert (Hd' : phi s <> DEAD) by (intros E; rewrite <- phi_dead in E; apply (phi_inj phi psi psi_phi) in E; contradiction).
      assert (Hst' : nfa_get V n' (phi s) = Ok (rst V phi st)) by (rewrite (nfa_get_iso V phi n n' s H), Hst; reflexivity).
      destruct (F2 (phi s) _ j Hs' Hd' Hst' ltac:(rewrite Hi; exact Eg)) as [Ff2 Fo2].
      rewrite Ff1, Ff2, Fo1, Fo2. cbn [rst n_fail n_outpos]. split; [apply fmap_iso; exact Hi|reflexivity].
    + assert (Hno : forall s, In s ids -> s <> DEAD -> nget s im <> Some j).
      { intros s Hs Hd Hg. assert (existsb (fun s => negb (s =? DEAD) && match nget s im with Some x => x =? j | None => false end) ids = true); [|congruence].
        apply existsb_exists. exists s. split; [exact Hs|]. rewrite Hg, N.eqb_refl. apply N.eqb_neq in Hd. rewrite Hd. reflexivity. }
      assert (Hno' : forall s, In s ids -> s <> DEAD -> nget s im' <> Some j).
      { intros s Hs Hd. rewrite <- (phi_psi s), Hi. apply Hno.
        - apply Hids. apply Hids in Hs. apply N.ltb_lt. rewrite (psi_range nst Hr). apply N.ltb_lt. exact Hs.
        - intros E. apply Hd. rewrite <- (phi_psi s), E. exact phi_dead. }
      destruct (U1 j Hno) as [A1 B1]. destruct (U2 j Hno') as [A2 B2]. split; congruence. }
  destruct Hfo as [Hf Ho]. destruct (S1 j) as [B1 C1]. destruct (S2 j) as [B2 C2]. unfold cb, cck in *.
  apply cstate_eq; congruence.
Qed.

(* the three phases of the character-wise build_double_array, as they appear in build_with_values *)
Theorem cw_layout_iso alpha nfb tbl n n' a0 h0 b a1 h1 im a2 a0' h0' b' a1' h1' im' a2' : iso n n' ->
  (forall s1 s2 i, nget s1 im = Some i -> nget s2 im = Some i -> s1 = s2) ->
  cw_init_array alpha nfb = Ok (a0, h0, b) ->
  cw_dfs_loop V (S (N.to_nat (n_nstates n))) tbl b n a0 h0 (nset ROOT ROOT nempty) [ROOT] = Ok (a1, h1, im) ->
  cw_set_fails_loop V n a1 im (nseq 0 (N.to_nat (n_nstates n))) = Ok a2 ->
  cw_init_array alpha nfb = Ok (a0', h0', b') ->
  cw_dfs_loop V (S (N.to_nat (n_nstates n'))) tbl b' n' a0' h0' (nset ROOT ROOT nempty) [ROOT] = Ok (a1', h1', im') ->
  cw_set_fails_loop V n' a1' im' (nseq 0 (N.to_nat (n_nstates n'))) = Ok a2' ->
  carr_to_list a2' = carr_to_list a2.
Proof.
  intros H Hinj Ei Ed Es Ei' Ed' Es'. rewrite Ei in Ei'. inversion Ei'; subst a0' h0' b'. clear Ei'.
  rewrite (iso_nstates V phi n n' H) in Ed'.
  assert (Hi0 : imrel (nset ROOT ROOT nempty) (nset ROOT ROOT nempty)).
  { intros s. destruct (N.eq_dec s ROOT) as [->|Hne]; [rewrite phi_root, !ngss; reflexivity|].
    rewrite !ngso, !nget_empty; [reflexivity|exact Hne|]. intros E. rewrite <- phi_root in E. apply (phi_inj phi psi psi_phi) in E. contradiction. }
  pose proof (cw_dfs_loop_iso tbl b n n' H (S (N.to_nat (n_nstates n))) a0 h0 _ _ [ROOT] Hi0) as Hd. cbn [map] in Hd. rewrite phi_root in Hd.
  rewrite Ed, Ed' in Hd. cbn [rres] in Hd. destruct Hd as (Ea & Eh & Him). cbn [fst snd] in *. subst a1' h1'.
  apply carr_to_list_caeq. exact (cw_set_fails_iso n n' a1 im im' a2 a2' H Him Hinj Es Es').
Qed.

End Sim.
