(* NoPanicCw.v — C10, the layout phase of the character-wise builder never panics: with the
   invariant CDI of CwDaRefine.v and the vacant-list invariant HL of HelperList.v every step of
   the character-wise build_double_array (init_array, map_edges, find_base, extend_array with
   push_block, child placement, set_fails) returns Ok, or Err AutomatonScale when the array would
   outgrow u32. *)
From DV Require Import Model.Base Model.Nfa Model.Helper Model.Utf8 Model.CwBuild Proofs.TrieInv Proofs.BuildSafe Proofs.CwBuildSafe
     Proofs.HelperFlagsG Proofs.HelperList Proofs.DaRefine Proofs.CwDaRefine Proofs.NoPanicBw.
From Coq Require Import Sorted ZifyN ZifyNat ZifyBool.
Local Open Scope N_scope.

Lemma ca_upd_total a i f : i < ca_len a -> exists a', ca_upd a i f = Ok a' /\ ca_len a' = ca_len a.
Proof.
  intros Hi. unfold ca_upd, ca_get. apply N.ltb_lt in Hi. rewrite Hi. cbn [bind]. eexists. split; reflexivity.
Qed.

Lemma map_edges_ok tbl : forall es, (forall c ch, In (c, ch) es -> exists m, code_of tbl c = Some m) ->
  exists l, map_edges tbl es = Ok l.
Proof.
  induction es as [|[c ch] r IH]; intros H; cbn [map_edges]; [eauto|].
  destruct (H c ch (or_introl eq_refl)) as [m ->]. destruct (IH (fun c' ch' Hin => H c' ch' (or_intror Hin))) as [l ->]. cbn [bind]. eauto.
Qed.

Section G.
Variable k : N.
Hypothesis k_pos : 1 <= k.
Notation bl := (2 ^ k).
Notation HW := (HW bl).

Lemma blp : 0 < bl. Proof. apply N.neq_0_lt_0, N.pow_nonzero. discriminate. Qed.
Lemma bl_ge2 : 2 <= bl.
Proof. replace k with (1 + (k - 1)) by lia. rewrite N.pow_add_r. pose proof (N.pow_nonzero 2 (k - 1) ltac:(discriminate)). change (2 ^ 1) with 2. lia. Qed.

Lemma act_blk_k h i : HW h -> (act h i <-> active_block_start h <= i / bl < h_nblocks h).
Proof.
  pose proof blp as Hbl. intros (B & _). unfold act, active_index_start, active_index_end. rewrite B. split.
  - intros [L U]. split; [apply N.div_le_lower_bound; lia|apply N.div_lt_upper_bound; lia].
  - intros [L U]. pose proof (N.div_mod i bl ltac:(lia)). pose proof (N.mod_lt i bl ltac:(lia)). split; nia.
Qed.

Lemma act_xor_k h i c : HW h -> act h i -> c < bl -> act h (N.lxor i c).
Proof. intros W A Hc. apply (act_blk_k h _ W). rewrite (xor_div_k k i c Hc). apply (act_blk_k h i W). exact A. Qed.

Lemma act_lt_len_k a h i : HW h -> ca_len a = h_nblocks h * bl -> act h i -> i < ca_len a.
Proof. intros (B & _) Hcp [_ U]. unfold active_index_end in U. rewrite B in U. lia. Qed.

Lemma HL_mem_k h L i : HL h L -> (In i L <-> act h i /\ ui h i = false).
Proof. intros H. exact (hl_mem h L H i). Qed.

(* ---- find_base ------------------------------------------------------------------------------------ *)
Lemma cw_all_free_total h base : forall es, (forall c ch, In (c, ch) es -> act h (N.lxor base c)) ->
  exists b, cw_all_free h base es = Ok b.
Proof.
  induction es as [|[c ch] r IH]; intros Ha; cbn [cw_all_free]; [eauto|].
  rewrite (is_used_index_act h _ (Ha c ch (or_introl eq_refl))). cbn [bind]. destruct (ui h (N.lxor base c)); [eauto|].
  apply IH. intros c' ch' Hin. apply (Ha c' ch'). right. exact Hin.
Qed.

Lemma verify_base_total h base es : (forall c ch, In (c, ch) es -> act h (N.lxor base c)) -> exists r, verify_base h base es = Ok r.
Proof. intros Ha. unfold verify_base. destruct (cw_all_free_total h base es Ha) as [b ->]. cbn [bind]. destruct b; eauto. Qed.

Lemma cw_find_base_loop_total h c0 es : HW h -> c0 < bl -> (forall c ch, In (c, ch) es -> c < bl) ->
  forall l2 l1 fuel, HL h (l1 ++ l2) -> (length l2 <= fuel)%nat ->
  exists r, cw_find_base_loop fuel h (hd_error l2) c0 es = Ok r.
Proof.
  intros W Hc0 Hes. induction l2 as [|idx r IH]; intros l1 fuel H Hf.
  - destruct fuel; cbn [hd_error cw_find_base_loop]; eauto.
  - cbn [hd_error]. destruct fuel as [|fuel]; [cbn [length] in Hf; lia|]. cbn [cw_find_base_loop].
    rewrite (vacant_next_spec bl blp h l1 idx r H). cbn [bind].
    assert (Ai : act h idx) by (apply (HL_mem_k h _ idx H); apply in_or_app; right; left; reflexivity).
    destruct (verify_base_total h (N.lxor idx c0) es) as [rv ->].
    { intros c ch Hin. rewrite N.lxor_assoc. apply act_xor_k; [exact W|exact Ai|]. apply lxor_lt_k; [exact Hc0|exact (Hes c ch Hin)]. }
    cbn [bind]. destruct rv as [b|]; [eauto|].
    apply (IH (l1 ++ [idx]) fuel); [rewrite <- app_assoc; exact H|cbn [length] in Hf; lia].
Qed.

Lemma HL_length_k h L : HW h -> HL h L -> (length L <= N.to_nat (h_cap h))%nat.
Proof.
  pose proof blp as Hbl. intros W H. destruct W as (Wb & Wc & Wd).
  apply (range_length L (active_index_start h)); [apply (sorted_nodup bl blp); exact (hl_sorted h L H)|].
  intros x Hx. apply (HL_mem_k h L x H) in Hx as [[A B] _]. rewrite N2Nat.id. split; [exact A|].
  unfold active_index_start, active_index_end, active_block_start in *. rewrite Wb, Wc in *.
  destruct (N.le_gt_cases (h_nblocks h) (h_nfb h)) as [Hle|Hgt].
  - replace (h_nblocks h - h_nfb h) with 0 by lia. pose proof (N.mul_le_mono_r _ _ bl Hle). lia.
  - replace (h_nblocks h) with ((h_nblocks h - h_nfb h) + h_nfb h) in B at 1 by lia. lia.
Qed.

Lemma xor_len_range len nb c : len = nb * bl -> c < bl -> len <= N.lxor len c < len + bl.
Proof.
  pose proof blp as Hbl. intros Hl Hc. pose proof (xor_div_k k len c Hc) as Hd.
  assert (Hq : len / bl = nb) by (rewrite Hl; apply N.div_mul; lia). rewrite Hq in Hd.
  pose proof (N.div_mod (N.lxor len c) bl ltac:(lia)) as Hdm. pose proof (N.mod_lt (N.lxor len c) bl ltac:(lia)).
  rewrite Hd in Hdm. lia.
Qed.

Lemma cw_find_base_total a h L es : HW h -> HL h L -> es <> [] -> (forall c ch, In (c, ch) es -> c < bl) ->
  ca_len a <= U32_MAX -> ca_len a = h_nblocks h * bl -> 1 <= h_nblocks h -> exists b, cw_find_base a h es = Ok b.
Proof.
  pose proof blp as Hbl.
  intros W H Hne Hes Hle Hcp Hnb. unfold cw_find_base. destruct es as [|[c0 ch0] r]; [congruence|].
  rewrite (hl_head h L H).
  destruct (cw_find_base_loop_total h c0 ((c0, ch0) :: r) W (Hes c0 ch0 (or_introl eq_refl)) Hes L [] (S (N.to_nat (h_cap h))) H) as [rv ->].
  { pose proof (HL_length_k h L W H). lia. }
  cbn [bind]. destruct rv as [b|]; [eauto|].
  assert ((U32_MAX <? ca_len a) = false) as -> by (apply N.ltb_ge; exact Hle).
  assert ((N.lxor (ca_len a) c0 =? 0) = false) as ->; [|eauto].
  apply N.eqb_neq. pose proof (xor_len_range (ca_len a) (h_nblocks h) c0 Hcp (Hes c0 ch0 (or_introl eq_refl))). nia.
Qed.

(* ---- extend_array ----------------------------------------------------------------------------------- *)
Lemma cw_extend_array_total a h L : HW h -> HL h L -> ca_len a = h_nblocks h * bl ->
  cw_extend_array bl a h = Err AutomatonScale \/ exists a1 h1 L1, cw_extend_array bl a h = Ok (a1, h1) /\ HL h1 L1.
Proof.
  intros W H Hcp. unfold cw_extend_array. destruct (U32_MAX - bl <? ca_len a) eqn:Esc; [left; reflexivity|right].
  pose proof W as (Wb & Wc & Wd).
  destruct (push_block_total bl blp h L W H) as (h1 & L1 & -> & H1).
  { rewrite Wb. unfold num_elements. rewrite Wb, <- Hcp. exact Esc. }
  cbn [bind]. eauto.
Qed.

(* ---- the child placement ---------------------------------------------------------------------------- *)
Lemma cw_place_children_total : forall es a h L idmap nst base sidx stack, HW h -> HL h L ->
  (forall c ch, In (c, ch) es -> act h (N.lxor base c) /\ ui h (N.lxor base c) = false /\ N.lxor base c < ca_len a /\ ch < nst) ->
  NoDup (map fst es) ->
  exists a' h' idmap' stack' L', cw_place_children a h idmap nst base sidx es stack = Ok (a', h', idmap', stack') /\ HL h' L'
                                  /\ ca_len a' = ca_len a /\ hmeta h h'.
Proof.
  pose proof blp as Hbl.
  induction es as [|[c ch] r IH]; intros a h L idmap nst base sidx stack W H Hes Hnd; cbn [cw_place_children].
  - exists a, h, idmap, stack, L. split; [reflexivity|]. split; [exact H|]. split; [reflexivity|apply hmeta_refl].
  - destruct (Hes c ch (or_introl eq_refl)) as (Ac & Uc & Lc & Hch).
    assert (Hin : In (N.lxor base c) L) by (apply (HL_mem_k h L _ H); split; assumption).
    apply in_split in Hin as (l1 & l2 & EL). subst L.
    destruct (use_index_total bl blp h l1 _ l2 W H) as (h1 & E1 & H1). rewrite E1. cbn [bind].
    destruct (ca_upd_total a _ (cset_check sidx) Lc) as (a1 & -> & La1). cbn [bind].
    apply N.ltb_lt in Hch. rewrite Hch.
    destruct (use_index_fl bl blp h _ h1 W E1) as (_ & _ & M & F).
    cbn [map fst] in Hnd. apply NoDup_cons_iff in Hnd as [Hc Hnd].
    destruct (IH a1 h1 (l1 ++ l2) (nset ch (N.lxor base c) idmap) nst base sidx (ch :: stack) (HW_meta bl _ _ W M) H1) as (a' & h' & im' & st' & L' & E & H' & La' & M'); [|exact Hnd|].
    + intros c' ch' Hin'. destruct (Hes c' ch' (or_intror Hin')) as (A' & U' & L' & Hch').
      split; [apply (act_meta h h1 _ M); exact A'|]. split; [|split; [congruence|exact Hch']].
      destruct (F _ A') as [-> _]. rewrite U'.
      assert ((N.lxor base c' =? N.lxor base c) = false) as ->; [|reflexivity].
      apply N.eqb_neq. intros E. apply lxor_inj_r in E. subst c'. apply Hc. apply in_map_iff. exists (c, ch'). auto.
    + exists a', h', im', st', L'. split; [exact E|]. split; [exact H'|]. split; [congruence|exact (hmeta_trans _ _ _ M M')].
Qed.

(* ================================================================================================= *)
Section NP.
Variable V : Type.
Variable n : nfa V.
Variable tbl : nmap N.
Notation node := (node V n).
Notation edges_of := (edges_of V n).
Notation CDI := (CDI k V n tbl).

Hypothesis wf_n : forall i, i < n_nstates n -> exists st, nget i (n_states n) = Some st.
Hypothesis edges_child : forall s c t, node s -> (In (c, t) (edges_of s) <-> tchild V n s c = Some t).
Hypothesis child_node : forall s c t, node s -> tchild V n s c = Some t -> node t /\ t <> ROOT /\ t <> DEAD /\ t < n_nstates n.
Hypothesis uniq_parent : forall p1 p2 c1 c2 t, node p1 -> node p2 ->
  tchild V n p1 c1 = Some t -> tchild V n p2 c2 = Some t -> p1 = p2 /\ c1 = c2.
Hypothesis node_lt : forall t, node t -> t < n_nstates n.
Hypothesis edges_nodup : forall s, node s -> NoDup (map fst (edges_of s)).
Hypothesis code_lt : forall c m, code_of tbl c = Some m -> m < bl.
Hypothesis code_inj : forall c1 c2 m, code_of tbl c1 = Some m -> code_of tbl c2 = Some m -> c1 = c2.
Hypothesis code_total : forall s c t, node s -> In (c, t) (edges_of s) -> exists m, code_of tbl c = Some m.
Hypothesis root_node : node ROOT.
Hypothesis nstates_nodes : forall s, s < n_nstates n -> s <> DEAD -> node s.
Hypothesis dead_not_node : ~ node DEAD.
Hypothesis fail_node : forall s st, node s -> nfa_get V n s = Ok st -> n_fail st = DEAD \/ node (n_fail st).

Lemma nfa_get_node_c s : node s -> exists st, nfa_get V n s = Ok st /\ edges_of s = n_edges st.
Proof.
  intros Ns. pose proof (node_lt s Ns) as Hl. destruct (wf_n s Hl) as [st Hst]. exists st. unfold nfa_get, DaRefine.edges_of.
  apply N.ltb_lt in Hl. rewrite Hl, Hst. auto.
Qed.

Lemma CDI_count a h idmap stack proc : CDI a h idmap stack proc -> (length (proc ++ stack) <= N.to_nat (n_nstates n))%nat.
Proof.
  intros D. apply (range_length (proc ++ stack) 0); [exact (cd_nodup _ _ _ _ _ _ _ _ _ D)|].
  intros x Hx. rewrite N2Nat.id. pose proof (node_lt x (cd_node _ _ _ _ _ _ _ _ _ D x Hx)). lia.
Qed.

Lemma cw_dfs_loop_total : forall fuel a h L idmap stack proc, CDI a h idmap stack proc -> HL h L -> ca_len a <= U32_MAX ->
  (N.to_nat (n_nstates n) < fuel + length proc)%nat ->
  okwith (fun r => exists proc', CDI (fst (fst r)) (snd (fst r)) (snd r) [] proc') (cw_dfs_loop V fuel tbl bl n a h idmap stack).
Proof.
  pose proof blp as Hbl.
  induction fuel as [|fuel IH]; intros a h L idmap stack proc D H Hmax Hf; destruct stack as [|sid stack]; cbn [cw_dfs_loop okwith fst snd];
    try (exists proc; exact D).
  - exfalso. pose proof (CDI_count _ _ _ _ _ D) as Hc. rewrite app_length in Hc. cbn [length] in Hc. lia.
  - assert (Hsin : In sid (proc ++ sid :: stack)) by (apply in_app_iff; right; left; reflexivity).
    pose proof (cd_node _ _ _ _ _ _ _ _ _ D sid Hsin) as Ns.
    assert ((sid =? DEAD) = false) as -> by (apply N.eqb_neq; intros ->; exact (dead_not_node Ns)).
    destruct (nfa_get_node_c sid Ns) as (st & -> & Hed). cbn [bind].
    destruct (proj2 (cd_im _ _ _ _ _ _ _ _ _ D sid) Hsin) as [sidx Hsidx].
    unfold cidmap_get. pose proof (node_lt sid Ns) as Hlt. apply N.ltb_lt in Hlt. rewrite Hlt, Hsidx. cbn [bind].
    destruct (cd_im_rng _ _ _ _ _ _ _ _ _ D sid sidx Hsidx) as [Hsl Hs2].
    assert ((sidx =? DEAD) = false) as ->.
    { apply N.eqb_neq. intros ->. destruct (N.eq_dec sid ROOT) as [->|Hne].
      - rewrite (cd_im_root _ _ _ _ _ _ _ _ _ D) in Hsidx. discriminate.
      - specialize (Hs2 Hne). unfold DEAD in Hs2. lia. }
    pose proof (cd_hw _ _ _ _ _ _ _ _ _ D) as W. pose proof (cd_cp _ _ _ _ _ _ _ _ _ D) as Hcp.
    destruct (n_edges st) as [|e0 es0] eqn:Ee.
    + apply (IH a h L idmap stack (sid :: proc)); [pose proof (CDI_leaf k V n tbl) as X; feed X; apply X; [exact D|rewrite Hed; reflexivity]|exact H|exact Hmax|cbn [length]; lia].
    + rewrite <- Hed.
      destruct (map_edges_ok tbl (edges_of sid) (fun c ch Hin => code_total sid c ch Ns Hin)) as [mapped Em]. rewrite Em. cbn [bind].
      assert (Hcode : forall m ch, In (m, ch) mapped -> m < bl).
      { intros m ch Hin. apply (map_edges_iff tbl _ _ Em) in Hin as (c & _ & Hm). exact (code_lt c m Hm). }
      assert (Hmne : mapped <> []).
      { intros ->. destruct e0 as [c0 ch0].
        assert (Hin0 : In (c0, ch0) (edges_of sid)) by (rewrite Hed; left; reflexivity).
        destruct (code_total sid c0 ch0 Ns Hin0) as [m Hm].
        exact (proj2 (map_edges_iff tbl _ _ Em m ch0) (ex_intro _ c0 (conj Hin0 Hm))). }
      assert (Hnb : 1 <= h_nblocks h).
      { destruct (cd_im_rng _ _ _ _ _ _ _ _ _ D ROOT ROOT (cd_im_root _ _ _ _ _ _ _ _ _ D)) as [Hr _]. unfold ROOT in Hr. rewrite Hcp in Hr. nia. }
      destruct (cw_find_base_total a h L mapped W H Hmne Hcode Hmax Hcp Hnb) as [base Eb]. rewrite Eb. cbn [bind].
      destruct (cw_find_base_inv _ _ _ _ Eb) as (_ & Hb0 & Hcase).
      assert (Hext : okwith (fun r => exists L1, HL (snd r) L1 /\ CDI (fst r) (snd r) idmap (sid :: stack) proc /\ ca_len (fst r) <= U32_MAX
                                       /\ base < ca_len (fst r)
                                       /\ forall c ch, In (c, ch) mapped -> act (snd r) (N.lxor base c) /\ ui (snd r) (N.lxor base c) = false)
                           (if ca_len a <=? base then cw_extend_array bl a h else Ok (a, h))).
      { destruct Hcase as [Hfree|(c0 & ch0 & r & -> & ->)].
        - destruct mapped as [|[c0 ch0] r]; [congruence|]. destruct (Hfree c0 ch0 (or_introl eq_refl)) as [Ac _].
          apply (act_blk_k h _ W) in Ac. rewrite (xor_div_k k base c0 (Hcode c0 ch0 (or_introl eq_refl))) in Ac.
          assert (base < ca_len a).
          { rewrite Hcp. pose proof (N.div_mod base bl ltac:(lia)). pose proof (N.mod_lt base bl ltac:(lia)). nia. }
          assert ((ca_len a <=? base) = false) as -> by (apply N.leb_gt; assumption). cbn [okwith fst snd].
          exists L. split; [exact H|]. split; [exact D|]. split; [exact Hmax|]. split; [assumption|exact Hfree].
        - pose proof (Hcode c0 ch0 (or_introl eq_refl)) as Hc0.
          pose proof (xor_len_range (ca_len a) (h_nblocks h) c0 Hcp Hc0) as Hrange.
          assert ((ca_len a <=? N.lxor (ca_len a) c0) = true) as -> by (apply N.leb_le; lia).
          destruct (cw_extend_array_total a h L W H Hcp) as [->|(a1 & h1 & L1 & E1 & H1)]; [exact I|]. rewrite E1. cbn [okwith fst snd].
          pose proof (CDI_extend k k_pos V n tbl) as X. feed X. destruct (X _ _ _ _ _ _ _ D E1) as (D1 & L1' & _ & Hfresh). clear X.
          assert (Hsc : ca_len a + bl <= U32_MAX).
          { unfold cw_extend_array in E1. destruct (U32_MAX - bl <? ca_len a) eqn:Es; [discriminate|]. apply N.ltb_ge in Es.
            assert (bl <= U32_MAX); [|lia]. rewrite Hcp in Hmax. nia. }
          exists L1. split; [exact H1|]. split; [exact D1|]. split; [lia|]. split; [lia|].
          intros c ch Hin. rewrite N.lxor_assoc.
          apply Hfresh. apply (xor_len_range (ca_len a) (h_nblocks h) _ Hcp). apply lxor_lt_k; [exact Hc0|exact (Hcode c ch Hin)]. }
      destruct (if ca_len a <=? base then cw_extend_array bl a h else Ok (a, h)) as [[a1 h1]|e| | |]; cbn [okwith fst snd] in Hext; try contradiction;
        [|destruct e; try contradiction; exact I].
      destruct Hext as (L1 & H1 & D1 & Hmax1 & Hblt & Hfree). cbn [bind].
      pose proof (cd_hw _ _ _ _ _ _ _ _ _ D1) as W1. pose proof (cd_cp _ _ _ _ _ _ _ _ _ D1) as Hcp1.
      destruct (cw_place_children_total mapped a1 h1 L1 idmap (n_nstates n) base sidx stack W1 H1) as (a2 & h2 & idmap2 & stack2 & L2 & E2 & H2 & La2 & M2).
      { intros c ch Hin. destruct (Hfree c ch Hin) as [A1 U1]. split; [exact A1|]. split; [exact U1|].
        split; [exact (act_lt_len_k a1 h1 _ W1 Hcp1 A1)|].
        apply (map_edges_iff tbl _ _ Em) in Hin as (c' & Hin' & _). apply (edges_child sid c' ch Ns) in Hin'.
        exact (proj2 (proj2 (proj2 (child_node sid c' ch Ns Hin')))). }
      { apply (map_edges_nodup tbl code_inj (edges_of sid) mapped (edges_nodup sid Ns) Em). }
      rewrite E2. cbn [bind].
      assert (Hsl1 : sidx < ca_len a2).
      { rewrite La2. destruct (cd_im_rng _ _ _ _ _ _ _ _ _ D1 sid sidx Hsidx) as [Hx _]. exact Hx. }
      destruct (ca_upd_total a2 sidx (cset_base base) Hsl1) as (a3 & E3 & La3). rewrite E3. cbn [bind].
      apply (IH a3 h2 L2 idmap2 stack2 (sid :: proc)).
      * pose proof (CDI_node k k_pos V n tbl) as X. feed X.
        apply (X a1 h1 idmap sid stack proc mapped base sidx a2 h2 idmap2 stack2 a3 D1); try assumption. rewrite Hed. discriminate.
      * exact H2.
      * lia.
      * cbn [length]. lia.
Qed.

(* ---- set_fails ---------------------------------------------------------------------------------------- *)
Lemma cw_set_fails_loop_total idmap len :
  (forall s, node s -> exists i, nget s idmap = Some i /\ i < len /\ i <> DEAD) ->
  forall ids a, ca_len a = len -> (forall i, In i ids -> i < n_nstates n) ->
  okwith (fun a' => ca_len a' = len) (cw_set_fails_loop V n a idmap ids).
Proof.
  intros Hpl. induction ids as [|i r IH]; intros a La Hids; cbn [cw_set_fails_loop]; [exact La|].
  assert (Hr : forall j, In j r -> j < n_nstates n) by (intros j Hj; apply Hids; right; exact Hj).
  destruct (i =? DEAD) eqn:Ed; [exact (IH a La Hr)|]. apply N.eqb_neq in Ed.
  pose proof (Hids i (or_introl eq_refl)) as Hi. pose proof (nstates_nodes i Hi Ed) as Ni.
  destruct (Hpl i Ni) as (idx & Hidx & Hil & Hid).
  unfold cidmap_get at 1. apply N.ltb_lt in Hi. rewrite Hi, Hidx. cbn [bind].
  assert ((idx =? DEAD) = false) as -> by (apply N.eqb_neq; exact Hid).
  destruct (nfa_get_node_c i Ni) as (st & Hst & _). rewrite Hst. cbn [bind].
  destruct (ca_upd_total a idx (cset_outpos (n_outpos st)) ltac:(lia)) as (a1 & -> & La1). cbn [bind].
  destruct (n_fail st =? DEAD) eqn:Ef.
  - destruct (ca_upd_total a1 idx (cset_fail DEAD) ltac:(lia)) as (a2 & -> & La2). cbn [bind]. apply IH; [congruence|exact Hr].
  - apply N.eqb_neq in Ef. destruct (fail_node i st Ni Hst) as [Hd|Nf]; [congruence|].
    destruct (Hpl _ Nf) as (fidx & Hfidx & Hfl & Hfd).
    unfold cidmap_get. pose proof (node_lt _ Nf) as Hfl2. apply N.ltb_lt in Hfl2. rewrite Hfl2, Hfidx. cbn [bind].
    assert ((fidx =? DEAD) = false) as -> by (apply N.eqb_neq; exact Hfd).
    destruct (ca_upd_total a1 idx (cset_fail fidx) ltac:(lia)) as (a2 & -> & La2). cbn [bind]. apply IH; [congruence|exact Hr].
Qed.

(* ---- init_array ----------------------------------------------------------------------------------------- *)
Lemma HL_empty_k nfb : HL {| h_items := nempty; h_cap := bl * nfb; h_block_len := bl; h_nfb := nfb; h_nblocks := 0; h_head := None |} [].
Proof.
  constructor; [constructor| |reflexivity|exact I].
  intros i. split; [intros []|]. intros [[A B] _]. unfold active_index_start, active_index_end, active_block_start in *. cbn in *. lia.
Qed.

Lemma cw_init_array_total alpha nfb : block_len_of alpha = bl -> 1 <= nfb ->
  okwith (fun r => exists L0, HL (snd (fst r)) L0) (cw_init_array alpha nfb).
Proof.
  pose proof blp as Hbl. pose proof bl_ge2 as Hbl2.
  intros Hb Hn. unfold cw_init_array, helper_new. fold (block_len_of alpha). rewrite Hb.
  destruct (U32_MAX <? bl * nfb); [exact I|].
  assert ((bl * nfb =? 0) = false) as -> by (apply N.eqb_neq; nia). cbn [bind].
  set (hh0 := {| h_items := nempty; h_cap := bl * nfb; h_block_len := bl; h_nfb := nfb; h_nblocks := 0; h_head := None |}).
  assert (W0 : HW hh0) by (unfold HelperFlagsG.HW, hh0; cbn; split; [reflexivity|split; [reflexivity|exact Hn]]).
  destruct (push_block_total bl blp hh0 [] W0 (HL_empty_k nfb)) as (h1 & L1 & E1 & H1).
  { unfold hh0, num_elements. cbn. apply N.ltb_ge. lia. }
  rewrite E1. cbn [bind].
  destruct (push_block_fl bl blp hh0 h1 W0 E1) as (W1 & Nb1 & F1). cbn [h_nblocks hh0] in Nb1.
  assert (Hact1 : forall j, act h1 j <-> j < bl).
  { intros j. destruct W1 as (B1 & C1 & D1). unfold act, active_index_start, active_index_end, active_block_start. rewrite B1, Nb1.
    replace (0 + 1 - h_nfb h1) with 0 by lia. lia. }
  assert (Hfresh : forall j, j < bl -> ui h1 j = false).
  { intros j Hj. destruct (F1 j (proj2 (Hact1 j) Hj)) as [G _]. apply G. unfold active_index_end, hh0. cbn. lia. }
  assert (Hr : In ROOT L1) by (apply (HL_mem_k h1 L1 ROOT H1); split; [apply Hact1; unfold ROOT; lia|apply Hfresh; unfold ROOT; lia]).
  apply in_split in Hr as (l1 & l2 & EL). subst L1.
  destruct (use_index_total bl blp h1 l1 ROOT l2 W1 H1) as (h2 & E2 & H2). rewrite E2. cbn [bind].
  destruct (use_index_fl bl blp h1 ROOT h2 W1 E2) as (_ & _ & M2 & F2). pose proof (HW_meta bl _ _ W1 M2) as W2.
  assert (Hd : In DEAD (l1 ++ l2)).
  { apply (HL_mem_k h2 _ DEAD H2). assert (A1 : act h1 DEAD) by (apply Hact1; unfold DEAD; lia). split; [apply (act_meta h1 h2 _ M2); exact A1|].
    destruct (F2 DEAD A1) as [-> _]. rewrite (Hfresh DEAD ltac:(unfold DEAD; lia)). reflexivity. }
  apply in_split in Hd as (m1 & m2 & EM). rewrite EM in H2.
  destruct (use_index_total bl blp h2 m1 DEAD m2 W2 H2) as (h3 & E3 & H3). rewrite E3. cbn [bind okwith fst snd]. eauto.
Qed.

(* ---- the whole layout ----------------------------------------------------------------------------------- *)
Theorem cw_layout_total alpha nfb : block_len_of alpha = bl -> 1 <= nfb ->
  okscale (r0 <- cw_init_array alpha nfb ;;
           let '(a0, h0, block_len) := r0 in
           r1 <- cw_dfs_loop V (S (N.to_nat (n_nstates n))) tbl block_len n a0 h0 (nset ROOT ROOT nempty) [ROOT] ;;
           let '(a1, h1, idmap) := r1 in
           cw_set_fails_loop V n a1 idmap (nseq 0 (N.to_nat (n_nstates n)))).
Proof.
  intros Hb Hn. pose proof (cw_init_array_total alpha nfb Hb Hn) as Hi.
  destruct (cw_init_array alpha nfb) as [[[a0 h0] b]|e| | |] eqn:Ei; cbn [okwith fst snd bind] in *; try contradiction; [|destruct e; try contradiction; exact I].
  destruct Hi as [L0 H0].
  pose proof (cw_init_CDI k k_pos V n tbl) as X. feed X. destruct (X alpha nfb a0 h0 b Hb Ei) as [-> D0]. clear X. specialize (D0 root_node).
  assert (Hmax0 : ca_len a0 <= U32_MAX).
  { destruct (cw_init_array_inv _ _ _ _ _ Ei) as (Hb' & Hbu & _). unfold cw_init_array in Ei. bstep Ei. bstep Ei. bstep Ei. bstep Ei.
    inversion Ei. cbn [ca_len]. fold (block_len_of alpha). rewrite <- Hb'. exact Hbu. }
  pose proof (cw_dfs_loop_total (S (N.to_nat (n_nstates n))) a0 h0 L0 _ [ROOT] [] D0 H0 Hmax0 ltac:(cbn [length]; lia)) as Hd.
  destruct (cw_dfs_loop V _ tbl bl n a0 h0 _ _) as [[[a1 h1] idmap]|e| | |]; cbn [okwith fst snd bind] in *; try contradiction; [|destruct e; try contradiction; exact I].
  destruct Hd as [proc D1].
  assert (Hplaced : forall s, node s -> In s proc).
  { intros s [w Hw]. revert s Hw. induction w as [|c w IHw] using rev_ind; intros s Hw.
    - cbn in Hw. inversion Hw; subst s. pose proof (cd_im _ _ _ _ _ _ _ _ _ D1 ROOT) as Hx. rewrite app_nil_r in Hx. apply Hx. exists ROOT. exact (cd_im_root _ _ _ _ _ _ _ _ _ D1).
    - rewrite twalk_snoc in Hw. destruct (twalk V n ROOT w) as [p|] eqn:Ep; [|discriminate].
      pose proof (cd_chi _ _ _ _ _ _ _ _ _ D1 p c s (IHw p eq_refl) Hw) as Hx. rewrite app_nil_r in Hx. exact Hx. }
  assert (Hpl : forall s, node s -> exists i, nget s idmap = Some i /\ i < ca_len a1 /\ i <> DEAD).
  { intros s Ns. pose proof (Hplaced s Ns) as Hin. destruct (proj2 (cd_im _ _ _ _ _ _ _ _ _ D1 s) ltac:(rewrite app_nil_r; exact Hin)) as [i Hi].
    destruct (cd_im_rng _ _ _ _ _ _ _ _ _ D1 s i Hi) as [Hl H2]. exists i. split; [exact Hi|]. split; [exact Hl|].
    destruct (N.eq_dec s ROOT) as [->|Hne]; [rewrite (cd_im_root _ _ _ _ _ _ _ _ _ D1) in Hi; inversion Hi; discriminate|].
    specialize (H2 Hne). unfold DEAD. lia. }
  pose proof (cw_set_fails_loop_total idmap (ca_len a1) Hpl (nseq 0 (N.to_nat (n_nstates n))) a1 eq_refl) as Hsf.
  specialize (Hsf ltac:(intros i Hi; apply nseq_in_c in Hi; lia)).
  destruct (cw_set_fails_loop V n a1 idmap _) as [a2|e| | |]; cbn [okwith okscale] in *; try contradiction; [exact I|destruct e; try contradiction; exact I].
Qed.

End NP.
End G.
