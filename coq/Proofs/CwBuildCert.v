(* CwBuildCert.v — the builder theorem for the character-wise automaton, standard match kind:
   EVERY automaton that construction returns passes the certificate checker cw_cert_ok.
   Chain: TrieInv -> NfaFails -> CwDaRefine (+ the code mapper is injective on the characters it
   knows) -> every check of the certificate succeeds. *)
From DV Require Import Model.Base Model.Nfa Model.Helper Model.Utf8 Model.CwBuild Model.CwSearch Model.Spec Model.Cert
     Proofs.GenAC Proofs.TrieInv Proofs.BuildTrie Proofs.BuildSafe Proofs.CwBuildSafe Proofs.NfaFails Proofs.DaRefine Proofs.CwDaRefine
     Proofs.BwSafe Proofs.BuildProps Proofs.BuildCert.
From Coq Require Import Sorted ZifyN ZifyNat ZifyBool.
Local Open Scope N_scope.

Ltac bstep H :=
  match type of H with
  | bind ?e _ = Ok _ => let E := fresh "E" in destruct e eqn:E; cbn [bind] in H; try discriminate
  end.

(* ---- the code mapper is injective --------------------------------------------------------------- *)
Lemma sorted_insert_in c l x : In x (sorted_insert c l) <-> x = c \/ In x l.
Proof.
  induction l as [|y r IH]; cbn [sorted_insert In].
  - split; [intros [->|[]]; auto|intros [->|[]]; auto].
  - destruct (c <? y); cbn [In]; [split; [intros [->|H]; auto|intros [->|H]; auto]|].
    destruct (c =? y) eqn:E; cbn [In].
    + apply N.eqb_eq in E. subst y. split; [auto|intros [->|H]; auto].
    + rewrite IH. split; [intros [->|[->|H]]; auto|intros [->|[->|H]]; auto].
Qed.

Lemma sorted_insert_sorted c l : StronglySorted N.lt l -> StronglySorted N.lt (sorted_insert c l).
Proof.
  induction l as [|y r IH]; intros Hs; cbn [sorted_insert]; [constructor; constructor|].
  inversion Hs as [|? ? Hr Hy]; subst. destruct (c <? y) eqn:E1.
  - constructor; [exact Hs|]. constructor; [lia|]. rewrite Forall_forall in *. intros x Hx. specialize (Hy x Hx). lia.
  - destruct (c =? y) eqn:E2; [exact Hs|]. constructor; [exact (IH Hr)|]. rewrite Forall_forall in *.
    intros x Hx. apply sorted_insert_in in Hx as [->|Hx]; [lia|exact (Hy x Hx)].
Qed.

Lemma ssorted_lt_nodup l : StronglySorted N.lt l -> NoDup l.
Proof.
  induction 1 as [|x l Hs IH Hx]; constructor; [|exact IH]. rewrite Forall_forall in Hx. intros Hin. specialize (Hx x Hin). lia.
Qed.

Lemma fold_sorted_insert_sorted p : forall l, StronglySorted N.lt l -> StronglySorted N.lt (fold_left (fun l c => sorted_insert c l) p l).
Proof. induction p as [|c p IH]; intros l Hl; cbn [fold_left]; [exact Hl|]. apply IH. apply sorted_insert_sorted. exact Hl. Qed.

Lemma cw_add_all_present {V} : forall pvs (n : nfa V) f pr n' f' pr', StronglySorted N.lt pr ->
  cw_add_all V n f pr pvs = Ok (n', f', pr') -> StronglySorted N.lt pr'.
Proof.
  induction pvs as [|[p v] r IH]; intros n f pr n' f' pr' Hs H; cbn [cw_add_all] in H; [inversion H; subst; exact Hs|].
  bstep H. exact (IH _ _ _ _ _ _ (fold_sorted_insert_sorted p pr Hs) H).
Qed.

Lemma freq_insert_keys x l y : In y (map fst (freq_insert x l)) <-> y = fst x \/ In y (map fst l).
Proof.
  induction l as [|z r IH]; cbn [freq_insert map In].
  - split; [intros [<-|[]]; auto|intros [->|[]]; auto].
  - destruct (freq_before x z); cbn [map In]; [split; [intros [<-|H]; auto|intros [->|H]; auto]|].
    rewrite IH. split; [intros [<-|[->|H]]; auto|intros [->|[<-|H]]; auto].
Qed.

Lemma freq_insert_nodup x l : ~ In (fst x) (map fst l) -> NoDup (map fst l) -> NoDup (map fst (freq_insert x l)).
Proof.
  induction l as [|z r IH]; intros Hx Hn; cbn [freq_insert map] in *; [constructor; [intros []|constructor]|].
  apply NoDup_cons_iff in Hn as [Hz Hn]. destruct (freq_before x z); cbn [map].
  - constructor; [exact Hx|constructor; assumption].
  - constructor; [|apply IH; [intros H; apply Hx; right; exact H|exact Hn]].
    intros H. apply freq_insert_keys in H as [E|H]; [apply Hx; left; exact E|contradiction].
Qed.

Lemma freq_sort_nodup l : NoDup (map fst l) -> NoDup (map fst (freq_sort l)).
Proof.
  unfold freq_sort. induction l as [|x l IH]; intros Hn; cbn [fold_right map] in *; [constructor|].
  apply NoDup_cons_iff in Hn as [Hx Hn]. apply freq_insert_nodup; [|exact (IH Hn)].
  intros Hin. apply Hx. clear -Hin. revert Hin. generalize (fst x) as y. induction l as [|z l IHl]; intros y Hin; cbn [fold_right map] in *; [exact Hin|].
  apply freq_insert_keys in Hin as [->|Hin]; [left; reflexivity|right; exact (IHl y Hin)].
Qed.

Lemma assign_codes_inj : forall sorted i m, NoDup (map fst sorted) ->
  (forall c x, nget c m = Some x -> x < i /\ ~ In c (map fst sorted)) ->
  (forall c1 c2 x, nget c1 m = Some x -> nget c2 m = Some x -> c1 = c2) ->
  forall c1 c2 x, nget c1 (assign_codes sorted i m) = Some x -> nget c2 (assign_codes sorted i m) = Some x -> c1 = c2.
Proof.
  induction sorted as [|[c0 f0] r IH]; intros i m Hn Hlt Hinj; cbn [assign_codes]; [exact Hinj|].
  cbn [map fst] in Hn. apply NoDup_cons_iff in Hn as [Hc0 Hn]. refine (IH (i + 1) (nset c0 i m) Hn _ _).
  - intros c x Hg. destruct (N.eq_dec c c0) as [->|Hne].
    + rewrite ngss in Hg. inversion Hg; subst x. split; [lia|exact Hc0].
    + rewrite ngso in Hg by exact Hne. destruct (Hlt c x Hg) as [A B]. split; [lia|]. intros Hin. apply B. right. exact Hin.
  - intros c1 c2 x H1 H2. destruct (N.eq_dec c1 c0) as [->|N1]; destruct (N.eq_dec c2 c0) as [->|N2]; try reflexivity.
    + rewrite ngss in H1. rewrite ngso in H2 by exact N2. inversion H1; subst x. destruct (Hlt c2 i H2). lia.
    + rewrite ngss in H2. rewrite ngso in H1 by exact N1. inversion H2; subst x. destruct (Hlt c1 i H1). lia.
    + rewrite ngso in H1 by exact N1. rewrite ngso in H2 by exact N2. exact (Hinj c1 c2 x H1 H2).
Qed.

Lemma mapper_code_inj f present : StronglySorted N.lt present ->
  forall c1 c2 m, code_of (index_list (mp_table (mapper_new f present))) c1 = Some m ->
                  code_of (index_list (mp_table (mapper_new f present))) c2 = Some m -> c1 = c2.
Proof.
  intros Hs c1 c2 m H1 H2.
  set (sorted := freq_sort (map (fun c => (c, fq_get f c)) present)).
  set (tb := assign_codes sorted 0 nempty).
  assert (Hget : forall c, code_of (index_list (mp_table (mapper_new f present))) c = Some m -> nget c tb = Some m).
  { intros c H. unfold code_of in H. rewrite index_list_get in H. unfold mapper_new in H. cbn [mp_table] in H. fold sorted tb in H.
    destruct (nth_error _ (N.to_nat c)) as [x|] eqn:E; [|discriminate]. destruct (x =? INVALID_CODE) eqn:Ei; [discriminate|]. inversion H; subst x.
    apply nth_error_In in E as Hin. rewrite nth_error_map in E. destruct (nth_error (nseq 0 (N.to_nat (fq_len f))) (N.to_nat c)) as [c'|] eqn:En; [|discriminate].
    cbn [option_map] in E. assert (c' = c).
    { assert (N.to_nat c < N.to_nat (fq_len f))%nat by (rewrite <- (nseq_len (N.to_nat (fq_len f)) 0); apply nth_error_Some; congruence).
      rewrite nseq_nth_c in En by lia. inversion En. lia. }
    subst c'. destruct (nget c tb) as [y|]; inversion E; subst; [reflexivity|]. rewrite N.eqb_refl in Ei. discriminate. }
  apply (assign_codes_inj sorted 0 nempty) with (x := m); [| | |exact (Hget c1 H1)|exact (Hget c2 H2)].
  - unfold sorted. apply freq_sort_nodup. rewrite map_map. cbn [fst]. rewrite map_id. apply ssorted_lt_nodup. exact Hs.
  - intros c x Hg. rewrite nget_empty in Hg. discriminate.
  - intros a b x Hg. rewrite nget_empty in Hg. discriminate.
Qed.

(* ---- every check of the certificate succeeds (character-wise) ---------------------------------- *)
Section CwComplete.
Variable V : Type.
Variable veqb : V -> V -> bool.
Hypothesis veqb_refl : forall v, veqb v v = true.
Notation lb1 := len_utf8.
Variables (n0 n2 : nfa V) (pvs : list (list N * V)) (paths : list (list N)).
Variables (sts : list cstate) (idmap : nmap N) (tblL : list N).
Notation tbl := (index_list tblL).
Hypothesis T0 : TI V lb1 n0 pvs [] paths.
Hypothesis Htc : forall s c, tchild V n2 s c = tchild V n0 s c.
Hypothesis RF : CRefines V n2 tbl sts idmap.
Hypothesis Hnode2 : forall t, node V n2 t <-> exists w, N0 V n0 w t.
Hypothesis Hne : forall p v, In (p, v) pvs -> p <> [].
Hypothesis EKc : forall i st, nget i (n_states n0) = Some st -> NoDup (map fst (n_edges st)).

Notation sget := (fun j : N => nget j (index_list sts)).
Notation oget := (fun j : N => nget j (index_list (n_outputs n2))).
Notation tget := (fun c : N => nget c tbl).
Notation child := (cwc_child sget tget).
Variable tlen : nat.
Notation c0 := (child0 V n0).
Notation nslots := (length sts).
Notation nouts := (length (n_outputs n2)).

Lemma one_pos' : forall c : N, 1 <= lb1 c. Proof. exact len_utf8_pos. Qed.

Lemma cw_child_sget i m : cw_child sget i m = cw_child (fun j => nth_error sts (N.to_nat j)) i m.
Proof. unfold cw_child, cst_at. rewrite !index_list_get. destruct (nth_error sts (N.to_nat i)); [|reflexivity]. cbn [bind]. destruct (c_base c =? 0); [reflexivity|]. rewrite index_list_get. reflexivity. Qed.

Lemma child_spec s i c : node V n2 s -> nget s idmap = Some i ->
  child i c = Ok (match tchild V n2 s c with Some t => nget t idmap | None => None end).
Proof.
  intros Ns Hi. unfold cwc_child. change (mapper_get tget c) with (code_of tbl c).
  destruct (code_of tbl c) as [m|] eqn:Ec.
  - rewrite cw_child_sget. exact (crf_child _ _ _ _ _ RF s i c m Ns Hi Ec).
  - destruct (tchild V n2 s c) as [t|] eqn:Et; [|reflexivity]. destruct (crf_code _ _ _ _ _ RF s c t Ns Et) as [m Hm]. congruence.
Qed.

Lemma walk_spec : forall w s i, node V n2 s -> nget s idmap = Some i ->
  Cert.walk child i w = match twalk V n0 s w with Some t => nget t idmap | None => None end.
Proof.
  induction w as [|c w IH]; intros s i Ns Hi; cbn [Cert.walk twalk]; [symmetry; exact Hi|].
  rewrite (child_spec s i c Ns Hi), <- Htc. destruct (tchild V n2 s c) as [t|] eqn:Et; [|reflexivity].
  assert (Nt : node V n2 t).
  { apply Hnode2 in Ns as [u Hu]. apply Hnode2. exists (u ++ [c]). apply (N0_snoc V n0). exists s. rewrite <- Htc. auto. }
  destruct (crf_tot _ _ _ _ _ RF t Nt) as (i' & Hi' & _). rewrite Hi'. exact (IH t i' Nt Hi').
Qed.

Lemma root_node2 : node V n2 ROOT. Proof. apply Hnode2. exists []. reflexivity. Qed.

Lemma walk_root w : Cert.walk child ROOT w = match twalk V n0 ROOT w with Some t => nget t idmap | None => None end.
Proof. exact (walk_spec w ROOT ROOT root_node2 (crf_root _ _ _ _ _ RF)). Qed.

Lemma inT_eq w : Cert.inT child w = Cert.inT c0 w.
Proof.
  unfold Cert.inT. rewrite walk_root, (walk0 V n0). destruct (twalk V n0 ROOT w) as [t|] eqn:E; [|reflexivity].
  assert (Nt : node V n2 t) by (apply Hnode2; exists w; exact E). destruct (crf_tot _ _ _ _ _ RF t Nt) as (i & Hi & _). rewrite Hi. reflexivity.
Qed.

Lemma lsuf_eq w : Cert.lsuf child w = Cert.lsuf c0 w.
Proof.
  unfold Cert.lsuf. assert (forall l, find (Cert.inT child) l = find (Cert.inT c0) l) as ->; [|reflexivity].
  induction l as [|x l IHl]; cbn [find]; [reflexivity|]. rewrite inT_eq, IHl. reflexivity.
Qed.

(* the output chain, as the checker follows it *)
Lemma Chain_len tbl pos l : Chain V tbl pos l -> N.of_nat (length l) <= pos /\ pos <= N.of_nat (length tbl).
Proof.
  induction 1 as [|pos o l Hp Hn Hlt _ IH]; [cbn; lia|]. cbn [length]. split; [lia|].
  assert (N.to_nat (pos - 1) < length tbl)%nat by (apply nth_error_Some; congruence). lia.
Qed.

Lemma chain_of_Chain pos l : Chain V (n_outputs n2) pos l -> forall fuel, (N.to_nat pos < fuel)%nat ->
  Cert.chain V (cwc_outat V oget) fuel pos = Ok l.
Proof.
  induction 1 as [|pos o l Hp Hn Hlt _ IH]; intros fuel Hf; destruct fuel as [|fuel]; try lia; cbn [Cert.chain].
  - reflexivity.
  - assert ((pos =? 0) = false) as -> by (apply N.eqb_neq; exact Hp).
    unfold cwc_outat, cout_at. rewrite index_list_get, Hn. cbn [bind]. rewrite IH by lia. reflexivity.
Qed.

Lemma outs_eqb_refl : forall l ex, pairs V l = ex -> outs_eqb V veqb l ex = true.
Proof.
  induction l as [|o l IH]; intros ex E; cbn [pairs map] in E; subst ex; cbn [outs_eqb]; [reflexivity|].
  rewrite N.eqb_refl, veqb_refl. cbn [andb]. apply IH. reflexivity.
Qed.

Lemma sufpats_plen w : Cert.sufpats V cwc_plen pvs w = Cert.sufpats V (plen lb1) pvs w.
Proof. reflexivity. Qed.

Lemma max_plen_ge : forall p v, In (p, v) pvs -> (length p <= max_plen V pvs)%nat.
Proof.
  unfold max_plen. intros p v Hin.
  assert (forall l acc, (acc <= fold_left (fun m (pv : list N * V) => Nat.max m (length (fst pv))) l acc)%nat) as Hmono.
  { induction l as [|x l IHl]; intros acc; cbn [fold_left]; [lia|]. specialize (IHl (Nat.max acc (length (fst x)))). lia. }
  assert (forall l acc, In (p, v) l -> (length p <= fold_left (fun m (pv : list N * V) => Nat.max m (length (fst pv))) l acc)%nat) as H.
  { induction l as [|x l IHl]; intros acc Hl; [destruct Hl|]. cbn [fold_left]. destruct Hl as [->|Hl]; [|exact (IHl _ Hl)].
    cbn [fst]. specialize (Hmono l (Nat.max acc (length p))). lia. }
  exact (H pvs 0%nat Hin).
Qed.

Lemma node_depth w t : N0 V n0 w t -> (length w <= max_plen V pvs)%nat.
Proof.
  intros Hw. destruct w as [|a r]; [cbn; lia|].
  pose proof (ti_in_paths _ _ _ _ _ _ _ _ T0 Hw ltac:(discriminate)) as Hin.
  apply (ti_mem _ _ _ _ _ _ T0) in Hin as [_ [Hc|(q & v & Hq & [x ->])]]; [apply pref_nil_r in Hc; discriminate|].
  pose proof (max_plen_ge _ _ Hq) as Hm. rewrite app_length in Hm. lia.
Qed.

Lemma paths_le_slots : (length paths <= nslots)%nat.
Proof.
  set (ids := map (fun k => N.of_nat k + 2) (seq 0 (length paths))).
  assert (Hn : forall s, In s ids -> node V n2 s).
  { intros s Hs. unfold ids in Hs. apply in_map_iff in Hs as [k [<- Hk]]. apply in_seq in Hk.
    destruct (nth_error paths k) as [p|] eqn:E; [|apply nth_error_None in E; lia]. apply Hnode2. exists p. exact (ti_fwd _ _ _ _ _ _ T0 k p E). }
  set (f := fun s => match nget s idmap with Some i => N.to_nat i | None => 0%nat end).
  assert (Hl : length (map f ids) = length paths) by (unfold ids; rewrite !map_length, seq_length; reflexivity).
  rewrite <- Hl. rewrite <- (seq_length nslots 0). apply NoDup_incl_length.
  - apply nodup_map_in.
    + intros a b Ha Hb E. destruct (crf_tot _ _ _ _ _ RF a (Hn a Ha)) as (ia & Hia & _). destruct (crf_tot _ _ _ _ _ RF b (Hn b Hb)) as (ib & Hib & _).
      unfold f in E. rewrite Hia, Hib in E. assert (ia = ib) by lia. subst ib. exact (crf_inj _ _ _ _ _ RF a b ia Hia Hib).
    + unfold ids. apply nodup_map_in; [|apply seq_NoDup]. intros a b _ _ E. lia.
  - intros x Hx. apply in_map_iff in Hx as [s [<- Hs]]. destruct (crf_tot _ _ _ _ _ RF s (Hn s Hs)) as (i & Hi & Hlt & _).
    unfold f. rewrite Hi. apply in_seq. lia.
Qed.

Hypothesis Hget2 : forall s w, N0 V n0 w s -> exists st, nfa_get V n2 s = Ok st /\ n_fail st = failof V n2 s /\ n_outpos st = outposof V n2 s.
Hypothesis Hfail2 : forall w t, N0 V n0 w t -> N0 V n0 (Cert.lsuf (child0 V n0) (tl w)) (failof V n2 t).
Hypothesis Hout2 : forall w t, N0 V n0 w t -> OutOK V lb1 n0 pvs n2 t.

Lemma nseq_in_c : forall k a x, In x (nseq a k) -> a <= x < a + N.of_nat k.
Proof. induction k as [|k IH]; intros a x; cbn [nseq]; [intros []|]. intros [<-|H]; [lia|]. apply IH in H. lia. Qed.

Lemma tree_ok_complete : forall fuel w s i, N0 V n0 w s -> nget s idmap = Some i ->
  (max_plen V pvs - length w < fuel)%nat ->
  tree_ok V veqb child (cwc_failof sget) (cwc_outposof sget) (cwc_outat V oget) (cwc_labels tget tlen) cwc_plen pvs fuel (S nslots) nouts i w = true.
Proof.
  induction fuel as [|fuel IH]; intros w s i Hw Hi Hf; [lia|]. cbn [tree_ok].
  assert (Ns : node V n2 s) by (apply Hnode2; eauto).
  apply andb_true_iff. split.
  - (* the node itself *)
    unfold local_ok. rewrite !andb_true_iff. repeat split.
    + destruct w as [|a r]; [cbn; apply orb_true_r|]. cbn [is_nil]. rewrite orb_false_r.
      destruct (crf_tot _ _ _ _ _ RF s Ns) as (i' & Hi' & _ & H2). rewrite Hi in Hi'. inversion Hi'; subst i'.
      assert (s <> ROOT) by (intros ->; apply (N0_root V lb1 n0 pvs paths T0) in Hw; discriminate).
      specialize (H2 H). apply negb_true_iff. apply N.eqb_neq. unfold ROOT. lia.
    + apply Nat.ltb_lt. pose proof (dep_bound V lb1 one_pos' n0 pvs paths T0 EKc w s Hw). pose proof paths_le_slots. lia.
    + destruct w as [|a r]; [reflexivity|]. cbn [is_nil orb tl].
      destruct (Hget2 s _ Hw) as (st & Hg & Hfl & Hop).
      assert (Hd : s <> DEAD).
      { intros ->. destruct (ti_bwd _ _ _ _ _ _ T0 _ _ Hw) as [[E _]|[H2 _]]; [discriminate|unfold DEAD in H2; lia]. }
      destruct (crf_links _ _ _ _ _ RF s st i Ns Hd Hg Hi) as (sl & Hsl & Hfs & _).
      unfold cwc_failof, cst_at. rewrite index_list_get, Hsl. cbn [bind].
      pose proof (Hfail2 _ _ Hw) as Hfw. cbn [tl] in Hfw.
      rewrite lsuf_eq, walk_root. unfold N0 in Hfw. rewrite Hfw, Hfs, Hfl. unfold fmap.
      assert (Nf : node V n2 (failof V n2 s)) by (apply Hnode2; eauto).
      assert ((failof V n2 s =? DEAD) = false) as ->.
      { apply N.eqb_neq. intros E. rewrite E in Hfw. destruct (ti_bwd _ _ _ _ _ _ T0 _ _ Hfw) as [[_ E']|[H2 _]]; [discriminate|unfold DEAD in H2; lia]. }
      destruct (crf_tot _ _ _ _ _ RF _ Nf) as (fi & Hfi & _). rewrite Hfi. cbn [optN_eqb]. apply N.eqb_refl.
    + destruct (Hget2 s _ Hw) as (st & Hg & Hfl & Hop).
      assert (Hd : s <> DEAD).
      { intros ->. destruct (ti_bwd _ _ _ _ _ _ T0 _ _ Hw) as [[_ E]|[H2 _]]; [discriminate|unfold DEAD in H2; lia]. }
      destruct (crf_links _ _ _ _ _ RF s st i Ns Hd Hg Hi) as (sl & Hsl & _ & Hos).
      unfold cwc_outposof, cst_at. rewrite index_list_get, Hsl. cbn [bind]. rewrite Hos, Hop.
      destruct (Hout2 _ _ Hw w Hw) as (l & Hc & Hp). destruct (Chain_len _ _ _ Hc) as [Hl1 Hl2].
      rewrite (chain_of_Chain _ _ Hc) by lia. rewrite sufpats_plen. rewrite (outs_eqb_refl l _ Hp). cbn [andb].
      apply Nat.leb_le. lia.
  - (* its children *)
    apply forallb_forall. intros c Hc.
    rewrite (child_spec s i c Ns Hi). destruct (tchild V n2 s c) as [t|] eqn:Et; [|reflexivity].
    assert (Hwt : N0 V n0 (w ++ [c]) t) by (apply (N0_snoc V n0); exists s; rewrite <- Htc; auto).
    assert (Nt : node V n2 t) by (apply Hnode2; eauto). destruct (crf_tot _ _ _ _ _ RF t Nt) as (i' & Hi' & _). rewrite Hi'.
    apply (IH (w ++ [c]) t i' Hwt Hi'). pose proof (node_depth _ _ Hwt) as Hd. rewrite app_length in *. cbn [length] in *. lia.
Qed.

Theorem cert_ok_complete :
  cert_ok V veqb child (cwc_failof sget) (cwc_outposof sget) (cwc_outat V oget) (cwc_labels tget tlen) cwc_plen pvs nslots nouts = true.
Proof.
  unfold cert_ok. apply andb_true_iff. split.
  - apply (tree_ok_complete (S (max_plen V pvs)) [] ROOT ROOT); [reflexivity|exact (crf_root _ _ _ _ _ RF)|cbn [length]; lia].
  - apply forallb_forall. intros [p v] Hin. cbn [fst]. apply andb_true_iff. split.
    + pose proof (Hne p v Hin). destruct p; [congruence|reflexivity].
    + rewrite inT_eq. apply (inT0_iff V n0). pose proof (ti_sub _ _ _ _ _ _ T0 p v Hin) as Hp. apply In_nth_error in Hp as [k Hk].
      eexists. exact (ti_fwd _ _ _ _ _ _ T0 k p Hk).
Qed.
End CwComplete.

(* ---- the builder theorem, character-wise -------------------------------------------------------- *)
Theorem cw_build_cert_lemma (V : Type) (veqb : V -> V -> bool) (veqb_refl : forall v, veqb v v = true)
  nfb (pvs : list (list N * V)) A :
  4 * total_len V pvs <= U32_MAX - 1 ->
  cw_build_with_values V Standard nfb pvs = Ok A -> cw_cert_ok veqb A pvs = true.
Proof.
  intros Hsz H. unfold cw_build_with_values in H. destruct (nfb =? 0); [discriminate|].
  destruct (cw_add_all V (nfa_new V Standard) _ [] pvs) as [[[n0 f] pr]| | | |] eqn:Ea; cbn [bind] in H; try discriminate.
  destruct (n_len n0 =? 0) eqn:El; [discriminate|].
  destruct (finish_nfa V n0) as [n2| | | |] eqn:En; cbn [bind] in H; try discriminate.
  set (mp := mapper_new f pr) in *.
  destruct (cw_init_array (mp_alpha mp) nfb) as [[[a0 h0] b]| | | |] eqn:Ei; cbn [bind] in H; try discriminate.
  destruct (cw_dfs_loop V _ _ b n2 a0 h0 _ _) as [[[a1 h1] idmap]| | | |] eqn:Ed; cbn [bind] in H; try discriminate.
  destruct (cw_set_fails_loop V n2 a1 idmap _) as [a2| | | |] eqn:Es; cbn [bind] in H; try discriminate.
  destruct (U32_MAX <? n_nstates n2 - 1); [discriminate|]. inversion H; subst A; clear H.
  (* the pattern loop *)
  pose proof (cw_add_all_adds V pvs (nfa_new V Standard) {| fq_map := nempty; fq_len := 0 |} []) as Hadds. rewrite Ea in Hadds.
  pose proof (adds_spec V len_utf8 len_utf8_pos len_utf8_le4 Standard pvs Hsz) as S.
  destruct (first_offence [] (map fst pvs)) as [e|] eqn:Efo; [rewrite Hadds in S; discriminate|].
  destruct S as (n0' & paths & S1 & T0 & Hk & Hlen & Hout). rewrite Hadds in S1. inversion S1; subst n0'; clear S1.
  change (regd V Standard pvs) with pvs in *.
  apply first_offence_none in Efo as (Hne' & Hnd & _).
  assert (Hne : forall p v, In (p, v) pvs -> p <> []).
  { intros p v Hin. rewrite Forall_forall in Hne'. apply Hne'. apply in_map_iff. exists (p, v). auto. }
  pose proof (adds_PEF V len_utf8 pvs _ n0 (nfa_new_PEF V Standard) Hadds) as HPEF.
  assert (EK0 : forall i st, nget i (n_states n0) = Some st -> NoDup (map fst (n_edges st))) by (intros i st Hg; exact (proj2 (HPEF i st Hg))).
  assert (F0 : forall i st, nget i (n_states n0) = Some st -> n_fail st = ROOT) by (intros i st Hg; exact (proj1 (HPEF i st Hg))).
  destruct (cw_add_all_inv V pvs _ _ _ _ _ _ (nfa_new_PLO_any V Standard) eq_refl Ea) as [HPLO _].
  assert (OP0 : forall i st, nget i (n_states n0) = Some st -> n_outpos st = 0) by (intros i st Hg; exact (proj1 (HPLO i st Hg))).
  assert (NE0 : pvs <> []) by (intros ->; cbn in Hlen; rewrite Hlen in El; discriminate).
  assert (LEN0 : N.of_nat (length pvs) < U32_MAX) by (pose proof (count_le_total_len pvs Hne); unfold U32_MAX in *; lia).
  destruct (finish_nfa_std_ok V len_utf8 len_utf8_pos n0 pvs paths T0 EK0 F0 Hnd LEN0 OP0 Hout NE0 Hk)
    as (n2' & Hf & Hns & Hk2 & Htc & Hfail & Hoks & Hol & Hst).
  rewrite En in Hf. inversion Hf; subst n2'; clear Hf.
  assert (Hnode : forall t, node V n2 t <-> exists w, N0 V n0 w t) by (apply node2_iff; exact Htc).
  (* the mapper and the block length *)
  destruct (cw_init_array_inv _ _ _ _ _ Ei) as (Hb & Hbu & _).
  destruct (block_len_pow2 (mp_alpha mp)) as [k [Hbk Hk1]].
  assert (Hcode : forall c m, code_of (index_list (mp_table mp)) c = Some m -> m < 2 ^ k).
  { intros c m Hc. apply (code_of_lt (mp_table mp) (mp_alpha mp)) in Hc; [|intros x Hx; exact (mapper_new_codes f pr x Hx)].
    pose proof (block_len_ge (mp_alpha mp)) as Hge. rewrite <- Hb in Hge. specialize (Hge Hbu). rewrite Hb, Hbk in Hge. lia. }
  assert (Hprs : StronglySorted N.lt pr) by (apply (cw_add_all_present pvs _ _ _ _ _ _ (SSorted_nil _) Ea)).
  assert (RF : CRefines V n2 (index_list (mp_table mp)) (carr_to_list a2) idmap).
  { eapply (cw_layout_refines k Hk1 V n2 (index_list (mp_table mp))); [| | | | | | | | |exact Hbk|exact Ei|exact Ed|exact Es].
    - eapply tf_edges_child; try eassumption; exact len_utf8_pos.
    - eapply tf_child_node; try eassumption; exact len_utf8_pos.
    - eapply tf_uniq_parent; try eassumption; exact len_utf8_pos.
    - eapply tf_node_lt; try eassumption; exact len_utf8_pos.
    - eapply tf_edges_nodup; try eassumption; exact len_utf8_pos.
    - exact Hcode.
    - exact (mapper_code_inj f pr Hprs).
    - apply Hnode. exists []. reflexivity.
    - eapply tf_nstates_nodes; try eassumption; exact len_utf8_pos. }
  unfold cw_cert_ok. cbn [cw_kind cw_states cw_outputs cw_mapper is_standard mkind_eqb andb]. unfold cwc_cert_ok.
  apply (cert_ok_complete V veqb veqb_refl n0 n2 pvs paths (carr_to_list a2) idmap (mp_table mp) T0 Htc RF Hnode).
  - exact Hne.
  - exact EK0.
  - intros s w Hw. pose proof (N0_lt V _ len_utf8_pos n0 pvs paths T0 w s Hw) as Hl. destruct (Hst s Hl) as (st & _ & H2 & _).
    exists st. unfold nfa_get, failof, outposof. rewrite Hns. apply N.ltb_lt in Hl. rewrite Hl, H2. auto.
  - exact Hfail.
  - exact Hoks.
Qed.
