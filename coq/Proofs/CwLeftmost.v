(* CwLeftmost.v — character-wise automaton, leftmost kinds: [cw_lm_cert_ok A pvs = true] implies that
   leftmost_find_iter of the model, on the UTF-8 encoding of ANY text, returns spec_lml pvs of the
   text's characters with its positions translated to byte offsets. *)
From DV Require Import Model.Base Model.Nfa Model.Utf8 Model.CwBuild Model.BwSearch Model.CwSearch Model.Api
     Model.Spec Model.Cert Proofs.GenAC Proofs.Leftmost Proofs.BwCert Proofs.BwSafe Proofs.BwLeftmost
     Proofs.Utf8Props Proofs.CwCert.
From Coq Require Import ZifyN ZifyNat ZifyBool.

Local Open Scope N_scope.

Section CwLm.
Variable V : Type.
Variable veqb : V -> V -> bool.
Hypothesis veqb_sound : forall a b, veqb a b = true -> a = b.
Variable A : cw_automaton V.
Variable pvs : list (list N * V).
Hypothesis CERT : cw_lm_cert_ok veqb A pvs = true.

Let sget := cw_sget V A.
Let oget := cw_oget V A.
Let tget := cw_tget V A.
Let nslots := cw_nslots V A.
Let child := cwc_child sget tget.
Let failof := cwc_failof sget.
Let outposof := cwc_outposof sget.
Let outat := cwc_outat V oget.
Let labels := cwc_labels tget (length (mp_table (cw_mapper A))).
Let maxdepth := S (length (cw_states A)).

Notation walk := (Cert.walk child).
Notation lsuf := (Cert.lsuf child).
Notation occ := (Leftmost.occ V pvs).
Notation isLL := (Leftmost.isLL V pvs).
Notation K := (Leftmost.K V child pvs).

Lemma ckind_lm : is_leftmost (cw_kind A) = true.
Proof. pose proof CERT as C. unfold cw_lm_cert_ok in C. apply andb_true_iff in C. tauto. Qed.

Lemma cmapped_in_labels c mc : mapper_get tget c = Some mc -> In c labels.
Proof.
  intros H. unfold labels, cwc_labels. apply filter_In. split; [|rewrite H; reflexivity].
  apply nseq_In. unfold mapper_get in H. destruct (tget c) as [code|] eqn:E; [|discriminate].
  unfold tget, cw_tget in E. rewrite index_list_get in E.
  assert (N.to_nat c < length (mp_table (cw_mapper A)))%nat by (apply nth_error_Some; congruence). lia.
Qed.

Lemma cchild_labels_lm : forall s c, ~ In c labels -> child s c = Ok None.
Proof.
  intros s c H. unfold child, cwc_child. destruct (mapper_get tget c) as [mc|] eqn:E; [|reflexivity].
  exfalso. apply H. eapply cmapped_in_labels. exact E.
Qed.

Lemma ccert_tree_lm : exists fuel,
  lm_tree_ok V veqb child failof outposof outat labels cwc_plen pvs fuel maxdepth ROOT [] = true.
Proof.
  pose proof CERT as C. unfold cw_lm_cert_ok, lm_cert_ok in C. rewrite !andb_true_iff in C.
  destruct C as (_ & (H & _) & _). eexists. exact H.
Qed.

Lemma cpats_ok_lm : forall p v, In (p, v) pvs -> p <> [] /\ Cert.inT child p = true.
Proof.
  pose proof CERT as C. unfold cw_lm_cert_ok, lm_cert_ok in C. rewrite !andb_true_iff in C.
  destruct C as (_ & (_ & H) & _). rewrite forallb_forall in H. intros p v Hin.
  specialize (H (p, v) Hin). cbn [fst] in H. apply andb_true_iff in H as [H1 H2]. split; [|exact H2].
  destruct p; [discriminate|congruence].
Qed.

Lemma cpats_nodup : NoDup (map fst pvs).
Proof.
  pose proof CERT as C. unfold cw_lm_cert_ok, lm_cert_ok in C. rewrite !andb_true_iff in C.
  destruct C as (_ & _ & H). apply nodupb_sound. exact H.
Qed.

Definition clm_node_ok := lm_node_ok V veqb veqb_sound child failof outposof outat labels cwc_plen pvs
                                     cchild_labels_lm maxdepth ccert_tree_lm.

Lemma cnext_loop_lm_gen c mc : mapper_get tget c = Some mc -> forall fuel s t s',
  g_next_lm child failof fuel s c = Ok s' ->
  exists t', cw_next_loop_lm sget fuel s mc t = Ok (s', t').
Proof.
  intros Hm. induction fuel as [|fuel IH]; intros s t s' H; [discriminate|].
  cbn [g_next_lm cw_next_loop_lm] in *. unfold child at 1, cwc_child in H. rewrite Hm in H.
  destruct (cw_child sget s mc) as [[x|]| | | |]; cbn [bind] in *; try discriminate.
  - inversion H; subst. eauto.
  - destruct (s =? ROOT); [inversion H; subst; eauto|].
    unfold failof at 1, cwc_failof in H. destruct (cst_at sget s) as [st| | | |]; cbn [bind] in *; try discriminate.
    destruct (c_fail st =? DEAD); [inversion H; subst; eauto|]. eapply IH. exact H.
Qed.

(* an unmapped character: the string loop answers the root as well *)
Lemma lm_str_unmapped c : ~ In c labels -> forall fuel u, (length u < fuel)%nat -> Cert.inT child u = true ->
  K u \/ True ->
  state_of child (lm_str V child pvs fuel u c) = Some ROOT.
Proof.
  intros Hc. assert (Hno : forall x, Cert.inT child (x ++ [c]) = false).
  { intros x. unfold Cert.inT. rewrite (walk_snoc child). destruct (walk ROOT x); [|reflexivity].
    rewrite (cchild_labels_lm _ _ Hc). reflexivity. }
  induction fuel as [|fuel IH]; intros u Hl Hu _; [lia|]. cbn [Cert.lm_str]. rewrite Hno.
  destruct u as [|a r]; [reflexivity|].
  destruct (Cert.lm_dead V child pvs (a :: r)); [reflexivity|].
  apply IH; [|apply (lsuf_inT child)|right; exact I].
  assert (length (lsuf r) <= length r)%nat.
  { clear. induction r as [|x r IHr]; [cbn; lia|]. rewrite (lsuf_cons child). destruct (Cert.inT child (x :: r)); cbn [length]; lia. }
  cbn [length] in Hl. lia.
Qed.

Lemma cstep_lm w c s t : walk ROOT (lsuf w) = Some s ->
  exists s' t', cw_next_state_lm sget tget nslots s c t = Ok (s', t')
                /\ state_of child (lm_str V child pvs (cfuel0 nslots) (lsuf w) c) = Some s'.
Proof.
  intros Hw. pose proof (clm_node_ok _ _ Hw) as NF.
  assert (Hf : (length (lsuf w) < cfuel0 nslots)%nat).
  { destruct NF as [_ _ Hd _ _ _]. unfold cfuel0, nslots, cw_nslots. rewrite Nat2N.id. unfold maxdepth in Hd. lia. }
  unfold cw_next_state_lm. destruct (mapper_get tget c) as [mc|] eqn:Em.
  - destruct (g_next_lm_str V veqb veqb_sound child failof outposof outat labels cwc_plen pvs
                cchild_labels_lm maxdepth ccert_tree_lm c (cfuel0 nslots) (lsuf w) s Hw Hf) as (s' & H1 & H2).
    destruct (cnext_loop_lm_gen c mc Em _ s t s' H1) as [t' Ht]. eauto.
  - exists ROOT, t. split; [reflexivity|]. apply lm_str_unmapped; [|exact Hf|apply (lsuf_inT child)|right; exact I].
    intros Hin. unfold labels, cwc_labels in Hin. apply filter_In in Hin as [_ Hin]. rewrite Em in Hin. discriminate.
Qed.

(* ---- the scan of one next() call, over the characters of the remaining text -------------------- *)
Variable p : nat.         (* byte offset at which this call starts *)
Variable R : list N.      (* the characters from there on *)

Definition CSI (w : list N) (s last : N) (selfpos skips : nat) : Prop :=
  walk ROOT (lsuf w) = Some s /\ K w /\ (selfpos + skips = p + bo w)%nat
  /\ (last = 0 -> forall a b, ~ occ w a b)
  /\ (last <> 0 -> exists a b o, isLL w a b /\ selfpos = (p + bo (firstn b w))%nat /\ outat last = Ok o
                                /\ o_length o = cwc_plen (sub w a b) /\ In (sub w a b, o_value o) pvs).

Definition CQ (res : option (N * nat)) (pos' : nat) : Prop :=
  match res with
  | None => forall a b, ~ occ R a b
  | Some (opos, e_abs) => exists a b o, isLL R a b /\ e_abs = (p + bo (firstn b R))%nat /\ pos' = e_abs /\ outat opos = Ok o
                                      /\ o_length o = cwc_plen (sub R a b) /\ In (sub R a b, o_value o) pvs
  end.

Lemma firstn_app_le {X} (w z : list X) b : (b <= length w)%nat -> firstn b (w ++ z) = firstn b w.
Proof. intros H. rewrite firstn_app. replace (b - length w)%nat with 0%nat by lia. cbn [firstn]. apply app_nil_r. Qed.

Lemma clm_scan_correct : forall rest w s last selfpos skips t,
  R = w ++ rest -> CSI w s last selfpos skips ->
  exists res pos' t', clm_scan sget tget nslots rest s last selfpos skips t = Ok (res, pos', t') /\ CQ res pos'.
Proof.
  induction rest as [|c rest IH]; intros w s last selfpos skips t HR (Hw & HK & Hpos & H0 & H1).
  - rewrite app_nil_r in HR. subst w. cbn [clm_scan]. destruct (last =? 0) eqn:E.
    + apply N.eqb_eq in E. eexists. eexists. eexists. split; [reflexivity|]. cbn. exact (H0 E).
    + apply N.eqb_neq in E. destruct (H1 E) as (a & b & o & HLL & Hsp & Ho & Hl & Hin).
      eexists. eexists. eexists. split; [reflexivity|]. cbn. exists a, b, o.
      split; [exact HLL|]. split; [exact Hsp|]. split; [reflexivity|]. split; [exact Ho|]. split; [exact Hl|exact Hin].
  - destruct (cstep_lm w c s t Hw) as (s' & t' & Hstep & Hst).
    assert (Hfuel : (length (lsuf w) < cfuel0 nslots)%nat).
    { pose proof (clm_node_ok _ _ Hw) as NF. destruct NF as [_ _ Hd _ _ _].
      unfold cfuel0, nslots, cw_nslots. rewrite Nat2N.id. unfold maxdepth in Hd. lia. }
    pose proof (lm_step V veqb veqb_sound child labels pvs cchild_labels_lm maxdepth cpats_ok_lm c w (cfuel0 nslots) HK Hfuel) as Hls.
    assert (HR' : R = (w ++ [c]) ++ rest) by (rewrite HR, <- app_assoc; reflexivity).
    assert (Hbo : bo (w ++ [c]) = (bo w + N.to_nat (len_utf8 c))%nat) by (rewrite bo_snoc, encode_char_length; reflexivity).
    cbn [clm_scan]. rewrite Hstep. cbn [bind].
    destruct (lm_str V child pvs (cfuel0 nslots) (lsuf w) c) as [z|] eqn:Ez.
    + destruct Hls as [Hz HK']. cbn [state_of] in Hst.
      pose proof (clm_node_ok _ _ Hst) as NF. destruct NF as [NFroot _ _ _ NFout _].
      pose proof (lm_out_step V veqb veqb_sound child labels cwc_plen pvs cchild_labels_lm maxdepth cpats_ok_lm w c HK') as Hout.
      cbn zeta in Hout. rewrite Hz in Hst.
      destruct (s' =? ROOT) eqn:Er.
      * apply N.eqb_eq in Er. pose proof (NFroot Er) as Hznil.
        assert (Hnone : forall a b, ~ occ (w ++ [c]) a b).
        { intros a b Ho. pose proof (HK' a b Ho) as Hs. rewrite <- Hz, Hznil in Hs. cbn [length] in Hs.
          destruct Ho as [Ho _]. lia. }
        destruct (last =? 0) eqn:E.
        -- apply N.eqb_eq in E. apply IH with (w := w ++ [c]); [exact HR'|].
           split; [exact Hst|]. split; [exact HK'|]. split; [lia|]. split; [intros _; exact Hnone|]. intros Hne. congruence.
        -- apply N.eqb_neq in E. destruct (H1 E) as (a & b & o & [Ho _] & _). exfalso.
           apply (Hnone a b). apply (proj2 (occ_prefix V child pvs cpats_ok_lm w [c] a b ltac:(destruct Ho; lia))). exact Ho.
      * destruct NFout as (p0 & Hp0 & Hrel). unfold outposof, cwc_outposof in Hp0.
        destruct (cst_at sget s') as [st| | | |]; cbn [bind] in Hp0; try discriminate. inversion Hp0; subst p0.
        cbn [bind]. rewrite Hz in Hrel.
        destruct (Cert.lm_out V cwc_plen pvs (lsuf (w ++ [c]))) as [lv|] eqn:Elo.
        -- destruct Hrel as (Hne & o & Hoa & Hol & Hov). rewrite (proj2 (N.eqb_neq _ _) Hne).
           destruct Hout as (a & v & HLL & Hin & Hlv).
           apply IH with (w := w ++ [c]); [exact HR'|].
           split; [exact Hst|]. split; [exact HK'|]. split; [lia|]. split; [intros E; congruence|]. intros _.
           exists a, (length (w ++ [c])), o. split; [exact HLL|]. split; [rewrite firstn_all; lia|]. split; [exact Hoa|].
           subst lv. cbn [fst snd] in Hol, Hov. split; [exact Hol|]. rewrite Hov. exact Hin.
        -- rewrite Hrel, N.eqb_refl. destruct Hout as [Hkeep Hnone].
           apply IH with (w := w ++ [c]); [exact HR'|].
           split; [exact Hst|]. split; [exact HK'|]. split; [lia|]. split; [intros E; apply Hnone; exact (H0 E)|].
           intros E. destruct (H1 E) as (a & b & o & HLL & Hsp & Ho & Hl & Hin).
           assert (Hbw : (b <= length w)%nat) by (destruct HLL as [[Hr _] _]; lia).
           exists a, b, o. rewrite (sub_app_l V child pvs cpats_ok_lm w [c] a b Hbw), (firstn_app_le w [c] b Hbw).
           split; [apply Hkeep; exact HLL|]. split; [exact Hsp|]. split; [exact Ho|]. split; [exact Hl|exact Hin].
    + destruct Hls as [(s0 & e0 & Hocc0) HB4]. cbn [state_of] in Hst. inversion Hst; subst s'.
      rewrite N.eqb_refl.
      destruct (last =? 0) eqn:E; [apply N.eqb_eq in E; exfalso; exact (H0 E _ _ Hocc0)|].
      apply N.eqb_neq in E. destruct (H1 E) as (a & b & o & HLL & Hsp & Ho & Hl & Hin).
      eexists. eexists. eexists. split; [reflexivity|]. cbn. rewrite HR.
      assert (Hbw : (b <= length w)%nat) by (destruct HLL as [[Hr _] _]; lia).
      exists a, b, o. rewrite (sub_app_l V child pvs cpats_ok_lm w (c :: rest) a b Hbw), (firstn_app_le w (c :: rest) b Hbw).
      split; [|split; [exact Hsp|]; split; [reflexivity|]; split; [exact Ho|]; split; [exact Hl|exact Hin]].
      destruct HLL as [Hoab Hmin]. split.
      * apply (proj2 (occ_prefix V child pvs cpats_ok_lm w (c :: rest) a b Hbw)). exact Hoab.
      * intros a' b' Ho'. destruct (le_lt_dec b' (length w)) as [Hle|Hgt].
        -- apply Hmin. apply (proj1 (occ_prefix V child pvs cpats_ok_lm w (c :: rest) a' b' Hle)). exact Ho'.
        -- destruct (HB4 rest a' b' Ho' Hgt) as (s1 & e1 & Ho1 & Hlt).
           destruct (Hmin _ _ Ho1) as [Hle1 _]. split; lia.
Qed.

End CwLm.

(* ================= assembling ===================================================================== *)
Section CwLmFinal.
Variable V : Type.
Variable veqb : V -> V -> bool.
Hypothesis veqb_sound : forall a b, veqb a b = true -> a = b.
Variable A : cw_automaton V.
Variable pvs : list (list N * V).
Hypothesis CERT : cw_lm_cert_ok veqb A pvs = true.

Let sget := cw_sget V A.
Let oget := cw_oget V A.
Let tget := cw_tget V A.
Let nslots := cw_nslots V A.
Let child := cwc_child sget tget.

Notation clm_next' := (clm_next V sget oget tget nslots).

Let pok := cpats_ok_lm V veqb A pvs CERT.
Let pnd := cpats_nodup V veqb A pvs CERT.

Definition clm_it_at (h : list N) (pos : nat) (t : N) : lm_it := {| l_hay := h; l_pos := pos; l_ticks := t |}.

Lemma CSI_init from : CSI V A pvs from [] ROOT 0 from 0.
Proof.
  unfold CSI. split; [reflexivity|]. split.
  - unfold Leftmost.K, starts_ge. intros s e [H _]. cbn in H. lia.
  - split; [unfold bo; cbn; lia|]. split.
    + intros _ a b [H _]. cbn in H. lia.
    + intros H. congruence.
Qed.

Lemma cskipn_boff cs i : skipn (bo (firstn i cs)) (encode_utf8 cs) = encode_utf8 (skipn i cs).
Proof.
  rewrite <- (firstn_skipn i cs) at 2. rewrite encode_utf8_app. unfold bo.
  rewrite skipn_app, skipn_all, Nat.sub_diag. reflexivity.
Qed.

Lemma cForall_skipn {X} (P : X -> Prop) n l : Forall P l -> Forall P (skipn n l).
Proof.
  intros H. rewrite Forall_forall in *. intros x Hx. apply H. rewrite <- (firstn_skipn n l).
  apply in_or_app. right. exact Hx.
Qed.

Lemma cplen_b q : cwc_plen q = N.of_nat (length (encode_utf8 q)).
Proof.
  unfold cwc_plen. assert (forall acc, fold_left (fun a c => a + len_utf8 c) q acc = acc + N.of_nat (length (encode_utf8 q))) as H.
  { induction q as [|c q IH]; intros acc; cbn [fold_left]; [cbn; lia|].
    rewrite IH. change (encode_utf8 (c :: q)) with (encode_char c ++ encode_utf8 q).
    rewrite app_length, encode_char_length. lia. }
  rewrite H. lia.
Qed.

Lemma bo_firstn_plus (h : list N) i j : bo (firstn (i + j) h) = (bo (firstn i h) + bo (firstn j (skipn i h)))%nat.
Proof. rewrite firstn_plus'. apply bo_app. Qed.

Lemma clm_next_spec h from t : Forall scalar h -> (from <= length h)%nat ->
  exists r it', clm_next' (clm_it_at (encode_utf8 h) (bo (firstn from h)) t) = Ok (r, it') /\
    match first_start V (longest_at V pvs h) (seq from (length h - from)) with
    | None => r = None
    | Some (s, pv) => exists m, r = Some m /\ BwCert.tr_m V m = to_bytes V h (s, (s + length (fst pv))%nat, snd pv)
                                /\ (N.to_nat (m_length m) <= m_end m)%nat
                                /\ l_hay it' = encode_utf8 h /\ l_pos it' = bo (firstn (s + length (fst pv)) h)
                                /\ (from <= s)%nat /\ (s + length (fst pv) <= length h)%nat /\ (0 < length (fst pv))%nat
    end.
Proof.
  intros Hs Hf. set (R := skipn from h).
  destruct (clm_scan_correct V veqb veqb_sound A pvs CERT (bo (firstn from h)) R R [] ROOT 0 (bo (firstn from h)) 0%nat t eq_refl
              (CSI_init (bo (firstn from h)))) as (res & pos' & t' & Hscan & HQ).
  unfold clm_next, clm_it_at. cbn [l_pos l_hay l_ticks].
  assert (Hle : (bo (firstn from h) <= length (encode_utf8 h))%nat).
  { rewrite <- (firstn_skipn from h) at 2. rewrite encode_utf8_app, app_length. unfold bo. lia. }
  replace (length (encode_utf8 h) <? bo (firstn from h))%nat with false by lia.
  rewrite cskipn_boff, (chars_of_encode _ (cForall_skipn _ from h Hs)). fold R.
  fold sget tget nslots in Hscan. rewrite Hscan. cbn [bind].
  pose proof (spec_choice V child pvs pok h from Hf) as Hspec. cbn zeta in Hspec. fold R in Hspec.
  destruct (first_start V (longest_at V pvs h) (seq from (length h - from))) as [[s pv]|].
  - destruct Hspec as (Hs1 & Hin & HLL & Hsub).
    destruct res as [[opos e_abs]|].
    + destruct HQ as (a & b & o & HLL' & He & Hpos & Hoa & Hol & Hov).
      destruct (isLL_unique V child pvs pok R _ _ _ _ HLL' HLL) as [-> ->].
      unfold cwc_outat in Hoa. fold oget in Hoa. rewrite Hoa. cbn [bind].
      rewrite Hsub in Hol, Hov. destruct pv as [q v]. cbn [fst snd] in *.
      pose proof (value_unique_gen V pvs q (o_value o) v pnd Hov Hin) as Hv.
      destruct HLL as [[Hr _] _]. unfold R in Hr. rewrite skipn_length in Hr.
      assert (Hq : firstn (length q) (skipn s h) = q).
      { unfold sub, R in Hsub. rewrite skipn_skipn_c in Hsub.
        replace (s - from + from)%nat with s in Hsub by lia.
        replace (s - from + length q - (s - from))%nat with (length q) in Hsub by lia. exact Hsub. }
      assert (He2 : e_abs = bo (firstn (s + length q) h)).
      { rewrite He. unfold R. replace (s + length q)%nat with (from + (s - from + length q))%nat by lia.
        rewrite (bo_firstn_plus h from (s - from + length q)). reflexivity. }
      assert (Hb2 : bo (firstn (s + length q) h) = (bo (firstn s h) + length (encode_utf8 q))%nat).
      { rewrite (bo_firstn_plus h s (length q)), Hq. reflexivity. }
      eexists. eexists. split; [reflexivity|]. eexists. split; [reflexivity|].
      unfold BwCert.tr_m, to_bytes. cbn [m_end m_length m_value l_hay l_pos fst snd].
      rewrite Hol, cplen_b, Nat2N.id. subst pos'. rewrite Hv, He2.
      split; [apply f_equal2; [apply f_equal2; lia|reflexivity]|]. split; [lia|]. split; [reflexivity|]. split; [reflexivity|].
      split; [lia|]. split; lia.
    + exfalso. destruct HLL as [Ho _]. exact (HQ _ _ Ho).
  - destruct res as [[opos e_abs]|]; [|eauto].
    exfalso. destruct HQ as (a & b & o & [Ho _] & _). exact (Hspec _ _ Ho).
Qed.

Lemma clm_run h : Forall scalar h -> forall n from k t,
  (from <= length h)%nat -> (length h - from < n)%nat -> (n <= k)%nat ->
  exists ms it', drain V clm_next' k (clm_it_at (encode_utf8 h) (bo (firstn from h)) t) = Ok (ms, it')
                 /\ map (BwCert.tr_m V) ms = map (to_bytes V h) (spec_leftmost_from V n (longest_at V pvs h) (length h) from)
                 /\ Forall (fun m => (N.to_nat (m_length m) <= m_end m)%nat) ms.
Proof.
  intros Hs. induction n as [|n IH]; intros from k t Hf Hn Hk; [lia|].
  destruct k as [|k]; [lia|].
  destruct (clm_next_spec h from t Hs Hf) as (r & it1 & Hr & Hm).
  cbn [drain spec_leftmost_from]. rewrite Hr. cbn [bind].
  destruct (first_start V (longest_at V pvs h) (seq from (length h - from))) as [[s pv]|].
  - destruct Hm as (m & -> & Htr & Hlen & Hhay & Hpos & Hs1 & Hs2 & Hs3).
    destruct it1 as [h1 p1 t1]. cbn [l_hay l_pos] in Hhay, Hpos. subst h1 p1.
    destruct (IH (s + length (fst pv))%nat k t1) as (ms & it' & Hd & Hsp & Hall); try lia.
    unfold clm_it_at in Hd. rewrite Hd. cbn [bind].
    exists (m :: ms), it'. split; [reflexivity|]. split; [|constructor; assumption].
    cbn [map]. rewrite Htr, Hsp. reflexivity.
  - subst r. exists [], it1. repeat split. constructor.
Qed.

Theorem cw_leftmost_correct_lemma cs : Forall scalar cs ->
  cw_leftmost_find_iter V A (encode_utf8 cs) = Ok (map (to_bytes V cs) (spec_lml V pvs cs)).
Proof.
  intros Hs. unfold cw_leftmost_find_iter. rewrite (ckind_lm V veqb A pvs CERT). unfold run_iter.
  destruct (clm_run cs Hs (S (length cs)) 0%nat (S (S (length (encode_utf8 cs)))) 0) as (ms & it' & Hd & Hsp & Hall); try lia.
  { pose proof (encode_utf8_length_ge cs). lia. }
  unfold lm_init. unfold clm_it_at in Hd. change (bo (firstn 0 cs)) with 0%nat in Hd.
  fold sget oget tget nslots. rewrite Hd. cbn [bind].
  rewrite (triples_ok V ms Hall). unfold spec_lml. rewrite (nonempty_pats_id V child pvs pok). rewrite Hsp. reflexivity.
Qed.

End CwLmFinal.
