(* IterHistory.v — C12 for WHOLE call histories: whatever the number k of next() calls a caller makes
   on a byte-iterator search (interleaved with anything the caller does with the source -- the
   iterator owns its cursor), after EVERY call that returned a match ending at e exactly e bytes
   have been pulled from the source, the source still holds exactly the bytes not yet pulled, in
   order, and a call that returned None has drained it.  Generic over the six standard iterators;
   the per-call theorems are in Proofs/IterPull.v. *)
From DV Require Import Model.Base Model.Nfa Model.BwBuild Model.BwSearch Model.Utf8 Model.CwBuild
     Model.CwSearch Proofs.IterPull.
From Coq Require Import ZifyN ZifyNat ZifyBool.

Section History.
Variable V : Type.
Variable IT : Type.
Variable next : IT -> res (option (mtch V) * IT).
Variable srcof : IT -> src.
Variable Inv : IT -> Prop.
Variable h : list N.
Hypothesis inv_src : forall it, Inv it -> src_inv h (srcof it).
Hypothesis step_ok : forall it r it', Inv it -> next it = Ok (r, it') ->
  Inv it' /\ src_inv h (srcof it') /\
  match r with
  | Some m => m_end m = s_pulled (srcof it') /\ (s_pulled (srcof it) <= m_end m)%nat
  | None => s_pulled (srcof it') = length h
  end.

(* k calls of next(); after each call: what it returned, how many bytes have been pulled so far and
   what is left in the source *)
Fixpoint history (k : nat) (it : IT) : res (list (option (mtch V) * nat * list N)) :=
  match k with
  | O => Ok []
  | S k' =>
    '(r, it') <- next it ;;
    rest <- history k' it' ;;
    Ok ((r, s_pulled (srcof it'), s_rest (srcof it')) :: rest)
  end.

Definition call_ok (x : option (mtch V) * nat * list N) : Prop :=
  let '(r, pulled, rest) := x in
  rest = skipn pulled h /\ (pulled <= length h)%nat /\
  match r with Some m => m_end m = pulled | None => pulled = length h end.

Theorem history_exact : forall k it hs, Inv it -> history k it = Ok hs -> Forall call_ok hs.
Proof.
  induction k as [|k IH]; intros it hs HI H; cbn [history] in H; [inversion H; constructor|].
  destruct (next it) as [[r it']| | | |] eqn:E; cbn [bind] in H; try discriminate.
  destruct (history k it') as [rest| | | |] eqn:E2; cbn [bind] in H; try discriminate. inversion H; subst hs.
  destruct (step_ok it r it' HI E) as (HI' & [Hs1 Hs2] & Hr). constructor; [|exact (IH it' rest HI' E2)].
  unfold call_ok. split; [exact Hs1|]. split; [exact Hs2|]. destruct r as [m|]; [exact (proj1 Hr)|exact Hr].
Qed.

(* the matches come out with non-decreasing end positions and the pull count never decreases *)
Theorem history_monotone : forall k it hs, Inv it -> history k it = Ok hs ->
  forall a x b y c, hs = a ++ x :: b ++ y :: c -> (snd (fst x) <= snd (fst y))%nat.
Proof.
  induction k as [|k IH]; intros it hs HI H a x b y c E; cbn [history] in H; [inversion H; subst; destruct a; discriminate|].
  destruct (next it) as [[r it']| | | |] eqn:En; cbn [bind] in H; try discriminate.
  destruct (history k it') as [rest| | | |] eqn:E2; cbn [bind] in H; try discriminate. injection H as Hh. rewrite <- Hh in E. clear Hh.
  destruct (step_ok it r it' HI En) as (HI' & _ & _).
  destruct a as [|a0 a]; cbn [app] in E; inversion E; subst.
  - (* x is this call: every later call has pulled at least as much *)
    cbn [fst snd]. clear IH.
    assert (G : forall k it1 hs1, Inv it1 -> history k it1 = Ok hs1 -> forall z, In z hs1 -> (s_pulled (srcof it1) <= snd (fst z))%nat).
    { intros k0. induction k0 as [|k0 IHk]; intros it1 hs1 HI1 H1 z Hz; cbn [history] in H1; [inversion H1; subst; destruct Hz|].
      destruct (next it1) as [[r1 it2]| | | |] eqn:En1; cbn [bind] in H1; try discriminate.
      destruct (history k0 it2) as [rest1| | | |] eqn:E3; cbn [bind] in H1; try discriminate. inversion H1; subst hs1.
      destruct (step_ok it1 r1 it2 HI1 En1) as (HI2 & [_ Hle] & Hr1).
      assert (Hmono : (s_pulled (srcof it1) <= s_pulled (srcof it2))%nat).
      { destruct r1 as [m|]; [destruct Hr1 as [Q1 Q2]; lia|]. destruct (inv_src it1 HI1) as [_ Hl1]. lia. }
      destruct Hz as [<-|Hz]; [cbn [fst snd]; exact Hmono|]. specialize (IHk it2 rest1 HI2 E3 z Hz). lia. }
    apply (G k it' (b ++ y :: c) HI' E2). apply in_or_app. right. left. reflexivity.
  - eapply (IH it' _ HI' E2). reflexivity.
Qed.
End History.
