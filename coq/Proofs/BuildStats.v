(* BuildStats.v — C15 for EVERY automaton construction returns, all match kinds, both variants:
   the counted states (1 + distinct non-empty prefixes of the registered patterns) are exactly the
   states reachable from the root of the finished double array, each by its own string, distinct
   strings reaching distinct slots; hence num_states <= num_elements. *)
From DV Require Import Model.Base Model.Nfa Model.Helper Model.BwBuild Model.BwSearch Model.Utf8 Model.CwBuild Model.CwSearch
     Model.Api Model.Spec Model.Cert
     Proofs.GenAC Proofs.TrieInv Proofs.BuildTrie Proofs.BuildSafe Proofs.CwBuildSafe Proofs.NfaFails Proofs.DaRefine Proofs.CwDaRefine
     Proofs.BwSafe Proofs.BuildProps Proofs.BuildCert Proofs.CwBuildCert.
From Coq Require Import Sorted ZifyN ZifyNat ZifyBool.
Local Open Scope N_scope.

Ltac bstep H :=
  match type of H with
  | bind ?e _ = Ok _ => let E := fresh "E" in destruct e eqn:E; cbn [bind] in H; try discriminate
  end.

(* ---- finish_nfa leaves the trie alone, whatever the match kind ------------------------------- *)
Section Shape.
Variable V : Type.

Definition same_shape (n n' : nfa V) : Prop :=
  n_nstates n' = n_nstates n /\
  forall i, match nget i (n_states n'), nget i (n_states n) with
            | Some st', Some st => n_edges st' = n_edges st /\ n_output st' = n_output st
            | None, None => True
            | _, _ => False
            end.

Lemma same_shape_refl n : same_shape n n.
Proof. split; [reflexivity|]. intros i. destruct (nget i (n_states n)); auto. Qed.

Lemma same_shape_trans a b c : same_shape a b -> same_shape b c -> same_shape a c.
Proof.
  intros [A1 A2] [B1 B2]. split; [congruence|]. intros i. specialize (A2 i). specialize (B2 i).
  destruct (nget i (n_states c)), (nget i (n_states b)), (nget i (n_states a)); try contradiction; auto.
  destruct A2, B2. split; congruence.
Qed.

Lemma same_shape_set (n : nfa V) i st st' : nfa_get V n i = Ok st -> n_edges st' = n_edges st -> n_output st' = n_output st ->
  same_shape n (nfa_set V n i st').
Proof.
  intros Hg He Ho. apply nfa_get_some in Hg. split; [reflexivity|]. intros j. unfold nfa_set. cbn [n_states].
  destruct (N.eq_dec j i) as [->|Hne]; [rewrite ngss, Hg; auto|]. rewrite ngso by exact Hne. destruct (nget j (n_states n)); auto.
Qed.

Lemma set_fail_shape n i f n' : set_fail V n i f = Ok n' -> same_shape n n'.
Proof. unfold set_fail. intros H. bstep H. inversion H; subst. apply (same_shape_set n i a); [exact E|reflexivity|reflexivity]. Qed.

Lemma fails_edges_shape : forall es n sid sf q n' q', fails_edges V n sid sf es q = Ok (n', q') -> same_shape n n'.
Proof.
  induction es as [|[c ch] es IH]; intros n sid sf q n' q' H; cbn [fails_edges] in H; [inversion H; apply same_shape_refl|].
  bstep H. destruct (ch =? sid); [discriminate|]. bstep H. exact (same_shape_trans _ _ _ (set_fail_shape _ _ _ _ E0) (IH _ _ _ _ _ _ H)).
Qed.

Lemma fails_bfs_shape : forall fuel n p d n' q, fails_bfs V fuel n p d = Ok (n', q) -> same_shape n n'.
Proof.
  induction fuel as [|fuel IH]; intros n p d n' q H; destruct p as [|s p]; cbn [fails_bfs] in H;
    try (inversion H; apply same_shape_refl); try discriminate.
  bstep H. bstep H. destruct a0 as [n1 news]. exact (same_shape_trans _ _ _ (fails_edges_shape _ _ _ _ _ _ _ E0) (IH _ _ _ _ _ H)).
Qed.

Lemma fails_edges_lm_shape : forall es n sid sf q n' q', fails_edges_lm V n sid sf es q = Ok (n', q') -> same_shape n n'.
Proof.
  induction es as [|[c ch] es IH]; intros n sid sf q n' q' H; cbn [fails_edges_lm] in H; [inversion H; apply same_shape_refl|].
  bstep H. destruct (ch =? sid); [discriminate|]. bstep H. exact (same_shape_trans _ _ _ (set_fail_shape _ _ _ _ E0) (IH _ _ _ _ _ _ H)).
Qed.

Lemma fails_bfs_lm_shape : forall fuel n p d n' q, fails_bfs_lm V fuel n p d = Ok (n', q) -> same_shape n n'.
Proof.
  induction fuel as [|fuel IH]; intros n p d n' q H; destruct p as [|s p]; cbn [fails_bfs_lm] in H;
    try (inversion H; apply same_shape_refl); try discriminate.
  bstep H. bstep H. bstep H. destruct a1 as [n1 news].
  exact (same_shape_trans _ _ _ (same_shape_trans _ _ _ (set_fail_shape _ _ _ _ E0) (fails_edges_lm_shape _ _ _ _ _ _ _ E1)) (IH _ _ _ _ _ H)).
Qed.

Lemma outputs_loop_shape : forall q n n', outputs_loop V n q = Ok n' -> same_shape n n'.
Proof.
  induction q as [|sid q IH]; intros n n' H; cbn [outputs_loop] in H; [inversion H; apply same_shape_refl|].
  bstep H. destruct (n_fail a =? sid); [discriminate|]. bstep H. destruct (n_output a) as [[v len]|] eqn:Eo.
  - destruct (U32_MAX <? _); [discriminate|]. apply IH in H. refine (same_shape_trans _ _ _ _ H).
    pose proof (same_shape_set n sid a {| n_edges := n_edges a; n_fail := n_fail a; n_output := n_output a; n_outpos := N.of_nat (length (n_outputs n)) + 1 |} E eq_refl eq_refl) as S.
    rewrite Eo in S. exact S.
  - apply IH in H. refine (same_shape_trans _ _ _ _ H). apply (same_shape_set n sid a); [exact E|reflexivity|cbn; congruence].
Qed.

Lemma finish_nfa_shape n n' : finish_nfa V n = Ok n' -> same_shape n n'.
Proof.
  unfold finish_nfa. intros H. bstep H. destruct a as [n1 q].
  assert (S1 : same_shape n n1).
  { destruct (n_kind n); unfold build_fails, build_fails_leftmost in E; bstep E;
      [eapply fails_bfs_shape|eapply fails_bfs_lm_shape|eapply fails_bfs_lm_shape]; exact E. }
  unfold build_outputs in H. destruct q as [|q0 q]; [discriminate|]. destruct (q0 =? ROOT); [discriminate|].
  exact (same_shape_trans _ _ _ S1 (outputs_loop_shape _ _ _ H)).
Qed.

Lemma same_shape_tchild n n' : same_shape n n' -> forall s c, tchild V n' s c = tchild V n s c.
Proof.
  intros [_ H] s c. unfold tchild. specialize (H s). destruct (nget s (n_states n')), (nget s (n_states n)); try contradiction; [|reflexivity].
  destruct H as [-> _]. reflexivity.
Qed.

Lemma same_shape_st (lbytes : N -> N) n n' outs paths : TI V lbytes n outs [] paths -> same_shape n n' ->
  forall i, i < n_nstates n -> exists st st0, nget i (n_states n') = Some st /\ nget i (n_states n) = Some st0
                                     /\ n_edges st = n_edges st0 /\ n_output st = n_output st0.
Proof.
  intros T [_ H] i Hi. destruct (ti_wf _ _ _ _ _ _ T i Hi) as [st0 H0]. specialize (H i). rewrite H0 in H.
  destruct (nget i (n_states n')) as [st|]; [|contradiction]. exists st, st0. destruct H. auto.
Qed.
End Shape.

(* ---- reachable states = counted states ----------------------------------------------------------- *)
Lemma slots_bound (nodes : list N) (idmap : nmap N) (nslots : nat) :
  NoDup nodes -> (1 <= nslots)%nat ->
  (forall s, In s nodes -> exists i, nget s idmap = Some i /\ 2 <= i < N.of_nat nslots) ->
  (forall s1 s2 i, nget s1 idmap = Some i -> nget s2 idmap = Some i -> s1 = s2) ->
  (length nodes + 1 <= nslots)%nat.
Proof.
  intros Hnd H1 Hr Hinj.
  set (f := fun s => match nget s idmap with Some i => N.to_nat i | None => 0%nat end).
  assert (Hl : (length (map f nodes) <= length (seq 2 (nslots - 2)))%nat).
  { apply NoDup_incl_length.
    - apply nodup_map_in; [|exact Hnd]. intros a b Ha Hb E. destruct (Hr a Ha) as (ia & Hia & _). destruct (Hr b Hb) as (ib & Hib & _).
      unfold f in E. rewrite Hia, Hib in E. assert (ia = ib) by lia. subst ib. exact (Hinj a b ia Hia Hib).
    - intros x Hx. apply in_map_iff in Hx as [s [<- Hs]]. destruct (Hr s Hs) as (i & Hi & Hlt). unfold f. rewrite Hi. apply in_seq. lia. }
  rewrite map_length, seq_length in Hl.
  destruct nodes as [|s0 r]; [cbn [length]; lia|]. destruct (Hr s0 (or_introl eq_refl)) as (i & _ & Hi). cbn [length] in *. lia.
Qed.

(* the non-root states of a trie that satisfies the invariant, as a duplicate-free list *)
Section Count.
Variable V : Type.
Variable lbytes : N -> N.
Variables (n0 : nfa V) (outs : list (list N * V)) (paths : list (list N)).
Hypothesis T0 : TI V lbytes n0 outs [] paths.

Definition nonroot_ids : list N := map (fun k => N.of_nat k + 2) (seq 0 (length paths)).

Lemma nonroot_ids_nodup : NoDup nonroot_ids.
Proof. unfold nonroot_ids. apply nodup_map_in; [|apply seq_NoDup]. intros a b _ _ E. lia. Qed.
Lemma nonroot_ids_len : length nonroot_ids = length paths.
Proof. unfold nonroot_ids. rewrite map_length, seq_length. reflexivity. Qed.
Lemma nonroot_ids_node s : In s nonroot_ids -> exists p, N0 V n0 p s /\ 2 <= s.
Proof.
  unfold nonroot_ids. intros Hs. apply in_map_iff in Hs as [k [<- Hk]]. apply in_seq in Hk.
  destruct (nth_error paths k) as [p|] eqn:E; [|apply nth_error_None in E; lia]. exists p. split; [exact (ti_fwd _ _ _ _ _ _ T0 k p E)|lia].
Qed.
End Count.

(* ---- byte-wise ------------------------------------------------------------------------------------- *)
Theorem bw_stats_universal (V : Type) k nfb (pvs : list (list N * V)) A :
  (forall p v, In (p, v) pvs -> Forall (fun b => b < 256) p) -> 4 * total_len V pvs <= U32_MAX - 1 ->
  bw_build_with_values V k nfb pvs = Ok A ->
  let child := bwc_child (bw_sget V A) in
  let D := distinct_nonempty_prefixes V (regd V k pvs) in
  bw_num_states A = 1 + N.of_nat (length D)
  /\ (forall u, In u D -> exists s, Cert.walk child ROOT u = Some s)
  /\ (forall w s, Cert.walk child ROOT w = Some s -> w = [] \/ In w D)
  /\ (forall u1 u2 s, Cert.walk child ROOT u1 = Some s -> Cert.walk child ROOT u2 = Some s -> u1 = u2)
  /\ bw_num_states A <= bw_num_elements V A.
Proof.
  intros Hbytes Hsz H. pose proof (bw_build_ok_lemma V k nfb pvs A Hsz H) as (Hval & Hcnt & _).
  unfold bw_build_with_values in H. destruct (nfb =? 0); [discriminate|].
  destruct (bw_build_sparse_nfa V k pvs) as [n2| | | |] eqn:En; cbn [bind] in H; try discriminate.
  destruct (build_double_array V nfb n2) as [sts| | | |] eqn:Ed; cbn [bind] in H; try discriminate.
  destruct (U32_MAX <? n_nstates n2 - 1); [discriminate|]. inversion H; subst A; clear H.
  pose proof (bw_sparse_nfa_inv V k pvs n2 Hbytes En) as [HA2 _].
  unfold bw_build_sparse_nfa in En. destruct (add_all V (fun _ => 1) (nfa_new V k) pvs) as [n0| | | |] eqn:Ea; cbn [bind] in En; try discriminate.
  destruct (n_len n0 =? 0) eqn:El; [discriminate|]. destruct (U24_MAX <? n_len n0); [discriminate|].
  rewrite add_all_adds in Ea.
  pose proof (adds_spec V (fun _ => 1) one_pos one_le4 k pvs Hsz) as S.
  destruct (first_offence [] (map fst pvs)) as [e|] eqn:Efo; [rewrite Ea in S; discriminate|].
  destruct S as (n0' & paths & S1 & T0 & Hk & Hlen & Hout). rewrite Ea in S1. inversion S1; subst n0'; clear S1.
  pose proof (adds_PEF V (fun _ => 1) pvs _ n0 (nfa_new_PEF V k) Ea) as HPEF.
  assert (EK0 : forall i st, nget i (n_states n0) = Some st -> NoDup (map fst (n_edges st))) by (intros i st Hg; exact (proj2 (HPEF i st Hg))).
  pose proof (finish_nfa_shape V n0 n2 En) as Hsh. destruct Hsh as [Hns Hsh']. assert (Hsh : same_shape V n0 n2) by (split; assumption).
  pose proof (same_shape_tchild V n0 n2 Hsh) as Htc. pose proof (same_shape_st V (fun _ => 1) n0 n2 _ paths T0 Hsh) as Hst.
  assert (Hlab : forall i st, nget i (n_states n2) = Some st -> forall c t, In (c, t) (n_edges st) -> c < 256) by (intros i st Hg; exact (proj2 (HA2 i st Hg))).
  assert (Hnode : forall t, node V n2 t <-> exists w, N0 V n0 w t) by (apply node2_iff; exact Htc).
  assert (RFx : exists idmap, Refines V n2 sts idmap).
  { eapply build_double_array_refines; [| | | | | | | | |exact Ed].
    - eapply tf_wf; eassumption.
    - eapply tf_edges_child; try eassumption; exact one_pos.
    - eapply tf_labels; eassumption.
    - eapply tf_child_node; try eassumption; exact one_pos.
    - eapply tf_uniq_parent; try eassumption; exact one_pos.
    - eapply tf_nonroot_parent; eassumption.
    - eapply tf_node_lt; try eassumption; exact one_pos.
    - eapply tf_edges_nodup; try eassumption; exact one_pos.
    - eapply tf_nstates_nodes; try eassumption; exact one_pos. }
  destruct RFx as [idmap RF].
  assert (Hlab2 : forall s c t, node V n2 s -> tchild V n2 s c = Some t -> c < 256).
  { intros s c t Ns Hc. assert (Hin : In (c, t) (edges_of V n2 s)) by (eapply tf_edges_child; try eassumption; exact one_pos).
    eapply tf_labels; eassumption. }
  assert (Hwalk : forall w, Cert.walk (bwc_child (fun j => nget j (index_list sts))) ROOT w
                            = match twalk V n0 ROOT w with Some t => nget t idmap | None => None end)
    by (intros w; eapply BuildCert.walk_root; eassumption).
  destruct (TI_count V (fun _ => 1) n0 _ paths T0) as [Hc Hmem].
  cbn zeta. unfold bw_sget. cbn [bw_states bw_num_states bw_num_elements].
  split; [exact Hcnt|]. split; [|split; [|split]].
  - intros u Hu. apply Hmem in Hu as (t & _ & Ht). rewrite Hwalk, Ht.
    destruct (rf_tot _ _ _ _ RF t (proj2 (Hnode t) (ex_intro _ u Ht))) as (i & Hi & _). exists i. exact Hi.
  - intros w s Hw. rewrite Hwalk in Hw. destruct (twalk V n0 ROOT w) as [t|] eqn:Et; [|discriminate].
    destruct (ti_bwd _ _ _ _ _ _ T0 w t Et) as [[-> _]|[H2 _]]; [left; reflexivity|right]. apply Hmem. exists t. auto.
  - intros u1 u2 s H1 H2. rewrite Hwalk in H1, H2.
    destruct (twalk V n0 ROOT u1) as [t1|] eqn:E1; [|discriminate]. destruct (twalk V n0 ROOT u2) as [t2|] eqn:E2; [|discriminate].
    assert (t1 = t2) by exact (rf_inj _ _ _ _ RF t1 t2 s H1 H2). subst t2. eapply (ti_inj V (fun _ => 1) one_pos); eassumption.
  - (* num_states <= num_elements *)
    assert (Hb : (length (nonroot_ids paths) + 1 <= length sts)%nat).
    { apply (slots_bound _ idmap); [apply nonroot_ids_nodup| | |exact (rf_inj _ _ _ _ RF)].
      - destruct (rf_tot _ _ _ _ RF ROOT (proj2 (Hnode ROOT) (ex_intro _ [] eq_refl))) as (i & _ & Hi & _). lia.
      - intros s Hs. destruct (nonroot_ids_node V _ n0 _ paths T0 s Hs) as (p & Hp & H2).
        destruct (rf_tot _ _ _ _ RF s (proj2 (Hnode s) (ex_intro _ p Hp))) as (i & Hi & Hlt & Hge). exists i. split; [exact Hi|].
        split; [apply Hge; unfold ROOT; lia|exact Hlt]. }
    rewrite nonroot_ids_len in Hb. pose proof (ti_cnt _ _ _ _ _ _ T0) as Hcc. unfold bw_num_elements. cbn [bw_states]. rewrite Hns. lia.
Qed.

(* ---- character-wise -------------------------------------------------------------------------------- *)
Theorem cw_stats_universal (V : Type) kd nfb (pvs : list (list N * V)) A :
  4 * total_len V pvs <= U32_MAX - 1 ->
  cw_build_with_values V kd nfb pvs = Ok A ->
  let child := cwc_child (cw_sget V A) (cw_tget V A) in
  let D := distinct_nonempty_prefixes V (regd V kd pvs) in
  cw_num_states A = 1 + N.of_nat (length D)
  /\ (forall u, In u D -> exists s, Cert.walk child ROOT u = Some s)
  /\ (forall w s, Cert.walk child ROOT w = Some s -> w = [] \/ In w D)
  /\ (forall u1 u2 s, Cert.walk child ROOT u1 = Some s -> Cert.walk child ROOT u2 = Some s -> u1 = u2)
  /\ cw_num_states A <= cw_num_elements V A.
Proof.
  intros Hsz H. pose proof (cw_build_ok_lemma V kd nfb pvs A Hsz H) as (Hval & Hcnt & _).
  unfold cw_build_with_values in H. destruct (nfb =? 0); [discriminate|].
  destruct (cw_add_all V (nfa_new V kd) _ [] pvs) as [[[n0 f] pr]| | | |] eqn:Ea; cbn [bind] in H; try discriminate.
  destruct (n_len n0 =? 0) eqn:El; [discriminate|].
  destruct (finish_nfa V n0) as [n2| | | |] eqn:En; cbn [bind] in H; try discriminate.
  set (mp := mapper_new f pr) in *.
  destruct (cw_init_array (mp_alpha mp) nfb) as [[[a0 h0] b]| | | |] eqn:Ei; cbn [bind] in H; try discriminate.
  destruct (cw_dfs_loop V _ _ b n2 a0 h0 _ _) as [[[a1 h1] idmap]| | | |] eqn:Ed; cbn [bind] in H; try discriminate.
  destruct (cw_set_fails_loop V n2 a1 idmap _) as [a2| | | |] eqn:Es; cbn [bind] in H; try discriminate.
  destruct (U32_MAX <? n_nstates n2 - 1); [discriminate|]. inversion H; subst A; clear H.
  pose proof (cw_add_all_adds V pvs (nfa_new V kd) {| fq_map := nempty; fq_len := 0 |} []) as Hadds. rewrite Ea in Hadds.
  pose proof (adds_spec V len_utf8 len_utf8_pos len_utf8_le4 kd pvs Hsz) as S.
  destruct (first_offence [] (map fst pvs)) as [e|] eqn:Efo; [rewrite Hadds in S; discriminate|].
  destruct S as (n0' & paths & S1 & T0 & Hk & Hlen & Hout). rewrite Hadds in S1. inversion S1; subst n0'; clear S1.
  pose proof (adds_PEF V len_utf8 pvs _ n0 (nfa_new_PEF V kd) Hadds) as HPEF.
  assert (EK0 : forall i st, nget i (n_states n0) = Some st -> NoDup (map fst (n_edges st))) by (intros i st Hg; exact (proj2 (HPEF i st Hg))).
  pose proof (finish_nfa_shape V n0 n2 En) as Hsh. destruct Hsh as [Hns Hsh']. assert (Hsh : same_shape V n0 n2) by (split; assumption).
  pose proof (same_shape_tchild V n0 n2 Hsh) as Htc. pose proof (same_shape_st V len_utf8 n0 n2 _ paths T0 Hsh) as Hst.
  assert (Hnode : forall t, node V n2 t <-> exists w, N0 V n0 w t) by (apply node2_iff; exact Htc).
  destruct (cw_init_array_inv _ _ _ _ _ Ei) as (Hb & Hbu & _).
  destruct (block_len_pow2 (mp_alpha mp)) as [k [Hbk Hk1]].
  assert (Hcode : forall c m, code_of (index_list (mp_table mp)) c = Some m -> m < 2 ^ k).
  { intros c m Hc. apply (code_of_lt (mp_table mp) (mp_alpha mp)) in Hc; [|intros x Hx; exact (mapper_new_codes f pr x Hx)].
    pose proof (block_len_ge (mp_alpha mp)) as Hge. rewrite <- Hb in Hge. specialize (Hge Hbu). rewrite Hb, Hbk in Hge. lia. }
  assert (Hprs : StronglySorted N.lt pr) by (apply (cw_add_all_present pvs _ _ _ _ _ _ (SSorted_nil _) Ea)).
  assert (RF : CRefines V n2 (index_list (mp_table mp)) (carr_to_list a2) idmap).
  { eapply (cw_layout_refines k Hk1 V n2 (index_list (mp_table mp))); [| | | | | | | | |exact Hbk|exact Ei|exact Ed|exact Es].
    - eapply tf_edges_child; try eassumption; exact len_utf8_pos.
    - eapply tf_child_node; try eassumption; exact len_utf8_pos.
    - eapply tf_uniq_parent; try eassumption; exact len_utf8_pos.
    - eapply tf_node_lt; try eassumption; exact len_utf8_pos.
    - eapply tf_edges_nodup; try eassumption; exact len_utf8_pos.
    - exact Hcode.
    - exact (mapper_code_inj f pr Hprs).
    - apply Hnode. exists []. reflexivity.
    - eapply tf_nstates_nodes; try eassumption; exact len_utf8_pos. }
  assert (Hwalk : forall w, Cert.walk (cwc_child (fun j => nget j (index_list (carr_to_list a2))) (fun c => nget c (index_list (mp_table mp)))) ROOT w
                            = match twalk V n0 ROOT w with Some t => nget t idmap | None => None end)
    by (intros w; eapply CwBuildCert.walk_root; eassumption).
  destruct (TI_count V len_utf8 n0 _ paths T0) as [Hc Hmem].
  cbn zeta. unfold cw_sget, cw_tget. cbn [cw_states cw_num_states cw_mapper].
  split; [exact Hcnt|]. split; [|split; [|split]].
  - intros u Hu. apply Hmem in Hu as (t & _ & Ht). rewrite Hwalk, Ht.
    destruct (crf_tot _ _ _ _ _ RF t (proj2 (Hnode t) (ex_intro _ u Ht))) as (i & Hi & _). exists i. exact Hi.
  - intros w s Hw. rewrite Hwalk in Hw. destruct (twalk V n0 ROOT w) as [t|] eqn:Et; [|discriminate].
    destruct (ti_bwd _ _ _ _ _ _ T0 w t Et) as [[-> _]|[H2 _]]; [left; reflexivity|right]. apply Hmem. exists t. auto.
  - intros u1 u2 s H1 H2. rewrite Hwalk in H1, H2.
    destruct (twalk V n0 ROOT u1) as [t1|] eqn:E1; [|discriminate]. destruct (twalk V n0 ROOT u2) as [t2|] eqn:E2; [|discriminate].
    assert (t1 = t2) by exact (crf_inj _ _ _ _ _ RF t1 t2 s H1 H2). subst t2. eapply (ti_inj V len_utf8 len_utf8_pos); eassumption.
  - assert (Hb' : (length (nonroot_ids paths) + 1 <= length (carr_to_list a2))%nat).
    { apply (slots_bound _ idmap); [apply nonroot_ids_nodup| | |exact (crf_inj _ _ _ _ _ RF)].
      - destruct (crf_tot _ _ _ _ _ RF ROOT (proj2 (Hnode ROOT) (ex_intro _ [] eq_refl))) as (i & _ & Hi & _). lia.
      - intros s Hs. destruct (nonroot_ids_node V _ n0 _ paths T0 s Hs) as (p & Hp & H2).
        destruct (crf_tot _ _ _ _ _ RF s (proj2 (Hnode s) (ex_intro _ p Hp))) as (i & Hi & Hlt & Hge). exists i. split; [exact Hi|].
        split; [apply Hge; unfold ROOT; lia|exact Hlt]. }
    rewrite nonroot_ids_len in Hb'. pose proof (ti_cnt _ _ _ _ _ _ T0) as Hcc. unfold cw_num_elements. cbn [cw_states]. rewrite Hns. lia.
Qed.
