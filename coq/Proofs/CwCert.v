(* CwCert.v — character-wise automaton: [cw_cert_ok A pvs = true] (pvs: patterns as lists of
   Unicode scalar values) implies that the three standard search methods of the model, run on the
   UTF-8 encoding of ANY text, return the character-level specification with its positions
   translated to byte offsets. *)
From DV Require Import Model.Base Model.Nfa Model.Utf8 Model.CwBuild Model.BwSearch Model.CwSearch Model.Api
     Model.Spec Model.Cert Proofs.GenAC Proofs.BwCert Proofs.BwSafe Proofs.IterPull Proofs.Utf8Props.
From Coq Require Import ZifyN ZifyNat ZifyBool.

Local Open Scope N_scope.

Section CwCert.
Variable V : Type.
Variable veqb : V -> V -> bool.
Hypothesis veqb_sound : forall a b, veqb a b = true -> a = b.
Variable A : cw_automaton V.
Variable pvs : list (list N * V).
Hypothesis CERT : cw_cert_ok veqb A pvs = true.

Let sget := cw_sget V A.
Let oget := cw_oget V A.
Let tget := cw_tget V A.
Let nslots := cw_nslots V A.
Let child := cwc_child sget tget.
Let failof := cwc_failof sget.
Let outposof := cwc_outposof sget.
Let outat := cwc_outat V oget.
Let labels := cwc_labels tget (length (mp_table (cw_mapper A))).
Let maxdepth := S (length (cw_states A)).
Let nouts := length (cw_outputs A).

Notation walk := (Cert.walk child).
Notation lsuf := (Cert.lsuf child).
Notation sufpats := (Cert.sufpats V cwc_plen pvs).
Notation chain := (Cert.chain V outat).

Lemma ckind_std : is_standard (cw_kind A) = true.
Proof. pose proof CERT as C. unfold cw_cert_ok in C. apply andb_true_iff in C. tauto. Qed.

Lemma mapped_in_labels c mc : mapper_get tget c = Some mc -> In c labels.
Proof.
  intros H. unfold labels, cwc_labels. apply filter_In. split; [|rewrite H; reflexivity].
  apply nseq_In. unfold mapper_get in H. destruct (tget c) as [code|] eqn:E; [|discriminate].
  unfold tget, cw_tget in E. rewrite index_list_get in E.
  assert (N.to_nat c < length (mp_table (cw_mapper A)))%nat by (apply nth_error_Some; congruence). lia.
Qed.

Lemma cchild_labels : forall s c, ~ In c labels -> child s c = Ok None.
Proof.
  intros s c H. unfold child, cwc_child. destruct (mapper_get tget c) as [mc|] eqn:E; [|reflexivity].
  exfalso. apply H. eapply mapped_in_labels. exact E.
Qed.

Lemma ccert_tree : exists fuel,
  tree_ok V veqb child failof outposof outat labels cwc_plen pvs fuel maxdepth nouts ROOT [] = true.
Proof.
  pose proof CERT as C. unfold cw_cert_ok, cwc_cert_ok, cert_ok in C. rewrite !andb_true_iff in C.
  destruct C as (_ & H & _). eexists. exact H.
Qed.

Lemma cpats_nodes : forall p v, In (p, v) pvs -> p <> [] /\ Cert.inT child p = true.
Proof.
  pose proof CERT as C. unfold cw_cert_ok, cwc_cert_ok, cert_ok in C. rewrite !andb_true_iff in C.
  destruct C as (_ & _ & H). rewrite forallb_forall in H. intros p v Hin.
  specialize (H (p, v) Hin). cbn [fst] in H. apply andb_true_iff in H as [H1 H2]. split; [|exact H2].
  destruct p; [discriminate|congruence].
Qed.

Definition cnode_ok := node_ok V veqb veqb_sound child failof outposof outat labels cwc_plen pvs
                               cchild_labels maxdepth nouts ccert_tree.

(* ---- the transition function ----------------------------------------------------------------- *)
Lemma cnext_loop_gen c mc : mapper_get tget c = Some mc -> forall fuel s t s',
  g_next child failof fuel s c = Ok s' ->
  exists t', cw_next_loop sget fuel s mc t = Ok (s', t').
Proof.
  intros Hm. induction fuel as [|fuel IH]; intros s t s' H; [discriminate|].
  cbn [g_next cw_next_loop] in *. unfold child at 1, cwc_child in H. rewrite Hm in H.
  destruct (cw_child sget s mc) as [[x|]| | | |]; cbn [bind] in *; try discriminate.
  - inversion H; subst. eauto.
  - destruct (s =? ROOT); [inversion H; subst; eauto|].
    unfold failof at 1, cwc_failof in H. destruct (cst_at sget s) as [st| | | |]; cbn [bind] in *; try discriminate.
    eapply IH. exact H.
Qed.

Lemma clsuf_cons' a r : lsuf (a :: r) = if Cert.inT child (a :: r) then a :: r else lsuf r.
Proof. apply (lsuf_cons child). Qed.
Lemma clsuf_len' r : (length (lsuf r) <= length r)%nat.
Proof.
  induction r as [|a r IH]; [cbn; lia|]. rewrite clsuf_cons'.
  destruct (Cert.inT child (a :: r)); cbn [length]; lia.
Qed.

(* the transition loop with its iteration count: "iterations so far + depth of the current node"
   grows by at most 2 per character *)
Lemma cnext_loop_ticks c mc : mapper_get tget c = Some mc -> forall fuel u s t,
  walk ROOT u = Some s -> (length u < fuel)%nat ->
  exists s' t', cw_next_loop sget fuel s mc t = Ok (s', t')
                /\ walk ROOT (lsuf (u ++ [c])) = Some s'
                /\ (N.to_nat t' + length (lsuf (u ++ [c])) <= N.to_nat t + length u + 2)%nat.
Proof.
  intros Hm. induction fuel as [|fuel IH]; intros u s t Hw Hlen; [lia|].
  pose proof (cnode_ok u s Hw) as NF.
  cbn [cw_next_loop]. destruct NF as [NFroot _ NFfail _ NFchild]. destruct (NFchild c) as [r Hr].
  assert (Hchild : cw_child sget s mc = Ok r) by (unfold child, cwc_child in Hr; rewrite Hm in Hr; exact Hr).
  rewrite Hchild. cbn [bind]. destruct r as [t1|].
  - exists t1, (t + 1). split; [reflexivity|].
    assert (Hwt : walk ROOT (u ++ [c]) = Some t1) by (rewrite (walk_snoc child), Hw, Hr; reflexivity).
    rewrite (lsuf_of_node child) by (unfold Cert.inT; rewrite Hwt; reflexivity).
    split; [exact Hwt|]. rewrite app_length. cbn [length]. lia.
  - assert (Hnot : Cert.inT child (u ++ [c]) = false).
    { unfold Cert.inT. rewrite (walk_snoc child), Hw, Hr. reflexivity. }
    destruct u as [|a r].
    + cbn in Hw. inversion Hw; subst s. rewrite N.eqb_refl.
      exists ROOT, (t + 1). split; [reflexivity|]. cbn [app] in *. rewrite clsuf_cons', Hnot.
      split; [reflexivity|]. cbn. lia.
    + destruct (s =? ROOT) eqn:Es.
      { apply N.eqb_eq in Es. pose proof (NFroot Es). discriminate. }
      destruct (NFfail a r eq_refl) as [f [Hf Hwf]].
      unfold failof, cwc_failof in Hf. destruct (cst_at sget s) as [st| | | |]; cbn [bind] in Hf; try discriminate.
      inversion Hf; subst f. cbn [bind].
      destruct (IH (lsuf r) (c_fail st) (t + 1) Hwf) as (s' & t' & Hs' & Hw' & Ht').
      { pose proof (clsuf_len' r). cbn [length] in Hlen. lia. }
      exists s', t'. split; [exact Hs'|].
      cbn [app]. rewrite clsuf_cons'. cbn [app] in Hnot. rewrite Hnot.
      rewrite (lsuf_snoc child). split; [exact Hw'|].
      pose proof (clsuf_len' r). cbn [length]. lia.
Qed.

Lemma cstep w c s t : walk ROOT (lsuf w) = Some s ->
  exists s' t', cw_next_state sget tget nslots s c t = Ok (s', t')
                /\ walk ROOT (lsuf (w ++ [c])) = Some s'
                /\ (N.to_nat t' + length (lsuf (w ++ [c])) <= N.to_nat t + length (lsuf w) + 2)%nat.
Proof.
  intros Hw. unfold cw_next_state. destruct (mapper_get tget c) as [mc|] eqn:Em.
  - pose proof (cnode_ok _ _ Hw) as NF.
    destruct (cnext_loop_ticks c mc Em (cfuel0 nslots) (lsuf w) s t Hw) as (s' & t' & H1 & H2 & H3).
    { destruct NF as [_ Hd _ _ _]. unfold cfuel0, nslots, cw_nslots. rewrite Nat2N.id. unfold maxdepth in Hd. lia. }
    exists s', t'. rewrite (lsuf_snoc child). auto.
  - exists ROOT, t. split; [reflexivity|].
    rewrite (lsuf_unlabelled child labels cchild_labels w c); [split; [reflexivity|cbn [length]; lia]|].
    intros Hin. unfold labels, cwc_labels in Hin. apply filter_In in Hin as [_ Hin]. rewrite Em in Hin. discriminate.
Qed.

(* ---- outputs ---------------------------------------------------------------------------------- *)
Lemma cchain_nil fuel p : chain fuel p = Ok [] -> p = 0.
Proof.
  destruct fuel; cbn [Cert.chain]; destruct (p =? 0) eqn:E; intros H; try (apply N.eqb_eq in E; exact E);
    try discriminate.
  destruct (outat p); cbn [bind] in H; try discriminate.
  destruct (Cert.chain V outat fuel (o_parent a)); cbn [bind] in H; discriminate.
Qed.

Lemma cchain_cons fuel p o r : chain fuel p = Ok (o :: r) ->
  p <> 0 /\ outat p = Ok o /\ exists fuel', chain fuel' (o_parent o) = Ok r.
Proof.
  destruct fuel; cbn [Cert.chain]; destruct (p =? 0) eqn:E; intros H; try discriminate.
  apply N.eqb_neq in E. split; [exact E|].
  destruct (outat p) as [o'| | | |]; cbn [bind] in H; try discriminate.
  destruct (Cert.chain V outat fuel (o_parent o')) as [r'| | | |] eqn:Ec; cbn [bind] in H; try discriminate.
  inversion H; subst. split; [reflexivity|]. eauto.
Qed.

Lemma coutputs_at w s : walk ROOT (lsuf w) = Some s ->
  exists st os, cst_at sget s = Ok st /\ chain (S nouts) (c_outpos st) = Ok os
                /\ map (fun o => (o_length o, o_value o)) os = sufpats w
                /\ (length os <= nouts)%nat.
Proof.
  intros Hw. pose proof (cnode_ok _ _ Hw) as NF.
  destruct NF as [_ _ _ (p & os & Hp & Hc & Hm & Hl) _].
  unfold outposof, cwc_outposof in Hp. destruct (cst_at sget s) as [st| | | |] eqn:Est; cbn [bind] in Hp; try discriminate.
  inversion Hp; subst p. exists st, os. repeat split; auto.
  unfold outs_match in Hm. rewrite Hm.
  symmetry. apply (sufpats_lsuf V child cwc_plen pvs). intros p v Hin. apply (cpats_nodes p v Hin).
Qed.

(* ---- the decoder on encoded text --------------------------------------------------------------- *)
Definition bo (w : list N) : nat := length (encode_utf8 w).

Lemma bo_snoc w c : bo (w ++ [c]) = (bo w + length (encode_char c))%nat.
Proof. unfold bo. rewrite encode_utf8_app, app_length. cbn [encode_utf8 flat_map]. rewrite app_nil_r. reflexivity. Qed.

Lemma dec_enc c cs pulled : scalar c ->
  dec_next (encode_utf8 (c :: cs)) pulled
  = Ok (Some ((pulled + length (encode_char c))%nat, c, encode_utf8 cs, (pulled + length (encode_char c))%nat)).
Proof. intros Hc. change (encode_utf8 (c :: cs)) with (encode_char c ++ encode_utf8 cs). apply dec_next_encode_char. exact Hc. Qed.

Lemma enc_cons_length c cs : (length (encode_utf8 cs) < length (encode_utf8 (c :: cs)))%nat.
Proof.
  change (encode_utf8 (c :: cs)) with (encode_char c ++ encode_utf8 cs). rewrite app_length. pose proof (encode_char_nonempty c).
  destruct (encode_char c); [congruence|cbn [length]; lia].
Qed.

Lemma dec_shrinks rest p pos c rest' p' :
  dec_next rest p = Ok (Some (pos, c, rest', p')) -> (length rest' < length rest)%nat.
Proof.
  intros H. apply dec_next_pull in H as (_ & k & Hk & _ & -> & Hl). rewrite skipn_length. lia.
Qed.

(* once the fuel exceeds the number of remaining bytes its value does not matter *)
Lemma cnos_scan_fuel : forall n rest, (length rest <= n)%nat -> forall fuel p s t, (length rest < fuel)%nat ->
  cnos_scan V sget oget tget nslots fuel rest p s t = cnos_scan V sget oget tget nslots (S (length rest)) rest p s t.
Proof.
  induction n as [|n IH]; intros rest Hn fuel p s t Hf; (destruct fuel as [|f]; [lia|]); cbn [cnos_scan];
    destruct (dec_next rest p) as [[[[[pos c] rest'] p']|]| | | |] eqn:Ed; cbn [bind]; try reflexivity;
    pose proof (dec_shrinks _ _ _ _ _ _ Ed) as Hsh; try lia.
  destruct (cw_next_state sget tget nslots s c t) as [[s' t']| | | |]; cbn [bind]; try reflexivity.
  destruct (cst_at sget s') as [st| | | |]; cbn [bind]; try reflexivity.
  destruct (c_outpos st =? 0); [|reflexivity].
  rewrite (IH rest' ltac:(lia) f) by lia. rewrite (IH rest' ltac:(lia) (length rest)) by lia. reflexivity.
Qed.

Lemma cfind_scan_fuel : forall n rest, (length rest <= n)%nat -> forall fuel p s t, (length rest < fuel)%nat ->
  cfind_scan V sget oget tget nslots fuel rest p s t = cfind_scan V sget oget tget nslots (S (length rest)) rest p s t.
Proof.
  induction n as [|n IH]; intros rest Hn fuel p s t Hf; (destruct fuel as [|f]; [lia|]); cbn [cfind_scan];
    destruct (dec_next rest p) as [[[[[pos c] rest'] p']|]| | | |] eqn:Ed; cbn [bind]; try reflexivity;
    pose proof (dec_shrinks _ _ _ _ _ _ Ed) as Hsh; try lia.
  destruct (cw_next_state sget tget nslots s c t) as [[s' t']| | | |]; cbn [bind]; try reflexivity.
  destruct (cst_at sget s') as [st| | | |]; cbn [bind]; try reflexivity.
  destruct (c_outpos st =? 0); [|reflexivity].
  rewrite (IH rest' ltac:(lia) f) by lia. rewrite (IH rest' ltac:(lia) (length rest)) by lia. reflexivity.
Qed.

Lemma covl_scan_fuel : forall n rest, (length rest <= n)%nat -> forall fuel p s pos0 t, (length rest < fuel)%nat ->
  covl_scan V sget oget tget nslots fuel rest p s pos0 t = covl_scan V sget oget tget nslots (S (length rest)) rest p s pos0 t.
Proof.
  induction n as [|n IH]; intros rest Hn fuel p s pos0 t Hf; (destruct fuel as [|f]; [lia|]); cbn [covl_scan];
    destruct (dec_next rest p) as [[[[[pos c] rest'] p']|]| | | |] eqn:Ed; cbn [bind]; try reflexivity;
    pose proof (dec_shrinks _ _ _ _ _ _ Ed) as Hsh; try lia.
  destruct (cw_next_state sget tget nslots s c t) as [[s' t']| | | |]; cbn [bind]; try reflexivity.
  destruct (cst_at sget s') as [st| | | |]; cbn [bind]; try reflexivity.
  destruct (c_outpos st =? 0); [|reflexivity].
  rewrite (IH rest' ltac:(lia) f) by lia. rewrite (IH rest' ltac:(lia) (length rest)) by lia. reflexivity.
Qed.

(* ---- FindOverlappingNoSuffixIterator ------------------------------------------------------------ *)
Notation cnos_next' := (cnos_next V sget oget tget nslots).
Notation mk := (BwCert.mk V).

Definition cnos_it_at (rest : list N) (pulled : nat) (s t : N) : nos_it :=
  {| x_src := {| s_rest := rest; s_pulled := pulled |}; x_state := s; x_ticks := t |}.

Lemma firstn_snoc_exact (w : list N) c cs : firstn (S (length w)) (w ++ c :: cs) = w ++ [c].
Proof.
  replace (w ++ c :: cs) with ((w ++ [c]) ++ cs) by (rewrite <- app_assoc; reflexivity).
  replace (S (length w)) with (length (w ++ [c])) by (rewrite app_length; cbn [length]; lia).
  rewrite firstn_app, Nat.sub_diag, firstn_all. cbn [firstn]. apply app_nil_r.
Qed.

Lemma cnos_run h : forall cs w s t k,
  h = w ++ cs -> Forall scalar cs -> walk ROOT (lsuf w) = Some s -> (length cs < k)%nat ->
  (N.to_nat t + length (lsuf w) <= 2 * length w)%nat ->
  exists it', drain V cnos_next' k (cnos_it_at (encode_utf8 cs) (bo w) s t)
              = Ok (flat_map (fun i => first1 (map (mk (bo (firstn i h))) (sufpats (firstn i h))))
                             (seq (S (length w)) (length cs)), it')
              /\ (N.to_nat (x_ticks it') <= 2 * length h)%nat.
Proof.
  induction cs as [|c cs IH]; intros w s t k Hh Hs Hw Hk Hpot.
  - destruct k as [|k]; [cbn in Hk; lia|]. cbn [drain]. unfold cnos_next, cnos_it_at. cbn. eexists. split; [reflexivity|].
    cbn [x_ticks]. rewrite Hh, app_nil_r. lia.
  - inversion Hs as [|? ? Hc Hs']; subst.
    destruct (cstep w c s t Hw) as (s' & t' & Hstep & Hw' & Htk).
    destruct (coutputs_at (w ++ [c]) s' Hw') as (st & os & Hst & Hch & Hmap & _).
    assert (Hh' : w ++ c :: cs = (w ++ [c]) ++ cs) by (rewrite <- app_assoc; reflexivity).
    assert (Hlen : length (w ++ [c]) = S (length w)) by (rewrite app_length; cbn [length]; lia).
    destruct k as [|k]; [lia|].
    cbn [length seq flat_map]. rewrite firstn_snoc_exact, <- Hmap.
    assert (Hscan : forall f, (length (encode_utf8 (c :: cs)) <= f)%nat ->
      cnos_scan V sget oget tget nslots (S f) (encode_utf8 (c :: cs)) (bo w) s t
      = (if c_outpos st =? 0 then cnos_next' (cnos_it_at (encode_utf8 cs) (bo (w ++ [c])) s' t')
         else out <- cout_at V oget (c_outpos st) ;;
              Ok (Some {| m_length := o_length out; m_end := bo (w ++ [c]); m_value := o_value out |},
                  cnos_it_at (encode_utf8 cs) (bo (w ++ [c])) s' t'))).
    { intros f Hf. cbn [cnos_scan]. rewrite (dec_enc c cs (bo w) Hc). cbn [bind]. rewrite Hstep. cbn [bind].
      rewrite Hst. cbn [bind]. rewrite <- bo_snoc. destruct (c_outpos st =? 0); [|reflexivity].
      unfold cnos_next, cnos_it_at. cbn [x_src s_rest s_pulled x_state x_ticks].
      apply (cnos_scan_fuel (length (encode_utf8 cs)) _ (le_n _)). pose proof (enc_cons_length c cs). lia. }
    destruct os as [|o os'].
    + apply cchain_nil in Hch.
      destruct (IH (w ++ [c]) s' t' (S k) Hh' Hs' Hw') as [it' [Hd Hti]]; [cbn [length] in Hk; lia|rewrite Hlen; lia|].
      exists it'. split; [|exact Hti]. cbn [map]. rewrite first1_nil. cbn [app]. rewrite Hlen in Hd. rewrite <- Hd.
      cbn [drain]. unfold cnos_next at 1. cbn [cnos_it_at x_src s_rest s_pulled x_state x_ticks].
      rewrite (Hscan _ (le_n _)). rewrite Hch, N.eqb_refl. reflexivity.
    + apply cchain_cons in Hch as (Hp & Hout & _).
      destruct (IH (w ++ [c]) s' t' k Hh' Hs' Hw') as [it' [Hd Hti]]; [cbn [length] in Hk; lia|rewrite Hlen; lia|].
      exists it'. split; [|exact Hti]. cbn [map]. rewrite first1_cons. cbn [app].
      cbn [drain]. unfold cnos_next at 1. cbn [cnos_it_at x_src s_rest s_pulled x_state x_ticks].
      rewrite (Hscan _ (le_n _)). rewrite (proj2 (N.eqb_neq _ _) Hp).
      unfold outat, cwc_outat in Hout. rewrite Hout. cbn [bind].
      rewrite Hlen in Hd. rewrite Hd. cbn [bind]. reflexivity.
Qed.

(* ---- the character-level specification with byte offsets --------------------------------------- *)
Definition to_bytes (cs : list N) (x : nat * nat * V) : nat * nat * V :=
  (bo (firstn (fst (fst x)) cs), bo (firstn (snd (fst x)) cs), snd x).

Lemma cwc_plen_bytes q : cwc_plen q = N.of_nat (length (encode_utf8 q)).
Proof.
  unfold cwc_plen. assert (forall acc, fold_left (fun a c => a + len_utf8 c) q acc = acc + N.of_nat (length (encode_utf8 q))) as H.
  { induction q as [|c q IH]; intros acc; cbn [fold_left]; [cbn; lia|].
    rewrite IH. change (encode_utf8 (c :: q)) with (encode_char c ++ encode_utf8 q).
    rewrite app_length, encode_char_length. lia. }
  rewrite H. lia.
Qed.

Lemma firstn_plus' {X} (i j : nat) (l : list X) : firstn (i + j) l = firstn i l ++ firstn j (skipn i l).
Proof.
  revert l; induction i as [|i IH]; intros l; [reflexivity|].
  destruct l as [|x l]; [cbn; rewrite firstn_nil; reflexivity|]. cbn [Nat.add firstn skipn app]. f_equal. apply IH.
Qed.

Lemma csub_length (h : list N) from e : (from <= e <= length h)%nat -> length (sub h from e) = (e - from)%nat.
Proof. intros H. unfold sub. rewrite firstn_length, skipn_length. lia. Qed.

Lemma skipn_skipn_c {T} (x y : nat) (l : list T) : skipn x (skipn y l) = skipn (x + y) l.
Proof.
  revert l; induction y as [|y IH]; intros l.
  - rewrite Nat.add_0_r. reflexivity.
  - destruct l as [|a l]; [rewrite !skipn_nil; reflexivity|].
    rewrite Nat.add_succ_r. cbn [skipn]. apply IH.
Qed.

Lemma csub_lastn (h : list N) from e (k : nat) : (from <= e <= length h)%nat -> (1 <= k <= e - from)%nat ->
  sub h (e - k) e = lastn k (sub h from e).
Proof.
  intros He Hk. unfold sub, lastn.
  rewrite firstn_length, skipn_length.
  replace (Nat.min (e - from) (length h - from)) with (e - from)%nat by lia.
  replace (e - (e - k))%nat with k by lia.
  replace (firstn (e - from) (skipn from h)) with (firstn ((e - from - k) + k) (skipn from h))
    by (f_equal; lia).
  rewrite <- firstn_skipn_comm. rewrite skipn_skipn_c.
  replace (e - from - k + from)%nat with (e - k)%nat by lia. reflexivity.
Qed.

Lemma cw_ends_at cs from e : (from <= e <= length cs)%nat ->
  map (to_bytes cs) (ends_at_from V pvs cs from e) = map (BwCert.tr V (bo (firstn e cs))) (sufpats (sub cs from e)).
Proof.
  intros He. unfold ends_at_from, Cert.sufpats. rewrite csub_length by exact He.
  rewrite !flat_map_concat_map, !concat_map, !map_map.
  f_equal. apply map_ext_in. intros k Hk. apply in_rev, in_seq in Hk.
  unfold occs_len, pats_eq. rewrite !map_map. rewrite (csub_lastn cs from e k He) by lia.
  apply map_ext_in. intros [p v] Hin. apply filter_In in Hin as [_ Heq]. cbn [fst snd] in *.
  apply list_eqb_eq in Heq. subst p. unfold to_bytes, BwCert.tr. cbn [fst snd].
  rewrite cwc_plen_bytes, Nat2N.id.
  rewrite <- (csub_lastn cs from e k He) by lia.
  assert (Hf : firstn e cs = firstn (e - k) cs ++ sub cs (e - k) e).
  { replace e with ((e - k) + k)%nat at 1 by lia. rewrite firstn_plus'. unfold sub.
    replace (e - (e - k))%nat with k by lia. reflexivity. }
  assert (Hb : bo (firstn e cs) = (bo (firstn (e - k) cs) + length (encode_utf8 (sub cs (e - k) e)))%nat).
  { unfold bo. rewrite Hf at 1. rewrite encode_utf8_app, app_length. reflexivity. }
  f_equal. f_equal. lia.
Qed.

Lemma sufpats_blen w lv : In lv (sufpats w) -> (N.to_nat (fst lv) <= bo w)%nat.
Proof.
  unfold Cert.sufpats. intros H. apply in_flat_map in H as [k [Hk Hin]].
  unfold pats_eq in Hin. apply in_map_iff in Hin as [[p v] [E Hf]].
  apply filter_In in Hf as [_ Heq]. apply list_eqb_eq in Heq. cbn [fst] in Heq. subst lv p.
  cbn [fst]. rewrite cwc_plen_bytes, Nat2N.id. destruct (lastn_suffix k w) as [x Hx].
  unfold bo. rewrite Hx at 2. rewrite encode_utf8_app, app_length. lia.
Qed.

Lemma cIn_first1 {X} (x : X) l : In x (first1 l) -> In x l.
Proof. destruct l as [|y l]; cbn; [tauto|]. intros [H|[]]. left. exact H. Qed.

Lemma enc_len_ge cs : (length cs <= length (encode_utf8 cs))%nat.
Proof. apply encode_utf8_length_ge. Qed.

Lemma cwalk_root0 : walk ROOT (lsuf []) = Some ROOT.
Proof. reflexivity. Qed.

Theorem cw_nosuffix_correct_lemma cs : Forall scalar cs ->
  cw_find_overlapping_no_suffix_iter V A (encode_utf8 cs) = Ok (map (to_bytes cs) (spec_nosuffix V pvs cs)).
Proof.
  intros Hs. unfold cw_find_overlapping_no_suffix_iter. rewrite ckind_std. unfold run_iter.
  destruct (cnos_run cs cs [] ROOT 0 (S (S (length (encode_utf8 cs)))) eq_refl Hs cwalk_root0) as [it' [Hd _]].
  { pose proof (enc_len_ge cs). lia. }
  { cbn. lia. }
  unfold nos_init, src_of. unfold cnos_it_at, bo in Hd. cbn [length encode_utf8 flat_map] in Hd.
  fold sget oget tget nslots. rewrite Hd. cbn [bind].
  rewrite triples_ok.
  - f_equal. unfold spec_nosuffix. rewrite !map_flat_map. apply flat_map_ext_in'.
    intros e He. apply in_seq in He.
    transitivity (first1 (map (BwCert.tr V (bo (firstn e cs))) (sufpats (firstn e cs)))).
    + rewrite first1_map, map_map, first1_map. apply map_ext. intros lv. apply tr_m_mk.
    + change (firstn 1 (ends_at V pvs cs e)) with (first1 (ends_at V pvs cs e)).
      rewrite <- (first1_map (to_bytes cs)). unfold ends_at. rewrite cw_ends_at by lia. rewrite sub_0. reflexivity.
  - apply Forall_forall. intros m Hm. apply in_flat_map in Hm as [e [He Hm]].
    apply cIn_first1 in Hm. apply in_map_iff in Hm as [lv [E Hl]]. subst m.
    apply sufpats_blen in Hl. cbn [BwCert.mk m_length m_end]. exact Hl.
Qed.

(* C13: the no-suffix scan of a text of n characters takes at most 2n iterations of the transition loop *)
Theorem cw_nosuffix_linear_lemma cs : Forall scalar cs ->
  exists ms it', drain V cnos_next' (S (S (length (encode_utf8 cs)))) (nos_init (encode_utf8 cs)) = Ok (ms, it')
                 /\ (N.to_nat (x_ticks it') <= 2 * length cs)%nat.
Proof.
  intros Hs. destruct (cnos_run cs cs [] ROOT 0 (S (S (length (encode_utf8 cs)))) eq_refl Hs cwalk_root0) as [it' [Hd Ht]].
  { pose proof (enc_len_ge cs). lia. }
  { cbn. lia. }
  unfold cnos_it_at, bo in Hd. cbn [length encode_utf8 flat_map] in Hd. eauto.
Qed.

(* ---- FindOverlappingIterator --------------------------------------------------------------------- *)
Notation covl_next' := (covl_next V sget oget tget nslots).
Notation mko := (BwCert.mko V).

Definition covl_it_at (rest : list N) (pulled : nat) (s : N) (pos : nat) (q t : N) : ovl_it :=
  {| v_src := {| s_rest := rest; s_pulled := pulled |}; v_state := s; v_pos := pos; v_outpos := q;
     v_ticks := t |}.

Lemma covl_pending : forall os fuel q rest pulled s pos t k ms it',
  chain fuel q = Ok os ->
  drain V covl_next' k (covl_it_at rest pulled s pos 0 t) = Ok (ms, it') ->
  drain V covl_next' (length os + k) (covl_it_at rest pulled s pos q t) = Ok (map (mko pos) os ++ ms, it').
Proof.
  induction os as [|o os IH]; intros fuel q rest pulled s pos t k ms it' Hch Hd.
  - apply cchain_nil in Hch. subst q. exact Hd.
  - apply cchain_cons in Hch as (Hq & Hout & fuel' & Hch').
    cbn [length Nat.add drain]. unfold covl_next at 1, covl_it_at. cbn [v_outpos].
    rewrite (proj2 (N.eqb_neq _ _) Hq). unfold outat, cwc_outat in Hout. rewrite Hout. cbn [bind].
    cbn [v_src v_state v_pos v_ticks].
    pose proof (IH fuel' (o_parent o) rest pulled s pos t k ms it' Hch' Hd) as H.
    unfold covl_it_at in H. rewrite H. cbn [bind map app]. reflexivity.
Qed.

Definition covl_expected (h : list N) (from n : nat) : list (mtch V) :=
  flat_map (fun i => map (mk (bo (firstn i h))) (sufpats (firstn i h))) (seq from n).

Lemma covl_run h : forall cs w s pos t,
  h = w ++ cs -> Forall scalar cs -> walk ROOT (lsuf w) = Some s ->
  (N.to_nat t + length (lsuf w) <= 2 * length w)%nat ->
  exists it', (N.to_nat (v_ticks it') <= 2 * length h)%nat /\
    forall k, (length (covl_expected h (S (length w)) (length cs)) < k)%nat ->
    drain V covl_next' k (covl_it_at (encode_utf8 cs) (bo w) s pos 0 t)
    = Ok (covl_expected h (S (length w)) (length cs), it').
Proof.
  unfold covl_expected.
  induction cs as [|c cs IH]; intros w s pos t Hh Hs Hw Hpot.
  - eexists. split; cycle 1.
    + intros k Hk. destruct k as [|k]; [cbn in Hk; lia|]. cbn [drain].
      unfold covl_next, covl_it_at. cbn. reflexivity.
    + cbn [v_ticks]. rewrite Hh, app_nil_r. lia.
  - inversion Hs as [|? ? Hc Hs']; subst.
    destruct (cstep w c s t Hw) as (s' & t' & Hstep & Hw' & Htk).
    destruct (coutputs_at (w ++ [c]) s' Hw') as (st & os & Hst & Hch & Hmap & _).
    assert (Hh' : w ++ c :: cs = (w ++ [c]) ++ cs) by (rewrite <- app_assoc; reflexivity).
    assert (Hlen : length (w ++ [c]) = S (length w)) by (rewrite app_length; cbn [length]; lia).
    cbn [length seq flat_map]. rewrite firstn_snoc_exact, <- Hmap, <- mko_mk.
    assert (Hscan : forall f, (length (encode_utf8 (c :: cs)) <= f)%nat ->
      covl_scan V sget oget tget nslots (S f) (encode_utf8 (c :: cs)) (bo w) s pos t
      = (if c_outpos st =? 0 then covl_next' (covl_it_at (encode_utf8 cs) (bo (w ++ [c])) s' (bo (w ++ [c])) 0 t')
         else out <- cout_at V oget (c_outpos st) ;;
              Ok (Some {| m_length := o_length out; m_end := bo (w ++ [c]); m_value := o_value out |},
                  covl_it_at (encode_utf8 cs) (bo (w ++ [c])) s' (bo (w ++ [c])) (o_parent out) t'))).
    { intros f Hf. cbn [covl_scan]. rewrite (dec_enc c cs (bo w) Hc). cbn [bind]. rewrite Hstep. cbn [bind].
      rewrite Hst. cbn [bind]. rewrite <- bo_snoc. destruct (c_outpos st =? 0); [|reflexivity].
      unfold covl_next, covl_it_at. cbn [v_outpos v_src s_rest s_pulled v_state v_pos v_ticks]. rewrite N.eqb_refl.
      apply (covl_scan_fuel (length (encode_utf8 cs)) _ (le_n _)). pose proof (enc_cons_length c cs). lia. }
    destruct os as [|o os'].
    + apply cchain_nil in Hch.
      destruct (IH (w ++ [c]) s' (bo (w ++ [c])) t' Hh' Hs' Hw' ltac:(rewrite Hlen; lia)) as (it' & Hti & Hd).
      exists it'. split; [exact Hti|]. intros k Hk. cbn [map app] in *. destruct k as [|k]; [lia|].
      rewrite Hlen in Hd. rewrite <- (Hd (S k)) by lia.
      cbn [drain]. unfold covl_next at 1. cbn [covl_it_at v_outpos v_src s_rest s_pulled v_state v_pos v_ticks].
      rewrite N.eqb_refl. rewrite (Hscan _ (le_n _)). rewrite Hch, N.eqb_refl. reflexivity.
    + pose proof Hch as Hch0. apply cchain_cons in Hch as (Hp & Hout & fuel' & Hch').
      destruct (IH (w ++ [c]) s' (bo (w ++ [c])) t' Hh' Hs' Hw' ltac:(rewrite Hlen; lia)) as (it' & Hti & Hd).
      exists it'. split; [exact Hti|]. intros k Hk. rewrite app_length, map_length in Hk. cbn [length] in Hk.
      destruct k as [|k]; [lia|].
      cbn [drain]. unfold covl_next at 1. cbn [covl_it_at v_outpos v_src s_rest s_pulled v_state v_pos v_ticks].
      rewrite N.eqb_refl. rewrite (Hscan _ (le_n _)). rewrite (proj2 (N.eqb_neq _ _) Hp).
      unfold outat, cwc_outat in Hout. rewrite Hout. cbn [bind].
      rewrite Hlen in Hd.
      replace k with (length os' + (k - length os'))%nat by lia.
      pose proof (covl_pending os' fuel' (o_parent o) (encode_utf8 cs) (bo (w ++ [c])) s' (bo (w ++ [c])) t'
                               (k - length os') _ it' Hch' (Hd (k - length os')%nat ltac:(lia))) as H.
      rewrite H. cbn [bind map app]. reflexivity.
Qed.

Lemma csufpats_bound w : (length (sufpats w) <= nouts)%nat.
Proof.
  pose proof (lsuf_inT child w) as Hin. unfold Cert.inT in Hin.
  destruct (walk ROOT (lsuf w)) as [s|] eqn:E; [|discriminate].
  destruct (coutputs_at w s E) as (st & os & _ & _ & Hmap & Hl).
  rewrite <- Hmap, map_length. exact Hl.
Qed.

Lemma cflat_map_length_le {X Y} (f : X -> list Y) (b : nat) l :
  (forall x, In x l -> (length (f x) <= b)%nat) -> (length (flat_map f l) <= length l * b)%nat.
Proof.
  induction l as [|x l IH]; intros H; [cbn; lia|]. cbn [flat_map length]. rewrite app_length.
  pose proof (H x (or_introl eq_refl)). pose proof (IH (fun y Hy => H y (or_intror Hy))). lia.
Qed.

Theorem cw_overlapping_correct_lemma cs : Forall scalar cs ->
  cw_find_overlapping_iter V A (encode_utf8 cs) = Ok (map (to_bytes cs) (spec_overlapping V pvs cs)).
Proof.
  intros Hs. unfold cw_find_overlapping_iter. rewrite ckind_std. unfold run_iter.
  destruct (covl_run cs cs [] ROOT 0%nat 0 eq_refl Hs cwalk_root0 ltac:(cbn; lia)) as [it' [_ Hd]].
  unfold ovl_init, src_of. unfold covl_it_at, bo in Hd. cbn [length encode_utf8 flat_map] in Hd.
  fold sget oget tget nslots. rewrite Hd.
  - cbn [bind]. rewrite triples_ok.
    + f_equal. unfold spec_overlapping, covl_expected. rewrite !map_flat_map. apply flat_map_ext_in'.
      intros e He. apply in_seq in He. rewrite map_map.
      unfold ends_at. rewrite cw_ends_at by lia. rewrite sub_0.
      apply map_ext. intros lv. apply tr_m_mk.
    + apply Forall_forall. intros m Hm. apply in_flat_map in Hm as [e [He Hm]].
      apply in_map_iff in Hm as [lv [E Hl]]. subst m.
      apply sufpats_blen in Hl. cbn [BwCert.mk m_length m_end]. exact Hl.
  - unfold covl_expected.
    pose proof (cflat_map_length_le (fun i => map (mk (bo (firstn i cs))) (sufpats (firstn i cs))) nouts (seq 1 (length cs))) as Hle.
    rewrite seq_length in Hle.
    assert (forall x, In x (seq 1 (length cs)) -> (length (map (mk (bo (firstn x cs))) (sufpats (firstn x cs))) <= nouts)%nat) as Hx.
    { intros x _. rewrite map_length. apply csufpats_bound. }
    specialize (Hle Hx). pose proof (enc_len_ge cs). fold nouts. nia.
Qed.

(* C13: the overlapping scan of a text of n characters takes at most 2n iterations of the transition loop *)
Theorem cw_overlapping_linear_lemma cs : Forall scalar cs ->
  exists ms it', drain V covl_next' (S (S (length (encode_utf8 cs)) * S nouts)) (ovl_init (encode_utf8 cs)) = Ok (ms, it')
                 /\ (N.to_nat (v_ticks it') <= 2 * length cs)%nat.
Proof.
  intros Hs. destruct (covl_run cs cs [] ROOT 0%nat 0 eq_refl Hs cwalk_root0 ltac:(cbn; lia)) as [it' [Ht Hd]].
  unfold covl_it_at, bo in Hd. cbn [length encode_utf8 flat_map] in Hd. eexists. exists it'. split; [|exact Ht]. apply Hd.
  unfold covl_expected.
  pose proof (cflat_map_length_le (fun i => map (mk (bo (firstn i cs))) (sufpats (firstn i cs))) nouts (seq 1 (length cs))) as Hle.
  rewrite seq_length in Hle.
  assert (forall x, In x (seq 1 (length cs)) -> (length (map (mk (bo (firstn x cs))) (sufpats (firstn x cs))) <= nouts)%nat) as Hx.
  { intros x _. rewrite map_length. apply csufpats_bound. }
  specialize (Hle Hx). pose proof (enc_len_ge cs). fold nouts. nia.
Qed.

(* ---- FindIterator ------------------------------------------------------------------------------- *)
Notation cfind_next' := (cfind_next V sget oget tget nslots).

Lemma bo_app a b : bo (a ++ b) = (bo a + bo b)%nat.
Proof. unfold bo. rewrite encode_utf8_app, app_length. reflexivity. Qed.

Lemma cskipn_app_exact {X} (a b : list X) : skipn (length a) (a ++ b) = b.
Proof. rewrite skipn_app, skipn_all, Nat.sub_diag. reflexivity. Qed.

Lemma cfirstn_app_exact {X} (a b : list X) : firstn (length a) (a ++ b) = a.
Proof. rewrite firstn_app, Nat.sub_diag, firstn_all. cbn [firstn]. apply app_nil_r. Qed.

Lemma map_eq_nil_iff {X Y Z} (f : X -> Z) (g : Y -> Z) l1 l2 : map f l1 = map g l2 -> (l1 = [] <-> l2 = []).
Proof.
  intros H. apply (f_equal (@length Z)) in H. rewrite !map_length in H.
  split; intros ->; [destruct l2|destruct l1]; cbn in H; try reflexivity; lia.
Qed.

Lemma cfind_scan_spec h w0 : forall cs w s t fuel,
  h = w0 ++ w ++ cs -> Forall scalar cs -> walk ROOT (lsuf w) = Some s ->
  (length (encode_utf8 cs) < fuel)%nat ->
  (N.to_nat t + length (lsuf w) <= 2 * (length w0 + length w))%nat ->
  exists r it', cfind_scan V sget oget tget nslots fuel (encode_utf8 cs) (bo w0 + bo w) s t = Ok (r, it') /\
    match first_end V pvs h (length w0) (seq (S (length w0 + length w)) (length cs)) with
    | None => r = None /\ (N.to_nat (f_ticks it') <= 2 * length h)%nat
    | Some x => exists m, r = Some m /\ BwCert.tr_m V m = to_bytes h x
                          /\ (N.to_nat (m_length m) <= m_end m)%nat
                          /\ (length w0 + length w < snd (fst x) <= length h)%nat
                          /\ s_rest (f_src it') = encode_utf8 (skipn (snd (fst x)) h)
                          /\ s_pulled (f_src it') = bo (firstn (snd (fst x)) h)
                          /\ (N.to_nat (f_ticks it') <= 2 * snd (fst x))%nat
    end.
Proof.
  induction cs as [|c cs IH]; intros w s t fuel Hh Hs Hw Hf Hphi.
  - destruct fuel as [|fuel]; [cbn in Hf; lia|]. cbn [cfind_scan length seq first_end encode_utf8 flat_map dec_next bind].
    eexists. eexists. split; [reflexivity|]. split; [reflexivity|].
    cbn [f_ticks]. subst h. rewrite !app_length. cbn [length]. lia.
  - inversion Hs as [|? ? Hc Hs']; subst.
    destruct (cstep w c s t Hw) as (s' & t' & Hstep & Hw' & Htk).
    destruct (coutputs_at (w ++ [c]) s' Hw') as (st & os & Hst & Hch & Hmap & _).
    set (h := w0 ++ w ++ c :: cs) in *.
    assert (Hh' : h = w0 ++ (w ++ [c]) ++ cs) by (unfold h; rewrite <- !app_assoc; reflexivity).
    assert (Hlen : length (w ++ [c]) = S (length w)) by (rewrite app_length; cbn [length]; lia).
    assert (Hhl : length h = (length w0 + length w + S (length cs))%nat).
    { unfold h. rewrite !app_length. cbn [length]. lia. }
    assert (Hsub : sub h (length w0) (S (length w0 + length w)) = w ++ [c]).
    { unfold sub. rewrite Hh' at 1. rewrite cskipn_app_exact.
      replace (S (length w0 + length w) - length w0)%nat with (length (w ++ [c])) by lia.
      apply cfirstn_app_exact. }
    assert (Hfirst : firstn (S (length w0 + length w)) h = w0 ++ w ++ [c]).
    { replace (S (length w0 + length w)) with (length (w0 ++ w ++ [c])) by (rewrite !app_length; cbn [length]; lia).
      unfold h. replace (w0 ++ w ++ c :: cs) with ((w0 ++ w ++ [c]) ++ cs) by (rewrite <- !app_assoc; reflexivity).
      apply cfirstn_app_exact. }
    assert (Hbo : bo (firstn (S (length w0 + length w)) h) = (bo w0 + bo w + length (encode_char c))%nat).
    { rewrite Hfirst, !bo_app. unfold bo at 3. cbn [encode_utf8 flat_map]. rewrite app_nil_r. lia. }
    pose proof (cw_ends_at h (length w0) (S (length w0 + length w)) ltac:(lia)) as Hends.
    rewrite Hsub, <- Hmap in Hends.
    destruct fuel as [|fuel]; [lia|].
    cbn [length seq first_end cfind_scan]. rewrite (dec_enc c cs _ Hc). cbn [bind].
    rewrite Hstep. cbn [bind]. rewrite Hst. cbn [bind].
    destruct os as [|o os'].
    + apply cchain_nil in Hch. rewrite Hch, N.eqb_refl. cbn [map] in Hends.
      apply map_eq_nil in Hends. rewrite Hends.
      destruct (IH (w ++ [c]) s' t' fuel Hh' Hs' Hw') as (r & it' & Hr & Hm).
      { pose proof (enc_cons_length c cs). lia. }
      { rewrite Hlen. lia. }
      rewrite bo_app in Hr. unfold bo at 3 in Hr. cbn [encode_utf8 flat_map] in Hr. rewrite app_nil_r in Hr.
      rewrite Nat.add_assoc in Hr. rewrite Hlen in Hm.
      replace (length w0 + S (length w))%nat with (S (length w0 + length w)) in Hm by lia.
      exists r, it'. split; [exact Hr|].
      destruct (first_end V pvs h (length w0) (seq (S (S (length w0 + length w))) (length cs))) as [x|]; [|exact Hm].
      destruct Hm as (m & H1 & H2 & H3 & H4 & H5 & H6 & H7). exists m.
      split; [exact H1|]. split; [exact H2|]. split; [exact H3|]. split; [lia|]. split; [assumption|]. split; assumption.
    + apply cchain_cons in Hch as (Hp & Hout & _).
      rewrite (proj2 (N.eqb_neq _ _) Hp). unfold outat, cwc_outat in Hout. rewrite Hout. cbn [bind].
      cbn [map] in Hends.
      destruct (ends_at_from V pvs h (length w0) (S (length w0 + length w))) as [|x xs] eqn:Ee; [discriminate|].
      cbn [map] in Hends.
      assert (Hx : to_bytes h x = BwCert.tr V (bo (firstn (S (length w0 + length w)) h)) (o_length o, o_value o)).
      { assert (forall (a b : nat * nat * V) la lb, a :: la = b :: lb -> a = b) as Hhd by (intros a b la lb E; congruence).
        exact (Hhd _ _ _ _ Hends). }
      assert (Hxe : snd (fst x) = S (length w0 + length w)).
      { assert (In x (ends_at_from V pvs h (length w0) (S (length w0 + length w)))) as Hin by (rewrite Ee; left; reflexivity).
        unfold ends_at_from in Hin. apply in_flat_map in Hin as (l & _ & Hin). unfold occs_len in Hin.
        apply in_map_iff in Hin as (pv & <- & _). reflexivity. }
      eexists. eexists. split; [reflexivity|]. eexists. split; [reflexivity|].
      rewrite Hxe. cbn [f_src s_rest s_pulled].
      split.
      { rewrite Hx. unfold BwCert.tr_m, BwCert.tr. cbn [m_end m_length m_value fst snd]. rewrite Hbo.
        apply f_equal2; [apply f_equal2; lia|reflexivity]. }
      split.
      { cbn [m_length m_end].
        assert (In (o_length o, o_value o) (sufpats (w ++ [c]))) as Hin by (rewrite <- Hmap; left; reflexivity).
        apply sufpats_blen in Hin. cbn [fst] in Hin. rewrite bo_app in Hin. unfold bo at 2 in Hin.
        cbn [encode_utf8 flat_map] in Hin. rewrite app_nil_r in Hin. lia. }
      split; [lia|]. split; [|split; [lia|cbn [f_ticks]; lia]].
      replace (S (length w0 + length w)) with (length (w0 ++ w ++ [c])) by (rewrite !app_length; cbn [length]; lia).
      unfold h. replace (w0 ++ w ++ c :: cs) with ((w0 ++ w ++ [c]) ++ cs) by (rewrite <- !app_assoc; reflexivity).
      rewrite cskipn_app_exact. reflexivity.
Qed.

Definition cfind_it_at (rest : list N) (pulled : nat) (t : N) : find_it :=
  {| f_src := {| s_rest := rest; s_pulled := pulled |}; f_ticks := t |}.

Lemma cfind_run h : Forall scalar h -> forall n from k t,
  (from <= length h)%nat -> (length h - from < n)%nat -> (n <= k)%nat ->
  (N.to_nat t <= 2 * from)%nat ->
  exists ms it', drain V cfind_next' k (cfind_it_at (encode_utf8 (skipn from h)) (bo (firstn from h)) t) = Ok (ms, it')
                 /\ map (BwCert.tr_m V) ms = map (to_bytes h) (spec_find_from V n pvs h from)
                 /\ Forall (fun m => (N.to_nat (m_length m) <= m_end m)%nat) ms
                 /\ (N.to_nat (f_ticks it') <= 2 * length h)%nat.
Proof.
  intros Hs. induction n as [|n IH]; intros from k t Hf Hn Hk Hphi; [lia|].
  destruct k as [|k]; [lia|].
  assert (Hh : h = firstn from h ++ [] ++ skipn from h) by (cbn [app]; symmetry; apply firstn_skipn).
  assert (Hl0 : length (firstn from h) = from) by (rewrite firstn_length; lia).
  assert (Hss : Forall scalar (skipn from h)).
  { rewrite Forall_forall in *. intros x Hx. apply Hs. rewrite <- (firstn_skipn from h). apply in_or_app. right. exact Hx. }
  destruct (cfind_scan_spec h (firstn from h) (skipn from h) [] ROOT t (S (length (encode_utf8 (skipn from h)))) Hh Hss cwalk_root0)
    as (r & it1 & Hr & Hm); [lia|rewrite Hl0; cbn; lia|].
  rewrite Hl0 in Hm. cbn [length] in Hm. rewrite Nat.add_0_r in Hm. rewrite skipn_length in Hm.
  unfold bo at 2 in Hr. cbn [encode_utf8 flat_map length] in Hr. rewrite Nat.add_0_r in Hr.
  cbn [drain spec_find_from]. unfold cfind_next at 1, cfind_it_at. cbn [f_src s_rest s_pulled f_ticks].
  rewrite Hr. cbn [bind].
  destruct (first_end V pvs h from (seq (S from) (length h - from))) as [[[st e] v]|].
  - destruct Hm as (m & H1 & H2 & H3 & H4 & H5 & H6 & H7). subst r. cbn [fst snd] in H4, H5, H6, H7.
    destruct (IH e k (f_ticks it1)) as (ms & it' & Hd & Hsp & Hall & Ht); try lia.
    destruct it1 as [[rest1 p1] t1]. cbn [f_src s_rest s_pulled f_ticks] in *. subst rest1 p1.
    unfold cfind_it_at in Hd. rewrite Hd. cbn [bind].
    exists (m :: ms), it'. split; [reflexivity|]. split; [|split; [constructor; assumption|exact Ht]].
    cbn [map]. rewrite H2, Hsp. reflexivity.
  - destruct Hm as [-> Ht]. exists [], it1. repeat split; [constructor|exact Ht].
Qed.

Theorem cw_find_correct_lemma cs : Forall scalar cs ->
  cw_find_iter V A (encode_utf8 cs) = Ok (map (to_bytes cs) (spec_find V pvs cs)).
Proof.
  intros Hs. unfold cw_find_iter. rewrite ckind_std. unfold run_iter.
  destruct (cfind_run cs Hs (S (length cs)) 0%nat (S (S (length (encode_utf8 cs)))) 0) as (ms & it' & Hd & Hsp & Hall & _); try lia.
  { pose proof (enc_len_ge cs). lia. }
  unfold find_init, src_of. unfold cfind_it_at in Hd. change (bo (firstn 0 cs)) with 0%nat in Hd. change (skipn 0 cs) with cs in Hd.
  fold sget oget tget nslots. rewrite Hd. cbn [bind]. rewrite (triples_ok V ms Hall).
  rewrite Hsp. reflexivity.
Qed.

Theorem cw_find_linear_lemma cs : Forall scalar cs ->
  exists ms it', drain V cfind_next' (S (S (length (encode_utf8 cs)))) (find_init (encode_utf8 cs)) = Ok (ms, it')
                 /\ (N.to_nat (f_ticks it') <= 2 * length cs)%nat.
Proof.
  intros Hs. destruct (cfind_run cs Hs (S (length cs)) 0%nat (S (S (length (encode_utf8 cs)))) 0) as (ms & it' & Hd & _ & _ & Ht); try lia.
  { pose proof (enc_len_ge cs). lia. }
  unfold cfind_it_at in Hd. change (bo (firstn 0 cs)) with 0%nat in Hd. change (skipn 0 cs) with cs in Hd. eauto.
Qed.

End CwCert.
