(* BuildRanges.v — C09 without the representability hypothesis: EVERY automaton the model's builders
   return is representable in the Rust types (every stored field fits its integer type, vector
   lengths below 2^32, values are the registered ones), so the round-trip theorems of
   Proofs/SerProps.v apply to every built automaton.  The unbounded-N model has an explicit guard
   wherever the Rust code converts or checks a width; these invariants carry the guards through
   every write. *)
From DV Require Import Model.Base Model.Nfa Model.Helper Model.BwBuild Model.Ser Model.Cert
     Proofs.SerProps Proofs.BuildSafe.
From Coq Require Import ZifyN ZifyNat ZifyBool.
Local Open Scope N_scope.
Ltac Zify.zify_post_hook ::= Z.div_mod_to_equations.

Ltac bstep H :=
  match type of H with
  | bind ?e _ = Ok _ => let E := fresh "E" in destruct e eqn:E; cbn [bind] in H; try discriminate
  end.

(* ---- the packed word ------------------------------------------------------------------------------ *)
Lemma pk_word_bound x : pk_a x <= U24_MAX -> x < 4294967296.
Proof.
  unfold pk_a, U24_MAX. rewrite N.shiftr_div_pow2. change (2 ^ 8) with 256. intros H.
  pose proof (N.div_mod x 256 ltac:(discriminate)). pose proof (N.mod_lt x 256 ltac:(discriminate)). lia.
Qed.

(* ---- NFA level: what the output records hold ------------------------------------------------------ *)
Section NfaOut.
Variable V : Type.
Variable lbytes : N -> N.
Variable okv : V -> Prop.

Definition PO (st : nstate V) : Prop :=
  forall v len, n_output st = Some (v, len) -> len <= U32_MAX /\ okv v.

Lemma PO_default : PO (nstate_default V).
Proof. intros v len H. discriminate. Qed.

Lemma add_walk_PO : forall rest (n : nfa V) sid n' fin, AllSt V PO n ->
  add_walk V n sid rest = Ok (n', fin) -> AllSt V PO n'.
Proof.
  induction rest as [|c rest IH]; intros n sid n' fin HA H; cbn [add_walk] in H.
  - inversion H; subst. exact HA.
  - bstep H. destruct (is_leftmost_first (n_kind n) && isSome (n_output a)); [inversion H; subst; exact HA|].
    destruct (edge_get (n_edges a) c) as [nx|]; [exact (IH _ _ _ _ HA H)|].
    destruct (U32_MAX <? n_nstates n); [discriminate|].
    refine (IH _ _ _ _ _ H). apply AllSt_push; [|exact PO_default]. apply AllSt_set; [exact HA|].
    intros v len Ho. cbn [n_output] in Ho. exact (HA sid a (nfa_get_some _ _ _ _ E) v len Ho).
Qed.

Lemma add_PO (n : nfa V) p v n' : okv v -> AllSt V PO n -> add V lbytes n p v = Ok n' -> AllSt V PO n'.
Proof.
  intros Hv HA H. unfold add in H.
  destruct (U32_MAX <? _) eqn:Eplen; [discriminate|]. destruct (_ =? 0); [discriminate|].
  bstep H. destruct a as [n1 fin]. pose proof (add_walk_PO _ _ _ _ _ HA E) as H1.
  destruct fin as [sid|].
  - bstep H. destruct (isSome (n_output a)); [discriminate|]. inversion H; subst. clear H.
    intros i st Hg. cbn [n_states] in Hg. revert i st Hg. apply AllSt_set; [exact H1|].
    intros v0 len Ho. cbn [n_output] in Ho. inversion Ho; subst. split; [apply N.ltb_ge in Eplen; exact Eplen|exact Hv].
  - unfold check_shadowed_duplicate in H. bstep H. bstep H. destruct (_ || _); [discriminate|].
    inversion H; subst. exact H1.
Qed.

Lemma add_all_PO : forall pvs (n n' : nfa V), (forall p v, In (p, v) pvs -> okv v) -> AllSt V PO n ->
  add_all V lbytes n pvs = Ok n' -> AllSt V PO n'.
Proof.
  induction pvs as [|[p v] r IH]; intros n n' Hv HA H; cbn [add_all] in H; [inversion H; subst; exact HA|].
  bstep H. apply (IH a n'); [intros q w Hq; apply (Hv q w); right; exact Hq| |exact H].
  exact (add_PO n p v a (Hv p v (or_introl eq_refl)) HA E).
Qed.

Lemma set_fail_PO (n : nfa V) i f n' : AllSt V PO n -> set_fail V n i f = Ok n' -> AllSt V PO n'.
Proof.
  intros HA H. unfold set_fail in H. bstep H. inversion H; subst. apply AllSt_set; [exact HA|].
  intros v len Ho. cbn [n_output] in Ho. exact (HA i a (nfa_get_some _ _ _ _ E) v len Ho).
Qed.

Lemma fails_edges_PO : forall es (n : nfa V) sid sf q n' q', AllSt V PO n ->
  fails_edges V n sid sf es q = Ok (n', q') -> AllSt V PO n'.
Proof.
  induction es as [|[c ch] es IH]; intros n sid sf q n' q' HA H; cbn [fails_edges] in H.
  - inversion H; subst. exact HA.
  - bstep H. destruct (ch =? sid); [discriminate|]. bstep H. exact (IH _ _ _ _ _ _ (set_fail_PO _ _ _ _ HA E0) H).
Qed.
Lemma fails_bfs_PO : forall fuel (n : nfa V) pending done n' q, AllSt V PO n ->
  fails_bfs V fuel n pending done = Ok (n', q) -> AllSt V PO n'.
Proof.
  induction fuel as [|fuel IH]; intros n pending done n' q HA H; destruct pending as [|sid pending]; cbn [fails_bfs] in H;
    try (inversion H; subst; exact HA); try discriminate.
  bstep H. bstep H. destruct a0 as [n1 news]. exact (IH _ _ _ _ _ (fails_edges_PO _ _ _ _ _ _ _ HA E0) H).
Qed.
Lemma fails_edges_lm_PO : forall es (n : nfa V) sid sf q n' q', AllSt V PO n ->
  fails_edges_lm V n sid sf es q = Ok (n', q') -> AllSt V PO n'.
Proof.
  induction es as [|[c ch] es IH]; intros n sid sf q n' q' HA H; cbn [fails_edges_lm] in H.
  - inversion H; subst. exact HA.
  - bstep H. destruct (ch =? sid); [discriminate|]. bstep H. exact (IH _ _ _ _ _ _ (set_fail_PO _ _ _ _ HA E0) H).
Qed.
Lemma fails_bfs_lm_PO : forall fuel (n : nfa V) pending done n' q, AllSt V PO n ->
  fails_bfs_lm V fuel n pending done = Ok (n', q) -> AllSt V PO n'.
Proof.
  induction fuel as [|fuel IH]; intros n pending done n' q HA H; destruct pending as [|sid pending]; cbn [fails_bfs_lm] in H;
    try (inversion H; subst; exact HA); try discriminate.
  bstep H. bstep H. bstep H. destruct a1 as [n1 news].
  exact (IH _ _ _ _ _ (fails_edges_lm_PO _ _ _ _ _ _ _ (set_fail_PO _ _ _ _ HA E0) E1) H).
Qed.

(* the output table: at most 2^32 - 1 records, each with a registered value, a u32 length *)
Definition OutOK (n : nfa V) : Prop :=
  N.of_nat (length (n_outputs n)) <= U32_MAX
  /\ Forall (fun o => o_length o <= U32_MAX /\ okv (o_value o)) (n_outputs n).

Lemma outputs_loop_PO : forall q (n n' : nfa V), AllSt V PO n -> OutOK n -> outputs_loop V n q = Ok n' -> OutOK n'.
Proof.
  induction q as [|sid q IH]; intros n n' HA HO H; cbn [outputs_loop] in H; [inversion H; subst; exact HO|].
  bstep H. destruct (n_fail a =? sid); [discriminate|]. bstep H.
  destruct (n_output a) as [[v len]|] eqn:Eo.
  - destruct (U32_MAX <? _) eqn:Eg; [discriminate|]. refine (IH _ _ _ _ H); clear H IH.
    + intros i st Hg. cbn [n_states] in Hg. revert i st Hg. apply AllSt_set; [exact HA|].
      intros v0 l0 Ho. cbn [n_output] in Ho. inversion Ho; subst.
      exact (HA sid a (nfa_get_some _ _ _ _ E) v0 l0 Eo).
    + destruct HO as [HL HF]. unfold OutOK. cbn [n_outputs nfa_set]. rewrite app_length. cbn [length]. split.
      * apply N.ltb_ge in Eg. lia.
      * apply Forall_app. split; [exact HF|]. constructor; [|constructor]. cbn [o_length o_value].
        exact (HA sid a (nfa_get_some _ _ _ _ E) v len Eo).
  - refine (IH _ _ _ _ H); clear H IH.
    + apply AllSt_set; [exact HA|]. intros v0 l0 Ho. cbn [n_output] in Ho. discriminate.
    + exact HO.
Qed.

Lemma finish_nfa_PO (n n' : nfa V) : AllSt V PO n -> n_outputs n = [] -> finish_nfa V n = Ok n' -> OutOK n'.
Proof.
  intros HA Ho H. unfold finish_nfa in H. bstep H. destruct a as [n1 q].
  assert (H1 : AllSt V PO n1 /\ n_outputs n1 = []).
  { assert (Hso : forall (m : nfa V) i f m', set_fail V m i f = Ok m' -> n_outputs m' = n_outputs m).
    { intros m i f m' Hs. unfold set_fail in Hs. bstep Hs. inversion Hs. reflexivity. }
    assert (Hfe : forall es (m : nfa V) sid sf q m' q', fails_edges V m sid sf es q = Ok (m', q') -> n_outputs m' = n_outputs m).
    { induction es as [|[c ch] es IHe]; intros m sid sf q0 m' q' Hs; cbn [fails_edges] in Hs; [inversion Hs; reflexivity|].
      bstep Hs. destruct (ch =? sid); [discriminate|]. bstep Hs. rewrite (IHe _ _ _ _ _ _ Hs). exact (Hso _ _ _ _ E1). }
    assert (Hfel : forall es (m : nfa V) sid sf q m' q', fails_edges_lm V m sid sf es q = Ok (m', q') -> n_outputs m' = n_outputs m).
    { induction es as [|[c ch] es IHe]; intros m sid sf q0 m' q' Hs; cbn [fails_edges_lm] in Hs; [inversion Hs; reflexivity|].
      bstep Hs. destruct (ch =? sid); [discriminate|]. bstep Hs. rewrite (IHe _ _ _ _ _ _ Hs). exact (Hso _ _ _ _ E1). }
    assert (Hb : forall fuel (m : nfa V) p d m' q', fails_bfs V fuel m p d = Ok (m', q') -> n_outputs m' = n_outputs m).
    { induction fuel as [|fuel IHf]; intros m p d m' q' Hs; destruct p as [|s p]; cbn [fails_bfs] in Hs;
        try (inversion Hs; reflexivity); try discriminate.
      bstep Hs. bstep Hs. destruct a0 as [m1 news]. rewrite (IHf _ _ _ _ _ Hs). exact (Hfe _ _ _ _ _ _ _ E1). }
    assert (Hbl : forall fuel (m : nfa V) p d m' q', fails_bfs_lm V fuel m p d = Ok (m', q') -> n_outputs m' = n_outputs m).
    { induction fuel as [|fuel IHf]; intros m p d m' q' Hs; destruct p as [|s p]; cbn [fails_bfs_lm] in Hs;
        try (inversion Hs; reflexivity); try discriminate.
      bstep Hs. bstep Hs. bstep Hs. destruct a1 as [m1 news]. rewrite (IHf _ _ _ _ _ Hs).
      rewrite (Hfel _ _ _ _ _ _ _ E2). exact (Hso _ _ _ _ E1). }
    destruct (n_kind n); unfold build_fails, build_fails_leftmost in E; bstep E.
    - split; [exact (fails_bfs_PO _ _ _ _ _ _ HA E)|rewrite (Hb _ _ _ _ _ _ E); exact Ho].
    - split; [exact (fails_bfs_lm_PO _ _ _ _ _ _ HA E)|rewrite (Hbl _ _ _ _ _ _ E); exact Ho].
    - split; [exact (fails_bfs_lm_PO _ _ _ _ _ _ HA E)|rewrite (Hbl _ _ _ _ _ _ E); exact Ho]. }
  destruct H1 as [HA1 Ho1].
  unfold build_outputs in H. destruct q as [|q0 q]; [discriminate|]. destruct (q0 =? ROOT); [discriminate|].
  refine (outputs_loop_PO _ _ _ HA1 _ H). unfold OutOK. rewrite Ho1. cbn [length]. split; [unfold U32_MAX; lia|constructor].
Qed.

Lemma nfa_new_PO k : AllSt V PO (nfa_new V k).
Proof.
  intros i st Hg. unfold nfa_new in Hg. cbn [n_states] in Hg.
  destruct (N.eq_dec i 1) as [->|H1]; [rewrite ngss in Hg; inversion Hg; apply PO_default|].
  rewrite ngso in Hg by exact H1. destruct (N.eq_dec i 0) as [->|H0]; [rewrite ngss in Hg; inversion Hg; apply PO_default|].
  rewrite ngso in Hg by exact H0. rewrite nget_empty in Hg. discriminate.
Qed.
End NfaOut.

(* ---- double-array level, byte-wise: array length <= u32::MAX, packed word < 2^32 ----------------- *)
Section DaRanges.
Variable V : Type.

Definition Q (s : bstate) : Prop := pk_a (b_opos_ch s) <= U24_MAX.
Definition RQ (a : barr) : Prop :=
  ba_len a <= U32_MAX /\ forall i s, nget i (ba_map a) = Some s -> Q s.

Lemma Q_default : Q bstate_default.
Proof. unfold Q, bstate_default, pk_a, U24_MAX. cbn [b_opos_ch]. rewrite N.shiftr_0_l. lia. Qed.

Lemma ba_upd_RQ a i f a' : RQ a -> (forall s, Q s -> Q (f s)) -> ba_upd a i f = Ok a' -> RQ a' /\ ba_len a' = ba_len a.
Proof.
  intros [HL HS] Hf H. unfold ba_upd, ba_get in H. destruct (i <? ba_len a); [|discriminate].
  cbn [bind] in H. inversion H; subst a'; clear H. unfold RQ. cbn [ba_len ba_map]. split; [|reflexivity]. split; [exact HL|].
  intros j s Hg. destruct (N.eq_dec j i) as [->|Hne].
  - rewrite ngss in Hg. inversion Hg; subst s. apply Hf. destruct (nget i (ba_map a)) eqn:E; [exact (HS i b E)|exact Q_default].
  - rewrite ngso in Hg by exact Hne. exact (HS j s Hg).
Qed.

Lemma Q_set_check c s : c < 256 -> Q s -> Q (set_check c s).
Proof. intros Hc H. unfold Q, set_check in *. cbn [b_opos_ch]. rewrite pk_a_set_b by exact Hc. exact H. Qed.
Lemma Q_set_base b s : Q s -> Q (set_base b s).
Proof. intros H. exact H. Qed.
Lemma Q_set_bfail f s : Q s -> Q (set_bfail f s).
Proof. intros H. exact H. Qed.
Lemma Q_set_outpos p s : p <= U24_MAX -> Q (set_outpos p s).
Proof. intros Hp. unfold Q, set_outpos. cbn [b_opos_ch]. rewrite pk_a_set_a. exact Hp. Qed.

Lemma ric_loop_RQ : forall cs a h ub a', (forall c, In c cs -> c < 256) -> RQ a ->
  ric_loop a h ub cs = Ok a' -> RQ a' /\ ba_len a' = ba_len a.
Proof.
  induction cs as [|c cs IH]; intros a h ub a' Hc HR H; cbn [ric_loop] in H; [inversion H; subst; auto|].
  bstep H. destruct a0.
  - bstep H. destruct (ba_upd_RQ a _ _ a0 HR (fun s => Q_set_check c s (Hc c (or_introl eq_refl))) E0) as [HR1 L1].
    destruct (IH _ _ _ _ (fun c0 H0 => Hc c0 (or_intror H0)) HR1 H) as [X1 X2]. split; [exact X1|congruence].
  - exact (IH _ _ _ _ (fun c0 H0 => Hc c0 (or_intror H0)) HR H).
Qed.

Lemma remove_invalid_checks_RQ a h b a' : RQ a -> remove_invalid_checks a h b = Ok a' -> RQ a' /\ ba_len a' = ba_len a.
Proof.
  intros HR H. unfold remove_invalid_checks in H. bstep H. destruct a0 as [u|]; [|inversion H; subst; auto].
  refine (ric_loop_RQ _ _ _ _ _ _ HR H). intros c Hin. apply nseq_in in Hin. lia.
Qed.

Lemma ric_blocks_RQ : forall bs a h a', RQ a -> ric_blocks a h bs = Ok a' -> RQ a' /\ ba_len a' = ba_len a.
Proof.
  induction bs as [|b bs IH]; intros a h a' HR H; cbn [ric_blocks] in H; [inversion H; subst; auto|].
  bstep H. destruct (remove_invalid_checks_RQ _ _ _ _ HR E) as [HR1 L1].
  destruct (IH _ _ _ HR1 H) as [X1 X2]. split; [exact X1|congruence].
Qed.

Lemma extend_array_RQ a h a' h' : RQ a -> extend_array a h = Ok (a', h') -> RQ a'.
Proof.
  intros HR H. unfold extend_array in H. destruct (_ <? ba_len a) eqn:Eg; [discriminate|]. bstep H. bstep H.
  inversion H; subst a' h'; clear H.
  assert (HR1 : RQ a0 /\ ba_len a0 = ba_len a).
  { destruct (dropped_block h); [exact (remove_invalid_checks_RQ _ _ _ _ HR E)|inversion E; subst; auto]. }
  destruct HR1 as [[HL1 HS1] L1]. split; [|exact HS1]. cbn [ba_len]. apply N.ltb_ge in Eg. unfold BLOCK_LEN, U32_MAX in *. lia.
Qed.

Lemma place_children_RQ : forall es a h idmap nst base stack a' h' idmap' stack',
  (forall c t, In (c, t) es -> c < 256) -> RQ a ->
  place_children a h idmap nst base es stack = Ok (a', h', idmap', stack') -> RQ a'.
Proof.
  induction es as [|[c ch] es IH]; intros a h idmap nst base stack a' h' idmap' stack' Hl HR H; cbn [place_children] in H.
  - inversion H; subst. exact HR.
  - bstep H. bstep H. destruct (ch <? nst); [|discriminate].
    destruct (ba_upd_RQ a _ _ a1 HR (fun s => Q_set_check c s (Hl c ch (or_introl eq_refl))) E0) as [HR1 _].
    exact (IH _ _ _ _ _ _ _ _ _ _ (fun c0 t H0 => Hl c0 t (or_intror H0)) HR1 H).
Qed.

Lemma dfs_loop_RQ (n : nfa V) :
  (forall i st, nget i (n_states n) = Some st -> forall c t, In (c, t) (n_edges st) -> c < 256) ->
  forall fuel a h idmap stack a' h' idmap', RQ a ->
  dfs_loop V fuel n a h idmap stack = Ok (a', h', idmap') -> RQ a'.
Proof.
  intros HN. induction fuel as [|fuel IH]; intros a h idmap stack a' h' idmap' HR H;
    destruct stack as [|sid stack]; cbn [dfs_loop] in H; try (inversion H; subst; auto; fail); try discriminate.
  destruct (sid =? DEAD); [discriminate|]. bstep H. bstep H. destruct (a1 =? DEAD); [discriminate|].
  destruct (n_edges a0) as [|e0 es0] eqn:Ee; [exact (IH _ _ _ _ _ _ _ HR H)|]. rewrite <- Ee in H.
  bstep H. bstep H. destruct a3 as [a3 h3]. bstep H. destruct a4 as [[[a4 h4] idmap4] stack4]. bstep H. bstep H.
  assert (HR3 : RQ a3).
  { destruct (ba_len a <=? a2); [exact (extend_array_RQ _ _ _ _ HR E2)|inversion E2; subst; exact HR]. }
  pose proof (place_children_RQ _ _ _ _ _ _ _ _ _ _ _ (HN sid a0 (nfa_get_some V n sid a0 E)) HR3 E3) as HR4.
  destruct (ba_upd_RQ a4 _ _ a5 HR4 (fun s => Q_set_base a2 s) E4) as [HR5 _].
  exact (IH _ _ _ _ _ _ _ HR5 H).
Qed.

Lemma set_fails_loop_RQ (n : nfa V) : forall ids a idmap a', RQ a ->
  set_fails_loop V n a idmap ids = Ok a' -> RQ a'.
Proof.
  induction ids as [|i ids IH]; intros a idmap a' HR H; cbn [set_fails_loop] in H; [inversion H; subst; auto|].
  destruct (i =? DEAD); [exact (IH _ _ _ HR H)|]. bstep H. destruct (a0 =? DEAD); [discriminate|]. bstep H.
  destruct (U24_MAX <? n_outpos a1) eqn:Eg; [discriminate|]. bstep H. apply N.ltb_ge in Eg.
  destruct (ba_upd_RQ a _ _ a2 HR (fun s _ => Q_set_outpos _ s Eg) E1) as [HR2 _].
  destruct (n_fail a1 =? DEAD).
  - bstep H. destruct (ba_upd_RQ a2 _ _ a3 HR2 (fun s => Q_set_bfail DEAD s) E2) as [HR3 _]. exact (IH _ _ _ HR3 H).
  - bstep H. destruct (a3 =? DEAD); [discriminate|]. bstep H.
    destruct (ba_upd_RQ a2 _ _ a4 HR2 (fun s => Q_set_bfail a3 s) E3) as [HR3 _]. exact (IH _ _ _ HR3 H).
Qed.

Lemma init_array_RQ nfb a h : init_array nfb = Ok (a, h) -> RQ a.
Proof.
  unfold init_array. intros H. bstep H. bstep H. bstep H. bstep H. inversion H; subst a h; clear H.
  split; [cbn [ba_len]; unfold BLOCK_LEN, U32_MAX; lia|]. intros i s Hg. cbn [ba_map] in Hg. rewrite nget_empty in Hg. discriminate.
Qed.

Theorem build_double_array_ranges nfb (n : nfa V) sts :
  (forall i st, nget i (n_states n) = Some st -> forall c t, In (c, t) (n_edges st) -> c < 256) ->
  build_double_array V nfb n = Ok sts ->
  N.of_nat (length sts) <= U32_MAX /\ Forall Q sts.
Proof.
  intros HN H. unfold build_double_array in H.
  destruct (init_array nfb) as [[a0 h0]| | | |] eqn:E; cbn [bind] in H; try discriminate.
  destruct (dfs_loop V _ n a0 h0 _ _) as [[[a1 h1] idmap]| | | |] eqn:E0; cbn [bind] in H; try discriminate.
  destruct (set_fails_loop V n a1 idmap _) as [a2| | | |] eqn:E1; cbn [bind] in H; try discriminate.
  destruct (ric_blocks a2 h1 _) as [a3| | | |] eqn:E2; cbn [bind] in H; try discriminate.
  inversion H; subst sts; clear H.
  pose proof (init_array_RQ _ _ _ E) as HR0.
  pose proof (dfs_loop_RQ n HN _ _ _ _ _ _ _ _ HR0 E0) as HR1.
  pose proof (set_fails_loop_RQ n _ _ _ _ HR1 E1) as HR2.
  destruct (ric_blocks_RQ _ _ _ _ HR2 E2) as [[HL HS] _].
  unfold barr_to_list. rewrite map_length, nseq_len, N2Nat.id. split; [exact HL|].
  apply Forall_forall. intros s Hin. apply in_map_iff in Hin as [i [<- _]].
  destruct (nget i (ba_map a3)) eqn:Eg; [exact (HS i b Eg)|exact Q_default].
Qed.
End DaRanges.

(* ---- C09, byte-wise: every built automaton is representable ---------------------------------------- *)
Theorem bw_build_ranges_lemma (V : Type) (dom : V -> Prop) k nfb (pvs : list (list N * V)) A :
  (forall p v, In (p, v) pvs -> Forall (fun b => b < 256) p) -> (forall p v, In (p, v) pvs -> dom v) ->
  bw_build_with_values V k nfb pvs = Ok A -> bw_ranges dom A.
Proof.
  intros Hb Hd H. pose proof (bw_build_safe_lemma V k nfb pvs A Hb H) as Hsafe.
  unfold bw_build_with_values in H. destruct (nfb =? 0); [discriminate|].
  destruct (bw_build_sparse_nfa V k pvs) as [n| | | |] eqn:En; cbn [bind] in H; try discriminate.
  destruct (build_double_array V nfb n) as [sts| | | |] eqn:Ed; cbn [bind] in H; try discriminate.
  destruct (U32_MAX <? n_nstates n - 1) eqn:Ens; [discriminate|]. inversion H; subst A; clear H.
  destruct (bw_sparse_nfa_inv V k pvs n Hb En) as [HA HO].
  assert (HOut : OutOK V dom n).
  { unfold bw_build_sparse_nfa in En. destruct (add_all V (fun _ => 1) (nfa_new V k) pvs) as [n0| | | |] eqn:Ea; cbn [bind] in En; try discriminate.
    destruct (n_len n0 =? 0); [discriminate|]. destruct (U24_MAX <? n_len n0); [discriminate|].
    pose proof (add_all_PO V (fun _ => 1) dom pvs _ n0 Hd (nfa_new_PO V dom k) Ea) as HP.
    destruct (add_all_inv V pvs _ n0 Hb (nfa_new_PLO V k) eq_refl Ea) as [_ Ho0].
    exact (finish_nfa_PO V (fun _ => 1) dom n0 n HP Ho0 En). }
  assert (HN : forall i st, nget i (n_states n) = Some st -> forall c t, In (c, t) (n_edges st) -> c < 256)
    by (intros i st Hg; exact (proj2 (HA i st Hg))).
  destruct (build_double_array_ranges V nfb n sts HN Ed) as [HL HQ].
  destruct HOut as [HLo HFo].
  unfold bw_safe_b in Hsafe. cbn [bw_states bw_outputs] in Hsafe. rewrite !andb_true_iff in Hsafe.
  destruct Hsafe as [[[_ _] Hslots] Hpar].
  unfold bw_ranges. cbn [bw_states bw_outputs bw_num_states]. unfold u32. split; [|split; [|split; [|split]]].
  - apply Forall_forall. intros s Hin. rewrite forallb_forall in Hslots. specialize (Hslots s Hin).
    unfold bw_slot_ok in Hslots. rewrite !andb_true_iff in Hslots. destruct Hslots as [[Hbase Hfail] _].
    rewrite Forall_forall in HQ. specialize (HQ s Hin). unfold bstate_ok, u32. unfold U32_MAX in *. split; [|split].
    + apply orb_true_iff in Hbase. destruct Hbase as [Hb0|Hb1]; lia.
    + lia.
    + exact (pk_word_bound _ HQ).
  - apply Forall_forall. intros o Hin. rewrite forallb_forall in Hpar. specialize (Hpar o Hin).
    rewrite Forall_forall in HFo. destruct (HFo o Hin) as [Hlen Hv]. unfold output_ok, u32. unfold U32_MAX in *. split; [exact Hv|]. split; lia.
  - unfold U32_MAX in *. lia.
  - unfold U32_MAX in *. lia.
  - apply N.ltb_ge in Ens. unfold U32_MAX in *. lia.
Qed.

(* ================================================================================================= *)
(* ---- character-wise ---------------------------------------------------------------------------- *)
From DV Require Import Model.Utf8 Model.CwBuild Proofs.CwBuildSafe.

Section CwRanges.
Variable V : Type.

Definition RC (a : carr) : Prop :=
  0 < ca_len a /\ ca_len a <= U32_MAX /\ forall i s, nget i (ca_map a) = Some s -> c_check s <= U32_MAX.
Definition IMU (idmap : nmap N) : Prop := forall i x, nget i idmap = Some x -> x <= U32_MAX.

Lemma ca_upd_RC a i f a' : RC a -> (forall s, c_check s <= U32_MAX -> c_check (f s) <= U32_MAX) ->
  ca_upd a i f = Ok a' -> RC a' /\ ca_len a' = ca_len a /\ i < ca_len a.
Proof.
  intros (H0 & HL & HS) Hf H. unfold ca_upd, ca_get in H. destruct (i <? ca_len a) eqn:Ei; [|discriminate].
  cbn [bind] in H. inversion H; subst a'; clear H. unfold RC. cbn [ca_len ca_map]. split; [|split; [reflexivity|lia]]. split; [exact H0|]. split; [exact HL|].
  intros j s Hg. destruct (N.eq_dec j i) as [->|Hne].
  - rewrite ngss in Hg. inversion Hg; subst s. apply Hf. destruct (nget i (ca_map a)) eqn:E; [exact (HS i c E)|].
    unfold cstate_default, DEAD, U32_MAX. cbn [c_check]. lia.
  - rewrite ngso in Hg by exact Hne. exact (HS j s Hg).
Qed.

Lemma cw_extend_array_RC bl a h a' h' : RC a -> cw_extend_array bl a h = Ok (a', h') -> RC a'.
Proof.
  intros (H0 & HL & HS) H. unfold cw_extend_array in H. destruct (_ <? ca_len a) eqn:Eg; [discriminate|]. bstep H.
  inversion H; subst a' h'; clear H. apply N.ltb_ge in Eg. unfold RC. cbn [ca_len ca_map]. unfold U32_MAX in *. split; [lia|]. split; [lia|exact HS].
Qed.

Lemma cw_place_children_RC : forall es a h idmap nst base sidx stack a' h' idmap' stack',
  sidx <= U32_MAX -> RC a -> IMU idmap ->
  cw_place_children a h idmap nst base sidx es stack = Ok (a', h', idmap', stack') -> RC a' /\ IMU idmap'.
Proof.
  induction es as [|[c ch] es IH]; intros a h idmap nst base sidx stack a' h' idmap' stack' Hs HR HI H; cbn [cw_place_children] in H.
  - inversion H; subst. auto.
  - bstep H. bstep H. destruct (ch <? nst); [|discriminate].
    destruct (ca_upd_RC a _ (cset_check sidx) a1 HR (fun s _ => Hs) E0) as (HR1 & L1 & Hlt).
    refine (IH _ _ _ _ _ _ _ _ _ _ _ Hs HR1 _ H).
    intros i x Hg. destruct (N.eq_dec i ch) as [->|Hne]; [rewrite ngss in Hg; inversion Hg; subst; destruct HR as (? & ? & ?); lia|].
    rewrite ngso in Hg by exact Hne. exact (HI i x Hg).
Qed.

Lemma cidmap_get_IMU idmap len i x : IMU idmap -> cidmap_get idmap len i = Ok x -> x <= U32_MAX.
Proof.
  intros HI H. unfold cidmap_get in H. destruct (i <? len); [|discriminate]. inversion H; subst x.
  destruct (nget i idmap) eqn:E; [exact (HI i n E)|unfold DEAD, U32_MAX; lia].
Qed.

Lemma cw_dfs_loop_RC tbl bl (n : nfa V) : forall fuel a h idmap stack a' h' idmap', RC a -> IMU idmap ->
  cw_dfs_loop V fuel tbl bl n a h idmap stack = Ok (a', h', idmap') -> RC a' /\ IMU idmap'.
Proof.
  induction fuel as [|fuel IH]; intros a h idmap stack a' h' idmap' HR HI H;
    destruct stack as [|sid stack]; cbn [cw_dfs_loop] in H; try (inversion H; subst; auto; fail); try discriminate.
  destruct (sid =? DEAD); [discriminate|]. bstep H. bstep H. destruct (a1 =? DEAD); [discriminate|].
  destruct (n_edges a0) as [|e0 es0] eqn:Ee; [exact (IH _ _ _ _ _ _ _ HR HI H)|]. rewrite <- Ee in H.
  bstep H. bstep H. bstep H. destruct a4 as [a4 h4]. bstep H. destruct a5 as [[[a5 h5] idmap5] stack5]. bstep H.
  pose proof (cidmap_get_IMU _ _ _ _ HI E0) as Hs.
  assert (HR4 : RC a4).
  { destruct (ca_len a <=? a3); [exact (cw_extend_array_RC _ _ _ _ _ HR E3)|inversion E3; subst; exact HR]. }
  destruct (cw_place_children_RC _ _ _ _ _ _ _ _ _ _ _ _ Hs HR4 HI E4) as [HR5 HI5].
  destruct (ca_upd_RC a5 _ (cset_base a3) a6 HR5 (fun s Hc => Hc) E5) as (HR6 & _ & _).
  exact (IH _ _ _ _ _ _ _ HR6 HI5 H).
Qed.

Lemma cw_set_fails_loop_RC (n : nfa V) : forall ids a idmap a', RC a ->
  cw_set_fails_loop V n a idmap ids = Ok a' -> RC a'.
Proof.
  induction ids as [|i ids IH]; intros a idmap a' HR H; cbn [cw_set_fails_loop] in H; [inversion H; subst; auto|].
  destruct (i =? DEAD); [exact (IH _ _ _ HR H)|]. bstep H. destruct (a0 =? DEAD); [discriminate|]. bstep H. bstep H.
  destruct (ca_upd_RC a _ (cset_outpos (n_outpos a1)) a2 HR (fun s Hc => Hc) E1) as (HR2 & _ & _).
  destruct (n_fail a1 =? DEAD).
  - bstep H. destruct (ca_upd_RC a2 _ (cset_fail DEAD) a3 HR2 (fun s Hc => Hc) E2) as (HR3 & _ & _). exact (IH _ _ _ HR3 H).
  - bstep H. destruct (a3 =? DEAD); [discriminate|]. bstep H.
    destruct (ca_upd_RC a2 _ (cset_fail a3) a4 HR2 (fun s Hc => Hc) E3) as (HR3 & _ & _). exact (IH _ _ _ HR3 H).
Qed.

(* the frequency table is as long as the largest pattern character + 1 *)
Lemma fq_bump_le B f c : fq_len f <= B -> c < B -> fq_len (fq_bump f c) <= B.
Proof. intros H Hc. unfold fq_bump. cbn [fq_len]. destruct (fq_len f <=? c); lia. Qed.
Lemma fold_bump_le B : forall p f, fq_len f <= B -> Forall (fun c => c < B) p -> fq_len (fold_left fq_bump p f) <= B.
Proof.
  induction p as [|c p IH]; intros f H Hp; cbn [fold_left]; [exact H|]. inversion Hp; subst.
  apply IH; [apply fq_bump_le; assumption|assumption].
Qed.
Lemma cw_add_all_fq B : forall pvs (n : nfa V) f pr n' f' pr',
  (forall p v, In (p, v) pvs -> Forall (fun c => c < B) p) -> fq_len f <= B ->
  cw_add_all V n f pr pvs = Ok (n', f', pr') -> fq_len f' <= B.
Proof.
  induction pvs as [|[p v] r IH]; intros n f pr n' f' pr' Hp Hf H; cbn [cw_add_all] in H; [inversion H; subst; exact Hf|].
  bstep H. refine (IH _ _ _ _ _ _ (fun q w Hq => Hp q w (or_intror Hq)) _ H).
  apply fold_bump_le; [exact Hf|exact (Hp p v (or_introl eq_refl))].
Qed.
Lemma cw_add_all_PO (okv : V -> Prop) : forall pvs (n : nfa V) f pr n' f' pr',
  (forall p v, In (p, v) pvs -> okv v) -> AllSt V (PO V okv) n ->
  cw_add_all V n f pr pvs = Ok (n', f', pr') -> AllSt V (PO V okv) n'.
Proof.
  induction pvs as [|[p v] r IH]; intros n f pr n' f' pr' Hv HA H; cbn [cw_add_all] in H; [inversion H; subst; exact HA|].
  bstep H. refine (IH _ _ _ _ _ _ (fun q w Hq => Hv q w (or_intror Hq)) _ H).
  exact (add_PO V len_utf8 okv n p v a (Hv p v (or_introl eq_refl)) HA E).
Qed.

(* ---- C09, character-wise: every built automaton is representable ---------------------------------- *)
Theorem cw_build_ranges_lemma (dom : V -> Prop) k nfb (pvs : list (list N * V)) A :
  (forall p v, In (p, v) pvs -> Forall (fun c => c < 1114112) p) -> (forall p v, In (p, v) pvs -> dom v) ->
  cw_build_with_values V k nfb pvs = Ok A -> cw_ranges dom A.
Proof.
  intros Hp Hd H. pose proof (cw_build_safe_lemma V k nfb pvs A H) as Hsafe.
  unfold cw_build_with_values in H. destruct (nfb =? 0); [discriminate|].
  destruct (cw_add_all V (nfa_new V k) _ [] pvs) as [[[n0 f] pr]| | | |] eqn:Ea; cbn [bind] in H; try discriminate.
  destruct (n_len n0 =? 0); [discriminate|].
  destruct (finish_nfa V n0) as [n| | | |] eqn:Ef; cbn [bind] in H; try discriminate.
  set (mp := mapper_new f pr) in *.
  destruct (cw_init_array (mp_alpha mp) nfb) as [[[a0 h0] b]| | | |] eqn:Ei; cbn [bind] in H; try discriminate.
  destruct (cw_dfs_loop V _ _ b n a0 h0 _ _) as [[[a1 h1] idmap]| | | |] eqn:Edf; cbn [bind] in H; try discriminate.
  destruct (cw_set_fails_loop V n a1 idmap _) as [a2| | | |] eqn:Es; cbn [bind] in H; try discriminate.
  destruct (U32_MAX <? n_nstates n - 1) eqn:Ens; [discriminate|]. inversion H; subst A; clear H.
  (* the output table *)
  destruct (cw_add_all_inv V pvs _ _ _ _ _ _ (nfa_new_PLO_any V k) eq_refl Ea) as [_ Ho0].
  pose proof (cw_add_all_PO dom pvs _ _ _ _ _ _ Hd (nfa_new_PO V dom k) Ea) as HP.
  destruct (finish_nfa_PO V len_utf8 dom n0 n HP Ho0 Ef) as [HLo HFo].
  (* the array *)
  destruct (cw_init_array_inv _ _ _ _ _ Ei) as (Hb & Hbu & _).
  assert (HR0 : RC a0).
  { unfold cw_init_array in Ei. bstep Ei. bstep Ei. bstep Ei. bstep Ei. inversion Ei; subst. unfold RC. cbn [ca_len ca_map]. split; [lia|]. split; [exact Hbu|].
    intros i s Hg. cbn [ca_map] in Hg. rewrite nget_empty in Hg. discriminate. }
  assert (HI0 : IMU (nset ROOT ROOT nempty)).
  { intros i x Hg. destruct (N.eq_dec i ROOT) as [->|Hne]; [rewrite ngss in Hg; inversion Hg; unfold ROOT, U32_MAX; lia|].
    rewrite ngso in Hg by exact Hne. rewrite nget_empty in Hg. discriminate. }
  destruct (cw_dfs_loop_RC _ _ n _ _ _ _ _ _ _ _ HR0 HI0 Edf) as [HR1 _].
  destruct (cw_set_fails_loop_RC n _ _ _ _ HR1 Es) as (_ & HL & HC).
  (* the mapper *)
  assert (Hfq : fq_len f <= 1114112).
  { refine (cw_add_all_fq 1114112 pvs _ _ _ _ _ _ Hp _ Ea). cbn [fq_len]. lia. }
  assert (Halpha : mp_alpha mp <= U32_MAX).
  { pose proof (block_len_ge (mp_alpha mp)) as Hge. rewrite <- Hb in Hge. specialize (Hge Hbu). lia. }
  unfold cw_safe_b in Hsafe. cbn [cw_states cw_outputs cw_mapper] in Hsafe. rewrite !andb_true_iff in Hsafe.
  destruct Hsafe as [[[_ _] Hslots] Hpar].
  unfold cw_ranges. cbn [cw_states cw_mapper cw_outputs cw_num_states]. unfold u32.
  assert (Hlen : N.of_nat (length (carr_to_list a2)) = ca_len a2) by (unfold carr_to_list; rewrite map_length, nseq_len, N2Nat.id; reflexivity).
  split; [|split; [|split; [|split; [|split]]]].
  - apply Forall_forall. intros s Hin. rewrite forallb_forall in Hslots. pose proof (Hslots s Hin) as Hsl.
    unfold cw_slot_ok in Hsl. rewrite !andb_true_iff in Hsl. destruct Hsl as [[Hbase Hfail] Hop].
    rewrite Hlen in *. unfold cstate_ok, u32.
    assert (Hck : c_check s <= U32_MAX).
    { unfold carr_to_list in Hin. apply in_map_iff in Hin as [i [<- _]].
      destruct (nget i (ca_map a2)) eqn:Eg; [exact (HC i c Eg)|unfold cstate_default, DEAD, U32_MAX; cbn [c_check]; lia]. }
    unfold U32_MAX in *. repeat split; [apply orb_true_iff in Hbase; destruct Hbase; lia|lia|lia|lia].
  - unfold mapper_ok, u32. split; [|split].
    + apply Forall_forall. intros x Hx. destruct (mapper_new_codes f pr x Hx) as [->|Hlt]; [unfold INVALID_CODE; lia|fold mp in Hlt; unfold U32_MAX in *; lia].
    + unfold mp, mapper_new. cbn [mp_table]. rewrite map_length, nseq_len, N2Nat.id. lia.
    + unfold U32_MAX in *. lia.
  - apply Forall_forall. intros o Hin. rewrite forallb_forall in Hpar. specialize (Hpar o Hin).
    rewrite Forall_forall in HFo. destruct (HFo o Hin) as [Hl Hv]. unfold output_ok, u32. unfold U32_MAX in *. split; [exact Hv|]. split; lia.
  - rewrite Hlen. unfold U32_MAX in *. lia.
  - unfold U32_MAX in *. lia.
  - apply N.ltb_ge in Ens. unfold U32_MAX in *. lia.
Qed.
End CwRanges.
