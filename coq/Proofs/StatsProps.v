(* StatsProps.v — C15: for a certified automaton whose reported state count equals the node count
   of the goto tree and 1 + the number of distinct non-empty pattern prefixes, the nodes of the
   goto tree are exactly the root and those prefixes, every one reachable from the root. *)
From DV Require Import Model.Base Model.Nfa Model.BwBuild Model.BwSearch Model.Spec Model.Cert
     Proofs.GenAC Proofs.BwCert.
From Coq Require Import ZifyN ZifyNat ZifyBool.
Local Open Scope N_scope.

Section Tree.
Variable child : N -> N -> res (option N).
Variable labels : list N.
Hypothesis child_labels : forall s c, ~ In c labels -> child s c = Ok None.
Hypothesis labels_nodup : NoDup labels.

Notation walk := (Cert.walk child).
Notation tree_nodes := (Cert.tree_nodes child labels).
Notation tree_count := (Cert.tree_count child labels).

Lemma count_fold (g : N -> list (list N)) (k : N -> N) :
  (forall c, k c = N.of_nat (length (g c))) ->
  forall l acc, fold_left (fun a c => a + k c) l acc = acc + N.of_nat (length (flat_map g l)).
Proof.
  intros Hk. induction l as [|c l IH]; intros acc; cbn [fold_left flat_map]; [cbn; lia|].
  rewrite IH, app_length, Hk. lia.
Qed.

Lemma fold_match (ch : N -> res (option N)) (K : N -> N) : forall (l : list N) acc,
  fold_left (fun a c => match ch c with Ok (Some t) => a + K t | _ => a end) l acc
  = fold_left (fun a c => a + match ch c with Ok (Some t) => K t | _ => 0 end) l acc.
Proof.
  induction l as [|c l IH]; intros acc; cbn [fold_left]; [reflexivity|].
  rewrite IH. f_equal. destruct (ch c) as [[t|]| | | |]; lia.
Qed.

Lemma tree_count_nodes : forall fuel s u, tree_count fuel s = N.of_nat (length (tree_nodes fuel s u)).
Proof.
  induction fuel as [|f IH]; intros s u; [reflexivity|]. cbn [Cert.tree_count Cert.tree_nodes length].
  rewrite Nat2N.inj_succ, <- N.add_1_l.
  rewrite (fold_match (child s) (tree_count f)).
  apply (count_fold (fun c => match child s c with Ok (Some t) => tree_nodes f t (u ++ [c]) | _ => [] end)
                    (fun c => match child s c with Ok (Some t) => tree_count f t | _ => 0 end)).
  intros c. destruct (child s c) as [[t|]| | | |]; try reflexivity. apply IH.
Qed.

Lemma walk_cons s c v : walk s (c :: v) = match child s c with Ok (Some t) => walk t v | _ => None end.
Proof. reflexivity. Qed.

Lemma in_tree_nodes : forall fuel s u w,
  In w (tree_nodes fuel s u) <-> exists v, w = u ++ v /\ (length v < fuel)%nat /\ isSome (walk s v) = true.
Proof.
  induction fuel as [|f IH]; intros s u w; cbn [Cert.tree_nodes].
  - split; [intros []|intros (v & _ & H & _); lia].
  - cbn [In]. rewrite in_flat_map. split.
    + intros [<-|(c & Hc & Hin)].
      * exists []. rewrite app_nil_r. repeat split; cbn; lia.
      * destruct (child s c) as [[t|]| | | |] eqn:E; try (destruct Hin).
        apply IH in Hin as (v & -> & Hl & Hw). exists (c :: v). rewrite <- app_assoc. cbn [app].
        repeat split; [cbn [length]; lia|]. rewrite walk_cons, E. exact Hw.
    + intros (v & -> & Hl & Hw). destruct v as [|c v]; [left; rewrite app_nil_r; reflexivity|].
      right. rewrite walk_cons in Hw. destruct (child s c) as [[t|]| | | |] eqn:E; try discriminate.
      exists c. split.
      * destruct (in_dec N.eq_dec c labels) as [H|H]; [exact H|]. rewrite (child_labels s c H) in E. discriminate.
      * rewrite E. apply IH. exists v. rewrite <- app_assoc. cbn [app length] in *. repeat split; [lia|exact Hw].
Qed.

Lemma app_inj_l {X} (u a b : list X) : u ++ a = u ++ b -> a = b.
Proof. apply app_inv_head. Qed.

Lemma nodup_app {X} (a b : list X) :
  NoDup a -> NoDup b -> (forall x, In x a -> In x b -> False) -> NoDup (a ++ b).
Proof.
  induction a as [|x a IH]; intros Ha Hb Hd; [exact Hb|]. cbn [app]. inversion Ha; subst. constructor.
  - intros Hin. apply in_app_or in Hin as [H|H]; [contradiction|]. apply (Hd x); [left; reflexivity|exact H].
  - apply IH; auto. intros y Hy. apply Hd. right. exact Hy.
Qed.

Lemma nodup_flat_map_shape (g : N -> list (list N)) (u : list N) : forall l : list N,
  NoDup l -> (forall c, NoDup (g c)) -> (forall c x, In x (g c) -> exists v, x = u ++ c :: v) ->
  NoDup (flat_map g l).
Proof.
  induction l as [|c l IH]; intros Hn Hg Hs; cbn [flat_map]; [constructor|].
  inversion Hn as [|? ? Hnot Hn']; subst. apply nodup_app; [apply Hg|apply IH; assumption|].
  intros x Hx Hy. destruct (Hs c x Hx) as [v ->].
  apply in_flat_map in Hy as (d & Hd & Hin). destruct (Hs d _ Hin) as [v' E].
  apply app_inv_head in E. inversion E; subst. contradiction.
Qed.

Lemma tree_nodes_nodup : forall fuel s u, NoDup (tree_nodes fuel s u).
Proof.
  induction fuel as [|f IH]; intros s u; cbn [Cert.tree_nodes]; [constructor|].
  constructor.
  - rewrite in_flat_map. intros (c & _ & Hin). destruct (child s c) as [[t|]| | | |]; try (destruct Hin).
    apply in_tree_nodes in Hin as (v & E & _). rewrite <- app_assoc in E.
    apply (f_equal (@length N)) in E. rewrite !app_length in E. cbn [length] in E. lia.
  - apply (nodup_flat_map_shape _ u); [exact labels_nodup| |].
    + intros c. destruct (child s c) as [[t|]| | | |]; try constructor. apply IH.
    + intros c x Hx. destruct (child s c) as [[t|]| | | |]; try (destruct Hx).
      apply in_tree_nodes in Hx as (v & -> & _). exists v. rewrite <- app_assoc. reflexivity.
Qed.

(* a passed tree check bounds the depth of every node by the fuel *)
Section Depth.
Variable V : Type.
Variable veqb : V -> V -> bool.
Variable failof outposof : N -> res N.
Variable outat : N -> res (output V).
Variable plen : list N -> N.
Variable pvs : list (list N * V).
Variable maxdepth nouts : nat.

Lemma tree_ok_depth : forall v fuel s u t,
  tree_ok V veqb child failof outposof outat labels plen pvs fuel maxdepth nouts s u = true ->
  walk s v = Some t -> (length v < fuel)%nat.
Proof.
  induction v as [|c v IH]; intros fuel s u t H Hw; destruct fuel as [|f]; try discriminate; cbn [length]; [lia|].
  cbn [tree_ok] in H. apply andb_true_iff in H as [_ Hc]. rewrite forallb_forall in Hc.
  rewrite walk_cons in Hw. destruct (child s c) as [[t'|]| | | |] eqn:E; try discriminate.
  assert (In c labels) as Hin.
  { destruct (in_dec N.eq_dec c labels) as [H|H]; [exact H|]. rewrite (child_labels s c H) in E. discriminate. }
  specialize (Hc c Hin). rewrite E in Hc. specialize (IH f t' (u ++ [c]) t Hc Hw). lia.
Qed.
End Depth.
End Tree.

(* ---- distinct non-empty prefixes -------------------------------------------------------------- *)
Lemma existsb_eqb_in (x : list N) l : existsb (list_eqb x) l = true <-> In x l.
Proof.
  rewrite existsb_exists. split.
  - intros [y [Hy He]]. apply list_eqb_eq in He. subst. exact Hy.
  - intros H. exists x. split; [exact H|]. apply list_eqb_eq. reflexivity.
Qed.

Lemma dedup_in l x : In x (dedup l) <-> In x l.
Proof.
  induction l as [|y l IH]; cbn [dedup]; [tauto|].
  destruct (existsb (list_eqb y) l) eqn:E.
  - apply existsb_eqb_in in E. rewrite IH. cbn. split; [auto|]. intros [<-|H]; auto.
  - cbn [In]. rewrite IH. tauto.
Qed.

Lemma dedup_nodup l : NoDup (dedup l).
Proof.
  induction l as [|y l IH]; cbn [dedup]; [constructor|].
  destruct (existsb (list_eqb y) l) eqn:E; [exact IH|]. constructor; [|exact IH].
  rewrite dedup_in. intros H. apply existsb_eqb_in in H. congruence.
Qed.

Lemma in_prefixes_of p u : In u (prefixes_of p) -> u <> [] /\ exists w, p = u ++ w.
Proof.
  revert u; induction p as [|x p IH]; intros u; cbn [prefixes_of]; [intros []|].
  intros [<-|H].
  - split; [discriminate|]. exists p. reflexivity.
  - apply in_map_iff in H as (u' & <- & Hin). split; [discriminate|].
    destruct (IH u' Hin) as [_ [w ->]]. exists w. reflexivity.
Qed.

Lemma nseq_nodup : forall n a, NoDup (nseq a n).
Proof.
  induction n as [|n IH]; intros a; cbn [nseq]; constructor; [|apply IH].
  intros H. apply nseq_In in H. lia.
Qed.

Section BwStats.
Variable V : Type.
Variable veqb : V -> V -> bool.
Hypothesis veqb_sound : forall a b, veqb a b = true -> a = b.
Variable A : bw_automaton V.
Variable pvs : list (list N * V).
Hypothesis CERT : bw_cert_ok veqb A pvs = true.
Hypothesis STATS : bw_stats_ok A pvs = true.

Let sget := bw_sget V A.
Let child := bwc_child sget.
Let D := distinct_nonempty_prefixes V pvs.
Let F := S (max_plen V pvs).
Let T := tree_nodes child byte_labels F ROOT [].

Lemma child_labels' : forall s c, ~ In c byte_labels -> child s c = Ok None.
Proof.
  intros s c H. unfold child, bwc_child. destruct (c <? 256) eqn:E; [|reflexivity].
  exfalso. apply H. apply nseq_In. lia.
Qed.

Lemma cert_tree' :
  tree_ok V veqb child (bwc_failof sget) (bwc_outposof sget) (bwc_outat V (bw_oget V A)) byte_labels bwc_plen pvs
          F (S (length (bw_states A))) (length (bw_outputs A)) ROOT [] = true.
Proof.
  pose proof CERT as C0. unfold bw_cert_ok, bwc_cert_ok, cert_ok in C0. rewrite !andb_true_iff in C0.
  destruct C0 as (_ & H & _). exact H.
Qed.

Lemma node_in_T w s : Cert.walk child ROOT w = Some s -> In w T.
Proof.
  intros Hw. apply in_tree_nodes; [exact child_labels'|]. exists w. split; [reflexivity|]. split.
  - eapply tree_ok_depth; [exact child_labels'|exact cert_tree'|exact Hw].
  - rewrite Hw. reflexivity.
Qed.

Lemma D_nodes u : In u D -> u <> [] /\ exists s, Cert.walk child ROOT u = Some s.
Proof.
  unfold D, distinct_nonempty_prefixes. rewrite dedup_in, in_flat_map. intros ([p v] & Hin & Hu).
  cbn [fst] in Hu. apply in_prefixes_of in Hu as [Hne [w Hw]]. split; [exact Hne|].
  destruct (pats_nodes V veqb A pvs CERT p v Hin) as [_ HT].
  subst p. apply (inT_app_l child) in HT. unfold Cert.inT in HT.
  destruct (Cert.walk child ROOT u) as [s|]; [eauto|discriminate].
Qed.

Theorem bw_stats_truthful_lemma :
  bw_num_states A = 1 + N.of_nat (length D)
  /\ (forall u, In u D -> exists s, Cert.walk child ROOT u = Some s)
  /\ (forall w s, Cert.walk child ROOT w = Some s -> w = [] \/ In w D)
  /\ bw_num_states A <= N.of_nat (length (bw_states A)).
Proof.
  pose proof STATS as S0. unfold bw_stats_ok in S0. rewrite !andb_true_iff in S0. destruct S0 as ((H1 & H2) & H3).
  apply N.eqb_eq in H1. apply N.eqb_eq in H2. apply N.leb_le in H3.
  assert (Hcnt : bw_cert_count A pvs = N.of_nat (length T)).
  { unfold bw_cert_count, cert_count. apply tree_count_nodes. exact child_labels'. }
  split; [rewrite H1; exact H2|]. split; [intros u Hu; apply D_nodes; exact Hu|]. split; [|exact H3].
  assert (Hlen : length T = S (length D)).
  { apply Nat2N.inj. rewrite Nat2N.inj_succ, <- N.add_1_l, <- Hcnt. exact H2. }
  assert (Hincl : incl T ([] :: D)).
  { apply NoDup_length_incl.
    - constructor; [intros H; apply D_nodes in H as [H _]; congruence|apply dedup_nodup].
    - cbn [length]. rewrite Hlen. apply le_n.
    - intros x [<-|Hx]; [apply (node_in_T [] ROOT); reflexivity|].
      destruct (D_nodes x Hx) as [_ [s Hs]]. eapply node_in_T. exact Hs. }
  intros w s Hw. destruct (Hincl w (node_in_T w s Hw)) as [<-|H]; auto.
Qed.
End BwStats.
